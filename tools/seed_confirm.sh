#!/bin/bash
# usage: seed_confirm.sh <ID> <n> <srcdir>  — confirm one seeded change independently and store it under /verif/seeded/<ID>/
# steps: patch applies to /repo; unedited suite passes with it; demonstration passes on the clean tree and fails with the change;
#        the registered quick check reports VIOLATION with the change and passes without. Nothing is committed to /repo.
set -u
export VERIF_EVIDENCE_DIR=$(mktemp -d /tmp/seed_evidence.XXXXXX)   # never overwrite the committed evidence with a run on a modified tree
trap 'rm -rf "$VERIF_EVIDENCE_DIR"' EXIT
id="$1"; n="$2"; src="$3"; dn="${4:-$2}"   # dn: number under which the change is stored
out=/verif/seeded/$id; mkdir -p "$out"
cd /repo || exit 2
git diff --quiet || { echo "/repo dirty"; exit 2; }
res() { echo "$1" >> "$out/confirm$dn.log"; }
: > "$out/confirm$dn.log"
git apply --check "$src/patch$n.diff" 2>/dev/null || { res "patch does not apply on current tree"; echo "$id/$n: NOAPPLY"; exit 3; }
demo_clean=$(PYTHONPATH=/repo/src timeout 600 /venv/bin/python "$src/demo$n.py" >/dev/null 2>&1; echo $?)
git apply "$src/patch$n.diff"
suite=$(timeout 900 /venv/bin/python -m pytest -q -p no:cacheprovider 2>&1 | tail -1)
demo_seeded=$(PYTHONPATH=/repo/src timeout 600 /venv/bin/python "$src/demo$n.py" >/dev/null 2>&1; echo $?)
cd /verif
chk=$(VERIF_SEED=1 timeout 1200 /venv/bin/python tools/check.py "$id" --tier quick 2>&1); rc=$?
git -C /repo checkout -- .
viol=$(echo "$chk" | grep -c "^VIOLATION property=$id")
first=$(echo "$chk" | grep -v "^VIOLATION\|quick seed" | head -2 | cut -c1-300)
res "suite with change: $suite"
res "demo on clean tree: exit $demo_clean ; demo with change: exit $demo_seeded"
res "check.py $id --tier quick with change: exit $rc, VIOLATION lines: $viol"
res "$first"
cp "$src/patch$n.diff" "$out/patch$dn.diff"; cp "$src/demo$n.py" "$out/demo$dn.py"; cp "$src/notes$n.md" "$out/notes$dn.md" 2>/dev/null
echo "$id/$dn: suite=[$suite] demo clean=$demo_clean seeded=$demo_seeded check rc=$rc viol=$viol"
