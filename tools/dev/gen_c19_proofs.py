#!/usr/bin/env python3
"""development aid: instantiates the C19 proof template for the six (solver, branch) combinations and writes
lean/DiffcalcProofs/Props/C19.lean.  The output is committed and checked by lake like any hand-written proof file;
it refers to the GENERATED definitions (Gen/FixedQ.lean) by name only."""
import os
HERE = os.path.dirname(os.path.abspath(__file__))
OUT = os.path.join(HERE, "..", "..", "lean", "DiffcalcProofs", "Props", "C19.lean")

# solver ns, fixed var, branch, tested coefficient, first unknown, other unknown, dividing coefficient t
COMBOS = [
    ("SolveH", "h", "T", "b", "l", "k", "b"),
    ("SolveH", "h", "F", "b", "k", "l", "c"),
    ("SolveK", "k", "T", "a", "l", "h", "a"),
    ("SolveK", "k", "F", "a", "h", "l", "c"),
    ("SolveL", "l", "T", "a", "k", "h", "a"),
    ("SolveL", "l", "F", "a", "h", "k", "b"),
]
COEF = {"h": "a", "k": "b", "l": "c"}
PROJ = {"h": "1", "k": "2.1", "l": "2.2"}

HEAD = '''import Diffcalc.Gen.FixedQ
import DiffcalcProofs.Lemmas.RealLinalg
/-!
# C19 — the fixed-index / fixed-|Q| solver returns exactly the plane–sphere intersection

Model: `Gen/FixedQ.lean`, GENERATED from `src/diffcalc/util.py` on every run (tie T) — the theorems are re-checked
against what the code says now.  For each of the three solvers and each of the two coefficient branches one polynomial
identity (`*_ident`, checked by `ring`) relates the code's divisor / coefficient / discriminant to the sphere
equation restricted to the plane; soundness (both returned triples lie on plane and sphere, fixed index kept),
completeness (every intersection point is one of the two), tangency (equal iff discriminant = 0) and rejection
(negative discriminant: no real intersection) follow from it.

(This file is produced by `tools/dev/gen_c19_proofs.py` from one proof template; it is ordinary Lean source.)
-/
namespace C19
open Gen
noncomputable section

def OnPlane (a b c d : ℝ) (v : ℝ × ℝ × ℝ) : Prop := a * v.1 + b * v.2.1 + c * v.2.2 = d
def OnSphere (B : M3 ℝ) (q : ℝ) (v : ℝ × ℝ × ℝ) : Prop := V3.normSq (M3.mulVec B ⟨v.1, v.2.1, v.2.2⟩) = q

theorem onSphere_iff (B : M3 ℝ) (q h k l : ℝ) : OnSphere B q (h, k, l) ↔
    (B.a00 * h + B.a01 * k + B.a02 * l) ^ 2 + (B.a10 * h + B.a11 * k + B.a12 * l) ^ 2
      + (B.a20 * h + B.a21 * k + B.a22 * l) ^ 2 = q := by
  simp only [OnSphere, V3.normSq, V3.dot, M3.mulVec, pow_two]
'''


def inst(ns, x, br, tc, f1, o, t):
    p = f"{ns[-1].lower()}{br}"
    av = {"a": "a", "b": "b", "c": "c"}
    if br == "F":
        av[tc] = "0"
    A = f"{x} qval B {av['a']} {av['b']} {av['c']} d"
    dv, cf, dc = f"({ns}.divisor {A})", f"({ns}.coef{br} {A})", f"({ns}.discriminant {A})"
    sgn = "+" if br == "T" else "-"
    rem = [f"{av[COEF[v]]} * {v}" for v in "hkl" if v != o and av[COEF[v]] != "0"]
    pl = "d - " + " - ".join(rem)
    comp = {v: (f"({pl})" if v == o else f"({v} * {t})") for v in "hkl"}
    row = lambda i: f"(B.a{i}0 * {comp['h']} + B.a{i}1 * {comp['k']} + B.a{i}2 * {comp['l']}) ^ 2"
    quadbody = f"{row(0)} + {row(1)} + {row(2)} - qval * {t} ^ 2"
    coefs = " ".join(c for c in "abc" if av[c] != "0")
    Q = f"{p}_quad {x} qval B {coefs} d"
    plane = f"OnPlane {av['a']} {av['b']} {av['c']} d"
    r1, r2 = {"T": (f"(-({cf} + s * {t}) / {dv})", f"(-({cf} - s * {t}) / {dv})"),
              "F": (f"(({cf} - s * {t}) / {dv})", f"(({cf} + s * {t}) / {dv})")}[br]
    sol = f"({ns}.sol{br}s s {A})"
    unk = " ".join(v for v in "hkl" if v != x)
    other_of = lambda r: f"(({pl.replace(f'* {f1}', f'* {r}')}) / {t})"
    def triple(r):
        vals = {x: x, f1: r, o: other_of(r)}
        return f"({vals['h']}, {vals['k']}, {vals['l']})"
    return f'''
/-! ## `{ns}`, branch `{tc} {'≠' if br == 'T' else '='} 0` (unknown `{f1}` from the quadratic, `{o}` from the plane) -/

/-- `{t}²·(|B·(h,k,l)|² − q)` on the plane, as a function of the unknown `{f1}` -/
def {p}_quad ({x} qval : ℝ) (B : M3 ℝ) ({coefs} d {f1} : ℝ) : ℝ :=
  {quadbody}

/-- the polynomial identity behind this branch, for EVERY value of `{f1}` -/
theorem {p}_ident ({x} qval : ℝ) (B : M3 ℝ) ({coefs} d {f1} : ℝ) :
    ({f1} * {dv} {sgn} {cf}) ^ 2 - {t} ^ 2 * {dc} = {dv} * {Q} {f1} := by
  simp only [{p}_quad, {ns}.divisor, {ns}.coef{br}, {ns}.discriminant, rs_ofNat]
  push_cast
  ring

theorem {p}_onSphere ({x} qval : ℝ) (B : M3 ℝ) ({coefs} d {unk} : ℝ) (ht : {t} ≠ 0)
    (hp : {plane} (h, k, l)) : OnSphere B qval (h, k, l) ↔ {Q} {f1} = 0 := by
  simp only [OnPlane] at hp
  rw [onSphere_iff]
  have ho : {o} * {t} = {pl} := by linear_combination hp
  simp only [{p}_quad]
  rw [← ho]
  constructor
  · intro hq; linear_combination ({t} ^ 2) * hq
  · intro hF
    have : ((B.a00 * h + B.a01 * k + B.a02 * l) ^ 2 + (B.a10 * h + B.a11 * k + B.a12 * l) ^ 2
      + (B.a20 * h + B.a21 * k + B.a22 * l) ^ 2 - qval) * {t} ^ 2 = 0 := by linear_combination hF
    rcases mul_eq_zero.mp this with h0 | h0
    · linarith
    · exact absurd (pow_eq_zero_iff (by norm_num) |>.mp h0) ht

theorem {p}_sol_eq ({x} qval : ℝ) (B : M3 ℝ) ({coefs} d s : ℝ) :
    {sol} = ({triple(r1)}, {triple(r2)}) := by
  simp only [{ns}.sol{br}s]
  try (refine Prod.ext (Prod.ext ?_ (Prod.ext ?_ ?_)) (Prod.ext ?_ (Prod.ext ?_ ?_)) <;> simp only [] <;> ring)

theorem {p}_root_sound ({x} qval : ℝ) (B : M3 ℝ) ({coefs} d s r : ℝ) (hs : s ^ 2 = {dc}) (hdv : {dv} ≠ 0)
    (ht : {t} ≠ 0) (hr : r * {dv} {sgn} {cf} = s * {t} ∨ r * {dv} {sgn} {cf} = -(s * {t})) :
    {plane} {triple('r')} ∧ OnSphere B qval {triple('r')} := by
  have hp : {plane} {triple('r')} := by simp only [OnPlane]; field_simp; ring
  refine ⟨hp, ?_⟩
  rw [{p}_onSphere {x} qval B {coefs} d _ _ ht hp]
  have hid := {p}_ident {x} qval B {coefs} d r
  have hsq : (r * {dv} {sgn} {cf}) ^ 2 = (s * {t}) ^ 2 := by rcases hr with h1 | h1 <;> rw [h1] <;> ring
  have : {dv} * {Q} r = 0 := by linear_combination hsq - hid + ({t} ^ 2) * hs
  rcases mul_eq_zero.mp this with h0 | h0
  · exact absurd h0 hdv
  · exact h0

/-- **soundness**: both returned triples keep the fixed index, lie on the plane and on the sphere -/
theorem {p}_sound ({x} qval : ℝ) (B : M3 ℝ) ({coefs} d s : ℝ) (hs : s ^ 2 = {dc}) (hdv : {dv} ≠ 0) (ht : {t} ≠ 0) :
    ({sol}.1.{PROJ[x]} = {x} ∧ {plane} {sol}.1 ∧ OnSphere B qval {sol}.1) ∧
    ({sol}.2.{PROJ[x]} = {x} ∧ {plane} {sol}.2 ∧ OnSphere B qval {sol}.2) := by
  rw [{p}_sol_eq]
  have h1 := {p}_root_sound {x} qval B {coefs} d s {r1} hs hdv ht (Or.inr (by field_simp; ring))
  have h2 := {p}_root_sound {x} qval B {coefs} d s {r2} hs hdv ht (Or.inl (by field_simp; ring))
  exact ⟨⟨rfl, h1.1, h1.2⟩, ⟨rfl, h2.1, h2.2⟩⟩

/-- **completeness**: every point of the plane–sphere intersection with the fixed index is one of the two returned -/
theorem {p}_complete ({x} qval : ℝ) (B : M3 ℝ) ({coefs} d s {unk} : ℝ) (hs : s ^ 2 = {dc}) (hdv : {dv} ≠ 0) (ht : {t} ≠ 0)
    (hp : {plane} (h, k, l)) (hq : OnSphere B qval (h, k, l)) :
    (h, k, l) = {sol}.1 ∨ (h, k, l) = {sol}.2 := by
  rw [{p}_sol_eq]
  have hQ := ({p}_onSphere {x} qval B {coefs} d {unk} ht hp).mp hq
  have hid := {p}_ident {x} qval B {coefs} d {f1}
  have key : ({f1} * {dv} {sgn} {cf}) ^ 2 = (s * {t}) ^ 2 := by
    rw [hQ] at hid; linear_combination hid - ({t} ^ 2) * hs
  simp only [OnPlane] at hp
  have ho : {o} * {t} = {pl} := by linear_combination hp
  have hoe : {o} = ({pl}) / {t} := by field_simp; linear_combination ho
  rcases sq_eq_sq_iff_eq_or_eq_neg.mp key with h1 | h1
  · right
    have hf : {f1} = {r2} := by field_simp; linear_combination h1
    simp only [Prod.mk.injEq, true_and, and_true]
    refine ⟨?_, ?_⟩ <;> first | exact hf | exact hoe | (rw [← hf]; exact hoe) | rfl
  · left
    have hf : {f1} = {r1} := by field_simp; linear_combination h1
    simp only [Prod.mk.injEq, true_and, and_true]
    refine ⟨?_, ?_⟩ <;> first | exact hf | exact hoe | (rw [← hf]; exact hoe) | rfl

/-- **rejection**: with a negative discriminant the plane misses the sphere -/
theorem {p}_no_solution ({x} qval : ℝ) (B : M3 ℝ) ({coefs} d {unk} : ℝ) (hneg : {dc} < 0) (hdv : {dv} ≠ 0) (ht : {t} ≠ 0)
    (hp : {plane} (h, k, l)) : ¬ OnSphere B qval (h, k, l) := by
  intro hq
  have hQ := ({p}_onSphere {x} qval B {coefs} d {unk} ht hp).mp hq
  have hid := {p}_ident {x} qval B {coefs} d {f1}
  rw [hQ] at hid
  have h1 : 0 ≤ ({f1} * {dv} {sgn} {cf}) ^ 2 := sq_nonneg _
  have h2 : 0 < {t} ^ 2 := by positivity
  nlinarith

/-- **tangency**: the two returned triples coincide exactly when the discriminant vanishes -/
theorem {p}_tangent ({x} qval : ℝ) (B : M3 ℝ) ({coefs} d s : ℝ) (hs : s ^ 2 = {dc}) (hdv : {dv} ≠ 0) (ht : {t} ≠ 0) :
    {sol}.1 = {sol}.2 ↔ {dc} = 0 := by
  rw [{p}_sol_eq]
  constructor
  · intro he
    have hf : {r1} = {r2} := by
      have := congrArg (fun v : ℝ × ℝ × ℝ => v.{PROJ[f1]}) he
      simpa using this
    have : s * {t} = 0 := by
      field_simp at hf
      linarith
    have hs0 : s = 0 := by rcases mul_eq_zero.mp this with h0 | h0; exact h0; exact absurd h0 ht
    rw [← hs, hs0]; ring
  · intro h0
    have hs0 : s = 0 := by rw [h0] at hs; exact pow_eq_zero_iff (by norm_num) |>.mp hs
    subst hs0
    simp
'''


# solver ns, fixed var, tested coefficient (t of branch T), dividing coefficient of branch F, column indices (p, q) and
# coefficient names (u, w) with divisor = Σ_i (B_iq * u - B_ip * w)^2
SOLVERS = [("SolveH", "h", "b", "c", 1, 2, "b", "c"), ("SolveK", "k", "a", "c", 0, 2, "a", "c"), ("SolveL", "l", "a", "b", 0, 1, "a", "b")]


def solver_section(ns, x, tc, tf, cp, cq, u, w):
    n = ns[-1].lower()
    A = f"{x} qval B a b c d"
    av0 = {"a": "a", "b": "b", "c": "c"}; av0[tc] = "0"
    A0 = f"{x} qval B {av0['a']} {av0['b']} {av0['c']} d"
    coefsF = " ".join(cc for cc in "abc" if cc != tc)
    unk = " ".join(v for v in "hkl" if v != x)
    other = [i for i in range(3) if i not in (cp, cq)][0]
    cof = lambda i: {0: f"(B.a1{other} * B.a2{cp} - B.a1{cp} * B.a2{other})", 1: f"(B.a2{other} * B.a0{cp} - B.a2{cp} * B.a0{other})", 2: f"(B.a0{other} * B.a1{cp} - B.a0{cp} * B.a1{other})"}[i]
    return f'''
/-! ## `{ns}.solve`: control flow -/

/-- the divisor is the squared length of `{u}·B[:,{cq}] − {w}·B[:,{cp}]` -/
theorem {n}_divisor_sq ({x} qval : ℝ) (B : M3 ℝ) (a b c d : ℝ) :
    {ns}.divisor {A} = (B.a0{cq} * {u} - B.a0{cp} * {w}) ^ 2 + (B.a1{cq} * {u} - B.a1{cp} * {w}) ^ 2 + (B.a2{cq} * {u} - B.a2{cp} * {w}) ^ 2 := by
  simp only [{ns}.divisor, rs_ofNat]; push_cast; ring

/-- for an invertible matrix the divisor vanishes exactly when both free coefficients vanish (the line is undefined) -/
theorem {n}_divisor_zero_iff ({x} qval : ℝ) (B : M3 ℝ) (a b c d : ℝ) (hdet : M3.det B ≠ 0) :
    {ns}.divisor {A} = 0 ↔ ({u} = 0 ∧ {w} = 0) := by
  rw [{n}_divisor_sq]
  constructor
  · intro h0
    have e0 : B.a0{cq} * {u} - B.a0{cp} * {w} = 0 := by nlinarith [sq_nonneg (B.a0{cq} * {u} - B.a0{cp} * {w}), sq_nonneg (B.a1{cq} * {u} - B.a1{cp} * {w}), sq_nonneg (B.a2{cq} * {u} - B.a2{cp} * {w})]
    have e1 : B.a1{cq} * {u} - B.a1{cp} * {w} = 0 := by nlinarith [sq_nonneg (B.a0{cq} * {u} - B.a0{cp} * {w}), sq_nonneg (B.a1{cq} * {u} - B.a1{cp} * {w}), sq_nonneg (B.a2{cq} * {u} - B.a2{cp} * {w})]
    have e2 : B.a2{cq} * {u} - B.a2{cp} * {w} = 0 := by nlinarith [sq_nonneg (B.a0{cq} * {u} - B.a0{cp} * {w}), sq_nonneg (B.a1{cq} * {u} - B.a1{cp} * {w}), sq_nonneg (B.a2{cq} * {u} - B.a2{cp} * {w})]
    have hu : {u} * M3.det B = 0 ∨ {u} * M3.det B = 0 := Or.inl (by
      simp only [M3.det]
      first
        | linear_combination (B.a1{other} * B.a2{cp} - B.a1{cp} * B.a2{other}) * e0 + (B.a2{other} * B.a0{cp} - B.a2{cp} * B.a0{other}) * e1 + (B.a0{other} * B.a1{cp} - B.a0{cp} * B.a1{other}) * e2
        | linear_combination -(B.a1{other} * B.a2{cp} - B.a1{cp} * B.a2{other}) * e0 - (B.a2{other} * B.a0{cp} - B.a2{cp} * B.a0{other}) * e1 - (B.a0{other} * B.a1{cp} - B.a0{cp} * B.a1{other}) * e2)
    have hw : {w} * M3.det B = 0 ∨ {w} * M3.det B = 0 := Or.inl (by
      simp only [M3.det]
      first
        | linear_combination (B.a1{other} * B.a2{cq} - B.a1{cq} * B.a2{other}) * e0 + (B.a2{other} * B.a0{cq} - B.a2{cq} * B.a0{other}) * e1 + (B.a0{other} * B.a1{cq} - B.a0{cq} * B.a1{other}) * e2
        | linear_combination -(B.a1{other} * B.a2{cq} - B.a1{cq} * B.a2{other}) * e0 - (B.a2{other} * B.a0{cq} - B.a2{cq} * B.a0{other}) * e1 - (B.a0{other} * B.a1{cq} - B.a0{cq} * B.a1{other}) * e2)
    refine ⟨?_, ?_⟩
    · rcases hu with h1 | h1 <;> (rcases mul_eq_zero.mp h1 with h2 | h2; exact h2; exact absurd h2 hdet)
    · rcases hw with h1 | h1 <;> (rcases mul_eq_zero.mp h1 with h2 | h2; exact h2; exact absurd h2 hdet)
  · rintro ⟨rfl, rfl⟩; ring

theorem {n}F_t_ne ({x} qval : ℝ) (B : M3 ℝ) ({coefsF} d : ℝ) (hdv : {ns}.divisor {A0} ≠ 0) : {tf} ≠ 0 := by
  intro h0; apply hdv; rw [{n}_divisor_sq]; subst h0; ring

/-- **C19 for `{ns.replace('Solve', 'solve_').lower()}_fixed_q`**: what the function returns, in every case -/
theorem {n}_solve_spec ({x} qval : ℝ) (B : M3 ℝ) (a b c d : ℝ) :
    (∀ v1 v2, {ns}.solve {A} = .ok [v1, v2] →
        (v1.{PROJ[x]} = {x} ∧ OnPlane a b c d v1 ∧ OnSphere B qval v1) ∧ (v2.{PROJ[x]} = {x} ∧ OnPlane a b c d v2 ∧ OnSphere B qval v2) ∧
        (∀ {unk}, OnPlane a b c d (h, k, l) → OnSphere B qval (h, k, l) → (h, k, l) = v1 ∨ (h, k, l) = v2) ∧
        (v1 = v2 ↔ {ns}.discriminant {A} = 0)) ∧
    (∀ e, {ns}.solve {A} = .error e → e = .dce ∧
        ({ns}.divisor {A} = 0 ∨ ({ns}.discriminant {A} < 0 ∧ ∀ {unk}, OnPlane a b c d (h, k, l) → ¬ OnSphere B qval (h, k, l)))) ∧
    (∀ vs, {ns}.solve {A} = .ok vs → vs.length = 2) := by
  unfold {ns}.solve
  simp only [rs_beq, rs_lt, rs_ofNat, Nat.cast_zero, rs_sqrt]
  by_cases hdv : {ns}.divisor {A} = 0
  · simp [hdv]
  by_cases hneg : {ns}.discriminant {A} < 0
  · simp only [hdv, hneg, decide_false, decide_true, Bool.false_eq_true, if_false, if_true]
    refine ⟨(by intro v1 v2 h; cases h), ?_, (by intro vs h; cases h)⟩
    intro e he; cases he
    refine ⟨rfl, Or.inr ⟨?_, ?_⟩⟩
    · first | exact hneg | trivial
    intro {unk} hp
    by_cases ht : {tc} = 0
    · subst ht
      exact {n}F_no_solution {x} qval B {coefsF} d {unk} hneg hdv ({n}F_t_ne {x} qval B {coefsF} d hdv) hp
    · exact {n}T_no_solution {x} qval B a b c d {unk} hneg hdv ht hp
  have hnn : 0 ≤ {ns}.discriminant {A} := not_lt.mp hneg
  have hs : Real.sqrt ({ns}.discriminant {A}) ^ 2 = {ns}.discriminant {A} := Real.sq_sqrt hnn
  simp only [hdv, hneg, decide_false, Bool.false_eq_true, if_false]
  by_cases ht : {tc} = 0
  · subst ht
    have htf := {n}F_t_ne {x} qval B {coefsF} d hdv
    simp only [decide_true, Bool.not_true, Bool.false_eq_true, if_false]
    refine ⟨?_, (by intro e he; cases he), (by intro vs h; cases h; rfl)⟩
    intro v1 v2 h
    simp only [Except.ok.injEq, List.cons.injEq, and_true] at h
    obtain ⟨rfl, rfl⟩ := h
    have hsound := {n}F_sound {x} qval B {coefsF} d _ hs hdv htf
    refine ⟨hsound.1, hsound.2, ?_, {n}F_tangent {x} qval B {coefsF} d _ hs hdv htf⟩
    intro {unk} hp hq
    exact {n}F_complete {x} qval B {coefsF} d _ {unk} hs hdv htf hp hq
  · simp only [ht, decide_false, Bool.not_false, if_true]
    refine ⟨?_, (by intro e he; cases he), (by intro vs h; cases h; rfl)⟩
    intro v1 v2 h
    simp only [Except.ok.injEq, List.cons.injEq, and_true] at h
    obtain ⟨rfl, rfl⟩ := h
    have hsound := {n}T_sound {x} qval B a b c d _ hs hdv ht
    refine ⟨hsound.1, hsound.2, ?_, {n}T_tangent {x} qval B a b c d _ hs hdv ht⟩
    intro {unk} hp hq
    exact {n}T_complete {x} qval B a b c d _ {unk} hs hdv ht hp hq
'''


def main():
    out = [HEAD]
    for c in COMBOS:
        out.append(inst(*c))
    for sv in SOLVERS:
        out.append(solver_section(*sv))
    out.append("end\nend C19\n")
    with open(OUT, "w") as f:
        f.write("\n".join(out))
    print("written", OUT)


if __name__ == "__main__":
    main()
