# development aid (not run by the checks): cofactors for the Rodrigues identities, found with sympy; the kernel checks them
import sympy as sp
kx,ky,kz,c,s=sp.symbols('kx ky kz c s')
v=1-c
R=sp.Matrix([[c+kx*kx*v, kx*ky*v-kz*s, kx*kz*v+ky*s],[ky*kx*v+kz*s, c+ky*ky*v, ky*kz*v-kx*s],[kz*kx*v-ky*s, kz*ky*v+kx*s, c+kz*kz*v]])
g1=kx**2+ky**2+kz**2-1; g2=s**2+c**2-1
def cert(P):
    q,r=sp.reduced(sp.expand(P),[g1,g2],kx,ky,kz,s,c,order='grevlex')
    assert sp.expand(r)==0,(P,r)
    return q
M=(R.T*R-sp.eye(3))
def L(e):
    return sp.sstr(sp.expand(e)).replace('**','^')
for i in range(3):
    for j in range(3):
        q=cert(M[i,j]); print(f"RtR{i}{j}: linear_combination ({L(q[0])}) * hk + ({L(q[1])}) * hcs")
q=cert(R.det()-1); print(f"det: linear_combination ({L(q[0])}) * hk + ({L(q[1])}) * hcs")
# R k = k
for i in range(3):
    q=cert((R*sp.Matrix([kx,ky,kz]))[i]-[kx,ky,kz][i]); print(f"axis{i}: linear_combination ({L(q[0])}) * hk + ({L(q[1])}) * hcs")
