# development aid: cofactors for C20.offset_components (sympy)
import sympy as sp, re
wx,wy,wz,kx,ky,kz,cp,sp_,ca,sa=sp.symbols('wx wy wz kx ky kz cp sp ca sa')
w=sp.Matrix([wx,wy,wz]); k=sp.Matrix([kx,ky,kz])
def rod(ax,c,s,x): return c*x + s*ax.cross(x) + (1-c)*(ax.dot(x))*ax
o=rod(w,ca,sa,rod(k,cp,sp_,w))
g=[wx*wx+wy*wy+wz*wz-1, kx*kx+ky*ky+kz*kz-1, kx*wx+ky*wy+kz*wz]
targets={'w':o.dot(w)-cp, 'p':o.dot(k.cross(w))-sp_*ca, 'k':o.dot(k)-sp_*sa}
def L(e):
    t=sp.sstr(sp.expand(e)).replace('**','^')
    rep={'wx':'w.x','wy':'w.y','wz':'w.z','kx':'k.x','ky':'k.y','kz':'k.z','cp':'Real.cos p','sp':'Real.sin p','ca':'Real.cos a','sa':'Real.sin a'}
    return re.sub(r'\b(wx|wy|wz|kx|ky|kz|cp|sp|ca|sa)\b', lambda m: rep[m.group(1)], t)
for nm,P in targets.items():
    q,r=sp.reduced(sp.expand(P),g,wx,wy,wz,kx,ky,kz,order='grevlex')
    assert sp.expand(r)==0,(nm,r)
    print(nm,': linear_combination (',L(q[0]),') * hww + (',L(q[1]),') * hkk + (',L(q[2]),') * hperp')
