#!/bin/bash
# usage: lane_recheck.sh <lane-dir> <seeded-dir-name>...   re-run stored seeded changes against the current checks in a private lane
# (see lane_confirm.sh); only meta.json -> current_check is updated.
lane="$1"; shift
mkdir -p "$lane"
[ -d "$lane/repo" ] || git -C /repo worktree add -q --detach "$lane/repo" HEAD
[ -d "$lane/verif" ] || cp -a /verif "$lane/verif"
rsync -a --delete --exclude .lake --exclude .git --exclude replays --exclude evidence /verif/ "$lane/verif/"
export VERIF_REPO="$lane/repo"; export VERIF_EVIDENCE_DIR="$lane/evidence"; mkdir -p "$VERIF_EVIDENCE_DIR"
for name in "$@"; do
  d=/verif/seeded/$name
  [ -f $d/patch.diff ] || { echo "$name: no patch"; continue; }
  id=$(python3 -c "import json;print(json.load(open('$d/meta.json'))['property'])")
  cd "$lane/repo"; git checkout -q --detach "$(git -C /repo rev-parse HEAD)" 2>/dev/null; git checkout -- . ; git clean -fdq
  git apply --check $d/patch.diff 2>/dev/null || { echo "$name NOAPPLY"; continue; }
  git apply $d/patch.diff
  cd "$lane/verif"
  out=$(VERIF_SEED=${VERIF_SEED:-1} timeout 1500 /venv/bin/python tools/check.py $id --tier quick 2>&1); rc=$?
  git -C "$lane/repo" checkout -- .
  echo "$out" > "$lane/last_check_$name.log"
  v=$(echo "$out" | grep -c "^VIOLATION property=$id")
  echo "$name rc=$rc viol=$v"
  python3 - "$d" "$id" "$rc" "$v" <<'PY'
import json, sys
d, pid, rc, v = sys.argv[1:]
m = json.load(open(d + "/meta.json"))
cur = f"tools/check.py {pid} --tier quick with the change applied: rc={rc} viol={v}"
if "changes" in m: m["changes"][0]["current_check"] = cur
else: m["current_check"] = cur
json.dump(m, open(d + "/meta.json", "w"), indent=1); open(d + "/meta.json", "a").write("\n")
PY
done
