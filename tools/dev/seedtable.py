"""prints the table of DESIGN.md §0.6 from seeded/*/meta.json"""
import json, glob, os
print("| id | change | round | mechanism (title given by its author) | needs, in short | first run | now |")
print("|---|---|---|---|---|---|---|")
for d in sorted(glob.glob(os.path.join(os.path.dirname(__file__), "..", "..", "seeded", "C[0-9][0-9]"))):
    meta = json.load(open(d + "/meta.json"))
    for i, c in enumerate(meta["changes"], 1):
        first = "missed" if "VIOLATION lines: 0" in c["first_confirmation"]["check"] else "reported"
        now = "reported" if "rc=1" in c["current_check"] else "MISSED"
        what = c["what"].replace("|", "/")
        need = c.get("needs_to_manifest", "").replace("|", "/").replace("\n", " ")[:90]
        print(f"| {meta['property']} | {i} | {c.get('round', '')} | {what[:110]} | {need} | {first} | {now} |")
