"""prints the table of DESIGN.md §0.6 from seeded/<Cxx>-<n>/meta.json"""
import json, glob, os, re
print("| id | change | round | mechanism (title given by its author) | needs, in short | first run | now |")
print("|---|---|---|---|---|---|---|")
root = os.path.join(os.path.dirname(__file__), "..", "..", "seeded")
ds = [d for d in glob.glob(os.path.join(root, "C[0-9][0-9]-*")) if os.path.exists(d + "/meta.json")]
def key(d):
    m = re.match(r"C(\d+)-(\d+)$", os.path.basename(d)); return (int(m.group(1)), int(m.group(2)))
for d in sorted(ds, key=key):
    c = json.load(open(d + "/meta.json"))
    first = "missed" if "VIOLATION lines: 0" in c["first_confirmation"]["check"] else "reported"
    now = "reported" if "rc=1" in c["current_check"] else ("neutralised by a repair" if c.get("neutralised") else "MISSED")
    what = c["what"].replace("|", "/")
    need = c.get("needs_to_manifest", "").replace("|", "/").replace("\n", " ")[:90]
    print(f"| {c['property']} | {c['change']} | {c.get('round', '')} | {what[:110]} | {need} | {first} | {now} |")
