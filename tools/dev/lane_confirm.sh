#!/bin/bash
# usage: lane_confirm.sh <lane-dir> <ID> <n> <srcdir> <dn> [<round>]
# Same steps as tools/seed_confirm.sh, but in a private "lane": a copy of /verif (with its own lake build) and a scratch git worktree of
# /repo, so that several seeded changes can be confirmed at once and /repo itself stays clean while other checks run against it.
# The lane is created on first use and refreshed from /verif's working tree before every run; results are stored under /verif/seeded/<ID>-<dn>/.
set -u
lane="$1"; id="$2"; n="$3"; src="$4"; dn="$5"; round="${6:-}"
mkdir -p "$lane"
[ -d "$lane/repo" ] || git -C /repo worktree add -q --detach "$lane/repo" HEAD
[ -d "$lane/verif" ] || cp -a /verif "$lane/verif"
rsync -a --delete --exclude .lake --exclude .git --exclude replays --exclude evidence /verif/ "$lane/verif/"
export VERIF_REPO="$lane/repo"
export VERIF_EVIDENCE_DIR="$lane/evidence"; mkdir -p "$VERIF_EVIDENCE_DIR"
out=/verif/seeded/$id-$dn; mkdir -p "$out"
cd "$lane/repo" || exit 2
git checkout -q --detach "$(git -C /repo rev-parse HEAD)" 2>/dev/null; git checkout -- . ; git clean -fdq
log="$out/confirm.log"; : > "$log"
res() { echo "$1" >> "$log"; }
git apply --check "$src/patch$n.diff" 2>/dev/null || { res "patch does not apply on current tree"; echo "$id/$n: NOAPPLY"; exit 3; }
if git apply --numstat "$src/patch$n.diff" | awk '{print $3}' | grep -qv '^src/'; then res "patch touches files outside src/"; echo "$id/$n: touches non-src files"; fi
demo_clean=$(PYTHONPATH=$lane/repo/src timeout 600 /venv/bin/python "$src/demo$n.py" >/dev/null 2>&1; echo $?)
git apply "$src/patch$n.diff"
suite=$(PYTHONPATH=$lane/repo/src timeout 900 /venv/bin/python -m pytest -q -p no:cacheprovider 2>&1 | tail -1)
demo_seeded=$(PYTHONPATH=$lane/repo/src timeout 600 /venv/bin/python "$src/demo$n.py" >/dev/null 2>&1; echo $?)
cd "$lane/verif"
chk=$(VERIF_SEED=1 timeout 1500 /venv/bin/python tools/check.py "$id" --tier quick 2>&1); rc=$?
git -C "$lane/repo" checkout -- .
echo "$chk" > "$lane/last_check_$id-$dn.log"
viol=$(echo "$chk" | grep -c "^VIOLATION property=$id")
first=$(echo "$chk" | grep -v "^VIOLATION\|quick seed" | head -2 | cut -c1-300)
res "suite with change: $suite"
res "demo on clean tree: exit $demo_clean ; demo with change: exit $demo_seeded"
res "check.py $id --tier quick with change: exit $rc, VIOLATION lines: $viol"
res "$first"
cp "$src/patch$n.diff" "$out/patch.diff"; cp "$src/demo$n.py" "$out/demo.py"; cp "$src/notes$n.md" "$out/notes.md" 2>/dev/null
ID="$id" DN="$dn" ROUND="$round" SUITE="$suite" DC="$demo_clean" DS="$demo_seeded" RC="$rc" VIOL="$viol" FIRST="$first" python3 - <<'PY'
import json, os
e = os.environ
out = f"/verif/seeded/{e['ID']}-{e['DN']}"
title = ""
try:
    title = open(out + "/notes.md").readline().strip().lstrip("# ").strip()
except Exception:
    pass
m = {"property": e["ID"], "change": int(e["DN"]), "round": int(e["ROUND"]) if e["ROUND"] else None,
     "origin": "written by a fresh sub-agent that saw only the property text and its own scratch worktree; confirmed independently (tools/dev/lane_confirm.sh: same steps as tools/seed_confirm.sh on a private copy of /verif and a scratch worktree of /repo)",
     "patch": "patch.diff", "demonstration": "demo.py", "notes": "notes.md", "what": title, "needs_to_manifest": "see notes.md",
     "first_confirmation": {"suite_with_change": e["SUITE"], "demonstration": f"demo on clean tree: exit {e['DC']} ; demo with change: exit {e['DS']}",
                            "check": f"check.py {e['ID']} --tier quick with change: exit {e['RC']}, VIOLATION lines: {e['VIOL']}", "first_report": e["FIRST"]},
     "current_check": f"tools/check.py {e['ID']} --tier quick with the change applied: rc={e['RC']} viol={e['VIOL']}",
     "how_to_replay": f"git -C /repo apply {out}/patch.diff && cd /verif && /venv/bin/python tools/check.py {e['ID']} --tier quick ; git -C /repo checkout -- ."}
json.dump(m, open(out + "/meta.json", "w"), indent=1); open(out + "/meta.json", "a").write("\n")
PY
echo "$id-$dn: suite=[$suite] demo clean=$demo_clean seeded=$demo_seeded check rc=$rc viol=$viol"
