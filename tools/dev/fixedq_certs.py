# development aid (not run by the checks): finds linear_combination cofactors for the C19 identities with sympy
import ast, sympy as sp, numpy as np, sys
src=open('/repo/src/diffcalc/util.py').read(); tree=ast.parse(src)
syms={n:sp.Symbol(n) for n in 'a b c d qval s'.split()}
Bs=np.array([[sp.Symbol(f'B{i}{j}') for j in range(3)] for i in range(3)],dtype=object)
class NP:
    @staticmethod
    def sqrt(x): return syms['s']
def run(fname, fixed):
    f=[n for n in tree.body if isinstance(n,ast.FunctionDef) and n.name==fname][0]
    ns=dict(syms); ns['B']=Bs; ns['np']=NP; ns[fixed]=sp.Symbol(fixed)
    out={}
    def ex(st,ns):
        code=compile(ast.Module([st],[]),'x','exec'); exec(code,ns)
    for st in f.body[1:]:
        if isinstance(st,ast.Assign): ex(st,ns)
        elif isinstance(st,ast.If) and isinstance(st.body[0],ast.Raise): continue
        elif isinstance(st,ast.If):
            for nm,body in (('T',st.body),('F',st.orelse)):
                n2=dict(ns)
                for s2 in body:
                    if isinstance(s2,ast.Assign): ex(s2,n2)
                    elif isinstance(s2,ast.Return):
                        out[nm]=(eval(compile(ast.Expression(s2.value),'x','eval'),n2), n2['coefficient'])
            out['test']=ast.unparse(st.test)
    out['divisor']=ns['divisor']; out['disc']=ns['discriminant']
    return out
def sphere(v):
    w=Bs.dot(np.array(v,dtype=object)); return sum(x*x for x in w)
for fname,fixed in (('solve_h_fixed_q','h'),('solve_k_fixed_q','k'),('solve_l_fixed_q','l')):
    o=run(fname,fixed)
    dv,disc=o['divisor'],o['disc']; s=syms['s']
    tv=sp.Symbol(o['test'].split()[0])
    print(fname,'test',o['test'])
    for br in 'TF':
        sols,cf=o[br]
        # in branch F the tested coefficient is zero
        sub={} if br=='T' else {tv:0}
        for i,sol in enumerate(sols):
            P=sp.together(sphere(sol)-syms['qval']).subs(sub)
            num,den=sp.fraction(sp.together(P))
            # expect num = cof * (s^2 - disc)
            q,r=sp.div(sp.expand(num), sp.expand((s**2-disc).subs(sub)), s)
            print(' ',br,i,'den=',sp.factor(den),' remainder zero:',sp.expand(r)==0,' cof=',sp.factor(q))
            pl=sp.simplify((syms['a']*sol[0]+syms['b']*sol[1]+syms['c']*sol[2]-syms['d']).subs(sub))
            print('     plane residual:',pl)

print("=== completeness cofactors")
for fname,fixed in (('solve_h_fixed_q','h'),('solve_k_fixed_q','k'),('solve_l_fixed_q','l')):
    o=run(fname,fixed)
    dv,disc=o['divisor'],o['disc']
    tv=o['test'].split()[0]
    names=['h','k','l']
    V={n:sp.Symbol(n) for n in names}
    plane=syms['a']*V['h']+syms['b']*V['k']+syms['c']*V['l']-syms['d']
    S=sphere([V['h'],V['k'],V['l']])-syms['qval']
    for br in 'TF':
        sols,cf=o[br]
        sub={} if br=='T' else {sp.Symbol(tv):0}
        # which variable is solved first (divided by divisor)?  find the component whose expression has denominator dv only
        first=[n for n,e in zip(names,sols[0]) if n!=fixed and sp.fraction(sp.together(e))[1].has(sp.Symbol('B01')) or False]
        # determine: component depending on s directly with denominator divisor
        cand=[n for n,e in zip(names,sols[0]) if n!=fixed]
        for n in cand:
            e=sols[0][names.index(n)]
            num,den=sp.fraction(sp.together(e))
            if sp.simplify(den-dv)==0 or sp.simplify(den+dv)==0:
                x=n; xnum=num; sign=1 if sp.simplify(den-dv)==0 else -1
        other=[n for n in cand if n!=x][0]
        # x*dv = xnum  where xnum = -(cf + s t)  or (cf - s t)
        lin=sp.expand(xnum).coeff(s,0); sl=sp.expand(xnum).coeff(s,1)
        # (x*dv - lin)^2 = sl^2 * s^2 = sl^2*disc
        P=sp.expand(((V[x]*dv-lin)**2-sl**2*disc).subs(sub))
        # P = A*S + Q*plane
        tdiv = sp.Symbol(tv) if br=='T' else [sp.Symbol(v) for v in 'abc' if v!=tv and v!={'h':'a','k':'b','l':'c'}[fixed] and True][0]
        A=sp.expand((dv*sl**2).subs(sub))  # guess
        R=sp.expand(P-A*S.subs(sub))
        q,r=sp.div(R,sp.expand(plane.subs(sub)),V[other])
        print(fname,br,'first var',x,'lin coef sign',sp.simplify(lin/cf), 'sl',sl,' A=dv*sl^2 ok:',sp.expand(r)==0)
