#!/bin/bash
# re-run every stored seeded change against its property's quick check; updates meta.json -> current_check (nothing else is overwritten)
# usage: reconfirm_all.sh [glob under seeded/, default '*']
cd /verif
export VERIF_EVIDENCE_DIR=$(mktemp -d /tmp/seed_evidence.XXXXXX)
pat="${1:-*}"
for d in seeded/$pat; do
  [ -f $d/patch.diff ] || continue
  id=$(python3 -c "import json;print(json.load(open('$d/meta.json'))['property'])")
  cd /repo; git diff --quiet || { echo "repo dirty"; exit 2; }
  if ! git apply --check /verif/$d/patch.diff 2>/dev/null; then echo "$d NOAPPLY"; cd /verif; continue; fi
  git apply /verif/$d/patch.diff; cd /verif
  out=$(VERIF_SEED=1 timeout 1200 /venv/bin/python tools/check.py $id --tier quick 2>&1); rc=$?
  git -C /repo checkout -- .
  v=$(echo "$out" | grep -c "^VIOLATION property=$id")
  echo "$d rc=$rc viol=$v"
  python3 - "$d" "$id" "$rc" "$v" <<'PY'
import json, sys
d, pid, rc, v = sys.argv[1:]
m = json.load(open(d + "/meta.json"))
cur = f"tools/check.py {pid} --tier quick with the change applied: rc={rc} viol={v}"
if "changes" in m: m["changes"][0]["current_check"] = cur
else: m["current_check"] = cur
json.dump(m, open(d + "/meta.json", "w"), indent=1); open(d + "/meta.json", "a").write("\n")
PY
done
rm -rf "$VERIF_EVIDENCE_DIR"
