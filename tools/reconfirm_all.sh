#!/bin/bash
# re-run every stored seeded change against its property's quick check (does not overwrite stored files)
cd /verif
export VERIF_EVIDENCE_DIR=$(mktemp -d /tmp/seed_evidence.XXXXXX)
for d in seeded/C*; do
  id=$(basename $d)
  for p in $d/patch*.diff; do
    cd /repo; git diff --quiet || { echo "repo dirty"; exit 2; }
    if ! git apply --check /verif/$p 2>/dev/null; then echo "$p NOAPPLY"; cd /verif; continue; fi
    git apply /verif/$p; cd /verif
    out=$(VERIF_SEED=1 timeout 1200 /venv/bin/python tools/check.py $id --tier quick 2>&1); rc=$?
    git -C /repo checkout -- .
    echo "$p rc=$rc viol=$(echo "$out" | grep -c "^VIOLATION property=$id")"
  done
done
for d in seeded/regress-*; do
  id=$(echo $(basename $d) | cut -d- -f2)
  cd /repo; git apply --check /verif/$d/patch.diff 2>/dev/null || { echo "$d NOAPPLY"; cd /verif; continue; }
  git apply /verif/$d/patch.diff; cd /verif
  out=$(VERIF_SEED=1 timeout 1200 /venv/bin/python tools/check.py $id --tier quick 2>&1); rc=$?
  git -C /repo checkout -- .
  echo "$d rc=$rc viol=$(echo "$out" | grep -c "^VIOLATION property=$id")"
done
rm -rf "$VERIF_EVIDENCE_DIR"
