#!/usr/bin/env python3
"""Source fingerprints of /repo/src/diffcalc: one hash per function / method (AST without positions and docstrings).

The hand models (tie H) were written against the source as it stood when `source_fingerprint.json` was recorded.  On every run
check.py compares the current fingerprints of the files a property is anchored in with the recorded ones; a difference does NOT
by itself say anything about the property (a harmless rewrite changes it too) — it makes the run sample the correspondence and
the oracle at the thorough tier's size, because "model = code" is then exactly what has to be re-established.

usage: fingerprint.py --record     rewrite tools/source_fingerprint.json from /repo's working tree (only after the models were re-validated)
       fingerprint.py --diff       list the functions that differ
"""
import ast, hashlib, json, os, sys

VERIF = os.path.dirname(os.path.dirname(os.path.abspath(__file__)))
REPO = os.environ.get("VERIF_REPO", "/repo")
SRC = os.path.join(REPO, "src", "diffcalc")
STORE = os.path.join(VERIF, "tools", "source_fingerprint.json")


def _strip_doc(node):
    body = getattr(node, "body", None)
    if isinstance(body, list) and body and isinstance(body[0], ast.Expr) and isinstance(getattr(body[0], "value", None), ast.Constant) \
            and isinstance(body[0].value.value, str):
        node.body = body[1:] or [ast.Pass()]


def _walk(node, prefix, out):
    for ch in ast.iter_child_nodes(node):
        if isinstance(ch, (ast.FunctionDef, ast.AsyncFunctionDef, ast.ClassDef)):
            name = prefix + ch.name
            if isinstance(ch, ast.ClassDef):
                _walk(ch, name + ".", out)
                # class-level statements other than methods (attributes, decorators, bases)
                rest = [c for c in ch.body if not isinstance(c, (ast.FunctionDef, ast.AsyncFunctionDef, ast.ClassDef))]
                tmp = ast.ClassDef(name=ch.name, bases=ch.bases, keywords=ch.keywords, body=rest or [ast.Pass()], decorator_list=ch.decorator_list)
                _strip_doc(tmp)
                out[name + ".<class>"] = hashlib.sha256(ast.dump(tmp, include_attributes=False).encode()).hexdigest()[:16]
            else:
                _strip_doc(ch)
                for sub in ast.walk(ch):
                    if isinstance(sub, (ast.FunctionDef, ast.AsyncFunctionDef, ast.ClassDef)):
                        _strip_doc(sub)
                out[name] = hashlib.sha256(ast.dump(ch, include_attributes=False).encode()).hexdigest()[:16]


def current():
    res = {}
    for root, _, files in os.walk(SRC):
        for f in sorted(files):
            if not f.endswith(".py"):
                continue
            path = os.path.join(root, f)
            rel = os.path.relpath(path, REPO)
            try:
                tree = ast.parse(open(path).read())
            except SyntaxError as e:
                res[rel] = {"<syntax-error>": str(e)[:80]}
                continue
            out = {}
            _walk(tree, "", out)
            # module-level statements (imports, constants, tables)
            rest = [c for c in tree.body if not isinstance(c, (ast.FunctionDef, ast.AsyncFunctionDef, ast.ClassDef))]
            mod = ast.Module(body=rest, type_ignores=[])
            _strip_doc(mod)
            out["<module>"] = hashlib.sha256(ast.dump(mod, include_attributes=False).encode()).hexdigest()[:16]
            res[rel] = out
    return res


def recorded():
    if not os.path.exists(STORE):
        return {}
    return json.load(open(STORE))


def changed(files=None):
    """['src/diffcalc/x.py::Class.method', ...] that differ from the recorded fingerprints (restricted to `files` if given)"""
    cur, rec = current(), recorded().get("functions", {})
    out = []
    for rel in sorted(set(cur) | set(rec)):
        if files is not None and rel not in files:
            continue
        a, b = cur.get(rel, {}), rec.get(rel, {})
        for k in sorted(set(a) | set(b)):
            if a.get(k) != b.get(k):
                out.append(f"{rel}::{k}")
    return out


if __name__ == "__main__":
    if "--record" in sys.argv:
        import subprocess
        head = subprocess.run(["git", "-C", REPO, "rev-parse", "HEAD"], capture_output=True, text=True).stdout.strip()
        dirty = subprocess.run(["git", "-C", REPO, "status", "--porcelain", "src"], capture_output=True, text=True).stdout.strip()
        json.dump({"repo_head": head + ("+dirty" if dirty else ""), "functions": current()}, open(STORE, "w"), indent=1, sort_keys=True)
        print("recorded", sum(len(v) for v in current().values()), "fingerprints at", head[:7])
    else:
        for c in changed():
            print(c)
