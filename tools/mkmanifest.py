#!/usr/bin/env python3
"""Writes /verif/MANIFEST.json from the table below (single source of truth for the registered checks)."""
import json, os
VERIF = os.path.dirname(os.path.dirname(os.path.abspath(__file__)))

CHECKS = {}

def check(pid, technique, text, note, design_ref, category="proof"):
    CHECKS[pid] = dict(technique=technique, text=text, note=note, design_ref=design_ref, category=category)

check("C09", "Lean 4 kernel decision (decide +kernel) over all 680 triples + exhaustive correspondence",
      "Theorem c09_full: for every accepted triple of the model, implemented <-> dispatcher reaches a solver, "
      "unimplemented -> 'not implemented', implemented = documented table (generated from the class docstring on every run); "
      "active_mem_triples lifts it to every fully constrained state. The model is compared with the real Constraints/get_position "
      "on all 680 triples on every run (finite domain, complete), plus histories with rejected assignments.",
      "Lean kernel; axioms propext/Quot.sound only; hand model Modes.lean tied by exhaustive correspondence; docstring parser in py2lean.py; "
      "outcome classes recognised by message text; generic values only.",
      "DESIGN.md §6 C09")

NOT_APPLICABLE = []   # filled below for properties without a registered check

ALL = ["C%02d" % i for i in range(1, 21)]

def main():
    checks = []
    for pid in ALL:
        if pid not in CHECKS:
            continue
        c = CHECKS[pid]
        checks.append({
            "property_id": pid,
            "quick_cmd": f"/venv/bin/python tools/check.py {pid} --tier quick",
            "thorough_cmd": f"/venv/bin/python tools/check.py {pid} --tier thorough",
            "evidence_file": f"/verif/evidence/{pid}.json",
            "replay_cmd_template": f"/venv/bin/python tools/check.py {pid} --replay {{path}}",
            "engine": "lean4-proof+correspondence",
            "level_claimed": {"category": c["category"], "text": c["text"], "design_ref": c["design_ref"]},
            "level_note": c["note"],
            "technique": c["technique"],
        })
    na = [{"property_id": pid, "reason": "check not built yet in this round (planned: Lean model + theorems + correspondence, see DESIGN.md §6)"}
          for pid in ALL if pid not in CHECKS]
    m = {
        "version": 1,
        "setup_cmd": "cd /verif && /venv/bin/python tools/py2lean.py --repo /repo ; cd /verif/lean && lake build",
        "hooks": {"guard": "DIFFCALC_CORE_VERIF", "enable": "no hooks: nothing in /repo is instrumented; checks import /repo/src in-process",
                  "baseline_off_cmd": "cd /repo && /venv/bin/python -m pytest -q -p no:cacheprovider", "source_commits": [], "add_only": True},
        "engines": [{"name": "lean4-proof+correspondence", "path": "/verif/tools/check.py",
                     "serves_properties": [c["property_id"] for c in checks],
                     "kind_free_text": "Lean 4 theorems about a formal model (lean/), tied to /repo by a translator (tools/py2lean.py, regenerated every run) "
                                       "and by a line-protocol correspondence check (lean/Driver.lean vs the implementation in-process); property oracles on the implementation produce replays"}],
        "checks": checks,
        "not_applicable": na,
        "notes": "quick/thorough honour VERIF_SEED and VERIF_TIER; exit 2 = infrastructure error/timeout. known findings: /verif/known_findings.json. seeded changes: /verif/seeded/.",
    }
    with open(os.path.join(VERIF, "MANIFEST.json"), "w") as f:
        json.dump(m, f, indent=1); f.write("\n")
    print("checks:", [c["property_id"] for c in checks], "not_applicable:", len(na))

if __name__ == "__main__":
    main()
