#!/usr/bin/env python3
"""Writes /verif/MANIFEST.json from the table below (single source of truth for the registered checks)."""
import json, os
VERIF = os.path.dirname(os.path.dirname(os.path.abspath(__file__)))

CHECKS = {}

def check(pid, technique, text, note, design_ref, category="proof"):
    CHECKS[pid] = dict(technique=technique, text=text, note=note, design_ref=design_ref, category=category)

check("C09", "Lean 4 kernel decision (decide +kernel) over all 680 triples + exhaustive correspondence",
      "Theorem c09_full: for every accepted triple of the model, implemented <-> dispatcher reaches a solver, "
      "unimplemented -> 'not implemented', implemented = documented table (generated from the class docstring on every run); "
      "active_mem_triples lifts it to every fully constrained state. The model is compared with the real Constraints/get_position "
      "on all 680 triples on every run (finite domain, complete), plus histories with rejected assignments.",
      "Lean kernel; axioms propext/Quot.sound only; hand model Modes.lean tied by exhaustive correspondence; docstring parser in py2lean.py; "
      "outcome classes recognised by message text; generic values only.",
      "DESIGN.md §6 C09")

check("C10", "Lean 4 invariant by induction over operation histories + correspondence on random histories",
      "Theorems (lean/DiffcalcProofs/Props/C10.lean) over the hand model of Constraints: capacity invariant for every finite history of "
      "set/del/clear/bulk operations (inv_history, c10_capacity), exact deactivation, replacement policy (replace_policy, accept_free), "
      "read-back at the real-number reading (readback_num/true), rebuild from the read-out (bulk_roundtrip, wt_history). Model and class are stepped on the same random histories (all 17 names x 9 "
      "value kinds, bulk setters with unknown names) and outcome + full state compared after every operation; a rule oracle runs on the class directly.",
      "Lean kernel; standard axioms; hand model Cons.lean tied by sampled correspondence (not exhaustive); degrees(radians(x)) rounding within 1e-9; "
      "rebuild-from-read-out: bulk_roundtrip (Props/C10Bulk.lean) for every state obeying the capacity rules and well typed (both invariants of every history).",
      "DESIGN.md §6 C10")

check("C18", "Lean 4 refinement of the list operations to plain-sequence laws + correspondence on random histories",
      "Theorems (Props/C18.lean) for every list and record type: 1-based index and first-matching tag address the same record (locate_num, locate_tag), "
      "add appends, edit replaces in place, delete closes the gap, swap exchanges, index above n -> IndexError, unknown tag -> ValueError, errors leave the "
      "list unchanged, records are never fabricated over any history (history_records). Model and UBCalculation wrappers are stepped on the same histories for both lists.",
      "Lean kernel; standard axioms; hand model RefList.lean (Python negative-index wrap modelled) tied by sampled correspondence; payload fields compared by the oracle.",
      "DESIGN.md §6 C18")

check("C16", "Lean 4 theorems over the frame-conversion model (real-number reading) + correspondence",
      "Theorems (Props/C16.lean): same-frame read-back, other frame = unit vector along UB^{+-1} v, None exactly when a UB is needed and missing — separately "
      "for reference and surface vector, independence of the two vectors, consistency of the two frames, read-back/set-back keeps the direction (setback_hkl/phi). "
      "Model and UBCalculation properties compared on random setter/UB sequences; the oracle also checks pseudo-angle invariance under read-back/set-back, "
      "lengths from 1e-9 to 1e5 and that the setters copy a caller-owned list/array.",
      "Lean kernel; standard axioms; hand model Frames.lean; numpy inv modelled as adjugate/det; floating point within 1e-9.",
      "DESIGN.md §6 C16")

check("C08", "Lean 4 invariant by induction over UB-operation histories + Rodrigues/quaternion identities + correspondence",
      "Theorems (Props/C08.lean, C08Miscut.lean): for every finite history of set_lattice/set_u/set_ub/set_miscut/calc_ub/refine_ub/fit_ub on rotation-valued "
      "inputs, U is a proper rotation and UB = U.B(current lattice) (inv_history); set_miscut composes on the left; Rodrigues matrix is a proper rotation fixing its axis; "
      "get_miscut returns angle and axis for axis perpendicular to the unit surface normal; the matrix built from ANY optimiser output in the box is a proper rotation "
      "(quatRot_isRot, on definitions GENERATED from ub/fitting.py). Model vs UBCalculation on random histories incl. rejected arguments.",
      "Lean kernel; standard axioms; hand model UBState.lean with B(new lattice), calc_ub's U and the optimiser output as parameters; scipy from_rotvec modelled as Rodrigues "
      "(validated numerically each run); cbrt(det) = 1 for rotation inputs.",
      "DESIGN.md §6 C08")

check("C17", "Lean 4 theorems 'error => state unchanged' for three state machines + fault enumeration of rejected updates",
      "Theorems: every raising operation of the constraint manager (C10.step_error_unchanged), of both lists (C18.step_error_unchanged) and of the UB state machine "
      "(C08.step_error_unchanged) leaves the model state unchanged, for every state. The models are tied by the C10/C18/C08 correspondences; the oracle attempts ~400 kinds "
      "of rejected update (every argument of every editor malformed, bulk assignments with attribute-colliding names and unrepresentable values) on random reachable calculators and compares a deep snapshot before/after.",
      "Lean kernel; standard axioms; statement order inside mutators is modelled by hand (tied by correspondence on malformed histories); Crystal's constructor only by the oracle.",
      "DESIGN.md §6 C17")

check("C19", "Lean 4 theorems over definitions regenerated from util.py on every run (polynomial identities by ring) + translation validation",
      "For each of solve_h/k/l_fixed_q and each coefficient branch one polynomial identity (*_ident) is checked by `ring` on the GENERATED divisor / coefficient / "
      "discriminant; from it: both returned triples keep the fixed index and lie on plane and sphere, every intersection point is one of the two, they coincide iff the "
      "discriminant vanishes, a negative discriminant means no intersection, divisor = 0 iff both free coefficients vanish (invertible UB); *_solve_spec states it for the "
      "function with its control flow. The generated code is executed at Float against the real functions through UBCalculation's wrapper; a residual oracle with an independent line-sphere intersection runs on the implementation.",
      "Lean kernel; standard axioms; translator py2lean.py (validated by execution each run) incl. the skeleton check of the control flow and of the wrapper's dispatch/arguments; "
      "np.sqrt on a non-negative discriminant = real sqrt; exact float zero tests.",
      "DESIGN.md §6 C19")

check("C04", "Lean 4 theorems over get_hkl / rotation constructors regenerated from the source + translation validation",
      "Theorems (Props/C04.lean, Lemmas/Rotations.lean) on GENERATED definitions: the six rotation constructors are the right-handed Rodrigues rotations with the axis senses of You (1999); "
      "get_hkl = UB^-1 Z^T (k_f - k_i) for every position, wavelength, UB; |UB.hkl| = (4 pi/lambda) sin(theta) with cos(2 theta) = cos(delta) cos(nu); 1/lambda scaling; 2 pi periodicity in "
      "every axis; get_q_phi = (lambda/2 pi) UB hkl. Generated code executed at Float against the implementation; numpy forward-model oracle incl. call sequences with lattice/U changes.",
      "Lean kernel; standard axioms; translator (matrix expressions, get_rotation_matrices order vs Position.fields); numpy inv = adjugate/det; degree/radian rounding.",
      "DESIGN.md §6 C04")

check("C06", "Lean 4 theorems over the B-matrix code regenerated from crystal.py (closed form + certificate-checked metric identity) + translation validation",
      "Theorems (Props/C06.lean) on the GENERATED `reciprocalB`: for every admissible cell (positive lengths, angles in (0,pi), positive volume) B is upper triangular with positive "
      "diagonal and B^T B G = 4 pi^2 1 with G the direct metric tensor (all nine entries); d(hkl) = 2 pi/|B.hkl| through the code's inv(inv b inv b^T) route; zero vector -> ZeroDivisionError; "
      "interplanar angle = acos(h1 G* h2 / sqrt(h1 G* h1 . h2 G* h2)) with G* = B^T B/4 pi^2 the inverse of G (Props/C06Angle.lean: Gstar_G, planeAngle_crystallographic); "
      "the seven system tables and the accepted call forms (incl. inferred Hexagonal (a,a,c,120)) expand to the crystallographic cells. Executed at Float against Crystal/set_lattice for all call forms; numpy metric-tensor oracle.",
      "Lean kernel; standard axioms; translator for _set_reciprocal_cell/_get_cell_for_system/_set_cell_for_system tables; call-form dispatch and plane distance are hand models (tie H); "
      "call-form dispatch, plane distance and interplanar angle are hand models (tie H); acos/sqrt domain outside admissible cells not modelled.",
      "DESIGN.md §6 C06")

check("C01", "Lean 4 theorems over a hand model of the whole hkl->angles pipeline + generated get_hkl; pipeline correspondence over all 185 modes",
      "Proved for ALL modes (C01.getPosition_guard): get_position returns a pair only if the position maps back to the requested hkl through get_hkl within 1e-3 per index and the "
      "dictionary is get_virtual_angles of that position; get_hkl IS the first-principles forward model (C04, on generated code), so the guard is a physical statement (guard_forward_model). "
      "Exactness: detector relation + sample relation + Bragg => forward model = hkl exactly (composition); the detector layer from qaz, used by the three-sample and reference+two-sample "
      "branches, satisfies the detector relation exactly incl. its threshold shortcut (detFromQaz_sound). Sample layer exact (Props/C01Sample.lean): every tuple returned by each of the nine "
      "detector+two-sample branches satisfies Z.h = q(theta, qaz) (twoSampleDetector_sound); each of the four detector+reference+one-sample branches satisfies the full orientation equation "
      "Z.N_phi = N_lab (remainingSample_sound, Euler extraction; _calc_N generic branch is a proper rotation); all six reference+two-sample branches satisfy Z.N_phi.PSI^T.THETA^T = F(qaz) (twoSampleReference_sound); the four three-sample branches satisfy the sample relation for the qaz they compute (threeSample_sample_sound). The model (Solver/*.lean, ~1200 lines mirroring calc*.py) is run against get_position on "
      "all 185 modes (physical, special-value and degenerate requests); an independent numpy forward model checks every returned element, also inside call sequences.",
      "Lean kernel; standard axioms; PARTIAL: the branch theorems hold on the generic branch (bound() not clipping, no coincident-root / gimbal-lock shortcut); the layer theorems are assembled end to end "
      "(candidates => forward model = hkl exactly) for all four mode families, i.e. all 185 mode shapes: 27 detector (delta/nu/qaz) + two-sample (C01Assembly.detSamp2_exact), 4 three-sample (C01Assembly2.samp3_exact), "
      "42 reference + two-sample (refSamp2_exact) and 112 detector-or-naz + reference + one-sample (detRefSamp_exact); every side condition is on a value the solver itself computes; non-generic branches (clipping, shortcuts) rest on the guard theorem + correspondence + oracle; hand model tied by sampled correspondence; "
      "numerically singular requests excluded from the model comparison (counted).",
      "DESIGN.md §6 C01")

check("C02", "Lean 4 theorems (pass-through of constrained axes through every dispatcher branch, tidy-up, read-back filter) + pipeline correspondence",
      "Proved for ALL modes (C02.getPosition_honours_axes): every element returned by get_position carries each constrained sample/detector axis at exactly the requested value — through all 23 "
      "dispatcher branches (passthrough_*), through the degenerate tidy-up (tidy_preserves_constrained) — and passed the read-back filter for the reference / qaz / naz constraint (filter_sound). "
      "The bisect relations are exact for every tuple of the three bisect branches (Props/C02Bisect.lean: omegaBisect_relation at the constrained omega, muBisect_relation / etaBisect_relation for some omega; the +-90 deg shortcut is part of the statement). "
      "Correspondence over all modes incl. the two degenerate 4-circle families with the rewritten axis constrained / free / constrained to exactly 0; the oracle evaluates every constraint "
      "as the user stated it (geometric pseudo-angles, bisect relations) on every returned element.",
      "Lean kernel; standard axioms; PARTIAL: the bisect relations are proved at branch level (their survival through tidy-up and degree conversion is by correspondence + oracle); pseudo-angle constraints hold within the filter's 1e-7 deg; hand model tied by sampled correspondence.",
      "DESIGN.md §6 C02")

check("C03", "Lean 4 theorems (root enumeration complete, detector-layer completeness, all-or-nothing) + candidate-level correspondence + round-trip oracle",
      "Proved: asin/acos root pairs enumerate ALL solutions mod 2 pi; the detector layers from qaz, delta and nu return every triple satisfying the detector relation, sign filter included (detRemaining_complete); "
      "sample-layer completeness mod 2 pi (Props/C03Sample*.lean): all nine detector+two-sample branches (three of them through soundness + uniqueness of the last angle), all four single-sample "
      "branches of the detector+reference family (remainingSample_complete), all six reference+two-sample branches (C03Reference: twoSampleReference_complete), the three-sample family end to end (threeSample_complete) and "
      "END-TO-END completeness for all four mode families (a position whose forward model is the requested hkl and which honours the mode's constraints is among the candidates of "
      "__calc_hkl_to_position mod 2 pi): detector+two-sample, 27 shapes (detSamp2_complete); reference+two-sample, 42 shapes (refSamp2_complete; outright for the six psi modes); "
      "detector-or-naz+reference+one-sample, 112 shapes (detRefSamp_complete, via _calc_N = triad, triad equivariance, the naz-qaz relation and detOrNaz_complete); a candidate "
      "that is exactly consistent passes filter and guard; get_position returns the filtered list iff EVERY element passes the guard (allOrNothing). The model is compared with "
      "__calc_hkl_to_position at candidate level on regular positions of all 185 modes; the oracle requires every regular physical position to come back (173 modes recover; the 12 naz + surface-reference modes and psi within 1e-5 deg of its turning points are recorded known findings).",
      "Lean kernel; standard axioms; PARTIAL: branch completeness is proved for every branch of every family, the layer statements are assembled end to end for all four families; for the two families with a reference constraint the contribution of the reference layer (psi list / alpha) enters as a hypothesis on the value it produced; side conditions: generic branch at the position, no sibling root raising; regularity judged numerically; known findings C03-naz-with-surface-reference and C03-psi-at-turning-point.",
      "DESIGN.md §6 C03")

check("C11", "Lean 4 no-leak calculus assembled over the whole solver model (finite-real reading) + special-value execution",
      "Proved (C11.c11_getPosition): for every implemented mode shape, every finite input and invertible B, the model's get_position either returns a NON-EMPTY list or fails with "
      "DiffcalcException — every asin/acos behind bound, every bound inside a try/except AssertionError or provably within [-1,1] (Cauchy-Schwarz for _calc_N / angle_between_vectors; the "
      "beta argument is n.k_f); get_virtual_angles is total for all reference/surface vectors (virtualAngles_total), get_miscut (behind str(UBCalculation)) is total for a surface vector of any length (C08.getMiscut_total); hkl=(0,0,0) and unreachable reflections map to DiffcalcException (noLeak_ttheta). "
      "The implementation is executed on the special-value stream (multiples of 90 deg, zeros, parallel/anti-parallel and nearly parallel vectors, non-unit vectors) and every other exception class or non-finite position is reported; str() of the calculators by the oracle.",
      "Lean kernel; standard axioms; finite real arithmetic: inf/NaN from numpy division by exact zero cannot be exhibited by the model (covered by execution only); hand model tied by sampled correspondence.",
      "DESIGN.md §6 C11")

check("C05", "Lean 4 theorems over the pseudo-angle model (length independence, geometric definitions) + correspondence + geometric oracle",
      "Proved (Props/C05.lean, real reading): get_virtual_angles is unchanged when the reference vector or the surface normal is multiplied by any positive factor; "
      "cos 2theta = k_f.k_i; the code's 2 sin(theta) cos(tau) - sin(alpha) IS n.k_f (sin beta); qaz = atan2(k_f.x, k_f.z) away from theta in {0,90}; and the function never raises "
      "(C11.virtualAngles_total). Model compared with get_virtual_angles on random/special positions with vectors of any length in either frame; the oracle recomputes all ten angles from "
      "first-principles vectors and requires invariance under every scaling.",
      "Lean kernel; standard axioms; betain/betaout = asin(-s.k_i), asin(s.k_f) for any surface-vector length (Props/C05Geo.lean); psi (eqs 25/28) = atan2(-n.s, -n.e) with s the scattering-plane normal and e = s x q, exactly, whenever qaz and naz are defined and no 1e-7 threshold is hit (Props/C05Psi.lean: psi_geometric); PARTIAL: on the fallback branch (naz undefined) only the oracle; hand model tied by sampled correspondence.",
      "DESIGN.md §6 C05")

check("C13", "Lean 4 theorems at specification level (forward model and filter invariant / equivariant) + metamorphic oracle on the implementation",
      "Proved on GENERATED get_hkl / B matrix: (a) B scales as 1/s and get_hkl(UB/s, P, s lambda) = get_hkl(UB, P, lambda); (b) get_hkl(UB, P, lambda/n) = n get_hkl(UB, P, lambda); "
      "(c) +360 deg on any axis changes nothing and the read-back filter is 360-periodic; (d) U -> Rz(eps) U with phi -> phi + eps gives the same hkl. Metamorphic oracle: for all 185 modes the "
      "returned sets of the related requests are compared modulo 360 deg, incl. re-mounting the same calculation object in place.",
      "Lean kernel; standard axioms; PARTIAL: that the solver returns the whole (invariant) solution set is C01 and C03; inputs generic (away from thresholds), numerically singular requests skipped.",
      "DESIGN.md §6 C13")

check("C12", "Lean 4 theorems about the shape of the model (queries are functions of the calculator record) + deep-snapshot correspondence on query histories",
      "Theorems (Props/C12.lean): in the model any sequence of queries leaves the calculator record unchanged and the answer to a query is independent of earlier queries — true by the "
      "functional shape of the model. The assurance for the implementation is the tie: histories of mixed queries (returning, raising, naz modes, the caller editing a Position in place) on one "
      "object with a deep snapshot before/after every call and every answer compared with a freshly built calculator in the same state.",
      "Lean kernel; standard axioms; the theorems are about the model's shape; that the Python properties rebuild their dictionaries at every access is a modelling fact carried by the history correspondence.",
      "DESIGN.md §6 C12")

check("C20", "Lean 4 theorems over a hand model (Rodrigues rotations about the auxiliary axis and the reference vector) + correspondence + round-trip oracle",
      "Theorems (Props/C20.lean, real reading): the offset vector has the length of the reference (|UB v'| = |UB v|) and makes exactly the polar angle with it for every azimuth; the frame "
      "decomposition used by the inverse is exact (offset_closed / offset_components), the azimuth atan2 recovers a mod 2 pi for every a incl. 90/180/270 deg where one projection vanishes, and the gate "
      "is open whenever sin(pol) >= 2e-7; polar_roundtrip composes all of it: polarFromHkl(UB, B, s.hklFromPolar(UB, ref, pol, az), ref) = (pol, az mod 2pi, s). Correspondence: model vs both functions on random/axis-aligned/lab-axis references (auxiliary axis switch), azimuth sweeps + special values + beyond 360. "
      "Oracle: round trip (pol, az mod 360, scale) on the implementation, also on one calculator object across lattice/U/UB changes through every public route.",
      "Lean kernel; standard axioms; hand model tied by correspondence; scipy from_rotvec modelled by Rodrigues' formula; the full round trip is a theorem on the model (Props/C20Round.lean: polar_roundtrip, with a concrete non-vacuity example); PARTIAL only in that thresholds 1e-7 are side conditions and the degree/radian argument conversion is tied by correspondence.",
      "DESIGN.md §6 C20")

check("C07", "Lean 4 theorems over a hand model of calc_ub (selection table, triads, single-reflection rotation) + correspondence + recovery oracle",
      "Theorems (Props/C07.lean, real reading): proper rotations commute with the cross product; the triad of positively scaled, rotated vectors is the rotated triad; hence for two references consistent "
      "with U0 in SO(3) calc_ub returns exactly U0 (calcUb_recovers). For ARBITRARY data the result is a proper rotation (triads orthonormal and right-handed), the first direction is reproduced exactly; "
      "parallel pairs are rejected with DiffcalcException and no other error kind can escape; single reflection: Rodrigues matrix is proper and maps the crystal direction onto the measured one; "
      "selection: integer beyond the reflection list addresses orientations, reflections shadow orientations, swapping arguments swaps references, default picks. Correspondence on 0-3 reflections x 0-3 "
      "orientations with index/tag/mixed/no arguments. Oracle: U = U0, UB = U0 B, azimuth half-plane, untouched U/UB on rejection.",
      "Lean kernel; standard axioms; hand model tied by correspondence; numpy inv/norm modelled by adjugate inverse / sqrt; PARTIAL: the untouched-on-rejection clause is by oracle (model returns no matrix on error).",
      "DESIGN.md §6 C07")

check("C14", "Lean 4 theorems over a hand model of every asdict/fromdict pair on an explicit JSON type + correspondence on real dictionaries + round-trip oracle",
      "Theorems (Props/C14.lean, Props/C10Bulk.lean; real reading): fromdict(asdict(x)) = x for Position, Reflection, Orientation, the lists, Crystal (for every crystal produced by the constructor: "
      "cellOfSystem_valid / cellOfSix_valid), ReferenceVector, optional U/UB, UBCalculation, Constraints (bulk_roundtrip: for every state obeying the capacity rules and well typed — both proved "
      "invariants of every history — the bulk setter on a fresh object re-creates the state, no slot ever refused/replaced), HklCalculation; hence equal dictionaries and, queries being functions of the "
      "state (C12), equal answers. States with no lattice / no U / UB only / untagged references / either frame are constructors of the state type. Correspondence: the model's asDict of the real "
      "object's raw attributes vs the real dictionary after json dump/load; the model's fromDict of that dictionary vs the raw attributes of the rebuilt real object; malformed dictionaries must raise on both "
      "sides. Oracle: fromdict, JSON, pickle.dumps/loads, UBCalculation.pickle/load; equal dictionary and equal get_hkl / get_virtual_angles / get_position answers.",
      "Lean kernel; standard axioms; hand model tied by correspondence; pickle trusted (oracle only); PARTIAL: floating-point degree/radian rounding is outside the real reading (tie checks 1e-9).",
      "DESIGN.md §6 C14")

check("C15", "Lean 4 theorems over a hand model of refine_ub and of the closed-form fit (+ generated quaternion/cell code) + correspondence + post-condition oracle",
      "Theorems (Props/C15.lean, real reading): column i of B scales as 1/a_i; the rescale factor gives |B'hkl| = 2 pi |q|/lambda; set_lattice(name, system, rescaled six) keeps the system and scales every "
      "length with a non-zero index (tied lengths together — after the repair); the Rodrigues rotation about (UB hkl) x q by the angle between them aligns the directions; hence refineUb_post / "
      "refineUb_reproduces: with both flags, on the main branch, get_hkl(position) = hkl for every system, start orientation, position and zero pattern. fit_ub: whatever SLSQP returns, the cell stays in the "
      "system and U is a proper rotation; closed form (triclinic): exactly consistent data => least-squares matrix = (UB)^T, Gram-Schmidt returns U, the dual basis has metric tensor G, so lattice and U are "
      "recovered exactly (fitUncon_exact). Correspondence: model vs refine_ub (cell, U, UB; 4 flag combinations) and vs _fit_ub_uncon. Oracle: refine_ub post-condition on all systems/zero patterns; "
      "fit_ub on exact reflections from the solver (verified by an independent forward model): system kept, U proper, misfit not larger, triclinic exact to 1e-8.",
      "Lean kernel; standard axioms; hand model tied by correspondence; scipy SLSQP is a parameter (any output); PARTIAL: 'not reproduced worse than before' for SLSQP systems is oracle-only; skip "
      "thresholds (|sc-1| < 1e-7, |axis| < 1e-7) are hypotheses of the main-branch theorem.",
      "DESIGN.md §6 C15")

NOT_APPLICABLE = []   # filled below for properties without a registered check

ALL = ["C%02d" % i for i in range(1, 21)]

def main():
    checks = []
    for pid in ALL:
        if pid not in CHECKS:
            continue
        c = CHECKS[pid]
        checks.append({
            "property_id": pid,
            "quick_cmd": f"/venv/bin/python tools/check.py {pid} --tier quick",
            "thorough_cmd": f"/venv/bin/python tools/check.py {pid} --tier thorough",
            "evidence_file": f"/verif/evidence/{pid}.json",
            "replay_cmd_template": f"/venv/bin/python tools/check.py {pid} --replay {{path}}",
            "engine": "lean4-proof+correspondence",
            "level_claimed": {"category": c["category"], "text": c["text"], "design_ref": c["design_ref"]},
            "level_note": c["note"],
            "technique": c["technique"],
        })
    na = [{"property_id": pid, "reason": "check not built yet in this round (planned: Lean model + theorems + correspondence, see DESIGN.md §6)"}
          for pid in ALL if pid not in CHECKS]
    m = {
        "version": 1,
        "setup_cmd": "cd /verif && /venv/bin/python tools/py2lean.py --repo /repo ; cd /verif/lean && lake build",
        "hooks": {"guard": "DIFFCALC_CORE_VERIF", "enable": "no hooks: nothing in /repo is instrumented; checks import /repo/src in-process",
                  "baseline_off_cmd": "cd /repo && /venv/bin/python -m pytest -q -p no:cacheprovider", "source_commits": [], "add_only": True},
        "engines": [{"name": "lean4-proof+correspondence", "path": "/verif/tools/check.py",
                     "serves_properties": [c["property_id"] for c in checks],
                     "kind_free_text": "Lean 4 theorems about a formal model (lean/), tied to /repo by a translator (tools/py2lean.py, regenerated every run) "
                                       "and by a line-protocol correspondence check (lean/Driver.lean vs the implementation in-process); property oracles on the implementation produce replays"}],
        "checks": checks,
        "not_applicable": na,
        "notes": "quick/thorough honour VERIF_SEED and VERIF_TIER; exit 2 = infrastructure error/timeout. known findings: /verif/known_findings.json. seeded changes: /verif/seeded/.",
    }
    with open(os.path.join(VERIF, "MANIFEST.json"), "w") as f:
        json.dump(m, f, indent=1); f.write("\n")
    print("checks:", [c["property_id"] for c in checks], "not_applicable:", len(na))

if __name__ == "__main__":
    main()
