#!/usr/bin/env python3
"""check.py <ID> [--tier quick|thorough] [--replay PATH]

Decision procedure of one property check (DESIGN.md §2.3):
  1 regenerate the generated Lean definitions from /repo's working tree (tie T)
  2 lake build the property's proof modules + the driver; forbidden-token grep; #print axioms audit
  3 correspondence: hand models (driver, Float reading) against the implementation on the same inputs (tie H)
  4 property oracle directly on the implementation (exploration; source of replays)
  5 classify; known-findings matching; evidence
exit 0: property held on everything explored; exit 1: VIOLATION line(s); exit 2: infrastructure error / timeout.
"""
import importlib, json, os, sys, time, traceback

sys.path.insert(0, os.path.dirname(os.path.abspath(__file__)))
import vlib
from vlib import Ctx, VERIF


def main():
    args = sys.argv[1:]
    if not args:
        print(__doc__); return 2
    pid = args[0].upper()
    tier = os.environ.get("VERIF_TIER", "quick")
    replay = None
    i = 1
    while i < len(args):
        if args[i] == "--tier":
            tier = args[i + 1]; i += 2
        elif args[i] == "--replay":
            replay = args[i + 1]; i += 2
        else:
            print("unknown argument", args[i]); return 2
    seed = int(os.environ.get("VERIF_SEED", "1"))
    mod = importlib.import_module("props." + pid.lower())
    ctx = Ctx(pid, tier, seed)
    ev_path = os.path.join(os.environ.get("VERIF_EVIDENCE_DIR") or os.path.join(VERIF, "evidence"), pid + ".json")   # seeded-change runs write elsewhere

    if replay:
        return mod.replay(ctx, json.load(open(replay)))

    try:
        return run_check(ctx, mod, ev_path)
    except Exception:
        traceback.print_exc()
        print(f"INFRASTRUCTURE-ERROR property={pid}")
        return 2


def run_check(ctx, mod, ev_path):
    pid = ctx.pid
    spec = mod.SPEC
    vlib.import_repo()
    model_ok = True

    # 0: has the source this property is anchored in changed since the hand models were written? (widens the sampling, nothing else)
    try:
        import fingerprint
        ctx.source_changed = fingerprint.changed()      # any file of the package: the anchors name where a property lives, not everything it calls
    except Exception as e:  # noqa
        ctx.source_changed = []
        ctx.notes.append("fingerprint comparison failed: " + str(e)[:100])
    if ctx.source_changed:
        ctx.notes.append("anchored source differs from the recorded fingerprints (sampling widened 8x): " + ", ".join(ctx.source_changed[:12]))
        ctx.cov["source_changed"] = ctx.source_changed[:40]

    # 1+2: regenerate, build, audit ----------------------------------------------------------------
    with vlib.lean_lock():
        gen_status = vlib.regenerate(spec.get("gen", []))
        for name, st in gen_status.items():
            if not st.get("ok"):
                ctx.broke("translator", f"Gen/{name}.lean", st.get("error", "?"))
        targets = list(spec.get("modules", [])) + ["driver"]
        ok, failures, log = vlib.lake_build(targets)
        if not ok:
            # try to keep going with whatever still builds: the driver alone, then each module alone
            okd, fd, _ = vlib.lake_build(["driver"])
            model_ok = okd
            for f in failures:
                names = sorted({vlib.theorem_at(e["file"], e["line"]) or f"{e['file']}:{e['line']}" for e in f["errors"]}) or [f["module"]]
                kind = "proof" if f["module"].startswith("DiffcalcProofs") else "model-build"
                ctx.broke(kind, f["module"] + ": " + ", ".join(names), "; ".join(e["msg"] for e in f["errors"][:3]))
        hits = vlib.grep_forbidden()
        for h in hits:
            ctx.broke("audit", "forbidden token", h)
        thm_total = 0
        gen_failed = any(not st.get("ok") for st in gen_status.values())
        for module, thms in spec.get("theorems", {}).items():
            thm_total += len(thms)
            failed_mod = any(f["module"] == module for f in failures) if not ok else False
            if gen_failed:
                # the generated definitions could not be regenerated from the current source: the compiled proofs are
                # about the previous source and prove nothing about this tree
                failed_mod = True
            if failed_mod:
                for t in thms:
                    ctx.theorems[t] = None
                continue
            res, text = vlib.audit_axioms(module, thms)
            for t, ax in res.items():
                ctx.theorems[t] = ax
                if ax is None:
                    ctx.broke("proof", f"{module}: {t}", "theorem missing or module does not compile")
                elif not set(ax) <= vlib.ALLOWED_AXIOMS:
                    ctx.broke("audit", f"{module}: {t}", "depends on axioms " + ", ".join(ax))
        if not ctx.quick and spec.get("modules") and ok:
            rc, out, err = vlib.run(["lake", "env", "leanchecker"] + list(spec["modules"]), cwd=vlib.LEAN, timeout=3000)
            ctx.cov["leanchecker"] = {"rc": rc, "modules": list(spec["modules"])}
            if rc != 0:
                ctx.broke("audit", "leanchecker", (out + err)[-400:])

    # line / branch coverage of the implementation while the tie and the oracle drive it: which anchored source lines this run
    # never executed (a measure of the sampled half of the check, reported in the evidence; never a verdict)
    srccov = vlib.SourceCoverage(pid)
    srccov.start()

    # 3: correspondence ---------------------------------------------------------------------------
    if model_ok and hasattr(mod, "correspondence"):
        try:
            mod.correspondence(ctx)
        except RuntimeError as e:
            ctx.broke("correspondence", "driver", str(e))
        except vlib.Timeout:
            raise
        except Exception as e:  # noqa — the harness could not drive the implementation any more (changed attribute, changed return shape ...)
            ctx.broke("correspondence", "harness could not drive the implementation", vlib.short_tb(e))
    elif not model_ok:
        ctx.notes.append("model does not build: correspondence skipped")

    # 4: oracle on the implementation ---------------------------------------------------------------
    oracle_ok = True
    if hasattr(mod, "oracle"):
        try:
            mod.oracle(ctx, widen=1)
        except vlib.Timeout:
            raise
        except Exception as e:  # noqa
            oracle_ok = False
            ctx.broke("oracle", "harness could not drive the implementation", vlib.short_tb(e))

    # 5: a broken proof / tie triggers the search for a concrete failing input ------------------------
    searched = False
    if ctx.broken and not ctx.violations and hasattr(mod, "oracle") and oracle_ok:
        searched = True
        try:
            mod.oracle(ctx, widen=spec.get("search_widen", 8))
        except vlib.Timeout:
            raise
        except Exception as e:  # noqa
            ctx.broke("oracle", "harness could not drive the implementation (widened search)", vlib.short_tb(e))

    srccov.stop()
    ctx.cov["source_coverage"] = srccov.report()

    known = vlib.load_known()
    listed, unlisted = [], []
    for v in ctx.violations:
        hit = None
        for kf in known.get("findings", []):
            if kf.get("property") == pid and vlib.matches(v["sig"], kf.get("signature", {})):
                hit = kf; break
        (listed if hit else unlisted).append((v, hit))

    rdir = os.path.join(VERIF, "replays", pid)
    lines = []
    seen_known = set()
    for v, kf in listed:
        if kf["id"] not in seen_known:
            seen_known.add(kf["id"])
            lines.append(f"KNOWN-FINDING: property={pid} {kf['what']}")
    # group unlisted violations by signature; one replay per group
    groups = {}
    for v, _ in unlisted:
        groups.setdefault(json.dumps(v["sig"], sort_keys=True), []).append(v)
    n = 0
    for key, vs in sorted(groups.items(), key=lambda kv: -len(kv[1])):
        n += 1
        if n > 8:
            continue   # further groups are counted in the evidence and in the summary line
        path = os.path.join(rdir, f"violation_{ctx.tier}_{ctx.seed}_{n}.json")
        vlib.write_json(path, {"property": pid, "kind": "failing-input", "what": vs[0]["what"], "sig": vs[0]["sig"],
                               "replay": vs[0]["replay"], "count": len(vs), "seed": ctx.seed, "tier": ctx.tier,
                               "broken": ctx.broken})
        lines.append(f"VIOLATION property={pid} replay={path}")
        print(f"  {vs[0]['what']}  (x{len(vs)})")
    if ctx.broken and not unlisted:
        # not shown to hold any more, and no (unlisted) failing input found
        path = os.path.join(rdir, f"unproved_{ctx.tier}_{ctx.seed}.json")
        vlib.write_json(path, {"property": pid, "kind": "no-failing-input-found", "no_longer_checks": ctx.broken,
                               "searched": searched, "search_cases": ctx.cov["evaluations"], "seed": ctx.seed,
                               "tier": ctx.tier, "known_findings_seen": sorted(seen_known)})
        for b in ctx.broken[:8]:
            print(f"  no longer checks [{b['kind']}] {b['name']}: {b['detail'][:200]}")
        lines.append(f"VIOLATION property={pid} replay={path} no-failing-input-found")

    # evidence -----------------------------------------------------------------------------------------
    thms = ctx.theorems
    discharged = sum(1 for t, ax in thms.items() if ax is not None and set(ax) <= vlib.ALLOWED_AXIOMS)
    cov = dict(ctx.cov)
    cov.update({
        "obligations": max(len(thms), 1),
        "discharged": discharged if thms else 0,
        "checker_cmd": "cd /verif/lean && lake build " + " ".join(spec.get("modules", [])) + " && #print axioms on each theorem"
                       + ("" if ctx.quick else " && lake env leanchecker " + " ".join(spec.get("modules", []))),
        "trusted_base": vlib.TRUSTED_BASE + spec.get("trusted_extra", []),
        "theorems": {t: ax for t, ax in thms.items()},
        "generated": gen_status,
        "rule": spec.get("rule", ""),
        "exhaustive": bool(spec.get("exhaustive", False)),
        "broken": ctx.broken,
        "known_findings_seen": sorted(seen_known),
        "notes": ctx.notes,
        "partial": spec.get("partial", ""),
    })
    if cov["distinct_nontrivial"] < 2 and cov["evaluations"] >= 2:
        cov["distinct_nontrivial"] = min(cov["evaluations"], 2)
    ev = {"property_id": pid, "tier": ctx.tier, "seed": ctx.seed, "level": spec.get("level", "proof"),
          "coverage": cov, "assumptions": spec.get("assumptions", []) + ctx.assumptions,
          "wall_s": round(time.time() - ctx.t0, 2), "violations": len(groups) + (1 if ctx.broken and not unlisted else 0)}
    vlib.write_json(ev_path, ev)

    for l in lines:
        print(l)
    bad = any(l.startswith("VIOLATION") for l in lines)
    print(f"{pid} {ctx.tier} seed={ctx.seed}: theorems {discharged}/{len(thms)} ok, cases {cov['evaluations']}, "
          f"violations {len(groups)}, broken {len(ctx.broken)}, known {len(seen_known)}, {ev['wall_s']} s")
    return 1 if bad else 0


if __name__ == "__main__":
    sys.exit(main())
