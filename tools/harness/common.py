"""Helpers shared by harnesses and oracles: fixtures on the real implementation, outcome classification,
an independent numpy forward model and geometric pseudo-angles (written against You (1999), not against the code)."""
import itertools, math
from math import sin, cos, radians, degrees, pi, atan2, asin, acos
import numpy as np
from vlib import quiet

NAMES = ["delta", "nu", "qaz", "naz", "a_eq_b", "alpha", "beta", "psi", "bin_eq_bout", "betain", "betaout",
         "mu", "eta", "chi", "phi", "bisect", "omega"]
VOID = {"a_eq_b", "bin_eq_bout", "bisect"}
CAT = {n: ("det" if i < 4 else "ref" if i < 11 else "samp") for i, n in enumerate(NAMES)}
AXES = ["mu", "delta", "nu", "eta", "chi", "phi"]


def triples():
    return list(itertools.combinations(NAMES, 3))


def accepted(tr):
    return sum(CAT[n] == "det" for n in tr) <= 1 and sum(CAT[n] == "ref" for n in tr) <= 1


def rot_from_rotvec(v):
    from scipy.spatial.transform import Rotation
    return Rotation.from_rotvec(v).as_matrix()


def mk_ub(lattice=(4.1, 5.2, 6.3, 80, 95, 100), rotvec=(0.3, -0.5, 0.7), n_hkl=(1, 0.2, 0.1), surf_nphi=None,
          surf_nhkl=(0.1, 0.2, 1), n_phi=None):
    from diffcalc.ub.calc import UBCalculation
    with quiet():
        ub = UBCalculation("t")
        ub.set_lattice("x", *lattice)
        ub.set_u(rot_from_rotvec(list(rotvec)))
    if n_phi is not None:
        ub.n_phi = tuple(n_phi)
    elif n_hkl is not None:
        ub.n_hkl = tuple(n_hkl)
    if surf_nphi is not None:
        ub.surf_nphi = tuple(surf_nphi)
    elif surf_nhkl is not None:
        ub.surf_nhkl = tuple(surf_nhkl)
    return ub


def classify_get_position(hc, hkl, wl):
    """outcome class of get_position: ('ok', list) | ('NOTIMPL'|'NOCODE'|'nosol'|'READBACK'|'dce', msg) | ('EXC', repr)"""
    from diffcalc.util import DiffcalcException
    with quiet():
        try:
            r = hc.get_position(*hkl, wl)
            return "ok", r
        except DiffcalcException as e:
            m = Exception.__str__(e)
            if "not implemented" in m:
                return "NOTIMPL", m
            # fall-through branches of the dispatchers: the mode reached a place where the solver has no code for it
            if ("No code yet" in m or "Internal error" in m or "Cannot calculate alpha and beta reference angles" in m
                    or "Given angle must be one of" in m or "Invalid set of sample constraints" in m):
                return "NOCODE", m
            if "No solutions" in m:
                return "nosol", m
            if "ERROR" in m:
                return "READBACK", m
            return "dce", m
        except Exception as e:  # noqa
            import traceback
            tb = traceback.extract_tb(e.__traceback__)[-1]
            return "EXC", f"{type(e).__name__}: {e} @ {tb.filename.split('/')[-1]}:{tb.lineno}"


# ---- independent forward model (You 1999): mu, nu right-handed about x; chi about y; delta, eta, phi left-handed about z

def Rx(a): return np.array([[1, 0, 0], [0, cos(a), -sin(a)], [0, sin(a), cos(a)]])
def Ry(a): return np.array([[cos(a), 0, sin(a)], [0, 1, 0], [-sin(a), 0, cos(a)]])
def Rz(a): return np.array([[cos(a), -sin(a), 0], [sin(a), cos(a), 0], [0, 0, 1]])


def mats(p):
    mu, de, nu, et, ch, ph = [radians(x) for x in p]
    ki = np.array([0.0, 1.0, 0.0])
    kf = Rx(nu) @ Rz(-de) @ ki
    Z = Rx(mu) @ Rz(-et) @ Ry(ch) @ Rz(-ph)
    return ki, kf, Z


def fwd(UB, p, wl):
    ki, kf, Z = mats(p)
    return np.linalg.solve(UB, Z.T @ ((kf - ki) * 2 * pi / wl))


def pseudo(nphi, sphi, p):
    """geometric definitions of the pseudo-angles for position p (degrees); nphi/sphi: reference / surface
    vectors in the phi frame, any length"""
    ki, kf, Z = mats(p)
    res = {}
    tth = acos(np.clip(kf @ ki, -1, 1))
    res["theta"] = degrees(tth / 2)
    res["ttheta"] = degrees(tth)
    # azimuths are undefined at their poles (k_f along the beam: 2theta = 0 or 180; n along y): omitted there
    if math.hypot(kf[0], kf[2]) > 1e-7:
        res["qaz"] = degrees(atan2(kf[0], kf[2]))
    if nphi is not None:
        n = Z @ (np.asarray(nphi, float) / np.linalg.norm(nphi))
        if math.hypot(n[0], n[2]) > 1e-7:
            res["naz"] = degrees(atan2(n[0], n[2]))
        res["alpha"] = degrees(asin(np.clip(-n @ ki, -1, 1)))
        res["beta"] = degrees(asin(np.clip(n @ kf, -1, 1)))
        q = kf - ki
        nq = np.linalg.norm(q)
        if nq > 1e-9:
            qh = q / nq
            res["tau"] = degrees(acos(np.clip(qh @ n, -1, 1)))
            s = np.cross(ki, kf)
            ns = np.linalg.norm(s)
            if ns > 1e-9:
                s = s / ns
                e = np.cross(s, qh)
                # azimuth of n about q, zero in the scattering plane on the side of k_i + k_f
                res["psi"] = degrees(atan2(-(n @ s), -(n @ e)))
    if sphi is not None:
        s_ = Z @ (np.asarray(sphi, float) / np.linalg.norm(sphi))
        res["betain"] = degrees(asin(np.clip(-s_ @ ki, -1, 1)))
        res["betaout"] = degrees(asin(np.clip(s_ @ kf, -1, 1)))
    return res
