"""Shared generators / correspondence / oracles for the hkl->angles pipeline (C01, C02, C03, C11, C12, C13)."""
import math
import numpy as np
from math import radians, degrees, sin, cos, tan, atan, atan2, asin, acos, pi
from vlib import drive, quiet, angdiff
from harness.common import NAMES, VOID, AXES, CAT, mk_ub, fwd, pseudo, mats, rot_from_rotvec
from harness import solver as S

_MODES = None


def modes():
    global _MODES
    if _MODES is None:
        _MODES = S.implemented_modes()
    return _MODES


def rand_ub(rng, kind=None):
    kind = kind or rng.choice(["triclinic", "triclinic", "cubicI", "hex", "ortho-lab", "triclinic", "triclinic", "cubicI", "hex", "ortho-lab", "ints"])
    if kind == "ints":
        # everything the user types given as whole numbers (Python ints): cell, vectors
        lat = rng.choice([(4, 5, 6, 80, 95, 100), ("Hexagonal", 3, 5), (4, 5, 6), ("Rhombohedral", 5, 75), (4, 5, 6, 100)])
        return mk_ub(lattice=lat, rotvec=[rng.uniform(-1.5, 1.5) for _ in range(3)], n_hkl=rng.choice([(0, 0, 1), (1, 1, 0), (1, 2, 3)]),
                     surf_nphi=None, surf_nhkl=rng.choice([(0, 1, 1), (0, 0, 1), (2, 0, 1)])), kind
    if kind == "cubicI":
        return mk_ub(lattice=(rng.choice([1.0, 3.5]),), rotvec=(0, 0, 0), n_hkl=None, n_phi=(0, 0, 1), surf_nphi=(0, 0, 1), surf_nhkl=None), kind
    if kind == "hex":
        return mk_ub(lattice=(3.0, 3.0, 5.0, 120), rotvec=(0, 0, 0.3), n_hkl=(0, 0, 1), surf_nphi=(0, 1, 0), surf_nhkl=None), kind
    if kind == "ortho-lab":
        v = [rng.uniform(-1, 1) for _ in range(3)]
        w = [rng.uniform(-1, 1) for _ in range(3)]
        return mk_ub(lattice=(4.0, 5.0, 6.0), rotvec=[rng.uniform(-1, 1) for _ in range(3)], n_hkl=None, n_phi=[x * rng.choice([1, 2.5]) for x in v],
                     surf_nphi=None, surf_nhkl=w), kind
    return mk_ub(rotvec=[rng.uniform(-1.5, 1.5) for _ in range(3)], n_hkl=[rng.uniform(-1, 1) for _ in range(3)],
                 surf_nhkl=[rng.uniform(-1, 1) for _ in range(3)]), kind


def vectors(ub):
    """reference and surface vector in the phi frame, computed from the stored coordinates and the CURRENT UB
    (independently of the n_phi / surf_nphi getters)"""
    UB = np.asarray(ub.UB, float)
    out = []
    for rv in (ub.reference, ub.surface):
        v = np.asarray(rv.n_ref, float)
        if rv.rlv:
            v = UB @ v
            v = v / np.linalg.norm(v)
        out.append(v)
    return out[0], out[1]


def psi_of(ub, P):
    from diffcalc.hkl.calc import HklCalculation
    from diffcalc.hkl.constraints import Constraints
    from diffcalc.hkl.geometry import Position
    n, s = vectors(ub)
    return pseudo(n, s, P).get("psi", float("nan"))


def construct_request(rng, ub, tr, P0=None):
    """a physical position P satisfying an instance of mode `tr`, the constraint values read off P, and hkl = fwd(P).
    Void / bisect / omega modes: P (and for a_eq_b / bin_eq_bout the vectors of a *copy* of ub) are constructed to satisfy them.
    returns (ub', vals, hkl, P) or None"""
    import copy
    P = list(P0) if P0 is not None else [rng.uniform(-179, 179) for _ in range(6)]
    ub2 = ub
    om = None
    if "bisect" in tr:
        ki, kf, Z = mats(P)
        th = acos(np.clip(kf @ ki, -1, 1)) / 2
        qaz = atan2(kf[0], kf[2])
        if "omega" in tr:
            om = radians(rng.uniform(-60, 60))
        elif "mu" in tr:
            if abs(cos(qaz)) < 1e-3:
                return None
            tho = atan(tan(radians(P[0])) / cos(qaz)) + rng.choice([0, pi]); om = tho - th
        elif "eta" in tr:
            x = sin(radians(P[3])) / sin(qaz) if abs(sin(qaz)) > 1e-3 else 2
            if abs(x) > 1:
                return None
            tho = asin(x); tho = rng.choice([tho, pi - tho]); om = tho - th
        mu_ = atan(tan(th + om) * cos(qaz)) + rng.choice([0, pi])
        e_ = asin(np.clip(sin(th + om) * sin(qaz), -1, 1)); e_ = rng.choice([e_, pi - e_])
        if "mu" not in tr or "omega" in tr:
            P[0] = degrees(mu_)
        if "eta" not in tr or "omega" in tr:
            P[3] = degrees(e_)
        P = [(x + 180) % 360 - 180 for x in P]
    ki, kf, Z = mats(P)
    if "a_eq_b" in tr or "bin_eq_bout" in tr:
        ub2 = copy.deepcopy(ub)
        w = ki + kf
        v = np.cross(w, [rng.uniform(-1, 1) for _ in range(3)])
        v = Z.T @ v / np.linalg.norm(v)
        if "a_eq_b" in tr:
            ub2.n_phi = tuple(float(x) for x in v)
        else:
            ub2.surf_nphi = tuple(float(x) for x in v)
    if any(nm in tr for nm in ("bin_eq_bout", "betain", "betaout")) and "naz" not in tr and rng.random() < 0.15:
        # surface-type modes never look at the azimuthal reference vector: put it exactly along the scattering vector (tau = 0), where
        # every reference-type pseudo-angle is undefined — the request stays perfectly regular
        q = kf - ki
        if np.linalg.norm(q) > 1e-6:
            ub2 = copy.deepcopy(ub2)
            ub2.n_phi = tuple(float(x) for x in (Z.T @ q) * rng.choice([1.0, -1.0, 2.5]))
    if "psi" in tr and rng.random() < 0.3:
        # place the reference vector so that psi comes out a hair off 0 / 180 / +-90 (the band in which the +psi and -psi roots nearly coincide)
        q = kf - ki
        sp = np.cross(ki, kf)
        if np.linalg.norm(q) > 1e-6 and np.linalg.norm(sp) > 1e-6:
            qh, sh = q / np.linalg.norm(q), sp / np.linalg.norm(sp)
            eh = np.cross(sh, qh)
            psi_t = radians(rng.choice([0.0, 180.0, 0.0, 180.0, 90.0, -90.0]) + (10.0 ** rng.uniform(-6.5, -2.0)) * rng.choice((-1, 1)))
            tau_t = radians(rng.uniform(20, 160))
            nl = cos(tau_t) * qh - sin(tau_t) * (sin(psi_t) * sh + cos(psi_t) * eh)
            ub2 = copy.deepcopy(ub2)
            ub2.n_phi = tuple(float(x) for x in Z.T @ nl)
    n, s = vectors(ub2)
    pv = pseudo(n, s, P)
    vals = {}
    for nm in tr:
        if nm in VOID:
            vals[nm] = True
        elif nm in AXES:
            vals[nm] = P[AXES.index(nm)]
        elif nm == "omega":
            vals[nm] = degrees(om) if om is not None else rng.uniform(-60, 60)
        else:
            vals[nm] = pv.get(nm, float("nan"))
    if any((v is not True) and math.isnan(v) for v in vals.values()):
        return None
    hkl = tuple(float(x) for x in fwd(np.asarray(ub2.UB, float), P, 1.0))
    return ub2, vals, hkl, P


SPECIAL = [0, 90, -90, 180, 45, 30, 60, 120, -180, 270]
HKLS = [(0, 0, 0), (0, 0, 1), (1, 0, 0), (0, 1, 0), (1, 1, 0), (1, 1, 1), (0, 0, 0.5), (0.3, 0.2, 0.7), (3, 3, 3), (1, 0, 1), (-1, 0, 0)]


def special_request(rng, tr):
    vals = {nm: (True if nm in VOID else float(rng.choice(SPECIAL))) for nm in tr}
    ub, _ = rand_ub(rng)
    return ub, vals, tuple(float(x) for x in rng.choice(HKLS)), rng.choice([1.0, 0.5, 2.0])


ALIGNED_SETUPS = [
    ("cubicI-nz", dict(lattice=(1.0,), rotvec=(0, 0, 0), n_hkl=None, n_phi=(0, 0, 1), surf_nphi=(0, 0, 1), surf_nhkl=None)),
    ("cubicI-nx", dict(lattice=(2.0,), rotvec=(0, 0, 0), n_hkl=(1, 0, 0), n_phi=None, surf_nphi=(0, 0, 1), surf_nhkl=None)),
    ("ortho-ny", dict(lattice=(4.0, 5.0, 6.0), rotvec=(0, 0, 0), n_hkl=(0, 1, 0), n_phi=None, surf_nphi=None, surf_nhkl=(0, 0, 1))),
    ("ortho-rot90", dict(lattice=(4.0, 5.0, 6.0), rotvec=(math.pi / 2, 0, 0), n_hkl=(0, 0, 1), n_phi=None, surf_nphi=(0, 1, 0), surf_nhkl=None)),
    ("triclinic", dict(lattice=(4.1, 5.2, 6.3, 80, 95, 100), rotvec=(0.3, -0.5, 0.7), n_hkl=(1, 0.2, 0.1), n_phi=None, surf_nphi=None, surf_nhkl=(0.1, 0.2, 1))),
]
ALIGNED_HKLS = [(0, 0, 0), (1, 0, 0), (0, 1, 0), (0, 0, 1), (1, 1, 0), (1, 0, 1), (0, 1, 1), (1, 1, 1), (1, 0.5, 1), (-1, 0, 0), (0, 0, -1), (0.3, 0.2, 0.7)]
ALIGNED_VALUES = [0.0, 0.0, 0.0, 90.0, -90.0, 180.0, 270.0, 45.0, 20.0]


def aligned_requests(rng, per_mode):
    """structured requests on aligned set-ups (U = 1 or a quarter turn, reference / surface along axes, axis and in-plane hkl) with the constraint values
    drawn mostly from {0, +-90, 180, 270}: the region where the solver's degenerate branches, sign choices and `is_small` shortcuts live.
    -> list of (ub, vals, hkl, wl, tag)"""
    out = []
    ubs = {}
    for tr in modes():
        for _ in range(per_mode):
            name, kw = rng.choice(ALIGNED_SETUPS)
            if name not in ubs:
                ubs[name] = mk_ub(**kw)
            kind = rng.choice(["zeros", "zeros", "special", "special", "vertical"])
            vals = {}
            for nm in tr:
                if nm in VOID:
                    vals[nm] = True
                elif kind == "zeros":
                    vals[nm] = 0.0
                elif kind == "vertical" and nm in ("qaz", "naz"):
                    vals[nm] = rng.choice([90.0, -90.0, 270.0])
                elif kind == "vertical":
                    vals[nm] = rng.choice([0.0, 0.0, 20.0, 180.0])
                else:
                    vals[nm] = rng.choice(ALIGNED_VALUES)
            out.append((ubs[name], vals, tuple(float(x) for x in rng.choice(ALIGNED_HKLS)), rng.choice([1.0, 1.0, 0.5]), "aligned:" + name + ":" + kind))
    return out


def degenerate_requests(rng, n):
    """the two degenerate 4-circle families (vertical: chi = 0 / 180 with phi || eta; horizontal: chi = +-90 with phi || mu) on an aligned cubic set-up"""
    out = []
    for _ in range(n):
        a = rng.choice([1.0, 2.0, 3.3])
        ub = mk_ub(lattice=(a,), rotvec=(0, 0, 0), n_hkl=None, n_phi=(0, 0, 1), surf_nphi=(0, 0, 1), surf_nhkl=None)
        h, k = rng.uniform(0.1, 0.6), rng.uniform(0.1, 0.6)
        x = rng.choice([0.0, 20.0, rng.uniform(-60, 60), 0.0])
        fam = rng.choice(["v-eta", "v-free", "h-mu", "h-free", "v-delta", "h-nu", "v-any", "h-any", "v-any", "h-any", "v-tidy", "h-tidy", "h-tidy"])
        if fam in ("v-tidy", "h-tidy"):
            # exactly the shape the tidy-up acts on: a detector-like constraint, mu (resp. eta) constrained to 0, the other outer axis and phi
            # free, third constraint a reference one; requested from a degenerate position with chi = 0 (resp. 90) on a slightly turned crystal
            ax = "mu" if fam == "v-tidy" else "eta"
            cands = [tr for tr in modes() if ax in tr and any(d in tr for d in ("delta", "nu", "qaz", "naz"))
                     and not any(o in tr for o in ("phi", "chi", "bisect", "omega", "eta" if ax == "mu" else "mu"))]
            tr = rng.choice(cands)
            if fam == "v-tidy":
                P0 = [0.0, rng.uniform(10, 120), 0.0, rng.uniform(-80, 80), 0.0, rng.uniform(-170, 170)]
            else:
                P0 = [rng.uniform(-80, 80), 0.0, rng.uniform(10, 120), 0.0, 90.0, rng.uniform(-170, 170)]
            ub = mk_ub(lattice=(a,), rotvec=(0, 0, rng.uniform(-1, 1)), n_hkl=None,
                       n_phi=rng.choice([(0, 0, 1), (1, 0.2, 0.1), (0.3, 1, 0.2)]), surf_nphi=(0, 0, 1), surf_nhkl=None)
            r = construct_request(rng, ub, tr, P0=P0)
            if r is not None:
                ub2, vals, hkl, P = r
                out.append((ub2, vals, tuple(float(x) for x in hkl), 1.0, fam))
        elif fam in ("v-any", "h-any"):
            # a degenerate 4-circle position, requested through ANY implemented mode whose three quantities are read off it
            # (incl. omega + bisect, where eta resp. mu is tied without being a named constraint)
            tr = rng.choice(modes())
            if fam == "v-any":
                P0 = [0.0, rng.uniform(10, 120), 0.0, rng.uniform(-80, 80), rng.choice([0.0, 0.0, 180.0]), rng.uniform(-170, 170)]
            else:
                P0 = [rng.uniform(-80, 80), 0.0, rng.uniform(10, 120), 0.0, rng.choice([90.0, 90.0, -90.0]), rng.uniform(-170, 170)]
            if rng.random() < 0.5:
                ub = mk_ub(lattice=(a,), rotvec=(0, 0, rng.uniform(-1, 1)), n_hkl=None, n_phi=(0, 0, 1), surf_nphi=(0, 0, 1), surf_nhkl=None)
            r = construct_request(rng, ub, tr, P0=P0)
            if r is not None:
                ub2, vals, hkl, P = r
                out.append((ub2, vals, tuple(float(x) for x in hkl), 1.0, fam))
        elif fam == "v-eta":      # chi=0, mu=nu=0 family, eta constrained
            out.append((ub, {"qaz": 90.0, "mu": 0.0, "eta": x}, (h, k, 0.0), 1.0, fam))
        elif fam == "v-free":   # eta free: the tidy-up is allowed to choose it
            out.append((ub, {"qaz": 90.0, "mu": 0.0, "a_eq_b": True}, (h, k, 0.0), 1.0, fam))
        elif fam == "h-mu":     # chi=90, eta=delta=0 family, mu constrained
            out.append((ub, {"qaz": 0.0, "eta": 0.0, "mu": x}, (h, k, 0.0), 1.0, fam))
        elif fam == "h-free":
            out.append((ub, {"qaz": 0.0, "eta": 0.0, "a_eq_b": True}, (h, k, 0.0), 1.0, fam))
        elif fam == "v-delta":
            out.append((ub, {"nu": 0.0, "mu": 0.0, "eta": x}, (h, k, 0.0), 1.0, fam))
        else:
            out.append((ub, {"delta": 0.0, "eta": 0.0, "mu": x}, (h, k, 0.0), 1.0, fam))
    return out



def diagonal_axis_requests(rng, n):
    """the scattering vector EXACTLY along a sample rotation axis (x, y or z of the phi frame, to the last bit) without the cell being aligned:
    cubic cell, U a 45-degree turn about a cell axis written out with cos / sin, hkl an in-plane diagonal — (1,1,0) lands on a lab axis with an
    exact 0.0 in the other component, where the two-sample branches divide by a length that is then exactly zero; every mode with two sample
    constraints (with a detector or a reference constraint), sample values at multiples of 45 / 90 degrees"""
    import numpy as np
    from math import cos, sin, radians
    from diffcalc.ub.calc import UBCalculation
    out = []
    trs = [tr for tr in modes() if sum(1 for x in tr if x in ("mu", "eta", "chi", "phi")) >= 2]
    c, s = cos(radians(45)), sin(radians(45))
    US = {"z": [[c, -s, 0], [s, c, 0], [0, 0, 1]], "z-": [[c, s, 0], [-s, c, 0], [0, 0, 1]], "x": [[1, 0, 0], [0, c, -s], [0, s, c]],
          "y": [[c, 0, s], [0, 1, 0], [-s, 0, c]], "y-": [[c, 0, -s], [0, 1, 0], [s, 0, c]]}
    HK = {"z": [(1, 1, 0), (1, -1, 0), (-1, -1, 0), (2, 2, 0)], "z-": [(1, 1, 0), (1, -1, 0), (-1, 1, 0)], "x": [(0, 1, 1), (0, 1, -1), (0, -1, -1)],
          "y": [(1, 0, 1), (1, 0, -1), (-1, 0, -1)], "y-": [(1, 0, 1), (-1, 0, 1), (1, 0, -1)]}
    for _ in range(n):
        ax = rng.choice(sorted(US))
        a, wl = rng.choice([(1.0, 1.0), (1.5, 1.0), (1.0, 1.2), (2.0, 1.5), (1.5, 1.5), (3.0, 1.0)])
        with quiet():
            ub = UBCalculation("t")
            ub.set_lattice("x", a)
            ub.set_u(US[ax])
        ub.n_phi = rng.choice([(0, 0, 1), (1, 0, 0), (0.3, 1, 0.2)])
        ub.surf_nphi = (0, 0, 1)
        tr = rng.choice(trs)
        vals = {}
        for nm in tr:
            if nm in ("a_eq_b", "bin_eq_bout", "bisect"):
                vals[nm] = True
            elif nm in ("mu", "eta", "chi", "phi"):
                vals[nm] = float(rng.choice([0, 0, 0, 90, -90, 180, 45, -45]))
            elif nm == "qaz":
                vals[nm] = float(rng.choice([90, 90, 0, 30]))
            elif nm in ("nu", "delta"):
                vals[nm] = float(rng.choice([0, 0, 20, 90]))
            else:
                vals[nm] = float(rng.choice(SPECIAL + [12.5]))
        out.append((ub, vals, tuple(float(x) for x in rng.choice(HK[ax])), wl, "diagonal-axis"))
    return out


def exact_ttheta_requests(rng, per_mode):
    """requests whose Bragg angle is exactly 2theta = 90 (or 60 / 120): wavelength = 2 d sin(theta); constraint values generic and special.
    Exact two-theta values are where the detector layers take their `is_small` shortcuts."""
    out = []
    for tr in modes():
        for _ in range(per_mode):
            ub, kind = rand_ub(rng, rng.choice(["triclinic", "cubicI", "ortho-lab"]))
            hkl = tuple(float(x) for x in rng.choice([(1, 0, 0), (0, 0, 1), (1, 1, 0), (1, 0.5, 1), (0, 1, 1)]))
            B = np.asarray(ub.crystal.B, float)
            d = 2 * pi / np.linalg.norm(B @ np.array(hkl))
            tth = rng.choice([90.0, 90.0, 60.0, 120.0])
            wl = 2 * d * sin(radians(tth / 2))
            vals = {nm: (True if nm in VOID else float(rng.choice([25.0, -40.0, 0.0, 90.0, rng.uniform(-80, 80)]))) for nm in tr}
            out.append((ub, vals, hkl, wl, f"exact-2theta-{int(tth)}"))
    return out


def semi_special_position(rng):
    """a position with one to four axes at exactly 0 / +-90 / 180 and the others generic (incl. the 4-circle sub-geometries mu = nu = 0 and
    delta = eta = 0 with chi = 0 / 90)"""
    P = [rng.uniform(-170, 170) for _ in range(6)]
    fam = rng.choice(["vertical", "horizontal", "random", "random"])
    if fam == "vertical":        # mu = nu = 0, chi in {0, 90, 180, generic}
        P[0] = 0.0; P[2] = 0.0; P[4] = rng.choice([0.0, 0.0, 90.0, 180.0, P[4]]); P[1] = rng.uniform(10, 120)
    elif fam == "horizontal":    # delta = eta = 0, chi = 90
        P[1] = 0.0; P[3] = 0.0; P[4] = rng.choice([90.0, 90.0, -90.0, P[4]]); P[2] = rng.uniform(10, 120)
    else:
        for i in rng.sample(range(6), rng.randint(1, 3)):
            P[i] = float(rng.choice([0, 90, -90, 180]))
    return P


def signature(res):
    return (res[0], len(res[1]) if res[0] == "ok" else None)


def stable(hc_factory, vals, hkl, wl, kind):
    """is the implementation's outcome invariant under input perturbations just below and just above the solver's own
    1e-7 rad thresholds?  (numerically singular requests — 0/0 by rounding noise, acos at +-1, a value sitting exactly on an
    is_small threshold — are decided by rounding noise; a disagreement there is not a behavioural difference)"""
    base = None
    for eps in (0.0, 1.3e-7, -1.7e-7, 3.1e-5, -2.3e-5):
        v2 = {k: (v if v is True else v + eps) for k, v in vals.items()}
        h2 = tuple(x * (1 + eps * 0.1) for x in hkl)
        res = S.run_impl(kind, hc_factory(v2), h2, wl)
        if base is None:
            base = res
        elif signature(res) != signature(base):
            return False
        elif res[0] == "ok" and not S.same_solution_sets(res[1], base[1], tol=1e-2):
            return False    # a solution that jumps under a 1e-7 perturbation is an atan2(0, 0)-type artefact
    return True


def isolated(ub, vals, hkl, wl, kind):
    """does the disagreement disappear as soon as the request is moved off the exact special point (just beyond the solver's
    1e-7 rad thresholds)?  Then it is a threshold decision flipped by rounding noise at an isolated point, not a behavioural
    difference: a wrong model or a changed implementation also disagrees next to the point."""
    from diffcalc.hkl.calc import HklCalculation
    from diffcalc.hkl.constraints import Constraints
    for eps in (3.1e-5, -2.3e-5, 1.1e-4):
        v2 = {k: (v if v is True else v + eps * (1 + 0.37 * i)) for i, (k, v) in enumerate(vals.items())}
        h2 = tuple(x * (1 + eps * 0.1) + eps * 0.01 for x in hkl)
        c = Constraints(v2)
        e = S.run_impl(kind, HklCalculation(ub, c), h2, wl)
        m = S.parse_answer(drive([S.gp_line(kind, ub, c, h2, wl)])[0])
        if e[0] == "ok" and m[0] == "ok":
            if not S.same_solution_sets(e[1], m[1], tol=1e-3):
                return False
        elif e[0] != m[0]:
            return False
    return True


def correspondence_stream(ctx, name, requests, kind):
    """requests: list of (ub, vals, hkl, wl, tag).  Compares implementation and model; only numerically stable
    disagreements are reported."""
    from diffcalc.hkl.calc import HklCalculation
    from diffcalc.hkl.constraints import Constraints
    lines, exp = [], []
    for ub, vals, hkl, wl, tag in requests:
        c = Constraints(vals)
        hc = HklCalculation(ub, c)
        lines.append(S.gp_line(kind, ub, c, hkl, wl))
        exp.append(S.run_impl(kind, hc, hkl, wl))
    ans = drive(lines)
    dis, unstable = 0, 0
    outcomes = {}
    for a, e, (ub, vals, hkl, wl, tag) in zip(ans, exp, requests):
        m = S.parse_answer(a)
        outcomes[e[0]] = outcomes.get(e[0], 0) + 1
        if e[0] == "ok" and m[0] == "ok":
            ok = S.same_solution_sets(e[1], m[1])
        else:
            ok = e[0] == m[0]
        if ok:
            continue
        if not stable(lambda v: HklCalculation(ub, Constraints(v)), vals, hkl, wl, kind):
            unstable += 1
            continue
        if isolated(ub, vals, hkl, wl, kind):
            unstable += 1
            continue
        dis += 1
        if dis <= 5:
            ctx.broke("correspondence", f"Solver/*.lean vs get_position ({name})",
                      f"mode {sorted(vals)} values { {k: (v if v is True else round(v, 6)) for k, v in vals.items()} } hkl={hkl} wl={wl} [{tag}]: "
                      f"code -> {e[0]} {len(e[1]) if e[0] == 'ok' else e[1][:80]}; model -> {m[0]} {len(m[1]) if m[0] == 'ok' else ''}")
    ctx.stream("correspondence:" + name, len(lines), len({tuple(sorted(r[1])) for r in requests}), disagreements=dis,
               numerically_unstable_skipped=unstable, outcomes=outcomes)
    ctx.cov["traces_validated_against_impl"] = ctx.cov.get("traces_validated_against_impl", 0) + len(lines)
    return dis


def honours(tr, vals, pos, n, s, tol=1e-5):
    """does position `pos` (degrees) honour every constraint of the mode as the user stated it?  -> list of complaints"""
    bad = []
    pp = pseudo(n, s, pos)
    for nm in tr:
        if nm in AXES:
            if angdiff(pos[AXES.index(nm)], vals[nm]) > tol:
                bad.append(f"{nm} = {pos[AXES.index(nm)]:.6f} instead of {vals[nm]:.6f}")
        elif nm == "a_eq_b":
            if angdiff(pp["alpha"], pp["beta"]) > tol:
                bad.append(f"alpha = {pp['alpha']:.6f} != beta = {pp['beta']:.6f}")
        elif nm == "bin_eq_bout":
            if angdiff(pp["betain"], pp["betaout"]) > tol:
                bad.append(f"betain = {pp['betain']:.6f} != betaout = {pp['betaout']:.6f}")
        elif nm in ("bisect", "omega"):
            continue
        else:
            if nm in ("qaz", "naz", "psi", "tau") and nm not in pp:
                continue    # the pseudo-angle is undefined at this position (pole of its azimuth): nothing to honour
            got = pp.get(nm, float("nan"))
            if math.isnan(got) or angdiff(got, vals[nm]) > tol:
                bad.append(f"{nm} evaluates to {got:.6f} instead of {vals[nm]:.6f}")
    if "bisect" in tr and "qaz" in pp:
        m, e = radians(pos[0]), radians(pos[3])
        th, qz = radians(pp["theta"]), radians(pp["qaz"])
        if "omega" in tr:
            tho = th + radians(vals["omega"])
            ok = abs(sin(m) * cos(tho) - cos(m) * sin(tho) * cos(qz)) < 1e-6 and abs(sin(e) - sin(tho) * sin(qz)) < 1e-6
        else:
            # exists omega: tan(mu) = tan(tho) cos(qaz) and sin(eta) = sin(tho) sin(qaz)
            ok = False
            if abs(sin(qz)) > 1e-6 and abs(sin(e) / sin(qz)) <= 1 + 1e-9:
                for tho in (asin(np.clip(sin(e) / sin(qz), -1, 1)), pi - asin(np.clip(sin(e) / sin(qz), -1, 1))):
                    if abs(sin(m) * cos(tho) - cos(m) * sin(tho) * cos(qz)) < 1e-6:
                        ok = True
            elif abs(sin(qz)) <= 1e-6:
                ok = abs(sin(e)) < 1e-5
        if not ok:
            bad.append("bisect relation tan(mu) = tan(theta+omega) cos(qaz), sin(eta) = sin(theta+omega) sin(qaz) not satisfied")
    return bad


def regular(ub, tr, P, wl=1.0):
    """numerical check that P is a regular point of the mode: the Jacobian of (hkl, three constrained quantities)
    w.r.t. the six angles has a smallest singular value well away from zero"""
    n, s = vectors(ub)
    UB = np.asarray(ub.UB, float)

    def F(p):
        out = list(fwd(UB, p, wl))
        pp = pseudo(n, s, p)
        for nm in tr:
            if nm in AXES:
                out.append(radians(p[AXES.index(nm)]))
            elif nm == "a_eq_b":
                out.append(radians(pp["alpha"] - pp["beta"]))
            elif nm == "bin_eq_bout":
                out.append(radians(pp["betain"] - pp["betaout"]))
            elif nm == "bisect" and "omega" not in tr:
                m, e = radians(p[0]), radians(p[3]); th, qz = radians(pp["theta"]), radians(pp.get("qaz", 0.0))
                # eliminate omega: tan(mu)/cos(qaz) = tan(tho), sin(eta)/sin(qaz) = sin(tho)
                out.append(sin(e) * cos(m) * cos(qz) - sin(m) * sin(qz) * math.sqrt(max(0.0, 1 - min(1.0, (sin(e) / sin(qz)) ** 2))) if abs(sin(qz)) > 1e-9 else 0.0)
            elif nm == "bisect":
                out.append(0.0)  # handled together with omega below
            elif nm == "omega":
                m, e = radians(p[0]), radians(p[3]); th, qz = radians(pp["theta"]), radians(pp.get("qaz", 0.0))
                out.append(sin(e) - sin(th + radians(0)) * sin(qz))
            else:
                v = pp.get(nm, float("nan"))
                out.append(radians(v))
        return np.array(out, float)

    try:
        f0 = F(P)
        if not np.all(np.isfinite(f0)):
            return False
        J = np.zeros((6, 6))
        h = 1e-5
        for j in range(6):
            p1 = list(P); p1[j] += h
            p2 = list(P); p2[j] -= h
            d = F(p1) - F(p2)
            # pseudo-angle differences across the +-180 cut
            d[3:] = (d[3:] + pi) % (2 * pi) - pi
            J[:, j] = d / (2 * radians(h))
        if "bisect" in tr:
            return True     # regularity of bisect modes is judged by construction (generic position), not by this Jacobian
        sv = np.linalg.svd(J, compute_uv=False)
        return sv[-1] > 1e-3 * max(1.0, sv[0])
    except Exception:  # noqa
        return False
