"""Pipeline harness: request lines for the solver model and execution of the same requests on the implementation."""
import math
import numpy as np
from vlib import f2h, h2f, quiet, angdiff
from harness.common import NAMES, VOID, AXES, triples, accepted

VA_KEYS = ["theta", "ttheta", "qaz", "alpha", "naz", "tau", "psi", "beta", "betain", "betaout"]


def implemented_modes():
    from diffcalc.hkl.constraints import Constraints
    from diffcalc.util import DiffcalcException
    out = []
    for tr in triples():
        if not accepted(tr):
            continue
        c = Constraints()
        try:
            for n in tr:
                setattr(c, n, True if n in VOID else 1.0)
        except DiffcalcException:
            continue
        if len(c.asdict) == 3 and c.is_current_mode_implemented():
            out.append(tr)
    return out


def ubin_tokens(ub):
    UB = np.asarray(ub.UB, float).flatten()
    B = np.asarray(ub.crystal.B, float).flatten()
    n = np.asarray(ub.n_phi, float).T[0]
    s = np.asarray(ub.surf_nphi, float).T[0]
    return " ".join(f2h(x) for x in list(UB) + list(B) + list(n) + list(s))


def cons_tokens(c):
    act = [con for con in c._all if con.active]
    toks = [str(len(act))]
    for con in act:
        toks += [con.name, "T" if con.value is True else f2h(con.value)]
    return " ".join(toks)


def gp_line(kind, ub, c, hkl, wl):
    return f"gp {kind} {ubin_tokens(ub)} {cons_tokens(c)} " + " ".join(f2h(x) for x in hkl) + " " + f2h(wl)


def va_line(ub, pos):
    return f"va {ubin_tokens(ub)} " + " ".join(f2h(x) for x in pos)


def _scribble_on_public_matrices(hc):
    """The rotation-matrix helpers are public: a caller may ask them for the matrices of the very angles the constraints hold (same bits) and
    then work on the arrays it got, in place.  Those arrays are the caller's; nothing the solver computes afterwards may depend on that."""
    try:
        import diffcalc.util as U
        import diffcalc.hkl.geometry as G
        from diffcalc.hkl.geometry import Position
        vals = {}
        for con in getattr(hc.constraints, "_all", ()):
            v = getattr(con, "value", None)
            if isinstance(v, float):
                vals[con.name] = v
        got = []
        for name, v in vals.items():
            for f in (U.x_rotation, U.y_rotation, U.z_rotation):
                got.append(f(v)); got.append(f(-v))
            fn = getattr(G, "rot_" + name.upper(), None)
            if fn is not None:
                got.append(fn(v))
        axes = {k: math.degrees(v) for k, v in vals.items() if k in ("mu", "delta", "nu", "eta", "chi", "phi")}
        if axes:
            got.extend(G.get_rotation_matrices(Position(**axes)))
        for m in got:
            if isinstance(m, np.ndarray) and m.flags.writeable:
                m[...] = m.T.copy() * 1.5 + 0.25
    except Exception:  # noqa — a helper that is gone or read-only results: nothing to scribble on
        pass


def run_impl(kind, hc, hkl, wl, keep=None):
    """-> ('ok', [(pos tuple, va dict)]) | (error class name, message)

    What get_position hands out belongs to the caller: once the values are read off, every returned Position is moved in place through its
    public setters and every returned dictionary is overwritten (a rocking curve, a unit conversion ...).  Nothing the calculator answers
    later may depend on that.  `keep`, if given, collects the (edited) objects."""
    from diffcalc.util import DiffcalcException
    _scribble_on_public_matrices(hc)
    with quiet():
        try:
            if kind == "full":
                r = hc.get_position(*hkl, wl)
            else:
                r = hc._HklCalculation__calc_hkl_to_position(*hkl, wl)
            out = [(tuple(float(x) for x in p.astuple), {k: float(v) for k, v in va.items()}) for p, va in r]
            try:
                for i, (p, va) in enumerate(r):
                    if hasattr(p, "astuple") and hasattr(p, "phi"):
                        p.phi = p.phi + 0.37 + i; p.eta = p.eta - 1.21; p.delta = 0.0
                    if isinstance(va, dict):
                        for k in list(va):
                            va[k] = 123.456
                if keep is not None:
                    keep.extend(r)
                if isinstance(r, list):
                    r.clear()
            except Exception:  # noqa — read-only results are fine too
                pass
            return "ok", out
        except DiffcalcException as e:
            return "dce", Exception.__str__(e)[:160]
        except Exception as e:  # noqa
            return type(e).__name__, str(e)[:160]


def parse_answer(a):
    """model answer -> ('ok', [(pos, va dict)]) | (error, '')"""
    if not a.startswith("ok "):
        return a, ""
    head, _, rest = a.partition(" | ")
    n = int(head.split(" ")[1])
    out = []
    if n:
        for item in rest.split(" ; "):
            ps, vs = item.split(" | ")
            pos = tuple(h2f(t) for t in ps.split(" "))
            va = {k: (float("nan") if t == "nan" else h2f(t)) for k, t in zip(VA_KEYS, vs.split(" "))}
            out.append((pos, va))
    return "ok", out


def same_pos(p, q, tol=1e-6):
    return all((math.isnan(a) and math.isnan(b)) or angdiff(a, b) <= tol for a, b in zip(p, q))


def same_va(u, v, tol=1e-6):
    for k in VA_KEYS:
        a, b = u[k], v[k]
        if math.isnan(a) != math.isnan(b):
            return False
        if not math.isnan(a) and angdiff(a, b) > tol:
            return False
    return True


def same_solution_sets(A, B, tol=2e-5):
    if len(A) != len(B):
        return False
    used = set()
    for p, va in A:
        hit = None
        for j, (q, vb) in enumerate(B):
            if j not in used and same_pos(p, q, tol) and same_va(va, vb, tol * 10):
                hit = j; break
        if hit is None:
            return False
        used.add(hit)
    return True
