"""Transformations that must not matter, shared by the generators of all properties.

Every property is stated about the calculator's state, not about the Python object that happens to hold it, the route by which a
value got there, or what the caller does with objects the library handed out.  The helpers below turn one scenario into equivalent
ones; a generator draws one of them per case so that each property is exercised on copies, unpickled objects, objects rebuilt from
their own dictionaries, objects that went through a burst of state changes, and after the caller scribbled on returned values.
"""
import copy
import pickle

import numpy as np

CLONE_WAYS = ("same", "same", "deepcopy", "copy", "pickle")


def clone(rng, obj, ways=CLONE_WAYS):
    """(object to use from now on, label). 'copy' is a shallow copy: the library documents no sharing between a copy and its source
    for value-like objects (Crystal, Position, Constraints), so use ways=... to exclude it where sharing is legitimate."""
    how = rng.choice(ways)
    if how == "deepcopy":
        return copy.deepcopy(obj), how
    if how == "copy":
        return copy.copy(obj), how
    if how == "pickle":
        return pickle.loads(pickle.dumps(obj)), how
    return obj, "same"


def tiny(rng, lo=-8.0, hi=-2.0):
    """a magnitude between 1e-8 and 1e-2, log-uniform, random sign — the band in which a threshold slip hides"""
    return (10.0 ** rng.uniform(lo, hi)) * rng.choice((-1.0, 1.0))


def near(rng, specials=(0.0, 30.0, 45.0, 60.0, 90.0, 120.0, 135.0, 180.0, -90.0, -180.0, 270.0, 360.0), lo=-7.0, hi=-1.5):
    """an angle (deg) a little off a special value"""
    return float(rng.choice(specials)) + tiny(rng, lo, hi)


def scribble(obj, depth=0):
    """overwrite, in place, every mutable part of a value the library RETURNED to the caller (arrays, lists, dicts, Position objects).
    The caller owns returned values; whatever it does with them must not reach the calculator."""
    if depth > 4:
        return
    if isinstance(obj, np.ndarray):
        if obj.flags.writeable:
            obj[...] = 7.25 if obj.dtype.kind == "f" else 3
    elif isinstance(obj, dict):
        for k in list(obj):
            scribble(obj[k], depth + 1)
            try:
                obj[k] = 123.456
            except Exception:  # noqa
                pass
        try:
            obj["__scribble__"] = 1
        except Exception:  # noqa
            pass
    elif isinstance(obj, list):
        for x in obj:
            scribble(x, depth + 1)
        try:
            obj.append("scribble"); obj.reverse()
        except Exception:  # noqa
            pass
    elif isinstance(obj, tuple):
        for x in obj:
            scribble(x, depth + 1)
    elif type(obj).__name__ == "Position":
        for f in ("mu", "delta", "nu", "eta", "chi", "phi"):
            try:
                setattr(obj, f, 77.7)
            except Exception:  # noqa
                pass


def churn_lattice(rng, ub, n=None):
    """replace the lattice n times in a row (no query in between), ending on the returned ((system?, *params)) form"""
    forms = [(5.3, 4.4, 7.1, 85.0, 99.0, 93.0), (2.2,), (3.0, 4.5), (3.1, 4.2, 5.3), (4.0, 5.0, 6.0, 104.0), ("Hexagonal", 3.3, 5.6),
             ("Cubic", 2.7), ("Rhombohedral", 4.0, 70.0), ("Tetragonal", 3.5, 6.1), ("Monoclinic", 4.0, 5.0, 6.0, 101.0),
             ("Orthorhombic", 3.2, 4.1, 5.9), ("Triclinic", 4.1, 5.2, 6.3, 80.0, 95.0, 100.0)]
    n = n if n is not None else rng.choice((1, 2, 2, 3, 5, 30))
    last = None
    for _ in range(n):
        last = rng.choice(forms)
        ub.set_lattice("churn", *last)
    return last, n
