"""Constraint histories: generation, execution on the real Constraints class, line protocol for the model."""
import math
from vlib import f2h, h2f, close
from harness.common import NAMES, VOID, CAT

KINDS = ["num", "zero", "int", "numstr", "true", "false", "none", "bad", "badtype"]


def gen_value(rng, kind):
    if kind == "num":
        return rng.choice([rng.uniform(-200, 200), rng.uniform(-5, 5), float(rng.choice([90, -90, 180, 45, 360])), float(rng.choice([1, 1, -1, 2]))])      # incl. the values Python equates with True / False
    if kind == "zero":
        return rng.choice([0, 0.0])
    if kind == "int":
        return rng.choice([rng.randint(-180, 180), 1, 1, -1])
    if kind == "numstr":
        return str(round(rng.uniform(-90, 90), 3))
    return {"true": True, "false": False, "none": None, "bad": "abc", "badtype": [1]}[kind]


def gen_op(rng, bias=None):
    """op = ('set', name, kind, value) | ('del', name) | ('clear',) | ('bulkd'|'bulkt', [(name|bogus, kind, value)])"""
    r = rng.random()
    names = bias or NAMES
    if r < 0.62:
        n = rng.choice(names)
        kind = rng.choices(KINDS, weights=[30, 8, 6, 3, 14, 6, 8, 5, 2])[0]
        if n in VOID and rng.random() < 0.6:
            kind = rng.choice(["true", "true", "false", "none", "num"])
        return ("set", n, kind, gen_value(rng, kind))
    if r < 0.74:
        return ("del", rng.choice(names))
    if r < 0.78:
        return ("clear",)
    items = []
    for _ in range(rng.randint(0, 4)):
        if rng.random() < 0.08:
            items.append(("bogus", "num", 1.0))
        else:
            n = rng.choice(names)
            kind = "true" if n in VOID and rng.random() < 0.85 else rng.choices(["num", "zero", "true", "bad", "none"], weights=[30, 4, 3, 2, 1])[0]
            items.append((n, kind, gen_value(rng, kind)))
    return (rng.choice(["bulkd", "bulkt"]), items)


def wire_arg(kind, value):
    if kind in ("num", "zero", "int", "numstr"):
        return "num " + f2h(float(value))
    return kind


def op_line(op):
    if op[0] == "set":
        return f"cons.set {op[1]} {wire_arg(op[2], op[3])}"
    if op[0] == "del":
        return f"cons.del {op[1]}"
    if op[0] == "clear":
        return "cons.clear"
    items = op[1]
    if op[0] == "bulkt":
        # astuple: a void name travels as the bare name (-> True); others as (name, value)
        pass
    return f"cons.bulk {len(items)} " + " ".join(f"{'?' if n == 'bogus' else n} {wire_arg(k, v)}" for n, k, v in items)


def bulk_dict_ok(items):
    """a dict cannot carry duplicate keys: later entries overwrite the value but keep the first position"""
    seen = {}
    for n, k, v in items:
        seen[n] = (k, v) if n not in seen else (k, v)
    return [(n, k, v) for n, (k, v) in seen.items()]


def normalise(op):
    """make the op expressible identically for both sides"""
    if op[0] == "bulkd":
        return ("bulkd", bulk_dict_ok(op[1]))
    if op[0] == "bulkt":
        items = []
        for n, k, v in op[1]:
            if n in VOID and k != "true":
                k, v = "true", True      # astuple can only say `name` (-> True) for a bare string
            items.append((n, k, v))
        return ("bulkt", items)
    return op


def apply_impl(c, op):
    """returns outcome class: ok | dce | typeErr | EXC:<type>"""
    from diffcalc.util import DiffcalcException
    try:
        if op[0] == "set":
            setattr(c, op[1], op[3])
        elif op[0] == "del":
            delattr(c, op[1])
        elif op[0] == "clear":
            c.clear()
        elif op[0] == "bulkd":
            c.asdict = {n: v for n, k, v in op[1]}
        elif op[0] == "bulkt":
            c.astuple = tuple((n if (n in VOID and k == "true") else (n, v)) for n, k, v in op[1])
        return "ok"
    except DiffcalcException:
        return "dce"
    except TypeError:
        return "typeErr"
    except Exception as e:  # noqa
        return "EXC:" + type(e).__name__


def state_of(c):
    """canonical state: per name '-' | 'T' | float(degrees)"""
    out = []
    allv = c.all
    for n in NAMES:
        v = allv[n]
        if v is None or v is False:
            out.append("-")
        elif v is True:
            out.append("T")
        else:
            out.append(float(v))
    return out


def parse_model_state(s):
    out = []
    for tok in s.split(";"):
        out.append(tok if tok in ("-", "T") else h2f(tok))
    return out


def same_state(a, b):
    for x, y in zip(a, b):
        if isinstance(x, float) and isinstance(y, float):
            if not close(x, y, 1e-9):
                return False
        elif x != y:
            return False
    return len(a) == len(b)


def show_state(st):
    return {n: v for n, v in zip(NAMES, st) if v != "-"}


def legal_sets():
    """every constraint set the class can hold (at most one detector, one reference, three sample constraints, three in all)"""
    import itertools
    out = [()]
    for k in (1, 2, 3):
        for tr in itertools.combinations(NAMES, k):
            if sum(CAT[n] == "det" for n in tr) <= 1 and sum(CAT[n] == "ref" for n in tr) <= 1:
                out.append(tr)
    return out


REFUSABLE = ["abc", "", "1,5", [1], {"a": 1}, 1j, b"1", float("nan")]


def refused_assignment_sweep(rng, n_sets, values=None):
    """for legal sets × every name × values of the wrong kind: an assignment that raises must leave the set exactly as it was (in particular on
    the replacement path, where another constraint would have made room).  -> (cases, raised, [(description, replay)])"""
    from diffcalc.hkl.constraints import Constraints
    sets = legal_sets()
    rng.shuffle(sets)
    bad, cases, raised = [], 0, 0
    for tr in sets[:n_sets]:
        # stored values include the falsy / truthy-looking ones: exactly 0, -0.0, the int 0, exactly 1
        base = {n: (True if n in VOID else rng.choice([0.0, -0.0, 0, 1.0, round(rng.uniform(-80, 80), 3), round(rng.uniform(-80, 80), 3)])) for n in tr}
        # bulk assignments that are refused part-way (after at least one acceptable entry), through both bulk setters
        others = [n for n in NAMES if n not in tr]
        rng.shuffle(others)
        good = {n: (True if n in VOID else 12.5) for n in others[:2]}
        for kind, payload in (("asdict", dict(list(good.items()) + [("bogus", 1.0)])), ("asdict", dict(list(good.items()) + [((tr[0] if tr else others[3]), "abc")])),
                              ("asdict", dict([(others[2], True if others[2] in VOID else 3.0)] + [(n, (2.0 if n in VOID else True)) for n in others[:1]])),
                              ("astuple", tuple(list(good.items()) + [("bogus", 1.0)])), ("astuple", tuple(list(good.items()) + [(others[2],)]))):
            try:
                c = Constraints(dict(base))
            except Exception:  # noqa
                break
            before = state_of(c)
            cases += 1
            try:
                setattr(c, kind, payload)
            except Exception as e:  # noqa
                raised += 1
                after = state_of(c)
                if not same_state(before, after):
                    bad.append((f"{kind} = {payload!r} on the set {show_state(before)} raised {type(e).__name__} but left {show_state(after)}",
                                {"set": {k: repr(v) for k, v in base.items()}, "name": kind, "value": repr(payload)}))
        for name in NAMES:
            wrong = list(values or REFUSABLE) + ([True, False] if name not in VOID else [5.0, 0, "yes"])
            for val in wrong:
                try:
                    c = Constraints(dict(base))
                except Exception:  # noqa — not a constructible set after all
                    break
                before = state_of(c)
                cases += 1
                try:
                    setattr(c, name, val)
                except Exception as e:  # noqa
                    raised += 1
                    after = state_of(c)
                    if not same_state(before, after):
                        bad.append((f"{name} = {val!r} on the set {show_state(before)} raised {type(e).__name__} but left {show_state(after)}",
                                    {"set": base, "name": name, "value": repr(val)}))
    return cases, raised, bad
