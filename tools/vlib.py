"""Shared plumbing for the per-property checks: regeneration, lake build, axiom audit, driver I/O,
violation bookkeeping, known-findings matching, evidence and replay files."""
import contextlib, fcntl, io, json, math, os, random, re, struct, subprocess, sys, time

VERIF = os.path.dirname(os.path.dirname(os.path.abspath(__file__)))
LEAN = os.path.join(VERIF, "lean")
REPO = os.environ.get("VERIF_REPO", "/repo")
PY = os.environ.get("VERIF_PYTHON", "/venv/bin/python")
DRIVER = os.path.join(LEAN, ".lake", "build", "bin", "driver")
ALLOWED_AXIOMS = {"propext", "Classical.choice", "Quot.sound"}
FORBIDDEN = re.compile(r"\b(sorry|admit|native_decide|bv_decide|implemented_by|unsafe)\b|^\s*axiom\s|maxHeartbeats\s+0\b")

TRUSTED_BASE = [
    "Lean 4.33.0 kernel (lake build); leanchecker re-check in the thorough tier",
    "Mathlib v4.33.0 as compiled under /opt/veriftools/mathlib4 (single modules imported)",
    "axioms: at most propext, Classical.choice, Quot.sound (audited with #print axioms on every run); no sorry/admit/native_decide/bv_decide/own axioms (grepped on every run)",
    "tools/py2lean.py (translator) for generated definitions; the hand models are as faithful as the correspondence run shows",
    "IEEE-754 double rounding / libm / numpy-LAPACK: the gap between the real-number reading of the model and the Float reading / the code",
]


# ------------------------------------------------------------------------------------------------
# floats on the wire
# ------------------------------------------------------------------------------------------------

def f2h(x):
    return "%016x" % struct.unpack("<Q", struct.pack("<d", float(x)))[0]


def h2f(s):
    return struct.unpack("<d", struct.pack("<Q", int(s, 16)))[0]


def close(a, b, tol=1e-9):
    if isinstance(a, float) and isinstance(b, float) and math.isnan(a) and math.isnan(b):
        return True
    return abs(a - b) <= tol * (1 + max(abs(a), abs(b)))


def angdiff(a, b):
    return abs((a - b + 180.0) % 360.0 - 180.0)


@contextlib.contextmanager
def quiet():
    with contextlib.redirect_stdout(io.StringIO()):
        yield


# ------------------------------------------------------------------------------------------------
# implementation import (always from /repo's working tree)
# ------------------------------------------------------------------------------------------------

def anchor_files(pid):
    """files the property is anchored in (properties.jsonl -> anchors.files)"""
    for line in open(os.path.join(VERIF, "properties.jsonl")):
        o = json.loads(line)
        if o.get("id") == pid:
            return list((o.get("anchors") or {}).get("files", []))
    return []


def import_repo():
    p = os.path.join(REPO, "src")
    if p not in sys.path:
        sys.path.insert(0, p)
    import warnings
    warnings.simplefilter("ignore")
    import diffcalc  # noqa
    assert os.path.abspath(diffcalc.__file__).startswith(os.path.abspath(REPO)), diffcalc.__file__


# ------------------------------------------------------------------------------------------------
# lean side
# ------------------------------------------------------------------------------------------------

@contextlib.contextmanager
def lean_lock():
    os.makedirs(os.path.join(LEAN, ".lake"), exist_ok=True)
    with open(os.path.join(LEAN, ".lake", "verif.lock"), "w") as f:
        fcntl.flock(f, fcntl.LOCK_EX)
        try:
            yield
        finally:
            fcntl.flock(f, fcntl.LOCK_UN)


Timeout = subprocess.TimeoutExpired


def short_tb(e):
    """one-line summary of an exception raised while driving the implementation: type, message, innermost frames"""
    import traceback
    fr = traceback.extract_tb(e.__traceback__)[-3:]
    return f"{type(e).__name__}: {str(e)[:160]} @ " + " <- ".join(f"{os.path.basename(f.filename)}:{f.lineno}" for f in reversed(fr))


def run(cmd, cwd=None, timeout=None, input=None):
    p = subprocess.run(cmd, cwd=cwd, capture_output=True, text=True, timeout=timeout, input=input)
    return p.returncode, p.stdout, p.stderr


def regenerate(names):
    """run the translator for the given Gen files; returns {name: status}"""
    if not names:
        return {}
    rc, out, err = run([sys.executable, os.path.join(VERIF, "tools", "py2lean.py"), "--repo", REPO] + list(names))
    status = {}
    for line in out.splitlines():
        parts = line.split(" ", 1)
        if len(parts) == 2 and parts[0] in names:
            try:
                status[parts[0]] = json.loads(parts[1])
            except Exception:
                pass
    for n in names:
        status.setdefault(n, {"ok": False, "error": "translator crashed: " + (err.strip().splitlines() or ["?"])[-1]})
    return status


def lake_build(targets, timeout=3000):
    """build the given module / exe targets; returns (ok, failures:[{module, errors}], log)"""
    rc, out, err = run(["lake", "build"] + list(targets), cwd=LEAN, timeout=timeout)
    log = out + err
    failures = []
    if rc != 0:
        cur = None
        for line in log.splitlines():
            m = re.match(r"^✖ \[\d+/\d+\] Building (\S+)", line)
            if m:
                cur = {"module": m.group(1), "errors": []}
                failures.append(cur)
                continue
            m = re.match(r"^error: (\S+\.lean):(\d+):(\d+): (.*)$", line)
            if m and cur is not None:
                cur["errors"].append({"file": m.group(1), "line": int(m.group(2)), "msg": m.group(4)[:300]})
        if not failures:
            failures.append({"module": "?", "errors": [{"file": "?", "line": 0, "msg": log[-600:]}]})
    return rc == 0, failures, log


def theorem_at(path, line):
    """name of the theorem/def enclosing a line of a Lean file (for naming what no longer checks)"""
    try:
        lines = open(os.path.join(LEAN, path)).read().splitlines()
    except OSError:
        return None
    for i in range(min(line, len(lines)) - 1, -1, -1):
        m = re.match(r"^\s*(?:private\s+|protected\s+|noncomputable\s+)*(theorem|lemma|def|example|instance)\s+(\S+)", lines[i])
        if m:
            return m.group(2)
    return None


def audit_axioms(module, theorems):
    """#print axioms for each theorem of a compiled module; returns {thm: [axioms]} (None when unknown)"""
    os.makedirs(os.path.join(LEAN, ".lake", "audit"), exist_ok=True)
    path = os.path.join(LEAN, ".lake", "audit", module.replace(".", "_") + f"_{os.getpid()}.lean")
    with open(path, "w") as f:
        f.write(f"import {module}\n")
        for t in theorems:
            f.write(f"#print axioms {t}\n")
    rc, out, err = run(["lake", "env", "lean", path], cwd=LEAN, timeout=900)
    os.remove(path)
    res = {t: None for t in theorems}
    text = out + err
    for t in theorems:
        m = re.search(r"'" + re.escape(t) + r"' depends on axioms: \[([^\]]*)\]", text, re.S)
        if m:
            res[t] = [a.strip() for a in m.group(1).replace("\n", " ").split(",") if a.strip()]
        elif re.search(r"'" + re.escape(t) + r"' does not depend on any axioms", text):
            res[t] = []
    return res, text


def strip_comments(text):
    # remove nested block comments and line comments
    out = []
    i, depth, n = 0, 0, len(text)
    while i < n:
        if text.startswith("/-", i):
            depth += 1; i += 2; continue
        if depth and text.startswith("-/", i):
            depth -= 1; i += 2; continue
        if depth:
            if text[i] == "\n":
                out.append("\n")
            i += 1; continue
        if text.startswith("--", i):
            while i < n and text[i] != "\n":
                i += 1
            continue
        out.append(text[i]); i += 1
    return "".join(out)


def grep_forbidden():
    hits = []
    for root, dirs, files in os.walk(LEAN):
        dirs[:] = [d for d in dirs if d != ".lake"]
        for fn in files:
            if fn.endswith(".lean"):
                p = os.path.join(root, fn)
                body = strip_comments(open(p).read())
                for ln, line in enumerate(body.splitlines(), 1):
                    if FORBIDDEN.search(line):
                        hits.append(f"{os.path.relpath(p, LEAN)}:{ln}: {line.strip()[:120]}")
    return hits


class Driver:
    """one driver process; send request lines, read one answer line each"""

    def __init__(self):
        self.p = subprocess.Popen([DRIVER], stdin=subprocess.PIPE, stdout=subprocess.PIPE, text=True, bufsize=1 << 20)

    def batch(self, lines):
        # write everything, close, read — the driver is a pure stream transformer; for stateful histories
        # a batch is one history prefixed by its reset line
        raise NotImplementedError

    def close(self):
        try:
            self.p.stdin.close()
        except Exception:
            pass
        self.p.wait(timeout=30)


def drive(lines, timeout=3000):
    """run the driver on a list of request lines; returns the list of answer lines (same length)"""
    if not os.path.exists(DRIVER):
        raise RuntimeError("driver executable missing (lake build driver)")
    data = "\n".join(lines) + "\n"
    p = subprocess.run([DRIVER], input=data, capture_output=True, text=True, timeout=timeout)
    out = p.stdout.split("\n")
    if out and out[-1] == "":
        out.pop()
    if p.returncode != 0 or len(out) != len(lines):
        raise RuntimeError(f"driver failed rc={p.returncode} answers={len(out)}/{len(lines)} stderr={p.stderr[-300:]}")
    return out


# ------------------------------------------------------------------------------------------------
# the check context
# ------------------------------------------------------------------------------------------------

class Ctx:
    def __init__(self, pid, tier, seed):
        self.pid, self.tier, self.seed = pid, tier, seed
        self.rng = random.Random(seed * 1000003 + int(pid[1:]))
        self.t0 = time.time()
        self.violations = []      # concrete failing inputs on the implementation
        self.broken = []          # proofs / ties that no longer check
        self.notes = []
        self.cov = {"evaluations": 0, "distinct_nontrivial": 0, "samples": [], "streams": {}}
        self.theorems = {}        # name -> axioms or None
        self.level = "proof"
        self.assumptions = []
        self.quick = tier == "quick"

    def scale(self, quick, thorough):
        """sample size of a stream: the quick or the thorough figure; when the source the property is anchored in differs from the
        source the hand models were written against (tools/fingerprint.py) a quick run samples 8x (at most the thorough figure)"""
        if not self.quick:
            return thorough
        if getattr(self, "source_changed", None):
            return min(thorough, quick * 8) if thorough >= quick else quick
        return quick

    # --- recording -------------------------------------------------------------------------
    def violation(self, what, replay, sig):
        """a concrete input/history on which the implementation breaks the property"""
        self.violations.append({"what": what, "replay": replay, "sig": sig})

    def broke(self, kind, name, detail):
        """kind: 'proof' | 'translator' | 'correspondence' | 'audit'"""
        self.broken.append({"kind": kind, "name": name, "detail": detail})

    def stream(self, name, cases, distinct=None, **extra):
        d = self.cov["streams"].setdefault(name, {"cases": 0, "distinct": 0})
        d["cases"] += cases
        d["distinct"] += distinct if distinct is not None else cases
        d.update(extra)
        self.cov["evaluations"] += cases
        self.cov["distinct_nontrivial"] += distinct if distinct is not None else cases

    def sample(self, obj, limit=6):
        if len(self.cov["samples"]) < limit:
            self.cov["samples"].append(obj)


class SourceCoverage:
    """executed / never-executed lines and branches of /repo/src/diffcalc during the correspondence and oracle streams of one run,
    summarised per anchored mechanism (properties.jsonl -> anchors.mechanism[].where) and per anchored file"""

    def __init__(self, pid):
        self.pid = pid
        self.cov = None
        if os.environ.get("VERIF_NO_SRCCOV"):
            return
        try:
            import coverage
            self.cov = coverage.Coverage(data_file=None, branch=True, include=[os.path.join(REPO, "src", "diffcalc", "*")], messages=False)
        except Exception:  # noqa — measuring is optional
            self.cov = None

    def start(self):
        if self.cov is not None:
            try:
                self.cov.start()
            except Exception:  # noqa
                self.cov = None

    def stop(self):
        if self.cov is not None:
            try:
                self.cov.stop()
            except Exception:  # noqa
                self.cov = None

    @staticmethod
    def _ranges(xs):
        out, xs = [], sorted(xs)
        for x in xs:
            if out and x == out[-1][1] + 1:
                out[-1][1] = x
            else:
                out.append([x, x])
        return [f"{a}" if a == b else f"{a}-{b}" for a, b in out]

    def _base_commit(self):
        rc, out, _ = run(["git", "-C", REPO, "rev-list", "--max-parents=0", "HEAD"])
        return out.split()[0] if rc == 0 and out.split() else None

    def _functions(self, text):
        """{qualified name: (first line, last line)} of every function / method in a source text"""
        import ast
        out = {}
        def walk(node, prefix):
            for ch in ast.iter_child_nodes(node):
                if isinstance(ch, (ast.FunctionDef, ast.AsyncFunctionDef)):
                    out[prefix + ch.name] = (ch.lineno, ch.end_lineno)
                    walk(ch, prefix + ch.name + ".")
                elif isinstance(ch, ast.ClassDef):
                    walk(ch, prefix + ch.name + ".")
                else:
                    walk(ch, prefix)
        try:
            walk(ast.parse(text), "")
        except SyntaxError:
            pass
        return out

    def report(self):
        """the anchors name line ranges of the pinned snapshot (the repository's root commit); they are mapped to the functions that
        overlap them there, and those functions are then looked up by name in the current source — so repairs that shift lines do not
        blur the picture.  Lines that cannot be mapped (module level) are taken as they are."""
        if self.cov is None:
            return {"measured": False}
        anchors = {}
        for line in open(os.path.join(VERIF, "properties.jsonl")):
            o = json.loads(line)
            if o.get("id") == self.pid:
                anchors = o.get("anchors") or {}
        rep = {"measured": True, "files": {}, "mechanisms": []}
        per_file, cur_funcs, base_funcs = {}, {}, {}
        base = self._base_commit()
        for rel in anchors.get("files", []):
            path = os.path.join(REPO, rel)
            try:
                _, stmts, _, missing, _ = self.cov.analysis2(path)
            except Exception as e:  # noqa — file never imported / gone
                rep["files"][rel] = {"error": str(e)[:80]}
                continue
            per_file[rel] = (set(stmts), set(missing))
            rep["files"][rel] = {"statements": len(stmts), "executed": len(stmts) - len(missing)}
            try:
                cur_funcs[rel] = self._functions(open(path).read())
                rc, out, _ = run(["git", "-C", REPO, "show", f"{base}:{rel}"]) if base else (1, "", "")
                base_funcs[rel] = self._functions(out) if rc == 0 else {}
            except Exception:  # noqa
                cur_funcs[rel], base_funcs[rel] = {}, {}
        for m in anchors.get("mechanism", []):
            for part in re.split(r";\s*", m.get("where", "")):
                mm = re.match(r"^(.*?):([\d,\s\-]+)$", part.strip())
                if not mm or mm.group(1) not in per_file:
                    continue
                rel = mm.group(1)
                stmts, missing = per_file[rel]
                lines, names = set(), []
                for rng in mm.group(2).split(","):
                    rng = rng.strip()
                    if not rng:
                        continue
                    lo, _, hi = rng.partition("-")
                    lo = int(lo); hi = int(hi or lo)
                    hit = [n for n, (a, b) in base_funcs.get(rel, {}).items() if a <= hi and b >= lo and n in cur_funcs.get(rel, {})]
                    if hit:
                        for n in hit:
                            a, b = cur_funcs[rel][n]
                            lines |= set(range(a, b + 1)); names.append(n)
                    else:
                        lines |= set(range(lo, hi + 1))
                st = stmts & lines
                ms = missing & lines
                rep["mechanisms"].append({"name": m.get("name"), "where": part.strip(), "functions": sorted(set(names)), "statements": len(st),
                                          "executed": len(st) - len(ms), "never_executed": self._ranges(ms)})
        return rep


def load_known():
    p = os.path.join(VERIF, "known_findings.json")
    if not os.path.exists(p):
        return {"findings": [], "fixed": []}
    return json.load(open(p))


def matches(sig, pattern):
    for k, v in pattern.items():
        if k not in sig:
            return False
        if isinstance(v, list):
            if sig[k] not in v:
                return False
        elif sig[k] != v:
            return False
    return True


def write_json(path, obj):
    os.makedirs(os.path.dirname(path), exist_ok=True)
    tmp = path + f".tmp{os.getpid()}"
    with open(tmp, "w") as f:
        json.dump(obj, f, indent=1, default=str)
        f.write("\n")
    os.replace(tmp, path)
