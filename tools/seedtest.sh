#!/bin/bash
# usage: seedtest.sh <patch> <ID> [tier]   — apply a seeded change to /repo, run the check, undo the change
set -u
export VERIF_EVIDENCE_DIR=$(mktemp -d /tmp/seed_evidence.XXXXXX)   # never overwrite the committed evidence with a run on a modified tree
trap 'rm -rf "$VERIF_EVIDENCE_DIR"' EXIT
patch="$1"; id="$2"; tier="${3:-quick}"
cd /repo || exit 2
if ! git diff --quiet; then echo "/repo is dirty"; exit 2; fi
git apply "$patch" || { echo "patch does not apply"; exit 2; }
cd /verif
/venv/bin/python tools/check.py "$id" --tier "$tier"; rc=$?
git -C /repo checkout -- .
echo "seedtest rc=$rc"
exit $rc
