"""C11 — queries fail only with DiffcalcException and never return NaN positions."""
import math
import numpy as np
from vlib import drive, quiet, h2f, angdiff
from harness.common import VOID, AXES, NAMES, mk_ub, rot_from_rotvec
from props import c05
from harness import pipeline as PL, solver as S

SPEC = {
    "gen": ["Rotations", "GetHkl", "Crystal", "UtilLeaf", "SolverLeaf", "SolverDispatch"],
    "modules": ["DiffcalcProofs.Props.C11", "DiffcalcProofs.Props.C08Miscut", "DiffcalcProofs.Props.TieSolver"],
    "theorems": {"DiffcalcProofs.Props.TieSolver": ["TieSolver.small_generated", "TieSolver.bound_generated", "TieSolver.sign_generated", "TieSolver.anglesEquivalent_generated", "TieSolver.refConChiMu_generated", "TieSolver.refConMuPhi_generated", "TieSolver.refConEtaPhi_generated", "TieSolver.refConChiPhi_generated", "TieSolver.sampleConPhi_generated", "TieSolver.sampleConChi_generated", "TieSolver.sampleConEta_generated", "TieSolver.sampleConMuChi_generated", "TieSolver.sampleConEtaPhi_generated", "TieSolver.sampleConEtaChi_generated", "TieSolver.sampleConMuPhi_generated", "TieSolver.sampleConMuEta_generated", "TieSolver.detFromDelta_generated", "TieSolver.detFromNu_generated", "TieSolver.sampleConMu_generated", "TieSolver.refConMuEta_generated", "TieSolver.refConChiEta_generated", "TieSolver.sampleConChiPhi_generated", "TieSolver.sampleConOmegaBisect_generated", "TieSolver.sampleConMuBisect_generated", "TieSolver.sampleConEtaBisect_generated", "TieSolver.twoSampleDetector_generated", "TieSolver.twoSampleReference_generated", "TieSolver.chiAndQaz_generated"],
        "DiffcalcProofs.Props.C08Miscut": ["C08.getMiscut_total"], "DiffcalcProofs.Props.C11": [
        "C11.c11_getPosition", "C11.getPosition_noLeak", "C11.getPosition_nonempty", "C11.hklToPosition_noLeak", "C11.noLeak_candidates",
        "C11.virtualAngles_total", "C11.noLeak_ttheta", "C11.calcN_total", "C11.angleBetween_total", "C11.noLeak_detSampleReference",
        "C11.noLeak_twoSampleDetector", "C11.noLeak_twoSampleReference", "C11.noLeak_threeSample", "C11.noLeak_remainingSample",
        "C11.noLeak_detOrNaz", "C11.noLeak_remainingReference", "C11.noLeak_nphiAlphaTau", "C11.ofCons_shape", "C11.beta_arg_abs"]},
    "level": "proof",
    "rule": "all 185 implemented modes x special-value requests (constraint values from multiples of 30/45/90 deg, hkl from axis vectors, zeros, unreachable and "
            "fractional indices, three wavelengths, cubic/identity, hexagonal and triclinic/oblique set-ups, reference vectors parallel and anti-parallel to the "
            "scattering vector, non-unit lab-frame vectors); the outcome class of the implementation is compared with the model, and every exception other than "
            "DiffcalcException, every NaN/inf in a returned position, and every exception from get_hkl / get_virtual_angles / str() is reported; "
            "distinct = distinct (mode, outcome class)",
    "assumptions": ["the theorems are about finite real arithmetic: inf/NaN produced by numpy division by an exact zero cannot be exhibited by the model and are covered by executing the real code on the special-value stream"],
    "partial": "get_position, get_virtual_angles: proved for every mode shape at the real-number reading. get_hkl is total by construction (no partial operation). "
               "str() of the calculators is covered by the oracle only.",
    "search_widen": 4,
}


def parallel_requests(ctx, n):
    """reference / surface vector parallel or anti-parallel to the scattering vector"""
    out = []
    for _ in range(n):
        tr = ctx.rng.choice(PL.modes())
        hkl = ctx.rng.choice([(0, 0, 1), (1, 0, 0), (1, 1, 0), (0, 1, 1), (1, 1, 1), (1, 0, 1), (2, 1, 0), (-1, 2, 1)])
        s = ctx.rng.choice([1.0, -1.0, 2.5, -0.5])
        lattice = ctx.rng.choice([(1.0,), (4.1, 5.2, 6.3, 80, 95, 100)]); rotvec = ctx.rng.choice([(0, 0, 0), (0.3, -0.5, 0.7)])
        if lattice == (1.0,) and rotvec == (0, 0, 0) and ctx.rng.random() < 0.6:
            # cubic, U = 1: the lab-frame direction of hkl is hkl itself — vectors given in the LAB frame, as Python ints or floats
            k = ctx.rng.choice([1, -1, 2])
            conv = ctx.rng.choice([int, int, float])
            ub = mk_ub(lattice=lattice, rotvec=rotvec, n_hkl=None, n_phi=tuple(conv(k * x) for x in hkl),
                       surf_nhkl=None, surf_nphi=tuple(conv(-k * x) for x in hkl))
        else:
            ub = mk_ub(lattice=lattice, rotvec=rotvec, n_hkl=tuple(s * x for x in hkl), surf_nhkl=tuple(-s * x for x in hkl))
        vals = {nm: (True if nm in VOID else float(ctx.rng.choice(PL.SPECIAL + [12.5, -33.0]))) for nm in tr}
        out.append((ub, vals, tuple(float(x) for x in hkl), ctx.rng.choice([1.0, 0.5]), "parallel"))
    return out


def bitwise_parallel_requests(ctx, n):
    """reference vector and surface normal given in the LAB frame as exactly +-(UB @ hkl) of the requested reflection (no re-normalisation in between:
    bitwise parallel, whatever the direction's self-dot rounds to), many directions / cells / orientations, in the modes with alpha / beta / betain /
    betaout — where the reference frame built on the scattering vector is inverted"""
    out = []
    modes = [tr for tr in PL.modes() if any(x in tr for x in ("alpha", "beta", "betain", "betaout"))]
    setups = []
    for lattice in ((4.0, 5.0, 6.0, 80, 95, 100), ("Hexagonal", 3.2, 5.1), (4.1, 5.2, 6.3), (3.9,)):
        for rotvec in ((0.3, -0.5, 0.7), (0.11, 0.22, 0.33), (-0.4, 0.1, 0.25)):
            setups.append((lattice, rotvec))
    for _ in range(n):
        lattice, rotvec = ctx.rng.choice(setups)
        while True:
            hkl = tuple(float(ctx.rng.randint(-3, 3)) for _ in range(3))
            if any(hkl):
                break
        ub = mk_ub(lattice=lattice, rotvec=rotvec, n_hkl=None, surf_nhkl=None)
        q = np.asarray(ub.UB, float) @ np.array(hkl)
        sg = ctx.rng.choice([1.0, -1.0])
        ub.n_phi = tuple(float(sg * x) for x in q)
        ub.surf_nphi = tuple(float(sg * x) for x in q)
        tr = ctx.rng.choice(modes)
        vals = {nm: (True if nm in VOID else float(ctx.rng.choice([0.0, 90.0, -90.0, 12.5, -33.0, 45.0, ctx.rng.uniform(-90, 90)]))) for nm in tr}
        out.append((ub, vals, hkl, 1.0, "bitwise-parallel"))
    return out


def special_requests(ctx, per_mode):
    out = []
    for tr in PL.modes():
        for _ in range(per_mode):
            ub, vals, hkl, wl = PL.special_request(ctx.rng, tr)
            out.append((ub, vals, hkl, wl, "special"))
    return out


def zero_sweep(ctx, per_mode):
    """every mode with ALL its value constraints at 0 (and at the same multiple of 90) on the aligned set-ups, axis reflections: the point where
    scattering vector, rotation axes and reference vector coincide"""
    out = []
    ubs = {name: mk_ub(**kw) for name, kw in PL.ALIGNED_SETUPS}
    for tr in PL.modes():
        # always: all zeros on an aligned cubic and an aligned orthorhombic set-up; then per_mode random extras
        plan = [("cubicI-nz", 0.0), ("ortho-ny", 0.0)] + [(ctx.rng.choice(PL.ALIGNED_SETUPS)[0], ctx.rng.choice([0.0, 90.0, 180.0, -90.0])) for _ in range(per_mode)]
        for name, v0 in plan:
            vals = {nm: (True if nm in VOID else v0) for nm in tr}
            for hkl in ((1, 0, 0), (0, 1, 0), (0, 0, 1)):
                out.append((ubs[name], vals, tuple(float(x) for x in hkl), 1.0, "zero-sweep:" + name))
    return out


def backscatter_requests(ctx, n):
    """wavelengths within a few 1e-8 (relative) of 2 d(hkl): the window in which bound() clips instead of raising"""
    out = []
    for _ in range(n):
        tr = ctx.rng.choice(PL.modes())
        ub, kind = PL.rand_ub(ctx.rng)
        hkl = tuple(float(x) for x in ctx.rng.choice([(1, 0, 0), (0, 0, 1), (1, 1, 0), (1, 1, 1), (2, 0, 1)]))
        B = np.asarray(ub.crystal.B, float)
        d = 2 * math.pi / np.linalg.norm(B @ np.array(hkl))
        wl = 2 * d * (1 + ctx.rng.choice([-3e-8, -1e-9, 0.0, 1e-9, 2e-8, 5e-8, 9e-8, 1.5e-7, 1e-6]))
        vals = {nm: (True if nm in VOID else float(ctx.rng.choice([0, 90, 20, ctx.rng.uniform(-90, 90)]))) for nm in tr}
        out.append((ub, vals, hkl, wl, "backscatter"))
    return out


def beam_aligned_requests(ctx, n):
    """the reference vector lies exactly along the incident or the exit beam at the solution (theta + tau = 90 deg, i.e. alpha or beta = +-90 deg,
    sines equal to 1 up to the last bit): cubic cell, reference along a cell axis, integer hkl and wavelength = 2 a |l| / (h^2 + k^2 + l^2);
    asked through the modes that constrain psi (at 0 / 180, where the reference vector is in the scattering plane) or alpha / beta (at +-90)"""
    out = []
    modes = [tr for tr in PL.modes() if "psi" in tr or "alpha" in tr or "beta" in tr or "a_eq_b" in tr]
    for _ in range(n):
        a = ctx.rng.choice([1.0, 2.0, 3.5, 4.0, 5.431, 8.5, 9.5, 7.25, 3.905, 12.0, ctx.rng.uniform(2, 12)])
        h, k, l = ctx.rng.randint(-5, 5), ctx.rng.randint(-5, 5), ctx.rng.choice([-3, -2, -1, 1, 2, 3, 4])
        ax = ctx.rng.choice([0, 1, 2, 2])
        hkl = [float(h), float(k)]; hkl.insert(ax, float(l))
        nvec = [0.0, 0.0]; nvec.insert(ax, 1.0)
        wl = 2 * a * abs(l) / (h * h + k * k + l * l)
        ub = mk_ub(lattice=(a,), rotvec=(0, 0, 0), n_hkl=tuple(nvec), surf_nhkl=tuple(nvec))
        tr = ctx.rng.choice(modes)
        vals = {}
        for nm in tr:
            if nm in VOID:
                vals[nm] = True
            elif nm == "psi":
                vals[nm] = float(ctx.rng.choice([0.0, 180.0, -180.0, 0.0, 180.0, 90.0]))
            elif nm in ("alpha", "beta"):
                vals[nm] = float(ctx.rng.choice([90.0, -90.0, 90.0, 0.0]))
            else:
                vals[nm] = float(ctx.rng.choice(PL.SPECIAL + [12.5, -33.0, ctx.rng.uniform(-90, 90)]))
        out.append((ub, vals, tuple(hkl), wl, "beam-aligned"))
    return out


def correspondence(ctx):
    reqs = special_requests(ctx, ctx.scale(2, 60)) + parallel_requests(ctx, ctx.scale(60, 3000))
    PL.correspondence_stream(ctx, "special values (exception classes)", reqs, "full")
    # get_virtual_angles on random / special positions, reference vectors of any length in either frame
    from diffcalc.hkl.calc import HklCalculation
    from diffcalc.hkl.constraints import Constraints
    from diffcalc.hkl.geometry import Position
    lines, exp = [], []
    for _ in range(ctx.scale(200, 20000)):
        ub, kind = PL.rand_ub(ctx.rng)
        pos = [float(ctx.rng.choice(PL.SPECIAL)) if ctx.rng.random() < 0.3 else ctx.rng.uniform(-180, 180) for _ in range(6)]
        hc = HklCalculation(ub, Constraints())
        try:
            with quiet():
                va = hc.get_virtual_angles(Position(*pos))
            exp.append(("ok", va))
        except Exception as e:  # noqa
            exp.append((type(e).__name__, None))
        lines.append(S.va_line(ub, pos))
    ans = drive(lines)
    dis = 0
    for l, a, e in zip(lines, ans, exp):
        if e[0] == "ok":
            ok = a.startswith("ok ")
            if ok:
                vals = [float("nan") if t == "nan" else h2f(t) for t in a.split(" ")[1:]]
                for k, v in zip(S.VA_KEYS, vals):
                    w = e[1][k]
                    if math.isnan(v) != math.isnan(w) or (not math.isnan(v) and c05.differs(k, v, w)):      # (turning points of asin / acos: sine / cosine compared)
                        ok = False
        else:
            ok = a == e[0]
        if not ok:
            dis += 1
            if dis <= 3:
                ctx.broke("correspondence", "Solver.virtualAngles vs get_virtual_angles", f"code -> {e}; model -> {a[:200]}")
    ctx.stream("correspondence:get_virtual_angles", len(lines), len(lines), disagreements=dis)


def oracle(ctx, widen=1):
    from diffcalc.hkl.calc import HklCalculation
    from diffcalc.hkl.constraints import Constraints
    from diffcalc.hkl.geometry import Position
    from diffcalc.ub.calc import UBCalculation
    from diffcalc.util import DiffcalcException
    reqs = (special_requests(ctx, ctx.scale(4, 200) * widen) + parallel_requests(ctx, ctx.scale(100, 5000) * widen)
            + zero_sweep(ctx, ctx.scale(1, 5)) + backscatter_requests(ctx, ctx.scale(300, 10000) * widen)
            + PL.aligned_requests(ctx.rng, ctx.scale(2, 40) * widen) + beam_aligned_requests(ctx, ctx.scale(2500, 60000) * widen)
            + bitwise_parallel_requests(ctx, ctx.scale(4000, 60000) * widen) + PL.diagonal_axis_requests(ctx.rng, ctx.scale(3000, 60000) * widen))
    kinds = set()
    for ub, vals, hkl, wl, tag in reqs:
        res = S.run_impl("full", HklCalculation(ub, Constraints(vals)), hkl, wl)
        kinds.add((tuple(sorted(vals)), res[0]))
        bad = None
        if res[0] == "ok":
            if not res[1]:
                bad = "returned an empty list"
            for pos, va in res[1]:
                if not all(math.isfinite(x) for x in pos):
                    bad = f"returned a non-finite position {pos}"
        elif res[0] != "dce":
            bad = f"raised {res[0]}: {res[1][:100]}"
        if bad:
            ctx.violation(f"get_position{tuple(hkl)} at wavelength {wl} with { {k: (v if v is True else round(v, 4)) for k, v in vals.items()} } [{tag}]: {bad}",
                          {"constraints": vals, "hkl": list(hkl), "wl": wl, "UB": np.asarray(ub.UB).tolist(), "n_phi": PL.vectors(ub)[0].tolist()},
                          {"kind": "exception-class", "exception": res[0] if res[0] != "ok" else "nonfinite", "where": "get_position"})
    ctx.stream("oracle:exception-classes", len(reqs), len(kinds))
    # get_hkl / get_virtual_angles / str on reachable states
    n = ctx.scale(150, 10000) * widen
    for it in range(n):
        ub, kind = PL.rand_ub(ctx.rng)
        if ctx.rng.random() < 0.3:
            ub.n_phi = tuple(ctx.rng.choice([(0, 0, 2.0), (1.0, 1.0, 0), (0, 0.5, 0.5), (3.0, 0, 0)]))
        pos = [float(ctx.rng.choice(PL.SPECIAL)) if ctx.rng.random() < 0.4 else ctx.rng.uniform(-720, 720) for _ in range(6)]
        if ctx.rng.random() < 0.35:
            # reference (or surface) vector exactly / nearly parallel or anti-parallel to the scattering vector of this position:
            # psi, naz, tau sit at or next to their poles (offsets from 1e-9 to 1e-3 rad straddle every threshold used by the code)
            from harness.common import mats
            ki, kf, Z = mats([x for x in pos])
            q = kf - ki
            if np.linalg.norm(q) > 1e-6:
                qphi = Z.T @ (q / np.linalg.norm(q))
                t = np.cross(qphi, [0.3, -0.5, 0.8]); t = t / np.linalg.norm(t)
                eps = ctx.rng.choice([0.0, 1e-9, 3e-8, 1e-7, 3e-7, 1e-6, 1e-5, 3e-5, 1e-4, 1e-3])
                v = (qphi * math.cos(eps) + t * math.sin(eps)) * ctx.rng.choice([1.0, -1.0]) * ctx.rng.choice([1.0, 2.5])
                if ctx.rng.random() < 0.7:
                    ub.n_phi = tuple(float(x) for x in v)
                else:
                    ub.surf_nphi = tuple(float(x) for x in v)
        hc = HklCalculation(ub, Constraints({k: (True if k in VOID else 1.0) for k in ctx.rng.choice(PL.modes())}))
        for what, f in (("get_hkl", lambda: hc.get_hkl(Position(*pos), 1.0)), ("get_virtual_angles", lambda: hc.get_virtual_angles(Position(*pos))),
                        ("str(HklCalculation)", lambda: str(hc)), ("str(UBCalculation)", lambda: str(ub)), ("str(Constraints)", lambda: str(hc.constraints))):
            try:
                with quiet():
                    f()
            except Exception as e:  # noqa
                ctx.violation(f"{what} raised {type(e).__name__}: {str(e)[:100]} at position {tuple(round(x, 4) for x in pos)} (n_phi {PL.vectors(ub)[0].tolist()})",
                              {"pos": pos, "n_phi": PL.vectors(ub)[0].tolist()}, {"kind": "exception-class", "exception": type(e).__name__, "where": what})
    # str() in sparse states
    for it in range(ctx.scale(40, 2000)):
        ub = UBCalculation("s")
        steps = ctx.rng.sample(["lattice", "u", "ub", "refl", "orient", "nphi", "surfhkl"], ctx.rng.randint(0, 5))
        try:
            with quiet():
                for st in steps:
                    if st == "lattice":
                        ub.set_lattice("x", *ctx.rng.choice([(4.0,), (4.1, 5.2, 6.3, 80, 95, 100), ("Hexagonal", 3.0, 5.0)]))
                    elif st == "u":
                        ub.set_u(rot_from_rotvec([ctx.rng.uniform(-1, 1) for _ in range(3)]))
                    elif st == "ub":
                        ub.set_ub(np.eye(3) * 2 + 0.1)
                    elif st == "refl":
                        ub.add_reflection((1, 0, 0), Position(1, 2, 3, 4, 5, 6), 12.0, ctx.rng.choice([None, "r"]))
                    elif st == "orient":
                        ub.add_orientation((0, 1, 0), (0, 1, 0), None, ctx.rng.choice([None, "o"]))
                    elif st == "nphi":
                        ub.n_phi = (0, 0, 1)
                    else:
                        ub.surf_nhkl = (0, 0, 1)
                str(ub)
        except Exception as e:  # noqa
            ctx.violation(f"str(UBCalculation) raised {type(e).__name__}: {str(e)[:100]} after {steps}", {"steps": steps},
                          {"kind": "exception-class", "exception": type(e).__name__, "where": "str(UBCalculation)"})
    ctx.stream("oracle:total-queries", n * 5, n)


def replay(ctx, data):
    print(data["what"]); print(data["replay"]); return 0
