"""C16 — reference and surface vectors convert consistently between hkl and lab frames."""
import math
import numpy as np
from vlib import drive, f2h, h2f, quiet, angdiff
from harness.common import rot_from_rotvec

SPEC = {
    "gen": [],
    "modules": ["DiffcalcProofs.Props.C16"],
    "theorems": {"DiffcalcProofs.Props.C16": [
        "C16.same_frame", "C16.other_frame", "C16.none_iff", "C16.independent", "C16.frames_consistent",
        "C16.setback_hkl", "C16.setback_phi"]},
    "level": "proof",
    "rule": "random sequences of the four vector setters interleaved with UB changes (none / set_ub / set_lattice+set_u, cubic to "
            "triclinic, rotated U), vectors of unit and non-unit length incl. axis-aligned; after every step all four getters are "
            "compared with the model (None pattern exactly, values to 1e-9); the oracle states the property clauses directly "
            "incl. pseudo-angle invariance under read-back/set-back; distinct = distinct (frame flags, UB present) x op kinds",
    "assumptions": ["numpy.linalg.inv is modelled as adjugate/determinant"],
}

WHICH = ["n_hkl", "n_phi", "surf_nhkl", "surf_nphi"]


def rand_vec(rng):
    r = rng.random()
    if r < 0.25:
        v = rng.choice([(1, 0, 0), (0, 1, 0), (0, 0, 1), (0, 0, 2), (1, 1, 0), (0, 0.5, 0.5), (-1, 0, 0)])
        return tuple(float(x) for x in v)
    s = rng.choice([1.0, 0.35, 6.0, 1.0, 0.35, 6.0, 3e-7, 1e-9, 1e5])      # only the direction matters: any non-zero length is legal
    while True:
        v = np.array([rng.uniform(-1, 1) for _ in range(3)])
        if np.linalg.norm(v) > 0.2:
            return tuple(float(x) for x in v * s)


def rand_ub_op(rng):
    r = rng.random()
    if r < 0.2:
        return ("ub", None)
    if r < 0.5:
        while True:
            m = np.array([[rng.uniform(-2, 2) for _ in range(3)] for _ in range(3)])
            if abs(np.linalg.det(m)) > 0.3:
                return ("ub", m)
    lat = rng.choice([(4.0,), (4.0, 5.0), (4.0, 5.0, 6.0), (4.1, 5.2, 6.3, 100.0), (4.1, 5.2, 6.3, 80, 95, 100), ("Hexagonal", 3.0, 5.0), ("Rhombohedral", 4.0, 75.0)])
    # "keep": the lattice alone is replaced and U is kept (UB follows through set_lattice); "refine_lat" / "fit_lat": the refinement entry
    # points told to apply the lattice only — every route by which UB changes without U being assigned
    how = rng.choice(["set_u", "set_u", "calc_ub", "calc_ub1", "miscut", "refine", "keep", "keep", "refine_lat", "fit_lat"])
    return ("lat", lat, [rng.uniform(-1, 1) for _ in range(3)], how)


def gen_history(rng, maxlen):
    ops = []
    for _ in range(rng.randint(1, maxlen)):
        if rng.random() < 0.7:
            ops.append(("set", rng.choice(WHICH), rand_vec(rng)))
        else:
            ops.append(rand_ub_op(rng))
    return ops


def apply_impl(ub, op):
    if op[0] == "set":
        # the caller may hand over a tuple, a list or an array, and may reuse its own buffer afterwards
        kind = int(abs(op[2][0]) * 1000) % 3
        route = int(abs(op[2][1]) * 1000) % 5
        attr = "reference" if op[1].startswith("n_") else "surface"
        in_hkl = op[1].endswith("hkl")
        if route == 3:
            # the documented attribute route: a ReferenceVector object with the frame flag as any truthy / falsy value
            from diffcalc.ub.calc import ReferenceVector
            flag = [in_hkl, np.bool_(in_hkl), int(in_hkl), np.array([in_hkl])[0]][int(abs(op[2][2]) * 1000) % 4]
            setattr(ub, attr, ReferenceVector(tuple(op[2]), flag))
            return
        if route == 4 and bool(getattr(ub, attr).rlv) == in_hkl:
            # in-place edit of the vector object the calculator already holds (same frame)
            getattr(ub, attr).set_array(np.array([list(op[2])], float).T)
            return
        buf = tuple(op[2]) if kind == 0 else list(op[2]) if kind == 1 else np.array(op[2], float)
        setattr(ub, op[1], buf)
        if kind != 0:
            buf[0], buf[1], buf[2] = 9.0, -7.0, 0.5
    elif op[0] == "ub":
        if op[1] is None:
            ub.UB = None; ub.U = None
        else:
            ub.crystal = None; ub.U = None
            ub.set_ub(op[1])
    else:
        # every public route by which a calculation acquires or changes its U / UB
        from diffcalc.hkl.geometry import Position
        how = op[3] if len(op) > 3 else "set_u"
        U0 = rot_from_rotvec(op[2])
        with quiet():
            if how in ("refine_lat", "fit_lat") and ub.crystal is not None and ub.U is not None and ub.UB is not None:
                if how == "refine_lat":
                    ub.refine_ub((1, 0, 1), Position(0, 35, 5, 12, 40, 20), 1.0, True, False)
                else:
                    while ub.get_number_reflections():
                        ub.del_reflection(1)
                    for i, h in enumerate(((1, 0, 1), (0, 1, 1), (1, 1, 0), (1, -1, 2))):
                        ub.add_reflection(h, Position(3 + i, 30 + 4 * i, 5 + 2 * i, 12 - i, 40 + 7 * i, 20 - 9 * i), 12.0 + i, None)
                    ub.fit_ub([1, 2, 3, 4], True, False)
                return
            ub.set_lattice("x", *op[1])
            B = np.asarray(ub.crystal.B, float)
            if how in ("keep", "refine_lat", "fit_lat") and ub.U is not None:
                return
            if how in ("set_u", "keep", "refine_lat", "fit_lat") or ub.U is None and how in ("miscut", "refine"):
                ub.set_u(U0)
            elif how in ("calc_ub", "calc_ub1"):
                while ub.get_number_orientations():
                    ub.del_orientation(1)
                while ub.get_number_reflections():
                    ub.del_reflection(1)
                if how == "calc_ub":
                    for h in ((1, 0, 0), (0, 1, 1)):
                        ub.add_orientation(h, tuple(float(x) for x in U0 @ B @ np.array(h, float)))
                    ub.calc_ub()
                else:
                    ub.add_reflection((0, 0, 1), Position(7.31, 0, 10.62, 0, 0, 0), 12.39842, "r")
                    ub.calc_ub()
            elif how == "miscut":
                ub.set_miscut((op[2][0], op[2][1], 0.3), 3.0, True)
            else:
                ub.refine_ub((1, 0, 1), Position(0, 35, 5, 12, 40, 20), 1.0, True, True)


def getters(ub):
    out = []
    for w in WHICH:
        v = getattr(ub, w)
        out.append(None if v is None else [float(x) for x in np.asarray(v).T[0]])
        if isinstance(v, np.ndarray) and v.flags.writeable:
            v[...] = (np.asarray(v, float) * -3.0 + 1.0).astype(v.dtype)      # what a getter hands out is the caller's: normalising / flipping it in place must not reach the calculation
    return out


def ub_line(ub):
    return "fr.ub none" if ub.UB is None else "fr.ub " + " ".join(f2h(x) for x in np.asarray(ub.UB).flatten())


def correspondence(ctx):
    from diffcalc.ub.calc import UBCalculation
    n = ctx.scale(200, 10000)
    lines, expect, where = [], [], []
    combos = set()
    hs = [gen_history(ctx.rng, 12) for _ in range(n)]
    for hi, ops in enumerate(hs):
        ub = UBCalculation("t")
        lines.append("fr.reset"); expect.append(None); where.append((hi, -1))
        lines.append("fr.get"); expect.append(getters(ub)); where.append((hi, -1))
        for oi, op in enumerate(ops):
            try:
                apply_impl(ub, op)
            except Exception as e:  # noqa
                ctx.broke("correspondence", "Frames.lean", f"implementation raised {type(e).__name__} on {op}")
                break
            lines.append(f"fr.set {op[1]} " + " ".join(f2h(x) for x in op[2]) if op[0] == "set" else ub_line(ub))
            expect.append(None); where.append((hi, oi))
            try:
                g = getters(ub)
            except Exception as e:  # noqa
                g = "EXC:" + type(e).__name__
            lines.append("fr.get"); expect.append(g); where.append((hi, oi))
            combos.add((ub.reference.rlv, ub.surface.rlv, ub.UB is not None, op[0]))
    ans = drive(lines)
    dis = 0
    for a, e, (hi, oi) in zip(ans, expect, where):
        if e is None:
            continue
        ok = isinstance(e, list)
        if ok:
            parts = a.split(" | ")
            ok = len(parts) == 4
            for p, ev in zip(parts, e):
                if not ok:
                    break
                if ev is None:
                    ok = p == "none"
                else:
                    ok = p != "none" and all(abs(h2f(t) - x) <= 1e-9 * (1 + abs(x)) for t, x in zip(p.split(" "), ev))
        if not ok:
            dis += 1
            if dis <= 5:
                ctx.broke("correspondence", "Frames.lean vs UBCalculation vector properties",
                          f"history {hi} after op {oi} {hs[hi][oi] if oi >= 0 else 'init'}: code -> {e}; model -> {a}")
    ctx.stream("correspondence:frames", len(lines), len(combos), histories=n, disagreements=dis)
    ctx.cov["traces_validated_against_impl"] = n
    ctx.sample({"history": [str(o)[:80] for o in hs[0][:5]]})


def oracle(ctx, widen=1):
    """the clauses of the property, directly on the implementation"""
    from diffcalc.ub.calc import UBCalculation
    from diffcalc.hkl.calc import HklCalculation
    from diffcalc.hkl.constraints import Constraints
    from diffcalc.hkl.geometry import Position
    n = ctx.scale(200, 10000) * widen
    cases = 0
    combos = set()
    unit = lambda v: np.asarray(v, float) / np.linalg.norm(v)
    for it in range(n):
        rng = ctx.rng
        bystander = UBCalculation("bystander")        # a second calculator alive at the same time, never touched
        by0 = getters(bystander)
        ub = UBCalculation("t")
        ops = gen_history(rng, 8)
        last = {"reference": None, "surface": None}
        bad = None
        for oi, op in enumerate(ops):
            try:
                apply_impl(ub, op)
                if getters(bystander) != by0:
                    bad = f"an operation on one calculator changed the vectors of another, untouched calculator: {by0} -> {getters(bystander)}"
                    break
                if op[0] == "set":
                    last["reference" if op[1].startswith("n_") else "surface"] = (op[1], op[2])
                UB = None if ub.UB is None else np.asarray(ub.UB, float)
                for vec, hk, ph in (("reference", "n_hkl", "n_phi"), ("surface", "surf_nhkl", "surf_nphi")):
                    if last[vec] is None:
                        frame_hkl, v = (True, (1.0, 0.0, 0.0)) if vec == "reference" else (False, (0.0, 0.0, 1.0))
                    else:
                        frame_hkl, v = last[vec][0].endswith("hkl"), last[vec][1]
                    same, other = (hk, ph) if frame_hkl else (ph, hk)
                    gs, go = getattr(ub, same), getattr(ub, other)
                    cases += 1
                    combos.add((vec, frame_hkl, UB is not None))
                    if gs is None or np.abs(np.asarray(gs).T[0] - np.asarray(v)).max() > 1e-12:
                        bad = f"{same} reports {None if gs is None else np.asarray(gs).T[0].tolist()} for the value {v} set in that frame"
                    elif UB is None and go is not None:
                        bad = f"{other} is not None although no UB matrix exists (vector set via {same})"
                    elif UB is not None and go is None:
                        bad = f"{other} is None although a UB matrix exists (vector set via {same})"
                    elif UB is not None:
                        want = unit(UB @ np.asarray(v)) if frame_hkl else unit(np.linalg.solve(UB, np.asarray(v)))
                        if np.abs(np.asarray(go).T[0] - want).max() > 1e-9:
                            bad = f"{other} = {np.asarray(go).T[0].tolist()} is not the unit vector along UB^{'+1' if frame_hkl else '-1'} v = {want.tolist()}"
                    if not bad:
                        # the arrays handed out are the caller's: changing them in place must not reach the calculation
                        for g in (gs, go):
                            if isinstance(g, np.ndarray) and g.flags.writeable:
                                g[...] = (np.asarray(g, float) * -3.0 + 1.0).astype(g.dtype)
                        gs2 = getattr(ub, same)
                        if gs2 is None or np.abs(np.asarray(gs2).T[0] - np.asarray(v)).max() > 1e-12:
                            bad = (f"{same} reports {None if gs2 is None else np.asarray(gs2).T[0].tolist()} for the value {v} set in that frame, after the caller "
                                   f"changed in place the arrays that {same} / {other} had returned")
                    if bad:
                        break
            except Exception as e:  # noqa
                bad = f"{type(e).__name__}: {e}"
            if bad:
                break
        if not bad and ub.UB is not None:
            # read-back / set-back keeps every pseudo-angle
            hc = HklCalculation(ub, Constraints())
            pos = Position(*[rng.uniform(-170, 170) for _ in range(6)])
            try:
                with quiet():
                    before = hc.get_virtual_angles(pos)
                for getter in ("n_hkl", "n_phi", "surf_nhkl", "surf_nphi"):
                    val = tuple(float(x) for x in np.asarray(getattr(ub, getter)).T[0])
                    setattr(ub, getter, val)
                    with quiet():
                        after = hc.get_virtual_angles(pos)
                    cases += 1
                    for k in before:
                        a, b = before[k], after[k]
                        if (math.isnan(a) != math.isnan(b)) or (not math.isnan(a) and angdiff(a, b) > 1e-6):
                            bad = f"reading {getter} and setting it back changed {k}: {a} -> {b}"
                    if bad:
                        break
            except Exception as e:  # noqa
                bad = f"read-back/set-back raised {type(e).__name__}: {e}"
        if bad:
            ctx.violation(bad + f" (history {[str(o)[:70] for o in ops[:oi + 1]][-4:]})",
                          {"ops": [[o[0], o[1] if isinstance(o[1], (str, type(None))) else np.asarray(o[1]).tolist()] + [list(x) if isinstance(x, (list, tuple)) else x for x in o[2:]] for o in ops[:oi + 1]]},
                          {"kind": "frames"})
    ctx.stream("oracle:frames", cases, len(combos), histories=n)


def replay(ctx, data):
    print(data["what"]); print(data["replay"])
    return 0
