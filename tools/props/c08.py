"""C08 — U stays a proper rotation and UB = U.B through every history of UB operations."""
import copy, math
import numpy as np
from math import sin, cos, radians
from vlib import drive, f2h, h2f, quiet
from harness.common import rot_from_rotvec

SPEC = {
    "gen": ["Rotations"],
    "modules": ["DiffcalcProofs.Props.C08", "DiffcalcProofs.Props.C08Miscut"],
    "theorems": {"DiffcalcProofs.Props.C08": [
        "C08.inv_init", "C08.inv_setLattice", "C08.inv_setU", "C08.inv_setUb", "C08.inv_setMiscut", "C08.inv_step",
        "C08.inv_history", "C08.c08_history", "C08.setMiscut_spec", "C08.step_error_unchanged"],
        "DiffcalcProofs.Props.C08Miscut": ["C08.rodrigues_isRot", "C08.rodrigues_axis_fixed", "C08.getMiscut_setMiscut",
                                           "C08.quatRot_isRot"]},
    "level": "proof",
    "rule": "random histories of set_lattice (all call forms, valid and invalid) / set_u / set_ub / set_miscut (add or not) / calc_ub "
            "(consistent, inconsistent and parallel references) / refine_ub (flag combinations) / fit_ub (thorough tier) on rotation-valued "
            "inputs, plus bad shapes; after every operation B, U and UB are compared with the model (1e-9) and the invariant "
            "UB = U.B(current lattice), U^T U = 1, det U = +1 is evaluated on the implementation; distinct = distinct (operation kind, outcome, "
            "which of crystal/U/UB were defined) combinations",
    "assumptions": ["B of a new lattice, the U computed by calc_ub and the optimiser output of fit_ub enter the model as parameters (C06, C07, C15)",
                    "scipy Rotation.from_rotvec is modelled by the Rodrigues formula (compared numerically on every set_miscut)"],
}

LATTICES = [(4.0,), (4.0, 5.0), (4.0, 5.0, 6.0), (4.1, 5.2, 6.3, 100.0), (3.0, 3.0, 5.0, 120), (4.1, 5.2, 6.3, 80, 95, 100),
            ("Cubic", 5.0), ("Tetragonal", 4.0, 6.0), ("Hexagonal", 3.0, 5.0), ("Orthorhombic", 3.0, 4.0, 5.0),
            ("Rhombohedral", 4.0, 75.0), ("Monoclinic", 4.0, 5.0, 6.0, 100.0), ("Triclinic", 4.1, 5.2, 6.3, 80, 95, 100)]
BAD_LATTICES = [(), (1.0, 2.0, 3.0, 90.0, 90.0), ("Nonsense", 1.0), ("Cubic", 1.0, 2.0), ("Cubic", "a"), (1.0, "Cubic")]


def sibling(lat, rng):
    """a lattice described by the SAME numbers as `lat`: another crystal system with the same parameter count, the other call form
    (system named / inferred), or the identical description again"""
    nums = tuple(x for x in lat if not isinstance(x, str))
    if rng.random() < 0.4:
        # the same description with the lengths a few parts per million (or per hundred million) off: thermal expansion, the last steps of
        # a converging refinement — a new lattice however small the change
        f = 1.0 + rng.choice((-1, 1)) * 10.0 ** rng.uniform(-7.5, -4)
        k = {1: 1, 2: 2 if (len(lat) > len(nums) and lat[0] != "Rhombohedral") or len(lat) == len(nums) else 1, 3: 3, 4: 3, 6: 3}.get(len(nums), 0)
        return tuple(x for x in lat if isinstance(x, str)) + tuple(v * f if i < k else v for i, v in enumerate(nums))
    named = {1: ["Cubic"], 2: ["Tetragonal", "Hexagonal"] + (["Rhombohedral"] if 0 < nums[-1] < 120 else []), 3: ["Orthorhombic"],
             4: ["Monoclinic"], 6: ["Triclinic"]}.get(len(nums), [])
    forms = [(n,) + nums for n in named] + [lat]
    forms.append(nums)
    return rng.choice(forms)


def rodrigues(axis, angle):
    k = np.asarray(axis, float); k = k / np.linalg.norm(k)
    K = np.array([[0, -k[2], k[1]], [k[2], 0, -k[0]], [-k[1], k[0], 0]])
    return cos(angle) * np.eye(3) + sin(angle) * K + (1 - cos(angle)) * np.outer(k, k)


def m2w(m):
    return "none" if m is None else " ".join(f2h(x) for x in np.asarray(m, float).flatten())


def gen_op(rng, thorough):
    kinds = ["setLattice", "setLatticeBad", "setU", "setUBad", "setUb", "setUbBad", "setMiscut", "calcUb", "calcUbParallel", "refineUb", "calcUbSingle"]
    w = [16, 4, 14, 3, 10, 3, 16, 10, 4, 8, 5]
    kinds.append("fitUb"); w.append(4 if thorough else 3)     # both refinement entry points change the lattice and / or U through their own route
    return rng.choices(kinds, weights=w)[0]


def qphi(pos):
    from diffcalc.hkl.geometry import get_q_phi
    return get_q_phi(pos)


def make_refs(rng, ub, U0, parallel=False):
    """two references (reflection / orientation mix) consistent with orientation U0 of the current lattice"""
    from diffcalc.hkl.geometry import Position
    B = ub.crystal.B
    ub.reflist.reflections.clear(); ub.orientlist.orientations.clear()
    h1 = np.array([rng.randint(-2, 2), rng.randint(-2, 2), rng.randint(1, 3)], float)
    h2 = 2 * h1 if parallel else np.array([rng.randint(1, 3), rng.randint(-2, 2), rng.randint(-2, 2)], float)
    if not parallel and np.linalg.norm(np.cross(B @ h1, B @ h2)) < 1e-3:
        h2 = h2 + np.array([0, 1, 0])
    for h, tag in ((h1, "r1"), (h2, "r2")):
        pos = Position(*[rng.uniform(-60, 60) for _ in range(6)])
        from diffcalc.hkl.geometry import get_rotation_matrices
        MU, _, _, ETA, CHI, PHI = get_rotation_matrices(pos)
        Z = MU @ ETA @ CHI @ PHI
        xyz = Z @ (U0 @ B @ h.reshape(3, 1))
        ub.add_orientation(tuple(h), tuple(float(x) for x in xyz.T[0] * rng.uniform(0.5, 2)), pos, tag)
    return ("r1", "r2") if rng.random() < 0.5 else (1, 2)


def run_history(rng, maxlen, thorough, record):
    """executes a random history on a fresh UBCalculation; `record(line, ub, outcome)` after every op"""
    from diffcalc.ub.calc import UBCalculation
    from diffcalc.hkl.geometry import Position
    from diffcalc.util import DiffcalcException
    ub = UBCalculation("t")
    last_lat = [None]
    record("ub.reset", ub, "ok", None)
    for _ in range(rng.randint(1, maxlen)):
        k = gen_op(rng, thorough)
        out, line, info = "ok", None, {"op": k}
        R = rot_from_rotvec([rng.uniform(-2, 2) for _ in range(3)])
        try:
            with quiet():
                if k == "setLattice":
                    lat = rng.choice(LATTICES)
                    if last_lat[0] is not None and rng.random() < 0.3:
                        lat = sibling(last_lat[0], rng)        # same numbers, possibly another system: the cell is what the call says now
                    ub.set_lattice("x", *lat)
                    last_lat[0] = lat
                    line = "ub setLattice " + m2w(ub.crystal.B); info["lattice"] = lat
                elif k == "setLatticeBad":
                    lat = rng.choice(BAD_LATTICES); info["lattice"] = lat
                    line = "ub setLattice none"
                    ub.set_lattice("x", *lat)
                    out = "ok-unexpected"
                elif k == "setU":
                    buf = np.array(R, float) if rng.random() < 0.7 else R.tolist()
                    ub.set_u(buf); line = "ub setU " + m2w(R)
                    if isinstance(buf, np.ndarray):
                        buf[...] = 7.5          # the caller reuses its scratch array for the next sample: what was handed over must have been copied
                elif k == "setUBad":
                    line = "ub setU none"
                    ub.set_u(rng.choice([[[1, 0], [0, 1]], [1, 2, 3], np.eye(4)])); out = "ok-unexpected"
                elif k == "setUb":
                    M = R @ ub.crystal.B if ub.crystal is not None else np.array([[rng.uniform(-2, 2) for _ in range(3)] for _ in range(3)]) + 3 * np.eye(3)
                    buf = np.array(M, float) if rng.random() < 0.7 else np.asarray(M).tolist()
                    ub.set_ub(buf); line = "ub setUb " + m2w(M)
                    if isinstance(buf, np.ndarray):
                        buf[...] = -3.25
                elif k == "setUbBad":
                    line = "ub setUb none"
                    ub.set_ub(rng.choice([[[1, 0], [0, 1]], np.eye(4)])); out = "ok-unexpected"
                elif k == "setMiscut":
                    axis = rng.choice([(1, 0, 0), (0, 1, 0), (1, 1, 0), tuple(rng.uniform(-1, 1) for _ in range(3)), None])
                    angle = rng.choice([rng.uniform(-170, 170), 30.0, 90.0, 0.0, rng.uniform(-170, 170), (10.0 ** rng.uniform(-6, -2)) * rng.choice((-1, 1))])     # incl. minute corrections
                    add = rng.random() < 0.5
                    info.update(axis=axis, angle=angle, add=add, prevU=None if ub.U is None else np.array(ub.U))
                    ub.set_miscut(axis, angle, add)
                    line = f"ub setMiscut {'add' if add else 'set'} " + m2w(rodrigues(axis if axis is not None else (0, 1, 0), radians(angle)))
                elif k in ("calcUb", "calcUbParallel"):
                    if ub.crystal is None:
                        line = "ub calcUb none"
                        ub.calc_ub(1, 2); out = "ok-unexpected"
                    else:
                        ids = make_refs(rng, ub, R, parallel=(k == "calcUbParallel"))
                        info["U0"] = R
                        if k == "calcUbParallel":
                            line = "ub calcUb none"
                            ub.calc_ub(*ids); out = "ok-unexpected"
                        else:
                            ub.calc_ub(*ids); line = "ub calcUb " + m2w(ub.U)
                elif k == "calcUbSingle":
                    # orientation from one reflection alone (the axis-angle construction)
                    if ub.crystal is None:
                        continue
                    ub.reflist.reflections.clear(); ub.orientlist.orientations.clear()
                    ub.add_reflection((rng.randint(-2, 2), rng.randint(-2, 2), rng.randint(1, 3)), Position(*[rng.uniform(5, 60) for _ in range(6)]), 12.0, "s1")
                    if rng.random() < 0.5:
                        ub.calc_ub()
                    else:
                        ub.calc_ub(rng.choice([1, "s1"]))
                    line = "ub calcUb " + m2w(ub.U)
                elif k == "refineUb":
                    if ub.crystal is None or ub.UB is None:
                        continue
                    fl, fu = rng.random() < 0.6, rng.random() < 0.6
                    pos = Position(*[rng.uniform(5, 60) for _ in range(6)])
                    hkl = (rng.randint(0, 2), rng.randint(0, 2), rng.randint(1, 3))
                    ub2 = copy.deepcopy(ub)
                    scale, lat = ub2._rescale_unit_cell(hkl, pos, 1.0)
                    newB = None
                    if scale and fl:
                        ub2.set_lattice(*lat); newB = np.array(ub2.crystal.B)
                    ang, ax = ub2.get_miscut_from_hkl(hkl, pos)
                    rot = rodrigues(ax, radians(ang)) if (ang and fu) else None
                    ub.refine_ub(hkl, pos, 1.0, fl, fu)
                    line = f"ub refineUb {m2w(newB)} {m2w(rot)}"; info.update(flags=(fl, fu))
                elif k == "fitUb":
                    if ub.crystal is None or ub.U is None:
                        continue
                    if not thorough and len(ub.crystal.get_lattice_params()[1]) != 6:
                        continue        # quick tier: the closed-form (triclinic) fit only; an SLSQP fit on random data can take seconds
                    ub.reflist.reflections.clear()
                    from diffcalc.hkl.geometry import get_rotation_matrices
                    B = ub.crystal.B
                    for i in range(6):
                        h = np.array([rng.randint(-2, 2), rng.randint(-2, 2), rng.randint(1, 3)], float)
                        ub.add_reflection(tuple(h), Position(*[rng.uniform(5, 60) for _ in range(6)]), 12.0, None)
                    fl, fu = rng.random() < 0.5, rng.random() < 0.5
                    new_u, new_lat = ub.fit_ub([1, 2, 3, 4, 5, 6], fl, fu)
                    line = f"ub fitUb {m2w(ub.crystal.B) if fl else 'none'} {m2w(new_u) if fu else 'none'}"
        except DiffcalcException:
            out = "dce"
        except (TypeError, ValueError):
            out = "typeErr"
        except Exception as e:  # noqa
            out = "EXC:" + type(e).__name__
        if line is None:
            continue
        if not record(line, ub, out, info):
            break
    return ub


def state3(ub):
    g = lambda m: None if m is None else np.asarray(m, float).flatten().tolist()
    return [g(ub.crystal.B) if ub.crystal is not None else None, g(ub.U), g(ub.UB)]


def correspondence(ctx):
    n = ctx.scale(150, 6000)
    lines, expect = [], []
    combos = set()

    def rec(line, ub, out, info):
        lines.append(line); expect.append((out, state3(ub), info))
        combos.add((line.split(" ")[1] if " " in line else line, out, ub.crystal is not None, ub.U is not None, ub.UB is not None))
        return True

    for _ in range(n):
        run_history(ctx.rng, 12, not ctx.quick, rec)
    ans = drive(lines)
    dis = 0
    for i, (a, (out, st, info)) in enumerate(zip(ans, expect)):
        parts = a.split(" | ")
        ok = len(parts) == 4 and parts[0] == out
        if ok:
            for p, e in zip(parts[1:], st):
                if e is None:
                    ok = ok and p == "none"
                else:
                    ok = ok and p != "none" and all(abs(h2f(t) - x) <= 1e-8 * (1 + abs(x)) for t, x in zip(p.split(" "), e))
        if not ok:
            dis += 1
            if dis <= 5:
                ctx.broke("correspondence", "UBState.lean vs UBCalculation",
                          f"op #{i} {lines[i][:60]} ({info and info.get('op')}): code -> {out} U={st[1] and [round(x, 6) for x in st[1]]} UB={st[2] and [round(x, 6) for x in st[2]]}; model -> {a[:300]}")
    ctx.stream("correspondence:ub-histories", len(lines), len(combos), histories=n, disagreements=dis)
    ctx.cov["traces_validated_against_impl"] = n
    ctx.sample({"ops": [l[:40] for l in lines[:6]]})


def oracle(ctx, widen=1):
    n = ctx.scale(150, 6000) * widen
    cases = [0]
    combos = set()

    def rec(line, ub, out, info):
        cases[0] += 1
        k = info["op"] if info else "reset"
        combos.add((k, out, ub.crystal is not None, ub.U is not None))
        bad = None
        if out.startswith("EXC") or out == "ok-unexpected":
            return True   # exception classes: C11 / C17
        if ub.U is not None:
            U = np.asarray(ub.U, float)
            if np.abs(U.T @ U - np.eye(3)).max() > 1e-8 or abs(np.linalg.det(U) - 1) > 1e-8:
                bad = f"after {k}: U is not a proper rotation (max|U^T U - 1| = {np.abs(U.T @ U - np.eye(3)).max():.2e}, det = {np.linalg.det(U):.6f})"
            elif ub.crystal is not None and (ub.UB is None or np.abs(np.asarray(ub.UB) - U @ ub.crystal.B).max() > 1e-8):
                bad = f"after {k}: stored UB " + ("is None although U and a lattice exist" if ub.UB is None else
                                                 f"differs from U.B(current lattice) by {np.abs(np.asarray(ub.UB) - U @ ub.crystal.B).max():.3e}")
        if not bad and k == "setMiscut" and out == "ok":
            axis = info["axis"] if info["axis"] is not None else (0, 1, 0)
            want = rodrigues(axis, radians(info["angle"]))
            if info["add"] and info["prevU"] is not None:
                want = want @ info["prevU"]
            if np.abs(np.asarray(ub.U) - want).max() > 1e-10:
                bad = f"set_miscut({info['axis']}, {info['angle']}, add={info['add']}) did not make U the right-handed rotation about the axis" + (" composed on the left of the previous U" if info["add"] else "")
        if not bad and k == "calcUb" and out == "ok":
            if np.abs(np.asarray(ub.U) - info["U0"]).max() > 1e-7:
                bad = "calc_ub did not recover the orientation the references are consistent with"
        if bad:
            ctx.violation(bad, {"line": line[:200], "info": {a: (np.asarray(b).tolist() if isinstance(b, np.ndarray) else b) for a, b in (info or {}).items()}},
                          {"kind": "ub-invariant", "op": k})
            return False
        return True

    for _ in range(n):
        run_history(ctx.rng, 12, not ctx.quick, rec)
    # get_miscut after set_miscut, axis perpendicular to the (lab-frame, unit) surface normal
    from diffcalc.ub.calc import UBCalculation
    m = ctx.scale(200, 5000) * widen
    for _ in range(m):
        ub = UBCalculation("t")
        phi = ctx.rng.uniform(0, 2 * math.pi)
        sn = rot_from_rotvec([ctx.rng.uniform(-1, 1) for _ in range(3)]) @ np.array([0, 0, 1.0]) if ctx.rng.random() < 0.5 else np.array([0, 0, 1.0])
        ub.surf_nphi = tuple(sn)
        e1 = np.cross(sn, [1.0, 0.3, 0.2]); e1 /= np.linalg.norm(e1); e2 = np.cross(sn, e1)
        axis = (cos(phi) * e1 + sin(phi) * e2) * ctx.rng.choice([1.0, 2.5])
        small = 10.0 ** ctx.rng.uniform(-4, -1.5)
        angle = ctx.rng.choice([ctx.rng.uniform(1, 179), 90.0, 45.0, small, small, 180.0 - small])      # incl. the small miscuts real samples have
        with quiet():
            ub.set_miscut(tuple(axis), angle)
        a, ax = ub.get_miscut()
        cases[0] += 1
        t = radians(angle)
        cond = 4e-16 / max(abs(sin(t)), 1e-12)          # acos near 0 / 180 deg loses this much (rad)
        if abs(a - angle) > 1e-6 + math.degrees(cond) or np.abs(ax.T[0] - axis / np.linalg.norm(axis)).max() > 1e-6 + 10 * cond:
            ctx.violation(f"get_miscut after set_miscut({axis.tolist()}, {angle}) with surface normal {sn.tolist()} returned angle {a}, axis {ax.T[0].tolist()}",
                          {"axis": axis.tolist(), "angle": angle, "surface": sn.tolist()}, {"kind": "get-miscut"})
    ctx.stream("oracle:ub-invariant", cases[0], len(combos), histories=n)


def replay(ctx, data):
    print(data["what"]); print(data["replay"])
    return 0
