"""C05 — pseudo-angles equal their geometric definitions and ignore vector length."""
import math
import numpy as np
from vlib import drive, quiet, h2f, angdiff
from harness.common import pseudo, mk_ub, rot_from_rotvec
from harness import pipeline as PL, solver as S

SPEC = {
    "gen": ["Rotations"],
    "modules": ["DiffcalcProofs.Props.C05", "DiffcalcProofs.Props.C05Geo", "DiffcalcProofs.Props.C05Psi", "DiffcalcProofs.Props.C11"],
    "theorems": {"DiffcalcProofs.Props.C05": [
        "C05.virtualAngles_scale_ref", "C05.virtualAngles_scale_surf", "C05.normalised_smul_pos", "C05.cos_ttheta_geometric",
        "C05.sin_beta_geometric", "C05.qaz_geometric"],
        "DiffcalcProofs.Props.C05Geo": ["C05.angleBetween_eq", "C05.betain_betaout_geometric"],
        "DiffcalcProofs.Props.C05Psi": ["C05.sHat_geometric", "C05.psi_identities", "C05.calcPsi_geometric", "C05.kfHat_eq_kfOf", "C05.unit_eq_nOf", "C05.psi_geometric"],
        "DiffcalcProofs.Props.C11": ["C11.virtualAngles_total"]},
    "level": "proof",
    "rule": "random positions over (-180,180]^6 and multiples of 30/45/90 deg, random UB (triclinic / cubic / hexagonal), reference and surface vectors set in "
            "the hkl frame or in the lab frame and multiplied by 0.1, 1, 2, 7; the model is compared with get_virtual_angles (NaN pattern and values); "
            "the oracle recomputes all ten pseudo-angles from first-principles vectors (k_i, k_f, q, Z n, Z s) away from the poles, and requires them to be identical for "
            "every scaling of either vector in either frame; distinct = distinct (frames, scale, position regime)",
    "assumptions": ["poles (theta in {0,90}, tau in {0,180}, |alpha| = 90) are outside the quantifier and skipped by the oracle"],
    "partial": "psi (eqs 25/28) is proved equal to the geometric azimuth atan2(-n.s, -n.e) on the branch where qaz and naz are defined (psi_geometric); on the fallback branch "
               "(naz undefined: reference along the beam axis) only |psi| is produced by the code and the equality is checked by the oracle; tau/alpha/naz read off the definitions directly",
}


ASIN_DEFINED = {"alpha", "beta", "betain", "betaout"}
ACOS_DEFINED = {"tau", "theta", "ttheta"}


def differs(k, a, b, tol=1e-6):
    """angles (deg) differ by more than tol — except at the turning point of the defining asin/acos, where one ulp of the
    sine/cosine is ~1e-6 deg of angle: there (and only within 2e-5 deg of each other) the sine/cosine itself is compared"""
    d = angdiff(a, b)
    if d <= tol:
        return False
    if d > 2e-5:
        return True
    if k in ASIN_DEFINED and abs(math.sin(math.radians(a)) - math.sin(math.radians(b))) < 1e-12:
        return False
    if (k in ACOS_DEFINED or k == "psi") and abs(math.cos(math.radians(a)) - math.cos(math.radians(b))) < 1e-12:
        return False
    return True


AXIS_VECS = [(1, 0, 0), (0, 1, 0), (0, 0, 1), (-1, 0, 0), (0, 0, -1), (1, 1, 0), (0, 1, 1)]


def setup(rng):
    ub, kind = PL.rand_ub(rng, rng.choice(["triclinic", "hex", "cubicI"]))
    v = np.array([rng.uniform(-1, 1) for _ in range(3)]); w = np.array([rng.uniform(-1, 1) for _ in range(3)])
    if rng.random() < 0.3:      # reference / surface along crystal or goniometer axes: in the scattering plane or normal to it for the 4-circle positions
        v = np.array(rng.choice(AXIS_VECS), float); w = np.array(rng.choice(AXIS_VECS), float)
    if np.linalg.norm(v) < 0.2: v = np.array([0.3, 0.2, 1.0])
    if np.linalg.norm(w) < 0.2: w = np.array([0.1, 1.0, 0.2])
    frames = (rng.choice(["hkl", "phi"]), rng.choice(["hkl", "phi"]))
    return ub, v, w, frames


def apply_vectors(ub, v, w, frames, k1, k2):
    setattr(ub, "n_hkl" if frames[0] == "hkl" else "n_phi", tuple(float(x) for x in v * k1))
    setattr(ub, "surf_nhkl" if frames[1] == "hkl" else "surf_nphi", tuple(float(x) for x in w * k2))


def rand_pos(rng):
    r = rng.random()
    if r < 0.25:
        return [float(rng.choice(PL.SPECIAL)) for _ in range(6)], "special"
    if r < 0.45:
        return [float(x) for x in PL.semi_special_position(rng)], "semi-special"
    return [rng.uniform(-180, 180) for _ in range(6)], "generic"


def correspondence(ctx):
    from diffcalc.hkl.calc import HklCalculation
    from diffcalc.hkl.constraints import Constraints
    from diffcalc.hkl.geometry import Position
    lines, exp = [], []
    kinds = set()
    for _ in range(ctx.scale(300, 30000)):
        ub, v, w, frames = setup(ctx.rng)
        k1, k2 = ctx.rng.choice([0.1, 1, 2, 7]), ctx.rng.choice([0.1, 1, 2, 7])
        apply_vectors(ub, v, w, frames, k1, k2)
        pos, regime = rand_pos(ctx.rng)
        kinds.add((frames, k1, k2, regime))
        try:
            with quiet():
                va = HklCalculation(ub, Constraints()).get_virtual_angles(Position(*pos))
            exp.append(("ok", va))
        except Exception as e:  # noqa
            exp.append((type(e).__name__, None))
        lines.append(S.va_line(ub, pos))
    ans = drive(lines)
    dis = 0
    for l, a, e in zip(lines, ans, exp):
        ok = True
        if e[0] == "ok":
            ok = a.startswith("ok ")
            if ok:
                vals = [float("nan") if t == "nan" else h2f(t) for t in a.split(" ")[1:]]
                for k, v in zip(S.VA_KEYS, vals):
                    wv = e[1][k]
                    if math.isnan(v) != math.isnan(wv) or (not math.isnan(v) and differs(k, v, wv)):
                        ok = False
        else:
            ok = a == e[0]
        if not ok:
            dis += 1
            if dis <= 3:
                ctx.broke("correspondence", "Solver.virtualAngles vs get_virtual_angles", f"code -> {e}; model -> {a[:300]}")
    ctx.stream("correspondence:get_virtual_angles", len(lines), len(kinds), disagreements=dis)
    ctx.cov["traces_validated_against_impl"] = len(lines)
    ctx.sample({"request": lines[0][:120], "answer": ans[0][:160]})


def oracle(ctx, widen=1):
    from diffcalc.hkl.calc import HklCalculation
    from diffcalc.hkl.constraints import Constraints
    from diffcalc.hkl.geometry import Position
    n = ctx.scale(300, 30000) * widen
    kinds = set()
    for it in range(n):
        ub, v, w, frames = setup(ctx.rng)
        pos, regime = rand_pos(ctx.rng)
        if ctx.rng.random() < 0.15:
            # reference (or surface) direction a hair off the beam axis at this position: just outside the pole of naz / psi
            from harness.common import mats
            Zm = mats(pos)[2]
            t = math.radians(10.0 ** ctx.rng.uniform(-4.5, -0.5)); a = ctx.rng.uniform(0, 2 * math.pi)
            nl = np.array([math.sin(t) * math.cos(a), ctx.rng.choice([1.0, -1.0]) * math.cos(t), math.sin(t) * math.sin(a)])
            vec = Zm.T @ nl
            if frames[0] == "hkl":
                vec = np.linalg.solve(np.asarray(ub.UB, float), vec)
            v = vec * ctx.rng.choice([1.0, 0.3, 4.0])
            regime = regime + ":near-beam-axis"
        hc = HklCalculation(ub, Constraints())
        base = None
        bad = None
        for k1, k2 in ((1, 1), (2, 1), (0.1, 7), (7, 0.1), (1, 2), (3e-8, 1), (1, 1e-9), (2e5, 4e6)):      # any positive length
            apply_vectors(ub, v, w, frames, k1, k2)
            kinds.add((frames, k1, k2, regime))
            nphi, sphi = PL.vectors(ub)         # the vectors as set, read before anything else happens
            if ctx.rng.random() < 0.3:
                # a second calculation made from this one (shallow copy) is given other vectors, in the other frames: none of this one's business
                import copy as _copy
                ub2 = _copy.copy(ub)
                if frames[0] == "hkl":
                    ub2.n_phi = (0.1, 0.7, -0.3)
                else:
                    ub2.n_hkl = (1, -2, 0.5)
                if frames[1] == "hkl":
                    ub2.surf_nphi = (0.4, -0.2, 0.9)
                else:
                    ub2.surf_nhkl = (0.3, 1, -1)
                kinds.add((frames, k1, k2, regime, "shallow-copy"))
            try:
                with quiet():
                    va = hc.get_virtual_angles(Position(*pos))
            except Exception as e:  # noqa
                bad = f"raised {type(e).__name__}: {str(e)[:80]} with the reference vector x{k1} ({frames[0]} frame) and the surface vector x{k2} ({frames[1]} frame)"
                break
            pp = pseudo(nphi, sphi, pos)
            th = math.radians(pp["theta"])
            skip = set()
            if abs(math.sin(2 * th)) < 1e-4:
                skip |= {"qaz", "psi", "naz", "tau", "beta"}
            if abs(math.cos(math.radians(pp.get("alpha", 0.0)))) < 2e-6:      # the code's own pole: |cos alpha| <= 1e-7
                skip |= {"naz", "psi"}
            if abs(math.sin(math.radians(pp.get("tau", 90.0)))) < 1e-4:
                skip |= {"psi"}
            for k, val in va.items():
                if k in skip or k not in pp:
                    continue
                if math.isnan(val):
                    bad = f"{k} is reported as NaN although it is defined there (geometric definition: {pp[k]:.8f}; vectors x{k1}/x{k2}, frames {frames})"
                    break
                if differs(k, val, pp[k], 1e-6 if k not in ("naz", "psi") else max(1e-6, 2e-9 / max(abs(math.cos(math.radians(pp.get("alpha", 0.0)))), 1e-12))):
                    bad = f"{k} = {val:.8f} but the geometric definition gives {pp[k]:.8f} (vectors x{k1}/x{k2}, frames {frames})"
                    break
            if bad:
                break
            if base is None:
                base = va
            else:
                for k in va:
                    a, b = base[k], va[k]
                    if math.isnan(a) != math.isnan(b) or (not math.isnan(a) and differs(k, a, b, 1e-7)):
                        bad = f"{k} changes from {a} to {b} when the reference vector is scaled by {k1} and the surface vector by {k2} (frames {frames})"
                        break
            if bad:
                break
        if bad:
            ctx.violation(f"get_virtual_angles at {tuple(round(x, 4) for x in pos)}: {bad}",
                          {"pos": pos, "reference": v.tolist(), "surface": w.tolist(), "frames": list(frames), "UB": np.asarray(ub.UB).tolist()},
                          {"kind": "pseudo-angle", "what": bad.split(" ")[0]})
    ctx.stream("oracle:geometric-definitions", n * 8, len(kinds))
    # one HklCalculation object, already used, then the UB matrix or the vectors change: the angles must follow the CURRENT state
    nseq = ctx.scale(120, 6000) * widen
    kinds2 = set()
    for it in range(nseq):
        ub, v, w, frames = setup(ctx.rng)
        apply_vectors(ub, v, w, frames, 1, 1)
        hc = HklCalculation(ub, Constraints())
        pos, regime = rand_pos(ctx.rng)
        bad = None
        try:
            with quiet():
                hc.get_virtual_angles(Position(*pos))
                change = ctx.rng.choice(["set_u", "set_lattice", "set_lattice_named", "set_ub", "set_miscut", "calc_ub", "refine_ub", "vectors-other-frame"])
                if change == "set_u":
                    ub.set_u(rot_from_rotvec([ctx.rng.uniform(-2, 2) for _ in range(3)]))
                elif change == "set_lattice":
                    ub.set_lattice("y", 5.3, 4.4, 7.1, 85, 99, 93)
                elif change == "set_lattice_named":
                    ub.set_lattice("y", "Hexagonal", 3.3, 5.6)
                elif change == "set_ub":
                    ub.set_ub(rot_from_rotvec([ctx.rng.uniform(-2, 2) for _ in range(3)]) @ np.asarray(ub.crystal.B))
                elif change == "set_miscut":
                    ub.set_miscut((0.3, 1.0, -0.2), 7.0, True)
                elif change == "calc_ub":
                    B = np.asarray(ub.crystal.B, float); U0 = rot_from_rotvec([ctx.rng.uniform(-2, 2) for _ in range(3)])
                    for h in ((1, 0, 0), (0, 1, 1)):
                        ub.add_orientation(h, tuple(float(x) for x in U0 @ B @ np.array(h, float)))
                    ub.calc_ub()
                elif change == "refine_ub":
                    ub.refine_ub((1, 0, 1), Position(0, 35, 5, 12, 40, 20), 1.0, True, True)
                else:
                    # the same coordinates, now meant in the other frame
                    setattr(ub, "n_phi" if frames[0] == "hkl" else "n_hkl", tuple(float(x) for x in v))
                    setattr(ub, "surf_nphi" if frames[1] == "hkl" else "surf_nhkl", tuple(float(x) for x in w))
                va = hc.get_virtual_angles(Position(*pos))
        except Exception as e:  # noqa
            bad = f"raised {type(e).__name__}: {str(e)[:80]}"
            va = None
            change = "?"
        kinds2.add((change, regime))
        if va is not None:
            nphi, sphi = PL.vectors(ub)
            pp = pseudo(nphi, sphi, pos)
            th = math.radians(pp["theta"])
            skip = set()
            if abs(math.sin(2 * th)) < 1e-4:
                skip |= {"qaz", "psi", "naz", "tau", "beta"}
            if abs(math.cos(math.radians(pp.get("alpha", 0.0)))) < 1e-4:
                skip |= {"naz", "psi"}
            if abs(math.sin(math.radians(pp.get("tau", 90.0)))) < 1e-4:
                skip |= {"psi"}
            for k, val in va.items():
                if k in skip or k not in pp or math.isnan(val):
                    continue
                if differs(k, val, pp[k]):
                    bad = f"{k} = {val:.8f} but the geometric definition with the CURRENT UB and vectors gives {pp[k]:.8f}"
                    break
        if bad:
            ctx.violation(f"get_virtual_angles at {tuple(round(x, 4) for x in pos)} on a calculator used before `{change}`: {bad}",
                          {"pos": pos, "change": change, "frames": list(frames)}, {"kind": "pseudo-angle-after-change", "change": change})
    ctx.stream("oracle:after-state-change", nseq, len(kinds2))


def replay(ctx, data):
    print(data["what"]); print(data["replay"]); return 0
