"""C14 — serialisation round trips preserve the calculator's behaviour."""
import copy, json, math, os, pickle, tempfile
import numpy as np
from vlib import drive, f2h, h2f, quiet
from harness.common import NAMES, VOID, rot_from_rotvec
from harness import solver as S

SPEC = {
    "gen": ["Crystal"],
    "modules": ["DiffcalcProofs.Props.C14", "DiffcalcProofs.Props.C10Bulk"],
    "theorems": {"DiffcalcProofs.Props.C14": [
        "C14.pos_roundtrip", "C14.refl_roundtrip", "C14.orient_roundtrip", "C14.cellOfSystem_valid", "C14.cellOfSix_valid", "C14.crystal_roundtrip",
        "C14.refVec_roundtrip", "C14.mat_roundtrip", "C14.ub_roundtrip", "C14.cons_roundtrip", "C14.hkl_roundtrip", "C14.hkl_dict_stable"],
        "DiffcalcProofs.Props.C10Bulk": ["C10.wt_history", "C10.bulk_roundtrip"]},
    "level": "proof",
    "rule": "calculator states reached through the public API: no lattice / every call form of set_lattice in all seven systems; 0-3 reflections and orientations, "
            "tagged and untagged, general positions; reference and surface vectors given in either frame; U/UB absent, set by set_u, set_ub (before or after the "
            "lattice), calc_ub, set_miscut; constraint sets of 0-3 members incl. VOID ones, built by histories with replacements. For every state the model's asdict of "
            "the real object's raw attributes is compared with the real dictionary (after json dump/load), the model's fromdict of that dictionary with the raw "
            "attributes of the rebuilt real object, and malformed dictionaries (missing / unknown keys, unknown constraint, over-full constraint set) must raise on "
            "both sides. Oracle: fromdict directly, after JSON, pickle.dumps/loads and UBCalculation.pickle/load; rebuilt object serialises to an equal dictionary "
            "(1e-9 relative) and answers get_hkl / get_virtual_angles / get_position like the original; distinct = distinct (lattice form, U/UB provenance, list sizes, "
            "tag pattern, vector frames, constraint-set shape)",
    "assumptions": ["pickle is trusted (CPython); it is exercised by the oracle only",
                    "leaf types other than those asdict produces are outside the model (fromdict of a hand-written dictionary with, say, a string for h)"],
    "partial": "the theorems are at the real reading (radians(degrees x) = x); in floating point the round trip is exact up to rounding of the degree/radian conversion, "
               "which the tie checks to 1e-9",
}

LATT = [None, (4.0,), (4.0, 6.0), (3.0, 4.0, 5.0), (4.1, 5.2, 6.3, 100.0), (3.0, 3.0, 5.0, 120), (4.1, 5.2, 6.3, 80, 95, 100),
        ("Cubic", 5.0), ("Tetragonal", 4.0, 6.0), ("Hexagonal", 3.0, 5.0), ("Orthorhombic", 3.0, 4.0, 5.0), ("Rhombohedral", 4.0, 75.0),
        ("Monoclinic", 4.0, 5.0, 6.0, 100.0), ("Triclinic", 4.1, 5.2, 6.3, 80, 95, 100),
        # the same kinds of cell typed in whole numbers (Python ints)
        (4,), (3, 4, 5), (4, 5, 6, 100), (4, 5, 6, 80, 95, 100), ("Hexagonal", 3, 5), ("Rhombohedral", 4, 75), ("Triclinic", 4, 5, 6, 80, 95, 100)]
TAGS = ["a", "refl one", "t-2", "é", ""]


def rev_keys(x):
    """the same JSON value with the members of every object in the opposite order"""
    if isinstance(x, dict):
        return {k: rev_keys(x[k]) for k in reversed(list(x))}
    if isinstance(x, list):
        return [rev_keys(v) for v in x]
    return x


def rand_pos(rng):
    from diffcalc.hkl.geometry import Position
    k = rng.random()
    if k < 0.15:
        return Position()
    return Position(rng.uniform(-40, 40), rng.uniform(5, 120), rng.uniform(-60, 60), rng.uniform(-90, 90), rng.uniform(-90, 90), rng.uniform(-180, 180))


_PROV_TURN = [0]


def gen_state(rng):
    """-> (HklCalculation, descriptor tuple)"""
    from diffcalc.ub.calc import UBCalculation
    from diffcalc.hkl.calc import HklCalculation
    from diffcalc.hkl.constraints import Constraints
    with quiet():
        ub = UBCalculation(rng.choice(["ub", "my calc", "x" * 3]))
        lat = rng.choice(LATT)
        # how the calculation came by its U / UB: every provenance in turn (none is left to chance in a short run), then at random
        PROV = ["none", "set_u", "set_ub", "ub_then_lattice", "calc_ub", "miscut", "set_ub_nolattice", "set_ub_othercell", "set_u_sheared"]
        _PROV_TURN[0] += 1
        prov = PROV[_PROV_TURN[0] % len(PROV)] if _PROV_TURN[0] % 2 == 0 else rng.choice(PROV)
        if prov == "ub_then_lattice":
            ub.set_ub((rot_from_rotvec([rng.uniform(-1, 1) for _ in range(3)]) * rng.uniform(0.9, 1.7)).tolist())
        if lat is not None and prov != "set_ub_nolattice":
            ub.set_lattice("cryst " + str(len(lat)), *lat)
        else:
            lat = None
        nr, no = rng.choice([0, 0, 1, 2, 3]), rng.choice([0, 0, 1, 2, 3])
        tagpat = []
        for i in range(nr):
            tag = rng.choice(TAGS) if rng.random() < 0.5 else None
            tagpat.append(tag is None)
            ub.add_reflection((rng.randint(-3, 3), rng.uniform(-2, 2), rng.randint(0, 4)), rand_pos(rng), rng.choice([12.0, 8.05, 12.39842]), tag)
        for i in range(no):
            tag = rng.choice(TAGS) if rng.random() < 0.5 else None
            tagpat.append(tag is None)
            xyz = (rng.uniform(-1, 1), rng.uniform(-1, 1), rng.uniform(0.1, 1))
            hkl = (rng.randint(-2, 2), rng.randint(-2, 2), rng.randint(1, 3))
            if rng.random() < 0.4:
                ub.add_orientation(hkl, xyz, None, tag)
            else:
                ub.add_orientation(hkl, xyz, rand_pos(rng), tag)
        if lat is not None:
            if prov == "set_u":
                ub.set_u(rot_from_rotvec([rng.uniform(-2, 2) for _ in range(3)]))
            elif prov == "set_ub":
                ub.set_ub(rot_from_rotvec([rng.uniform(-2, 2) for _ in range(3)]) @ np.asarray(ub.crystal.B) * rng.uniform(0.8, 1.2))
            elif prov == "set_ub_othercell":
                # a UB imported from a refinement of a slightly different cell: the U the calculation stores is then not a rotation
                M = np.asarray(ub.crystal.B, float) @ np.diag([1.004, 0.993, 1.009]) + np.array([[0, 0.01, 0], [0, 0, -0.008], [0, 0, 0]])
                ub.set_ub(rot_from_rotvec([rng.uniform(-2, 2) for _ in range(3)]) @ M)
            elif prov == "set_u_sheared":
                ub.set_u(rot_from_rotvec([rng.uniform(-2, 2) for _ in range(3)]) @ (np.eye(3) + np.array([[0, 0.02, 0], [0, 0, 0.01], [0, 0, 0]])))
            elif prov == "calc_ub":
                try:
                    ub.calc_ub()
                except Exception:  # noqa — not enough / parallel references: U stays None
                    pass
            elif prov == "miscut":
                ub.set_miscut((rng.uniform(-1, 1), rng.uniform(-1, 1), 0.3), math.radians(rng.uniform(0.1, 5)))
        elif prov == "set_ub_nolattice":
            ub.set_ub((rot_from_rotvec([rng.uniform(-1, 1) for _ in range(3)]) * 1.5).tolist())
        frames = []
        for attr_h, attr_p in (("n_hkl", "n_phi"), ("surf_nhkl", "surf_nphi")):
            k = rng.choice(["default", "hkl", "phi", "hkl", "phi", "array-int", "array-float", "ints"])
            frames.append(k)
            v = (rng.uniform(-1, 1), rng.uniform(-1, 1), rng.uniform(0.2, 1))
            if k == "hkl":
                setattr(ub, attr_h, v)
            elif k == "phi":
                setattr(ub, attr_p, v)
            elif k in ("array-int", "array-float"):
                # through ReferenceVector.set_array with a (3, 1) array, integer or float dtype
                rv = ub.reference if attr_h == "n_hkl" else ub.surface
                arr = np.array([[rng.randint(-2, 2)], [rng.randint(-2, 2)], [rng.randint(1, 3)]], dtype=(int if k == "array-int" else float))
                rv.set_array(arr)
            else:
                # Python ints are numbers too (numpy scalars handed to the tuple setters are outside the declared Tuple[float, float, float])
                setattr(ub, rng.choice([attr_h, attr_p]), (rng.randint(-2, 2), rng.randint(-2, 2), rng.randint(1, 3)))
        c = Constraints()
        shape = rng.choice(["empty", "one", "two", "mode", "void", "history"])
        try:
            if shape == "one":
                setattr(c, rng.choice(["mu", "qaz", "psi", "chi"]), rng.uniform(-80, 80))
            elif shape == "two":
                c.delta = rng.uniform(0, 60); c.chi = rng.uniform(-90, 90)
            elif shape == "mode":
                tr = rng.choice(S.implemented_modes())
                for n in tr:
                    setattr(c, n, True if n in VOID else rng.choice([0.0, 90.0, rng.uniform(-90, 90)]))
            elif shape == "void":
                c.a_eq_b = True; c.bisect = True; c.qaz = 90
            elif shape == "history":
                for _ in range(rng.randint(3, 10)):
                    n = rng.choice(NAMES)
                    try:
                        setattr(c, n, True if n in VOID else rng.uniform(-90, 90))
                    except Exception:  # noqa
                        pass
                    if rng.random() < 0.2:
                        delattr(c, rng.choice(NAMES))
        except Exception:  # noqa
            pass
        hc = HklCalculation(ub, c)
    desc = (None if lat is None else (len(lat), isinstance(lat[0], str)), prov, nr, no, tuple(tagpat), tuple(frames), shape)
    return hc, desc


# ---------------- raw attribute dump and wire encoding

def raw_ub(ub):
    def pos(p): return [p._mu, p._delta, p._nu, p._eta, p._chi, p._phi]
    cr = ub.crystal
    return {
        "name": ub.name,
        "crystal": None if cr is None else {"name": cr.name, "system": cr.system, "cell": [cr.a1, cr.a2, cr.a3, cr.alpha1, cr.alpha2, cr.alpha3]},
        "refl": [{"h": r.h, "k": r.k, "l": r.l, "pos": pos(r.pos), "energy": r.energy, "tag": r.tag} for r in ub.reflist.reflections],
        "orient": [{"h": o.h, "k": o.k, "l": o.l, "x": o.x, "y": o.y, "z": o.z, "pos": pos(o.pos), "tag": o.tag} for o in ub.orientlist.orientations],
        "reference": {"n": list(ub.reference.n_ref), "rlv": bool(ub.reference.rlv)},
        "surface": {"n": list(ub.surface.n_ref), "rlv": bool(ub.surface.rlv)},
        "U": None if ub.U is None else np.asarray(ub.U, float).tolist(),
        "UB": None if ub.UB is None else np.asarray(ub.UB, float).tolist(),
    }


def raw_hkl(hc):
    cons = {}
    for con in hc.constraints._all:
        if con.value is not None:
            cons[con.name] = True if con.value is True else float(con.value)
    return {"ub": raw_ub(hc.ubcalc), "cons": cons}


def enc(j):
    if j is None: return "null"
    if j is True: return "T"
    if j is False: return "F"
    if isinstance(j, (int, float, np.floating, np.integer)): return "n" + f2h(float(j))
    if isinstance(j, str): return "s" + j.encode("utf-8").hex()
    if isinstance(j, (list, tuple)): return "[ " + " ".join(enc(x) for x in j) + (" ]" if len(j) else "]")
    if isinstance(j, dict): return "{ " + " ".join("s" + k.encode("utf-8").hex() + " " + enc(v) for k, v in j.items()) + (" }" if len(j) else "}")
    raise TypeError(type(j))


def dec(tokens):
    """tokens -> python value"""
    it = iter(tokens)
    def val(t):
        if t == "null": return None
        if t == "T": return True
        if t == "F": return False
        if t == "[":
            out = []
            for u in it:
                if u == "]": return out
                out.append(val(u))
        if t == "{":
            out = {}
            for u in it:
                if u == "}": return out
                out[bytes.fromhex(u[1:]).decode("utf-8")] = val(next(it))
        if t[0] == "n": return h2f(t[1:])
        if t[0] == "s": return bytes.fromhex(t[1:]).decode("utf-8")
        raise ValueError(t)
    return val(next(it))


def same(a, b, tol=1e-9, path=""):
    """structural comparison; returns None or the first differing path"""
    if isinstance(a, bool) or isinstance(b, bool) or a is None or b is None:
        return None if (a is b) else f"{path}: {a!r} vs {b!r}"
    if isinstance(a, (int, float)) and isinstance(b, (int, float)):
        if (math.isnan(a) and math.isnan(b)) or abs(a - b) <= tol * (1 + abs(b)):
            return None
        return f"{path}: {a!r} vs {b!r}"
    if isinstance(a, str) and isinstance(b, str):
        return None if a == b else f"{path}: {a!r} vs {b!r}"
    if isinstance(a, (list, tuple)) and isinstance(b, (list, tuple)):
        if len(a) != len(b): return f"{path}: length {len(a)} vs {len(b)}"
        for i, (x, y) in enumerate(zip(a, b)):
            r = same(x, y, tol, f"{path}[{i}]")
            if r: return r
        return None
    if isinstance(a, dict) and isinstance(b, dict):
        if list(a.keys()) != list(b.keys()):
            if set(a.keys()) != set(b.keys()): return f"{path}: keys {sorted(a)} vs {sorted(b)}"
        for k in a:
            r = same(a[k], b[k], tol, f"{path}.{k}")
            if r: return r
        return None
    return f"{path}: {type(a).__name__} vs {type(b).__name__}"


def malform(rng, d):
    """a dictionary on which fromdict must raise; returns (dict, what) or None"""
    d = copy.deepcopy(d)
    try:
        return _malform(rng, d)
    except (KeyError, IndexError, TypeError, AttributeError):
        return None     # the dictionary does not have the usual shape: nothing to malform


def _malform(rng, d):
    ub = d["ubcalc"]
    k = rng.choice(["no-name", "no-tag-r", "no-tag-o", "no-rlv", "pos-extra", "cryst-extra", "bad-system", "bad-cons", "four-cons", "no-ubcalc", "no-umatrix", "ref-extra", "no-energy"])
    if k == "no-name": del ub["name"]
    elif k == "no-tag-r":
        if not ub["reflist"]: return None
        del ub["reflist"][0]["tag"]
    elif k == "no-energy":
        if not ub["reflist"]: return None
        del ub["reflist"][-1]["energy"]
    elif k == "no-tag-o":
        if not ub["orientlist"]: return None
        del ub["orientlist"][-1]["tag"]
    elif k == "no-rlv": del ub["surface"]["rlv"]
    elif k == "ref-extra": ub["reference"]["frame"] = "lab"
    elif k == "pos-extra":
        if not ub["reflist"]: return None
        ub["reflist"][0]["pos"]["omega"] = 1.0
    elif k == "cryst-extra":
        if ub["crystal"] is None: return None
        ub["crystal"]["volume"] = 1.0
    elif k == "bad-system":
        if ub["crystal"] is None: return None
        ub["crystal"]["system"] = "Quasicrystal"
    elif k == "bad-cons": d["constraints"] = dict(d["constraints"], gamma=3.0)
    elif k == "four-cons": d["constraints"] = {"mu": 1.0, "eta": 2.0, "chi": 3.0, "phi": 4.0}
    elif k == "no-ubcalc": del d["ubcalc"]
    elif k == "no-umatrix": del ub["u_matrix"]
    return d, k


def correspondence(ctx):
    from diffcalc.hkl.calc import HklCalculation
    n = ctx.scale(150, 6000)
    lines, checks, kinds = [], [], set()
    for _ in range(n):
        hc, desc = gen_state(ctx.rng)
        kinds.add(desc)
        d = json.loads(json.dumps(hc.asdict))
        lines.append("ser.asdict hkl " + enc(raw_hkl(hc)))
        checks.append(("asdict", d, desc))
        lines.append("ser.fromdict hkl " + enc(d))
        try:
            with quiet():
                rebuilt = HklCalculation.fromdict(d)
            checks.append(("fromdict", raw_hkl(rebuilt), desc))
        except Exception as e:  # noqa
            checks.append(("fromdict-raised", f"{type(e).__name__}: {str(e)[:60]}", desc))
        m = malform(ctx.rng, d)
        if m:
            try:
                with quiet():
                    HklCalculation.fromdict(m[0])
                outcome = "accepted"
            except Exception:  # noqa
                outcome = "raise"
            lines.append("ser.fromdict hkl " + enc(m[0]))
            checks.append(("malformed:" + m[1], outcome, desc))
    ans = drive(lines)
    dis = 0
    for l, a, (what, expect, desc) in zip(lines, ans, checks):
        bad = None
        if what.startswith("malformed"):
            got = "raise" if a == "raise" else ("accepted" if a.startswith("ok ") else a)
            if got != expect:
                bad = f"{what}: code -> {expect}; model -> {got}"
        elif what == "fromdict-raised":
            if a != "raise":
                bad = f"fromdict of the object's own dictionary raised {expect} in the code; the model rebuilds the state"
        elif not a.startswith("ok "):
            bad = f"{what}: model answered {a[:40]}"
        else:
            r = same(dec(a.split(" ")[1:]), expect)
            if r:
                bad = f"{what} differs at {r} (model vs code)"
        if bad:
            dis += 1
            if dis <= 4:
                ctx.broke("correspondence", "Serial.lean asDict/fromDict vs asdict/fromdict", f"state {desc}: {bad}")
    ctx.stream("correspondence:serial", len(lines), len(kinds), disagreements=dis)
    ctx.cov["traces_validated_against_impl"] = n
    ctx.sample({"request": lines[0][:120], "answer": ans[0][:80]})


def query_all(hc, rng_positions, hkls):
    """answers of a battery of queries, canonicalised"""
    from diffcalc.hkl.geometry import Position
    out = []
    with quiet():
        for p in rng_positions:
            for f in ("get_hkl", "get_virtual_angles"):
                try:
                    r = getattr(hc, f)(Position(*p), 1.0) if f == "get_hkl" else hc.get_virtual_angles(Position(*p))
                    out.append(("ok", [float(x) for x in r] if f == "get_hkl" else {k: float(v) for k, v in r.items()}))
                except Exception as e:  # noqa
                    out.append((type(e).__name__,))
        for h in hkls:
            r = S.run_impl("full", hc, h, 1.0)
            out.append(r if r[0] == "ok" else (r[0],))
    return out


def same_answers(A, B):
    for i, (a, b) in enumerate(zip(A, B)):
        if a[0] != b[0]:
            return f"query {i}: {a[0]} vs {b[0]}"
        if a[0] == "ok":
            if isinstance(a[1], list) and a[1] and isinstance(a[1][0], tuple):
                if not S.same_solution_sets(a[1], b[1], 1e-6):
                    return f"query {i}: different get_position solution sets"
            else:
                r = same(a[1], b[1], 1e-7, f"query {i}")
                if r: return r
    return None


def oracle(ctx, widen=1):
    from diffcalc.hkl.calc import HklCalculation
    from diffcalc.ub.calc import UBCalculation
    n = ctx.scale(120, 4000) * widen
    kinds = set()
    tmpdir = tempfile.mkdtemp(prefix="c14_")
    os.makedirs(os.path.join(tmpdir, "sub"))
    cwd0 = os.getcwd()
    try:
        os.chdir(tmpdir)
        for i in range(n):
            hc, desc = gen_state(ctx.rng)
            kinds.add(desc)
            positions = [(ctx.rng.uniform(-10, 10), ctx.rng.uniform(10, 100), ctx.rng.uniform(-30, 30), ctx.rng.uniform(-90, 90), ctx.rng.uniform(-90, 90), ctx.rng.uniform(-180, 180)) for _ in range(2)]
            hkls = [(1, 0, 0), (ctx.rng.uniform(-1, 1), ctx.rng.uniform(-1, 1), ctx.rng.uniform(0.2, 1.2))]
            bad = None
            try:
                d = hc.asdict
                text = json.dumps(d)
            except Exception as e:  # noqa
                bad = f"asdict is not JSON-serialisable: {type(e).__name__}: {e}"
            if not bad:
                ref = query_all(hc, positions, hkls)
                routes = []
                try:
                    with quiet():
                        routes.append(("fromdict", HklCalculation.fromdict(d)))
                        routes.append(("json+fromdict", HklCalculation.fromdict(json.loads(text))))
                        # a JSON object is an unordered collection: a store that sorts or otherwise re-orders the keys hands back the same dictionary
                        routes.append(("json(sort_keys)+fromdict", HklCalculation.fromdict(json.loads(json.dumps(d, sort_keys=True)))))
                        routes.append(("json(keys reversed)+fromdict", HklCalculation.fromdict(rev_keys(json.loads(text)))))
                        routes.append(("pickle", pickle.loads(pickle.dumps(hc))))
                        # the same file name is used again and again, as a session file is: absolute, relative to the working directory, or not normalised
                        fn = [os.path.join(tmpdir, "ub.pkl"), "ub.pkl", os.path.join(".", "sub", "..", "ub2.pkl")][i % 3]
                        hc.ubcalc.pickle(fn)
                        routes.append(("UBCalculation.pickle/load", HklCalculation(UBCalculation.load(fn), pickle.loads(pickle.dumps(hc.constraints)))))
                        routes.append(("ub.fromdict", HklCalculation(UBCalculation.fromdict(json.loads(json.dumps(hc.ubcalc.asdict))), type(hc.constraints)(json.loads(json.dumps(hc.constraints.asdict))))))
                except Exception as e:  # noqa
                    bad = f"rebuilding after {len(routes)} routes raised {type(e).__name__}: {str(e)[:80]}"
                if not bad:
                    for name, rb in routes:
                        r = same(json.loads(json.dumps(rb.asdict)), json.loads(text))
                        if r:
                            bad = f"{name}: rebuilt object serialises differently at {r}"; break
                        r = same_answers(query_all(rb, positions, hkls), ref)
                        if r:
                            bad = f"{name}: rebuilt object answers differently: {r}"; break
            if bad:
                ctx.violation(f"state {desc}: {bad}", {"desc": repr(desc), "dict": json.loads(json.dumps(hc.asdict)) if "JSON" not in bad else None},
                              {"kind": "serial-roundtrip", "what": bad.split(":")[0][:40]})
    finally:
        import shutil
        os.chdir(cwd0)
        shutil.rmtree(tmpdir, ignore_errors=True)
    ctx.stream("oracle:serial-roundtrip", n, len(kinds))


def replay(ctx, data):
    print(data["what"]); print(data["replay"]); return 0
