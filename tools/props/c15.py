"""C15 — refinement makes the calculator reproduce the reflections it was given."""
import math
import numpy as np
from math import radians, degrees, pi
from vlib import drive, f2h, h2f, quiet
from harness.common import rot_from_rotvec, Rx, Ry, Rz, fwd

SPEC = {
    "gen": ["Crystal", "GetHkl", "Rotations"],
    "modules": ["DiffcalcProofs.Props.C15"],
    "theorems": {"DiffcalcProofs.Props.C15": []},   # filled from THEOREMS below
    "level": "proof",
    "rule": "refine_ub: all seven crystal systems x start lattices x start orientations (incl. more than 90 deg off) x hkl with every zero pattern "
            "(one, two or no zero indices; integer and fractional) x arbitrary six-circle positions x wavelengths x the four flag combinations; the model "
            "(rescale factor, scaled axes, set_lattice call, miscut angle/axis, Rodrigues rotation, set_u) is compared with the resulting cell, U and UB; oracle: "
            "with both flags get_hkl(position) = hkl to 1e-6. fit_ub: per system a true lattice/orientation, 6-10 well-spread reflections exactly consistent with it "
            "(positions from the solver, consistency verified by an independent numpy forward model), start 1 % / 2 deg off; oracle: system kept, U proper, total "
            "misfit not larger, triclinic: lattice and U recovered to 1e-8; the closed-form branch is also compared with the model; distinct = distinct (system, zero "
            "pattern, flags, outcome)",
    "assumptions": ["scipy SLSQP is an external parameter: whatever it returns, the result is a proper rotation / a cell of the same system (theorems); that it does not "
                    "make the misfit worse is checked by the oracle only",
                    "scipy Rotation.from_rotvec is modelled by the Rodrigues formula"],
    "partial": "the clause 'the supplied reflections are in total not reproduced worse than before' for the six SLSQP-fitted systems is a statement about scipy's optimiser "
               "and is covered by the oracle only",
}
THEOREMS = ["C15.reciprocalB_scale_axes", "C15.Bhkl_scaled", "C15.scaleFactor_eq", "C15.rescale_matches_q", "C15.rodrigues_align", "C15.refineRot_aligns",
            "C15.rescaled_cell", "C15.refineUb_post", "C15.refineUb_reproduces", "C15.refinedCell_keeps_system", "C15.fit_keeps_system", "C15.fitU_proper",
            "C15.lsq_exact", "C15.gramSchmidt_recovers_U", "C15.fitUncon_recovers_U", "C15.gram_is_G", "C15.cellOfRecip_recovers", "C15.fitUncon_exact"]
SPEC["theorems"]["DiffcalcProofs.Props.C15"] = THEOREMS

SYSTEMS = {
    "Cubic": [(4.5,), (3.0,)],
    "Tetragonal": [(4.1, 6.3)],
    "Hexagonal": [(4.1, 6.3), (3.0, 5.0), (3, 5)],
    "Orthorhombic": [(4.1, 5.2, 6.3), (2.5, 7.0, 11.0)],
    "Rhombohedral": [(5, 75), (5.0, 75.0), (5.0, 99.0), (4.0, 109.4712), (5.0, 55.0)],
    "Monoclinic": [(4.1, 5.2, 6.3, 110.0), (5.19, 8.32, 9.6, 80.4), (4.0, 5.0, 6.0, 93.0)],      # obtuse and acute setting of beta
    "Triclinic": [(4.1, 5.2, 6.3, 80, 95, 100), (5.0, 5.5, 7.0, 91, 102, 88), (7.51, 7.73, 7.0, 106, 113.5, 99.5), (4.0, 5.0, 6.0, 70, 80, 62), (4, 5, 6, 80, 95, 100)],
}
HKL_PATTERNS = [(1, 0, 0), (0, 1, 0), (0, 0, 1), (1, 1, 0), (0, 1, 1), (1, 0, 1), (1, 1, 1), (-1, 2, 0), (2, 0, -1), (0, -1, 2), (0.5, 0, 1.5), (1.2, -0.7, 0.4)]


def qphi(pos):
    """independent numpy: q direction vector (kf - ki, |ki| = 1) in the phi frame; pos in degrees"""
    mu, de, nu, et, ch, ph = [radians(x) for x in pos]
    ki = np.array([0.0, 1.0, 0.0])
    Z = Rx(mu) @ Rz(-et) @ Ry(ch) @ Rz(-ph)
    return Z.T @ (Rx(nu) @ Rz(-de) @ ki - ki)


def mk(system, params, U):
    from diffcalc.ub.calc import UBCalculation
    with quiet():
        ub = UBCalculation("c15")
        ub.set_lattice("xtal", system, *params)
        ub.set_u(U)
    return ub


def is_angle(system, i):
    return (system == "Rhombohedral" and i == 1) or (system == "Monoclinic" and i == 3) or (system == "Triclinic" and i >= 3)


def perturb(rng, system, params, rel=0.03):
    out = []
    for i, p in enumerate(params):
        out.append(p + rng.uniform(-1.5, 1.5) if is_angle(system, i) else p * (1 + rng.uniform(-rel, rel)))
    return tuple(out)


def cell_of(ub):
    c = ub.crystal
    return [c.a1, c.a2, c.a3, c.alpha1, c.alpha2, c.alpha3]


def gen_refine(rng):
    system = rng.choice(list(SYSTEMS))
    params = rng.choice(SYSTEMS[system])
    U = rot_from_rotvec([rng.uniform(-2.5, 2.5) for _ in range(3)]) if rng.random() < 0.8 else np.eye(3)
    hkl = rng.choice(HKL_PATTERNS)
    if rng.random() < 0.3:
        hkl = tuple(x * rng.choice([1, 2, -1]) for x in hkl)
    pos = (rng.uniform(-20, 20) if rng.random() < 0.5 else 0.0, rng.uniform(8, 110), rng.uniform(-40, 40) if rng.random() < 0.5 else 0.0,
           rng.uniform(-90, 90), rng.uniform(-90, 90), rng.uniform(-180, 180))
    wl = rng.choice([1.0, 1.54, 0.7, rng.uniform(0.5, 2.0)])
    if rng.random() < 0.3:
        # nearly aligned start: the reflection is consistent with a cell 1 % smaller and an orientation a few 1e-3 .. 1e-1 degrees away
        scale_true = 1 / 1.01
        true_p = tuple(p * scale_true if not is_angle(system, i) else p for i, p in enumerate(params))
        ang = radians(rng.choice([0.1, 0.02, 0.01, 0.005, 0.001, 0.0, 0.0]))      # incl. a direction that is already exact: only the cell is off
        ax = np.array([rng.uniform(-1, 1) for _ in range(3)]); ax /= np.linalg.norm(ax)
        U_true = rot_from_rotvec(list(ax * ang)) @ U
        t = mk(system, true_p, U_true)
        hkl = tuple(float(x) for x in fwd(np.asarray(t.UB, float), pos, wl))
    return system, params, U, hkl, pos, wl


def refine_line(ub, system, hkl, pos, wl, fl, fu):
    U = np.asarray(ub.U, float)
    toks = ["refine", system, "T" if fl else "F", "T" if fu else "F"] + [f2h(x) for x in cell_of(ub)] + [f2h(x) for x in U.flatten()] \
        + [f2h(float(x)) for x in hkl] + [f2h(radians(x)) for x in pos] + [f2h(wl)]
    return " ".join(toks)


def singular_refine(ub, hkl, pos, wl):
    """the call sits on one of the two thresholds of refine_ub (|sc - 1| ~ 1e-7, |axis| ~ 1e-7)"""
    q = qphi(pos)
    B = np.asarray(ub.crystal.B, float)
    sc = 1 / (np.linalg.norm(q) / wl * (2 * pi / np.linalg.norm(B @ np.array(hkl, float))))
    ax = np.linalg.norm(np.cross(np.asarray(ub.UB, float) @ np.array(hkl, float), q))
    return abs(abs(sc - 1) - 1e-7) < 1e-9 or abs(ax - 1e-7) < 1e-9


def correspondence(ctx):
    from diffcalc.hkl.geometry import Position
    n = ctx.scale(300, 15000)
    lines, exp, kinds = [], [], set()
    for _ in range(n):
        system, params, U, hkl, pos, wl = gen_refine(ctx.rng)
        fl, fu = ctx.rng.choice([(True, True), (True, True), (True, False), (False, True), (False, False)])
        ub = mk(system, params, U)
        if singular_refine(ub, hkl, pos, wl):
            continue
        lines.append(refine_line(ub, system, hkl, pos, wl, fl, fu))
        try:
            with quiet():
                ub.refine_ub(hkl, Position(*pos), wl, fl, fu)
            exp.append(("ok", cell_of(ub), np.asarray(ub.U, float), np.asarray(ub.UB, float), ub.crystal.system))
        except Exception as e:  # noqa
            exp.append((type(e).__name__, str(e)[:80]))
        kinds.add((system, tuple(abs(x) > 1e-7 for x in hkl), fl, fu, exp[-1][0]))
    # closed-form triclinic fit: compare _fit_ub_uncon with the model
    nfit = ctx.scale(20, 400)
    for _ in range(nfit):
        case = make_fit_case(ctx.rng, "Triclinic", exact=ctx.rng.random() < 0.5)
        if case is None:
            continue
        ub, true, data = case
        toks = ["fitun"]
        for hkl, pos, en in data:
            toks += [f2h(float(x)) for x in hkl] + [f2h(radians(x)) for x in pos] + [f2h(en)]
        lines.append(" ".join(toks))
        try:
            with quiet():
                u, lat = ub._fit_ub_uncon(list(range(1, len(data) + 1)))
            exp.append(("fit", np.asarray(u, float), [float(x) for x in lat[1:]]))
        except Exception as e:  # noqa
            exp.append((type(e).__name__, str(e)[:80]))
        kinds.add(("fitun", len(data), exp[-1][0]))
    ans = drive(lines)
    dis = 0
    for l, a, e in zip(lines, ans, exp):
        bad = None
        if e[0] == "ok":
            if not a.startswith("ok "):
                bad = f"code refined, model answered {a[:40]}"
            else:
                parts = a[3:].split(" | ")
                cell = [h2f(t) for t in parts[0].split(" ")]
                U = np.array([h2f(t) for t in parts[1].split(" ")]).reshape(3, 3)
                UB = np.array([h2f(t) for t in parts[2].split(" ")]).reshape(3, 3)
                if max(abs(x - y) / (1 + abs(y)) for x, y in zip(cell, e[1])) > 1e-8:
                    bad = f"cell: model {[round(x, 7) for x in cell]} vs code {[round(x, 7) for x in e[1]]}"
                elif np.max(np.abs(U - e[2])) > 1e-7:
                    bad = f"U differs by {np.max(np.abs(U - e[2])):.3g}"
                elif np.max(np.abs(UB - e[3])) > 1e-7:
                    bad = f"UB differs by {np.max(np.abs(UB - e[3])):.3g}"
        elif e[0] == "fit":
            if not a.startswith("ok "):
                bad = f"code fitted, model answered {a[:40]}"
            else:
                parts = a[3:].split(" | ")
                U = np.array([h2f(t) for t in parts[0].split(" ")]).reshape(3, 3)
                cell = [h2f(t) for t in parts[1].split(" ")]
                if np.max(np.abs(U - e[1])) > 1e-7:
                    bad = f"closed-form U differs by {np.max(np.abs(U - e[1])):.3g}"
                elif max(abs(x - y) / (1 + abs(y)) for x, y in zip(cell, e[2])) > 1e-7:
                    bad = f"closed-form cell: model {cell} vs code {e[2]}"
        else:
            if a.startswith("ok "):
                bad = f"code raised {e[0]} ({e[1]}), model answered ok"
        if bad:
            dis += 1
            if dis <= 4:
                ctx.broke("correspondence", "Refine.lean refineUb / fitUncon vs refine_ub / _fit_ub_uncon", f"{l[:70]}...: {bad}")
    ctx.stream("correspondence:refine+fit", len(lines), len(kinds), disagreements=dis)
    ctx.cov["traces_validated_against_impl"] = len(lines)
    if lines:
        ctx.sample({"request": lines[0][:120], "answer": ans[0][:80]})


# ---------------- fit_ub cases

FIT_HKLS = [(1, 0, 0), (0, 1, 0), (0, 0, 1), (1, 1, 0), (0, 1, 1), (1, 0, 1), (1, 1, 1), (-1, 1, 0), (2, 0, 1), (0, -1, 2), (1, -1, 1), (2, 1, 0)]


def make_fit_case(rng, system, exact=True, params=None):
    """(ub to be fitted, (true params, true U), [(hkl, pos, energy)]) or None"""
    from diffcalc.hkl.calc import HklCalculation
    from diffcalc.hkl.constraints import Constraints
    true_p = params if params is not None else rng.choice(SYSTEMS[system])
    true_p = tuple(p * (1 + rng.uniform(-0.05, 0.05)) if i < 3 and not (system == "Rhombohedral" and i == 1) else p for i, p in enumerate(true_p))
    U_true = rot_from_rotvec([rng.uniform(-1.0, 1.0) for _ in range(3)])
    true = mk(system, true_p, U_true)
    with quiet():
        true.n_hkl = (1, 0.2, 0.1)
    wl0 = rng.choice([1.0, 1.2, 0.8])
    mixed = rng.random() < 0.5      # reflections recorded at different energies
    hc = HklCalculation(true, Constraints(rng.choice([{"qaz": 90, "alpha": 5, "mu": 3}, {"mu": 0, "nu": 0, "a_eq_b": True}, {"delta": 20, "psi": 30, "mu": 5}])))
    hkls = rng.sample(FIT_HKLS, rng.randint(7, 11))
    data = []
    for hkl in hkls:
        wl = rng.choice([1.0, 1.2, 0.8, 0.65]) if mixed else wl0
        en = 12.39842 / wl
        try:
            with quiet():
                sols = hc.get_position(*hkl, wl)
        except Exception:  # noqa
            continue
        pos = tuple(float(x) for x in rng.choice(sols)[0].astuple)
        if np.max(np.abs(fwd(np.asarray(true.UB, float), pos, wl) - np.array(hkl))) > 1e-8:
            continue
        if not exact:
            pos = tuple(p + rng.uniform(-0.05, 0.05) for p in pos)
        data.append((hkl, pos, en))
    if len(data) < 6:
        return None
    hk = np.array([d[0] for d in data], float)
    if np.linalg.matrix_rank(hk) < 3 or np.linalg.cond(hk.T @ hk) > 1e3:
        return None
    start_p = perturb(rng, system, true_p, 0.01)
    dU = rot_from_rotvec(list(np.array([rng.uniform(-1, 1) for _ in range(3)]) * radians(2) / 1.8))
    ub = mk(system, start_p, dU @ U_true)
    from diffcalc.hkl.geometry import Position
    with quiet():
        tagging = rng.choice(["distinct", "distinct", "none", "same", "mixed"])      # tags are optional labels: they must not matter to a fit addressed by index
        for i, (hkl, pos, e) in enumerate(data):
            tag = {"distinct": "r%d" % i, "none": None, "same": "refl", "mixed": (None if i % 2 else "a")}[tagging]
            ub.add_reflection(hkl, Position(*pos), e, tag)
    return ub, (true_p, U_true, true), data


def in_system(system, latt):
    a, b, c, al, be, ga = latt
    eq = lambda x, y: abs(x - y) < 1e-9  # noqa: E731
    return {"Cubic": eq(a, b) and eq(b, c) and eq(al, 90) and eq(be, 90) and eq(ga, 90),
            "Tetragonal": eq(a, b) and eq(al, 90) and eq(be, 90) and eq(ga, 90),
            "Hexagonal": eq(a, b) and eq(al, 90) and eq(be, 90) and eq(ga, 120),
            "Orthorhombic": eq(al, 90) and eq(be, 90) and eq(ga, 90),
            "Rhombohedral": eq(a, b) and eq(b, c) and eq(al, be) and eq(be, ga),
            "Monoclinic": eq(al, 90) and eq(ga, 90), "Triclinic": True}[system]


def oracle(ctx, widen=1):
    from diffcalc.hkl.geometry import Position
    n = ctx.scale(400, 20000) * widen
    kinds = set()
    for _ in range(n):
        system, params, U, hkl, pos, wl = gen_refine(ctx.rng)
        ub = mk(system, params, U)
        bad = None
        try:
            with quiet():
                ub.refine_ub(hkl, Position(*pos), wl, True, True)
            got = fwd(np.asarray(ub.UB, float), pos, wl)
            if not np.all(np.isfinite(got)) or np.max(np.abs(got - np.array(hkl, float))) > 1e-6:
                bad = f"after refine_ub the position maps back to {tuple(round(float(x), 6) for x in got)}"
            elif ub.crystal.system != system:
                bad = f"crystal system changed to {ub.crystal.system}"
            elif np.max(np.abs(np.asarray(ub.U).T @ np.asarray(ub.U) - np.eye(3))) > 1e-9:
                bad = "U is no longer orthogonal"
        except Exception as e:  # noqa
            bad = f"raised {type(e).__name__}: {str(e)[:60]}"
        zp = tuple(abs(x) > 1e-7 for x in hkl)
        kinds.add((system, zp, bad is None))
        if bad:
            tied = (system in ("Cubic", "Rhombohedral") and not all(zp)) or (system in ("Tetragonal", "Hexagonal") and zp[0] != zp[1])
            ctx.violation(f"refine_ub {system}{params} hkl={hkl} pos={tuple(round(x, 3) for x in pos)} wl={wl}: {bad}",
                          {"system": system, "params": list(params), "U": np.asarray(U).tolist(), "hkl": list(hkl), "pos": list(pos), "wl": wl},
                          {"kind": "refine_ub", "tied_axis_zero_index": bool(tied)})
    ctx.stream("oracle:refine_ub", n, len(kinds))
    # fit_ub
    pairs = [(sy, p) for sy in SYSTEMS for p in SYSTEMS[sy]]
    nfit = ctx.scale(len(pairs), 30 * len(pairs)) * widen
    kinds = set()
    done = 0
    for i in range(nfit * 3):
        if done >= nfit:
            break
        system, pp = pairs[i % len(pairs)]
        case = make_fit_case(ctx.rng, system, params=pp)
        if case is None:
            continue
        done += 1
        ub, (true_p, U_true, true), data = case
        qs = [(np.array(h, float), qphi(p) * 2 * pi / (12.39842 / e)) for h, p, e in data]
        misfit = lambda: sum(np.linalg.norm(np.linalg.solve(np.asarray(ub.UB, float), q) - h) for h, q in qs)  # noqa: E731
        before = misfit()
        bad = None
        try:
            with quiet():
                ub.fit_ub([d for d in range(1, len(data) + 1)], True, True)
            latt = ub.crystal.get_lattice()[1:]
            U = np.asarray(ub.U, float)
            after = misfit()
            if ub.crystal.system != system or not in_system(system, latt):
                bad = f"refined lattice {latt} is not {system}"
            elif np.max(np.abs(U.T @ U - np.eye(3))) > 1e-9 or abs(np.linalg.det(U) - 1) > 1e-9:
                bad = "U is not a proper rotation"
            elif after > before + 1e-9:
                bad = f"total misfit grew from {before:.6g} to {after:.6g}"
            elif system == "Triclinic":
                tl = true.crystal.get_lattice()[1:]
                if max(abs(x - y) / (1 + abs(y)) for x, y in zip(latt, tl)) > 1e-8:
                    bad = f"triclinic lattice not recovered: {tuple(round(x, 8) for x in latt)} vs {tuple(round(x, 8) for x in tl)}"
                elif np.max(np.abs(U - U_true)) > 1e-8:
                    bad = f"triclinic U not recovered (max diff {np.max(np.abs(U - U_true)):.3g})"
        except Exception as e:  # noqa
            bad = f"raised {type(e).__name__}: {str(e)[:60]}"
        kinds.add((system, len(data), bad is None))
        if bad:
            ctx.violation(f"fit_ub {system} true {tuple(round(x, 4) for x in true_p)} with {len(data)} exact reflections: {bad}",
                          {"system": system, "true": list(true_p), "U_true": U_true.tolist(), "start": list(ub.crystal.get_lattice()[1:]),
                           "reflections": [[list(h), list(p), e] for h, p, e in data]},
                          {"kind": "fit_ub", "what": bad.split(":")[0][:40], "system": system})
    ctx.stream("oracle:fit_ub", done, len(kinds))


def replay(ctx, data):
    print(data["what"]); print(data["replay"]); return 0
