"""C01 — every position returned for an hkl request diffracts at exactly that hkl."""
import math
import numpy as np
from vlib import quiet, angdiff
from harness.common import fwd, pseudo, VOID, AXES, rot_from_rotvec
from harness import pipeline as PL, solver as S

SPEC = {
    "gen": ["Rotations", "GetHkl", "SolverLeaf", "UtilLeaf", "SolverDispatch"],
    "modules": ["DiffcalcProofs.Props.C01", "DiffcalcProofs.Props.C01Sample", "DiffcalcProofs.Props.C01Detector", "DiffcalcProofs.Props.C01Assembly",
                "DiffcalcProofs.Props.C01Assembly2", "DiffcalcProofs.Props.C01Bridge", "DiffcalcProofs.Props.TieSolver"],
    "theorems": {"DiffcalcProofs.Props.TieSolver": ["TieSolver.phiAndQaz_generated", "TieSolver.chiAndQaz_generated", "TieSolver.qazValue_generated", "TieSolver.small_generated", "TieSolver.bound_generated", "TieSolver.sign_generated", "TieSolver.sampleFromChiEta_generated", "TieSolver.detFromQaz_generated", "TieSolver.anglesEquivalent_generated", "TieSolver.refConChiMu_generated", "TieSolver.refConMuPhi_generated", "TieSolver.refConEtaPhi_generated", "TieSolver.refConChiPhi_generated", "TieSolver.sampleConPhi_generated", "TieSolver.sampleConChi_generated", "TieSolver.sampleConEta_generated", "TieSolver.sampleConMuChi_generated", "TieSolver.sampleConEtaPhi_generated", "TieSolver.sampleConEtaChi_generated", "TieSolver.sampleConMuPhi_generated", "TieSolver.sampleConMuEta_generated", "TieSolver.detFromDelta_generated", "TieSolver.detFromNu_generated", "TieSolver.sampleConMu_generated", "TieSolver.refConMuEta_generated", "TieSolver.refConChiEta_generated", "TieSolver.sampleConChiPhi_generated", "TieSolver.sampleConOmegaBisect_generated", "TieSolver.sampleConMuBisect_generated", "TieSolver.sampleConEtaBisect_generated", "TieSolver.twoSampleDetector_generated", "TieSolver.twoSampleReference_generated"],
        "DiffcalcProofs.Props.C01": [
        "C01.getPosition_guard", "C01.getPosition_pairs_virtualAngles", "C01.guard_forward_model", "C01.composition",
        "C01.detFromQaz_sound", "C01.threeSample_detector_sound", "C01.twoSampleAndReference_detector_sound", "C01.bound_clips_in_band"],
        "DiffcalcProofs.Props.C01Sample": [
        "C01.sampleSpec_of_inner", "C01.rot_solve", "C01.asin_roots", "C01.acos_roots", "C01.sampleConMuEta_sound", "C01.sampleConMuEta_sound'",
        "C01.sampleConOmegaBisect_sound", "C01.sampleConMuBisect_sound", "C01.sampleConEtaBisect_sound", "C01.sampleConMuPhi_sound",
        "C01.sampleConChiPhi_sound", "C01.sampleConMuChi_sound",
        "C01.ecp_of_euler", "C01.mec_of_euler", "C01.rot_eq_of_row0_col2", "C01.sampleConMu_sound", "C01.sampleConPhi_sound", "C01.sampleFromChiEta_sound",
        "C01.sampleConChi_sound", "C01.sampleConEta_sound", "C01.remainingSample_sound", "C01.calcN_generic",
        "C01.sampleConEtaPhi_sound", "C01.sampleConEtaChi_sound", "C01.twoSampleDetector_sound",
        "C01.rot_eq_of_row2_col1", "C01.rot_eq_of_row1_col1", "C01.phiAndQaz_sound", "C01.chiAndQaz_sound", "C01.refConChiPhi_sound", "C01.refConMuEta_sound",
        "C01.refConChiEta_sound", "C01.refConChiMu_sound", "C01.refConMuPhi_sound", "C01.refConEtaPhi_sound", "C01.twoSampleReference_sound",
        "C01.lastSampleAngle_sound", "C01.qazValue_sound", "C01.threeSample_sample_sound"],
        "DiffcalcProofs.Props.C01Detector": ["C01.eq_of_sq_eq_of_sign", "C01.detFromDelta_sound", "C01.detFromNu_sound", "C01.detRemaining_sound"],
        "DiffcalcProofs.Props.C01Assembly": ["C01.ttheta_eq", "C01.detSamp2_qaz_exact", "C01.detSamp2_exact"],
        "DiffcalcProofs.Props.C01Assembly2": ["C01.threeSample_mem", "C01.samp3_exact", "C01.refSpec_sampleSpec", "C01.twoSampleAndReference_sound",
                                              "C01.refSamp2_exact", "C01.detOrNaz_sound", "C01.detRefSamp_exact"],
        "DiffcalcProofs.Props.C01Bridge": ["C01.getHkl_solToPos", "C01.getPosition_exact"]},
    "level": "proof",
    "rule": "all 185 implemented modes x requests built from random physical positions over (-180,180]^6 (so that solutions exist), oblique "
            "cells, rotated U, hkl- and lab-frame vectors of non-unit length, plus special-value requests (multiples of 30/45/90 deg, axis hkl) and "
            "call sequences that change U / lattice / vectors between identical requests; model and implementation compared at get_position level; "
            "the oracle pushes every returned position through an independent numpy forward model and recomputes its pseudo-angles geometrically; "
            "distinct = modes with at least one returned list",
    "assumptions": ["numerically singular requests (outcome not invariant under 1e-7 perturbations of the inputs) are excluded from the model comparison, and counted"],
    "partial": "proved for all modes: nothing is returned unless it passes the read-back guard (|get_hkl - hkl| <= 1e-3 per index, and get_hkl IS the forward model, C04) and the "
               "dictionary is get_virtual_angles of that position; exact soundness (residual 0 over the reals: candidates => forward model = hkl) is proved end to end for all four mode families "
               "(27 detector+two-sample, 4 three-sample, 42 reference+two-sample, 112 detector-or-naz+reference+one-sample shapes = all 185) on the generic branch of every layer "
               "(no clipping by bound(), no coincident-root / gimbal-lock shortcut, reference vector not within 1e-7 of the scattering vector); the non-generic branches are covered by "
               "the guard theorem, correspondence and oracle",
    "search_widen": 4,
}


def requests(ctx, per_mode, special_per_mode):
    out = []
    for tr in PL.modes():
        ub, kind = PL.rand_ub(ctx.rng)
        k = 0
        for _ in range(per_mode * 3):
            r = PL.construct_request(ctx.rng, ub, tr)
            if r is None:
                continue
            ub2, vals, hkl, P = r
            out.append((ub2, vals, hkl, 1.0, "physical:" + kind)); k += 1
            if k >= per_mode:
                break
        for _ in range(special_per_mode):
            ub3, vals, hkl, wl = PL.special_request(ctx.rng, tr)
            out.append((ub3, vals, hkl, wl, "special"))
    if special_per_mode:
        out += PL.aligned_requests(ctx.rng, special_per_mode * 2)
        out += backscatter_requests(ctx.rng, special_per_mode * 300)
    return out


def backscatter_requests(rng, n):
    """reflections at the edge of the Ewald sphere: a physical position with 2theta = 180 - eps fixes hkl and the constraint values; the
    request is then made at a wavelength a relative 1e-9 ... 5e-4 above or below the one of that position (beyond the limit 2d the only
    correct answer is a DiffcalcException; below it whatever is returned must diffract at hkl)"""
    out = []
    modes = PL.modes()
    for _ in range(n):
        tr = rng.choice(modes)
        ub, kind = PL.rand_ub(rng)
        eps = rng.choice([1e-3, 1e-2, 0.05, 0.3])
        P0 = [rng.uniform(-179, 179) for _ in range(6)]
        if rng.random() < 0.5:
            P0[1], P0[2] = 180.0 - eps, rng.choice([0.0, 0.0, 180.0 - 2 * eps])
            if P0[2] != 0.0:
                P0[1] = eps
        else:
            P0[1], P0[2] = rng.choice([0.0, eps]), 180.0 - eps
        r = PL.construct_request(rng, ub, tr, P0=P0)
        if r is None:
            continue
        ub2, vals, hkl, P = r
        t = (10.0 ** rng.uniform(-7.5, -3.3)) * rng.choice((1.0, 1.0, 1.0, -1.0))
        out.append((ub2, vals, hkl, 1.0 * (1.0 + t), "backscatter:" + kind))
    return out


def correspondence(ctx):
    PL.correspondence_stream(ctx, "get_position", requests(ctx, ctx.scale(2, 60), ctx.scale(1, 30)), "full")


def check_element(ub, hkl, wl, pos, va, hc):
    """complaint string or None"""
    from diffcalc.hkl.geometry import Position
    UB = np.asarray(ub.UB, float)
    if not all(math.isfinite(x) for x in pos):
        return f"returned a non-finite position {pos}"
    got = fwd(UB, pos, wl)
    if np.abs(got - np.asarray(hkl)).max() > 1e-6 * (1 + np.abs(np.asarray(hkl)).max()):
        return f"returned position {tuple(round(x, 5) for x in pos)} diffracts at hkl={got.round(6).tolist()}, not at the requested {hkl}"
    n, s = PL.vectors(ub)
    pp = pseudo(n, s, pos)
    # poles, where an angle is undefined (outside the property's quantifier): theta in {0, 90}, |alpha| = 90, tau in {0, 180}
    skip = set()
    th = math.radians(pp["theta"])
    if abs(math.sin(2 * th)) < 1e-4:
        skip |= {"qaz", "psi", "naz", "tau"}
    if abs(math.cos(math.radians(pp.get("alpha", 0.0)))) < 1e-4:
        skip |= {"naz", "psi"}
    if abs(math.sin(math.radians(pp.get("tau", 90.0)))) < 1e-4:
        skip |= {"psi"}
    for k, v in va.items():
        if k in pp and k not in skip and not math.isnan(v) and angdiff(v, pp[k]) > 1e-5:
            return f"pseudo-angle {k} paired with {tuple(round(x, 5) for x in pos)} is {v:.6f}, the position has {pp[k]:.6f}"
    return None


def clip_band(ub, vals, hkl, wl, err):
    """Is this inexact position the recorded finding 'bound() clips at a turning point'?  Decided by an experiment on the real code, never by
    the look of the input: (i) the error is no larger than a clip of 1e-7 in a sine / cosine can cause at the turning point of asin / acos
    (sqrt(2e-7) rad of angle, times |hkl|); (ii) in the run as it is, every argument `bound` let through is within the documented 1e-7 of
    [-1, 1] and at least one was clipped; (iii) with a strict `bound` (1e-12) the same request raises DiffcalcException or returns only
    exact positions — i.e. the request has no solution nearby and the inexact answer exists only because of the clip."""
    import sys
    import diffcalc.util as U
    from diffcalc.hkl.calc import HklCalculation
    from diffcalc.hkl.constraints import Constraints
    from diffcalc.util import DiffcalcException
    if not err <= 5e-4 * (1e-9 + float(np.linalg.norm(np.asarray(hkl, float)))):
        return False
    orig = U.bound
    mods = [m for n, m in list(sys.modules.items()) if n.startswith("diffcalc") and getattr(m, "bound", None) is orig]
    seen = []

    def recording(x):
        r = orig(x)
        seen.append(float(x))
        return r

    def strict(x):
        if abs(x) > 1 + 1e-12:
            raise AssertionError("strict bound")
        return orig(x)
    try:
        for m in mods:
            m.bound = recording
        with quiet():
            try:
                HklCalculation(ub, Constraints(vals)).get_position(*hkl, wl)
            except DiffcalcException:
                pass
        if not seen or max(abs(x) for x in seen) > 1 + 1e-7 or max(abs(x) for x in seen) <= 1:
            return False
        for m in mods:
            m.bound = strict
        with quiet():
            try:
                res = HklCalculation(ub, Constraints(vals)).get_position(*hkl, wl)
            except DiffcalcException:
                return True
        UB = np.asarray(ub.UB, float)
        return all(np.abs(fwd(UB, [float(x) for x in p.astuple], wl) - np.asarray(hkl, float)).max() <= 1e-6 * (1 + np.abs(np.asarray(hkl, float)).max()) for p, _ in res)
    except Exception:  # noqa
        return False
    finally:
        for m in mods:
            m.bound = orig


def clip_witness():
    """the recorded input of the finding (runs first in every oracle pass)"""
    from diffcalc.ub.calc import UBCalculation
    UB = np.array([[1.4765218393487625, -0.11222697907444408, -0.10459706883882168], [0.46765216295153245, 1.1732214109119319, 0.15283621515037976],
                   [0.17636468731845154, -0.39585847563284304, 0.9974217997851268]])
    with quiet():
        ub = UBCalculation("t")
        ub.set_lattice("x", 4.1, 5.2, 6.3, 80, 95, 100)
        ub.set_u((UB @ np.linalg.inv(np.asarray(ub.crystal.B, float))).tolist())
    ub.n_phi = (-0.35215896353508336, 0.9092994124744945, 0.22171748437016606)
    ub.surf_nphi = (0.6467545445676384, 0.5413545951968466, -0.5372557690154337)
    return (ub, {"mu": -117.89539594912235, "eta": 174.8329380440652, "chi": -76.01666966764174},
            (-7.621650516216889, -1.7803638585369892, -1.502546462992199), 1.0000001587917913, "witness:bound-clip")


def oracle(ctx, widen=1):
    from diffcalc.hkl.calc import HklCalculation
    from diffcalc.hkl.constraints import Constraints
    reqs = [clip_witness()] + requests(ctx, ctx.scale(3, 200) * widen, ctx.scale(1, 50)) + PL.degenerate_requests(ctx.rng, ctx.scale(60, 3000) * widen) + PL.diagonal_axis_requests(ctx.rng, ctx.scale(2000, 40000) * widen)
    ok_modes = set()
    elements = 0
    for ub, vals, hkl, wl, tag in reqs:
        hc = HklCalculation(ub, Constraints(vals))
        res = S.run_impl("full", hc, hkl, wl)
        if res[0] not in ("ok", "dce"):
            # "the only alternatives are a correct position or a DiffcalcException"
            ctx.violation(f"mode {sorted(vals)} hkl={tuple(round(x, 5) for x in hkl)} [{tag}]: get_position raised {res[0]}: {res[1][:100]}",
                          {"constraints": vals, "hkl": list(hkl), "wl": wl, "UB": np.asarray(ub.UB).tolist()},
                          {"kind": "other-exception", "class": res[0]})
            continue
        if res[0] != "ok":
            continue
        ok_modes.add(tuple(sorted(vals)))
        # the Ewald limit: beyond lambda = 2d (by more than the 1e-7 the library's own range guard tolerates) there is nothing to return;
        # inside that 1e-7 band theta is clipped to 90 deg, the turning point of asin, where 1e-7 in sin(theta) is 4e-4 rad of angle:
        # the outcome there is decided by the gate, not by the property
        ratio = None
        if ub.crystal is not None:
            Bm = np.asarray(ub.crystal.B, float)
            nb = np.linalg.norm(Bm @ np.asarray(hkl, float))
            ratio = wl * nb / (4 * math.pi) if nb > 0 else None
        if ratio is not None and ratio > 1 + 2e-7:
            ctx.violation(f"mode {sorted(vals)} hkl={tuple(round(x, 5) for x in hkl)} [{tag}]: lambda/2d = 1 + {ratio - 1:.3g}, the reflection is outside the Ewald sphere, "
                          f"yet {len(res[1])} positions were returned (first: {tuple(round(x, 4) for x in res[1][0][0])})",
                          {"constraints": vals, "hkl": list(hkl), "wl": wl, "UB": np.asarray(ub.UB).tolist()}, {"kind": "unreachable-answered"})
            continue
        if ratio is not None and ratio > 1 - 1e-12:
            continue
        for pos, va in res[1]:
            elements += 1
            bad = check_element(ub, hkl, wl, pos, va, hc)
            if bad:
                sig = {"kind": "wrong-position", "mode": ",".join(sorted(vals))}
                if "diffracts at" in bad:
                    err = float(np.abs(fwd(np.asarray(ub.UB, float), pos, wl) - np.asarray(hkl, float)).max())
                    if clip_band(ub, vals, hkl, wl, err):
                        sig = {"kind": "wrong-position", "cause": "bound-clip-at-turning-point"}
                ctx.violation(f"mode {sorted(vals)} [{tag}]: {bad}", {"constraints": vals, "hkl": list(hkl), "wl": wl, "UB": np.asarray(ub.UB).tolist(),
                                                                      "n_phi": PL.vectors(ub)[0].tolist(), "surf_nphi": PL.vectors(ub)[1].tolist()}, sig)
                break
    ctx.stream("oracle:forward-model-on-results", len(reqs), len(ok_modes), returned_elements=elements)
    # sequences: the same request repeated after the calculation changed
    nseq = ctx.scale(60, 3000) * widen
    bad_seq = 0
    for it in range(nseq):
        tr = ctx.rng.choice(PL.modes())
        ub, kind = PL.rand_ub(ctx.rng, "triclinic")
        r = PL.construct_request(ctx.rng, ub, tr)
        if r is None:
            continue
        ub2, vals, hkl, P = r
        hc = HklCalculation(ub2, Constraints(vals))
        first = S.run_impl("full", hc, hkl, 1.0)
        change = ctx.rng.choice(["set_u", "set_lattice", "vectors", "constraint"])
        with quiet():
            if change == "set_u":
                ub2.set_u(rot_from_rotvec([ctx.rng.uniform(-0.2, 0.2) for _ in range(3)]) @ np.asarray(ub2.U))
            elif change == "set_lattice":
                ub2.set_lattice("y", 4.3, 5.0, 6.6, 82, 93, 101)
            elif change == "vectors":
                ub2.n_hkl = tuple(ctx.rng.uniform(-1, 1) for _ in range(3)); ub2.surf_nhkl = tuple(ctx.rng.uniform(-1, 1) for _ in range(3))
            else:
                nm = [n for n in vals if n not in VOID]
                if nm:
                    vals = dict(vals); vals[nm[0]] = vals[nm[0]] + 3.0
                    setattr(hc.constraints, nm[0], vals[nm[0]])
        res = S.run_impl("full", hc, hkl, 1.0)
        if res[0] != "ok":
            continue
        n, s = PL.vectors(ub2)
        for pos, va in res[1]:
            bad = check_element(ub2, hkl, 1.0, pos, va, hc)
            if not bad and change == "constraint":
                hb = PL.honours(tuple(vals), vals, pos, n, s)
                bad = ("after a constraint change: " + hb[0]) if hb else None
            if bad:
                bad_seq += 1
                ctx.violation(f"mode {sorted(vals)}, second identical request after {change}: {bad}",
                              {"constraints": vals, "hkl": list(hkl), "change": change}, {"kind": "stale-after-" + change})
                break
    ctx.stream("oracle:request-sequences", nseq, nseq)


def replay(ctx, data):
    print(data["what"]); print(data["replay"]); return 0
