"""C04 — get_hkl is the exact You-(1999) forward model."""
import math
import numpy as np
from math import radians, pi, sin, cos
from vlib import drive, f2h, h2f, quiet
from harness.common import fwd, rot_from_rotvec

SPEC = {
    "gen": ["Rotations", "GetHkl"],
    "modules": ["DiffcalcProofs.Lemmas.Rotations", "DiffcalcProofs.Props.C04"],
    "theorems": {
        "DiffcalcProofs.Lemmas.Rotations": ["gen_x_rotation", "gen_y_rotation", "gen_z_rotation", "gen_rot_senses",
                                            "rotX_eq_rodrigues", "rotY_eq_rodrigues", "rotZ_eq_rodrigues",
                                            "inv_rotX", "inv_rotY", "inv_rotZ", "rot_periodic"],
        "DiffcalcProofs.Props.C04": ["C04.getHkl_eq_fwd", "C04.UB_getHkl", "C04.norm_UB_hkl", "C04.getHkl_scale_wl",
                                     "C04.getHkl_periodic", "C04.getQPhi_eq", "C04.normSq_qLab"]},
    "level": "proof",
    "rule": "translation validation of the generated get_hkl / get_q_phi / nine rotation constructors (Float reading) against the "
            "implementation on random invertible UB (general, rotation x B, cubic), positions over +-720 deg, multiples of 90 deg and very small "
            "angles, wavelengths 0.3..3; the oracle compares the implementation with an independent numpy forward model, also inside call "
            "sequences interleaved with set_lattice / set_u / set_ub (stale state), and checks |UB.hkl| = (4 pi/lambda) sin(theta), 1/lambda scaling, "
            "+360 deg; distinct = distinct (UB kind, angle regime, sequence kind)",
    "assumptions": ["degrees<->radians conversion of Position is rounding only", "numpy.linalg.inv modelled as adjugate/determinant"],
}

FUNCS = ["x_rotation", "y_rotation", "z_rotation", "rot_MU", "rot_DELTA", "rot_NU", "rot_ETA", "rot_CHI", "rot_PHI"]


def rand_pos(rng):
    regime = rng.choice(["wide", "wide", "std", "special", "small", "turns"])
    if regime == "turns":
        # an axis without a hard stop reports many whole turns: "any real degrees"
        p = [rng.uniform(-180, 180) + 360.0 * rng.choice([0, 0, 1, -1, 7, -25, 57, 58, -58, 100, -360, 1000]) for _ in range(6)]
    elif regime == "wide":
        p = [rng.uniform(-720, 720) for _ in range(6)]
    elif regime == "std":
        p = [rng.uniform(-180, 180) for _ in range(6)]
    elif regime == "special":
        p = [float(rng.choice([0, 90, -90, 180, 45, 30, 270, 360, -180])) for _ in range(6)]
    else:
        p = [rng.choice([0.0, 1e-2, 1e-3, 1e-4, -1e-3, 5e-6, rng.uniform(-1, 1)]) for _ in range(6)]
    return p, regime


def rand_UB(rng):
    kind = rng.choice(["general", "rotB", "cubic"])
    if kind == "general":
        while True:
            m = np.array([[rng.uniform(-2, 2) for _ in range(3)] for _ in range(3)])
            if abs(np.linalg.det(m)) > 0.2:
                return m, kind
    from diffcalc.ub.crystal import Crystal
    B = Crystal("x", 4.1, 5.2, 6.3, 80, 95, 100).B if kind == "rotB" else np.eye(3) * (2 * pi / rng.uniform(1, 6))
    return rot_from_rotvec([rng.uniform(-2, 2) for _ in range(3)]) @ B, kind


def correspondence(ctx):
    from diffcalc.hkl.calc import HklCalculation
    from diffcalc.hkl.constraints import Constraints
    from diffcalc.hkl.geometry import Position, get_q_phi
    from diffcalc.ub.calc import UBCalculation
    import diffcalc.util as U, diffcalc.hkl.geometry as G
    n = ctx.scale(500, 50000)
    lines, expect = [], []
    kinds = set()
    for _ in range(n):
        UB, kind = rand_UB(ctx.rng)
        p, regime = rand_pos(ctx.rng)
        wl = ctx.rng.uniform(0.3, 3)
        ub = UBCalculation("t"); ub.UB = UB
        pos = Position(*p)
        got = HklCalculation(ub, Constraints()).get_hkl(pos, wl)
        rad = [radians(x) for x in pos.astuple]
        lines.append("hkl " + " ".join(f2h(x) for x in UB.flatten()) + " " + " ".join(f2h(x) for x in rad) + " " + f2h(wl))
        expect.append([float(x) for x in got])
        lines.append("qphi " + " ".join(f2h(x) for x in rad)); expect.append([float(x) for x in get_q_phi(pos).T[0]])
        kinds.add((kind, regime))
    for fn in FUNCS:
        for _ in range(ctx.scale(20, 500)):
            t = ctx.rng.choice([ctx.rng.uniform(-7, 7), 0.0, pi / 2, -pi, 1e-5])
            m = getattr(U, fn)(t) if hasattr(U, fn) and fn.endswith("rotation") else getattr(G, fn)(t)
            lines.append(f"rot {fn} {f2h(t)}"); expect.append([float(x) for x in np.asarray(m, float).flatten()])
    ans = drive(lines)
    dis = 0
    for l, a, e in zip(lines, ans, expect):
        try:
            vals = [h2f(t) for t in a.split(" ")]
            sc = 1 + max(abs(x) for x in e)
            ok = len(vals) == len(e) and all(abs(u - v) <= 1e-9 * sc for u, v in zip(vals, e))
        except ValueError:
            ok = False
        if not ok:
            dis += 1
            if dis <= 5:
                ctx.broke("translation-validation", "Gen/GetHkl.lean, Gen/Rotations.lean vs implementation", f"{l[:60]}...: code -> {e}; generated -> {a}")
    ctx.stream("translation-validation:get_hkl+rotations", len(lines), len(kinds) + len(FUNCS), disagreements=dis)
    ctx.cov["programs"] = 2 + len(FUNCS)
    ctx.cov["disagreements_checked"] = dis
    ctx.sample({"request": lines[0][:100], "answer": ans[0]})


def oracle(ctx, widen=1):
    from diffcalc.hkl.calc import HklCalculation
    from diffcalc.hkl.constraints import Constraints
    from diffcalc.hkl.geometry import Position
    from diffcalc.ub.calc import UBCalculation
    n = ctx.scale(400, 40000) * widen
    kinds = set()
    cases = 0
    for it in range(n):
        rng = ctx.rng
        ub = UBCalculation("t")
        hc = HklCalculation(ub, Constraints())
        seq = rng.choice(["direct", "direct", "lattice-change", "u-change", "ub-change"])
        steps = 1 if seq == "direct" else 3
        bad = None
        for step in range(steps):
            with quiet():
                if seq == "direct" or step == 0:
                    UB, kind = rand_UB(rng)
                    if seq == "direct":
                        ub.UB = UB
                    else:
                        ub.set_lattice("x", *rng.choice([(4.1, 5.2, 6.3, 80, 95, 100), (4.0, 5.0, 6.0), (3.0,)]))
                        ub.set_u(rot_from_rotvec([rng.uniform(-2, 2) for _ in range(3)]))
                elif seq == "lattice-change":
                    ub.set_lattice("y", *rng.choice([(5.1, 4.2, 7.3, 85, 100, 95), (6.0, 5.0, 4.0), (5.0,), (4.0, 6.5)]))
                elif seq == "u-change":
                    ub.set_u(rot_from_rotvec([rng.uniform(-2, 2) for _ in range(3)]))
                else:
                    ub.set_ub(rot_from_rotvec([rng.uniform(-2, 2) for _ in range(3)]) @ ub.crystal.B)
            UBc = np.array(ub.UB, float)
            p, regime = rand_pos(rng)
            wl = rng.uniform(0.3, 3)
            kinds.add((seq, regime))
            cases += 1
            # the angles may arrive as any real number type: Python int / float, numpy scalars of any width. The value is what counts.
            typ = rng.choice(["float"] * 6 + ["int", "np.float32", "np.int16", "np.int64", "np.float64", "np.uint8"])
            if typ != "float":
                conv = {"int": lambda x: int(round(x)), "np.float32": np.float32, "np.int16": lambda x: np.int16(max(-32000, min(32000, round(x)))), "np.int64": lambda x: np.int64(round(x)),
                        "np.float64": np.float64, "np.uint8": lambda x: np.uint8(round(x) % 200)}[typ]
                k = rng.randrange(6)
                pa = list(p); pa[k] = conv(p[k])
                p = tuple(float(x) for x in pa)       # the exact value of the converted number
                regime = regime + ":" + typ
                kinds.add((seq, regime))
            else:
                pa = p
            try:
                got = np.array(hc.get_hkl(Position(*pa), wl), float)
            except Exception as e:  # noqa
                bad = f"get_hkl raised {type(e).__name__}: {e}"
                break
            ref = fwd(UBc, p, wl)
            sc = 1 + np.abs(ref).max()
            if np.abs(got - ref).max() > 1e-9 * sc:
                bad = f"get_hkl{tuple(round(x, 6) for x in p)} at wavelength {wl:.4f} = {got.tolist()}, the forward model gives {ref.tolist()} (sequence: {seq}, step {step})"
                break
            mu, de, nu, et, ch, ph = [radians(x) for x in p]
            th = math.acos(max(-1.0, min(1.0, cos(de) * cos(nu)))) / 2
            if regime != "small" and abs(np.linalg.norm(UBc @ got) - 4 * pi / wl * sin(th)) > 1e-8 * (1 + 4 * pi / wl):
                bad = f"|UB.hkl| = {np.linalg.norm(UBc @ got)} but (4 pi/lambda) sin(theta) = {4 * pi / wl * sin(th)} at {p}"
                break
            if rng.random() < 0.4:
                # ONE Position object, moved through its setters between two evaluations (a scan does exactly this): each answer is for the angles the
                # object holds at that moment
                P = Position(*[float(x) + 1.25 for x in pa])      # angles not seen by this calculator before
                try:
                    hc.get_hkl(P, wl)
                    if rng.random() < 0.5:
                        hc.get_virtual_angles(P)
                    nm = rng.choice(["mu", "delta", "nu", "eta", "chi", "phi"])
                    setattr(P, nm, getattr(P, nm) + rng.choice([10.0, -33.0, 0.5, 90.0]))
                    moved = np.array(hc.get_hkl(P, wl), float)
                    refm = fwd(UBc, tuple(float(x) for x in P.astuple), wl)
                except Exception as e:  # noqa
                    bad = f"get_hkl on a Position object moved through its setters raised {type(e).__name__}: {e}"
                    break
                kinds.add((seq, "moved-object"))
                if np.abs(moved - refm).max() > 1e-9 * (1 + np.abs(refm).max()):
                    bad = (f"get_hkl of ONE Position object evaluated at {tuple(round(x, 4) for x in p)}, then moved by its {nm} setter to {tuple(round(float(x), 4) for x in P.astuple)}: "
                           f"{moved.tolist()}, the forward model gives {refm.tolist()}")
                    break
            if rng.random() < 0.4:
                # the caller owns what the public helpers hand out: scribbling on the six matrices of this position (or on the result)
                # must not reach any later evaluation
                from diffcalc.hkl.geometry import get_rotation_matrices
                from harness.variants import scribble
                mats6 = get_rotation_matrices(Position(*pa))
                scribble(list(mats6))
                kinds.add((seq, "scribbled"))
                try:
                    again = np.array(hc.get_hkl(Position(*pa), wl), float)
                except Exception as e:  # noqa
                    bad = (f"after the caller overwrote the arrays returned by get_rotation_matrices{tuple(round(x, 4) for x in p)}, get_hkl at the same "
                           f"position raised {type(e).__name__}: {e}")
                    break
                if np.abs(again - ref).max() > 1e-9 * sc:
                    bad = (f"after the caller overwrote the arrays returned by get_rotation_matrices{tuple(round(x, 4) for x in p)}, get_hkl at the same "
                           f"position = {again.tolist()}, the forward model gives {ref.tolist()}")
                    break
            got2 = np.array(hc.get_hkl(Position(*p), 2 * wl), float)
            if np.abs(got2 * 2 - got).max() > 1e-9 * sc:
                bad = f"hkl does not scale as 1/lambda at {p}"
                break
            j = rng.randrange(6)
            p3 = list(p); p3[j] += 360.0
            got3 = np.array(hc.get_hkl(Position(*p3), wl), float)
            if np.abs(got3 - got).max() > 1e-9 * sc * 10:
                bad = f"adding 360 deg to axis {j} changed hkl at {p}"
                break
        if bad:
            ctx.violation(bad, {"pos": p, "wl": wl, "UB": UBc.tolist(), "sequence": seq}, {"kind": "forward-model", "sequence": seq})
    ctx.stream("oracle:forward-model", cases, len(kinds))


def replay(ctx, data):
    print(data["what"]); return 0
