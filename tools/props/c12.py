"""C12 — queries are pure: no state change, same answer every time."""
import copy, math, pickle
import numpy as np
from vlib import quiet
from harness.common import rot_from_rotvec, VOID, AXES, mk_ub
from harness import pipeline as PL, solver as S

SPEC = {
    "gen": ["Rotations", "GetHkl"],
    "modules": ["DiffcalcProofs.Props.C12"],
    "theorems": {"DiffcalcProofs.Props.C12": ["C12.query_frame", "C12.queries_frame", "C12.query_history_independent", "C12.query_deterministic", "C12.naz_split_fresh"]},
    "level": "proof",
    "rule": "histories of 6..40 mixed queries (get_position returning and raising incl. hkl=(0,0,0) and unreachable hkl, naz modes, get_hkl, get_virtual_angles, "
            "the caller editing a Position object in place and passing it again, str()) on ONE calculator object per mode; before/after every call a deep snapshot "
            "(pickled asdict, raw U/UB bytes, constraint values, ids of the nested containers, reference/surface vectors) is compared; every answer is compared with the answer "
            "of a freshly built calculator in the same state and with the model (which is a function of the state by construction); distinct = distinct (mode, query kind, outcome)",
    "assumptions": ["the theorems state the shape of the model (queries are functions of the calculator record); whether the Python properties really rebuild their dictionaries "
                    "on every access is a modelling fact carried by the correspondence on histories"],
    "partial": "the theorem content is 'the model's queries are functions of the state'; the assurance for the implementation comes from the history correspondence",
}


def snapshot(hc):
    ub, c = hc.ubcalc, hc.constraints
    return pickle.dumps((hc.asdict, None if ub.U is None else np.asarray(ub.U).tobytes(), None if ub.UB is None else np.asarray(ub.UB).tobytes(),
                         [con.value for con in c._all], ub.reference.n_ref, ub.reference.rlv, ub.surface.n_ref, ub.surface.rlv,
                         id(ub.reflist.reflections), id(ub.orientlist.orientations), id(c._all),
                         None if ub.crystal is None else (ub.crystal.a1, ub.crystal.a2, ub.crystal.a3, ub.crystal.alpha1, ub.crystal.alpha2, ub.crystal.alpha3, ub.crystal.B.tobytes())))


def canon(res):
    if res[0] != "ok":
        return (res[0],)
    return ("ok", tuple(sorted(tuple(round(x, 9) for x in p) + tuple((k, None if math.isnan(v) else round(v, 9)) for k, v in sorted(va.items())) for p, va in res[1])))


def fresh_copy(hc):
    from diffcalc.hkl.calc import HklCalculation
    return HklCalculation.fromdict(pickle.loads(pickle.dumps(hc.asdict)))


def gen_query(rng, good):
    from diffcalc.hkl.geometry import Position
    k = rng.choices(["gp-good", "gp-zero", "gp-far", "gp-other", "gp-along", "hkl", "va", "edit-pos", "str", "mutate", "va-returned"], weights=[30, 8, 8, 14, 10, 12, 12, 10, 6, 9, 8])[0]
    return k


def run_history(ctx, tr, length):
    """returns list of complaints"""
    from diffcalc.hkl.calc import HklCalculation
    from diffcalc.hkl.constraints import Constraints
    from diffcalc.hkl.geometry import Position
    rng = ctx.rng
    ub, kind = PL.rand_ub(rng, rng.choice(["triclinic", "cubicI", "ortho-lab"]))
    r = None
    for _ in range(6):
        r = PL.construct_request(rng, ub, tr)
        if r:
            break
    if r is None:
        return [], 0, set()
    ub2, vals, hkl, P = r
    ub2.add_reflection((1, 0, 0), Position(1, 2, 3, 4, 5, 6), 12.0, "r1"); ub2.add_orientation((0, 1, 0), (0, 1, 0), None, "o1")
    if rng.random() < 0.4:
        # the caller hands the reference / surface vectors over as float ndarrays (and keeps no other copy)
        with quiet():
            ub2.n_phi = np.array(rng.choice([(0.0, 0.0, 1.0), (1.0, 0.0, 0.0), (0.0, 0.6, 0.8)]))
            ub2.surf_nphi = np.array(rng.choice([(0.0, 0.0, 1.0), (0.0, 1.0, 0.0)]))
    hc = HklCalculation(ub2, Constraints(vals))
    along_ref = tuple(float(x) for x in np.linalg.solve(np.asarray(ub2.UB, float), PL.vectors(ub2)[0]) * rng.choice([2.0, 3.0]))
    along_surf = tuple(float(x) for x in np.linalg.solve(np.asarray(ub2.UB, float), PL.vectors(ub2)[1]) * rng.choice([2.0, 3.0]))
    shared_pos = Position(*[rng.uniform(-170, 170) for _ in range(6)])
    first_answers = {}
    returned = []
    kinds = set()
    complaints = []
    n = 0
    for step in range(length):
        k = gen_query(rng, hkl)
        if k == "mutate":
            # a legitimate change of state through the public setters between queries: from here on the calculator must answer like a
            # freshly built one in the NEW state (nothing remembered from the queries made before the change)
            with quiet():
                m = rng.choice(["same-coords-other-frame", "new-vector", "set_u", "constraint", "surface-other-frame", "unimplemented-mode"])
                try:
                    if m == "same-coords-other-frame":
                        v = tuple(float(x) for x in ub2.reference.n_ref)
                        setattr(ub2, "n_phi" if ub2.reference.rlv else "n_hkl", v)
                    elif m == "surface-other-frame":
                        v = tuple(float(x) for x in ub2.surface.n_ref)
                        setattr(ub2, "surf_nphi" if ub2.surface.rlv else "surf_nhkl", v)
                    elif m == "new-vector":
                        setattr(ub2, rng.choice(["n_hkl", "n_phi", "surf_nhkl", "surf_nphi"]), tuple(rng.uniform(-1, 1) for _ in range(3)))
                    elif m == "unimplemented-mode":
                        # a constraint set the solver has no code for: every request is refused, the reports say so — and nothing else changes
                        hc.constraints.asdict = rng.choice([{"naz": 10.0, "mu": 1.0, "eta": 2.0}, {"delta": 5.0, "bisect": True, "chi": 3.0},
                                                            {"qaz": 90.0, "omega": 1.0, "phi": 2.0}, {"psi": 10.0, "bisect": True, "mu": 3.0}])
                    elif m == "set_u":
                        ub2.set_u(rot_from_rotvec([rng.uniform(-0.4, 0.4) for _ in range(3)]) @ np.asarray(ub2.U))
                    else:
                        nm = [n for n in vals if n not in VOID]
                        if nm:
                            setattr(hc.constraints, nm[0], getattr(hc.constraints, nm[0]) + 1.5)
                except Exception:  # noqa
                    pass
            first_answers.clear()
            kinds.add(("mutate", m))
            continue
        before = snapshot(hc)
        key, thunk = None, None
        if k == "va-returned" and not returned:
            k = "gp-good"
        if k == "va-returned":
            # a Position that get_position handed out earlier and that the caller has since moved in place: the angles it carries NOW count
            rp = rng.choice(returned)[0]
            key = ("va", tuple(rp.astuple))
            def thunk(h=hc, rp=rp):
                with quiet():
                    va = h.get_virtual_angles(rp)
                return ("ok-v", tuple((kk, None if math.isnan(v) else round(v, 9)) for kk, v in sorted(va.items())))
        elif k == "gp-good":
            key = ("gp", hkl); thunk = lambda h=hc: S.run_impl("full", h, hkl, 1.0, keep=returned)
        elif k == "gp-zero":
            key = ("gp", (0.0, 0.0, 0.0)); thunk = lambda h=hc: S.run_impl("full", h, (0.0, 0.0, 0.0), 1.0)
        elif k == "gp-far":
            key = ("gp", (9.0, 9.0, 9.0)); thunk = lambda h=hc: S.run_impl("full", h, (9.0, 9.0, 9.0), 1.0)
        elif k == "gp-along":
            # scattering vector parallel to the reference (or surface) vector: the solver substitutes another reference direction
            h2 = rng.choice([along_ref, along_surf])
            key = ("gp", h2); thunk = lambda h=hc, h2=h2: S.run_impl("full", h, h2, 1.0)
        elif k == "gp-other":
            h2 = tuple(round(x * rng.choice([0.5, 1.1, 0.9]), 6) for x in hkl)
            key = ("gp", h2); thunk = lambda h=hc, h2=h2: S.run_impl("full", h, h2, 1.0)
        elif k == "hkl":
            pos = tuple(rng.choice([P, shared_pos.astuple]))
            key = ("hkl", pos); thunk = lambda h=hc, pos=pos: ("ok-v", tuple(round(float(x), 10) for x in h.get_hkl(Position(*pos), 1.0)))
        elif k == "va":
            key = ("va", shared_pos.astuple)
            def thunk(h=hc):
                with quiet():
                    va = h.get_virtual_angles(shared_pos)
                return ("ok-v", tuple((kk, None if math.isnan(v) else round(v, 9)) for kk, v in sorted(va.items())))
        elif k == "edit-pos":
            # the caller edits ITS Position object in place and asks again
            setattr(shared_pos, rng.choice(AXES), rng.uniform(-170, 170))
            key = ("va", shared_pos.astuple)
            def thunk(h=hc):
                with quiet():
                    va = h.get_virtual_angles(shared_pos)
                return ("ok-v", tuple((kk, None if math.isnan(v) else round(v, 9)) for kk, v in sorted(va.items())))
        else:
            key = ("str",); thunk = lambda h=hc: ("ok-v", (str(h), str(h.ubcalc)))
        pos_before = shared_pos.astuple
        try:
            res = thunk()
        except Exception as e:  # noqa
            res = ("EXC:" + type(e).__name__,)
        n += 1
        ans = canon(res) if res[0] in ("ok", "dce") or len(res) == 2 and res[0] not in ("ok-v",) else res
        kinds.add((k, res[0]))
        if snapshot(hc) != before:
            complaints.append(f"query #{step} ({k}) changed the calculator state")
            break
        if shared_pos.astuple != pos_before:
            complaints.append(f"query #{step} ({k}) modified the caller's Position object")
            break
        # same answer as a freshly built calculator in the same state
        try:
            ref = thunk(fresh_copy(hc))
        except Exception as e:  # noqa
            ref = ("EXC:" + type(e).__name__,)
        ref_c = canon(ref) if ref[0] in ("ok", "dce") or len(ref) == 2 and ref[0] not in ("ok-v",) else ref
        # (a scattering vector exactly along the reference vector is a numerical singularity of the solver: the rebuilt calculator differs from the
        #  original in the last bit of the degree/radian conversions, which is enough to change the substituted reference direction; such queries are
        #  compared with their own repetitions and by the state snapshot only)
        singular = False
        if key is not None and key[0] == "gp" and hc.ubcalc.UB is not None:
            # the same singularity reached by construction: the requested scattering vector (anti)parallel to the reference or the surface vector
            qv = np.asarray(hc.ubcalc.UB, float) @ np.asarray(key[1], float)
            for vv in PL.vectors(hc.ubcalc):
                if vv is not None and np.linalg.norm(qv) > 0 and np.linalg.norm(np.cross(qv / np.linalg.norm(qv), np.asarray(vv, float) / np.linalg.norm(vv))) < 1e-6:
                    singular = True
        if k not in ("str", "gp-along") and not singular and ans != ref_c:
            complaints.append(f"query #{step} ({k}, {key[0]}) answered differently from a freshly built calculator in the same state "
                              f"(after {step} earlier queries): {str(ans)[:140]} vs {str(ref_c)[:140]}")
            break
        if key in first_answers and first_answers[key] != ans:
            complaints.append(f"query #{step} ({k}) repeated an earlier query and got a different answer: {str(ans)[:120]} vs {str(first_answers[key])[:120]}")
            break
        first_answers.setdefault(key, ans)
    return complaints, n, kinds


def correspondence(ctx):
    # the solver model is tied by the pipeline stream; here the same requests are issued twice in different orders
    from props import c01
    reqs = c01.requests(ctx, ctx.scale(1, 20), 0)
    PL.correspondence_stream(ctx, "get_position (request order A)", reqs, "full")
    PL.correspondence_stream(ctx, "get_position (request order B)", list(reversed(reqs)), "full")


def oracle(ctx, widen=1):
    modes = PL.modes()
    nmodes = ctx.scale(60, len(modes)) * widen
    chosen = [m for m in modes if "naz" in m][:ctx.scale(12, 48)] + [ctx.rng.choice(modes) for _ in range(nmodes)]
    total, kinds = 0, set()
    for tr in chosen:
        complaints, n, ks = run_history(ctx, tr, ctx.rng.randint(6, ctx.scale(16, 40)))
        total += n; kinds |= {(("naz" in tr),) + k for k in ks}
        for cmsg in complaints:
            ctx.violation(f"mode {list(tr)}: {cmsg}", {"mode": list(tr), "seed": ctx.seed}, {"kind": "impure-query", "what": cmsg.split("(")[1].split(")")[0] if "(" in cmsg else "?"})
    ctx.stream("oracle:query-histories", total, len(kinds), histories=len(chosen))
    # requests on aligned / degenerate set-ups, where the solver gives up half-way ("... cannot be chosen uniquely"): a refused query is
    # still a query — the calculator is as it was, and the same question gets the same answer again
    from diffcalc.hkl.calc import HklCalculation
    from diffcalc.hkl.constraints import Constraints
    reqs = PL.aligned_requests(ctx.rng, ctx.scale(1, 6) * widen) + PL.degenerate_requests(ctx.rng, ctx.scale(60, 2000) * widen)
    outcomes = set()
    for ub, vals, hkl, wl, tag in reqs:
        hc = HklCalculation(ub, Constraints(vals))
        before = snapshot(hc)
        r1 = canon(S.run_impl("full", hc, hkl, wl))
        mid = snapshot(hc)
        r2 = canon(S.run_impl("full", hc, hkl, wl))
        outcomes.add((tuple(sorted(vals)), r1[0]))
        what = None
        if mid != before:
            what = "changed the calculator state"
        elif snapshot(hc) != before:
            what = "changed the calculator state when repeated"
        elif r1 != r2:
            what = f"was answered differently when repeated: {str(r1)[:100]} vs {str(r2)[:100]}"
        if what:
            ctx.violation(f"mode { {k: (v if v is True else round(v, 4)) for k, v in vals.items()} } get_position{tuple(hkl)} [{tag}] ({r1[0]}) {what}",
                          {"constraints": vals, "hkl": list(hkl), "wl": wl}, {"kind": "impure-query", "what": "aligned request " + r1[0]})
    ctx.stream("oracle:aligned-requests", len(reqs) * 2, len(outcomes))
    # calculators that are not complete yet (a lattice and references entered, but no U / UB worked out; or U without a lattice): every
    # query is refused or answered as it may be — and leaves the calculation exactly as incomplete as it was
    from diffcalc.ub.calc import UBCalculation
    from diffcalc.hkl.geometry import Position
    nlc, seen = 0, set()
    for it in range(ctx.scale(40, 1500) * widen):
        rng = ctx.rng
        ub = UBCalculation("incomplete")
        stage = rng.choice(["lattice+refl", "lattice+refl+orient", "lattice+2refl", "u-only", "lattice-only", "refl-only"])
        with quiet():
            if stage != "u-only" and stage != "refl-only":
                ub.set_lattice("x", *rng.choice([(4.0,), (4.1, 5.2, 6.3), (4.1, 5.2, 6.3, 80, 95, 100)]))
            if stage == "u-only":
                ub.set_u(rot_from_rotvec([rng.uniform(-1, 1) for _ in range(3)]))
            if "refl" in stage:
                ub.add_reflection((1, 0, 0), Position(0, 60, 0, 30, 0, 0), 12.39842, "r1")
            if stage == "lattice+2refl":
                ub.add_reflection((0, 1, 0), Position(0, 60, 0, 30, 0, 90), 12.39842, "r2")
            if "orient" in stage:
                ub.add_orientation((0, 0, 1), (0, 0, 1), None, "o1")
        tr = rng.choice(PL.modes())
        vals = {nm: (True if nm in VOID else rng.uniform(5, 80)) for nm in tr}
        hc = HklCalculation(ub, Constraints(vals))
        pos = Position(*[rng.uniform(-60, 60) for _ in range(6)])
        qs = [("get_position", lambda: S.run_impl("full", hc, (1.0, 0.3, 0.2), 1.0)), ("get_hkl", lambda: ("ok-v", tuple(float(x) for x in hc.get_hkl(pos, 1.0)))),
              ("get_virtual_angles", lambda: ("ok-v", tuple(sorted((k, None if math.isnan(v) else round(v, 9)) for k, v in hc.get_virtual_angles(pos).items())))),
              ("str", lambda: ("ok-v", (str(hc), str(ub))))]
        rng.shuffle(qs)
        first = {}
        for rnd in range(2):
            for name, thunk in qs:
                before = snapshot(hc)
                try:
                    with quiet():
                        ans = thunk()
                except Exception as e:  # noqa
                    ans = ("EXC:" + type(e).__name__,)
                ans = canon(ans) if ans[0] in ("ok", "dce") else ans
                nlc += 1
                seen.add((stage, name, ans[0]))
                what = None
                if snapshot(hc) != before:
                    what = "changed the calculator state"
                elif name in first and first[name] != ans:
                    what = f"was answered differently the second time ({str(first[name])[:80]} vs {str(ans)[:80]})"
                first.setdefault(name, ans)
                if what:
                    ctx.violation(f"incomplete calculation ({stage}), mode {sorted(vals)}: {name} ({ans[0]}) {what}",
                                  {"stage": stage, "mode": sorted(vals), "query": name}, {"kind": "impure-query", "what": "incomplete calculation " + name})
                    break
    ctx.stream("oracle:incomplete-calculations", nlc, len(seen))


def replay(ctx, data):
    print(data["what"]); print(data["replay"]); return 0
