"""C20 — polar offset of a reciprocal vector round-trips for every azimuth."""
import math
import numpy as np
from math import radians, degrees
from vlib import drive, f2h, h2f, quiet, angdiff
from harness.common import mk_ub, rot_from_rotvec

SPEC = {
    "gen": [],
    "modules": ["DiffcalcProofs.Props.C20", "DiffcalcProofs.Props.C20Round"],
    "theorems": {"DiffcalcProofs.Props.C20": [
        "C20.rodrigues_apply", "C20.forward_norm", "C20.offset_closed", "C20.offset_components", "C20.forward_angle",
        "C20.azimuth_recovered", "C20.gate_open"],
        "DiffcalcProofs.Props.C20Round": ["C20.cosBetween_eq", "C20.forward_closed", "C20.auxAxis_pos", "C20.polar_roundtrip"]},
    "level": "proof",
    "rule": "reference vectors (random, axis-aligned, along the lab y and z axes so that the auxiliary axis switches), polar angles in (0,180), azimuths on a fine "
            "sweep plus every multiple of 30/45/90 deg plus beyond +-360, scales 0.25..4, on cubic/identity, tetragonal/rotated and triclinic/rotated set-ups; the model "
            "(Rodrigues rotation) is compared with both functions; the oracle checks |UB.v'| = |UB.v|, angle = pol, and the inverse returning (pol, az mod 360, s); "
            "distinct = distinct (set-up, reference kind, azimuth class)",
    "assumptions": ["scipy Rotation.from_rotvec is modelled by the Rodrigues formula (validated numerically by the correspondence)"],
    "partial": "proved on the model for every UB = U.B, reference, polar angle in [0,180] with sin(pol) >= 2e-7, every azimuth and every positive scale (polar_roundtrip: the inverse, "
               "composed through angle_between_vectors / bound / plane distances / the azimuth gate, returns (pol, az mod 360, s)); side conditions are the code's own 1e-7 thresholds "
               "(|UB.ref| >= 1e-7, area s|w|^2 sin(pol) >= 1e-7); degrees<->radians conversion of the arguments and scipy's from_rotvec are tied by correspondence",
}

SETUPS = [((1.54,), (0, 0, 0)), ((4.0, 6.0), (0.3, -0.5, 0.7)), ((4.1, 5.2, 6.3, 80, 95, 100), (0.2, 0.6, -0.4)), ((3.0, 3.0, 5.0, 120), (0, 0, 0.3)),
          ((20.0,), (0, 0, 0)), ((0.9,), (0.1, 0.2, 0.3)), ((25.0, 31.0), (0.4, 0.1, -0.2))]


def gen_case(rng):
    lat, rv = rng.choice(SETUPS)
    ub = mk_ub(lattice=lat, rotvec=rv)
    UB = np.asarray(ub.UB, float)
    kind = rng.choice(["random", "axis", "lab-y", "lab-z", "near-lab-y", "near-lab-y", "near-lab-z"])
    if kind == "random":
        ref = np.array([rng.uniform(-2, 2) for _ in range(3)])
        if np.linalg.norm(ref) < 0.3: ref = np.array([1.0, 0.5, 0.2])
    elif kind == "axis":
        ref = np.array(rng.choice([(1, 0, 0), (0, 1, 0), (0, 0, 1), (1, 1, 0), (-1, 0, 2)]), float)
    elif kind.startswith("near-"):
        # a hair off the lab axis at which the auxiliary axis switches (the switch is decided on |UB.hkl| sin(tilt) against 1e-7)
        t = 10.0 ** rng.uniform(-8.5, -5.0); a = rng.uniform(0, 2 * math.pi)
        lab = (np.array([math.sin(t) * math.cos(a), math.cos(t), math.sin(t) * math.sin(a)]) if kind == "near-lab-y"
               else np.array([math.sin(t) * math.cos(a), math.sin(t) * math.sin(a), math.cos(t)]))
        ref = np.linalg.solve(UB, lab) * rng.choice([1.0, 1.0, 2.0, 0.5])
    else:
        lab = np.array([0, 1.0, 0]) if kind == "lab-y" else np.array([0, 0, 1.0])
        ref = np.linalg.solve(UB, lab * rng.uniform(0.5, 3))
    pol = rng.choice([rng.uniform(1, 179), 10.0, 40.0, 90.0, 135.0, 170.0, rng.uniform(1, 179), 0.5, 179.0, 0.02, 179.9])
    azc = rng.choice(["sweep", "special", "wide"])
    az = rng.uniform(-180, 180) if azc == "sweep" else float(rng.choice([0, 30, 45, 90, 135, 180, 200, 270, -45, -90, 360])) if azc == "special" else rng.uniform(-720, 720)
    s = rng.choice([1.0, 2.0, 0.25, 4.0, rng.uniform(0.3, 3), 300.0, 2e5, 1e-3])
    W = np.linalg.norm(UB @ ref)
    if s * W * W * math.sin(math.radians(pol)) < 1e-5:      # the inverse treats |UB.ref x UB.offset| < 1e-7 as parallel: stay clear of that gate
        s = 1e-4 / (W * W * math.sin(math.radians(pol)))
    return ub, tuple(float(x) for x in ref), pol, az, s, (len(lat), kind, azc)


def correspondence(ctx):
    n = ctx.scale(300, 30000)
    lines, exp = [], []
    kinds = set()
    for _ in range(n):
        ub, ref, pol, az, s, k = gen_case(ctx.rng)
        kinds.add(k)
        UB = np.asarray(ub.UB, float)
        v = ub.get_hkl_from_polar_transform(ref, pol, az)
        lines.append("polar.fwd " + " ".join(f2h(x) for x in UB.flatten()) + " " + " ".join(f2h(x) for x in ref) + f" {f2h(radians(pol))} {f2h(radians(az))}")
        exp.append(("vec", [float(x) for x in v]))
        off = tuple(float(x) * s for x in v)
        try:
            r = ub.get_polar_transform_from_hkl(off, ref)
            exp.append(("inv", [float(x) for x in r]))
        except Exception as e:  # noqa
            exp.append(("err", type(e).__name__))
        lines.append("polar.inv " + " ".join(f2h(x) for x in UB.flatten()) + " " + " ".join(f2h(x) for x in np.asarray(ub.crystal.B).flatten()) + " "
                     + " ".join(f2h(x) for x in off) + " " + " ".join(f2h(x) for x in ref))
    ans = drive(lines)
    dis = 0
    for l, a, e in zip(lines, ans, exp):
        ok = True
        try:
            if e[0] == "vec":
                vals = [h2f(t) for t in a.split(" ")]
                ok = all(abs(u - w) <= 1e-8 * (1 + abs(w)) for u, w in zip(vals, e[1]))
            elif e[0] == "inv":
                toks = a.split(" ")
                ok = toks[0] == "ok"
                if ok:
                    pol, az, sc = h2f(toks[1]), (float("nan") if toks[2] == "nan" else h2f(toks[2])), h2f(toks[3])
                    ok = abs(pol - e[1][0]) < 1e-6 and abs(sc - e[1][2]) < 1e-9 * (1 + abs(sc)) and \
                        ((math.isnan(az) and math.isnan(e[1][1])) or (not math.isnan(az) and not math.isnan(e[1][1]) and (angdiff(az, e[1][1]) < 1e-5 or e[1][0] < 1e-3 or e[1][0] > 180 - 1e-3)))
            else:
                ok = not a.startswith("ok")
        except ValueError:
            ok = False
        if not ok:
            dis += 1
            if dis <= 4:
                ctx.broke("correspondence", "Polar.lean vs get_hkl_from_polar_transform / get_polar_transform_from_hkl", f"{l[:50]}...: code -> {e}; model -> {a}")
    ctx.stream("correspondence:polar", len(lines), len(kinds), disagreements=dis)
    ctx.cov["traces_validated_against_impl"] = n
    ctx.sample({"request": lines[0][:100], "answer": ans[0]})


def check_one(ub, ref, pol, az, s):
    """the three clauses of the property against the calculator's CURRENT UB; returns a description of the failure or None"""
    UB = np.asarray(ub.UB, float)
    try:
        v = np.array(ub.get_hkl_from_polar_transform(ref, pol, az), float)
        w, w2 = UB @ np.array(ref), UB @ v
        if abs(np.linalg.norm(w2) - np.linalg.norm(w)) > 1e-9 * np.linalg.norm(w):
            return f"|UB.v'| = {np.linalg.norm(w2)} differs from |UB.v| = {np.linalg.norm(w)}"
        ang = degrees(math.acos(max(-1, min(1, w @ w2 / (np.linalg.norm(w) * np.linalg.norm(w2))))))
        if abs(ang - pol) > 1e-6:
            return f"the offset vector makes {ang} deg with the reference instead of {pol}"
        r = ub.get_polar_transform_from_hkl(tuple(float(x) * s for x in v), ref)
        if abs(r[0] - pol) > 1e-6:
            return f"inverse returned polar angle {r[0]} instead of {pol}"
        if math.isnan(r[1]) or angdiff(r[1], az) > 1e-5:
            return f"inverse returned azimuth {r[1]} instead of {az % 360} (mod 360)"
        if abs(r[2] - s) > 1e-9 * (1 + s):
            return f"inverse returned scale {r[2]} instead of {s}"
    except Exception as e:  # noqa
        return f"raised {type(e).__name__}: {str(e)[:80]}"
    return None


CHANGES = ["set_lattice", "set_lattice_named", "set_u", "set_ub", "set_miscut", "calc_ub", "refine_ub-lattice", "refine_ub-u", "refine_ub-both",
           "fit_ub-lattice", "vectors", "none"]


def change_state(rng, ub, change):
    """one public state change on a calculator that has already been used"""
    from diffcalc.hkl.geometry import Position
    pos = Position(0, 35, 5, 12, 40, 20)
    if change == "set_lattice":
        ub.set_lattice("y", *rng.choice([(5.3, 4.4, 7.1, 85, 99, 93), (2.2,), (3.0, 4.5), (3.1, 4.2, 5.3), (4.0, 5.0, 6.0, 104.0)]))
    elif change == "set_lattice_named":
        ub.set_lattice("y", *rng.choice([("Hexagonal", 3.3, 5.6), ("Cubic", 2.7), ("Rhombohedral", 4.0, 70.0), ("Tetragonal", 3.5, 6.1)]))
    elif change == "set_u":
        ub.set_u(rot_from_rotvec([rng.uniform(-2, 2) for _ in range(3)]))
    elif change == "set_ub":
        ub.set_ub(rot_from_rotvec([rng.uniform(-2, 2) for _ in range(3)]) @ np.asarray(ub.crystal.B))
    elif change == "set_miscut":
        ub.set_miscut((0.3, 1.0, -0.2), rng.uniform(1, 20), rng.random() < 0.5)
    elif change == "calc_ub":
        B = np.asarray(ub.crystal.B, float); U0 = rot_from_rotvec([rng.uniform(-2, 2) for _ in range(3)])
        for h in ((1, 0, 0), (0, 1, 1)):
            ub.add_orientation(h, tuple(float(x) for x in U0 @ B @ np.array(h, float)))
        ub.calc_ub()
    elif change.startswith("refine_ub"):
        ub.refine_ub((1, 0, 1), pos, 1.0, change != "refine_ub-u", change != "refine_ub-lattice")
    elif change == "fit_ub-lattice":
        from diffcalc.ub.calc import UBCalculation
        from diffcalc.hkl.calc import HklCalculation
        from diffcalc.hkl.constraints import Constraints
        from props.c15 import is_angle
        system, params = ub.crystal.get_lattice_params()
        true = UBCalculation("true")
        true.set_lattice("t", system, *[p if is_angle(system, i) else p * 1.02 for i, p in enumerate(params)])
        true.set_u(np.asarray(ub.U, float)); true.n_hkl = (1, 0.2, 0.1)
        hc = HklCalculation(true, Constraints({"qaz": 90, "alpha": 5, "mu": 3}))
        tags = []
        for h in ((1, 0, 0), (0, 1, 0), (0, 0, 1), (1, 1, 0), (0, 1, 1), (1, 0, 1), (1, 1, 1), (-1, 1, 0)):
            try:
                p = hc.get_position(*h, 1.0)[0][0]
            except Exception:  # noqa
                continue
            ub.add_reflection(h, p, 12.39842, f"f{len(tags)}"); tags.append(f"f{len(tags)}")
        ub.fit_ub(tags, True, False)
    elif change == "vectors":
        ub.n_hkl = (0.0, 1.0, 1.0); ub.surf_nphi = (1.0, 0.0, 0.2)


def oracle(ctx, widen=1):
    n = ctx.scale(400, 40000) * widen
    kinds = set()
    for _ in range(n):
        ub, ref, pol, az, s, k = gen_case(ctx.rng)
        kinds.add(k)
        bad = check_one(ub, ref, pol, az, s)
        if bad:
            ctx.violation(f"reference {tuple(round(x, 4) for x in ref)} pol={pol} az={az} scale={s} lattice {len(ub.crystal.get_lattice_params()[1])}-parameter: {bad}",
                          {"ref": list(ref), "pol": pol, "az": az, "s": s, "UB": np.asarray(ub.UB, float).tolist()}, {"kind": "polar-roundtrip", "what": bad.split(" ")[0]})
    ctx.stream("oracle:polar-roundtrip", n, len(kinds))
    # the same calculator object, already used for both transforms, then changed through the public API: the clauses
    # are stated about the calculator's UB, so they must hold for the UB it has NOW
    nseq = ctx.scale(150, 8000) * widen
    kinds2 = set()
    for _ in range(nseq):
        ub, ref, pol, az, s, k = gen_case(ctx.rng)
        history = []
        bad = check_one(ub, ref, pol, az, s)
        for step in range(ctx.rng.randint(1, 3)):
            if bad:
                break
            # one change, or a burst of several changes in a row with no transform in between (a calculator that is re-oriented many times
            # before the next question is asked must answer for the UB it has at the end)
            burst = ctx.rng.choice([1, 1, 1, 2, 3, 4, 6, 9, 12])
            change, applied = None, 0
            for _b in range(burst):
                change = ctx.rng.choice(CHANGES) if burst == 1 or ctx.rng.random() < 0.3 else ctx.rng.choice(["set_u", "set_miscut", "set_ub", "set_lattice"])
                try:
                    with quiet():
                        change_state(ctx.rng, ub, change)
                    applied += 1
                    history.append(change)
                    kinds2.add((change, k[0]))
                except Exception as e:  # noqa
                    history.append(f"{change}!{type(e).__name__}")     # a rejected change leaves the calculator as it was (C17); the clauses still apply
            if not applied:
                continue
            _, ref2, pol2, az2, s2, _ = gen_case(ctx.rng) if ctx.rng.random() < 0.5 else (None, ref, pol, az, s, None)
            W2 = np.linalg.norm(np.asarray(ub.UB, float) @ np.array(ref2))
            if W2 < 1e-6:
                continue
            if s2 * W2 * W2 * math.sin(math.radians(pol2)) < 1e-5:      # stay clear of the inverse's 1e-7 "parallel" gate for the CURRENT UB as well
                s2 = 1e-4 / (W2 * W2 * math.sin(math.radians(pol2)))
            bad = check_one(ub, ref2, pol2, az2, s2)
            if bad:
                bad = f"after {' -> '.join(history)} on a calculator already used for both transforms, reference {tuple(round(x, 4) for x in ref2)} pol={pol2} az={az2}: {bad}"
        if bad:
            ctx.violation(bad, {"history": history, "ref": list(ref), "pol": pol, "az": az, "s": s}, {"kind": "polar-after-change", "change": history[-1] if history else "first-use"})
    ctx.stream("oracle:after-state-change", nseq, len(kinds2))


def replay(ctx, data):
    print(data["what"]); print(data["replay"]); return 0
