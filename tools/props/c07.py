"""C07 — calc_ub recovers the crystal orientation from any two consistent references."""
import math
import numpy as np
from math import radians
from vlib import drive, f2h, h2f, quiet
from harness.common import rot_from_rotvec, Rx, Ry, Rz

SPEC = {
    "gen": ["Rotations", "GetHkl"],
    "modules": ["DiffcalcProofs.Props.C07"],
    "theorems": {"DiffcalcProofs.Props.C07": [
        "C07.cross_rot", "C07.triad_equivariant", "C07.triad_orthonormal", "C07.triad_det_one", "C07.calcUb_recovers", "C07.calcUb_proper",
        "C07.calcUb_first_direction", "C07.triad_parallel_rejected", "C07.triad_error", "C07.rod_align", "C07.fromOne_isRot",
        "C07.fromOne_reproduces", "C07.pick_orientation_by_number", "C07.pick_reflection_first", "C07.select_swap",
        "C07.select_default_two_reflections", "C07.select_default_orientations", "C07.calcUb_error_kinds"]},
    "level": "proof",
    "rule": "UB calculations holding 0-3 reflections and 0-3 orientations (general six-circle positions, random positive scale factors on the "
            "lab directions, tags on some records), lattices of every system, U0 from random rotation vectors plus the identity and 90/180 deg "
            "rotations; calc_ub called with no argument, one argument, two arguments as integers / tags / mixed in both orders, and with "
            "addresses that resolve nowhere; the model's calcUb (selection + triads + Rodrigues single-reflection path) is compared with the "
            "resulting U or the exception class; the oracle checks U = U0, UB = U0.B for consistent data, properness + first direction + "
            "azimuth half-plane for inconsistent data, the single-reflection clause, and rejection of parallel pairs with U, UB untouched; "
            "distinct = distinct (number of reflections, number of orientations, addressing form, reference kinds, outcome)",
    "assumptions": ["numpy inv / norm are modelled by the adjugate inverse and sqrt of the dot product (compared numerically)",
                    "B enters the calc_ub model as a parameter (C06 relates it to the lattice)"],
    "partial": "the U, UB untouched-on-rejection clause and the composition with the reference lists are established by oracle and correspondence; "
               "the theorems cover the triad algebra, recovery, properness, first direction, the single-reflection rotation and the selection table",
}

LATTICES = [(4.0,), (4.0, 6.0), (3.0, 4.0, 5.0), (4.1, 5.2, 6.3, 100.0), (3.0, 3.0, 5.0, 120), (4.1, 5.2, 6.3, 80, 95, 100), ("Rhombohedral", 4.0, 75.0)]
U0S = [(0, 0, 0), (math.pi / 2, 0, 0), (0, math.pi, 0), (0, 0, -math.pi / 2)]


def is_rot(U, tol=1e-9):
    return np.all(np.isfinite(U)) and np.max(np.abs(U.T @ U - np.eye(3))) < tol and abs(np.linalg.det(U) - 1) < tol


def unit(v):
    return v / np.linalg.norm(v)


def Zmat(p):
    mu, de, nu, et, ch, ph = [radians(x) for x in p]
    return Rx(mu) @ Rz(-et) @ Ry(ch) @ Rz(-ph)


def qlab(p):
    mu, de, nu, et, ch, ph = [radians(x) for x in p]
    ki = np.array([0.0, 1.0, 0.0])
    return Rx(nu) @ Rz(-de) @ ki - ki


def rand_pos(rng, kind):
    if kind == "zero":
        return (0.0,) * 6
    if kind == "four":
        return (0.0, rng.uniform(10, 120), 0.0, rng.uniform(-90, 90), rng.uniform(-90, 90), rng.uniform(-180, 180))
    return (rng.uniform(-40, 40), rng.uniform(5, 120), rng.uniform(-60, 60), rng.uniform(-90, 90), rng.uniform(-90, 90), rng.uniform(-180, 180))


def rand_hkl(rng):
    while True:
        h = np.array([rng.randint(-3, 3), rng.randint(-3, 3), rng.randint(-3, 3)], float)
        if rng.random() < 0.3:
            h = h + np.array([rng.uniform(-.5, .5) for _ in range(3)])
        if np.linalg.norm(h) > 0.5:
            return h


def build(rng, consistent=True, parallel=False, nr=None, no=None):
    """a UB calculation with nr reflections and no orientations; returns (ub, U0, B, records) where records are the intended data
    (kind, tag, hkl, xyz, pos).  Consistent: every record agrees with U0."""
    from diffcalc.ub.calc import UBCalculation
    from diffcalc.hkl.geometry import Position
    lat = rng.choice(LATTICES)
    with quiet():
        ub = UBCalculation("c07")
        ub.set_lattice("x", *lat)
    B = np.asarray(ub.crystal.B, float)
    rv = rng.choice(U0S) if rng.random() < 0.25 else tuple(rng.uniform(-2.5, 2.5) for _ in range(3))
    U0 = rot_from_rotvec(list(rv))
    nr = rng.randint(0, 3) if nr is None else nr
    no = rng.randint(0, 3) if no is None else no
    recs_r, recs_o = [], []
    tags = iter(rng.sample(["a", "b", "c", "r1", "o1", "t", "u", "1"], 6))
    first_h = None
    first_rec = None
    par_kind = rng.choice(["hkl", "measured"]) if parallel else None
    for i in range(nr + no):
        is_r = i < nr
        tag = next(tags) if rng.random() < 0.5 else None
        pos = rand_pos(rng, rng.choice(["six", "six", "four"] if is_r else ["six", "six", "four", "zero"]))
        Z = Zmat(pos)
        if is_r:
            # reflection: position general, hkl derived from the measured direction (consistent) or random (inconsistent)
            qphi = Z.T @ qlab(pos)
            if consistent:
                h = np.linalg.solve(U0 @ B, qphi) * rng.uniform(0.5, 6)
            else:
                h = rand_hkl(rng)
            if par_kind == "hkl" and first_h is not None:
                h = first_h * rng.choice([2.0, 0.5, 1.0])
            if par_kind == "measured" and first_rec is not None and first_rec[0] == "R":
                pos = first_rec[4]      # same measured direction, different (non-parallel) hkl
                h = rand_hkl(rng)
            recs_r.append(("R", tag, h, None, pos))
        else:
            h = rand_hkl(rng)
            if par_kind == "hkl" and first_h is not None:
                h = first_h * rng.choice([2.0, 0.5, 1.0])
            if consistent:
                xyz = Z @ U0 @ B @ h * rng.uniform(0.2, 5)
            else:
                xyz = np.array([rng.uniform(-1, 1) for _ in range(3)])
                if np.linalg.norm(xyz) < 0.2:
                    xyz = np.array([0.3, 1.0, -0.4])
            if par_kind == "measured" and first_rec is not None:
                xyz = Z @ uphi(first_rec) * rng.uniform(0.3, 3)      # measured direction parallel to the first record's, hkl not
            recs_o.append(("O", tag, h, xyz, pos))
        if first_h is None:
            first_h = h
            first_rec = (recs_r + recs_o)[0]
    with quiet():
        for _, tag, h, _, pos in recs_r:
            ub.add_reflection(tuple(float(x) for x in h), Position(*pos), 12.0, tag)
        for _, tag, h, xyz, pos in recs_o:
            # the position of an orientation is optional: all zeros may be given as such or left out
            pobj = None if all(x == 0 for x in pos) and rng.random() < 0.6 else Position(*pos)
            ub.add_orientation(tuple(float(x) for x in h), tuple(float(x) for x in xyz), pobj, tag)
    return ub, U0, B, recs_r, recs_o


def choose_args(rng, recs_r, recs_o):
    """an argument pair and the addressing form"""
    nr, no = len(recs_r), len(recs_o)
    form = rng.choice(["none", "none", "one", "two", "two", "two", "two", "bad"])
    if form == "none":
        return (None, None), "none"
    def addr(k):  # k-th record of the concatenation reflections ++ orientations
        rec = (recs_r + recs_o)[k]
        if rec[1] is not None and rng.random() < 0.5:
            return rec[1], "tag"
        if k < nr:
            return k + 1, "int"
        j = k - nr + 1      # an orientation is reachable by integer only when the reflection list is shorter than the index
        if j > nr:
            return j, "int"
        return (rec[1], "tag") if rec[1] is not None else (None, "unreachable")
    if nr + no == 0:
        return (rng.choice([1, "zz", None]), rng.choice([2, "zz"])), "bad"
    if form == "one":
        k = rng.randrange(nr + no)
        a, f = addr(k)
        return (a if a is not None else 1, None), "one-" + f
    if form == "bad":
        return (rng.choice([7, "nope", 1]), rng.choice([9, "nix", 2])), "bad"
    k1 = rng.randrange(nr + no)
    k2 = rng.randrange(nr + no)
    a1, f1 = addr(k1)
    a2, f2 = addr(k2)
    if a1 is None: a1, f1 = 1, "int"
    if a2 is None: a2, f2 = 2, "int"
    return (a1, a2), f"two-{f1}-{f2}"


def expected_selection(recs_r, recs_o, a1, a2):
    """documented semantics, independent of the implementation: an address is looked up among the reflections first, then the orientations;
    no arguments = the first two of refl 1, refl 2, orient 1, orient 2 that exist (one reflection alone = single-reflection path)"""
    def look(lst, a):
        if isinstance(a, str):
            for r in lst:
                if r[1] == a: return r
            return None
        if isinstance(a, int) and 1 <= a <= len(lst):
            return lst[a - 1]
        return None
    if a1 is None and a2 is None:
        if len(recs_r) == 1:
            return ("one", recs_r[0])
        c = [r for r in (look(recs_r, 1), look(recs_r, 2), look(recs_o, 1), look(recs_o, 2)) if r is not None]
        return ("two", c[0], c[1]) if len(c) >= 2 else ("dce",)
    if a2 is None:
        r = look(recs_r, a1)
        return ("one", r) if r is not None else ("err",)
    if a1 is None:
        return ("dce",)
    r1 = look(recs_r, a1) or look(recs_o, a1)
    r2 = look(recs_r, a2) or look(recs_o, a2)
    return ("two", r1, r2) if r1 is not None and r2 is not None else ("dce",)


def uphi(rec):
    Z = Zmat(rec[4])
    return Z.T @ (qlab(rec[4]) if rec[0] == "R" else np.asarray(rec[3], float))


def wire(B, recs_r, recs_o, a1, a2):
    def enc(a):
        return "-" if a is None else (f"#{a}" if isinstance(a, int) else f"@{a}")
    toks = ["calcub"] + [f2h(x) for x in B.flatten()] + [enc(a1), enc(a2)]
    for k, tag, h, xyz, pos in recs_r + recs_o:
        toks += [k, tag if tag is not None else "~"] + [f2h(float(x)) for x in h]
        if k == "O":
            toks += [f2h(float(x)) for x in xyz]
        toks += [f2h(math.radians(x)) for x in pos]
    return " ".join(toks)


def call(ub, a1, a2):
    from diffcalc.util import DiffcalcException
    # integer addresses may be Python ints or numpy integers
    npint = lambda a, t: (t(a) if isinstance(a, int) and not isinstance(a, bool) else a)
    if isinstance(a1, int) and a1 % 3 == 2: a1 = npint(a1, np.int64)
    if isinstance(a2, int) and a2 % 2 == 0: a2 = npint(a2, np.int32)
    with quiet():
        try:
            if a1 is None and a2 is None:
                ub.calc_ub()
            elif a2 is None:
                ub.calc_ub(a1)
            else:
                ub.calc_ub(a1, a2)
            return "ok", np.asarray(ub.U, float)
        except DiffcalcException as e:
            return "dce", str(e)
        except Exception as e:  # noqa
            return type(e).__name__, str(e)


def singular(B, sel):
    """the call sits on a numerical singularity of calc_ub (result decided by rounding)"""
    if sel[0] == "one" and sel[1] is not None:
        c, p = unit(B @ sel[1][2]), unit(uphi(sel[1]))
        return np.linalg.norm(np.cross(c, p)) < 1e-7
    if sel[0] == "two":
        for x, y in ((B @ sel[1][2], B @ sel[2][2]), (uphi(sel[1]), uphi(sel[2]))):
            n1 = np.linalg.norm(np.cross(x, y)); n2 = np.linalg.norm(np.cross(np.cross(x, y), x))
            if 1e-8 < n1 < 1e-6 or 1e-8 < n2 < 1e-6:
                return True
    return False


def correspondence(ctx):
    n = ctx.scale(400, 20000)
    lines, exp, kinds, sing = [], [], set(), []
    for i in range(n):
        mode = ctx.rng.choice(["cons", "cons", "incons", "parallel"])
        ub, U0, B, rr, ro = build(ctx.rng, consistent=(mode == "cons"), parallel=(mode == "parallel"))
        (a1, a2), form = choose_args(ctx.rng, rr, ro)
        lines.append(wire(B, rr, ro, a1, a2))
        r = call(ub, a1, a2)
        exp.append(r)
        kinds.add((len(rr), len(ro), form, r[0]))
        sing.append(singular(B, expected_selection(rr, ro, a1, a2)))
    ans = drive(lines)
    dis = skipped = 0
    for l, a, e, sg in zip(lines, ans, exp, sing):
        if e[0] == "ok":
            ok = a.startswith("ok ")
            if ok:
                vals = np.array([h2f(t) for t in a.split(" ")[1:]]).reshape(3, 3)
                ok = bool(np.all(np.abs(vals - e[1]) < 1e-7)) or (not np.all(np.isfinite(e[1])) and not np.all(np.isfinite(vals)))
        else:
            ok = a == e[0]
        if not ok and sg:
            skipped += 1    # 0/0 in the single-reflection axis, or a pair within rounding of the 1e-7 gate: the outcome is decided by rounding
            continue
        if not ok:
            dis += 1
            if dis <= 4:
                ctx.broke("correspondence", "CalcUB.lean calcUb vs UBCalculation.calc_ub", f"{l[:60]}...: code -> {e[0]} {str(e[1])[:80]}; model -> {a[:80]}")
    ctx.stream("correspondence:calc_ub", len(lines), len(kinds), disagreements=dis, skipped_singular=skipped)
    ctx.cov["traces_validated_against_impl"] = n
    ctx.sample({"request": lines[0][:120], "answer": ans[0][:80]})


def antiparallel_single(ctx, n):
    """single reflection whose measured direction is (nearly) OPPOSITE to B.hkl: U is then a rotation by (nearly) 180 deg about a well defined
    axis; also the mirror case, measured direction a hair off B.hkl itself (rotation by a tiny angle)"""
    from diffcalc.ub.calc import UBCalculation
    from diffcalc.hkl.geometry import Position
    kinds = set()
    for _ in range(n):
        lat = ctx.rng.choice(LATTICES)
        with quiet():
            ub = UBCalculation("c07a")
            ub.set_lattice("x", *lat)
        B = np.asarray(ub.crystal.B, float)
        pos = rand_pos(ctx.rng, ctx.rng.choice(["six", "four"]))
        p = unit(Zmat(pos).T @ qlab(pos))
        sgn = ctx.rng.choice([-1.0, -1.0, 1.0])
        sv = 10.0 ** ctx.rng.uniform(-7.3, -2.0)
        v = np.cross(p, [ctx.rng.uniform(-1, 1) for _ in range(3)])
        if np.linalg.norm(v) < 1e-3:
            continue
        c = unit(sgn * p + sv * unit(v))
        h = np.linalg.solve(B, c) * ctx.rng.uniform(0.5, 4)
        with quiet():
            ub.add_reflection(tuple(float(x) for x in h), Position(*pos), 12.0, "r")
        r = call(ub, None, None)
        c = unit(B @ h)
        s = np.linalg.norm(np.cross(c, p))
        kinds.add(("anti" if sgn < 0 else "para", int(math.log10(sv)), r[0]))
        bad = None
        if r[0] != "ok":
            bad = f"raised {r[0]}: {r[1][:80]}"
        elif not np.all(np.isfinite(r[1])):
            bad = "U is not finite"
        elif not is_rot(r[1], 1e-8):
            bad = "U is not a proper rotation"
        elif np.max(np.abs(r[1] @ c - p)) > 1e-8 + 1e-15 / s:
            bad = f"U does not reproduce the reflection: U.B.h points {math.degrees(math.acos(max(-1, min(1, float((r[1] @ c) @ p))))):.6f} deg away from the measured direction"
        if bad:
            ctx.violation(f"single reflection whose measured direction is {math.degrees(math.asin(min(1.0, s))):.3g} deg from {'the opposite of ' if sgn < 0 else ''}B.hkl "
                          f"(hkl={tuple(round(float(x), 6) for x in h)}, position {tuple(round(x, 4) for x in pos)}, lattice {lat}): {bad}",
                          {"hkl": [float(x) for x in h], "pos": list(pos), "lattice": list(lat)}, {"kind": "single-near-parallel", "what": bad.split(":")[0][:30]})
    ctx.stream("oracle:single-reflection-near-(anti)parallel", n, len(kinds))


def mutate_lists(rng, ub, B, U0, rr, ro, good):
    """a few edits of the two reference lists through the public wrappers, mirrored on the intended data (rr, ro); `good` holds the
    records that agree with U0.  By-tag look-ups are made first, so that anything remembered about tags is in place."""
    from diffcalc.hkl.geometry import Position
    with quiet():
        for lst, num in ((rr, ub.get_tag_refl_num), (ro, ub.get_tag_orient_num)):
            for rec in lst:
                if rec[1] is not None and rng.random() < 0.7:
                    num(rec[1])
        for _ in range(rng.randint(1, 3)):
            which = rng.choice(["R", "O"])
            lst = rr if which == "R" else ro
            k = rng.choice(["swap", "swap", "del", "retag", "add", "scribble"])
            addr = lambda i: (lst[i][1] if lst[i][1] is not None and [r[1] for r in lst].index(lst[i][1]) == i and rng.random() < 0.5 else i + 1)
            if k == "swap" and len(lst) >= 2:
                i, j = rng.sample(range(len(lst)), 2)
                (ub.swap_reflections if which == "R" else ub.swap_orientations)(addr(i), addr(j))
                lst[i], lst[j] = lst[j], lst[i]
            elif k == "del" and len(lst) >= 2:
                i = rng.randrange(len(lst))
                (ub.del_reflection if which == "R" else ub.del_orientation)(addr(i))
                del lst[i]
            elif k == "retag" and lst:
                i = rng.randrange(len(lst))
                tag = rng.choice(["a", "b", "c", "r1", "o1", "1", "2"])
                kind, _, h, xyz, pos = lst[i]
                a = addr(i)
                if which == "R":
                    ub.edit_reflection(a, tuple(float(x) for x in h), Position(*pos), 12.0, tag)
                else:
                    ub.edit_orientation(a, tuple(float(x) for x in h), tuple(float(x) for x in xyz), Position(*pos), tag)
                rec = (kind, tag, h, xyz, pos)
                if any(lst[i] is g for g in good):
                    good.append(rec)
                lst[i] = rec
            elif k == "scribble" and lst:
                # the caller corrects the angles of ONE stored record in place, on the object the getter hands out: that record changes,
                # no other record does
                i = rng.randrange(len(lst))
                obj = (ub.get_reflection if which == "R" else ub.get_orientation)(i + 1)
                newpos = tuple(rng.uniform(-60, 60) for _ in range(6))
                for ax, v in zip(("mu", "delta", "nu", "eta", "chi", "phi"), newpos):
                    setattr(obj.pos, ax, v)
                kind, tag, h, xyz, _ = lst[i]
                lst[i] = (kind, tag, h, xyz, newpos)
            elif k == "add":
                # a record that does NOT agree with U0 (a bad reflection kept in the list)
                tag = rng.choice(["a", "b", "c", "x", "y", None])
                pos = rand_pos(rng, "six")
                h = rand_hkl(rng)
                if which == "R":
                    ub.add_reflection(tuple(float(x) for x in h), Position(*pos), 12.0, tag)
                    rr.append(("R", tag, h, None, pos))
                else:
                    xyz = np.array([rng.uniform(-1, 1) for _ in range(3)]) + np.array([0.0, 1.5, 0.0])
                    ub.add_orientation(tuple(float(x) for x in h), tuple(float(x) for x in xyz), Position(*pos), tag)
                    ro.append(("O", tag, h, xyz, pos))


def judge(ub, U0, B, rr, ro, a1, a2, consistent, before, r, sel):
    """the clauses of the property for one calc_ub call whose documented selection is `sel`"""
    bad = None
    if sel[0] == "two":
        _, r1, r2 = sel
        c1, c2 = B @ r1[2], B @ r2[2]
        p1, p2 = uphi(r1), uphi(r2)
        nc = np.linalg.norm(np.cross(unit(c1), unit(c2)))
        npp = np.linalg.norm(np.cross(unit(p1), unit(p2)))
        if r1 is r2 or nc < 1e-9 or npp < 1e-9:
            if r[0] != "dce":
                bad = f"parallel references were not rejected with DiffcalcException (got {r[0]})"
        elif nc < 1e-3 or npp < 1e-3 or min(np.linalg.norm(np.cross(c1, c2)), np.linalg.norm(np.cross(p1, p2))) < 1e-5:
            pass    # near the threshold either outcome is legitimate
        elif r[0] != "ok":
            bad = f"raised {r[0]}: {r[1][:80]}"
        else:
            U = r[1]
            if not is_rot(U):
                bad = "U is not a proper rotation"
            elif np.max(np.abs(np.asarray(ub.UB, float) - U @ B)) > 1e-9:
                bad = "UB differs from U.B"
            elif consistent and np.max(np.abs(U - U0)) > 1e-8 / min(nc, npp):
                bad = f"U differs from the true orientation U0 by {np.max(np.abs(U - U0)):.3g}"
            elif np.max(np.abs(U @ unit(c1) - unit(p1))) > 1e-9:
                bad = "the direction of the first reference is not reproduced"
            else:
                perp = lambda v, a: v - (v @ a) * a
                w = unit(perp(U @ unit(c2), unit(p1))); t = unit(perp(unit(p2), unit(p1)))
                if np.max(np.abs(w - t)) > 1e-7 / min(nc, npp):
                    bad = "the second reference does not fix the azimuth about the first (U.B.h2 is not in the half-plane of u1, u2)"
    elif sel[0] == "one":
        rec = sel[1]
        c, p = unit(B @ rec[2]), unit(uphi(rec))
        s = np.linalg.norm(np.cross(c, p))
        if s > 1e-4:
            if r[0] != "ok":
                bad = f"single reflection: raised {r[0]}: {r[1][:80]}"
            elif not is_rot(r[1], 1e-8):
                bad = "single reflection: U is not a proper rotation"
            elif np.max(np.abs(r[1] @ c - p)) > 1e-8:
                bad = "single reflection: U does not reproduce the reflection"
            elif np.max(np.abs(np.asarray(ub.UB, float) - r[1] @ B)) > 1e-9:
                bad = "single reflection: UB differs from U.B"
    elif sel[0] == "dce":
        if r[0] != "dce":
            bad = f"no usable pair of references, expected DiffcalcException, got {r[0]}"
    if bad is None and r[0] != "ok":
        after = (None if ub.U is None else np.array(ub.U, float), None if ub.UB is None else np.array(ub.UB, float))
        for x, y, nm in ((before[0], after[0], "U"), (before[1], after[1], "UB")):
            if (x is None) != (y is None) or (x is not None and not np.array_equal(x, y)):
                bad = f"rejected call ({r[0]}) changed {nm}"
    return bad


def oracle(ctx, widen=1):
    antiparallel_single(ctx, ctx.scale(150, 6000) * widen)
    n = ctx.scale(400, 20000) * widen
    kinds = set()
    calls = 0
    for i in range(n):
        mode = ctx.rng.choice(["cons", "cons", "cons", "incons", "parallel", "single"])
        if mode == "single":
            ub, U0, B, rr, ro = build(ctx.rng, consistent=ctx.rng.random() < 0.5, nr=ctx.rng.choice([1, 1, 2, 3]))
            if len(rr) == 1 and ctx.rng.random() < 0.5:
                a1, a2, form = None, None, "none"
            else:
                k = ctx.rng.randrange(len(rr))
                a1, a2, form = (rr[k][1] if rr[k][1] is not None and ctx.rng.random() < 0.5 else k + 1), None, "one"
        else:
            ub, U0, B, rr, ro = build(ctx.rng, consistent=(mode == "cons"), parallel=(mode == "parallel"))
            (a1, a2), form = choose_args(ctx.rng, rr, ro)
        good = list(rr + ro) if mode == "cons" else []      # the records that agree with U0 (kept alive: identity is what is compared)
        preset = ctx.rng.random() < 0.5
        if preset:
            with quiet():
                ub.set_u(rot_from_rotvec([0.1, 0.2, -0.3]))
        # the same calculation object goes on being used: its lists are edited (swapped, re-tagged, shortened, a bad record added) and
        # calc_ub is asked again — the references an address designates are those of the list as it is now
        for rnd in range(ctx.rng.choice([1, 1, 2, 3])):
            if rnd:
                try:
                    mutate_lists(ctx.rng, ub, B, U0, rr, ro, good)
                except Exception as e:  # noqa
                    ctx.violation(f"editing the reference lists of a calculation raised {type(e).__name__}: {e}",
                                  {"line": wire(B, rr, ro, a1, a2), "mode": mode}, {"kind": "calc_ub", "what": "list edit raised"})
                    break
                (a1, a2), form = choose_args(ctx.rng, rr, ro)
                form = "after-edits:" + form
            before = (None if ub.U is None else np.array(ub.U, float), None if ub.UB is None else np.array(ub.UB, float))
            sel = expected_selection(rr, ro, a1, a2)
            r = call(ub, a1, a2)
            calls += 1
            kinds.add((mode, len(rr), len(ro), form, sel[0], r[0]))
            desc = f"{len(rr)} reflections + {len(ro)} orientations, calc_ub({a1!r}, {a2!r}), {mode} data" + (", after list edits on the same object" if rnd else "")
            consistent = mode == "cons" and all(any(x is g for g in good) for x in sel[1:] if x is not None)
            bad = judge(ub, U0, B, rr, ro, a1, a2, consistent, before, r, sel)
            if bad:
                ctx.violation(f"{desc}: {bad}", {"line": wire(B, rr, ro, a1, a2), "a1": a1, "a2": a2, "mode": mode, "U0": U0.tolist(), "round": rnd,
                                                 "reflections": [[t, list(map(float, h)), list(p)] for _, t, h, _, p in rr],
                                                 "orientations": [[t, list(map(float, h)), list(map(float, x)), list(p)] for _, t, h, x, p in ro]},
                              {"kind": "calc_ub", "what": bad.split(":")[0][:40]})
                break
    ctx.stream("oracle:calc_ub", calls, len(kinds), objects=n)


def replay(ctx, data):
    print(data["what"]); print(data["replay"]); return 0
