"""C02 — every returned position honours all three active constraints."""
import math
import numpy as np
from vlib import quiet
from harness.common import rot_from_rotvec, VOID, AXES, mk_ub
from harness import pipeline as PL, solver as S
from props import c01

SPEC = {
    "gen": ["Rotations", "GetHkl", "UtilLeaf", "SolverLeaf", "SolverDispatch"],
    "modules": ["DiffcalcProofs.Props.C02", "DiffcalcProofs.Props.C02Bisect", "DiffcalcProofs.Props.TieSolver"],
    "theorems": {"DiffcalcProofs.Props.TieSolver": ["TieSolver.phiAndQaz_generated", "TieSolver.chiAndQaz_generated", "TieSolver.qazValue_generated", "TieSolver.small_generated", "TieSolver.bound_generated", "TieSolver.sign_generated", "TieSolver.sampleFromChiEta_generated", "TieSolver.detFromQaz_generated", "TieSolver.anglesEquivalent_generated", "TieSolver.refConChiMu_generated", "TieSolver.refConMuPhi_generated", "TieSolver.refConEtaPhi_generated", "TieSolver.refConChiPhi_generated", "TieSolver.sampleConPhi_generated", "TieSolver.sampleConChi_generated", "TieSolver.sampleConEta_generated", "TieSolver.sampleConMuChi_generated", "TieSolver.sampleConEtaPhi_generated", "TieSolver.sampleConEtaChi_generated", "TieSolver.sampleConMuPhi_generated", "TieSolver.sampleConMuEta_generated", "TieSolver.detFromDelta_generated", "TieSolver.detFromNu_generated", "TieSolver.sampleConMu_generated", "TieSolver.refConMuEta_generated", "TieSolver.refConChiEta_generated", "TieSolver.sampleConChiPhi_generated", "TieSolver.sampleConOmegaBisect_generated", "TieSolver.sampleConMuBisect_generated", "TieSolver.sampleConEtaBisect_generated", "TieSolver.twoSampleDetector_generated", "TieSolver.twoSampleReference_generated"],
        "DiffcalcProofs.Props.C02": [
        "C02.filter_sound", "C02.tidy_preserves_constrained", "C02.tidy_axes_spec", "C02.passthrough_detSamp2",
        "C02.passthrough_refSamp2", "C02.passthrough_samp3", "C02.passthrough_detRefSamp", "C02.passthrough_detector",
        "C02.getPosition_honours_axes"],
        "DiffcalcProofs.Props.C02Bisect": ["C02.etaVals_rel", "C02.omegaBisect_relation", "C02.muBisect_relation", "C02.etaBisect_relation"]},
    "level": "proof",
    "rule": "all 185 implemented modes x requests from random physical positions + special values + the two degenerate 4-circle families "
            "(chi=0 with mu=nu=0; chi=90 with eta=delta=0) with the rewritten axis constrained / unconstrained / constrained to exactly 0; every "
            "returned element is checked against the constraints as the user stated them with independent geometric pseudo-angles and the bisect relations; "
            "distinct = modes with at least one returned list",
    "assumptions": ["pseudo-angle constraints are compared within 1e-5 deg; the code's own filter uses 1e-7 deg"],
    "partial": "proved for all modes: constrained sample/detector axes are copied unchanged into every candidate and survive the tidy-up; every returned element passed the "
               "read-back filter for reference / qaz / naz constraints. The bisect relations tan(mu) = tan(theta+omega) cos(qaz), sin(eta) = sin(theta+omega) sin(qaz) "
               "are proved exact for every tuple of the three bisect branches (omega constrained: at that omega; mu or eta constrained: for some omega), with the solver's shortcut at "
               "|asin| within 1e-8 of 90 deg spelled out in the statement; that the relation survives tidy-up and unit conversion of the returned position is by correspondence + oracle.",
    "search_widen": 4,
}


def degenerate_requests(ctx, n):
    return PL.degenerate_requests(ctx.rng, n)


def correspondence(ctx):
    reqs = c01.requests(ctx, ctx.scale(1, 40), 0) + degenerate_requests(ctx, ctx.scale(40, 2000))
    PL.correspondence_stream(ctx, "get_position+degenerate", reqs, "full")


def oracle(ctx, widen=1):
    from diffcalc.hkl.calc import HklCalculation
    from diffcalc.hkl.constraints import Constraints
    reqs = (c01.requests(ctx, ctx.scale(3, 200) * widen, ctx.scale(1, 50)) + degenerate_requests(ctx, ctx.scale(60, 3000) * widen)
            + PL.exact_ttheta_requests(ctx.rng, ctx.scale(1, 20) * widen))
    ok_modes = set()
    elements = 0
    for ub, vals, hkl, wl, tag in reqs:
        res = S.run_impl("full", HklCalculation(ub, Constraints(vals)), hkl, wl)
        if res[0] != "ok":
            continue
        ok_modes.add(tuple(sorted(vals)))
        n, s = PL.vectors(ub)
        for pos, va in res[1]:
            elements += 1
            bad = PL.honours(tuple(vals), vals, pos, n, s)
            if bad:
                ctx.violation(f"mode { {k: (v if v is True else round(v, 6)) for k, v in vals.items()} } hkl={tuple(round(x, 5) for x in hkl)} [{tag}]: returned "
                              f"{tuple(round(x, 5) for x in pos)} where {bad[0]}",
                              {"constraints": vals, "hkl": list(hkl), "wl": wl, "UB": np.asarray(ub.UB).tolist()},
                              {"kind": "constraint-not-honoured", "mode": ",".join(sorted(vals)), "family": tag.split(":")[0]})
                break
    ctx.stream("oracle:honours", len(reqs), len(ok_modes), returned_elements=elements)
    # the same HklCalculation object asked again after its reference / surface vectors, constraints or UB changed
    nseq = ctx.scale(80, 4000) * widen
    nq = 0
    for it in range(nseq):
        tr = ctx.rng.choice(PL.modes())
        ub, kind = PL.rand_ub(ctx.rng, ctx.rng.choice(["triclinic", "ortho-lab"]))
        r = PL.construct_request(ctx.rng, ub, tr)
        if r is None:
            continue
        ub2, vals, hkl, P = r
        hc = HklCalculation(ub2, Constraints(vals))
        S.run_impl("full", hc, hkl, 1.0)
        # the identical request once more on the same object (the caller has meanwhile moved the positions it was handed — run_impl does that):
        # whatever comes back must honour the constraints as the first answer did
        again = S.run_impl("full", hc, hkl, 1.0)
        nq += 1
        if again[0] == "ok":
            n0, s0 = PL.vectors(ub2)
            for pos, va in again[1]:
                bad = PL.honours(tuple(vals), vals, pos, n0, s0)
                if bad:
                    ctx.violation(f"mode {sorted(vals)}: the same request repeated on the same calculator returned {tuple(round(x, 5) for x in pos)} where {bad[0]}",
                                  {"constraints": vals, "hkl": list(hkl), "change": "none (repeat)"}, {"kind": "constraint-not-honoured-after-change", "change": "repeat"})
                    break
        change = ctx.rng.choice(["n_hkl", "n_phi", "surf_nhkl", "surf_nphi", "set_u", "constraint"])
        with quiet():
            if change in ("n_hkl", "n_phi", "surf_nhkl", "surf_nphi"):
                setattr(ub2, change, tuple(ctx.rng.uniform(-1, 1) for _ in range(3)))
            elif change == "set_u":
                ub2.set_u(rot_from_rotvec([ctx.rng.uniform(-0.3, 0.3) for _ in range(3)]) @ np.asarray(ub2.U))
            else:
                nm = [n for n in vals if n not in VOID]
                if nm:
                    vals = dict(vals); vals[nm[0]] = vals[nm[0]] + 2.0
                    setattr(hc.constraints, nm[0], vals[nm[0]])
        res = S.run_impl("full", hc, hkl, 1.0)
        nq += 1
        if res[0] != "ok":
            continue
        n, s_ = PL.vectors(ub2)
        for pos, va in res[1]:
            bad = PL.honours(tuple(vals), vals, pos, n, s_)
            if bad:
                ctx.violation(f"mode {sorted(vals)}: the same calculator asked again after `{change}` changed returned {tuple(round(x, 5) for x in pos)} where {bad[0]}",
                              {"constraints": vals, "hkl": list(hkl), "change": change}, {"kind": "constraint-not-honoured-after-change", "change": change})
                break
    ctx.stream("oracle:honours-after-change", nq, nq)


def replay(ctx, data):
    print(data["what"]); print(data["replay"]); return 0
