"""C18 — reflection and orientation lists are faithful 1-based, tag-addressable sequences."""
import numpy as np
from vlib import drive

SPEC = {
    "gen": [],
    "modules": ["DiffcalcProofs.Props.C18"],
    "theorems": {"DiffcalcProofs.Props.C18": [
        "C18.findIdx?_spec", "C18.locate_num", "C18.locate_above", "C18.locate_tag", "C18.add_appends",
        "C18.get_returns", "C18.edit_replaces", "C18.del_closes_gap", "C18.swap_exchanges", "C18.len_tagNum",
        "C18.step_error_unchanged", "C18.bad_address", "C18.history_records", "C18.history_all_rejected"]},
    "level": "proof",
    "rule": "random histories of add/edit/get/delete/swap/len/tag-lookup through UBCalculation's wrappers on both lists, "
            "indices from -1..n+2 and known/unknown/duplicate tags, interleaved between the two lists; the model is stepped with "
            "the same operations and result + full list compared after every operation; the oracle compares with a plain Python "
            "list; distinct = distinct (operation kind, addressing kind, outcome) combinations reached",
    "assumptions": ["records are identified by (h index, tag) for reflections and (h index, tag) for orientations; "
                    "payload round-trip (hkl/position/energy/xyz) is checked by the oracle only",
                    "index 0 and negative indices wrap like Python lists (outside the property's quantifier, modelled for fidelity)"],
}

# tags are arbitrary strings: some look like numbers (scan numbers are a natural tag), and a string is a tag whatever it looks like
TAGS = ["a", "b", "c", "dup", "1", "2", "07", "zz"]


def gen_history(rng, maxlen):
    ops = []
    nid = [0]
    approx = {"refl": 0, "orient": 0}

    def idx(which):
        r = rng.random()
        if r < 0.6:
            return ("#", rng.randint(-1, approx[which] + 2))
        return ("@", rng.choice(TAGS))

    for _ in range(rng.randint(1, maxlen)):
        which = rng.choice(["refl", "orient"])
        k = rng.choices(["add", "edit", "get", "del", "swap", "len", "tagnum"], weights=[30, 14, 18, 12, 14, 4, 8])[0]
        tag = rng.choice(TAGS[:7] + [None, None, None])
        if k == "add":
            approx[which] += 1
            earlier = [o for o in ops if o[0] == which and o[1] == "add"]
            if earlier and rng.random() < 0.2:
                # an exact duplicate of an earlier record (same hkl, position, energy / xyz, same tag): lists may hold equal records
                ops.append((which, "add", earlier[-1][2] if rng.random() < 0.5 else rng.choice(earlier)[2], rng.choice(earlier)[3] if rng.random() < 0.3 else earlier[-1][3]))
            else:
                nid[0] += 1
                ops.append((which, "add", nid[0], tag))
        elif k == "edit":
            nid[0] += 1
            ops.append((which, "edit", idx(which), nid[0], tag))
        elif k in ("get", "del"):
            if k == "del":
                approx[which] = max(0, approx[which] - 1)
            ops.append((which, k, idx(which)))
        elif k == "swap":
            ops.append((which, "swap", idx(which), idx(which)))
        elif k == "len":
            ops.append((which, "len"))
        else:
            ops.append((which, "tagnum", rng.choice(TAGS)))
    return ops


def w_idx(ix):
    return f"{ix[0]}{ix[1]}"


def op_line(op):
    which, k = op[0], op[1]
    t = lambda x: "~" if x is None else x
    if k == "add":
        return f"rl.{which} add {op[2]} {t(op[3])}"
    if k == "edit":
        return f"rl.{which} edit {w_idx(op[2])} {op[3]} {t(op[4])}"
    if k in ("get", "del"):
        return f"rl.{which} {k} {w_idx(op[2])}"
    if k == "swap":
        return f"rl.{which} swap {w_idx(op[2])} {w_idx(op[3])}"
    if k == "len":
        return f"rl.{which} len"
    return f"rl.{which} tagnum {op[2]}"


def payload(i):
    """deterministic record content for id i"""
    from diffcalc.hkl.geometry import Position
    return (float(i), 0.5 * i, -0.25 * i), Position(i, 2 * i, 3 * i, 4 * i, 5 * i, 6 * i), 8.0 + i, (0.1 * i, 1.0, -0.2 * i)


def apply_impl(ub, op):
    """returns result string in the driver's vocabulary"""
    which, k = op[0], op[1]
    def py(ix):
        # an integer index may arrive as a Python int or as any numpy integer (np.arange, array element, ...)
        v = ix[1]
        if isinstance(v, int) and not isinstance(v, bool):
            return (v, np.int64(v), np.int32(v))[(v * 7 + len(k)) % 3]
        return v
    try:
        if which == "refl":
            if k == "add":
                hkl, pos, en, _ = payload(op[2]); ub.add_reflection(hkl, pos, en, op[3]); return "ok"
            if k == "edit":
                hkl, pos, en, _ = payload(op[3]); ub.edit_reflection(py(op[2]), hkl, pos, en, op[4]); return "ok"
            if k == "get":
                r = ub.get_reflection(py(op[2])); return f"rec {int(r.h)}:{'~' if r.tag is None else r.tag}"
            if k == "del":
                ub.del_reflection(py(op[2])); return "ok"
            if k == "swap":
                ub.swap_reflections(py(op[2]), py(op[3])); return "ok"
            if k == "len":
                return f"nat {ub.get_number_reflections()}"
            return f"nat {ub.get_tag_refl_num(op[2])}"
        else:
            if k == "add":
                hkl, pos, en, xyz = payload(op[2]); ub.add_orientation(hkl, xyz, None if op[2] % 4 == 0 else pos, op[3]); return "ok"   # position is optional: None = all zeros
            if k == "edit":
                hkl, pos, en, xyz = payload(op[3]); ub.edit_orientation(py(op[2]), hkl, xyz, None if op[3] % 4 == 0 else pos, op[4]); return "ok"
            if k == "get":
                r = ub.get_orientation(py(op[2])); return f"rec {int(r.h)}:{'~' if r.tag is None else r.tag}"
            if k == "del":
                ub.del_orientation(py(op[2])); return "ok"
            if k == "swap":
                ub.swap_orientations(py(op[2]), py(op[3])); return "ok"
            if k == "len":
                return f"nat {ub.get_number_orientations()}"
            return f"nat {ub.get_tag_orient_num(op[2])}"
    except IndexError:
        return "IndexError"
    except ValueError:
        return "ValueError"
    except Exception as e:  # noqa
        return "EXC:" + type(e).__name__


def state(ub, which):
    if which == "refl":
        return ",".join(f"{int(r.h)}:{'~' if r.tag is None else r.tag}" for r in ub.reflist.reflections)
    return ",".join(f"{int(r.h)}:{'~' if r.tag is None else r.tag}" for r in ub.orientlist.orientations)


def correspondence(ctx):
    from diffcalc.ub.calc import UBCalculation
    n = ctx.scale(300, 20000)
    maxlen = ctx.scale(30, 80)
    lines, expect, where = [], [], []
    hs = [gen_history(ctx.rng, maxlen) for _ in range(n)]
    kinds = set()
    for hi, ops in enumerate(hs):
        ub = UBCalculation("t")
        lines += ["rl.refl reset", "rl.orient reset"]; expect += ["ok | ", "ok | "]; where += [(hi, -1), (hi, -1)]
        for oi, op in enumerate(ops):
            res = apply_impl(ub, op)
            if oi % 3 == 1:
                str(ub)                      # a textual report in between is a pure query
            lines.append(op_line(op)); expect.append(f"{res} | {state(ub, op[0])}"); where.append((hi, oi))
            kinds.add((op[0], op[1], op[2][0] if len(op) > 2 and isinstance(op[2], tuple) else "", res.split(" ")[0]))
    ans = drive(lines)
    dis = 0
    for a, e, (hi, oi) in zip(ans, expect, where):
        if a != e:
            dis += 1
            if dis <= 5:
                ctx.broke("correspondence", "RefList.lean vs ReflectionList/OrientationList",
                          f"history {hi} op {oi} ({op_line(hs[hi][oi]) if oi >= 0 else 'reset'}): code -> {e!r}; model -> {a!r}; "
                          f"history: {[op_line(o) for o in hs[hi][:oi + 1]]}")
    ctx.stream("correspondence:list-histories", len(lines), len(kinds), histories=n, disagreements=dis)
    ctx.cov["traces_validated_against_impl"] = n
    ctx.sample({"history": [op_line(o) for o in hs[0][:8]]})


def oracle(ctx, widen=1):
    """plain Python lists as the specification; full records (hkl/position/energy/xyz/tag) compared"""
    from diffcalc.ub.calc import UBCalculation
    from diffcalc.hkl.geometry import Position
    n = ctx.scale(300, 20000) * widen
    maxlen = ctx.scale(30, 80)
    steps = 0
    kinds = set()

    def raw(pos):
        """the stored angles exactly as held (radians), so that a record which went through a degree / radian round trip on the way in or out
        — equal when printed, unequal under the library's own Position.__eq__ — is seen"""
        try:
            return tuple(getattr(pos, "_" + a) for a in ("mu", "delta", "nu", "eta", "chi", "phi"))
        except AttributeError:
            return pos.astuple

    def full(ub, which):
        if which == "refl":
            return [(r.h, r.k, r.l, raw(r.pos), r.energy, r.tag) for r in ub.reflist.reflections]
        return [(r.h, r.k, r.l, r.x, r.y, r.z, raw(r.pos), r.tag) for r in ub.orientlist.orientations]

    def rec(which, i, tag):
        hkl, pos, en, xyz = payload(i)
        if which == "orient" and i % 4 == 0:
            pos = Position()            # the orientation wrappers take the position as optional; an omitted position is the all-zero one
        return (*hkl, raw(pos), en, tag) if which == "refl" else (*hkl, *xyz, raw(pos), tag)

    for hi in range(n):
        ops = gen_history(ctx.rng, maxlen)
        ub = UBCalculation("t")
        spec = {"refl": [], "orient": []}
        for oi, op in enumerate(ops):
            which, k = op[0], op[1]
            L = spec[which]
            other = "orient" if which == "refl" else "refl"
            other_before = full(ub, other)

            def pos_of(ix):
                """spec addressing for the property's quantifier: 1..n or first matching tag; None = outside the quantifier"""
                if ix[0] == "#":
                    i = ix[1]
                    if i >= 1:
                        return (i - 1) if i <= len(L) else IndexError
                    return None
                for j, r in enumerate(L):
                    if r[-1] == ix[1]:
                        return j
                return ValueError

            want, skip = None, False
            newL = list(L)
            if k == "add":
                newL.append(rec(which, op[2], op[3])); want = "ok"
            elif k in ("edit", "get", "del"):
                p = pos_of(op[2])
                if p is None:
                    skip = True
                elif p in (IndexError, ValueError):
                    want = p.__name__
                elif k == "edit":
                    newL[p] = rec(which, op[3], op[4]); want = "ok"
                elif k == "get":
                    want = f"rec {int(L[p][0])}:{'~' if L[p][-1] is None else L[p][-1]}"
                else:
                    del newL[p]; want = "ok"
            elif k == "swap":
                p, q = pos_of(op[2]), pos_of(op[3])
                if p is None or q is None:
                    skip = True
                elif ValueError in (p, q):
                    want = "ValueError"
                elif IndexError in (p, q):
                    want = "IndexError"
                else:
                    newL[p], newL[q] = newL[q], newL[p]; want = "ok"
            elif k == "len":
                want = f"nat {len(L)}"
            else:
                p = pos_of(("@", op[2]))
                want = "ValueError" if p is ValueError else f"nat {p + 1}"
            res = apply_impl(ub, op)
            if oi % 3 == 2:
                str(ub)                      # printing the calculation in between is a pure query
            steps += 1
            got = full(ub, which)
            if skip:
                spec[which] = got  # outside the quantifier (index <= 0): follow the implementation
                continue
            kinds.add((which, k, want.split(" ")[0]))
            bad = None
            if res != want:
                bad = f"{op_line(op)} answered {res}, the plain sequence says {want}"
            elif got != newL:
                bad = f"{op_line(op)} left the {which} list as {[(int(r[0]), r[-1]) for r in got]}, the plain sequence says {[(int(r[0]), r[-1]) for r in newL]}"
            elif full(ub, other) != other_before:
                bad = f"{op_line(op)} changed the other list"
            if bad:
                ctx.violation(bad + f" (history {[op_line(o) for o in ops[:oi + 1]][-6:]})",
                              {"lines": [op_line(o) for o in ops[:oi + 1]]}, {"kind": "sequence-law", "op": k})
                break
            spec[which] = newL
    ctx.stream("oracle:plain-sequence", steps, len(kinds), histories=n)


def replay(ctx, data):
    print("\n".join(data["replay"]["lines"]))
    return 0
