"""C19 — the fixed-index / fixed-|Q| solver returns exactly the plane-sphere intersection."""
import math
import numpy as np
from vlib import drive, f2h, h2f, quiet

_T = [f"C19.{p}{b}_{n}" for p in "hkl" for b in "TF" for n in ("ident", "sound", "complete", "no_solution", "tangent")]
SPEC = {
    "gen": ["FixedQ"],
    "modules": ["DiffcalcProofs.Props.C19"],
    "theorems": {"DiffcalcProofs.Props.C19": _T + [f"C19.{p}_{n}" for p in "hkl" for n in ("divisor_zero_iff", "solve_spec")]},
    "level": "proof",
    "rule": "translation validation of the generated solvers (Float reading) against util.solve_*_fixed_q through "
            "UBCalculation.solve_for_hkl_given_fixed_index_and_q on random invertible matrices, all three index names, coefficient tuples with "
            "zeros selecting the alternative branch, tangent and missing planes; the oracle checks fixed index / plane / sphere residuals and "
            "compares with an independently computed line-sphere intersection; distinct = distinct (index, zero pattern, outcome)",
    "assumptions": ["float equality tests (`divisor == 0.0`, `b != 0`) are exercised with exact zeros; values within rounding of zero are not compared",
                    "np.sqrt of a non-negative discriminant is modelled as the real square root"],
    "search_widen": 6,
}


def gen_case(rng):
    name = rng.choice("hkl")
    while True:
        B = np.array([[rng.uniform(-2, 2) for _ in range(3)] for _ in range(3)])
        if abs(np.linalg.det(B)) > 0.2:
            break
    if rng.random() < 0.2:
        B = np.diag([rng.uniform(0.5, 3)] * 3)   # cubic-like
    if rng.random() < 0.3:
        B = B * rng.choice([1e-2, 3e-2, 1e2])      # a cell of hundreds of length units, or of a hundredth: UB carries the unit, the answer does not
    co = [rng.uniform(-2, 2) for _ in range(3)]
    zp = rng.choice(["none", "none", "a", "b", "c", "ab", "ac", "bc", "int"])
    if zp == "int":
        co = [float(rng.randint(-2, 2)) for _ in range(3)]
    elif zp != "none":
        for ch in zp:
            co["abc".index(ch)] = 0.0
    if rng.random() < 0.25:
        t = rng.choice([1e-4, 1e-3, 1e3])          # the same plane written at another overall scale
        co = [c * t for c in co]
    x = np.array([rng.uniform(-2, 2) for _ in range(3)])
    mode = rng.choice(["hit", "hit", "hit", "miss", "tangentish"])
    d = float(np.dot(co, x))
    q = float(np.linalg.norm(B @ x) ** 2)
    if mode == "miss":
        q = q * rng.uniform(0.0, 0.3) * (rng.random() < 0.7)
    xv = float(x["hkl".index(name)])
    if rng.random() < 0.15:
        xv = 0.0
        d = float(np.dot(co, np.where(np.arange(3) == "hkl".index(name), 0.0, x)))
        q = float(np.linalg.norm(B @ np.where(np.arange(3) == "hkl".index(name), 0.0, x)) ** 2)
    return name, xv, q, B, co, d, zp


def impl(name, xv, q, B, co, d, via_ub=True, general=None):
    from diffcalc.ub.calc import UBCalculation
    from diffcalc.util import DiffcalcException
    ub = UBCalculation("t")
    if general is not None:
        with quiet():
            ub.set_lattice("x", *general)
            ub.set_ub(B)
    else:
        ub.UB = np.array(B)
    try:
        r = ub.solve_for_hkl_given_fixed_index_and_q(name, xv, q, *co, d)
        return "ok", [tuple(float(v) for v in t) for t in r], np.array(ub.UB)
    except DiffcalcException:
        return "dce", None, np.array(ub.UB)
    except Exception as e:  # noqa
        return "EXC:" + type(e).__name__, None, np.array(ub.UB)


def correspondence(ctx):
    n = ctx.scale(600, 60000)
    cases = [gen_case(ctx.rng) for _ in range(n)]
    lines = [f"fq {name} {f2h(xv)} {f2h(q)} " + " ".join(f2h(v) for v in B.flatten()) + " " + " ".join(f2h(v) for v in co) + " " + f2h(d)
             for name, xv, q, B, co, d, zp in cases]
    ans = drive(lines)
    dis, skipped = 0, 0
    kinds = set()
    for a, (name, xv, q, B, co, d, zp) in zip(ans, cases):
        out, sols, _ = impl(name, xv, q, B, co, d)
        kinds.add((name, zp, out))
        if out == "ok":
            ok = a.startswith("ok ")
            if ok:
                vals = [h2f(t) for t in a.split(" ")[1:]]
                flat = [v for t in sols for v in t]
                ok = len(vals) == 6 and all(abs(u - v) <= 1e-6 * (1 + abs(v)) for u, v in zip(vals, flat))
        else:
            ok = a == out
        if not ok:
            # decisions within rounding noise (discriminant ~ 0) are not behavioural differences
            if out in ("ok", "dce") and a.split(" ")[0] in ("ok", "dce") and a.split(" ")[0] != out:
                skipped += 1
                continue
            dis += 1
            if dis <= 5:
                ctx.broke("translation-validation", "Gen/FixedQ.lean vs util.solve_*_fixed_q",
                          f"{name} x={xv} q={q} co={co} d={d} B={B.tolist()}: code -> {out} {sols}; generated -> {a[:200]}")
    ctx.stream("translation-validation:fixedq", n, len(kinds), disagreements=dis, margin_skipped=skipped)
    ctx.cov["programs"] = 3
    ctx.cov["disagreements_checked"] = dis
    ctx.sample({"request": lines[0][:120], "answer": ans[0][:120]})


def intersect(name, xv, q, B, co, d):
    """independent computation of the plane ∩ sphere ∩ {index = xv}: parametrise the line, solve the quadratic"""
    i = "hkl".index(name)
    free = [j for j in range(3) if j != i]
    cu, cw = co[free[0]], co[free[1]]
    rhs = d - co[i] * xv
    if cu == 0 and cw == 0:
        return None
    # point and direction of the line in the (u, w) plane: cu*u + cw*w = rhs
    n2 = cu * cu + cw * cw
    p0 = np.zeros(3); p0[i] = xv; p0[free[0]] = cu * rhs / n2; p0[free[1]] = cw * rhs / n2
    dirv = np.zeros(3); dirv[free[0]] = -cw; dirv[free[1]] = cu
    A = B @ dirv; P = B @ p0
    qa, qb, qc = A @ A, 2 * A @ P, P @ P - q
    disc = qb * qb - 4 * qa * qc
    return disc / (qa * qa), [p0 + t * dirv for t in ((-qb + s * math.sqrt(max(disc, 0))) / (2 * qa) for s in (1, -1))]


def oracle(ctx, widen=1):
    n = ctx.scale(600, 60000) * widen
    kinds = set()
    for it in range(n):
        name, xv, q, B, co, d, zp = gen_case(ctx.rng)
        general = None
        if it % 4 == 3:
            general = ctx.rng.choice([(4.1, 5.2, 6.3, 80, 95, 100), (4.0, 5.0), (3.0,)])
        out, sols, UB = impl(name, xv, q, B, co, d, general=general)
        if general is not None:
            # UB was renormalised by set_ub: restate the request for the UB actually held
            xs = np.array([ctx.rng.uniform(-2, 2) for _ in range(3)]); xs["hkl".index(name)] = xv
            d = float(np.dot(co, xs)); q = float(np.linalg.norm(UB @ xs) ** 2)
            out, sols, UB = impl(name, xv, q, B, co, d, general=general)
        kinds.add((name, zp, out, general is not None))
        ref = intersect(name, xv, q, UB, co, d)
        bad = None
        i = "hkl".index(name)
        scale = 1 + abs(q) + float(np.abs(UB).max()) ** 2 * 12
        if out == "ok":
            if len(sols) != 2:
                bad = f"returned {len(sols)} triples"
            for s in sols or []:
                s = np.array(s)
                if not np.all(np.isfinite(s)):
                    bad = f"returned a non-finite triple {s.tolist()}"
                elif abs(s[i] - xv) > 1e-9 * (1 + abs(xv)):
                    bad = f"fixed index {name} = {s[i]} instead of {xv}"
                elif abs(np.dot(co, s) - d) > 1e-7 * (1 + abs(d) + np.abs(s).max() * 3):
                    bad = f"triple {s.tolist()} is off the plane by {np.dot(co, s) - d:.3e}"
                elif abs(np.linalg.norm(UB @ s) ** 2 - q) > 1e-6 * scale * (1 + np.abs(s).max() ** 2):
                    bad = f"|UB.hkl|^2 = {np.linalg.norm(UB @ s) ** 2} instead of {q} for {s.tolist()}"
            if not bad and ref is not None and ref[0] > 1e-6:
                got = sorted(tuple(np.round(s, 6)) for s in sols)
                want = sorted(tuple(np.round(s, 6)) for s in ref[1])
                if any(np.abs(np.array(g) - np.array(w)).max() > 1e-4 * (1 + np.abs(np.array(w)).max()) for g, w in zip(got, want)):
                    bad = f"returned {got}, the two intersection points are {want}"
        elif out == "dce":
            if ref is not None and ref[0] > 1e-6:
                bad = f"raised DiffcalcException although the plane meets the sphere at {[p.tolist() for p in ref[1]]}"
        else:
            if ref is None or ref[0] < -1e-6:
                bad = f"raised {out} instead of DiffcalcException"
            else:
                bad = f"raised {out}"
        if ref is None and out == "ok":
            bad = "returned triples although both free coefficients vanish (line undefined)"
        if ref is not None and ref[0] < -1e-6 and out == "ok":
            bad = f"returned triples although the plane misses the sphere (normalised discriminant {ref[0]:.3e})"
        if bad:
            ctx.violation(f"solve_for_hkl_given_fixed_index_and_q({name!r}, {xv}, {q}, {co}, {d}) with UB={np.round(UB, 4).tolist()}: {bad}",
                          {"name": name, "x": xv, "q": q, "UB": UB.tolist(), "coef": co, "d": d, "lattice": general}, {"kind": "fixedq", "index": name})
    ctx.stream("oracle:plane-sphere", n, len(kinds))


def replay(ctx, data):
    import vlib
    vlib.import_repo()
    r = data["replay"]
    print(impl(r["name"], r["x"], r["q"], np.array(r["UB"]), r["coef"], r["d"])[:2])
    return 0
