"""C03 — any regular physical position is recovered from its own hkl and constraints."""
import math
import numpy as np
from vlib import angdiff
from harness.common import VOID, AXES
from harness import pipeline as PL, solver as S

SPEC = {
    "gen": ["Rotations", "GetHkl", "SolverLeaf", "UtilLeaf", "SolverDispatch"],
    "modules": ["DiffcalcProofs.Props.C03", "DiffcalcProofs.Props.C03Sample", "DiffcalcProofs.Props.C03Sample2", "DiffcalcProofs.Props.C03Sample3",
                "DiffcalcProofs.Props.C03Sample4", "DiffcalcProofs.Props.C03Sample5", "DiffcalcProofs.Props.C03Sample6", "DiffcalcProofs.Props.C03Sample7",
                "DiffcalcProofs.Props.C03Sample8", "DiffcalcProofs.Props.C03Sample9", "DiffcalcProofs.Props.C03Sample10", "DiffcalcProofs.Props.C03Assembly", "DiffcalcProofs.Props.C03Detector", "DiffcalcProofs.Props.C03Reference", "DiffcalcProofs.Props.C03Assembly2", "DiffcalcProofs.Props.C03Assembly3", "DiffcalcProofs.Props.TieSolver", "DiffcalcProofs.Props.C03Assembly4"],
    "theorems": {"DiffcalcProofs.Props.TieSolver": ["TieSolver.phiAndQaz_generated", "TieSolver.chiAndQaz_generated", "TieSolver.qazValue_generated", "TieSolver.small_generated", "TieSolver.bound_generated", "TieSolver.sign_generated", "TieSolver.sampleFromChiEta_generated", "TieSolver.detFromQaz_generated", "TieSolver.anglesEquivalent_generated", "TieSolver.refConChiMu_generated", "TieSolver.refConMuPhi_generated", "TieSolver.refConEtaPhi_generated", "TieSolver.refConChiPhi_generated", "TieSolver.sampleConPhi_generated", "TieSolver.sampleConChi_generated", "TieSolver.sampleConEta_generated", "TieSolver.sampleConMuChi_generated", "TieSolver.sampleConEtaPhi_generated", "TieSolver.sampleConEtaChi_generated", "TieSolver.sampleConMuPhi_generated", "TieSolver.sampleConMuEta_generated", "TieSolver.detFromDelta_generated", "TieSolver.detFromNu_generated", "TieSolver.sampleConMu_generated", "TieSolver.refConMuEta_generated", "TieSolver.refConChiEta_generated", "TieSolver.sampleConChiPhi_generated", "TieSolver.sampleConOmegaBisect_generated", "TieSolver.sampleConMuBisect_generated", "TieSolver.sampleConEtaBisect_generated", "TieSolver.twoSampleDetector_generated", "TieSolver.twoSampleReference_generated"],
        "DiffcalcProofs.Props.C03": [
        "C03.detFromQaz_complete", "C03.filter_keeps_exact", "C03.hklMatches_exact", "C03.allOrNothing",
        "C03.asin_roots_complete", "C03.acos_roots_complete"],
        "DiffcalcProofs.Props.C03Sample": ["C03.inner_of_sampleSpec", "C03.sameAngle_of_rot", "C03.sampleConMuEta_complete", "C03.sampleConMuEta_total",
                                           "C03.atan_roots_complete", "C03.omegaBisect_complete", "C03.muBisect_complete"],
        "DiffcalcProofs.Props.C03Sample2": ["C03.sampleConMu_complete", "C03.sampleConPhi_complete", "C03.sampleFromChiEta_complete", "C03.sampleConChi_complete",
                                            "C03.sampleConEta_complete"],
        "DiffcalcProofs.Props.C03Sample3": ["C03.lastSampleAngle_complete", "C03.detSpec_congr", "C03.threeSample_complete"],
        "DiffcalcProofs.Props.C03Sample4": ["C03.remainingBranch_complete", "C03.remainingSample_complete"],
        "DiffcalcProofs.Props.C03Sample5": ["C03.etaBisect_complete"],
        "DiffcalcProofs.Props.C03Sample6": ["C03.eta_of_sampleSpec", "C03.sampleConChiPhi_complete"],
        "DiffcalcProofs.Props.C03Sample7": ["C03.mid_of_sampleSpec", "C03.sampleConMuPhi_complete"],
        "DiffcalcProofs.Props.C03Sample8": ["C03.mu_unique", "C03.sampleConEtaPhi_complete"],
        "DiffcalcProofs.Props.C03Sample9": ["C03.eta_unique", "C03.sampleConMuChi_complete"],
        "DiffcalcProofs.Props.C03Sample10": ["C03.etaChiInner_shape", "C03.sampleConEtaChi_complete"],
        "DiffcalcProofs.Props.C03Assembly": ["C03.twoSampleDetector_complete", "C03.detSpec_of_position", "C03.decomposition", "C03.bragg_of_fwd",
                                             "C03.forM'_ok_of_all", "C03.detSamp2_qaz_complete"],
        "DiffcalcProofs.Props.C03Detector": ["C03.sign_mul_eq_of_mul_eq", "C03.detFromDelta_complete", "C03.detFromNu_complete", "C03.detRemaining_complete",
                                             "C03.detSamp2_complete"],
        "DiffcalcProofs.Props.C03Reference": ["C03.refV_entries", "C03.refConChiPhi_complete", "C03.fmec_of_refSpec", "C03.chiAndQaz_complete",
                                              "C03.refConMuPhi_complete", "C03.refConEtaPhi_complete", "C03.phiAndQaz_complete", "C03.refConChiMu_complete",
                                              "C03.shifted_roots", "C03.refConMuEta_complete", "C03.refConChiEta_complete", "C03.twoSampleReference_complete"],
        "DiffcalcProofs.Props.C03Assembly2": ["C03.twoSampleAndReference_eq", "C03.refSamp2_complete", "C03.refSamp2_psi_complete"],
        "DiffcalcProofs.Props.C03Assembly3": ["C03.triadMat_rot", "C03.calcN_triadMat", "C03.dot_rot", "C03.naz_qaz_relation", "C03.pm_roots", "C03.nazQazAngle_generic",
                                              "C03.detOrNaz_complete", "C03.angleBetween_cos", "C03.nphiAlphaTau_tau", "C03.detRefSamp_complete"],
        "DiffcalcProofs.Props.C03Assembly4": ["C03.triad_decomposition", "C03.alpha_of_refSpec", "C03.calcPsi_complete", "C03.nphiAlphaTau_tau_eq", "C03.refSamp2_complete'"]},
    "level": "proof",
    "rule": "all 185 implemented modes: a random physical position P over (-180,180]^6 (constructed to satisfy the void / bisect / omega constraints where the "
            "mode has them), its constraint values read off with independent geometric pseudo-angles, hkl = forward model of P; P must be a regular point "
            "(numerical Jacobian of (hkl, constrained quantities), smallest singular value > 1e-3) and must come back within 1e-5 deg; the model is compared with the "
            "implementation at candidate level (__calc_hkl_to_position); distinct = modes with at least one recovered position",
    "assumptions": ["regularity is judged numerically; bisect modes by construction of a generic position"],
    "partial": "proved: the root-enumeration lemmas (asin / acos pairs exhaust the solutions mod 2 pi), completeness of the detector layer from qaz, an exactly consistent candidate "
               "passes filter and guard, and the all-or-nothing structure of get_position. Branch completeness of the sample layer (every solution of the branch's equation is returned mod 2 pi, "
               "sibling roots cannot lose the list) is proved for: all nine detector+two-sample branches (mu+eta, the three bisect branches, chi+phi, mu+phi directly; "
               "eta+phi, mu+chi, eta+chi by root completeness + the soundness theorem + uniqueness of the last angle, mu_unique / eta_unique); all four single-sample branches of the "
               "detector+reference family (mu, phi, chi, eta given: ZYZ / XZY Euler angles, remainingSample_complete); and the whole three-sample family end to end "
               "(threeSample_complete: free axis from the y-component, qaz read off, detector from qaz). The layer statements are assembled END TO END for all four mode families: a position whose forward model is the requested hkl and which honours the mode's constraints is among "
               "the candidates of __calc_hkl_to_position, every angle mod 2 pi — three-sample (threeSample_complete), detector+two-sample, 27 shapes (detSamp2_complete, through decomposition of the forward "
               "model, bragg_of_fwd, detRemaining_complete incl. the sign filter, twoSampleDetector_complete), reference+two-sample, 42 shapes (refSamp2_complete with twoSampleReference_complete for all six "
               "branches; outright for the six psi modes), detector-or-naz+reference+one-sample, 112 shapes (detRefSamp_complete: _calc_N is a triad, the triad commutes with rotations, naz_qaz_relation, "
               "detOrNaz_complete, remainingSample_complete). Left to correspondence + oracle: what the reference layer contributes (that the alpha it "
               "derives from a beta / a_eq_b / betain / ... constraint is the elevation of P's laboratory reference direction; that P's psi is among the values __calc_psi yields is PROVED from that: alpha_of_refSpec, calcPsi_complete, refSamp2_complete') enters the last two statements as a hypothesis on the produced value; side conditions are the generic branch at P and "
               "'no sibling root makes a later layer raise'; the step from candidates to get_position (tidy-up, filter, guard) is filter_keeps_exact + hklMatches_exact + oracle.",
    "search_widen": 4,
}


def requests(ctx, per_mode):
    out = []
    for tr in PL.modes():
        ub, kind = PL.rand_ub(ctx.rng, ctx.rng.choice(["triclinic", "triclinic", "ortho-lab"]))
        k = 0
        for _ in range(per_mode * 4):
            r = PL.construct_request(ctx.rng, ub, tr)
            if r is None:
                continue
            ub2, vals, hkl, P = r
            if not PL.regular(ub2, tr, P):
                continue
            out.append((ub2, vals, hkl, 1.0, P, tr)); k += 1
            if k >= per_mode:
                break
        # positions with some axes at exactly 0 / 90 / 180 (4-circle sub-geometries included) that are still regular points of the mode
        # (bisect modes excepted: their regularity is judged by construction from a generic position, not by the Jacobian)
        ks = 0
        for _ in range(per_mode * 3 if "bisect" not in tr else 0):
            r = PL.construct_request(ctx.rng, ub, tr, P0=PL.semi_special_position(ctx.rng))
            if r is None:
                continue
            ub2, vals, hkl, P = r
            if not PL.regular(ub2, tr, P):
                continue
            out.append((ub2, vals, hkl, 1.0, P, tr)); ks += 1
            if ks >= 2:
                break
        # one or two axes a hair (1e-6 ... 3e-2 deg) off 0 / +-90 / 180: the band between "exactly special" and "generic", where a widened
        # shortcut or a tolerance in the wrong unit hides
        kn = 0
        for _ in range(per_mode * 3 if "bisect" not in tr else 0):
            P0 = [ctx.rng.uniform(-170, 170) for _ in range(6)]
            axes_in_mode = [AXES.index(nm) for nm in tr if nm in AXES]
            picks = ctx.rng.sample(range(6), ctx.rng.randint(1, 2)) if not axes_in_mode or ctx.rng.random() < 0.4 else [ctx.rng.choice(axes_in_mode)]
            for i in picks:
                P0[i] = float(ctx.rng.choice([0, 90, -90, 180])) + (10.0 ** ctx.rng.uniform(-6, -1.5)) * ctx.rng.choice((-1, 1))
            r = PL.construct_request(ctx.rng, ub, tr, P0=P0)
            if r is None:
                continue
            ub2, vals, hkl, P = r
            if not PL.regular(ub2, tr, P):
                continue
            out.append((ub2, vals, hkl, 1.0, P, tr)); kn += 1
            if kn >= 2:
                break
    return out


def correspondence(ctx):
    reqs = [(ub, vals, hkl, wl, "regular") for ub, vals, hkl, wl, P, tr in requests(ctx, ctx.scale(2, 60))]
    PL.correspondence_stream(ctx, "candidates(__calc_hkl_to_position)", reqs, "h2p")


def mode_class(tr, vals=None, outcome=None):
    if "naz" in tr and any(n in tr for n in ("bin_eq_bout", "betain", "betaout")):
        return "naz+surface-reference"
    if vals is not None and "psi" in tr and outcome == "dce" and abs(math.sin(math.radians(vals["psi"]))) < 2e-6:
        # psi within 1e-4 deg of 0 / 180, where the +psi and -psi roots of eq (25) coincide (recorded known finding)
        return "psi-turning-point"
    return "other"


def oracle(ctx, widen=1):
    from diffcalc.hkl.calc import HklCalculation
    from diffcalc.hkl.constraints import Constraints
    reqs = requests(ctx, ctx.scale(3, 200) * widen)
    recovered = set()
    for ub, vals, hkl, wl, P, tr in reqs:
        res = S.run_impl("full", HklCalculation(ub, Constraints(vals)), hkl, wl)
        bad = None
        if res[0] == "ok":
            if any(max(angdiff(a, b) for a, b in zip(pos, P)) < 1e-5 for pos, _ in res[1]):
                recovered.add(tr)
            else:
                near = min(res[1], key=lambda e: max(angdiff(a, b) for a, b in zip(e[0], P)))[0]
                bad = f"the returned list ({len(res[1])} positions) does not contain it; nearest is {tuple(round(x, 5) for x in near)}"
        elif res[0] == "dce":
            bad = f"get_position raised DiffcalcException: {res[1][:110]}"
        else:
            bad = f"get_position raised {res[0]}: {res[1][:80]}"
        if bad:
            ctx.violation(f"mode {list(tr)}: regular position {tuple(round(x, 4) for x in P)} with its own constraints "
                          f"{ {k: (v if v is True else round(v, 5)) for k, v in vals.items()} } and hkl {tuple(round(x, 5) for x in hkl)}: {bad}",
                          {"constraints": vals, "hkl": list(hkl), "P": P, "UB": np.asarray(ub.UB).tolist(), "n_phi": PL.vectors(ub)[0].tolist(),
                           "surf_nphi": PL.vectors(ub)[1].tolist()},
                          {"kind": "roundtrip", "mode_class": mode_class(tr, vals, res[0]), "mode": ",".join(tr)})
    ctx.stream("oracle:round-trip", len(reqs), len(recovered), modes=len(PL.modes()))


def replay(ctx, data):
    print(data["what"]); print(data["replay"]); return 0
