"""C06 — the B matrix is the Busing-Levy factor of the reciprocal metric."""
import math
import numpy as np
from math import radians, degrees, pi, sin, cos
from vlib import drive, f2h, h2f, quiet
from harness.variants import clone

SPEC = {
    "gen": ["Crystal"],
    "modules": ["DiffcalcProofs.Props.C06", "DiffcalcProofs.Props.C06Angle"],
    "theorems": {"DiffcalcProofs.Props.C06": [
        "C06.Cell.B_closed", "C06.Cell.B_upper_pos", "C06.Cell.BtB_G", "C06.Cell.one_sub_x2_sq", "C06.Cell.sin_beta2",
        "C06.planeDistance_eq", "C06.planeDistance_zero", "C06.cellForSystem_spec", "C06.callForms"],
        "DiffcalcProofs.Props.C06Angle": ["C06.Cell.Gstar_G", "C06.dot_B_B", "C06.norm_B", "C06.planeAngle_crystallographic"]},
    "level": "proof",
    "rule": "translation validation of the generated B matrix / cell tables and of the call-form model against Crystal(...) and "
            "UBCalculation.set_lattice(...) for random admissible cells in all seven systems, every accepted call form (six numbers, system + "
            "minimal / full parameters, inferred short forms incl. (a,a,c,120)) and rejected forms; the oracle checks with numpy that B is upper "
            "triangular with positive diagonal, B^T B = 4 pi^2 G^-1, d(hkl), interplanar angles, Bragg angle, shorthand = full triclinic; "
            "distinct = distinct (system, call form)",
    "assumptions": ["math.acos / sqrt domain errors for non-admissible cells (non-positive volume) are outside the quantifier"],
}

SYSTEMS = ["Cubic", "Tetragonal", "Hexagonal", "Orthorhombic", "Rhombohedral", "Monoclinic", "Triclinic"]


def rand_cell(rng, system):
    minimal, full = _rand_cell(rng, system)
    if rng.random() < 0.1:           # the same numbers as numpy floats
        minimal, full = tuple(np.float64(x) for x in minimal), tuple(np.float64(x) for x in full)
    return minimal, full


def _rand_cell(rng, system):
    a, b, c = (rng.uniform(1.5, 12) for _ in range(3))
    if rng.random() < 0.08:
        # legal but extreme: a long-period, nearly orthogonal cell (genuine B elements below 1e-7 next to ordinary ones), or a cell in units that make
        # every B element tiny
        if system == "Monoclinic":
            c = rng.uniform(1000, 5000)
            be = 90.0 + rng.choice((-1, 1)) * 10.0 ** rng.uniform(-4, -3)
            return (a, b, c, be), (a, b, c, 90, be, 90)
        if system in ("Cubic", "Orthorhombic", "Tetragonal"):
            k = rng.choice([1e8, 3e7, 1e-6])
            a, b, c = a * k, b * k, c * k
    ints = rng.random() < 0.3         # a cell typed in whole numbers: Python ints, not floats (lengths, and the free angles)
    if ints:
        a, b, c = (rng.randint(2, 12) for _ in range(3))
        if system == "Rhombohedral":
            al = rng.randint(40, 115)
            return (a, al), (a, a, a, al, al, al)
        if system == "Monoclinic":
            be = rng.choice([x for x in range(60, 131) if x != 120])     # four bare numbers (a, a, c, 120) ARE the hexagonal short form
            return (a, b, c, be), (a, b, c, 90, be, 90)
        if system == "Triclinic":
            while True:
                al, be, ga = (rng.randint(50, 130) for _ in range(3))
                ca, cb, cg = (cos(radians(x)) for x in (al, be, ga))
                if 1 + 2 * ca * cb * cg - ca * ca - cb * cb - cg * cg > 0.05 and len({a, b, c}) + len({al, be, ga}) > 3:
                    return (a, b, c, al, be, ga), (a, b, c, al, be, ga)
    if system == "Cubic":
        return (a,), (a, a, a, 90, 90, 90)
    if system == "Tetragonal":
        return (a, c), (a, a, c, 90, 90, 90)
    if system == "Hexagonal":
        return (a, c), (a, a, c, 90, 90, 120)
    if system == "Orthorhombic":
        return (a, b, c), (a, b, c, 90, 90, 90)
    if system == "Rhombohedral":
        al = rng.uniform(40, 115)
        return (a, al), (a, a, a, al, al, al)
    if system == "Monoclinic":
        be = rng.uniform(60, 130)
        return (a, b, c, be), (a, b, c, 90, be, 90)
    lookalike = rng.random() < 0.3       # a general cell whose numbers look like another system's (a == b, an angle of exactly 120 or 90)
    while True:
        al, be, ga = (rng.uniform(50, 130) for _ in range(3))
        if lookalike:
            b = a
            al, be, ga = rng.choice([(120.0, be, ga), (al, 120.0, ga), (90.0, 90.0, ga), (120.0, 90.0, ga), (90.0, be, 90.0 + 1e-3)])
        ca, cb, cg = (cos(radians(x)) for x in (al, be, ga))
        if 1 + 2 * ca * cb * cg - ca * ca - cb * cb - cg * cg > 0.05:
            return (a, b, c, al, be, ga), (a, b, c, al, be, ga)


def metric(full):
    a, b, c, al, be, ga = full
    ca, cb, cg = (cos(radians(x)) for x in (al, be, ga))
    return np.array([[a * a, a * b * cg, a * c * cb], [a * b * cg, b * b, b * c * ca], [a * c * cb, b * c * ca, c * c]])


def call_forms(rng, system, minimal, full):
    """(label, how to call set_lattice / Crystal, driver line)"""
    forms = [("system+minimal", (system,) + minimal), ("system+full", (system,) + full), ("six numbers", full)]
    if system in ("Cubic", "Tetragonal", "Orthorhombic", "Monoclinic", "Triclinic"):
        forms.append(("inferred", minimal))
    if system == "Hexagonal":
        forms.append(("inferred", (full[0], full[0], full[2], 120)))
    return forms


def bad_forms(rng):
    return [("-", ()), ("-", (1.0, 2.0, 3.0, 90.0, 90.0)), ("Nonsense", (1.0,)), ("Cubic", (1.0, 2.0)), ("Tetragonal", (1.0,)),
            ("Hexagonal", (1.0, 2.0, 3.0)), ("Monoclinic", (1.0, 2.0, 3.0)), ("Triclinic", (1.0, 2.0, 3.0)), ("-", (1.0,) * 7)]


def crystal_of(form):
    from diffcalc.ub.calc import UBCalculation
    ub = UBCalculation("t")
    with quiet():
        ub.set_lattice("x", *form)
    return ub.crystal


def correspondence(ctx):
    from diffcalc.ub.crystal import Crystal
    n = ctx.scale(40, 4000)
    lines, checks = [], []
    kinds = set()
    for it in range(n):
        for system in SYSTEMS:
            minimal, full = rand_cell(ctx.rng, system)
            for label, form in call_forms(ctx.rng, system, minimal, full):
                kinds.add((system, label))
                try:
                    cr = crystal_of(form)
                    if ctx.rng.random() < 0.5:
                        str(cr)          # looking at a crystal must not change it
                        label = label + "+printed"; kinds.add((system, label))
                    exp = ("ok", cr.system, [cr.a1, cr.a2, cr.a3, cr.alpha1, cr.alpha2, cr.alpha3], np.asarray(cr.B, float).flatten().tolist())
                except (TypeError, ValueError) as e:
                    exp = ("none", type(e).__name__)
                sysw = form[0] if isinstance(form[0], str) else "-"
                nums = [x for x in form if not isinstance(x, str)]
                lines.append(f"cryst.call {sysw} " + " ".join(f2h(x) for x in nums)); checks.append(("call", exp, form))
            # direct constructor with six numbers and B / distance / ttheta
            cr = Crystal("x", *full)
            Bm = np.asarray(cr.B, float)
            lines.append("cryst.B " + " ".join(f2h(x) for x in (cr.a1, cr.a2, cr.a3, cr.alpha1, cr.alpha2, cr.alpha3)))
            checks.append(("vec", Bm.flatten().tolist(), full))
            hkl = ctx.rng.choice([(1, 0, 0), (0, 0, 1), (1, 1, 1), (0, 0, 0), tuple(ctx.rng.uniform(-3, 3) for _ in range(3))])
            try:
                d = ("ok", float(cr.get_hkl_plane_distance(hkl)))
            except ZeroDivisionError:
                d = ("zeroDiv",)
            except ValueError:
                d = ("valueError",)
            lines.append("cryst.dist " + " ".join(f2h(x) for x in Bm.flatten()) + " " + " ".join(f2h(x) for x in hkl)); checks.append(("res", d, hkl))
            # interplanar angle (degrees): generic pairs, (anti)parallel pairs, a zero vector
            ha = tuple(float(ctx.rng.randint(-3, 3)) for _ in range(3))
            hb = ctx.rng.choice([tuple(float(ctx.rng.randint(-3, 3)) for _ in range(3)), tuple(2 * x for x in ha), tuple(-x for x in ha),
                                 tuple(ctx.rng.uniform(-3, 3) for _ in range(3))])
            try:
                with np.errstate(all="ignore"):
                    av = float(cr.get_hkl_plane_angle(ha, hb))
                a_exp = ("nan",) if av != av else ("ang", av)
            except AssertionError:
                a_exp = ("assertion",)
            lines.append("cryst.angle " + " ".join(f2h(x) for x in Bm.flatten()) + " " + " ".join(f2h(x) for x in ha + hb)); checks.append(("ang", a_exp, (ha, hb)))
    for sysw, nums in bad_forms(ctx.rng):
        try:
            crystal_of(((sysw,) if sysw != "-" else ()) + nums); exp = ("ok?",)
        except (TypeError, ValueError):
            exp = ("none",)
        lines.append(f"cryst.call {sysw} " + " ".join(f2h(x) for x in nums)); checks.append(("call", exp, (sysw, nums)))
        kinds.add(("bad", sysw, len(nums)))
    ans = drive(lines)
    dis = 0
    for l, a, (kind, exp, info) in zip(lines, ans, checks):
        ok = True
        if kind == "call":
            if exp[0] == "none":
                ok = a == "none"
            elif exp[0] == "ok":
                try:
                    head, bpart = a.split(" | ")
                    toks = head.split(" ")
                    ok = toks[0] == exp[1] and all(abs(h2f(t) - x) <= 1e-9 * (1 + abs(x)) for t, x in zip(toks[1:], exp[2])) \
                        and all(abs(h2f(t) - x) <= 1e-9 * (1 + abs(x)) for t, x in zip(bpart.split(" "), exp[3]))
                except ValueError:
                    ok = False
            else:
                ok = False
        elif kind == "vec":
            try:
                ok = all(abs(h2f(t) - x) <= 1e-9 * (1 + abs(x)) for t, x in zip(a.split(" "), exp))
            except ValueError:
                ok = False
        elif kind == "ang":
            if exp[0] == "ang":
                # acos is ill-conditioned at 0 / 180 deg: compare the cosines there
                try:
                    mv = h2f(a.split(" ")[1]) if a.startswith("ok ") else None
                except ValueError:
                    mv = None
                ok = mv is not None and mv == mv and (abs(mv - exp[1]) <= 1e-7 or abs(math.cos(math.radians(mv)) - math.cos(math.radians(exp[1]))) <= 1e-12)
            elif exp[0] == "nan":
                ok = (a.startswith("ok ") and h2f(a.split(" ")[1]) != h2f(a.split(" ")[1])) or a == "assertion"     # 0/0: NaN in numpy
            else:
                ok = a == exp[0]
        else:
            if exp[0] == "ok":
                ok = a.startswith("ok ") and abs(h2f(a.split(" ")[1]) - exp[1]) <= 1e-9 * (1 + abs(exp[1]))
            else:
                ok = a == exp[0]
        if not ok:
            dis += 1
            if dis <= 5:
                ctx.broke("translation-validation", "Gen/Crystal.lean + Model/Crystal.lean vs Crystal / set_lattice",
                          f"{l[:70]} ({info}): code -> {str(exp)[:200]}; model -> {a[:200]}")
    ctx.stream("translation-validation:crystal", len(lines), len(kinds), disagreements=dis)
    ctx.cov["programs"] = 4
    ctx.cov["disagreements_checked"] = dis
    ctx.sample({"request": lines[0], "answer": ans[0][:100]})


def oracle(ctx, widen=1):
    from diffcalc.ub.crystal import Crystal
    from diffcalc.ub.calc import UBCalculation
    n = ctx.scale(40, 4000) * widen
    kinds = set()
    cases = 0
    older = None
    for it in range(n):
        for system in SYSTEMS:
            minimal, full = rand_cell(ctx.rng, system)
            G = metric(full)
            Gi = np.linalg.inv(G)
            ref = None
            for label, form in call_forms(ctx.rng, system, minimal, full):
                kinds.add((system, label)); cases += 1
                bad = None
                try:
                    cr = crystal_of(form)
                    if ctx.rng.random() < 0.5:
                        str(cr)          # looking at a crystal must not change it
                        label = label + "+printed"; kinds.add((system, label))
                    # the cell is a value: a copy, a deep copy or an unpickled crystal is the same crystal
                    cr, how = clone(ctx.rng, cr)
                    if how != "same":
                        label = label + "+" + how; kinds.add((system, label))
                except Exception as e:  # noqa
                    ctx.violation(f"set_lattice('x', {', '.join(map(repr, form))}) [{system}, {label}] raised {type(e).__name__}: {e}",
                                  {"form": list(form)}, {"kind": "call-form", "system": system, "form": label})
                    continue
                B = np.asarray(cr.B, float)
                # two crystals alive at once: making this one must not have touched the previous one
                if older is not None and not np.array_equal(np.asarray(older[0].B, float), older[1]):
                    ctx.violation(f"creating a {system} crystal via {label} changed the B matrix of a {older[2]} crystal created before it: "
                                  f"{np.asarray(older[0].B, float).round(5).tolist()} instead of {older[1].round(5).tolist()}",
                                  {"form": list(form), "older": older[2]}, {"kind": "shared-state", "system": system})
                    older = None
                else:
                    older = (cr, B.copy(), system)
                sc = np.abs(B).max()
                if abs(B[1, 0]) + abs(B[2, 0]) + abs(B[2, 1]) > 1e-12 * sc or min(B[0, 0], B[1, 1], B[2, 2]) <= 0:
                    bad = f"B is not upper triangular with positive diagonal: {B.tolist()}"
                elif np.abs(B.T @ B - 4 * pi * pi * Gi).max() > 1e-9 * np.abs(4 * pi * pi * Gi).max():
                    bad = f"B^T B differs from 4 pi^2 G^-1 by {np.abs(B.T @ B - 4 * pi * pi * Gi).max():.3e}"
                else:
                    h1 = np.array([ctx.rng.randint(-3, 3), ctx.rng.randint(-3, 3), ctx.rng.randint(1, 3)], float)
                    h2 = np.array([ctx.rng.randint(1, 3), ctx.rng.randint(-3, 3), ctx.rng.randint(-3, 3)], float)
                    if ctx.rng.random() < 0.25:
                        # two planes a few thousandths of a degree from (anti)parallel: a high-index neighbour of h1
                        e = np.zeros(3); e[ctx.rng.randrange(3)] = 1.0
                        h2 = ctx.rng.choice([1.0, -1.0]) * (ctx.rng.choice([300.0, 5000.0, 40000.0]) * h1 + e)
                    d = cr.get_hkl_plane_distance(tuple(h1))
                    dref = 1 / math.sqrt(h1 @ Gi @ h1)
                    ang = cr.get_hkl_plane_angle(tuple(h1), tuple(h2))
                    cang = (h1 @ Gi @ h2) / math.sqrt((h1 @ Gi @ h1) * (h2 @ Gi @ h2))
                    aref = degrees(math.acos(max(-1, min(1, cang))))
                    ub = UBCalculation("t"); ub.crystal = cr
                    en = ctx.rng.uniform(8, 20)
                    wl = 12.39842 / en
                    if abs(d - dref) > 1e-9 * dref:
                        bad = f"d{tuple(h1)} = {d}, crystallography gives {dref}"
                    elif abs(d - 2 * pi / np.linalg.norm(B @ h1)) > 1e-9 * dref:
                        bad = f"d{tuple(h1)} = {d} differs from 2 pi/|B.hkl|"
                    elif abs(ang - aref) > 1e-6 and abs(math.cos(math.radians(ang)) - cang) > 1e-12:
                        # (acos is ill-conditioned for (anti)parallel planes: there the cosines are compared)
                        bad = f"angle between planes {tuple(h1)} and {tuple(h2)} = {ang}, crystallography gives {aref}"
                    elif wl / (2 * d) < 1:
                        tth = ub.get_ttheta_from_hkl(tuple(h1), en)
                        if abs(wl - 2 * d * sin(tth / 2)) > 1e-9 * wl:
                            bad = f"Bragg's law fails for {tuple(h1)} at {en} keV: lambda={wl}, 2 d sin(theta)={2 * d * sin(tth / 2)}"
                if not bad:
                    if ref is None:
                        ref = B
                    elif np.abs(B - ref).max() > 1e-9 * sc:
                        bad = f"call form '{label}' gives a different B than the first form"
                if bad:
                    ctx.violation(f"{system} via {label} {form}: {bad}", {"form": list(form), "system": system}, {"kind": "b-matrix", "system": system, "form": label})
    ctx.stream("oracle:metric-tensor", cases, len(kinds))
    # the same quantities asked of ONE calculation object while its lattice changes (stale state between calls)
    nseq = ctx.scale(98, 1500) * widen      # 49 ordered pairs of systems, twice
    steps = 0
    for it in range(nseq):
        ub = UBCalculation("seq")
        hk = [np.array([ctx.rng.randint(-3, 3), ctx.rng.randint(-3, 3), ctx.rng.randint(1, 3)], float) for _ in range(2)]
        en = ctx.rng.choice([8.0, 12.0, ctx.rng.uniform(8, 20)])
        bad = None
        nsteps = ctx.rng.randint(2, 5)
        for step in range(nsteps):
            # every ordered pair (previous system, next system) occurs: the sequence walks through the systems from a rotating start
            system = (SYSTEMS[it % len(SYSTEMS)] if step == 0 else SYSTEMS[(it // len(SYSTEMS)) % len(SYSTEMS)] if step == 1 else ctx.rng.choice(SYSTEMS))
            minimal, full = rand_cell(ctx.rng, system)
            forms = call_forms(ctx.rng, system, minimal, full)
            inferred = [f for f in forms if "inferred" in f[0]]
            label, form = ctx.rng.choice(inferred) if inferred and (step == 1 and it < 49 or ctx.rng.random() < 0.5) else ctx.rng.choice(forms)
            Gi = np.linalg.inv(metric(full))
            try:
                with quiet():
                    if step == 0 and it % 3 == 0:
                        ub.set_ub((np.eye(3) * 1.3 + 0.2).tolist())     # a UB imported for some other cell, before any lattice exists
                    ub.set_lattice("x", *form)
                    if ctx.rng.random() < 0.25:
                        ub, _how = clone(ctx.rng, ub, ways=("deepcopy", "pickle"))      # carry on with a copy of the whole calculation
                    if step % 2 == 1:
                        ub.set_u(np.eye(3))
                    elif step % 3 == 2:
                        # a UB that is not a rotation times this crystal's B (imported from a slightly different cell): the crystal itself is unchanged
                        ub.UB = np.asarray(ub.crystal.B, float) * 1.07 + 0.05
                steps += 1
                for h in hk:
                    dref = 1 / math.sqrt(h @ Gi @ h)
                    d = ub.crystal.get_hkl_plane_distance(tuple(h))
                    if abs(d - dref) > 1e-9 * dref:
                        bad = f"after lattice change {step + 1} ({system} via {label}): d{tuple(h)} = {d}, the current cell gives {dref}"; break
                    wl = 12.39842 / en
                    if wl / (2 * dref) < 1:
                        tth = ub.get_ttheta_from_hkl(tuple(h), en)
                        if abs(wl - 2 * dref * sin(tth / 2)) > 1e-9 * wl:
                            bad = (f"after lattice change {step + 1} ({system} via {label}): two-theta{tuple(h)} at {en} keV = {degrees(tth):.6f} deg, "
                                   f"the current cell gives {degrees(2 * math.asin(wl / (2 * dref))):.6f} deg"); break
                cang = (hk[0] @ Gi @ hk[1]) / math.sqrt((hk[0] @ Gi @ hk[0]) * (hk[1] @ Gi @ hk[1]))
                ang = ub.crystal.get_hkl_plane_angle(tuple(hk[0]), tuple(hk[1]))
                if not bad and abs(ang - degrees(math.acos(max(-1, min(1, cang))))) > 1e-6 and abs(math.cos(math.radians(ang)) - cang) > 1e-12:
                    bad = f"after lattice change {step + 1}: angle between planes is {ang}, the current cell gives {degrees(math.acos(max(-1, min(1, cang))))}"
            except Exception as e:  # noqa
                bad = f"after lattice change {step + 1} ({system} via {label}) raised {type(e).__name__}: {str(e)[:80]}"
            if bad:
                ctx.violation(f"one UBCalculation object, {bad}", {"hkls": [h.tolist() for h in hk], "energy": en, "last_form": [str(x) for x in form]},
                              {"kind": "stale-lattice", "what": bad.split(":")[0][:30]})
                break
    ctx.stream("oracle:lattice-sequences", steps, nseq)


def replay(ctx, data):
    print(data["what"]); return 0
