"""C09 — a mode is reported implemented exactly when the solver can run it."""
import itertools
from vlib import quiet, drive
from harness.common import NAMES, VOID, CAT, triples, mk_ub, classify_get_position

SPEC = {
    "gen": ["DocTable"],
    "modules": ["DiffcalcProofs.Props.C09"],
    "theorems": {"DiffcalcProofs.Props.C09": ["C09.c09_all", "C09.c09_full", "C09.mem_sublists3", "C09.active_mem_triples", "C09.triples_length", "C09.accepted_count", "C09.implemented_count"]},
    "level": "proof",
    "exhaustive": True,
    "rule": "all 680 three-element subsets of the 17 constraint names, each run on the real Constraints + get_position "
            "with generic values (fresh object and after a random history incl. rejected assignments) and compared "
            "with the Lean model's accepted/implemented/route; non-trivial = accepted by the constraint manager",
    "assumptions": [
        "outcome classes of get_position are recognised by message text ('not implemented', 'No code yet')",
        "generic values: hkl=(0.7,0.4,1.1), wavelength 1, triclinic cell, oblique U; a solver path that exists but finds no solution counts as 'can run'",
    ],
}

VALUE_SETS = [lambda i: 11.0 + 3 * i, lambda i: 0.0, lambda i: 7.5 + 2.0 * i, lambda i: -20.0 + 5 * i, lambda i: (0.0 if i % 2 else 90.0)]


def build(tr, valf, rng=None, history=False):
    """Constraints holding exactly the triple (None if the manager refuses it)"""
    from diffcalc.hkl.constraints import Constraints
    from diffcalc.util import DiffcalcException
    c = Constraints()
    if history:
        # reach the state through a random history that includes rejected operations
        for _ in range(rng.randint(1, 5)):
            n = rng.choice(NAMES)
            kind = rng.choice(["num", "true", "str", "bulkbad", "del"])
            try:
                if kind == "del":
                    delattr(c, n)
                elif kind == "bulkbad":
                    d = {m: (True if m in VOID else 1.0) for m in rng.sample(NAMES, 3)}
                    d["bogus"] = 1
                    c.asdict = d
                else:
                    setattr(c, n, {"num": rng.uniform(-90, 90), "true": True, "str": "abc"}[kind])
            except DiffcalcException:
                pass
        want = {n: (True if n in VOID else valf(NAMES.index(n))) for n in tr}
        try:
            c.asdict = want
        except DiffcalcException:
            return None
        if set(c.asdict) != set(tr):
            # accepted without complaint, yet not held: does a fresh object hold this triple?
            try:
                fresh = Constraints(dict(want))
                held = set(fresh.asdict) == set(tr)
                b = fresh.is_current_mode_implemented() if held else None
            except Exception:  # noqa
                held = False
            if held:
                try:
                    a = c.is_current_mode_implemented()
                except Exception as e:  # noqa
                    a = f"raises {type(e).__name__}: {str(e)[:60]}"
                return ("state-dependent", f"after a history with rejected assignments the object accepted {sorted(tr)} without complaint but holds {sorted(c.asdict)} "
                                           f"and answers implemented={a}; a fresh object holds the triple and answers {b}")
    else:
        try:
            for n in tr:
                setattr(c, n, True if n in VOID else valf(NAMES.index(n)))
        except DiffcalcException:
            return None
    if set(c.asdict) != set(tr):
        return None
    if history == 3:
        # the set is a value: a copy, deep copy or unpickled copy answers like the original
        from harness.variants import clone
        try:
            c, _how = clone(rng, c, ways=("deepcopy", "copy", "pickle"))
        except Exception as e:  # noqa
            return ("clone-raised", f"{type(e).__name__}: {str(e)[:80]}")
    if history == 4:
        # ONE object walks from a neighbouring accepted set (queried there) to this one by a single assignment
        from harness.common import CAT
        for _try in range(6):
            old = rng.choice(list(tr))
            others = [m for m in NAMES if CAT[m] == CAT[old] and m not in tr]
            if not others:
                continue
            c2 = Constraints()
            try:
                for n in tr:
                    m = rng.choice(others) if n == old else n
                    setattr(c2, m, True if m in VOID else valf(NAMES.index(m)))
                if len(c2.asdict) != 3:
                    continue
                c2.is_current_mode_implemented()
                str(c2)
                setattr(c2, old, True if old in VOID else valf(NAMES.index(old)))
            except DiffcalcException:
                continue
            if set(c2.asdict) == set(tr):
                c = c2
                break
        else:
            return None
    if history == 2:
        # rejected operations after the state was reached: the answer must not depend on them
        before = dict(c.asdict)
        for _ in range(rng.randint(1, 3)):
            kind = rng.choice(["bulk4", "bulk2", "badval", "tuple"])
            try:
                if kind == "bulk4":
                    names = rng.sample(NAMES, 3)
                    d = {m: (True if m in VOID else 2.0) for m in names}
                    d["bogus"] = 1
                    c.asdict = d
                elif kind == "bulk2":
                    c.asdict = {rng.choice(NAMES): "abc"}
                elif kind == "tuple":
                    c.astuple = tuple((m, 3.0) if m not in VOID else m for m in rng.sample(NAMES, 2)) + ("nonsense",)
                else:
                    setattr(c, rng.choice([m for m in NAMES if m not in VOID]), "abc")
            except DiffcalcException:
                pass
        if dict(c.asdict) != before:
            # a rejected update changed the state — that by itself is C17's concern; C09's is whether the table still answers for the set the object
            # now says it holds as a fresh object holding that set does
            now = dict(c.asdict)
            try:
                fresh = Constraints(dict(now))
                b = fresh.is_current_mode_implemented()
            except Exception:  # noqa — not a constructible / complete set: nothing to compare
                return None
            try:
                a = c.is_current_mode_implemented()
            except Exception as e:  # noqa
                a = f"raises {type(e).__name__}: {str(e)[:60]}"
            if len(now) == 3 and set(fresh.asdict) == set(now) and a != b:
                return ("state-dependent", f"after rejected assignments the object holds {sorted(now)} and answers implemented={a}; a fresh object holding the same set answers {b}")
            return None
    return c


def run_impl(ctx, nsets, history):
    """{(triple, set index): (accepted, implemented, outcome class, detail)}"""
    from diffcalc.hkl.calc import HklCalculation
    ub = mk_ub()
    res = {}
    for tr in triples():
        for si in range(nsets):
            c = build(tr, VALUE_SETS[si % len(VALUE_SETS)], ctx.rng, history)
            if c is None:
                res[(tr, si)] = (False, None, None, None)
                continue
            if isinstance(c, tuple):
                res[(tr, si)] = (True, None, "HIST", c[1]) if c[0] == "state-dependent" else (True, None, "EXC", "copying / pickling the constraint set raised " + c[1])
                continue
            try:
                im = c.is_current_mode_implemented()
            except Exception as e:  # noqa
                res[(tr, si)] = (True, None, "EXC", repr(e))
                continue
            kind, detail = classify_get_position(HklCalculation(ub, c), (0.7, 0.4, 1.1), 1.0)
            if im is False and kind == "NOTIMPL":
                # an unimplemented mode says so whatever is asked of it: zero vector, unreachable reflection, reflection along the reference vector
                for h in ((0.0, 0.0, 0.0), (9.0, 9.0, 9.0), (1.0, 0.2, 0.1), (0.1, 0.2, 1.0)):
                    k2, d2 = classify_get_position(HklCalculation(ub, c), h, 1.0)
                    if k2 != "NOTIMPL":
                        kind, detail = k2, f"asked for hkl={h}: {d2 if k2 != 'ok' else 'returned positions'}"
                        break
            res[(tr, si)] = (True, im, kind, detail if kind != "ok" else len(detail))
    return res


def correspondence(ctx):
    out = drive(["modes.all"])[0].split("|")
    model = {}
    for line in out:
        names, acc, impl, route, doc = line.split(" ")
        model[tuple(names.split(","))] = (acc == "true", impl == "true", route, doc == "true")
    impl = run_impl(ctx, 1, history=False)
    dis = 0
    for tr in triples():
        acc, im, kind, detail = impl[(tr, 0)]
        macc, mim, mroute, mdoc = model[tr]
        cls = {"NOTIMPL": "notImpl", "NOCODE": "noCode"}.get(kind, "runs")
        mcls = "runs" if mroute.startswith("solver") or mroute == "noYield" else mroute
        if acc != macc or (acc and (im != mim or cls != mcls)):
            dis += 1
            ctx.broke("correspondence", "Modes.lean vs Constraints/get_position",
                      f"triple {tr}: code accepted={acc} implemented={im} outcome={kind}; model accepted={macc} implemented={mim} route={mroute}")
    ctx.stream("correspondence:modes", 680, sum(1 for tr in triples() if impl[(tr, 0)][0]), disagreements=dis, exhaustive=True)
    ctx.cov["traces_validated_against_impl"] = 680
    ctx.sample({"triple": ["qaz", "a_eq_b", "mu"], "model": model[("qaz", "a_eq_b", "mu")], "code": list(impl[(("qaz", "a_eq_b", "mu"), 0)][:3])})


def oracle(ctx, widen=1):
    nsets = ctx.scale(2, 5) * (1 if widen == 1 else 2)
    fresh = None
    for history in (False, True, 2, 3, 4):
        impl = run_impl(ctx, nsets, history)
        if history is False:
            fresh = impl
        nacc = 0
        for (tr, si), (acc, im, kind, detail) in impl.items():
            if not acc:
                continue
            nacc += 1
            bad = None
            ref = fresh.get((tr, si)) if fresh is not None else None
            if history is not False and ref is not None and ref[0] and im is not None and ref[1] is not None and im != ref[1]:
                # the answer is a function of the three active constraints, not of the object's past
                bad = f"answers implemented={im} where a fresh object holding the same three constraints answers {ref[1]}"
            elif im is None and kind == "HIST":
                bad = detail
            elif im is None:
                bad = f"is_current_mode_implemented raised {detail}"
            elif im and kind in ("NOTIMPL", "NOCODE"):
                bad = f"reported implemented but get_position answers {kind}"
            elif im and kind == "EXC":
                bad = f"reported implemented but get_position has no working code path: {detail}"
            elif not im and kind != "NOTIMPL":
                bad = f"reported not implemented but get_position answers {kind} ({detail})"
            if bad:
                ctx.violation(f"triple {tr}{['', ' reached through a history with rejected assignments', ' followed by rejected assignments', ' on a copy / unpickled copy of the set', ' reached on one object from a neighbouring set by a single assignment'][int(history)]}: {bad}",
                              {"triple": list(tr), "value_set": si, "history": int(history), "seed": ctx.seed},
                              {"kind": "table-vs-solver", "triple": ",".join(tr)})
        ctx.stream("oracle:table-vs-solver" + ["", ":history", ":after-rejected-ops", ":copies", ":same-object-walk"][int(history)], len(impl), nacc)
    ctx.sample({"oracle": "implemented <-> outcome class", "triple": ["delta", "mu", "bisect"]})


def replay(ctx, data):
    import vlib
    vlib.import_repo()
    from diffcalc.hkl.calc import HklCalculation
    r = data["replay"]
    c = build(tuple(r["triple"]), VALUE_SETS[r["value_set"] % len(VALUE_SETS)], ctx.rng, False)
    print("triple", r["triple"], "implemented", c.is_current_mode_implemented(),
          "outcome", classify_get_position(HklCalculation(mk_ub(), c), (0.7, 0.4, 1.1), 1.0)[0])
    return 0
