"""C13 — solutions respect the physical symmetries of the diffraction problem."""
import math
import numpy as np
from math import radians, cos, sin
from vlib import quiet, angdiff
from harness.common import VOID, AXES, mk_ub, rot_from_rotvec
from harness import pipeline as PL, solver as S

SPEC = {
    "gen": ["Rotations", "GetHkl", "Crystal"],
    "modules": ["DiffcalcProofs.Props.C13", "DiffcalcProofs.Props.C04"],
    "theorems": {"DiffcalcProofs.Props.C13": [
        "C13.getHkl_scale_cell", "C13.reciprocalB_scale", "C13.getHkl_order", "C13.anglesEquivalent_periodic", "C13.getHkl_remount"],
        "DiffcalcProofs.Props.C04": ["C04.getHkl_periodic"]},
    "level": "proof",
    "rule": "all 185 implemented modes x generic requests (values 5..80 deg, hkl in [0.2,1.5]^3, triclinic cell, oblique U, hkl-frame vectors that follow the "
            "crystal); for each request the related requests (a) cell x s and wavelength x s, (b) hkl x n and wavelength / n, (c) +360 deg on a constraint value, "
            "(d) U -> Rz(eps) U with a phi constraint shifted by eps are run on the implementation and the returned sets compared modulo 360 deg (phi shifted by eps for (d)); "
            "requests whose outcome is not invariant under 1e-7 perturbations are skipped; distinct = modes with at least one solved base request",
    "assumptions": ["inputs are generic (away from the solver's own 1e-7 thresholds), as the property's quantifier allows"],
    "partial": "proved at specification level for the forward model and the filter (the solution set is invariant / equivariant); that the solver returns that set is C01 and C03 (partial)",
    "search_widen": 4,
}


def mk(scale=1.0, eps=0.0, rot=(0.3, -0.5, 0.7), n=(1, 0.2, 0.1), s=(0.1, 0.2, 1)):
    from diffcalc.ub.calc import UBCalculation
    ub = UBCalculation("t")
    e = radians(eps)
    Rz = np.array([[cos(e), -sin(e), 0], [sin(e), cos(e), 0], [0, 0, 1]])
    with quiet():
        ub.set_lattice("x", 4.1 * scale, 5.2 * scale, 6.3 * scale, 80, 95, 100)
        ub.set_u(Rz @ rot_from_rotvec(list(rot)))
    ub.n_hkl = tuple(n); ub.surf_nhkl = tuple(s)
    return ub


def sol(ub, cons, hkl, wl):
    from diffcalc.hkl.calc import HklCalculation
    from diffcalc.hkl.constraints import Constraints
    r = S.run_impl("full", HklCalculation(ub, Constraints(cons)), hkl, wl)
    if r[0] != "ok":
        return r[0]
    return [p for p, _ in r[1]]


def same(x, y, shift_phi=0.0, tol=1e-4):
    if isinstance(x, str) or isinstance(y, str):
        return x == y
    if len(x) != len(y):
        return False
    used = set()
    for p in x:
        hit = None
        for j, q in enumerate(y):
            if j in used:
                continue
            q2 = list(q); q2[5] += shift_phi
            if max(angdiff(a, b) for a, b in zip(p, q2)) < tol:
                hit = j; break
        if hit is None:
            return False
        used.add(hit)
    return True


def correspondence(ctx):
    # the model is tied by the same pipeline stream as C01 (generic requests)
    from props import c01
    PL.correspondence_stream(ctx, "get_position", c01.requests(ctx, ctx.scale(1, 30), 0), "full")


def oracle(ctx, widen=1):
    per = ctx.scale(2, 50) * widen
    solved = set()
    cases = 0
    for tr in PL.modes():
        for it in range(per):
            rng = ctx.rng
            rot = [rng.uniform(-1, 1) for _ in range(3)]
            cons = {nm: (True if nm in VOID else rng.uniform(5, 80)) for nm in tr}
            hkl = (rng.uniform(0.2, 1.5), rng.uniform(0.2, 1.5), rng.uniform(0.2, 1.5)); wl = 1.0
            base = sol(mk(rot=rot), cons, hkl, wl)
            cases += 1
            if not isinstance(base, str):
                solved.add(tr)
            sc = rng.choice([2.5, 0.4, 1.7, 1.0004, 100.0, 1000.0, 0.01])      # incl. a change of the length unit (A -> pm, A -> 0.1 um)
            nn = rng.choice([2, 3, 0.5])
            eps = rng.choice([17.0, -40.0, 123.0, 17.0, -40.0, 1e-4, -3e-4, 2e-3])      # incl. the minute re-mounting corrections of an alignment
            nm0 = [k for k in cons if cons[k] is not True]
            rel = {"a": lambda: sol(mk(sc, rot=rot), cons, hkl, wl * sc),
                   "b": lambda: sol(mk(rot=rot), cons, tuple(nn * x for x in hkl), wl / nn)}
            if nm0:
                c2 = dict(cons); c2[rng.choice(nm0)] += 360.0 * rng.choice([1, -1, 1, -1, 2, -3])
                rel["c"] = lambda: sol(mk(rot=rot), c2, hkl, wl)
            c3 = dict(cons)
            if "phi" in c3:
                c3["phi"] += eps
            rel["d"] = lambda: sol(mk(1.0, eps, rot=rot), c3, hkl, wl)

            def inplace():
                # the same calculation object is queried, re-mounted in place, and queried again
                ub1 = mk(rot=rot)
                sol(ub1, cons, hkl, wl)
                e = radians(eps)
                Rz = np.array([[cos(e), -sin(e), 0], [sin(e), cos(e), 0], [0, 0, 1]])
                with quiet():
                    ub1.set_u(Rz @ np.asarray(ub1.U))
                return sol(ub1, c3, hkl, wl)
            rel["d-inplace"] = inplace

            def inplace_miscut():
                # the re-mounting expressed as an added miscut about the phi axis
                ub1 = mk(rot=rot)
                sol(ub1, cons, hkl, wl)
                with quiet():
                    ub1.set_miscut((0, 0, 1), eps, True)
                return sol(ub1, c3, hkl, wl)
            rel["d-miscut"] = inplace_miscut

            def inplace_route(route):
                # the re-mounting reaches the same object through the other public routes that install an orientation:
                # calc_ub from two (re-measured) orientation references, or set_ub with the rotated UB
                def f():
                    from diffcalc.hkl.geometry import Position
                    ub1 = mk(rot=rot)
                    B = np.asarray(ub1.crystal.B, float); U = np.asarray(ub1.U, float)
                    e = radians(eps)
                    Rz = np.array([[cos(e), -sin(e), 0], [sin(e), cos(e), 0], [0, 0, 1]])
                    hs = ((1.0, 0.0, 0.0), (0.0, 1.0, 1.0))
                    # the orientation references are recorded at general sample positions (all four circles away from zero): the lab direction of
                    # U.B.h seen through Z(pos); re-mounting by eps about phi = the same lab directions read at phi + eps
                    def zmat(p):
                        m_, _, _, et, ch, ph = [radians(x) for x in p]
                        rx = lambda t: np.array([[1, 0, 0], [0, cos(t), -sin(t)], [0, sin(t), cos(t)]])
                        ry = lambda t: np.array([[cos(t), 0, sin(t)], [0, 1, 0], [-sin(t), 0, cos(t)]])
                        rz = lambda t: np.array([[cos(t), -sin(t), 0], [sin(t), cos(t), 0], [0, 0, 1]])
                        return rx(m_) @ rz(-et) @ ry(ch) @ rz(-ph)
                    poss = [tuple(rng.uniform(-50, 50) for _ in range(6)) for _ in hs] if route == "calc_ub" else []
                    with quiet():
                        if route == "calc_ub":
                            for h, tg, p in zip(hs, ("o1", "o2"), poss):
                                ub1.add_orientation(h, tuple(float(x) for x in zmat(p) @ U @ B @ np.array(h)), Position(*p), tg)
                            ub1.calc_ub("o1", "o2")
                    sol(ub1, cons, hkl, wl)
                    str(ub1)
                    with quiet():
                        if route == "calc_ub":
                            for i, (h, tg, p) in enumerate(zip(hs, ("o1", "o2"), poss), 1):
                                p2 = p[:5] + (p[5] + eps,)
                                ub1.edit_orientation(i, h, tuple(float(x) for x in zmat(p) @ U @ B @ np.array(h)), Position(*p2), tg)
                            ub1.calc_ub("o1", "o2")
                        else:
                            ub1.set_ub(Rz @ np.asarray(ub1.UB, float))
                    return sol(ub1, c3, hkl, wl)
                return f
            rel["d-calcub"] = inplace_route("calc_ub")
            rel["d-setub"] = inplace_route("set_ub")

            def inplace_scale(form):
                # the same object: orientation set, queried, then the cell replaced by the scaled cell (numeric or named-system call form)
                def f():
                    ub1 = mk(rot=rot)
                    sol(ub1, cons, hkl, wl)
                    with quiet():
                        for _k in range(rng.choice([0, 0, 1, 2])):
                            # the cell is replaced several times in a row before the next request
                            ub1.set_lattice("y", *rng.choice([(3.3, 4.4, 5.5, 85, 92, 99), (2.0,), ("Hexagonal", 3.0, 5.0), (4.1 * sc * 2, 5.2 * sc * 2, 6.3 * sc * 2, 80, 95, 100)]))
                        if form == "numeric":
                            ub1.set_lattice("x", 4.1 * sc, 5.2 * sc, 6.3 * sc, 80, 95, 100)
                        else:
                            ub1.set_lattice("x", "Triclinic", 4.1 * sc, 5.2 * sc, 6.3 * sc, 80, 95, 100)
                    return sol(ub1, cons, hkl, wl * sc)
                return f
            rel["a-inplace-numeric"] = inplace_scale("numeric")
            rel["a-inplace-named"] = inplace_scale("named")
            for name, f in rel.items():
                got = f()
                ok = same(got, base, eps if name.startswith("d") else 0.0, min(1e-4, abs(eps) / 4) if name.startswith("d") else (2e-5 if name.startswith("a") else 1e-4))
                if not ok:
                    # a request at a numerical singularity is not covered by the quantifier
                    from diffcalc.hkl.calc import HklCalculation
                    from diffcalc.hkl.constraints import Constraints
                    ubb = mk(rot=rot)
                    if not PL.stable(lambda v: HklCalculation(ubb, Constraints(v)), cons, hkl, wl, "full"):
                        continue
                    what = {"a": f"cell and wavelength scaled by {sc}", "b": f"hkl x {nn}, wavelength / {nn}", "c": "360 deg added to a constraint value",
                            "d": f"crystal remounted by {eps} deg about phi", "d-inplace": f"crystal remounted in place (set_u on the same object after a query) by {eps} deg about phi",
                            "d-miscut": f"crystal remounted in place by set_miscut((0,0,1), {eps}, add_miscut=True)",
                            "d-calcub": f"crystal remounted in place by {eps} deg about phi through calc_ub on re-measured orientation references (same object, after a query)",
                            "d-setub": f"crystal remounted in place by {eps} deg about phi through set_ub(Rz.UB) (same object, after a query)",
                            "a-inplace-numeric": f"cell replaced in place by the cell scaled by {sc} (six numbers), wavelength scaled",
                            "a-inplace-named": f"cell replaced in place by the cell scaled by {sc} (system name + six numbers), wavelength scaled"}[name]
                    ctx.violation(f"mode {list(tr)} values { {k: (v if v is True else round(v, 4)) for k, v in cons.items()} } hkl={tuple(round(x, 4) for x in hkl)}: {what} changes the solutions: "
                                  f"{got if isinstance(got, str) else [tuple(round(x, 3) for x in p) for p in got][:3]} vs base {base if isinstance(base, str) else [tuple(round(x, 3) for x in p) for p in base][:3]}",
                                  {"constraints": cons, "hkl": list(hkl), "relation": name, "rot": rot, "scale": sc, "n": nn, "eps": eps},
                                  {"kind": "symmetry", "relation": name, "mode": ",".join(tr)})
    ctx.stream("oracle:metamorphic", cases * 4, len(solved), base_requests=cases)
    # (c) on aligned and degenerate set-ups with constraint values at exactly 0 / 90 / 180: a whole turn added to one value changes nothing
    from diffcalc.hkl.calc import HklCalculation
    from diffcalc.hkl.constraints import Constraints
    reqs = PL.aligned_requests(ctx.rng, ctx.scale(1, 6) * widen) + PL.degenerate_requests(ctx.rng, ctx.scale(80, 2000) * widen)
    n2, solved2 = 0, set()
    for ub, vals, hkl, wl, tag in reqs:
        nm0 = [k for k in vals if vals[k] is not True]
        if not nm0:
            continue
        r0 = S.run_impl("full", HklCalculation(ub, Constraints(vals)), hkl, wl)
        base2 = [p for p, _ in r0[1]] if r0[0] == "ok" else r0[0]
        nm = ctx.rng.choice(nm0)
        v2 = dict(vals); v2[nm] = v2[nm] + 360.0 * ctx.rng.choice([1, -1])
        r1 = S.run_impl("full", HklCalculation(ub, Constraints(v2)), hkl, wl)
        got2 = [p for p, _ in r1[1]] if r1[0] == "ok" else r1[0]
        n2 += 1
        if not isinstance(base2, str):
            solved2.add(tuple(sorted(vals)))
        if not same(got2, base2, 0.0, 1e-4):
            if not PL.stable(lambda v: HklCalculation(ub, Constraints(v)), vals, hkl, wl, "full"):
                continue
            ctx.violation(f"mode { {k: (v if v is True else round(v, 4)) for k, v in vals.items()} } hkl={tuple(round(x, 4) for x in hkl)} [{tag}]: 360 deg added to {nm} changes the solutions: "
                          f"{got2 if isinstance(got2, str) else [tuple(round(x, 3) for x in p) for p in got2][:3]} vs {base2 if isinstance(base2, str) else [tuple(round(x, 3) for x in p) for p in base2][:3]}",
                          {"constraints": vals, "hkl": list(hkl), "relation": "c-aligned", "name": nm}, {"kind": "symmetry", "relation": "c-aligned", "mode": ",".join(sorted(vals))})
    ctx.stream("oracle:whole-turn-on-aligned-requests", n2, len(solved2))


def replay(ctx, data):
    print(data["what"]); print(data["replay"]); return 0
