"""C10 — the constraint set obeys its capacity rules through every history."""
from vlib import drive, close
from harness.common import NAMES, VOID, CAT
from harness import cons as H
from harness.variants import clone

SPEC = {
    "gen": [],
    "modules": ["DiffcalcProofs.Props.C10", "DiffcalcProofs.Props.C10Bulk"],
    "theorems": {"DiffcalcProofs.Props.C10": ["C10.inv_init", "C10.inv_set", "C10.inv_setBulk", "C10.inv_step", "C10.inv_history", "C10.c10_capacity", "C10.deactivate_exact", "C10.replace_policy", "C10.accept_free", "C10.set_ok_stored", "C10.readback_num", "C10.readback_true", "C10.set_error_unchanged", "C10.step_error_unchanged"],
                 "DiffcalcProofs.Props.C10Bulk": ["C10.wt_step", "C10.wt_history", "C10.bulk_restrict", "C10.bulk_roundtrip"]},
    "level": "proof",
    "rule": "random operation histories over all 17 names x 9 value kinds (float, 0, int, numeric string, True, False, None, "
            "non-numeric string, list) incl. del / clear / bulk asdict / bulk astuple with unknown names; the model is stepped "
            "with the same operations and outcome + full state compared after every operation; distinct = distinct active "
            "sets reached; the oracle states the capacity / read-back / deactivate / replacement / rebuild rules directly",
    "assumptions": ["value kinds outside the nine generated ones (e.g. numpy scalars, NaN) are not exercised"],
}


def histories(ctx, n, maxlen):
    for _ in range(n):
        ops = [H.normalise(H.gen_op(ctx.rng)) for _ in range(ctx.rng.randint(1, maxlen))]
        yield ops


def correspondence(ctx):
    from diffcalc.hkl.constraints import Constraints
    n = ctx.scale(300, 20000)
    maxlen = ctx.scale(25, 60)
    lines, expect, hist_index = [], [], []
    seen_sets = set()
    all_h = list(histories(ctx, n, maxlen))
    for hi, ops in enumerate(all_h):
        c = Constraints()
        lines.append("cons.reset"); expect.append(("ok", H.state_of(c), None)); hist_index.append((hi, -1))
        for oi, op in enumerate(ops):
            out = H.apply_impl(c, op)
            st = H.state_of(c)
            seen_sets.add(tuple(x != "-" for x in st))
            lines.append(H.op_line(op)); expect.append((out, st, op)); hist_index.append((hi, oi))
            if len(c.asdict) == 3:
                try:
                    im = c.is_current_mode_implemented()
                except Exception as e:  # noqa
                    im = "EXC:" + type(e).__name__
                lines.append("cons.mode"); expect.append(("mode", im, None)); hist_index.append((hi, oi))
            if oi % 5 == 4:
                try:
                    rb = H.state_of(Constraints(c.asdict))
                except Exception as e:  # noqa
                    rb = "EXC:" + type(e).__name__
                lines.append("cons.rebuild"); expect.append(("rebuild", rb, None)); hist_index.append((hi, oi))
    answers = drive(lines)
    dis = 0
    for ans, (out, st, op), (hi, oi) in zip(answers, expect, hist_index):
        ok = True
        if out == "mode":
            ok = ans.startswith("full ") and ans.split(" ")[1] == str(st).lower()
        elif out == "rebuild":
            ok = isinstance(st, list) and ans.startswith("ok | ") and H.same_state(H.parse_model_state(ans[5:]), st)
        else:
            parts = ans.split(" | ")
            ok = len(parts) == 2 and parts[0] == out and H.same_state(H.parse_model_state(parts[1]), st)
        if not ok:
            dis += 1
            if dis <= 5:
                ctx.broke("correspondence", "Cons.lean vs Constraints",
                          f"history {hi} op {oi} {op if op else out}: code -> {out} {H.show_state(st) if isinstance(st, list) else st}; model -> {ans[:200]}; "
                          f"history so far: {[H.op_line(o) for o in all_h[hi][:oi + 1]]}")
    ctx.stream("correspondence:cons-histories", len(lines), len(seen_sets), histories=n, disagreements=dis)
    ctx.cov["traces_validated_against_impl"] = n
    ctx.sample({"history": [H.op_line(o) for o in all_h[0][:8]]})


def oracle(ctx, widen=1):
    # a refused assignment is no assignment: over the legal sets x every name x values of the wrong kind (the replacement path included)
    cs, rs, bads = H.refused_assignment_sweep(ctx.rng, ctx.scale(160, 1000) * widen)
    for what, rep in bads[:20]:
        ctx.violation(what, rep, {"kind": "refused-assignment-changes-set", "name": rep["name"]})
    ctx.stream("oracle:refused-assignments", cs, min(cs, rs), raised=rs)
    """the rules of the property statement, stated directly on the real class"""
    from diffcalc.hkl.constraints import Constraints
    from diffcalc.util import DiffcalcException
    n = ctx.scale(300, 20000) * widen
    maxlen = ctx.scale(25, 60)
    seen = set()
    steps = 0
    maxc = {"det": 1, "ref": 1, "samp": 3}
    for hi, ops in enumerate(histories(ctx, n, maxlen)):
        c = Constraints()
        frozen = []      # (object left behind when the history carried on with a copy of it, its state at that moment, how it was copied)
        for oi, op in enumerate(ops):
            if oi and ctx.rng.random() < 0.06:
                # the set of constraints is a value: carry on with a copy / deep copy / unpickled copy; the original must stay as it is
                try:
                    c_new, how = clone(ctx.rng, c, ways=("deepcopy", "copy", "pickle"))
                except Exception as e:  # noqa
                    ctx.violation(f"copying / pickling a used constraint set raised {type(e).__name__}: {str(e)[:100]} (history {[H.op_line(o) for o in ops[:oi]][-6:]})",
                                  {"lines": [H.op_line(o) for o in ops[:oi]]}, {"kind": "copy", "how": "raised"})
                    break
                if not H.same_state(H.state_of(c_new), H.state_of(c)):
                    ctx.violation(f"a {how} of the constraint set holds {H.show_state(H.state_of(c_new))} instead of {H.show_state(H.state_of(c))} "
                                  f"(history {[H.op_line(o) for o in ops[:oi]][-6:]})", {"lines": [H.op_line(o) for o in ops[:oi]], "how": how}, {"kind": "copy", "how": how})
                    break
                if how != "copy":
                    frozen.append((c, H.state_of(c), how))       # (a shallow copy may legitimately share its parts with the original)
                c = c_new
            before = H.state_of(c)
            act_before = {m for m, v in zip(NAMES, before) if v != "-"}
            out = H.apply_impl(c, op)
            st = H.state_of(c)
            act = {m for m, v in zip(NAMES, st) if v != "-"}
            seen.add(frozenset(act)); steps += 1
            bad = None
            ncat = lambda s, k: sum(CAT[m] == k for m in s)
            if len(act) > 3 or ncat(act, "det") > 1 or ncat(act, "ref") > 1:
                bad = ("capacity", f"active set {sorted(act)} breaks the capacity rules")
            elif out.startswith("EXC"):
                pass  # exception classes are C11/C17's concern
            elif op[0] == "set":
                _, name, kind, val = op
                if kind in ("none", "false"):
                    if out != "ok" or act != act_before - {name} or any(a != b for m, a, b in zip(NAMES, before, st) if m != name):
                        bad = ("deactivate", f"assigning {val!r} to {name} did not deactivate exactly that constraint")
                elif out == "ok":
                    want = True if (name in VOID) else float(val)
                    got = getattr(c, name)
                    if (want is True and got is not True) or (want is not True and not (isinstance(got, float) and close(got, want, 1e-9))):
                        bad = ("readback", f"accepted {name}={val!r} reads back as {got!r}")
                    free = (name in act_before) or (ncat(act_before, CAT[name]) < maxc[CAT[name]] and len(act_before) < 3)
                    if not bad and free and (act != act_before | {name} or any(a != b for m, a, b in zip(NAMES, before, st) if m != name)):
                        bad = ("free-slot", f"{name} had a free slot but other constraints changed: {sorted(act_before)} -> {sorted(act)}")
                    if not bad and not free:
                        same = [m for m in act_before if CAT[m] == CAT[name]]
                        if len(same) != 1 or act != (act_before - set(same)) | {name}:
                            bad = ("replace", f"{name} assigned with no free slot: {sorted(act_before)} -> {sorted(act)}")
                elif out == "dce":
                    valid = (kind == "true") == (name in VOID) and kind not in ("bad", "badtype")
                    free = (name in act_before) or (ncat(act_before, CAT[name]) < maxc[CAT[name]] and len(act_before) < 3)
                    same = [m for m in act_before if CAT[m] == CAT[name]]
                    if valid and (free or len(same) == 1):
                        bad = ("refused", f"valid assignment {name}={val!r} refused although " + ("a slot was free" if free else "exactly one constraint of its category could be replaced"))
            elif op[0] == "del":
                if out != "ok" or act != act_before - {op[1]} or any(a != b for m, a, b in zip(NAMES, before, st) if m != op[1]):
                    bad = ("deactivate", f"del {op[1]} did not deactivate exactly that constraint")
            elif op[0] == "clear":
                if act:
                    bad = ("clear", "clear() left constraints active")
            if not bad:
                for obj, st0, how in frozen:
                    if not H.same_state(H.state_of(obj), st0):
                        bad = ("copy-aliasing", f"{H.op_line(op)} on a {how} of a constraint set changed the original from {H.show_state(st0)} to {H.show_state(H.state_of(obj))}")
                        break
            if not bad and op[0] == "bulkt" and not out.startswith("EXC"):
                # every entry point of a bulk assignment follows the same rule: the list form of the constructor is the tuple form
                items = tuple((nm if (nm in VOID and k == "true") else (nm, v)) for nm, k, v in op[1])
                try:
                    c3 = Constraints(list(items)); o3 = "ok"
                except DiffcalcException:
                    o3 = "dce"
                except TypeError:
                    o3 = "typeErr"
                except Exception as e:  # noqa
                    o3 = "EXC:" + type(e).__name__
                if o3 != out and not (o3.startswith("EXC") or out.startswith("EXC")):
                    bad = ("entry-points", f"Constraints(list) answered {o3} where assigning the same entries as a tuple answered {out}: {items}")
                elif o3 == "ok" and not H.same_state(H.state_of(c3), st):
                    bad = ("entry-points", f"Constraints(list of {items}) holds {H.show_state(H.state_of(c3))}, assigning the same entries as a tuple gives {H.show_state(st)}")
            if not bad and oi % 3 == 0:
                for how in ("asdict", "astuple"):
                    try:
                        c2 = Constraints(getattr(c, how))
                        if not H.same_state(H.state_of(c2), st):
                            bad = ("rebuild", f"Constraints({how}) rebuilds {H.show_state(H.state_of(c2))} from {H.show_state(st)}")
                    except Exception as e:  # noqa
                        bad = ("rebuild", f"Constraints({how}) raised {type(e).__name__}")
            if bad:
                ctx.violation(f"{bad[1]} (history {[H.op_line(o) for o in ops[:oi + 1]][-6:]})",
                              {"ops": [list(map(str, o)) if o[0] in ("set", "del", "clear") else [o[0], [list(map(str, i)) for i in o[1]]] for o in ops[:oi + 1]],
                               "lines": [H.op_line(o) for o in ops[:oi + 1]]},
                              {"kind": bad[0]})
                break
    ctx.stream("oracle:capacity-rules", steps, len(seen), histories=n)
    ctx.cov["distinct_active_sets"] = len(seen)


def replay(ctx, data):
    print("\n".join(data["replay"]["lines"]))
    return 0
