"""C17 — a rejected update leaves the calculator exactly as it was."""
import pickle
import numpy as np
from vlib import quiet
from harness.common import NAMES, VOID, rot_from_rotvec
from harness import cons as H
from props import c10, c18

SPEC = {
    "gen": [],
    "modules": ["DiffcalcProofs.Props.C10", "DiffcalcProofs.Props.C18", "DiffcalcProofs.Props.C08"],
    "theorems": {
        "DiffcalcProofs.Props.C10": ["C10.set_error_unchanged", "C10.setBulk_error_unchanged", "C10.step_error_unchanged"],
        "DiffcalcProofs.Props.C18": ["C18.step_error_unchanged", "C18.history_all_rejected"],
        "DiffcalcProofs.Props.C08": ["C08.step_error_unchanged"],
    },
    "level": "proof",
    "rule": "for random reachable calculator states (constraint set, lattice, U/UB, both lists, both vectors) every kind of "
            "rejected update is attempted: wrong value kind, unknown name, ambiguous replacement, bulk assignment failing "
            "part-way, bad lattice arguments, bad index/tag edits, non-Position arguments, bad matrix shapes, calc_ub with "
            "parallel / missing references; a deep snapshot (pickled asdict + raw U/UB bytes + constraint values) is compared "
            "before/after every raising call; the three Lean models (constraints, lists, UB state) are stepped on the same histories; "
            "distinct = distinct (operation kind, exception class) pairs",
    "assumptions": ["observable state = asdict of the calculator, raw U/UB arrays, constraint values (radians), list contents"],
    "partial": "theorems cover the constraint manager, both lists and the UB state machine; Crystal's constructor is covered by the oracle only",
}


def snapshot(ub, cons):
    d = ub.asdict
    return pickle.dumps((d, None if ub.U is None else np.asarray(ub.U).tobytes(), None if ub.UB is None else np.asarray(ub.UB).tobytes(),
                         [c.value for c in cons._all], [id(r) for r in ub.reflist.reflections], [id(o) for o in ub.orientlist.orientations]))


def random_state(rng):
    from diffcalc.ub.calc import UBCalculation
    from diffcalc.hkl.constraints import Constraints
    from diffcalc.hkl.geometry import Position
    from diffcalc.util import DiffcalcException
    ub = UBCalculation("t")
    with quiet():
        if rng.random() < 0.85:
            ub.set_lattice("x", *rng.choice([(4.0,), (4.0, 5.0), (4.0, 5.0, 6.0), (4.1, 5.2, 6.3, 100.0), (4.1, 5.2, 6.3, 80, 95, 100)]))
        if rng.random() < 0.7:
            ub.set_u(rot_from_rotvec([rng.uniform(-1, 1) for _ in range(3)]))
    for i in range(rng.randint(0, 4)):
        ub.add_reflection((rng.randint(-2, 2), rng.randint(-2, 2), rng.randint(1, 3)), Position(*[rng.uniform(-90, 90) for _ in range(6)]), 12.0, rng.choice(["a", "b", None]))
    for i in range(rng.randint(0, 3)):
        ub.add_orientation((rng.randint(-2, 2), rng.randint(1, 2), rng.randint(-2, 2)), tuple(rng.uniform(-1, 1) for _ in range(3)), None, rng.choice(["a", "o", None]))
    if rng.random() < 0.5:
        ub.n_phi = tuple(rng.uniform(-1, 1) for _ in range(3))
    c = Constraints()
    for _ in range(rng.randint(0, 6)):
        try:
            n = rng.choice(NAMES)
            setattr(c, n, True if n in VOID else rng.uniform(-90, 90))
        except DiffcalcException:
            pass
    return ub, c


def rejected_ops(rng, ub, c):
    """candidate updates that are expected to be rejected in most states: (label, thunk)"""
    from diffcalc.hkl.geometry import Position
    pos = Position(1, 2, 3, 4, 5, 6)
    nr, no = len(ub.reflist), len(ub.orientlist)
    valn = rng.choice([n for n in NAMES if n not in VOID])
    voidn = rng.choice(sorted(VOID))
    anyn = rng.choice(NAMES)
    three = rng.sample(NAMES, 3)
    ops = [
        ("cons:set-nonnumeric", lambda: setattr(c, valn, "abc")),
        ("cons:set-list", lambda: setattr(c, valn, [1])),
        ("cons:set-true-on-value", lambda: setattr(c, valn, True)),
        ("cons:set-number-on-void", lambda: setattr(c, voidn, 5.0)),
        ("cons:set-string-on-void", lambda: setattr(c, voidn, "yes")),
        ("cons:set-valid-maybe-ambiguous", lambda: setattr(c, anyn, True if anyn in VOID else 1.5)),
        ("cons:asdict-unknown-name", lambda: setattr(c, "asdict", {**{m: (True if m in VOID else 2.0) for m in three}, "bogus": 1})),
        ("cons:asdict-bad-value", lambda: setattr(c, "asdict", {three[0]: (True if three[0] in VOID else 2.0), valn: "abc"})),
        ("cons:asdict-overfull", lambda: setattr(c, "asdict", {m: (True if m in VOID else 2.0) for m in rng.sample(NAMES, 5)})),
        ("cons:astuple-bad-element", lambda: setattr(c, "astuple", ((valn, 1.0), "nonsense"))),
        ("cons:astuple-bad-value", lambda: setattr(c, "astuple", ((three[0], 1.0) if three[0] not in VOID else three[0], (valn, "abc")))),
        ("cons:asdict-not-a-dict", lambda: setattr(c, "asdict", [("mu", 1)])),
        ("lattice:no-params", lambda: ub.set_lattice("x")),
        ("lattice:five-numbers", lambda: ub.set_lattice("x", 1.0, 2.0, 3.0, 90.0, 90.0)),
        ("lattice:bad-system", lambda: ub.set_lattice("x", "Nonsense", 1.0)),
        ("lattice:wrong-count-for-system", lambda: ub.set_lattice("x", "Cubic", 1.0, 2.0)),
        ("lattice:name-not-str", lambda: ub.set_lattice(5, 1.0)),
        ("lattice:non-numeric", lambda: ub.set_lattice("x", "Cubic", "a")),
        ("lattice:mixed", lambda: ub.set_lattice("x", 1.0, "Cubic")),
        ("refl:edit-index-above", lambda: ub.edit_reflection(nr + 1 + rng.randint(0, 2), (1, 0, 0), pos, 10.0, "t")),
        ("refl:edit-unknown-tag", lambda: ub.edit_reflection("zz", (1, 0, 0), pos, 10.0, "t")),
        ("refl:edit-bad-position", lambda: ub.edit_reflection(1, (1, 0, 0), (1, 2, 3, 4, 5, 6), 10.0, "t")),
        ("refl:add-bad-position", lambda: ub.add_reflection((1, 0, 0), (1, 2, 3, 4, 5, 6), 10.0, "t")),
        ("refl:del-index-above", lambda: ub.del_reflection(nr + 1)),
        ("refl:del-unknown-tag", lambda: ub.del_reflection("zz")),
        ("refl:swap-index-above", lambda: ub.swap_reflections(1, nr + 1)),
        ("refl:swap-first-above", lambda: ub.swap_reflections(nr + 2, 1)),
        ("refl:swap-unknown-tag", lambda: ub.swap_reflections(1, "zz")),
        ("orient:edit-index-above", lambda: ub.edit_orientation(no + 1, (1, 0, 0), (1, 0, 0), pos, "t")),
        ("orient:edit-unknown-tag", lambda: ub.edit_orientation("zz", (1, 0, 0), (1, 0, 0), pos, "t")),
        ("orient:edit-bad-position", lambda: ub.edit_orientation(1, (1, 0, 0), (1, 0, 0), (1, 2, 3), "t")),
        ("orient:add-bad-position", lambda: ub.add_orientation((1, 0, 0), (1, 0, 0), (1, 2, 3), "t")),
        ("orient:del-index-above", lambda: ub.del_orientation(no + 1)),
        ("orient:swap-unknown-tag", lambda: ub.swap_orientations("zz", 1)),
        ("set_u:bad-shape", lambda: ub.set_u([[1, 0], [0, 1]])),
        ("set_u:vector", lambda: ub.set_u([1, 2, 3])),
        ("set_u:non-numeric", lambda: ub.set_u([["a", 0, 0], [0, 1, 0], [0, 0, 1]])),
        ("set_ub:bad-shape", lambda: ub.set_ub(np.eye(4))),
        ("set_ub:3x4", lambda: ub.set_ub(np.ones((3, 4)))),
        ("set_ub:3x2", lambda: ub.set_ub([[1, 0], [0, 1], [0, 0]])),
        ("set_ub:2x3", lambda: ub.set_ub(np.ones((2, 3)))),
        ("set_ub:3x3x1", lambda: ub.set_ub(np.ones((3, 3, 1)))),
        ("set_ub:non-numeric", lambda: ub.set_ub([["a", 0, 0], [0, 1, 0], [0, 0, 1]])),
        ("set_u:3x4", lambda: ub.set_u(np.ones((3, 4)))),
        ("set_u:4x3", lambda: ub.set_u(np.ones((4, 3)))),
        ("set_ub:ragged", lambda: ub.set_ub([[1, 0, 0], [0, 1], [0, 0, 1]])),
        ("calc_ub:unknown-tags", lambda: ub.calc_ub("zz", "yy")),
        ("calc_ub:index-above", lambda: ub.calc_ub(nr + no + 5, nr + no + 6)),
        ("calc_ub:default", lambda: ub.calc_ub()),
        ("calc_ub:same-reference-twice", lambda: ub.calc_ub(1, 1)),
    ]
    # every argument of the list editors, malformed in every way a caller gets wrong: too short, too long, scalar, None, text, short array
    BAD3 = [(1, 1), (1, 1, 0, 2), 5, None, "ab", np.array([1.0, 2.0]), (), [1, 0, "x", 4], {"h": 1}]
    for bi, bad in enumerate(BAD3):
        lab = type(bad).__name__ + str(len(bad) if hasattr(bad, "__len__") else "")
        for ix in (1, max(nr, 1), "a"):
            ops.append((f"refl:edit-bad-hkl-{lab}", lambda bad=bad, ix=ix: ub.edit_reflection(ix, bad, pos, 10.0, "t")))
        for ix in (1, max(no, 1), "a", "o"):
            ops.append((f"orient:edit-bad-hkl-{lab}", lambda bad=bad, ix=ix: ub.edit_orientation(ix, bad, (1, 0, 0), pos, "t")))
            ops.append((f"orient:edit-bad-xyz-{lab}", lambda bad=bad, ix=ix: ub.edit_orientation(ix, (1, 1, 0), bad, pos, "t")))
            ops.append((f"orient:edit-bad-xyz-nopos-{lab}", lambda bad=bad, ix=ix: ub.edit_orientation(ix, (1, 1, 0), bad, None, "t")))
        ops.append((f"refl:add-bad-hkl-{lab}", lambda bad=bad: ub.add_reflection(bad, pos, 10.0, "t")))
        ops.append((f"orient:add-bad-hkl-{lab}", lambda bad=bad: ub.add_orientation(bad, (1, 0, 0), pos, "t")))
        ops.append((f"orient:add-bad-xyz-{lab}", lambda bad=bad: ub.add_orientation((1, 0, 0), bad, pos, "t")))
        ops.append((f"vector:n_hkl-{lab}", lambda bad=bad: setattr(ub, "n_hkl", bad)))
        ops.append((f"vector:surf_nphi-{lab}", lambda bad=bad: setattr(ub, "surf_nphi", bad)))
        ops.append((f"miscut:bad-axis-{lab}", lambda bad=bad: ub.set_miscut(bad, 3.0)))
        ops.append((f"refine:bad-hkl-{lab}", lambda bad=bad: ub.refine_ub(bad, pos, 1.0, True, True)))
    # bulk assignments whose bad entry is a name the class itself uses, or a value no float can hold
    first = (three[0], True if three[0] in VOID else 2.0)
    for nm in ("clear", "asdict", "astuple", "is_fully_constrained", "_mu", "_all", "constrained", "__class__", "", 5, None):
        ops.append((f"cons:asdict-colliding-name-{nm!r}", lambda nm=nm: setattr(c, "asdict", {first[0]: first[1], nm: 1})))
        ops.append((f"cons:astuple-colliding-name-{nm!r}", lambda nm=nm: setattr(c, "astuple", ((first[0], first[1]) if first[0] not in VOID else first[0], (nm, 1.0)))))
        ops.append((f"cons:astuple-colliding-bare-{nm!r}", lambda nm=nm: setattr(c, "astuple", ((first[0], first[1]) if first[0] not in VOID else first[0], nm))))
    for val, vl in ((10 ** 400, "huge-int"), (float("nan"), "nan"), (float("inf"), "inf"), (1j, "complex"), (None, "None"), (b"1", "bytes"), (np.array([1.0, 2.0]), "array2")):
        ops.append((f"cons:set-{vl}", lambda val=val: setattr(c, valn, val)))
        ops.append((f"cons:asdict-{vl}", lambda val=val: setattr(c, "asdict", {first[0]: first[1], valn: val})))
        ops.append((f"cons:astuple-{vl}", lambda val=val: setattr(c, "astuple", ((first[0], first[1]) if first[0] not in VOID else first[0], (valn, val)))))
        ops.append((f"lattice:{vl}", lambda val=val: ub.set_lattice("x", 4.0, val, 5.0)))
    # well-formed but numerically degenerate arguments: whatever the library decides about them (accept or refuse), a refusal leaves no trace
    nan, inf = float("nan"), float("inf")
    DEG = {"zeros": np.zeros((3, 3)), "rank1": np.outer([1.0, 2.0, 3.0], [1.0, -1.0, 0.5]), "rank2": np.array([[1.0, 2.0, 3.0], [4.0, 5.0, 6.0], [7.0, 8.0, 9.0]]),
           "zero-row": np.array([[1.0, 0, 0], [0, 0, 0], [0, 0, 1.0]]), "nan": np.full((3, 3), nan), "one-nan": np.array([[1.0, 0, 0], [0, nan, 0], [0, 0, 1.0]]),
           "inf": np.array([[inf, 0, 0], [0, 1.0, 0], [0, 0, 1.0]]), "huge": np.eye(3) * 1e308, "tiny": np.eye(3) * 1e-300,
           "improper": np.diag([1.0, 1.0, -1.0]), "int-list": [[0, 0, 0], [0, 0, 0], [0, 0, 0]]}
    for lab, m in DEG.items():
        ops.append((f"set_ub:degenerate-{lab}", lambda m=m: ub.set_ub(m)))
        ops.append((f"set_u:degenerate-{lab}", lambda m=m: ub.set_u(m)))
    for lab, lat in (("zero-length", (0.0, 5.0, 6.0)), ("negative-length", (-4.0,)), ("zero-angle", (4.0, 5.0, 6.0, 0.0)), ("flat-angle", (4.0, 5.0, 6.0, 180.0)),
                     ("impossible-angles", (4.0, 5.0, 6.0, 10.0, 20.0, 170.0)), ("angles-sum-360", (4.0, 5.0, 6.0, 120.0, 120.0, 120.0)),
                     ("cubic-zero", ("Cubic", 0.0)), ("hexagonal-negative", ("Hexagonal", 3.0, -5.0)), ("rhombohedral-120", ("Rhombohedral", 4.0, 120.0)),
                     ("tiny", (1e-300,)), ("huge", (1e300, 1e300, 1e300))):
        ops.append((f"lattice:degenerate-{lab}", lambda lat=lat: ub.set_lattice("x", *lat)))
    for lab, (ax, ang) in (("zero-axis", ((0.0, 0.0, 0.0), 5.0)), ("nan-angle", ((0.0, 1.0, 0.0), nan)), ("nan-axis", ((nan, 1.0, 0.0), 5.0)), ("inf-angle", ((0.0, 1.0, 0.0), inf))):
        ops.append((f"miscut:degenerate-{lab}", lambda ax=ax, ang=ang: ub.set_miscut(ax, ang)))
        ops.append((f"miscut:degenerate-add-{lab}", lambda ax=ax, ang=ang: ub.set_miscut(ax, ang, True)))
    ops.append(("fit:too-few", lambda: ub.fit_ub([1, 2], True, True)))
    ops.append(("fit:none", lambda: ub.fit_ub(None, True, True)))
    ops.append(("fit:index-above", lambda: ub.fit_ub([1, 2, nr + 3], True, True)))
    ops.append(("fit:unknown-tag", lambda: ub.fit_ub([1, 2, "zz"], True, True)))
    for lab, v in (("zero", (0.0, 0.0, 0.0)), ("nan", (nan, 0.0, 1.0)), ("inf", (inf, 0.0, 1.0))):
        for w in ("n_hkl", "n_phi", "surf_nhkl", "surf_nphi"):
            ops.append((f"vector:degenerate-{w}-{lab}", lambda v=v, w=w: setattr(ub, w, v)))
    return ops


def parallel_case(rng):
    """two references with parallel hkl, or non-parallel hkl but parallel measured directions"""
    from diffcalc.hkl.geometry import Position
    ub, c = random_state(rng)
    with quiet():
        ub.set_lattice("x", 4.1, 5.2, 6.3, 80, 95, 100)
        ub.set_u(rot_from_rotvec([rng.uniform(-1, 1) for _ in range(3)]))
    p1 = Position(*[rng.uniform(-80, 80) for _ in range(6)])
    p2 = Position(*[rng.uniform(-80, 80) for _ in range(6)])
    kind = rng.choice(["hkl-parallel", "pos-parallel", "xyz-parallel", "mixed-parallel"])
    if kind == "hkl-parallel":
        ub.add_reflection((1, 1, 0), p1, 12.0, "p1"); ub.add_reflection((2, 2, 0), p2, 12.0, "p2")
    elif kind == "pos-parallel":
        ub.add_reflection((1, 1, 0), p1, 12.0, "p1"); ub.add_reflection((0, 1, 1), p1, 12.0, "p2")
    elif kind == "xyz-parallel":
        ub.add_orientation((1, 0, 0), (0.2, 0.4, 0.6), None, "p1"); ub.add_orientation((0, 1, 0), (0.1, 0.2, 0.3), None, "p2")
    else:
        ub.add_reflection((1, 1, 0), p1, 12.0, "p1"); ub.add_orientation((3, 3, 0), (0, 1, 0), None, "p2")
    order = rng.choice([("p1", "p2"), ("p2", "p1")])
    return ub, c, ("calc_ub:" + kind, lambda: ub.calc_ub(*order))


def correspondence(ctx):
    # the hand models of the constraint manager and of the lists are stepped on histories that are rich in
    # rejected operations (same streams as C10 / C18); the UB state machine on C08's histories
    c10.correspondence(ctx)
    c18.correspondence(ctx)
    try:
        from props import c08
        c08.correspondence(ctx)
    except ImportError:
        ctx.notes.append("C08 model not available")


def oracle(ctx, widen=1):
    n = ctx.scale(150, 6000) * widen
    from harness import cons as HC
    cs, rs, bads = HC.refused_assignment_sweep(ctx.rng, ctx.scale(160, 1000) * widen)
    for what, rep in bads[:20]:
        ctx.violation(what, rep, {"kind": "rejected-update-mutates", "op": "cons:sweep-" + rep["name"]})
    ctx.stream("oracle:refused-assignment-sweep", cs, min(cs, rs), raised=rs)
    kinds = set()
    cases = 0
    raised = 0
    for it in range(n):
        if it % 5 == 4:
            ub, c, op = parallel_case(ctx.rng)
            ops = [op]
        else:
            ub, c = random_state(ctx.rng)
            ops = rejected_ops(ctx.rng, ub, c)
            ctx.rng.shuffle(ops)
            ops = ops[:40]
        for label, thunk in ops:
            before = snapshot(ub, c)
            exc = None
            try:
                with quiet():
                    thunk()
            except Exception as e:  # noqa
                exc = type(e).__name__
            cases += 1
            if exc is None:
                continue
            raised += 1
            kinds.add((label, exc))
            if snapshot(ub, c) != before:
                d0, d1 = pickle.loads(before), pickle.loads(snapshot(ub, c))
                what = "constraints" if d0[3] != d1[3] else "U/UB" if d0[1:3] != d1[1:3] else "lists/lattice/vectors"
                ctx.violation(f"{label} raised {exc} but changed the {what}: constraints {c.asdict}, lattice {None if ub.crystal is None else ub.crystal.get_lattice()}",
                              {"label": label, "exception": exc, "seed": ctx.seed, "iteration": it}, {"kind": "rejected-update-mutates", "op": label})
    ctx.stream("oracle:rejected-updates", cases, len(kinds), raised=raised)
    ctx.sample({"rejected kinds": sorted(f"{a} -> {b}" for a, b in kinds)[:12]})


def replay(ctx, data):
    print(data["what"]); print(data["replay"])
    return 0
