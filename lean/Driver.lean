import Diffcalc
import Diffcalc.Drive.SerialWire
/-!
# Line-protocol driver (Float reading of the models)

One request per input line, one answer per output line.  The Python harnesses (`tools/harness/*.py`) write the
same requests they execute on the real implementation, and diff the canonicalised answers.
Unknown or malformed requests answer `bad-op` — never a default.
-/
open Wire

abbrev Rec := Nat × Option String

structure DState where
  cons : CState Float := CState.init
  refl : List Rec := []
  orient : List Rec := []
  frames : Frames Float := Frames.init
  ubs : UBState Float := UBState.init

def parseIdx (s : String) : Option Idx :=
  if s.startsWith "#" then (s.drop 1).toString.toInt?.map Idx.num
  else if s.startsWith "@" then some (Idx.tag (s.drop 1).toString)
  else none

def parseTag (s : String) : Option String := if s == "~" then none else some s

def showRecs (l : List Rec) : String :=
  String.intercalate "," (l.map fun r => s!"{r.1}:{r.2.getD "~"}")

def showRes : RefList.Res Rec → String
  | .unit => "ok"
  | .record r => s!"rec {r.1}:{r.2.getD "~"}"
  | .nat n => s!"nat {n}"
  | .err .index => "IndexError"
  | .err .value => "ValueError"

def parseListOp : List String → Option (RefList.Op Rec)
  | ["add", i, t] => i.toNat?.map fun i => .add (i, parseTag t)
  | ["edit", ix, i, t] => match parseIdx ix, i.toNat? with
    | some ix, some i => some (.edit ix (i, parseTag t)) | _, _ => none
  | ["get", ix] => (parseIdx ix).map .get
  | ["del", ix] => (parseIdx ix).map .del
  | ["swap", a, b] => match parseIdx a, parseIdx b with | some a, some b => some (.swap a b) | _, _ => none
  | ["len"] => some .len
  | ["tagnum", t] => some (.tagNum t)
  | _ => none

def parseFloats (ts : List String) : Option (List Float) := ts.mapM parseFloat

def parseV3 : List String → Option (V3 Float)
  | [a, b, c] => match parseFloat a, parseFloat b, parseFloat c with
    | some a, some b, some c => some ⟨a, b, c⟩ | _, _, _ => none
  | _ => none

def showV3 (v : V3 Float) : String := s!"{showFloat v.x} {showFloat v.y} {showFloat v.z}"
def showOptV3 : Option (V3 Float) → String | none => "none" | some v => showV3 v
def showM3 (m : M3 Float) : String := String.intercalate " " (m.toList.map showFloat)

/-- parse a sequence of optional 3×3 matrices: each is `none` or nine hex floats -/
partial def parseOptM3s : List String → Option (List (Option (M3 Float)))
  | [] => some []
  | "none" :: r => (parseOptM3s r).map (none :: ·)
  | a :: b :: c :: d :: e :: f :: g :: h :: i :: r =>
    match (parseFloats [a, b, c, d, e, f, g, h, i]).bind M3.ofList, parseOptM3s r with
    | some m, some tl => some (some m :: tl)
    | _, _ => none
  | _ => none

def showOptM3 : Option (M3 Float) → String | none => "none" | some m => showM3 m
def showUErr : Except UErr Unit → String | .ok _ => "ok" | .error .dce => "dce" | .error .typeErr => "typeErr"
def showUBS (s : UBState Float) : String := s!"{showOptM3 s.B} | {showOptM3 s.U} | {showOptM3 s.UB}"

def parseUOp : List String → Option (UOp Float)
  | "setLattice" :: r => match parseOptM3s r with | some [m] => some (.setLattice m) | _ => none
  | "setU" :: r => match parseOptM3s r with | some [m] => some (.setU m) | _ => none
  | "setUb" :: r => match parseOptM3s r with | some [m] => some (.setUb m) | _ => none
  | "setMiscut" :: add :: r => match parseOptM3s r with
    | some [some m] => some (.setMiscut m (add == "add")) | _ => none
  | "calcUb" :: r => match parseOptM3s r with | some [m] => some (.calcUb m) | _ => none
  | "refineUb" :: r => match parseOptM3s r with | some [a, b] => some (.refineUb a b) | _ => none
  | "fitUb" :: r => match parseOptM3s r with | some [a, b] => some (.fitUb a b) | _ => none
  | _ => none

def showOptF : Option Float → String | none => "nan" | some x => showFloat x
def showPErr : PErr → String
  | .dce => "dce" | .assertion => "AssertionError" | .valueError => "ValueError" | .zeroDiv => "ZeroDivisionError"
  | .index => "IndexError" | .typeErr => "TypeError" | .linalg => "LinAlgError"
def showPos (p : Solver.Pos Float) : String := String.intercalate " " (p.toList.map showFloat)
def showVA (v : Solver.VAngles Float) : String :=
  String.intercalate " " [showFloat v.theta, showFloat v.ttheta, showFloat v.qaz, showFloat v.alpha, showOptF v.naz,
    showOptF v.tau, showOptF v.psi, showOptF v.beta, showFloat v.betain, showFloat v.betaout]

partial def parseCons : Nat → List String → Option (Solver.ConList Float × List String)
  | 0, r => some ([], r)
  | k+1, nm :: v :: r =>
    match Name.ofString? nm, (if v == "T" then some none else (parseFloat v).map some) with
    | some n, some val => (parseCons k r).map fun (tl, r') => ((n, val) :: tl, r')
    | _, _ => none
  | _, _ => none

/-- `UB(9) B(9) nphi(3) surf(3) k {name value|T}^k` -/
def parseUBIn (ts : List String) : Option (Solver.UBIn Float × List String) :=
  match parseFloats (ts.take 24) with
  | some [u0,u1,u2,u3,u4,u5,u6,u7,u8, b0,b1,b2,b3,b4,b5,b6,b7,b8, n0,n1,n2, s0,s1,s2] =>
    some ({ UB := ⟨u0,u1,u2,u3,u4,u5,u6,u7,u8⟩, B := ⟨b0,b1,b2,b3,b4,b5,b6,b7,b8⟩, n_phi := ⟨n0,n1,n2⟩, surf_nphi := ⟨s0,s1,s2⟩ }, ts.drop 24)
  | _ => none

partial def parseStored : List String → Option (List (CalcUB.Stored Float) × List (CalcUB.Stored Float))
  | [] => some ([], [])
  | "R" :: t :: r =>
    match parseFloats (r.take 9), parseStored (r.drop 9) with
    | some [h, k, l, mu, de, nu, et, ch, ph], some (rs, os) => some (⟨parseTag t, .refl ⟨h, k, l⟩ mu de nu et ch ph⟩ :: rs, os)
    | _, _ => none
  | "O" :: t :: r =>
    match parseFloats (r.take 12), parseStored (r.drop 12) with
    | some [h, k, l, x, y, z, mu, de, nu, et, ch, ph], some (rs, os) => some (rs, ⟨parseTag t, .orient ⟨h, k, l⟩ ⟨x, y, z⟩ mu de nu et ch ph⟩ :: os)
    | _, _ => none
  | _ => none

def parseArg : List String → Option (Arg Float × List String)
  | "none" :: r => some (.none, r)
  | "false" :: r => some (.fals, r)
  | "true" :: r => some (.tru, r)
  | "bad" :: r => some (.bad, r)
  | "badtype" :: r => some (.badType, r)
  | "num" :: h :: r => (parseFloat h).map fun x => (.num x, r)
  | _ => none

def showErr : Except CErr Unit → String
  | .ok _ => "ok"
  | .error .dce => "dce"
  | .error .typeErr => "typeErr"

def showCons (s : CState Float) : String :=
  String.intercalate ";" <| Name.all.map fun n =>
    match s.get n with
    | .none => "-"
    | .tru => "T"
    | .num x => showFloat x

partial def parseItems : Nat → List String → Option (List (CState.Item Float))
  | 0, [] => some []
  | 0, _ => none
  | k+1, nm :: rest =>
    match parseArg rest with
    | some (a, rest') => (parseItems k rest').map fun tl => (Name.ofString? nm, a) :: tl
    | none => none
  | _, _ => none

def routeStr : Route → String
  | .notImpl => "notImpl" | .noCode => "noCode" | .noYield => "noYield" | .solver k => s!"solver{k}"

def step (st : DState) (line : String) : DState × String :=
  match tokens line with
  | ["cons.reset"] => ({ st with cons := CState.init }, "ok | " ++ showCons CState.init)
  | "cons.set" :: nm :: rest =>
    match Name.ofString? nm, parseArg rest with
    | some n, some (a, []) =>
      let (s', r) := st.cons.set n a
      ({ st with cons := s' }, showErr r ++ " | " ++ showCons s')
    | _, _ => (st, "bad-op")
  | ["cons.del", nm] =>
    match Name.ofString? nm with
    | some n => let s' := st.cons.del n; ({ st with cons := s' }, "ok | " ++ showCons s')
    | none => (st, "bad-op")
  | ["cons.clear"] => let s' := st.cons.clear; ({ st with cons := s' }, "ok | " ++ showCons s')
  | "cons.bulk" :: k :: rest =>
    match k.toNat? with
    | some k =>
      match parseItems k rest with
      | some items =>
        let (s', r) := st.cons.setBulk items
        ({ st with cons := s' }, showErr r ++ " | " ++ showCons s')
      | none => (st, "bad-op")
    | none => (st, "bad-op")
  | ["cons.rebuild"] =>
    -- Constraints(c.asdict): rebuild from the read-out
    let (s', r) := (CState.init : CState Float).setBulk st.cons.asItems
    (st, showErr r ++ " | " ++ showCons s')
  | ["cons.mode"] =>
    -- fully constrained? implemented? route
    if st.cons.isFullyConstrained then
      let t := st.cons.activeNames
      (st, s!"full {implemented t} {routeStr (dispatch t)}")
    else (st, "notfull")
  | "rl.refl" :: rest =>
    if rest == ["reset"] then ({ st with refl := [] }, "ok | ") else
    match parseListOp rest with
    | some op => let (l, r) := RefList.step (fun (x : Rec) => x.2) st.refl op
                 ({ st with refl := l }, showRes r ++ " | " ++ showRecs l)
    | none => (st, "bad-op")
  | "rl.orient" :: rest =>
    if rest == ["reset"] then ({ st with orient := [] }, "ok | ") else
    match parseListOp rest with
    | some op => let (l, r) := RefList.step (fun (x : Rec) => x.2) st.orient op
                 ({ st with orient := l }, showRes r ++ " | " ++ showRecs l)
    | none => (st, "bad-op")
  | ["ub.reset"] => ({ st with ubs := UBState.init }, "ok | " ++ showUBS UBState.init)
  | "ub" :: rest =>
    match parseUOp rest with
    | some op => let (s', r) := st.ubs.step op
                 ({ st with ubs := s' }, showUErr r ++ " | " ++ showUBS s')
    | none => (st, "bad-op")
  | "gp" :: kind :: rest =>
    match parseUBIn rest with
    | some (ub, k :: r) =>
      match k.toNat?.bind (fun k => parseCons k r) with
      | some (cs, r2) =>
        match parseFloats r2 with
        | some [h, kk, l, wl] =>
          match Solver.Mode.ofCons cs with
          | none => (st, "notimpl")
          | some mode =>
            let res := if kind == "full" then Solver.getPosition ub mode ⟨h, kk, l⟩ wl else Solver.hklToPosition ub mode ⟨h, kk, l⟩ wl
            match res with
            | .ok pairs => (st, s!"ok {pairs.length} | " ++ String.intercalate " ; " (pairs.map fun (p, va) => showPos p ++ " | " ++ showVA va))
            | .error e => (st, showPErr e)
        | _ => (st, "bad-op")
      | none => (st, "bad-op")
    | _ => (st, "bad-op")
  | "va" :: rest =>
    match parseUBIn rest with
    | some (ub, r) =>
      match parseFloats r with
      | some [mu, de, nu, et, ch, ph] =>
        match Solver.virtualAngles ub ⟨mu, de, nu, et, ch, ph⟩ with
        | .ok va => (st, "ok " ++ showVA va)
        | .error e => (st, showPErr e)
      | _ => (st, "bad-op")
    | none => (st, "bad-op")
  | "calcub" :: rest =>
    -- calcub B(9) i1 i2 {R tag h k l mu de nu et ch ph | O tag h k l x y z mu de nu et ch ph}...
    match parseFloats (rest.take 9), rest.drop 9 with
    | some [b0,b1,b2,b3,b4,b5,b6,b7,b8], i1 :: i2 :: recs =>
      let pIdx (s : String) : Option (Option Idx) := if s == "-" then some none else (parseIdx s).map some
      match pIdx i1, pIdx i2, parseStored recs with
      | some i1, some i2, some (rs, os) =>
        match CalcUB.calcUb ⟨b0,b1,b2,b3,b4,b5,b6,b7,b8⟩ rs os i1 i2 with
        | .ok U => (st, "ok " ++ showM3 U)
        | .error e => (st, showPErr e)
      | _, _, _ => (st, "bad-op")
    | _, _ => (st, "bad-op")
  | "ser.asdict" :: kind :: rest =>
    -- raw internal state -> the dictionary `asdict` would give
    match SerialWire.parseJ rest with
    | some (j, []) =>
      if kind == "hkl" then
        match SerialWire.hklOfRaw j with
        | some s => (st, "ok " ++ SerialWire.showJ (Serial.hklDict s))
        | none => (st, "bad-op")
      else if kind == "ub" then
        match SerialWire.ubOfRaw j with
        | some s => (st, "ok " ++ SerialWire.showJ (Serial.ubDict s))
        | none => (st, "bad-op")
      else (st, "bad-op")
    | _ => (st, "bad-op")
  | "ser.fromdict" :: kind :: rest =>
    -- a dictionary -> the raw internal state `fromdict` would build ("raise" where the Python raises)
    match SerialWire.parseJ rest with
    | some (j, []) =>
      if kind == "hkl" then
        match Serial.hklOfDict j with
        | some s => (st, "ok " ++ SerialWire.showJ (SerialWire.hklRaw s))
        | none => (st, "raise")
      else if kind == "ub" then
        match Serial.ubOfDict j with
        | some s => (st, "ok " ++ SerialWire.showJ (SerialWire.ubRaw s))
        | none => (st, "raise")
      else (st, "bad-op")
    | _ => (st, "bad-op")
  | "refine" :: sys :: fl :: fu :: rest =>
    -- refine <system> <refLat T|F> <refU T|F> cell(6, radians) U(9) hkl(3) pos(6, radians) wl
    match parseFloats rest with
    | some [a1, a2, a3, l1, l2, l3, u0,u1,u2,u3,u4,u5,u6,u7,u8, h, k, l, mu, de, nu, et, ch, ph, wl] =>
      let q := Gen.get_q_phi mu de nu et ch ph
      match Refine.refineUb sys (a1, a2, a3, l1, l2, l3) ⟨u0,u1,u2,u3,u4,u5,u6,u7,u8⟩ ⟨h, k, l⟩ q wl (fl == "T") (fu == "T") with
      | .ok (c, s) =>
        let sm (m : Option (M3 Float)) : String := match m with | some m => showM3 m | none => "none"
        (st, s!"ok {showFloat c.1} {showFloat c.2.1} {showFloat c.2.2.1} {showFloat c.2.2.2.1} {showFloat c.2.2.2.2.1} {showFloat c.2.2.2.2.2} | {sm s.U} | {sm s.UB}")
      | .error e => (st, showPErr e)
    | _ => (st, "bad-op")
  | "fitun" :: rest =>
    -- fitun {hkl(3) pos(6, radians) energy}...
    match parseFloats rest with
    | some xs =>
      let rec grp : List Float → Option (List (V3 Float × V3 Float × Float))
        | [] => some []
        | h :: k :: l :: mu :: de :: nu :: et :: ch :: ph :: en :: r =>
          (grp r).map fun t => (⟨h, k, l⟩, Gen.get_q_phi mu de nu et ch ph, en) :: t
        | _ => none
      match grp xs with
      | some refl =>
        let (U, c) := Refine.fitUncon refl
        (st, s!"ok {showM3 U} | {showFloat c.1} {showFloat c.2.1} {showFloat c.2.2.1} {showFloat c.2.2.2.1} {showFloat c.2.2.2.2.1} {showFloat c.2.2.2.2.2}")
      | none => (st, "bad-op")
    | none => (st, "bad-op")
  | "polar.fwd" :: rest =>
    match parseFloats rest with
    | some [u0,u1,u2,u3,u4,u5,u6,u7,u8, h, k, l, pol, az] =>
      (st, showV3 (Polar.hklFromPolar ⟨u0,u1,u2,u3,u4,u5,u6,u7,u8⟩ ⟨h, k, l⟩ pol az))
    | _ => (st, "bad-op")
  | "polar.inv" :: rest =>
    match parseFloats rest with
    | some [u0,u1,u2,u3,u4,u5,u6,u7,u8, b0,b1,b2,b3,b4,b5,b6,b7,b8, oh, ok, ol, rh, rk, rl] =>
      match Polar.polarFromHkl ⟨u0,u1,u2,u3,u4,u5,u6,u7,u8⟩ ⟨b0,b1,b2,b3,b4,b5,b6,b7,b8⟩ ⟨oh, ok, ol⟩ ⟨rh, rk, rl⟩ with
      | .ok (pol, az, sc) => (st, s!"ok {showFloat pol} {showOptF az} {showFloat sc}")
      | .error e => (st, showPErr e)
    | _ => (st, "bad-op")
  | "cryst.B" :: rest =>
    match parseFloats rest with
    | some [a1, a2, a3, l1, l2, l3] => (st, showM3 (Gen.reciprocalB a1 a2 a3 l1 l2 l3))
    | _ => (st, "bad-op")
  | "cryst.call" :: sys :: rest =>
    match parseFloats rest with
    | some nums =>
      match CrystalModel.cellOfCall (if sys == "-" then none else some sys) nums with
      | some (s, c) => (st, s!"{s} {showFloat c.1} {showFloat c.2.1} {showFloat c.2.2.1} {showFloat c.2.2.2.1} {showFloat c.2.2.2.2.1} {showFloat c.2.2.2.2.2} | {showM3 (CrystalModel.Bof c)}")
      | none => (st, "none")
    | none => (st, "bad-op")
  | "cryst.dist" :: rest =>
    match parseFloats rest with
    | some [b0, b1, b2, b3, b4, b5, b6, b7, b8, h, k, l] =>
      match CrystalModel.planeDistance ⟨b0, b1, b2, b3, b4, b5, b6, b7, b8⟩ ⟨h, k, l⟩ with
      | .ok d => (st, "ok " ++ showFloat d)
      | .error .zeroDiv => (st, "zeroDiv")
      | .error .valueError => (st, "valueError")
      | .error _ => (st, "other-error")
    | _ => (st, "bad-op")
  | "cryst.angle" :: rest =>
    match parseFloats rest with
    | some [b0, b1, b2, b3, b4, b5, b6, b7, b8, h1, k1, l1, h2, k2, l2] =>
      match CrystalModel.planeAngle ⟨b0, b1, b2, b3, b4, b5, b6, b7, b8⟩ ⟨h1, k1, l1⟩ ⟨h2, k2, l2⟩ with
      | .ok d => (st, "ok " ++ showFloat d)
      | .error .assertion => (st, "assertion")
      | .error _ => (st, "other-error")
    | _ => (st, "bad-op")
  | "cryst.tth" :: rest =>
    match parseFloats rest with
    | some [b0, b1, b2, b3, b4, b5, b6, b7, b8, h, k, l, en] =>
      match CrystalModel.ttheta ⟨b0, b1, b2, b3, b4, b5, b6, b7, b8⟩ ⟨h, k, l⟩ en with
      | .ok d => (st, "ok " ++ showFloat d)
      | .error .dce => (st, "dce")
      | .error _ => (st, "other-error")
    | _ => (st, "bad-op")
  | "hkl" :: rest =>
    match parseFloats rest with
    | some [b0, b1, b2, b3, b4, b5, b6, b7, b8, mu, de, nu, et, ch, ph, wl] =>
      (st, showV3 (Gen.get_hkl ⟨b0, b1, b2, b3, b4, b5, b6, b7, b8⟩ mu de nu et ch ph wl))
    | _ => (st, "bad-op")
  | "qphi" :: rest =>
    match parseFloats rest with
    | some [mu, de, nu, et, ch, ph] => (st, showV3 (Gen.get_q_phi mu de nu et ch ph))
    | _ => (st, "bad-op")
  | "rot" :: name :: rest =>
    match parseFloats rest with
    | some [t] =>
      match name with
      | "x_rotation" => (st, showM3 (Gen.x_rotation t))
      | "y_rotation" => (st, showM3 (Gen.y_rotation t))
      | "z_rotation" => (st, showM3 (Gen.z_rotation t))
      | "rot_MU" => (st, showM3 (Gen.rot_MU t))
      | "rot_DELTA" => (st, showM3 (Gen.rot_DELTA t))
      | "rot_NU" => (st, showM3 (Gen.rot_NU t))
      | "rot_ETA" => (st, showM3 (Gen.rot_ETA t))
      | "rot_CHI" => (st, showM3 (Gen.rot_CHI t))
      | "rot_PHI" => (st, showM3 (Gen.rot_PHI t))
      | _ => (st, "bad-op")
    | _ => (st, "bad-op")
  | "fq" :: name :: rest =>
    match parseFloats rest with
    | some [x, q, b0, b1, b2, b3, b4, b5, b6, b7, b8, a, b, c, d] =>
      match Gen.solveFixed name x q ⟨b0, b1, b2, b3, b4, b5, b6, b7, b8⟩ a b c d with
      | .ok vs => (st, "ok " ++ String.intercalate " " (vs.map fun v => s!"{showFloat v.1} {showFloat v.2.1} {showFloat v.2.2}"))
      | .error .dce => (st, "dce")
      | .error _ => (st, "other-error")
    | _ => (st, "bad-op")
  | ["fr.reset"] => ({ st with frames := Frames.init }, "ok")
  | "fr.set" :: which :: rest =>
    match parseV3 rest with
    | some v =>
      let f := st.frames
      match which with
      | "n_hkl" => ({ st with frames := f.set_n_hkl v }, "ok")
      | "n_phi" => ({ st with frames := f.set_n_phi v }, "ok")
      | "surf_nhkl" => ({ st with frames := f.set_surf_nhkl v }, "ok")
      | "surf_nphi" => ({ st with frames := f.set_surf_nphi v }, "ok")
      | _ => (st, "bad-op")
    | none => (st, "bad-op")
  | ["fr.ub", "none"] => ({ st with frames := st.frames.set_UB none }, "ok")
  | "fr.ub" :: rest =>
    match (parseFloats rest).bind M3.ofList with
    | some m => ({ st with frames := st.frames.set_UB (some m) }, "ok")
    | none => (st, "bad-op")
  | ["fr.get"] =>
    let f := st.frames
    (st, String.intercalate " | " [showOptV3 f.n_hkl, showOptV3 f.n_phi, showOptV3 f.surf_nhkl, showOptV3 f.surf_nphi])
  | ["modes.all"] =>
    let lines := triples.map fun t =>
      String.intercalate "," (t.map Name.toString) ++ s!" {accepted t} {implemented t} {routeStr (dispatch t)} {documented t}"
    (st, String.intercalate "|" lines)
  | _ => (st, "bad-op")

partial def loop (h : IO.FS.Stream) (out : IO.FS.Stream) (st : DState) : IO Unit := do
  let line ← h.getLine
  if line.isEmpty then return ()
  let (st', o) := step st line
  out.putStrLn o
  loop h out st'

def main : IO Unit := do
  let out ← IO.getStdout
  loop (← IO.getStdin) out {}
  out.flush
