import Diffcalc
/-!
# Line-protocol driver (Float reading of the models)

One request per input line, one answer per output line.  The Python harnesses (`tools/harness/*.py`) write the
same requests they execute on the real implementation, and diff the canonicalised answers.
Unknown or malformed requests answer `bad-op` — never a default.
-/
open Wire

structure DState where
  cons : CState Float := CState.init

def parseArg : List String → Option (Arg Float × List String)
  | "none" :: r => some (.none, r)
  | "false" :: r => some (.fals, r)
  | "true" :: r => some (.tru, r)
  | "bad" :: r => some (.bad, r)
  | "badtype" :: r => some (.badType, r)
  | "num" :: h :: r => (parseFloat h).map fun x => (.num x, r)
  | _ => none

def showErr : Except CErr Unit → String
  | .ok _ => "ok"
  | .error .dce => "dce"
  | .error .typeErr => "typeErr"

def showCons (s : CState Float) : String :=
  String.intercalate ";" <| Name.all.map fun n =>
    match s.get n with
    | .none => "-"
    | .tru => "T"
    | .num x => showFloat x

partial def parseItems : Nat → List String → Option (List (CState.Item Float))
  | 0, [] => some []
  | 0, _ => none
  | k+1, nm :: rest =>
    match parseArg rest with
    | some (a, rest') => (parseItems k rest').map fun tl => (Name.ofString? nm, a) :: tl
    | none => none
  | _, _ => none

def routeStr : Route → String
  | .notImpl => "notImpl" | .noCode => "noCode" | .noYield => "noYield" | .solver k => s!"solver{k}"

def step (st : DState) (line : String) : DState × String :=
  match tokens line with
  | ["cons.reset"] => ({ st with cons := CState.init }, "ok | " ++ showCons CState.init)
  | "cons.set" :: nm :: rest =>
    match Name.ofString? nm, parseArg rest with
    | some n, some (a, []) =>
      let (s', r) := st.cons.set n a
      ({ st with cons := s' }, showErr r ++ " | " ++ showCons s')
    | _, _ => (st, "bad-op")
  | ["cons.del", nm] =>
    match Name.ofString? nm with
    | some n => let s' := st.cons.del n; ({ st with cons := s' }, "ok | " ++ showCons s')
    | none => (st, "bad-op")
  | ["cons.clear"] => let s' := st.cons.clear; ({ st with cons := s' }, "ok | " ++ showCons s')
  | "cons.bulk" :: k :: rest =>
    match k.toNat? with
    | some k =>
      match parseItems k rest with
      | some items =>
        let (s', r) := st.cons.setBulk items
        ({ st with cons := s' }, showErr r ++ " | " ++ showCons s')
      | none => (st, "bad-op")
    | none => (st, "bad-op")
  | ["cons.rebuild"] =>
    -- Constraints(c.asdict): rebuild from the read-out
    let (s', r) := (CState.init : CState Float).setBulk st.cons.asItems
    (st, showErr r ++ " | " ++ showCons s')
  | ["cons.mode"] =>
    -- fully constrained? implemented? route
    if st.cons.isFullyConstrained then
      let t := st.cons.activeNames
      (st, s!"full {implemented t} {routeStr (dispatch t)}")
    else (st, "notfull")
  | ["modes.all"] =>
    let lines := triples.map fun t =>
      String.intercalate "," (t.map Name.toString) ++ s!" {accepted t} {implemented t} {routeStr (dispatch t)} {documented t}"
    (st, String.intercalate "|" lines)
  | _ => (st, "bad-op")

partial def loop (h : IO.FS.Stream) (out : IO.FS.Stream) (st : DState) : IO Unit := do
  let line ← h.getLine
  if line.isEmpty then return ()
  let (st', o) := step st line
  out.putStrLn o
  loop h out st'

def main : IO Unit := do
  let out ← IO.getStdout
  loop (← IO.getStdin) out {}
  out.flush
