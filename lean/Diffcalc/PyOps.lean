import Diffcalc.Scalar
/-!
# Python's partial numeric operations

`math.asin/acos/sqrt` raise `ValueError` outside their domain, Python-float division raises `ZeroDivisionError`,
`diffcalc.util.bound` raises `AssertionError` beyond `1 + SMALL`.  The models keep these partial
(no totalisation): an operation the real code rejects is rejected here with the same error class.
-/
open Scalar

inductive PErr
  | dce          -- DiffcalcException
  | assertion    -- AssertionError (from `bound`, or an `assert`)
  | valueError   -- ValueError ("math domain error")
  | zeroDiv      -- ZeroDivisionError
  | index        -- IndexError
  | typeErr      -- TypeError
  | linalg       -- numpy.linalg.LinAlgError
  deriving DecidableEq, Repr

abbrev Py (α : Type) := Except PErr α

namespace PyOps
variable {α : Type} [Scalar α]

/-- `diffcalc.util.bound` -/
def bound (x : α) : Py α :=
  if lt (one + SMALL) (abs x) then .error .assertion
  else if lt one x then .ok one
  else if lt x (-one) then .ok (-one)
  else .ok x

/-- `math.asin`: ValueError strictly outside [-1, 1]; NaN passes through (as in CPython) -/
def pyAsin (x : α) : Py α := if lt one (abs x) then .error .valueError else .ok (asin x)
/-- `math.acos` -/
def pyAcos (x : α) : Py α := if lt one (abs x) then .error .valueError else .ok (acos x)
/-- `math.sqrt`: ValueError below zero; NaN passes through -/
def pySqrt (x : α) : Py α := if lt x zero then .error .valueError else .ok (sqrt x)
/-- Python float division -/
def pyDiv (x y : α) : Py α := if beq y zero then .error .zeroDiv else .ok (x / y)

/-- `diffcalc.util.angles_equivalent(first, second, tolerance)` (degrees) -/
def anglesEquivalentTol (a b tol : α) : Bool :=
  isSmallTol (sin (toRad (a - b) / two)) (toRad tol)
def anglesEquivalent (a b : α) : Bool := anglesEquivalentTol a b SMALL
end PyOps
