/-!
# One definition, two readings

`Scalar α` is the arithmetic interface used by every numeric model definition.
* `Float` instance (here): executable, same libm as CPython's `math` — used by the driver to run the model
  against the Python implementation.
* `ℝ` instance (`DiffcalcProofs/RealScalar.lean`): noncomputable — the object of the theorems.
-/

class Scalar (α : Type) extends Add α, Sub α, Mul α, Div α, Neg α where
  ofNat : Nat → α
  ofSci : Nat → Bool → Nat → α
  pi : α
  sqrt : α → α
  cbrt : α → α
  sin : α → α
  cos : α → α
  tan : α → α
  asin : α → α
  acos : α → α
  atan : α → α
  atan2 : α → α → α
  abs : α → α
  lt : α → α → Bool
  le : α → α → Bool
  beq : α → α → Bool

namespace Scalar
variable {α : Type} [Scalar α]
def zero : α := ofNat 0
def one : α := ofNat 1
def two : α := ofNat 2
/-- `diffcalc.util.SMALL = 1e-7` -/
def SMALL : α := ofSci 1 true 7
/-- `math.isclose(x, 0, abs_tol=tol)` (for finite `x`) -/
def isSmallTol (x tol : α) : Bool := le (abs x) tol
/-- `diffcalc.util.is_small` with the default tolerance -/
def isSmall (x : α) : Bool := isSmallTol x SMALL
/-- `diffcalc.util.sign` (returns 0 / 1 / -1 as a scalar) -/
def sign (x : α) : α := if isSmall x then zero else if lt zero x then one else -one
def sq (x : α) : α := x * x
/-- `math.hypot` -/
def hypot (x y : α) : α := sqrt (x * x + y * y)
def toRad (d : α) : α := d * pi / ofNat 180
def toDeg (r : α) : α := r * ofNat 180 / pi
end Scalar

instance : Scalar Float where
  ofNat n := Float.ofNat n
  ofSci m s e := OfScientific.ofScientific m s e
  pi := 3.141592653589793
  sqrt := Float.sqrt
  cbrt := Float.cbrt
  sin := Float.sin
  cos := Float.cos
  tan := Float.tan
  asin := Float.asin
  acos := Float.acos
  atan := Float.atan
  atan2 := Float.atan2
  abs := Float.abs
  lt a b := a < b
  le a b := a ≤ b
  beq a b := a == b
