import Diffcalc.Solver.Basic
/-! Hand model of `src/diffcalc/hkl/calc_sample.py`. Sample tuples are `(mu, eta, chi, phi)` as in the source. -/
open Scalar PyOps

namespace Solver
variable {α : Type} [Scalar α]

def v3set (v : V3 α) (i : Nat) (x : α) : V3 α :=
  match i with | 0 => { v with x := x } | 1 => { v with y := x } | _ => { v with z := x }

/-- index of the first minimal element of three -/
def argmin3 (a b c : α) : Nat :=
  if le a b then (if le a c then 0 else 2) else (if le b c then 1 else 2)

/-- `_calc_N(Q, n)` — Eq. (31), with the replacement of a reference vector parallel to `Q` (Eq. 78) -/
def calcN (Q0 n0 : V3 α) : Py (M3 α) := do
  let Q := V3.normalised Q0
  let n := V3.normalised n0
  let ang ← angleBetween Q n
  let n :=
    if isSmall (sin (toRad ang)) then
      let imin := argmin3 (abs Q.x) (abs Q.y) (abs Q.z)
      let (i1, i2) := match imin with | 0 => (1, 2) | 1 => (0, 2) | _ => (0, 1)
      let qval := hypot (Q.get i1) (Q.get i2)
      let n1 := v3set (v3set (v3set n imin qval) i1 (-(Q.get imin) * Q.get i1 / qval)) i2 (-(Q.get imin) * Q.get i2 / qval)
      if isSmall (V3.norm n1) then
        v3set (v3set (v3set n1 imin zero) i1 (Q.get i2 / qval)) i2 (-(Q.get i1) / qval)
      else n1
    else n
  let Qxn := V3.cross Q n
  let QxnxQ := V3.normalised (V3.cross Qxn Q)
  let Qxn := V3.normalised Qxn
  pure (M3.ofCols Q QxnxQ Qxn)

abbrev STuple (α : Type) := α × α × α × α   -- mu, eta, chi, phi

/-- `__calc_sample_con_mu` -/
def sampleConMu (mu : α) (N_lab N_phi : M3 α) : Py (List (STuple α)) :=
  let V := M3.mul (M3.mul (M3.inv (Gen.rot_MU mu)) N_lab) (M3.transpose N_phi)
  catchAssert do
    let acos_chi ← boundAcos V.a22
    if isSmall (sin acos_chi) then
      pure [(mu, zero, acos_chi, atan2 (-V.a10) V.a11)]
    else
      pure <| [acos_chi, -acos_chi].map fun chi =>
        let sgn := sign (sin chi)
        let phi := atan2 (-sgn * V.a21) (-sgn * V.a20)
        let eta := atan2 (-sgn * V.a12) (sgn * V.a02)
        (mu, eta, chi, phi)

/-- `__calc_sample_con_phi` -/
def sampleConPhi (phi : α) (N_lab N_phi : M3 α) : Py (List (STuple α)) :=
  let V := M3.mul (M3.mul N_lab (M3.inv N_phi)) (M3.transpose (Gen.rot_PHI phi))
  tryAssert (boundAsin (V.a01)) fun asin_eta =>
    if isSmall (cos asin_eta) then .error .dce
    else .ok <| [asin_eta, pi - asin_eta].map fun eta =>
      let sgn := sign (cos eta)
      let mu := atan2 (sgn * V.a21) (sgn * V.a11)
      let chi := atan2 (sgn * V.a02) (sgn * V.a00)
      (mu, eta, chi, phi)

/-- `__calc_sample_from_chi_eta` -/
def sampleFromChiEta (chi eta : α) (Z : M3 α) : Py (List (STuple α)) :=
  let top_for_mu := Z.a22 * sin eta * sin chi + Z.a12 * cos chi
  let bot_for_mu := -Z.a22 * cos chi + Z.a12 * sin eta * sin chi
  if isSmall top_for_mu && isSmall bot_for_mu then .error .dce
  else
    let mu := atan2 (-top_for_mu) (-bot_for_mu)
    let top_for_phi := Z.a01 * cos eta * cos chi - Z.a00 * sin eta
    let bot_for_phi := Z.a01 * sin eta + Z.a00 * cos eta * cos chi
    let phi := atan2 top_for_phi bot_for_phi
    .ok [(mu, eta, chi, phi)]

/-- `__calc_sample_con_chi` -/
def sampleConChi (chi : α) (N_lab N_phi : M3 α) : Py (List (STuple α)) :=
  let sin_chi := sin chi
  if isSmall sin_chi then .error .dce
  else
    let Z := M3.mul N_lab (M3.transpose N_phi)
    tryAssert (boundAcos (Z.a02 / sin_chi)) fun acos_eta => forM' [acos_eta, -acos_eta] fun eta => sampleFromChiEta chi eta Z

/-- `__calc_sample_con_eta` -/
def sampleConEta (eta : α) (N_lab N_phi : M3 α) : Py (List (STuple α)) :=
  let cos_eta := cos eta
  if isSmall cos_eta then .error .dce
  else
    let Z := M3.mul N_lab (M3.transpose N_phi)
    tryAssert (boundAsin (Z.a02 / cos_eta)) fun asin_chi => forM' [asin_chi, pi - asin_chi] fun chi => sampleFromChiEta chi eta Z

/-- the single sample constraint of a detector + reference + sample mode -/
inductive Samp1 (α : Type) | mu (v : α) | phi (v : α) | eta (v : α) | chi (v : α)

/-- `_calc_remaining_sample_angles` -/
def remainingSample (s : Samp1 α) (theta alpha qaz : α) (naz : Option α) (N_phi : M3 α) : Py (List (STuple α)) := do
  let q_lab : V3 α := ⟨cos theta * sin qaz, -(sin theta), cos theta * cos qaz⟩
  let n_lab : V3 α := match naz with
    | none => ⟨zero, -(sin alpha), zero⟩
    | some nz => ⟨cos alpha * sin nz, -(sin alpha), cos alpha * cos nz⟩
  let N_lab ← calcN q_lab n_lab
  match s with
  | .mu v => sampleConMu v N_lab N_phi
  | .phi v => sampleConPhi v N_lab N_phi
  | .eta v => sampleConEta v N_lab N_phi
  | .chi v => sampleConChi v N_lab N_phi

/-- `__calc_sample_con_mu_eta` -/
def sampleConMuEta (mu eta qaz theta : α) (N_phi : M3 α) : Py (List (STuple α)) :=
  let F := Gen.y_rotation (qaz - pi / two)
  let THETA := Gen.z_rotation (-theta)
  let V := M3.mul (M3.mul (M3.mul (M3.transpose (Gen.rot_ETA eta)) (M3.transpose (Gen.rot_MU mu))) F) THETA
  if isSmall N_phi.a00 && isSmall N_phi.a10 then .error .dce
  else
    tryAssert (boundAsin (-V.a10 / hypot N_phi.a00 N_phi.a10)) fun asin_bot =>
      let eps := atan2 N_phi.a10 N_phi.a00
      .ok <| [asin_bot + eps, pi - asin_bot + eps].map fun phi =>
        let a := N_phi.a00 * cos phi + N_phi.a10 * sin phi
        let chi := atan2 (N_phi.a20 * V.a00 - a * V.a20) (N_phi.a20 * V.a20 + a * V.a00)
        (mu, eta, chi, phi)

/-- `__calc_sample_con_omega_bisect` -/
def sampleConOmegaBisect (omega qaz theta : α) (N_phi : M3 α) : Py (List (STuple α)) :=
  let atan_mu := atan (tan (theta + omega) * cos qaz)
  let asin_eta := asin (sin (theta + omega) * sin qaz)
  let mu_vals := [atan_mu, atan_mu + pi]
  let eta_vals := if isSmall (abs asin_eta - pi / two) then [sign asin_eta * pi / two] else [asin_eta, pi - asin_eta]
  forM' (mu_vals.flatMap fun m => eta_vals.map fun e => (m, e)) fun (m, e) => sampleConMuEta m e qaz theta N_phi

/-- `__calc_sample_con_mu_bisect` -/
def sampleConMuBisect (mu qaz theta : α) (N_phi : M3 α) : Py (List (STuple α)) :=
  let cos_qaz := cos qaz
  let tan_mu := tan mu
  let thomega_vals : Option (List α) :=
    if isSmall cos_qaz then (if isSmall tan_mu then some [theta] else none)
    else
      let atan_thomega := atan (tan_mu / cos_qaz)
      some [atan_thomega, pi + atan_thomega]
  match thomega_vals with
  | none => .ok []
  | some ths =>
    let eta_vals := ths.flatMap fun thomega =>
      let asin_eta := asin (sin thomega * sin qaz)
      if isSmall (abs asin_eta - pi / two) then [sign asin_eta * pi / two] else [asin_eta, pi - asin_eta]
    forM' eta_vals fun e => sampleConMuEta mu e qaz theta N_phi

/-- `__calc_sample_con_eta_bisect` (after the `bound` repair) -/
def sampleConEtaBisect (eta qaz theta : α) (N_phi : M3 α) : Py (List (STuple α)) :=
  let sin_qaz := sin qaz
  let sin_eta := sin eta
  let rest (ths : List α) : Py (List (STuple α)) :=
    let mu_vals := ths.flatMap fun thomega =>
      let atan_mu := atan (tan thomega * cos qaz)
      [atan_mu, pi + atan_mu]
    forM' mu_vals fun m => sampleConMuEta m eta qaz theta N_phi
  if isSmall sin_qaz then (if isSmall sin_eta then rest [theta] else .ok [])
  else
    tryAssert (boundAsin (sin_eta / sin_qaz)) fun asin_thomega =>
      if isSmall (abs asin_thomega - pi / two) then rest [sign asin_thomega * pi / two]
      else rest [asin_thomega, pi - asin_thomega]

/-- `__calc_sample_con_chi_phi` -/
def sampleConChiPhi (chi phi qaz theta : α) (N_phi : M3 α) : Py (List (STuple α)) :=
  let V := M3.mul (M3.mul (Gen.rot_CHI chi) (Gen.rot_PHI phi)) N_phi
  tryAssert (pySqrt (cos qaz * cos qaz * (cos theta * cos theta) + sin theta * sin theta) >>= fun s => boundAsin (V.a20 / s)) fun asin_bot =>
    let eps := atan2 (-(cos qaz) * cos theta) (sin theta)
    forM' [asin_bot + eps, pi - asin_bot + eps] fun mu =>
      let a := cos theta * sin qaz
      let b := -(cos theta) * sin mu * cos qaz + cos mu * sin theta
      let X := V.a10 * a + V.a00 * b
      let Y := V.a00 * a - V.a10 * b
      if isSmall X && isSmall Y then .error .dce
      else .ok [(mu, atan2 X Y, chi, phi)]

/-- `__calc_sample_con_mu_phi` -/
def sampleConMuPhi (mu phi qaz theta : α) (N_phi : M3 α) : Py (List (STuple α)) :=
  let F := Gen.y_rotation (qaz - pi / two)
  let THETA := Gen.z_rotation (-theta)
  let V := M3.mul (M3.mul (M3.transpose (Gen.rot_MU mu)) F) THETA
  let E := M3.mul (Gen.rot_PHI phi) N_phi
  tryAssert (boundAsin (-V.a20 / hypot E.a00 E.a20)) fun asin_bot =>
    let eps := atan2 E.a20 E.a00
    .ok <| [asin_bot + eps, pi - asin_bot + eps].map fun chi =>
      let a := E.a00 * cos chi + E.a20 * sin chi
      let eta := atan2 (V.a00 * E.a10 - V.a10 * a) (V.a00 * a + V.a10 * E.a10)
      (mu, eta, chi, phi)

/-- `__calc_sample_con_mu_chi` -/
def sampleConMuChi (mu chi qaz theta : α) (N_phi : M3 α) : Py (List (STuple α)) :=
  let V20 := cos mu * cos qaz * cos theta + sin mu * sin theta
  let A := N_phi.a10
  let B := N_phi.a00
  if isSmall (sin chi) then .error .dce
  else if isSmall A && isSmall B then .error .dce
  else
    let ks := atan2 A B
    tryAssert (boundAcos ((N_phi.a20 * cos chi - V20) / (sin chi * hypot A B))) fun acos_phi =>
      let phi_list := if isSmall acos_phi then [ks] else [acos_phi + ks, -acos_phi + ks]
      forM' phi_list fun phi =>
        let A00 := -(cos qaz) * cos theta * sin mu + cos mu * sin theta
        let B00 := sin qaz * cos theta
        let V00 := N_phi.a00 * cos chi * cos phi + N_phi.a10 * cos chi * sin phi + N_phi.a20 * sin chi
        let V10 := N_phi.a10 * cos phi - N_phi.a00 * sin phi
        let sin_eta := V00 * A00 + V10 * B00
        let cos_eta := V00 * B00 - V10 * A00
        if isSmall A00 && isSmall B00 then .error .dce
        else .ok [(mu, atan2 sin_eta cos_eta, chi, phi)]

/-- `__calc_sample_con_eta_phi` (after the sign repair) -/
def sampleConEtaPhi (eta phi qaz theta : α) (N_phi : M3 α) : Py (List (STuple α)) :=
  let X := N_phi.a20
  let Y := N_phi.a00 * cos phi + N_phi.a10 * sin phi
  if isSmall X && isSmall Y then .error .dce
  else
    let V := (N_phi.a10 * cos phi - N_phi.a00 * sin phi) * tan eta
    let eps := atan2 X Y
    tryAssert (boundAcos ((sin qaz * cos theta / cos eta - V) / hypot X Y)) fun acos_rhs =>
      let acos_list := if isSmall acos_rhs then [eps] else [eps + acos_rhs, eps - acos_rhs]
      .ok <| acos_list.map fun chi =>
        let A := (N_phi.a00 * cos phi + N_phi.a10 * sin phi) * sin chi - N_phi.a20 * cos chi
        let B := -N_phi.a20 * sin chi * sin eta
                  - cos chi * sin eta * (N_phi.a00 * cos phi + N_phi.a10 * sin phi)
                  - cos eta * (N_phi.a00 * sin phi - N_phi.a10 * cos phi)
        let ks := atan2 A B
        let mu := atan2 (cos theta * cos qaz) (-(sin theta)) + ks
        (mu, eta, chi, phi)

/-- `__calc_sample_con_eta_chi` -/
def sampleConEtaChi (eta chi qaz theta : α) (N_phi : M3 α) : Py (List (STuple α)) :=
  let A := N_phi.a10 * cos chi * cos eta - N_phi.a00 * sin eta
  let B := N_phi.a00 * cos chi * cos eta + N_phi.a10 * sin eta
  if isSmall A && isSmall B then .error .dce
  else
    let ks := atan2 A B
    tryAssert (boundAcos ((cos theta * sin qaz - N_phi.a20 * cos eta * sin chi) / hypot A B)) fun acos_V00 =>
      let phi_list := if isSmall acos_V00 then [ks] else [acos_V00 + ks, -acos_V00 + ks]
      forM' phi_list fun phi =>
        let A10 := N_phi.a00 * cos phi * sin chi + N_phi.a10 * sin chi * sin phi - N_phi.a20 * cos chi
        let B10 := -N_phi.a20 * sin chi * sin eta
                    - (cos chi * cos phi * sin eta + cos eta * sin phi) * N_phi.a00
                    - (cos chi * sin eta * sin phi - cos eta * cos phi) * N_phi.a10
        let V10 := -(sin theta)
        let A20 := B10
        let B20 := -N_phi.a00 * cos phi * sin chi - N_phi.a10 * sin chi * sin phi + N_phi.a20 * cos chi
        let V20 := cos qaz * cos theta
        let sin_mu := (V10 * B20 - V20 * B10) * sign (A10 * B20 - A20 * B10)
        let cos_mu := (V10 * A20 - V20 * A10) * sign (B10 * A20 - B20 * A10)
        if isSmall sin_mu && isSmall cos_mu then .error .dce
        else .ok [(atan2 sin_mu cos_mu, eta, chi, phi)]

/-- the two sample constraints of a detector + two-sample mode, in the dispatch order of the source -/
inductive Samp2Det (α : Type)
  | muEta (mu eta : α) | omegaBisect (omega : α) | muBisect (mu : α) | etaBisect (eta : α)
  | chiPhi (chi phi : α) | muPhi (mu phi : α) | muChi (mu chi : α) | etaPhi (eta phi : α) | etaChi (eta chi : α)

/-- `_calc_sample_con_two_sample_and_detector` -/
def twoSampleDetector (s : Samp2Det α) (qaz theta : α) (N_phi : M3 α) : Py (List (STuple α)) :=
  match s with
  | .muEta mu eta => sampleConMuEta mu eta qaz theta N_phi
  | .omegaBisect om => sampleConOmegaBisect om qaz theta N_phi
  | .muBisect mu => sampleConMuBisect mu qaz theta N_phi
  | .etaBisect eta => sampleConEtaBisect eta qaz theta N_phi
  | .chiPhi chi phi => sampleConChiPhi chi phi qaz theta N_phi
  | .muPhi mu phi => sampleConMuPhi mu phi qaz theta N_phi
  | .muChi mu chi => sampleConMuChi mu chi qaz theta N_phi
  | .etaPhi eta phi => sampleConEtaPhi eta phi qaz theta N_phi
  | .etaChi eta chi => sampleConEtaChi eta chi qaz theta N_phi
end Solver
