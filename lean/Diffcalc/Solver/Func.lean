import Diffcalc.Solver.Detector
import Diffcalc.Solver.Sample
import Diffcalc.Solver.Reference
/-! Hand model of `src/diffcalc/hkl/calc_func.py`. Solution tuples are `(mu, delta, nu, eta, chi, phi)` (radians). -/
open Scalar PyOps

namespace Solver
variable {α : Type} [Scalar α]

abbrev Sol (α : Type) := α × α × α × α × α × α   -- mu, delta, nu, eta, chi, phi

/-- the reference-category constraint, with its value in radians where it has one -/
inductive RefCon (α : Type)
  | a_eq_b | alpha (v : α) | beta (v : α) | psi (v : α) | bin_eq_bout | betain (v : α) | betaout (v : α)

def RefCon.usesSurface : RefCon α → Bool
  | .bin_eq_bout | .betain _ | .betaout _ => true
  | _ => false

/-- `except AssertionError: raise DiffcalcException(...)` -/
def toDce {β : Type} (m : Py β) : Py β := match m with | .error .assertion => .error .dce | x => x

/-- `_calc_remaining_reference_angles`: alpha (beta is computed but not used by the callers) -/
def remainingReference (r : RefCon α) (theta tau : α) : Py α :=
  toDce <|
    match r with
    | .psi psi => do
      let sin_alpha := cos tau * sin theta - cos theta * sin tau * cos psi
      let alpha ← boundAsin sin_alpha
      let sin_beta := cos tau * sin theta + cos theta * sin tau * cos psi
      let _ ← boundAsin sin_beta
      pure alpha
    | .a_eq_b | .bin_eq_bout => do
      boundAsin (cos tau * sin theta)
    | .alpha v | .betain v => do
      let sin_beta := two * sin theta * cos tau - sin v
      let _ ← boundAsin sin_beta
      pure v
    | .beta v | .betaout v => do
      let sin_alpha := two * sin theta * cos tau - sin v
      boundAsin sin_alpha

/-- `__get_qaz_value` -/
def qazValue (mu eta chi phi : α) (h : V3 α) (theta : α) : α :=
  let hn := V3.normalised h
  let h0 := hn.x
  let h1 := hn.y
  let h2 := hn.z
  let V0 := h2 * cos eta * sin chi + (h0 * cos chi * cos eta + h1 * sin eta) * cos phi
              + (h1 * cos chi * cos eta - h0 * sin eta) * sin phi
  let V2 := -h2 * sin chi * sin eta * sin mu + h2 * cos chi * cos mu
              - (h0 * cos mu * sin chi + (h0 * cos chi * sin eta - h1 * cos eta) * sin mu) * cos phi
              - (h1 * cos mu * sin chi + (h1 * cos chi * sin eta + h0 * cos eta) * sin mu) * sin phi
  let sgn_theta := sign (cos theta)
  atan2 (sgn_theta * V0) (sgn_theta * V2)

/-- which sample axis is left free in a three-sample mode -/
inductive Free | mu | eta | chi | phi deriving DecidableEq, Repr

/-- the `A, B, C` block of `__get_last_sample_angle` -/
def lastABC (free : Free) (mu eta chi phi : α) (h : V3 α) (theta : α) : α × α × α :=
  let hn := V3.normalised h
  let h0 := hn.x
  let h1 := hn.y
  let h2 := hn.z
  match free with
  | .mu =>
    (h0 * cos phi * sin chi + h1 * sin chi * sin phi - h2 * cos chi,
     -h2 * sin chi * sin eta - (h0 * cos chi * sin eta - h1 * cos eta) * cos phi - (h1 * cos chi * sin eta + h0 * cos eta) * sin phi,
     -(sin theta))
  | .eta =>
    (-h0 * cos chi * cos mu * cos phi - h1 * cos chi * cos mu * sin phi - h2 * cos mu * sin chi,
     h1 * cos mu * cos phi - h0 * cos mu * sin phi,
     -h0 * cos phi * sin chi * sin mu - h1 * sin chi * sin mu * sin phi + h2 * cos chi * sin mu - sin theta)
  | .chi =>
    (-h2 * cos mu * sin eta + h0 * cos phi * sin mu + h1 * sin mu * sin phi,
     -h0 * cos mu * cos phi * sin eta - h1 * cos mu * sin eta * sin phi - h2 * sin mu,
     -h1 * cos eta * cos mu * cos phi + h0 * cos eta * cos mu * sin phi - sin theta)
  | .phi =>
    (h1 * sin chi * sin mu - (h1 * cos chi * sin eta + h0 * cos eta) * cos mu,
     h0 * sin chi * sin mu - (h0 * cos chi * sin eta - h1 * cos eta) * cos mu,
     h2 * cos mu * sin chi * sin eta + h2 * cos chi * sin mu - sin theta)

/-- `__get_last_sample_angle` -/
def lastSampleAngle (free : Free) (mu eta chi phi : α) (h : V3 α) (theta : α) : Py (List α) :=
  let (A, B, C) := lastABC free mu eta chi phi h theta
  if isSmall A && isSmall B then .error .dce
  else do
    let ks := atan2 A B
    let acos_alp ← boundAcos (C / hypot A B)
    pure (if isSmall acos_alp then [ks] else [acos_alp + ks, -acos_alp + ks])

/-- `_calc_three_sample` (the free axis' argument is ignored) -/
def threeSample (free : Free) (mu eta chi phi : α) (h : V3 α) (theta : α) : Py (List (Sol α)) :=
  tryAssert (lastSampleAngle free mu eta chi phi h theta) fun vals =>
    .ok <| vals.flatMap fun v =>
      let (mu, eta, chi, phi) := match free with
        | .mu => (v, eta, chi, phi) | .eta => (mu, v, chi, phi) | .chi => (mu, eta, v, phi) | .phi => (mu, eta, chi, v)
      let qaz := qazValue mu eta chi phi h theta
      (detFromQaz qaz theta).map fun (delta, nu, _) => (mu, delta, nu, eta, chi, phi)

/-- `_calc_two_sample_and_reference` -/
def twoSampleAndReference (s : Samp2Ref α) (h n : V3 α) (theta psi : α) : Py (List (Sol α)) := do
  let N_phi ← calcN h n
  let rs ← twoSampleReference s psi theta N_phi
  pure <| rs.flatMap fun (qaz, _, mu, eta, chi, phi) =>
    (detFromQaz qaz theta).map fun (delta, nu, _) => (mu, delta, nu, eta, chi, phi)

/-- the sample part of a mode with a detector (or naz) constraint -/
inductive SampD (α : Type) | one (s : Samp1 α) | two (s : Samp2Det α)

/-- `_calc_det_sample_reference` -/
def detSampleReference (det : Option (DetCon α)) (naz : Option α) (samp : SampD α) (h n : V3 α) (theta : α)
    (alpha : Option α) (tau : Option α) : Py (List (Sol α)) := do
  let N_phi ← calcN h n
  match samp with
  | .one s =>
    match alpha with
    | none => .error .typeErr      -- unreachable: a single sample constraint comes with a reference constraint
    | some alpha => do
      let ds ← detOrNaz det naz theta tau alpha
      forM' ds fun (qaz, nazv, delta, nu) => do
        let ss ← remainingSample s theta alpha qaz nazv N_phi
        pure (ss.map fun (mu, eta, chi, phi) => (mu, delta, nu, eta, chi, phi))
  | .two s =>
    match det with
    | none => .error .dce          -- "No code yet to handle this combination of detector and sample constraints."
    | some d => do
      let ds ← detRemaining d theta
      forM' ds fun (delta, nu, qaz) => do
        let ss ← twoSampleDetector s qaz theta N_phi
        pure (ss.map fun (mu, eta, chi, phi) => (mu, delta, nu, eta, chi, phi))
end Solver
