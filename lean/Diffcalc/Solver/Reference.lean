import Diffcalc.Solver.Basic
/-! Hand model of `src/diffcalc/hkl/calc_reference.py`. Tuples are `(qaz, psi, mu, eta, chi, phi)` as in the source. -/
open Scalar PyOps

namespace Solver
variable {α : Type} [Scalar α]

abbrev RTuple (α : Type) := α × α × α × α × α × α   -- qaz, psi, mu, eta, chi, phi

/-- `__get_phi_and_qaz` -/
def phiAndQaz (chi eta mu : α) (V : M3 α) : α × α :=
  let a := sin chi * cos eta
  let b := sin chi * sin eta * sin mu - cos chi * cos mu
  let sin_qaz := V.a20 * a - V.a22 * b
  let cos_qaz := -V.a22 * a - V.a20 * b
  let qaz := atan2 sin_qaz cos_qaz
  let a := sin chi * sin mu - cos mu * cos chi * sin eta
  let b := cos mu * cos eta
  let phi := atan2 (V.a11 * a - V.a01 * b) (V.a01 * a + V.a11 * b)
  (qaz, phi)

/-- `__get_chi_and_qaz` -/
def chiAndQaz (mu eta : α) (V : M3 α) : Py (α × α) :=
  let A := sin mu
  let B := -(cos mu) * sin eta
  let sin_chi := A * V.a10 + B * V.a12
  let cos_chi := B * V.a10 - A * V.a12
  if isSmall sin_chi && isSmall cos_chi then .error .dce
  else
    let chi := atan2 sin_chi cos_chi
    let A := sin eta
    let B := cos eta * sin mu
    let sin_qaz := A * V.a01 + B * V.a21
    let cos_qaz := B * V.a01 - A * V.a21
    .ok (atan2 sin_qaz cos_qaz, chi)

/-- `__calc_sample_ref_con_chi_phi` -/
def refConChiPhi (chi phi psi theta : α) (N_phi : M3 α) : Py (List (RTuple α)) :=
  let V := M3.mul (M3.mul (M3.mul (M3.mul (Gen.rot_CHI chi) (Gen.rot_PHI phi)) N_phi) (M3.transpose (Gen.x_rotation psi)))
            (M3.transpose (Gen.z_rotation (-theta)))
  tryAssert (boundAsin (-V.a21)) fun asin_mu =>
    let mu_vals := if isSmall (cos asin_mu) then [asin_mu] else [asin_mu, pi - asin_mu]
    forM' mu_vals fun mu =>
      let sgn := sign (cos mu)
      let sin_qaz := sgn * V.a22
      let cos_qaz := sgn * V.a20
      let sin_eta := -sgn * V.a01
      let cos_eta := sgn * V.a11
      if isSmall sin_eta && isSmall cos_eta then .error .dce
      else if isSmall sin_qaz && isSmall cos_qaz then .error .dce
      else .ok [(atan2 sin_qaz cos_qaz, psi, mu, atan2 sin_eta cos_eta, chi, phi)]

def Vref (psi theta : α) (N_phi : M3 α) : M3 α :=
  M3.mul (M3.mul N_phi (M3.transpose (Gen.x_rotation psi))) (M3.transpose (Gen.z_rotation (-theta)))

/-- `__calc_sample_ref_con_mu_eta` -/
def refConMuEta (mu eta psi theta : α) (N_phi : M3 α) : Py (List (RTuple α)) :=
  let V := Vref psi theta N_phi
  tryAssert (pySqrt (sin eta * sin eta * (cos mu * cos mu) + sin mu * sin mu) >>= fun s => bound (-V.a21 / s)) fun bot => do
    let chi_vals ←
      if isSmall (cos mu * sin eta) then do
        let eps := atan2 (sin eta * cos mu) (sin mu)
        let ac ← pyAcos bot
        pure [eps + ac, eps - ac]
      else do
        let eps := atan2 (sin mu) (sin eta * cos mu)
        let as ← pyAsin bot
        pure [as - eps, pi - as - eps]
    pure <| chi_vals.map fun chi =>
      let (qaz, phi) := phiAndQaz chi eta mu V
      (qaz, psi, mu, eta, chi, phi)

/-- `__calc_sample_ref_con_chi_eta` -/
def refConChiEta (chi eta psi theta : α) (N_phi : M3 α) : Py (List (RTuple α)) :=
  let V := Vref psi theta N_phi
  tryAssert (pySqrt (sin eta * sin eta * (sin chi * sin chi) + cos chi * cos chi) >>= fun s => bound (-V.a21 / s)) fun bot => do
    let mu_vals ←
      if isSmall (cos chi) then do
        let eps := atan2 (cos chi) (sin chi * sin eta)
        let ac ← pyAcos bot
        pure [eps + ac, eps - ac]
      else do
        let eps := atan2 (sin chi * sin eta) (cos chi)
        let as ← pyAsin bot
        pure [as - eps, pi - as - eps]
    pure <| mu_vals.map fun mu =>
      let (qaz, phi) := phiAndQaz chi eta mu V
      (qaz, psi, mu, eta, chi, phi)

/-- `__calc_sample_ref_con_chi_mu` -/
def refConChiMu (chi mu psi theta : α) (N_phi : M3 α) : Py (List (RTuple α)) :=
  let V := Vref psi theta N_phi
  tryAssert (boundAsin ((-V.a21 - cos chi * sin mu) / (sin chi * cos mu))) fun asin_eta =>
    .ok <| [asin_eta, pi - asin_eta].map fun eta =>
      let (qaz, phi) := phiAndQaz chi eta mu V
      (qaz, psi, mu, eta, chi, phi)

def Vref2 (phi psi theta : α) (N_phi : M3 α) : M3 α :=
  M3.mul (M3.mul (M3.mul (Gen.z_rotation (-theta)) (Gen.x_rotation psi)) (M3.inv N_phi)) (M3.transpose (Gen.rot_PHI phi))

/-- `__calc_sample_ref_con_mu_phi` -/
def refConMuPhi (mu phi psi theta : α) (N_phi : M3 α) : Py (List (RTuple α)) :=
  let V := Vref2 phi psi theta N_phi
  if isSmall (cos mu) then .error .dce
  else
    tryAssert (boundAcos (V.a11 / cos mu)) fun acos_eta =>
      forM' [acos_eta, -acos_eta] fun eta => do
        let (qaz, chi) ← chiAndQaz mu eta V
        pure [(qaz, psi, mu, eta, chi, phi)]

/-- `__calc_sample_ref_con_eta_phi` -/
def refConEtaPhi (eta phi psi theta : α) (N_phi : M3 α) : Py (List (RTuple α)) :=
  let V := Vref2 phi psi theta N_phi
  if isSmall (cos eta) then .error .dce
  else
    tryAssert (boundAcos (V.a11 / cos eta)) fun acos_mu =>
      forM' [acos_mu, -acos_mu] fun mu => do
        let (qaz, chi) ← chiAndQaz mu eta V
        pure [(qaz, psi, mu, eta, chi, phi)]

/-- the two sample constraints of a reference + two-sample mode, in the dispatch order of the source -/
inductive Samp2Ref (α : Type)
  | chiPhi (chi phi : α) | muEta (mu eta : α) | chiEta (chi eta : α) | chiMu (chi mu : α)
  | muPhi (mu phi : α) | etaPhi (eta phi : α)

/-- `_calc_sample_con_two_sample_and_reference` -/
def twoSampleReference (s : Samp2Ref α) (psi theta : α) (N_phi : M3 α) : Py (List (RTuple α)) :=
  match s with
  | .chiPhi chi phi => refConChiPhi chi phi psi theta N_phi
  | .muEta mu eta => refConMuEta mu eta psi theta N_phi
  | .chiEta chi eta => refConChiEta chi eta psi theta N_phi
  | .chiMu chi mu => refConChiMu chi mu psi theta N_phi
  | .muPhi mu phi => refConMuPhi mu phi psi theta N_phi
  | .etaPhi eta phi => refConEtaPhi eta phi psi theta N_phi
end Solver
