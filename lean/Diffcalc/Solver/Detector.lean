import Diffcalc.Solver.Basic
/-! Hand model of `src/diffcalc/hkl/calc_detector.py`. Tuples are `(delta, nu, qaz)` as in the source. -/
open Scalar PyOps

namespace Solver
variable {α : Type} [Scalar α]

/-- `_calc_angle_between_naz_and_qaz`; `none` = NaN -/
def nazQazAngle (theta alpha : α) (tau : Option α) : Py (Option α) :=
  let bottom := cos alpha * cos theta
  if isSmall bottom && isSmall (cos alpha) then .ok none
  else match tau with
    | none => .ok (some zero)                       -- isnan(tau)
    | some tau =>
      if isSmall (sin tau) then .ok (some zero)
      else do
        let top := cos tau - sin alpha * sin theta
        let a ← boundAcos (top / bottom)
        pure (some a)

/-- `_calc_remaining_detector_angles_delta` -/
def acosNu (delta theta : α) : Py α :=
  if isSmall (cos delta) then pure zero else boundAcos (cos (two * theta) / cos delta)

def detFromDelta (delta theta : α) : Py (List (α × α × α)) :=
  catchAssert do
    let asin_qaz ← boundAsin (sin delta / sin (two * theta))
    let cos_delta := cos delta
    let acos_nu ← acosNu delta theta
    let qaz_angles := if isSmall (cos asin_qaz) then [sign asin_qaz * pi / two] else [asin_qaz, pi - asin_qaz]
    let nu_angles := if isSmall acos_nu then [zero] else [acos_nu, -acos_nu]
    let pairs := qaz_angles.flatMap fun qaz => nu_angles.map fun nu => (qaz, nu)
    pure <| pairs.filterMap fun (qaz, nu) =>
      let sgn_ref := sign (sin (two * theta)) * sign (cos qaz)
      let sgn_ratio := sign (sin nu) * sign cos_delta
      if beq sgn_ref sgn_ratio then some (delta, nu, qaz) else none

/-- `_calc_remaining_detector_angles_nu` -/
def detFromNu (nu theta : α) : Py (List (α × α × α)) :=
  let sin_2theta := sin (two * theta)
  let cos_2theta := cos (two * theta)
  let cos_nu := cos nu
  if isSmall cos_nu then .error .dce
  else
    let cos_delta := cos_2theta / cos nu
    let cos_qaz := cos_delta * sin nu / sin_2theta
    catchAssert do
      let acos_delta ← boundAcos cos_delta
      let acos_qaz ← boundAcos cos_qaz
      let qaz_angles := if isSmall acos_qaz then [zero] else [acos_qaz, -acos_qaz]
      let delta_angles := if isSmall acos_delta then [zero] else [acos_delta, -acos_delta]
      let pairs := qaz_angles.flatMap fun qaz => delta_angles.map fun delta => (qaz, delta)
      pure <| pairs.filterMap fun (qaz, delta) =>
        let sgn_ref := sign (sin delta)
        let sgn_ratio := sign (sin qaz) * sign sin_2theta
        if beq sgn_ref sgn_ratio then some (delta, nu, qaz) else none

/-- `_calc_remaining_detector_angles_qaz` (the unguarded `asin` of a product of two sines cannot fail) -/
def detFromQaz (qaz theta : α) : List (α × α × α) :=
  let sin_2theta := sin (two * theta)
  let cos_2theta := cos (two * theta)
  let asin_delta := asin (sin qaz * sin_2theta)
  let delta_angles := if isSmall (cos asin_delta) then [sign asin_delta * pi / two] else [asin_delta, pi - asin_delta]
  delta_angles.map fun delta =>
    let cos_delta := cos delta
    let nu := if isSmall cos_delta then zero
              else
                let sgn_delta := sign cos_delta
                atan2 (sgn_delta * sin_2theta * cos qaz) (sgn_delta * cos_2theta)
    (delta, nu, qaz)

/-- a detector-category constraint handled in the detector layer -/
inductive DetCon (α : Type) | delta (v : α) | nu (v : α) | qaz (v : α)

def detRemaining (d : DetCon α) (theta : α) : Py (List (α × α × α)) :=
  match d with
  | .delta v => detFromDelta v theta
  | .nu v => detFromNu v theta
  | .qaz v => .ok (detFromQaz v theta)

/-- `_calc_detector_con_det_or_naz`: yields `(qaz, naz?, delta, nu)` -/
def detOrNaz (det : Option (DetCon α)) (naz : Option α) (theta : α) (tau : Option α) (alpha : α) :
    Py (List (α × Option α × α × α)) :=
  if det.isNone && naz.isNone then .error .assertion
  else
    tryAssert (nazQazAngle theta alpha tau) fun nq =>
      match det with
      | some d => do
        let trip ← detRemaining d theta
        pure <| trip.flatMap fun (delta, nu, qaz) =>
          let nazs : List (Option α) :=
            match nq with
            | none => [none]
            | some a => if isSmall a then [some qaz] else [some (qaz - a), some (qaz + a)]
          nazs.map fun nz => (qaz, nz, delta, nu)
      | none =>
        match naz with
        | none => .ok []
        | some nazv =>
          -- is_small(NaN) is False: the two-element branch with NaN arithmetic; modelled as no usable angle
          let qazs : List α :=
            match nq with
            | none => []
            | some a => if isSmall a then [nazv] else [nazv - a, nazv + a]
          .ok <| qazs.flatMap fun qaz => (detFromQaz qaz theta).map fun (delta, nu, _) => (qaz, some nazv, delta, nu)
end Solver
