import Diffcalc.Solver.Func
import Diffcalc.Gen.GetHkl
import Diffcalc.Model.Crystal
/-!
Hand model of `src/diffcalc/hkl/calc.py`: `get_virtual_angles`, `__calc_psi`, `__calc_nphi_alpha_tau`,
`__calc_hkl_to_position`, `__tidy_degenerate_solutions`, the pseudo-angle filter, the read-back guard, `get_position`.
-/
open Scalar PyOps

namespace Solver
variable {α : Type} [Scalar α]

/-- the pseudo-angle dictionary (degrees); `none` = NaN -/
structure VAngles (α : Type) where
  theta : α
  ttheta : α
  qaz : α
  alpha : α
  naz : Option α
  tau : Option α
  psi : Option α
  beta : Option α
  betain : α
  betaout : α

/-- what the solver needs from the UB calculation -/
structure UBIn (α : Type) where
  UB : M3 α
  B : M3 α            -- crystal.B, for the Bragg angle
  n_phi : V3 α        -- reference vector in the phi frame (as reported by `ubcalc.n_phi`)
  surf_nphi : V3 α    -- surface normal in the phi frame

/-- a fully constrained, implemented mode in the shape the dispatcher uses (values in radians) -/
inductive Mode (α : Type)
  | detRefSamp (det : Option (DetCon α)) (naz : Option α) (ref : RefCon α) (s : Samp1 α)
  | detSamp2 (det : DetCon α) (s : Samp2Det α)
  | refSamp2 (ref : RefCon α) (s : Samp2Ref α)
  | samp3 (free : Free) (mu eta chi phi : α)

/-- which axes are constrained, for the tidy-up -/
structure ModeInfo where
  detLike : Bool      -- a detector constraint or naz is set
  hasMu : Bool
  hasEta : Bool
  hasPhi : Bool

def Mode.info : Mode α → ModeInfo
  | .detRefSamp _ _ _ s =>
    ⟨true, (match s with | .mu _ => true | _ => false), (match s with | .eta _ => true | _ => false),
     (match s with | .phi _ => true | _ => false)⟩
  | .detSamp2 _ s =>
    match s with
    | .muEta _ _ => ⟨true, true, true, false⟩
    | .omegaBisect _ => ⟨true, false, false, false⟩
    | .muBisect _ => ⟨true, true, false, false⟩
    | .etaBisect _ => ⟨true, false, true, false⟩
    | .chiPhi _ _ => ⟨true, false, false, true⟩
    | .muPhi _ _ => ⟨true, true, false, true⟩
    | .muChi _ _ => ⟨true, true, false, false⟩
    | .etaPhi _ _ => ⟨true, false, true, true⟩
    | .etaChi _ _ => ⟨true, false, true, false⟩
  | .refSamp2 _ s =>
    match s with
    | .chiPhi _ _ => ⟨false, false, false, true⟩
    | .muEta _ _ => ⟨false, true, true, false⟩
    | .chiEta _ _ => ⟨false, false, true, false⟩
    | .chiMu _ _ => ⟨false, true, false, false⟩
    | .muPhi _ _ => ⟨false, true, false, true⟩
    | .etaPhi _ _ => ⟨false, false, true, true⟩
  | .samp3 free _ _ _ _ => ⟨false, free != .mu, free != .eta, free != .phi⟩

/-- `__theta_and_qaz_from_detector_angles` (radians) -/
def thetaQaz (delta nu : α) : α × α :=
  let cos_2theta := cos delta * cos nu
  let theta := acos cos_2theta / two
  let sgn := sign (sin (two * theta))
  (theta, atan2 (sgn * sin delta) (sgn * cos delta * sin nu))

/-- `__calc_psi`: the list of yielded values (`none` = NaN) -/
def calcPsi (alpha theta tau : α) (qazNaz : Option (α × Option α)) : List (Option α) :=
  let sin_tau := sin tau
  let cos_theta := cos theta
  if isSmall sin_tau then [none]
  else if isSmall cos_theta then [none]
  else if isSmall (sin theta) then [none]
  else
    let cos_psi := (cos tau * sin theta - sin alpha) / cos_theta
    let general : List (Option α) :=
      match bound (cos_psi / sin_tau) with
      | .error _ => [none]
      | .ok b =>
        match pyAcos b with
        | .error _ => [none]
        | .ok acos_psi => if isSmall acos_psi then [some zero] else [some acos_psi, some (-acos_psi)]
    match qazNaz with
    | none => general
    | some (_, none) => general
    | some (qaz, some naz) =>
      let sin_psi := cos alpha * sin (qaz - naz)
      let sgn := sign sin_tau
      let eps := sin_psi * sin_psi + cos_psi * cos_psi
      let sigma := eps / (sin_tau * sin_tau) - one
      if !(isSmall sigma) then [none] else [some (atan2 (sgn * sin_psi) (sgn * cos_psi))]

/-- radians of a position held in degrees, as `get_rotation_matrices` computes them -/
def Pos.rad (p : Pos α) : Pos α := ⟨toRad p.mu, toRad p.delta, toRad p.nu, toRad p.eta, toRad p.chi, toRad p.phi⟩

/-- `get_virtual_angles` (after the normalisation repair) -/
def virtualAngles (ub : UBIn α) (p : Pos α) : Py (VAngles α) := do
  let r := p.rad
  let (theta, qaz) := thetaQaz r.delta r.nu
  let MU := Gen.rot_MU r.mu
  let DELTA := Gen.rot_DELTA r.delta
  let NU := Gen.rot_NU r.nu
  let ETA := Gen.rot_ETA r.eta
  let CHI := Gen.rot_CHI r.chi
  let PHI := Gen.rot_PHI r.phi
  let Z := M3.mul (M3.mul (M3.mul MU ETA) CHI) PHI
  let D := M3.mul NU DELTA
  let surf := M3.mulVec Z ub.surf_nphi
  let kin : V3 α := ⟨zero, one, zero⟩
  let kout := M3.mulVec D ⟨zero, one, zero⟩
  let a1 ← angleBetween kin surf
  let a2 ← angleBetween kout surf
  let betain := toRad a1 - pi / two
  let betaout := pi / two - toRad a2
  let n_lab := V3.normalised (M3.mulVec Z ub.n_phi)
  let alpha ← boundAsin (-n_lab.y)
  let naz : Option α := if isSmall (cos alpha) then none else some (atan2 n_lab.x n_lab.z)
  let q_lab := V3.normalised (M3.mulVec (M3.sub (M3.mul NU DELTA) M3.id) ⟨zero, one, zero⟩)
  let tau : Option α ←
    if isSmallTol (V3.norm q_lab) (ofSci 1 true 12) || isSmallTol (V3.norm n_lab) (ofSci 1 true 12) then pure none
    else do
      let t ← boundAcos (V3.dot q_lab n_lab)
      pure (some t)
  let beta : Option α ←
    match tau with
    | none => pure none
    | some t => do
      let b ← boundAsin (two * sin theta * cos t - sin alpha)
      pure (some b)
  let psi : Option α :=
    match tau with
    | none => none
    | some t => (calcPsi alpha theta t (some (qaz, naz))).headD none
  pure { theta := toDeg theta, ttheta := toDeg (two * theta), qaz := toDeg qaz, alpha := toDeg alpha,
         naz := naz.map toDeg, tau := tau.map toDeg, psi := psi.map toDeg, beta := beta.map toDeg,
         betain := toDeg betain, betaout := toDeg betaout }

/-- `__calc_nphi_alpha_tau`: (reference vector used by the sample layer, alpha, tau) -/
def nphiAlphaTau (ub : UBIn α) (ref : RefCon α) (h_phi : V3 α) (theta : α) : Py (V3 α × α × α) := do
  let t1 ← angleBetween h_phi ub.n_phi
  let t2 ← angleBetween h_phi ub.surf_nphi
  let tau := toRad t1
  let surf_tau := toRad t2
  let parallel := isSmall (sin tau)
  match ref, parallel with
  | .psi _, true => .error .dce
  | .a_eq_b, true => .error .dce
  | _, _ =>
    if isSmall (sin surf_tau) && (match ref with | .bin_eq_bout => true | _ => false) then .error .dce
    else if ref.usesSurface then do
      let alpha ← remainingReference ref theta surf_tau
      pure (ub.surf_nphi, alpha, surf_tau)
    else do
      let alpha ← remainingReference ref theta tau
      pure (ub.n_phi, alpha, tau)

/-- `__tidy_degenerate_solutions` (after the constrained-axis repair); positions in degrees -/
def tidy (info : ModeInfo) (p : Pos α) : Pos α :=
  let nu0 := isSmall p.nu && info.detLike
  let mu0 := isSmall p.mu && info.hasMu
  let delta0 := isSmall p.delta && info.detLike
  let eta0 := isSmall p.eta && info.hasEta
  let phiFree := !info.hasPhi
  if nu0 && mu0 && phiFree && !info.hasEta && anglesEquivalent p.chi zero then
    let desired_eta := p.delta / two
    let eta_diff := desired_eta - p.eta
    { p with eta := desired_eta, phi := p.phi - eta_diff }
  else if delta0 && eta0 && phiFree && !info.hasMu && anglesEquivalent p.chi (ofNat 90) then
    let desired_mu := p.nu / two
    let mu_diff := desired_mu - p.mu
    { p with mu := desired_mu, phi := p.phi + mu_diff }
  else p

/-- the read-back filter of `__create_position_pseudo_angles_pairs` for one candidate -/
def passesFilter (va : VAngles α) (ref : Option (RefCon α)) (det : Option (DetCon α)) (naz : Option α) : Bool :=
  let eqOpt (want : α) (got : Option α) : Bool := match got with | some g => anglesEquivalent (toDeg want) g | none => false
  let refOk := match ref with
    | none => true
    | some .a_eq_b => (match va.beta with | some b => anglesEquivalent va.alpha b | none => false)
    | some .bin_eq_bout => anglesEquivalent va.betain va.betaout
    | some (.alpha v) => anglesEquivalent (toDeg v) va.alpha
    | some (.beta v) => eqOpt v va.beta
    | some (.psi v) => eqOpt v va.psi
    | some (.betain v) => anglesEquivalent (toDeg v) va.betain
    | some (.betaout v) => anglesEquivalent (toDeg v) va.betaout
  let detOk := match det with
    | none => true
    | some (.qaz v) => anglesEquivalent (toDeg v) va.qaz
    | some (.delta _) => true
    | some (.nu _) => true
  let nazOk := match naz with | none => true | some v => eqOpt v va.naz
  refOk && detOk && nazOk

def Mode.refCon : Mode α → Option (RefCon α)
  | .detRefSamp _ _ r _ => some r | .refSamp2 r _ => some r | _ => none
def Mode.detCon : Mode α → Option (DetCon α)
  | .detRefSamp d _ _ _ => d | .detSamp2 d _ => some d | _ => none
def Mode.nazCon : Mode α → Option α
  | .detRefSamp _ n _ _ => n | _ => none

/-- the candidate tuples of `__calc_hkl_to_position` (radians), before tidy-up and filtering -/
def candidates (ub : UBIn α) (mode : Mode α) (hkl : V3 α) (wl : α) : Py (List (Sol α)) := do
  let h_phi := M3.mulVec ub.UB hkl
  let tth ← CrystalModel.ttheta ub.B hkl (ofSci 1239842 true 5 / wl)
  let theta := tth / two
  match mode with
  | .detRefSamp det naz ref s => do
    let (n, alpha, tau) ← nphiAlphaTau ub ref h_phi theta
    detSampleReference det naz (.one s) h_phi n theta (some alpha) (some tau)
  | .detSamp2 det s =>
    detSampleReference (some det) none (.two s) h_phi ub.n_phi theta none none
  | .refSamp2 ref s => do
    let (n, alpha, tau) ← nphiAlphaTau ub ref h_phi theta
    let psis : List (Option α) := match ref with
      | .psi v => [some v]
      | _ => calcPsi alpha theta tau none
    forM' psis fun psi =>
      match psi with
      | some p => twoSampleAndReference s h_phi n theta p
      | none => .ok []        -- NaN psi: every derived angle is NaN and is rejected by the filter
  | .samp3 free mu eta chi phi => threeSample free mu eta chi phi h_phi theta

def solToPos (s : Sol α) : Pos α :=
  let (mu, delta, nu, eta, chi, phi) := s
  ⟨toDeg mu, toDeg delta, toDeg nu, toDeg eta, toDeg chi, toDeg phi⟩

/-- `get_hkl` on a position in degrees -/
def getHkl (ub : UBIn α) (p : Pos α) (wl : α) : V3 α :=
  let r := p.rad
  Gen.get_hkl ub.UB r.mu r.delta r.nu r.eta r.chi r.phi wl

/-- the guard `__verify_pos_map_to_hkl`: every comparison has to succeed (a NaN fails it — repair 8d9ab1e) -/
def hklMatches (got want : V3 α) : Bool :=
  let e : α := ofSci 1 true 3
  le (abs (got.x - want.x)) e && le (abs (got.y - want.y)) e && le (abs (got.z - want.z)) e

/-- `__calc_hkl_to_position` -/
def hklToPosition (ub : UBIn α) (mode : Mode α) (hkl : V3 α) (wl : α) : Py (List (Pos α × VAngles α)) := do
  let cands ← candidates ub mode hkl wl
  if cands.isEmpty then .error .dce
  else do
    let tidied := cands.map fun s => tidy mode.info (solToPos s)
    let pairs ← tidied.mapM fun p => do
      let va ← virtualAngles ub p
      pure (p, va)
    let kept := pairs.filter fun (_, va) => passesFilter va mode.refCon mode.detCon mode.nazCon
    if kept.isEmpty then .error .dce else pure kept

/-- `get_position`: every candidate must map back to the requested hkl, otherwise the whole request fails -/
def getPosition (ub : UBIn α) (mode : Mode α) (hkl : V3 α) (wl : α) : Py (List (Pos α × VAngles α)) := do
  let pairs ← hklToPosition ub mode hkl wl
  let _ ← pairs.mapM fun (p, _) =>
    if hklMatches (getHkl ub p wl) hkl then (pure () : Py Unit) else .error .dce
  -- `__verify_virtual_angles` recomputes the same dictionary with the same function: it cannot fail
  let _ ← pairs.mapM fun (p, _) => virtualAngles ub p
  pure pairs
end Solver
