import Diffcalc.Linalg
import Diffcalc.PyOps
import Diffcalc.Gen.Rotations
import Diffcalc.Model.Cons
/-!
# Solver model — common definitions

Hand model (tie H) of the hkl→angles pipeline (`src/diffcalc/hkl/calc*.py`), statement by statement.
Generators become `Py (List _)` evaluated left to right (the consumer always drains them and the bodies are pure, so
the first exception met is the same); `try/except AssertionError: return` becomes "catch `assertion`, yield nothing";
the NaN sentinels of `naz`, `tau`, `psi`, `beta` become `Option`.
-/
open Scalar PyOps

namespace Solver
variable {α : Type} [Scalar α]

/-- catch `AssertionError` and yield nothing (`except AssertionError: return`) -/
def catchAssert {β : Type} (m : Py (List β)) : Py (List β) :=
  match m with
  | .error .assertion => .ok []
  | r => r

/-- sequentially run a generator body for every element and concatenate (nested `for … yield`) -/
def forM' {β γ : Type} : List β → (β → Py (List γ)) → Py (List γ)
  | [], _ => .ok []
  | x :: xs, f => do
    let ys ← f x
    let zs ← forM' xs f
    pure (ys ++ zs)

/-- `try: v = <m> except AssertionError: return` followed by the rest of the generator body -/
def tryAssert {β γ : Type} (m : Py γ) (k : γ → Py (List β)) : Py (List β) :=
  match m with
  | .error .assertion => .ok []
  | .error e => .error e
  | .ok v => k v

/-- `asin(bound(x))`, `acos(bound(x))` -/
def boundAsin (x : α) : Py α := bound x >>= pyAsin
def boundAcos (x : α) : Py α := bound x >>= pyAcos

def isSmallD (x : α) : Bool := isSmall x
/-- scalar comparison `sign(a) == sign(b)` on the three-valued sign -/
def signEq (a b : α) : Bool := beq (sign a) (sign b)
def pi2 : α := pi / two

/-- diffractometer position, public view (degrees) -/
structure Pos (α : Type) where
  mu : α
  delta : α
  nu : α
  eta : α
  chi : α
  phi : α

def Pos.toList (p : Pos α) : List α := [p.mu, p.delta, p.nu, p.eta, p.chi, p.phi]

/-- `angle_between_vectors` (degrees) -/
def angleBetween (x y : V3 α) : Py α := do
  let a ← boundAcos (V3.dot (V3.smul (one / V3.norm x) x) (V3.smul (one / V3.norm y) y))
  pure (toDeg a)

/-- column `j` of a matrix as used by `N_phi[i, j]` -/
def Mget (m : M3 α) (i j : Nat) : α := (m.toList.getD (3 * i + j) zero)
end Solver
