import Diffcalc.Solver.Calc
import Diffcalc.Model.Modes
/-! From an active constraint set (names in `_all` order with stored values) to the dispatcher's `Mode`. -/
open Scalar

namespace Solver
variable {α : Type} [Scalar α]

/-- stored value of a constraint: radians, or `none` for the valueless ones -/
abbrev ConList (α : Type) := List (Name × Option α)

def lookup (cs : ConList α) (n : Name) : Option (Option α) := (cs.find? (fun p => p.1 == n)).map (·.2)
def val (cs : ConList α) (n : Name) : Option α := (lookup cs n).bind id
def has (cs : ConList α) (n : Name) : Bool := (lookup cs n).isSome

def mkRef (cs : ConList α) : Option (RefCon α) :=
  if has cs .a_eq_b then some .a_eq_b
  else if has cs .bin_eq_bout then some .bin_eq_bout
  else match val cs .alpha, val cs .beta, val cs .psi, val cs .betain, val cs .betaout with
    | some v, _, _, _, _ => some (.alpha v)
    | _, some v, _, _, _ => some (.beta v)
    | _, _, some v, _, _ => some (.psi v)
    | _, _, _, some v, _ => some (.betain v)
    | _, _, _, _, some v => some (.betaout v)
    | _, _, _, _, _ => none

def mkDet (cs : ConList α) : Option (DetCon α) :=
  match val cs .delta, val cs .nu, val cs .qaz with
  | some v, _, _ => some (.delta v)
  | _, some v, _ => some (.nu v)
  | _, _, some v => some (.qaz v)
  | _, _, _ => none

/-- the mode the dispatcher runs for an implemented triple; `none` when it is not implemented / has no code -/
def Mode.ofCons (cs : ConList α) : Option (Mode α) :=
  let names := cs.map (·.1)
  if !(implemented names) || names.length != 3 then none else
  let det := mkDet cs
  let naz := val cs .naz
  let ref := mkRef cs
  let nsamp := (names.filter fun n => n.cat == .samp).length
  let mu := val cs .mu
  let eta := val cs .eta
  let chi := val cs .chi
  let phi := val cs .phi
  let omega := val cs .omega
  let bis := has cs .bisect
  if det.isSome || naz.isSome then
    if nsamp == 1 then
      match ref with
      | none => none
      | some r =>
        match mu, phi, eta, chi with
        | some v, _, _, _ => some (.detRefSamp det naz r (.mu v))
        | _, some v, _, _ => some (.detRefSamp det naz r (.phi v))
        | _, _, some v, _ => some (.detRefSamp det naz r (.eta v))
        | _, _, _, some v => some (.detRefSamp det naz r (.chi v))
        | _, _, _, _ => none
    else
      match det with
      | none => none
      | some d =>
        match mu, eta, chi, phi, omega, bis with
        | some m, some e, _, _, _, _ => some (.detSamp2 d (.muEta m e))
        | _, _, _, _, some o, true => some (.detSamp2 d (.omegaBisect o))
        | some m, _, _, _, _, true => some (.detSamp2 d (.muBisect m))
        | _, some e, _, _, _, true => some (.detSamp2 d (.etaBisect e))
        | _, _, some c, some p, _, _ => some (.detSamp2 d (.chiPhi c p))
        | some m, _, _, some p, _, _ => some (.detSamp2 d (.muPhi m p))
        | some m, _, some c, _, _, _ => some (.detSamp2 d (.muChi m c))
        | _, some e, _, some p, _, _ => some (.detSamp2 d (.etaPhi e p))
        | _, some e, some c, _, _, _ => some (.detSamp2 d (.etaChi e c))
        | _, _, _, _, _, _ => none
  else if nsamp == 2 then
    match ref with
    | none => none
    | some r =>
      match mu, eta, chi, phi with
      | _, _, some c, some p => some (.refSamp2 r (.chiPhi c p))
      | some m, some e, _, _ => some (.refSamp2 r (.muEta m e))
      | _, some e, some c, _ => some (.refSamp2 r (.chiEta c e))
      | some m, _, some c, _ => some (.refSamp2 r (.chiMu c m))
      | some m, _, _, some p => some (.refSamp2 r (.muPhi m p))
      | _, some e, _, some p => some (.refSamp2 r (.etaPhi e p))
      | _, _, _, _ => none
  else
    match mu, eta, chi, phi with
    | none, some e, some c, some p => some (.samp3 .mu zero e c p)
    | some m, none, some c, some p => some (.samp3 .eta m zero c p)
    | some m, some e, none, some p => some (.samp3 .chi m e zero p)
    | some m, some e, some c, none => some (.samp3 .phi m e c zero)
    | _, _, _, _ => none
end Solver
