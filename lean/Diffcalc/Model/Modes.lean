import Diffcalc.Model.Cons
/-!
# Hand model (tie H) of the mode table and of the solver's dispatcher

* `implemented`  — `Constraints.is_current_mode_implemented` on a fully constrained set;
* `dispatch`     — which code path `HklCalculation.__calc_hkl_to_position` /
                   `calc_func._calc_det_sample_reference` / `calc_sample._calc_sample_con_two_sample_and_detector` /
                   `calc_reference._calc_sample_con_two_sample_and_reference` / `calc_func._calc_three_sample` take.

All definitions are `Bool`/structural so that the kernel can evaluate them (`decide +kernel` over all 680 triples).
The correspondence check runs every one of the 680 triples through the real classes (exhaustive, finite domain).
-/
open Name

def isSampAxis : Name → Bool | mu | eta | chi | phi => true | _ => false

def lenCat (t : List Name) (c : Cat) : Nat := (t.filter (fun n => n.cat == c)).length

/-- a triple the constraint manager can hold: at most one detector and one reference constraint -/
def accepted (t : List Name) : Bool := lenCat t .det ≤ 1 && lenCat t .ref ≤ 1

/-- `is_current_mode_implemented` (for a three-element constrained set) -/
def implemented (t : List Name) : Bool :=
  let ns := t.filter (fun n => n.cat == .samp)
  let nr := lenCat t .ref
  let nd := lenCat t .det
  let has (x : Name) := t.contains x
  if ns.length == 3 then ns.all isSampAxis
  else if ns.length == 1 then !(has omega) && !(has bisect)
  else if nr == 1 then
    (has chi && has phi) || (has chi && has eta) || (has chi && has mu) || (has mu && has eta)
      || (has mu && has phi) || (has eta && has phi)
  else if nd == 1 then
    !(has naz) &&
    ((has chi && has phi) || (has mu && has eta) || (has mu && has phi) || (has mu && has chi)
      || (has eta && has phi) || (has eta && has chi)
      || (has mu && has bisect) || (has eta && has bisect) || (has omega && has bisect))
  else false

/-- the code path taken by `get_position` -/
inductive Route
  | notImpl                 -- "valid but is not implemented"
  | noCode                  -- "No code yet to handle ..." / internal error
  | noYield                 -- a generator that yields nothing for this shape ("No solutions" for every input)
  | solver (k : Nat)
  deriving DecidableEq, Repr

def isSolver : Route → Bool | .solver _ => true | _ => false

def dispatch (t : List Name) : Route :=
  if !implemented t then .notImpl else
  let has (x : Name) := t.contains x
  let samp := t.filter (fun n => n.cat == .samp)
  let det := t.filter (fun n => n.cat == .det && n != naz)
  let hasNaz := has naz
  if det.length > 0 || hasNaz then
    -- calc_func._calc_det_sample_reference
    if samp.length == 1 then
      -- _calc_remaining_sample_angles
      if has mu then .solver 1 else if has phi then .solver 2 else if has eta then .solver 3
      else if has chi then .solver 4 else .noCode
    else if samp.length == 2 then
      if det.length > 0 then
        -- _calc_sample_con_two_sample_and_detector
        if has mu && has eta then .solver 5 else if has omega && has bisect then .solver 6
        else if has mu && has bisect then .solver 7 else if has eta && has bisect then .solver 8
        else if has chi && has phi then .solver 9 else if has mu && has phi then .solver 10
        else if has mu && has chi then .solver 11 else if has eta && has phi then .solver 12
        else if has eta && has chi then .solver 13 else .noCode
      else .noCode
    else .noYield
  else if samp.length == 2 then
    -- _calc_sample_con_two_sample_and_reference
    if has chi && has phi then .solver 14 else if has mu && has eta then .solver 15
    else if has chi && has eta then .solver 16 else if has chi && has mu then .solver 17
    else if has mu && has phi then .solver 18 else if has eta && has phi then .solver 19 else .noCode
  else if samp.length == 3 then
    -- _calc_three_sample
    if !(has mu) then .solver 20 else if !(has eta) then .solver 21 else if !(has chi) then .solver 22
    else if !(has phi) then .solver 23 else .noCode
  else .noYield

/-- all 3-element subsets of a list, in lexicographic order of positions (structural, kernel-reducible) -/
def sublists3 : List Name → List (List Name)
  | [] => []
  | x :: xs => (pairs xs).map (fun p => x :: p) ++ sublists3 xs
where pairs : List Name → List (List Name)
  | [] => []
  | y :: ys => ys.map (fun z => [y, z]) ++ pairs ys

def triples : List (List Name) := sublists3 Name.all
