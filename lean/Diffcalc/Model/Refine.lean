import Diffcalc.Model.Crystal
import Diffcalc.Model.Miscut
import Diffcalc.Model.UBState
/-!
# Hand model (tie H) of `UBCalculation.refine_ub` (`_rescale_unit_cell`, `get_miscut_from_hkl`, `set_miscut`) and of the
closed-form triclinic branch of `fit_ub` (`_fit_ub_uncon`); `src/diffcalc/ub/calc.py`.
-/
open Scalar PyOps

namespace Refine
variable {α : Type} [Scalar α]

abbrev Cell (α : Type) := α × α × α × α × α × α

/-- the scale factor of `_rescale_unit_cell`: `1 / (|q| / wl · d_hkl)` -/
def scaleFactor (B : M3 α) (hkl qvec : V3 α) (wl : α) : Py α := do
  let d ← CrystalModel.planeDistance B hkl
  pure (one / (V3.norm qvec / wl * d))

/-- which cell lengths `_rescale_unit_cell` multiplies by the scale factor: those whose index is non-zero, together with the
    lengths the crystal system ties to them -/
def scaledAxes (sys : String) (hkl : V3 α) : Bool × Bool × Bool :=
  let s1 := lt SMALL (abs hkl.x)
  let s2 := lt SMALL (abs hkl.y)
  let s3 := lt SMALL (abs hkl.z)
  if sys == "Cubic" || sys == "Rhombohedral" then (s1 || s2 || s3, s1 || s2 || s3, s1 || s2 || s3)
  else if sys == "Tetragonal" || sys == "Hexagonal" then (s1 || s2, s1 || s2, s3)
  else (s1, s2, s3)

/-- the six numbers handed to `set_lattice(name, system, ...)` (angles in degrees, as `get_lattice` returns them) -/
def rescaledArgs (sys : String) (c : Cell α) (hkl : V3 α) (sc : α) : List α :=
  let s := scaledAxes sys hkl
  [if s.1 then sc * c.1 else c.1, if s.2.1 then sc * c.2.1 else c.2.1, if s.2.2 then sc * c.2.2.1 else c.2.2.1,
   toDeg c.2.2.2.1, toDeg c.2.2.2.2.1, toDeg c.2.2.2.2.2]

/-- the refined cell of `refine_ub(..., refine_lattice=True)`; `none` = lattice left alone (scale within 1e-7 of 1) -/
def refinedCell (sys : String) (c : Cell α) (hkl qvec : V3 α) (wl : α) : Py (Option (Cell α)) := do
  let sc ← scaleFactor (CrystalModel.Bof c) hkl qvec wl
  if lt (abs (sc - one)) SMALL then pure none
  else if beq sc zero then pure none
  else match CrystalModel.cellOfSystem sys (rescaledArgs sys c hkl sc) with
    | some c' => pure (some c')
    | none => .error .typeErr

/-- `get_miscut_from_hkl`: angle (radians) and unit axis; `none` = `(None, None)` -/
def miscutFromHkl (UB : M3 α) (hkl qvec : V3 α) : Option (α × V3 α) :=
  let hn := M3.mulVec UB hkl
  let axis := V3.cross hn qvec
  let na := V3.norm axis
  if lt na SMALL then none
  else
    match bound (V3.dot qvec hn / (V3.norm qvec * V3.norm hn)) with
    | .ok c => some (acos c, ⟨axis.x / na, axis.y / na, axis.z / na⟩)
    | .error _ => some (zero, ⟨zero, zero, zero⟩)

/-- the rotation `refine_ub(..., refine_umatrix=True)` applies on top of `U`; `none` = nothing applied -/
def refineRot (UB : M3 α) (hkl qvec : V3 α) : Option (M3 α) :=
  match miscutFromHkl UB hkl qvec with
  | none => none
  | some (ang, ax) =>
    let deg := toDeg ang
    if beq deg zero then none else some (M3.rodrigues ax (toRad deg))

/-- `refine_ub(hkl, pos, wl, refine_lattice, refine_umatrix)` on a state with a lattice and a `U`;
    returns the new cell and the new orientation state -/
def refineUb (sys : String) (c : Cell α) (U : M3 α) (hkl qvec : V3 α) (wl : α) (refLat refU : Bool) :
    Py (Cell α × UBState α) := do
  let B := CrystalModel.Bof c
  let s0 : UBState α := ⟨some B, some U, some (M3.mul U B)⟩
  let newCell ← refinedCell sys c hkl qvec wl
  let (c1, s1) := match newCell, refLat with
    | some c', true => (c', s0.setLatticeOk (CrystalModel.Bof c'))
    | _, _ => (c, s0)
  let rot := match s1.UB with
    | some ub => refineRot ub hkl qvec
    | none => none
  let s2 := match rot, refU with
    | some r, true => s1.setMiscutOk r true
    | _, _ => s1
  pure (c1, s2)

/-! ## closed-form least squares (`_fit_ub_uncon`) -/

/-- `v / c` componentwise -/
def vdiv (v : V3 α) (c : α) : V3 α := ⟨v.x / c, v.y / c, v.z / c⟩

def outer (x y : V3 α) : M3 α := ⟨x.x * y.x, x.x * y.y, x.x * y.z, x.y * y.x, x.y * y.y, x.y * y.z, x.z * y.x, x.z * y.y, x.z * y.z⟩
def M3.add' (a b : M3 α) : M3 α := ⟨a.a00 + b.a00, a.a01 + b.a01, a.a02 + b.a02, a.a10 + b.a10, a.a11 + b.a11, a.a12 + b.a12, a.a20 + b.a20, a.a21 + b.a21, a.a22 + b.a22⟩
def M3.zero' : M3 α := ⟨zero, zero, zero, zero, zero, zero, zero, zero, zero⟩

/-- `Xᵀ X` and `Xᵀ Y` for the rows `x_i = hkl_i`, `y_i = q_i` -/
def xtx (data : List (V3 α × V3 α)) : M3 α := data.foldl (fun acc p => M3.add' acc (outer p.1 p.1)) M3.zero'
def xty (data : List (V3 α × V3 α)) : M3 α := data.foldl (fun acc p => M3.add' acc (outer p.1 p.2)) M3.zero'

/-- the least-squares matrix `b = (XᵀX)⁻¹ XᵀY` (its rows are the fitted reciprocal basis vectors in the phi frame) -/
def lsq (data : List (V3 α × V3 α)) : M3 α := M3.mul (M3.inv (xtx data)) (xty data)

def row0 (m : M3 α) : V3 α := ⟨m.a00, m.a01, m.a02⟩
def row1 (m : M3 α) : V3 α := ⟨m.a10, m.a11, m.a12⟩
def row2 (m : M3 α) : V3 α := ⟨m.a20, m.a21, m.a22⟩

/-- Gram–Schmidt on the rows of `b`: the new `U` has `e1, e2, e3` as columns -/
def gramSchmidt (b : M3 α) : M3 α :=
  let b1 := row0 b; let b2 := row1 b; let b3 := row2 b
  let e1 := vdiv b1 (V3.norm b1)
  let e2' := V3.sub b2 (V3.smul (V3.dot b2 e1) e1)
  let e2 := vdiv e2' (V3.norm e2')
  let e3' := V3.sub (V3.sub b3 (V3.smul (V3.dot b3 e1) e1)) (V3.smul (V3.dot b3 e2) e2)
  let e3 := vdiv e3' (V3.norm e3')
  M3.ofCols e1 e2 e3

/-- the direct cell (lengths, angles in degrees) dual to the rows of `b` -/
def cellOfRecip (b : M3 α) : Cell α :=
  let b1 := row0 b; let b2 := row1 b; let b3 := row2 b
  let V := V3.dot (V3.cross b1 b2) b3
  let a1 := V3.smul (two * pi / V) (V3.cross b2 b3)
  let a2 := V3.smul (two * pi / V) (V3.cross b3 b1)
  let a3 := V3.smul (two * pi / V) (V3.cross b1 b2)
  let ax := V3.norm a1; let bx := V3.norm a2; let cx := V3.norm a3
  (ax, bx, cx, toDeg (acos (V3.dot a2 a3 / (bx * cx))), toDeg (acos (V3.dot a1 a3 / (ax * cx))), toDeg (acos (V3.dot a1 a2 / (ax * bx))))

/-- `_fit_ub_uncon` on reflections `(hkl, q_phi direction vector, energy)`: `y = q_phi · 2π / (12.39842 / energy)` -/
def fitUncon (refl : List (V3 α × V3 α × α)) : M3 α × Cell α :=
  let data := refl.map fun r => (r.1, V3.smul (two * pi / (ofSci 1239842 true 5 / r.2.2)) r.2.1)
  let b := lsq data
  (gramSchmidt b, cellOfRecip b)
end Refine
