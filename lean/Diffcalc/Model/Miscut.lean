import Diffcalc.Linalg
import Diffcalc.PyOps
/-!
# Hand model of `xyz_rotation` (specified as the Rodrigues formula) and of `UBCalculation.get_miscut`
-/
open Scalar

namespace M3
variable {α : Type} [Scalar α]
/-- right-handed rotation by `t` about the direction of `k` (Rodrigues); the model of
    `util.xyz_rotation(axis, angle)` = `scipy Rotation.from_rotvec(angle * axis / |axis|)` -/
def rodrigues (k : V3 α) (t : α) : M3 α :=
  let n := V3.norm k
  let kx := k.x / n
  let ky := k.y / n
  let kz := k.z / n
  let c := cos t
  let s := sin t
  let v := one - c
  ⟨c + kx * kx * v, kx * ky * v - kz * s, kx * kz * v + ky * s,
   ky * kx * v + kz * s, c + ky * ky * v, ky * kz * v - kx * s,
   kz * kx * v - ky * s, kz * ky * v + kx * s, c + kz * kz * v⟩
end M3

namespace Miscut
variable {α : Type} [Scalar α]
/-- `UBCalculation.get_miscut` (after the normalisation repair: the cosine is divided by both lengths): angle in degrees and unit axis; `(0, 0)` when `U` leaves the surface normal in place -/
def getMiscut (U : M3 α) (surf : V3 α) : Py (α × V3 α) :=
  let sr := M3.mulVec U surf
  let ax := V3.cross surf sr
  if lt (abs (V3.norm ax)) SMALL then .ok (zero, ⟨zero, zero, zero⟩)
  else do
    let cosang ← PyOps.bound (V3.dot surf sr / (V3.norm surf * V3.norm sr))
    let ang ← PyOps.pyAcos cosang
    pure (toDeg ang, V3.unit ax)
end Miscut
