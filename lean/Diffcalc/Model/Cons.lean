import Diffcalc.Scalar
/-!
# Hand model (tie H) of `diffcalc.hkl.constraints.Constraints`

Slot accounting, value validation, replacement policy, bulk setters and read-outs,
statement by statement as in `src/diffcalc/hkl/constraints.py`.
The correspondence check (`tools/harness/cons.py`) drives this model and the real class with the same
operation sequences and compares outcome class and the full state after every operation.
-/

inductive Cat | det | ref | samp deriving DecidableEq, Repr
inductive Ty | value | void deriving DecidableEq, Repr

inductive Name
  | delta | nu | qaz | naz
  | a_eq_b | alpha | beta | psi | bin_eq_bout | betain | betaout
  | mu | eta | chi | phi | bisect | omega
  deriving DecidableEq, Repr

namespace Name
/-- `Constraints._all`, in the order of the source -/
def all : List Name :=
  [delta, nu, qaz, naz, a_eq_b, alpha, beta, psi, bin_eq_bout, betain, betaout, mu, eta, chi, phi, bisect, omega]

def cat : Name → Cat
  | delta | nu | qaz | naz => .det
  | a_eq_b | alpha | beta | psi | bin_eq_bout | betain | betaout => .ref
  | mu | eta | chi | phi | bisect | omega => .samp

def ty : Name → Ty
  | a_eq_b | bin_eq_bout | bisect => .void
  | _ => .value

def toString : Name → String
  | delta => "delta" | nu => "nu" | qaz => "qaz" | naz => "naz"
  | a_eq_b => "a_eq_b" | alpha => "alpha" | beta => "beta" | psi => "psi"
  | bin_eq_bout => "bin_eq_bout" | betain => "betain" | betaout => "betaout"
  | mu => "mu" | eta => "eta" | chi => "chi" | phi => "phi" | bisect => "bisect" | omega => "omega"

def ofString? (s : String) : Option Name := all.find? (fun n => n.toString == s)
end Name

/-- what the caller passes to a constraint setter -/
inductive Arg (α : Type)
  | none            -- `None`
  | fals            -- `False`
  | tru             -- `True`
  | num (x : α)     -- int / float / numeric string (degrees)
  | bad             -- non-numeric string: `float(val)` raises ValueError -> DiffcalcException
  | badType         -- e.g. a list: `float(val)` raises TypeError, which is not caught

/-- stored value: radians for VALUE constraints, `True` for VOID ones -/
inductive Val (α : Type)
  | num (x : α)
  | tru

inductive CErr | dce | typeErr deriving DecidableEq, Repr

abbrev CState (α : Type) := Name → Option (Val α)

namespace CState
variable {α : Type}

def init : CState α := fun _ => none
def active (s : CState α) (n : Name) : Bool := (s n).isSome
def countCat (s : CState α) (c : Cat) : Nat := (Name.all.filter fun n => s.active n && n.cat == c).length
def count (s : CState α) : Nat := (Name.all.filter fun n => s.active n).length
def maxCat : Cat → Nat | .det => 1 | .ref => 1 | .samp => 3
def upd (s : CState α) (n : Name) (v : Option (Val α)) : CState α := fun m => if m = n then v else s m
/-- deactivate every member of a category (used by the replacement path, where the category has exactly one) -/
def clearCat (s : CState α) (c : Cat) : CState α := fun m => if m.cat = c then none else s m

/-- `_set_value`: the value that would be stored, or the exception raised -/
def setValue [Scalar α] (n : Name) : Arg α → Except CErr (Val α)
  | .tru => if n.ty = .void then .ok .tru else .error .dce
  | .num x => if n.ty = .value then .ok (.num (Scalar.toRad x)) else .error .dce
  | .bad => .error .dce      -- VALUE: ValueError caught -> dce ; VOID: "requires boolean value" dce
  | .badType => if n.ty = .value then .error .typeErr else .error .dce
  | .none => .error .dce     -- not reachable: handled by the caller
  | .fals => .error .dce     -- not reachable: handled by the caller

/-- where a new value for `n` would go: the slot decision of `_set_constraint` -/
inductive Slot | free | replace | refuse deriving DecidableEq, Repr

def slot (s : CState α) (n : Name) : Slot :=
  let k := s.countCat n.cat
  if s.active n then .free
  else if k < maxCat n.cat && s.count < 3 then .free
  else if k > 1 then .refuse       -- ambiguous: more than one candidate to replace
  else if k = 0 then .refuse       -- nothing of this category to replace
  else .replace                    -- exactly one constraint of this category: it is replaced

/-- `_set_constraint` (after the validate-before-deactivate repair) -/
def set [Scalar α] (s : CState α) (n : Name) (a : Arg α) : CState α × Except CErr Unit :=
  match a with
  | .none | .fals => (s.upd n none, .ok ())
  | a =>
    match s.slot n with
    | .refuse => (s, .error .dce)
    | .free =>
      match setValue n a with | .ok v => (s.upd n (some v), .ok ()) | .error e => (s, .error e)
    | .replace =>
      match setValue n a with
      | .ok v => ((clearCat s n.cat).upd n (some v), .ok ())
      | .error e => (s, .error e)

def del (s : CState α) (n : Name) : CState α := s.upd n none
def clear (_ : CState α) : CState α := init

/-- one entry of a bulk `asdict` / `astuple` assignment: a name that may be unknown, and a value -/
abbrev Item (α : Type) := Option Name × Arg α

/-- the loop of the bulk setters, started from the cleared state -/
def bulkLoop [Scalar α] : CState α → List (Item α) → Except CErr (CState α)
  | s, [] => .ok s
  | _, (none, _) :: _ => .error .dce
  | s, (some n, a) :: rest =>
    match s.set n a with
    | (s', .ok ()) => bulkLoop s' rest
    | (_, .error e) => .error e

/-- `asdict` / `astuple` setters (after the restore-on-failure repair) -/
def setBulk [Scalar α] (s : CState α) (items : List (Item α)) : CState α × Except CErr Unit :=
  match bulkLoop init items with
  | .ok s' => (s', .ok ())
  | .error e => (s, .error e)

/-- getter: degrees / True / None -/
inductive Out (α : Type) | none | tru | num (x : α)

def get [Scalar α] (s : CState α) (n : Name) : Out α :=
  match s n with
  | none => .none
  | some .tru => .tru
  | some (.num x) => .num (Scalar.toDeg x)

/-- `asdict` read-out as a bulk-setter argument -/
def asItems [Scalar α] (s : CState α) : List (Item α) :=
  (Name.all.filter fun n => s.active n).map fun n =>
    (some n, match s.get n with | .tru => Arg.tru | .num x => Arg.num x | .none => Arg.none)

def Inv (s : CState α) : Prop := s.count ≤ 3 ∧ s.countCat .det ≤ 1 ∧ s.countCat .ref ≤ 1

def isFullyConstrained (s : CState α) : Bool := s.count ≥ 3
def activeNames (s : CState α) : List Name := Name.all.filter fun n => s.active n
end CState

/-- operations of a constraint history -/
inductive COp (α : Type)
  | set (n : Name) (a : Arg α)
  | del (n : Name)
  | clear
  | bulk (items : List (CState.Item α))

def CState.step {α : Type} [Scalar α] (s : CState α) : COp α → CState α × Except CErr Unit
  | .set n a => s.set n a
  | .del n => (s.del n, .ok ())
  | .clear => (s.clear, .ok ())
  | .bulk items => s.setBulk items
