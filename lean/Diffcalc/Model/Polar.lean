import Diffcalc.Model.Miscut
import Diffcalc.Model.Crystal
import Diffcalc.Solver.Basic
/-!
# Hand model (tie H) of `UBCalculation.get_hkl_from_polar_transform` / `get_polar_transform_from_hkl`
(`xyz_rotation` modelled as the Rodrigues rotation).
-/
open Scalar PyOps

namespace Polar
variable {α : Type} [Scalar α]

/-- auxiliary axis: `hkl_nphi × ŷ`, or `hkl_nphi × ẑ` when the vector is along the lab y axis -/
def auxAxis (w : V3 α) : V3 α :=
  let ax := V3.cross w V3.ey
  if lt (V3.norm ax) SMALL then V3.cross w V3.ez else ax

/-- `get_hkl_from_polar_transform(hkl, pol, az)` with the angles in radians -/
def hklFromPolar (UB : M3 α) (hkl : V3 α) (pol az : α) : V3 α :=
  let w := M3.mulVec UB hkl
  let rotPolar := M3.rodrigues (auxAxis w) pol
  let rotAz := M3.rodrigues w az
  M3.mulVec (M3.mul (M3.mul (M3.inv UB) rotAz) rotPolar) w

/-- `cos(radians(angle_between_vectors(x, y)))` -/
def cosBetween (x y : V3 α) : Py α := do
  let a ← Solver.angleBetween x y
  pure (cos (toRad a))

/-- `get_polar_transform_from_hkl(hkl_offset, hkl_ref)`: (polar°, azimuth° or NaN, scaling) -/
def polarFromHkl (UB B : M3 α) (off ref : V3 α) : Py (α × Option α × α) := do
  let dref ← CrystalModel.planeDistance B ref
  let doff ← CrystalModel.planeDistance B off
  let rn := M3.mulVec UB ref
  let on := M3.mulVec UB off
  let scaling := dref / doff
  let area := V3.cross rn on
  let axis0 := V3.cross rn V3.ey
  if lt (V3.norm area) SMALL then pure (zero, none, scaling)
  else do
    let axis := if lt (V3.norm axis0) SMALL then V3.cross rn V3.ez else axis0
    let perp := V3.cross axis rn
    let alongAxis ← cosBetween on axis
    let alongPerp ← cosBetween on perp
    let polar ← Solver.angleBetween rn on
    let az := if lt SMALL (abs alongPerp) || lt SMALL (abs alongAxis) then toDeg (atan2 alongAxis alongPerp) else zero
    pure (polar, some az, scaling)
end Polar
