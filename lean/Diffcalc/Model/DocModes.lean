import Diffcalc.Model.Modes
import Diffcalc.Gen.DocTable
/-! Interpretation of the documented table (`Gen/DocTable.lean`, generated from the class docstring). -/

def sameSet (a b : List Name) : Bool := a.all b.contains && b.all a.contains

def DocRule.admits (r : DocRule) (t : List Name) : Bool :=
  lenCat t .samp == r.ns && lenCat t .ref == r.nr && lenCat t .det == r.nd &&
  (match r.det with | none => true | some ds => (t.filter (fun n => n.cat == .det)).all ds.contains) &&
  (match r.ref with | none => true | some rs => (t.filter (fun n => n.cat == .ref)).all rs.contains) &&
  (match r.samp with | none => true | some ss => ss.any (sameSet (t.filter (fun n => n.cat == .samp))))

/-- a triple is documented as available -/
def documented (t : List Name) : Bool := docRules.any (·.admits t)
