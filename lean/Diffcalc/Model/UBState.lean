import Diffcalc.Linalg
/-!
# Hand model (tie H) of the orientation state of `UBCalculation`: `(crystal, U, UB)` and its mutators
(`set_lattice`, `set_u`, `set_ub`, `set_miscut`, `calc_ub`, `refine_ub`, `fit_ub`; `src/diffcalc/ub/calc.py`).

The crystal is represented by its `B` matrix.  Quantities computed elsewhere travel as operation parameters:
the `B` of the new lattice (C06), the rotation built by `xyz_rotation` (Rodrigues, `Diffcalc/Model/Rodrigues.lean`),
the `U` computed from two references (C07), and whatever the optimiser of `fit_ub` returned (C15: any value).
`none` parameters stand for arguments the real method rejects (bad shape, bad lattice arguments, parallel references).
-/
open Scalar

inductive UErr | dce | typeErr deriving DecidableEq, Repr

structure UBState (α : Type) where
  B : Option (M3 α)      -- crystal (through its B matrix)
  U : Option (M3 α)
  UB : Option (M3 α)

inductive UOp (α : Type)
  | setLattice (newB : Option (M3 α))
  | setU (m : Option (M3 α))
  | setUb (m : Option (M3 α))
  | setMiscut (rot : M3 α) (add : Bool)
  | calcUb (u : Option (M3 α))
  | refineUb (newB : Option (M3 α)) (rot : Option (M3 α))     -- each part present when computed and enabled
  | fitUb (newB : Option (M3 α)) (newU : Option (M3 α))       -- each part present when its flag is on

namespace UBState
variable {α : Type} [Scalar α]

def init : UBState α := ⟨none, none, none⟩

/-- `set_lattice` with accepted arguments (after the recompute-UB repair) -/
def setLatticeOk (s : UBState α) (b : M3 α) : UBState α :=
  { s with B := some b, UB := match s.U with | some u => some (M3.mul u b) | none => s.UB }

/-- `set_u` with a 3×3 matrix: `U = m / cbrt(det m)`, and `UB = U·B` when a lattice exists -/
def setUOk (s : UBState α) (m : M3 α) : UBState α :=
  let u := M3.sdiv m (cbrt (M3.det m))
  { s with U := some u, UB := match s.B with | some b => some (M3.mul u b) | none => s.UB }

/-- `set_ub` with a 3×3 matrix -/
def setUbOk (s : UBState α) (m : M3 α) : UBState α :=
  match s.B with
  | none => { s with UB := some m }
  | some b =>
    let u' := M3.mul m (M3.inv b)
    let u := M3.sdiv u' (cbrt (M3.det u'))
    { s with U := some u, UB := some (M3.mul u b) }

def setMiscutOk (s : UBState α) (rot : M3 α) (add : Bool) : UBState α :=
  match s.U, add with
  | some u, true => s.setUOk (M3.mul rot u)
  | _, _ => s.setUOk rot

def step (s : UBState α) : UOp α → UBState α × Except UErr Unit
  | .setLattice none => (s, .error .typeErr)
  | .setLattice (some b) => (s.setLatticeOk b, .ok ())
  | .setU none => (s, .error .typeErr)
  | .setU (some m) => (s.setUOk m, .ok ())
  | .setUb none => (s, .error .typeErr)
  | .setUb (some m) => (s.setUbOk m, .ok ())
  | .setMiscut rot add => (s.setMiscutOk rot add, .ok ())
  | .calcUb u =>
    match s.B, u with
    | none, _ => (s, .error .dce)            -- no lattice
    | some _, none => (s, .error .dce)       -- parallel / missing references
    | some b, some u => ({ s with U := some u, UB := some (M3.mul u b) }, .ok ())
  | .refineUb newB rot =>
    let s1 := match newB with | some b => s.setLatticeOk b | none => s
    let s2 := match rot with | some r => s1.setMiscutOk r true | none => s1
    (s2, .ok ())
  | .fitUb newB newU =>
    let s1 := match newB with | some b => s.setLatticeOk b | none => s
    let s2 := match newU with | some u => s1.setUOk u | none => s1
    (s2, .ok ())
end UBState
