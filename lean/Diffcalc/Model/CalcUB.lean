import Diffcalc.Gen.GetHkl
import Diffcalc.Model.Miscut
import Diffcalc.Model.RefList
/-!
# Hand model (tie H) of `UBCalculation.calc_ub` (`_calc_ub_from_two_references`, `_calc_ub_from_primary_only`, reference selection)
-/
open Scalar PyOps

namespace CalcUB
variable {α : Type} [Scalar α]

/-- a reference: a reflection (hkl + measured position, radians) or an orientation (hkl + lab direction + position) -/
inductive Ref (α : Type)
  | refl (h : V3 α) (mu delta nu eta chi phi : α)
  | orient (h : V3 α) (xyz : V3 α) (mu delta nu eta chi phi : α)

def Ref.hkl : Ref α → V3 α | .refl h .. => h | .orient h .. => h

/-- the reference direction in the phi frame: `get_q_phi(pos)` for a reflection, `Z⁻¹·xyz` for an orientation -/
def Ref.uPhi : Ref α → V3 α
  | .refl _ mu delta nu eta chi phi => Gen.get_q_phi mu delta nu eta chi phi
  | .orient _ xyz mu _ _ eta chi phi =>
    M3.mulVec (M3.mul (M3.mul (M3.mul (M3.inv (Gen.rot_PHI phi)) (M3.inv (Gen.rot_CHI chi))) (M3.inv (Gen.rot_ETA eta))) (M3.inv (Gen.rot_MU mu))) xyz

/-- `__normalise`: DiffcalcException below the threshold -/
def normaliseOrFail (v : V3 α) : Py (V3 α) :=
  let d := V3.norm v
  if lt d SMALL then .error .dce else .ok ⟨v.x / d, v.y / d, v.z / d⟩

/-- orthonormal triad of two vectors: `t1 = a, t3 = a × b, t2 = t3 × t1`, each normalised -/
def triad (a b : V3 α) : Py (M3 α) := do
  let t3 := V3.cross a b
  let t2 := V3.cross t3 a
  let n1 ← normaliseOrFail a
  let n2 ← normaliseOrFail t2
  let n3 ← normaliseOrFail t3
  pure (M3.ofCols n1 n2 n3)

/-- `_calc_ub_from_two_references`: the new `U` (then `UB = U·B`); the crystal triad is normalised first, as in the source -/
def fromTwo (B : M3 α) (r1 r2 : Ref α) : Py (M3 α) := do
  let Tc ← triad (M3.mulVec B r1.hkl) (M3.mulVec B r2.hkl)
  let Tp ← triad r1.uPhi r2.uPhi
  pure (M3.mul Tp (M3.inv Tc))

/-- `_calc_ub_from_primary_only`: rotation taking the crystal direction of the reflection onto the measured one -/
def fromOne (B : M3 α) (h : V3 α) (q : V3 α) : M3 α :=
  let hc := M3.mulVec B h
  let hc := V3.smul (one / V3.norm hc) hc
  let qm := V3.smul (one / V3.norm q) q
  let ax := V3.cross hc qm
  let ax := V3.smul (one / V3.norm ax) ax
  let ang := acos (V3.dot hc qm)
  let u := ax.x
  let v := ax.y
  let w := ax.z
  let rcos := cos ang
  let rsin := sin ang
  ⟨rcos + u * u * (one - rcos), -w * rsin + u * v * (one - rcos), v * rsin + u * w * (one - rcos),
   w * rsin + v * u * (one - rcos), rcos + v * v * (one - rcos), -u * rsin + v * w * (one - rcos),
   -v * rsin + w * u * (one - rcos), u * rsin + w * v * (one - rcos), rcos + w * w * (one - rcos)⟩

/-! ## reference selection (`calc_ub`, `_get_calc_ub_references`) -/

/-- a stored record: optional tag + data -/
structure Stored (α : Type) where
  tag : Option String
  ref : Ref α

/-- `get_reflection(idx)` / `get_orientation(idx)` through the list model of C18 -/
def getRef (l : List (Stored α)) (ix : Idx) : Except LErr (Ref α) :=
  match RefList.locate (fun r : Stored α => r.tag) l ix with
  | .error e => .error e
  | .ok p => match l[p]? with
    | some r => .ok r.ref
    | none => .error .index

/-- `try: get_reflection(idx) except Exception: get_orientation(idx)`; `none` = neither list has it -/
def pick (rs os : List (Stored α)) : Option Idx → Option (Ref α)
  | none => none      -- `None - 1` is a TypeError in both lists
  | some ix => match getRef rs ix with
    | .ok r => some r
    | .error _ => match getRef os ix with
      | .ok r => some r
      | .error _ => none

/-- what `calc_ub(idx1, idx2)` decides to do -/
inductive Sel (α : Type)
  | two (r1 r2 : Ref α)
  | one (r : Ref α)
  | dce
  | valueErr          -- unknown tag handed to the single-reflection path (`list.index` ValueError, not caught by the source)

def select (rs os : List (Stored α)) (i1 i2 : Option Idx) : Sel α :=
  let primary (ix : Idx) : Sel α :=
    match getRef rs ix with
    | .ok r => .one r
    | .error .index => .dce
    | .error .value => .valueErr
  match i1, i2 with
  | some ix, none => primary ix
  | none, none =>
    if rs.length == 1 then primary (.num 1)
    else
      let cands := [getRef rs (.num 1), getRef rs (.num 2), getRef os (.num 1), getRef os (.num 2)].filterMap
        (fun r => match r with | .ok x => some x | .error _ => none)
      match cands with
      | a :: b :: _ => .two a b
      | _ => .dce
  | i1, i2 =>
    match pick rs os i1, pick rs os i2 with
    | some a, some b => .two a b
    | _, _ => .dce

/-- the new `U`, or the error, for a whole `calc_ub(idx1, idx2)` call on a UB calculation with a crystal -/
def calcUb (B : M3 α) (rs os : List (Stored α)) (i1 i2 : Option Idx) : Py (M3 α) :=
  match select rs os i1 i2 with
  | .two a b => fromTwo B a b
  | .one (.refl h mu delta nu eta chi phi) => .ok (fromOne B h (Gen.get_q_phi mu delta nu eta chi phi))
  | .one (.orient ..) => .error .typeErr   -- unreachable: the single path only reads the reflection list
  | .dce => .error .dce
  | .valueErr => .error .valueError
end CalcUB
