import Diffcalc.Linalg
/-!
# Hand model (tie H) of the reference / surface vector bookkeeping of `UBCalculation`
(`ReferenceVector.get_array`, the `n_hkl`, `n_phi`, `surf_nhkl`, `surf_nphi` properties; `src/diffcalc/ub/calc.py`).
-/

/-- `ReferenceVector`: coordinates and the frame flag (`rlv = true`: reciprocal-lattice / hkl frame) -/
structure RefVec (α : Type) where
  v : V3 α
  rlv : Bool

structure Frames (α : Type) where
  reference : RefVec α
  surface : RefVec α
  UB : Option (M3 α)

namespace Frames
variable {α : Type} [Scalar α]

/-- `UBCalculation.__init__`: reference (1,0,0) in the hkl frame, surface (0,0,1) in the lab frame, no UB -/
def init : Frames α := ⟨⟨V3.ex, true⟩, ⟨V3.ez, false⟩, none⟩

/-- `ReferenceVector.get_array(UB)` for `UB` present: convert to the other frame and scale to unit length -/
def convert (r : RefVec α) (ub : M3 α) : V3 α :=
  if r.rlv then V3.unit (M3.mulVec ub r.v) else V3.unit (M3.mulVec (M3.inv ub) r.v)

/-- value reported in the hkl frame -/
def hklOf (r : RefVec α) (ub : Option (M3 α)) : Option (V3 α) :=
  if r.rlv then some r.v else ub.map (convert r)

/-- value reported in the lab (phi) frame -/
def phiOf (r : RefVec α) (ub : Option (M3 α)) : Option (V3 α) :=
  if r.rlv then ub.map (convert r) else some r.v

def n_hkl (s : Frames α) := hklOf s.reference s.UB
def n_phi (s : Frames α) := phiOf s.reference s.UB
def surf_nhkl (s : Frames α) := hklOf s.surface s.UB
def surf_nphi (s : Frames α) := phiOf s.surface s.UB

def set_n_hkl (s : Frames α) (v : V3 α) : Frames α := { s with reference := ⟨v, true⟩ }
def set_n_phi (s : Frames α) (v : V3 α) : Frames α := { s with reference := ⟨v, false⟩ }
def set_surf_nhkl (s : Frames α) (v : V3 α) : Frames α := { s with surface := ⟨v, true⟩ }
def set_surf_nphi (s : Frames α) (v : V3 α) : Frames α := { s with surface := ⟨v, false⟩ }
def set_UB (s : Frames α) (m : Option (M3 α)) : Frames α := { s with UB := m }
end Frames
