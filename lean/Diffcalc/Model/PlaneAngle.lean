import Diffcalc.Model.Crystal
import Diffcalc.Solver.Basic
/-!
# Hand model (tie H) of `Crystal.get_hkl_plane_angle`: `angle_between_vectors(B·hkl1, B·hkl2)` in degrees
-/
open Scalar PyOps

namespace CrystalModel
variable {α : Type} [Scalar α]

def planeAngle (B : M3 α) (h1 h2 : V3 α) : Py α :=
  Solver.angleBetween (M3.mulVec B h1) (M3.mulVec B h2)
end CrystalModel
