/-!
# Hand model (tie H) of `ReflectionList` / `OrientationList` (`src/diffcalc/ub/reference.py`)
as used through `UBCalculation`'s wrappers.  A record is abstract (`ρ`) with an optional tag.
Python list indexing is modelled faithfully, including the wrap-around of negative positions
(`idx - 1` for `idx ≤ 0`), although the property only speaks about `1 ≤ idx` .
-/

inductive LErr | index | value deriving DecidableEq, Repr

/-- how a record is addressed: 1-based integer or tag -/
inductive Idx | num (i : Int) | tag (t : String) deriving DecidableEq, Repr

namespace RefList
variable {ρ : Type}

/-- position of the first element satisfying `p` (Python `list.index`) -/
def findIdx? (p : ρ → Bool) : List ρ → Option Nat
  | [] => none
  | x :: xs => if p x then some 0 else (findIdx? p xs).map (· + 1)

/-- Python `l[k]` position for an `int` k: wraps negative positions, fails outside `-n ≤ k < n` -/
def pyPos (n : Nat) (k : Int) : Option Nat :=
  if 0 ≤ k then (if k < n then some k.toNat else none)
  else if -(n : Int) ≤ k then some (k + n).toNat else none

/-- `get_tag_index` / `idx - 1`: the raw position (not yet range-checked) or ValueError -/
def resolve (tagOf : ρ → Option String) (l : List ρ) : Idx → Except LErr Int
  | .num i => .ok (i - 1)
  | .tag t => match findIdx? (fun r => tagOf r == some t) l with
    | some k => .ok k
    | none => .error .value

/-- position after Python's range check -/
def locate (tagOf : ρ → Option String) (l : List ρ) (ix : Idx) : Except LErr Nat :=
  match resolve tagOf l ix with
  | .error e => .error e
  | .ok k => match pyPos l.length k with
    | some p => .ok p
    | none => .error .index

inductive Op (ρ : Type)
  | add (r : ρ)
  | edit (ix : Idx) (r : ρ)
  | get (ix : Idx)
  | del (ix : Idx)
  | swap (i j : Idx)
  | len
  | tagNum (t : String)

inductive Res (ρ : Type)
  | unit | record (r : ρ) | nat (n : Nat) | err (e : LErr)

def step (tagOf : ρ → Option String) (l : List ρ) : Op ρ → List ρ × Res ρ
  | .add r => (l ++ [r], .unit)
  | .edit ix r =>
    match locate tagOf l ix with
    | .ok p => (l.set p r, .unit)
    | .error e => (l, .err e)
  | .get ix =>
    match locate tagOf l ix with
    | .ok p => (match l[p]? with | some r => (l, .record r) | none => (l, .err .index))
    | .error e => (l, .err e)
  | .del ix =>
    match locate tagOf l ix with
    | .ok p => (l.eraseIdx p, .unit)
    | .error e => (l, .err e)
  | .swap i j =>
    -- both addresses are resolved (tags looked up) before any element is read
    match resolve tagOf l i, resolve tagOf l j with
    | .error e, _ => (l, .err e)
    | .ok _, .error e => (l, .err e)
    | .ok a, .ok b =>
      match pyPos l.length a, pyPos l.length b with
      | some p, some q =>
        (match l[p]?, l[q]? with
          | some x, some y => ((l.set p y).set q x, .unit)
          | _, _ => (l, .err .index))
      | _, _ => (l, .err .index)
  | .len => (l, .nat l.length)
  | .tagNum t =>
    match findIdx? (fun r => tagOf r == some t) l with
    | some k => (l, .nat (k + 1))
    | none => (l, .err .value)

end RefList
