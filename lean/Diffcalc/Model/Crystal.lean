import Diffcalc.Gen.Crystal
import Diffcalc.PyOps
/-!
# Hand model (tie H) of the call forms of `Crystal(...)` / `UBCalculation.set_lattice(...)` and of the plane
geometry helpers (`get_hkl_plane_distance`, `get_ttheta_from_hkl`), on top of the GENERATED cell tables.
-/
open Scalar

namespace CrystalModel
variable {α : Type} [Scalar α]

/-- stored fields (a1 a2 a3 alpha1 alpha2 alpha3); unfilled ones are never read by `cellForSystem` -/
structure Fields (α : Type) where
  a1 : α
  a2 : α
  a3 : α
  alpha1 : α
  alpha2 : α
  alpha3 : α

def Fields.set (f : Fields α) (name : String) (v : α) : Fields α :=
  if name == "a1" then { f with a1 := v } else if name == "a2" then { f with a2 := v }
  else if name == "a3" then { f with a3 := v } else if name == "alpha1" then { f with alpha1 := v }
  else if name == "alpha2" then { f with alpha2 := v } else if name == "alpha3" then { f with alpha3 := v } else f

def fill (f : Fields α) : List String → List α → Option (Fields α)
  | [], [] => some f
  | n :: ns, v :: vs => fill (f.set n v) ns vs
  | _, _ => none

/-- `Crystal._set_cell_for_system(system, *args)`: which fields the positional parameters fill (`none` = TypeError) -/
def fieldsFor (system : String) (args : List α) : Option (Fields α) :=
  let z : Fields α := ⟨zero, zero, zero, zero, zero, zero⟩
  let key := if args.length == 6 then "*6" else system
  match Gen.systemFields.find? (fun p => p.1 == key) with
  | some (_, names) => fill z names args
  | none => none

/-- `Crystal(name, system, *args)` with a system name: the full cell (lengths, angles in radians) -/
def cellOfSystem (system : String) (args : List α) : Option (α × α × α × α × α × α) :=
  match fieldsFor system args with
  | some f => Gen.cellForSystem system f.a1 f.a2 f.a3 f.alpha1 f.alpha2 f.alpha3
  | none => none

/-- `Crystal(name, a, b, c, alpha, beta, gamma)`: six numbers (degrees) -/
def cellOfSix : List α → Option (α × α × α × α × α × α)
  | [a, b, c, al, be, ga] => some (a, b, c, toRad al, toRad be, toRad ga)
  | _ => none

/-- `UBCalculation.set_lattice(name, *numbers)`: the inferred system and the arguments passed on to `Crystal` -/
def inferForm (nums : List α) : Option (String × List α) :=
  match nums with
  | [_] => some ("Cubic", nums)
  | [_, _] => some ("Tetragonal", nums)
  | [_, _, _] => some ("Orthorhombic", nums)
  | [a, b, c, g] => if isSmall (a - b) && beq g (ofNat 120) then some ("Hexagonal", [a, c]) else some ("Monoclinic", nums)
  | [_, _, _, _, _, _] => some ("Triclinic", nums)
  | _ => none

/-- the cell produced by a call form: optional system name + numbers -/
def cellOfCall (system : Option String) (nums : List α) : Option (String × (α × α × α × α × α × α)) :=
  match system with
  | some sys => (cellOfSystem sys nums).map fun c => (sys, c)
  | none => match inferForm nums with
    | some (sys, args) => (cellOfSystem sys args).map fun c => (sys, c)
    | none => none

def Bof (c : α × α × α × α × α × α) : M3 α := Gen.reciprocalB c.1 c.2.1 c.2.2.1 c.2.2.2.1 c.2.2.2.2.1 c.2.2.2.2.2

/-- `Crystal.get_hkl_plane_distance` -/
def planeDistance (B : M3 α) (hkl : V3 α) : Py α :=
  let b := M3.sdiv B (two * pi)
  let bMT := M3.mul (M3.inv b) (M3.inv (M3.transpose b))
  let q := V3.dot hkl (M3.mulVec (M3.inv bMT) hkl)
  do
    let s ← PyOps.pySqrt q
    PyOps.pyDiv one s

/-- `UBCalculation.get_ttheta_from_hkl` (after the zero-vector repair): radians -/
def ttheta (B : M3 α) (hkl : V3 α) (en : α) : Py α :=
  let wl := ofSci 1239842 true 5 / en
  match planeDistance B hkl with
  | .error .zeroDiv => .error .dce
  | .error e => .error e
  | .ok d =>
    match PyOps.bound (wl / (d * two)) with
    | .error _ => .error .dce
    | .ok st => (PyOps.pyAsin st).map fun a => two * a
end CrystalModel
