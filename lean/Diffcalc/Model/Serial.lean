import Diffcalc.Model.Cons
import Diffcalc.Model.Crystal
/-!
# Hand model (tie H) of the `asdict` / `fromdict` pairs
(`HklCalculation`, `UBCalculation`, `Crystal`, `ReferenceVector`, `ReflectionList`, `OrientationList`, `Reflection`,
`Orientation`, `Position`, `Constraints`), over an explicit JSON value type.

`fromdict` functions return `none` where the Python raises (KeyError / TypeError / ValueError / DiffcalcException) and also
for dictionaries whose leaves have another JSON type than `asdict` produces (outside the property).
-/
open Scalar

/-- JSON values (what `json.loads` can return), numbers in the scalar type -/
inductive J (α : Type) where
  | null
  | bool (b : Bool)
  | num (x : α)
  | str (s : String)
  | arr (l : List (J α))
  | obj (kv : List (String × J α))

namespace J
variable {α : Type}
/-- `data[key]` on a dictionary -/
def get? : J α → String → Option (J α)
  | .obj kv, k => (kv.find? (fun p => p.1 == k)).map (·.2)
  | _, _ => none
/-- `data.get(key)`-like access used for keyword arguments with defaults: a missing key reads as `null` -/
def getD (d : J α) (k : String) : J α := (d.get? k).getD .null
def keys : J α → List String
  | .obj kv => kv.map (·.1)
  | _ => []
def asNum? : J α → Option α | .num x => some x | _ => none
def asStr? : J α → Option String | .str s => some s | _ => none
def asBool? : J α → Option Bool | .bool b => some b | _ => none
/-- optional string: `null` or a string -/
def asOptStr? : J α → Option (Option String) | .null => some none | .str s => some (some s) | _ => none
def ofOptStr : Option String → J α | none => .null | some s => .str s
end J

namespace Serial
variable {α : Type} [Scalar α]

/-! ## Position: radians inside, degrees in the dictionary -/
structure PosS (α : Type) where
  mu : α
  delta : α
  nu : α
  eta : α
  chi : α
  phi : α

def posFields : List String := ["mu", "delta", "nu", "eta", "chi", "phi"]

def posDict (p : PosS α) : J α :=
  .obj [("mu", .num (toDeg p.mu)), ("delta", .num (toDeg p.delta)), ("nu", .num (toDeg p.nu)),
        ("eta", .num (toDeg p.eta)), ("chi", .num (toDeg p.chi)), ("phi", .num (toDeg p.phi))]

/-- one keyword argument of `Position(**d)`: default 0 when missing -/
def posArg (d : J α) (k : String) : Option α :=
  match d.get? k with
  | none => some (ofNat 0)
  | some (.num x) => some x
  | some _ => none

/-- `Position(**d)`: unknown keywords are a TypeError -/
def posOfDict (d : J α) : Option (PosS α) :=
  match d with
  | .obj _ =>
    if d.keys.all (fun k => posFields.contains k) then do
      let mu ← posArg d "mu"; let delta ← posArg d "delta"; let nu ← posArg d "nu"
      let eta ← posArg d "eta"; let chi ← posArg d "chi"; let phi ← posArg d "phi"
      pure ⟨toRad mu, toRad delta, toRad nu, toRad eta, toRad chi, toRad phi⟩
    else none
  | _ => none

/-! ## reference reflections and orientations -/
structure ReflS (α : Type) where
  h : α
  k : α
  l : α
  pos : PosS α
  energy : α
  tag : Option String

def reflDict (r : ReflS α) : J α :=
  .obj [("h", .num r.h), ("k", .num r.k), ("l", .num r.l), ("pos", posDict r.pos), ("energy", .num r.energy), ("tag", J.ofOptStr r.tag)]

def reflOfDict (d : J α) : Option (ReflS α) := do
  let h ← (← d.get? "h").asNum?
  let k ← (← d.get? "k").asNum?
  let l ← (← d.get? "l").asNum?
  let pos ← posOfDict (← d.get? "pos")
  let en ← (← d.get? "energy").asNum?
  let tag ← (← d.get? "tag").asOptStr?
  pure ⟨h, k, l, pos, en, tag⟩

structure OrientS (α : Type) where
  h : α
  k : α
  l : α
  x : α
  y : α
  z : α
  pos : PosS α
  tag : Option String

def orientDict (r : OrientS α) : J α :=
  .obj [("h", .num r.h), ("k", .num r.k), ("l", .num r.l), ("x", .num r.x), ("y", .num r.y), ("z", .num r.z),
        ("pos", posDict r.pos), ("tag", J.ofOptStr r.tag)]

def orientOfDict (d : J α) : Option (OrientS α) := do
  let h ← (← d.get? "h").asNum?
  let k ← (← d.get? "k").asNum?
  let l ← (← d.get? "l").asNum?
  let x ← (← d.get? "x").asNum?
  let y ← (← d.get? "y").asNum?
  let z ← (← d.get? "z").asNum?
  let pos ← posOfDict (← d.get? "pos")
  let tag ← (← d.get? "tag").asOptStr?
  pure ⟨h, k, l, x, y, z, pos, tag⟩

def listOfDict (f : J α → Option β) : J α → Option (List β)
  | .arr l => l.mapM f
  | _ => none

/-! ## crystal: stored cell (angles in radians) + system name -/
structure CrystalS (α : Type) where
  name : String
  system : String
  a1 : α
  a2 : α
  a3 : α
  alpha1 : α
  alpha2 : α
  alpha3 : α

def crystalDict (c : CrystalS α) : J α :=
  .obj [("name", .str c.name), ("system", .str c.system), ("a", .num c.a1), ("b", .num c.a2), ("c", .num c.a3),
        ("alpha", .num (toDeg c.alpha1)), ("beta", .num (toDeg c.alpha2)), ("gamma", .num (toDeg c.alpha3))]

def crystalKeys : List String := ["name", "system", "a", "b", "c", "alpha", "beta", "gamma"]

/-- the non-`None` numeric keyword arguments, in the order of the signature; `none` if one of them is not a number -/
def numArgs (d : J α) : List String → Option (List α)
  | [] => some []
  | k :: ks =>
    match d.getD k with
    | .null => numArgs d ks
    | .num x => (numArgs d ks).map (x :: ·)
    | _ => none

/-- `Crystal(**d)` -/
def crystalOfDict (d : J α) : Option (CrystalS α) :=
  match d with
  | .obj _ =>
    if d.keys.all (fun k => crystalKeys.contains k) then
      match d.get? "name" with     -- `name` is the only keyword without a default
      | some (.str name) =>
        match numArgs d ["a", "b", "c", "alpha", "beta", "gamma"] with
        | none => none
        | some nums =>
          match d.getD "system" with
          | .null => (CrystalModel.cellOfSix nums).map fun c => ⟨name, "Triclinic", c.1, c.2.1, c.2.2.1, c.2.2.2.1, c.2.2.2.2.1, c.2.2.2.2.2⟩
          | .str sys => (CrystalModel.cellOfSystem sys nums).map fun c => ⟨name, sys, c.1, c.2.1, c.2.2.1, c.2.2.2.1, c.2.2.2.2.1, c.2.2.2.2.2⟩
          | _ => none
      | _ => none
    else none
  | _ => none

/-! ## reference / surface vectors, matrices -/
structure RefVecS (α : Type) where
  n : V3 α
  rlv : Bool

def refVecDict (r : RefVecS α) : J α := .obj [("n_ref", .arr [.num r.n.x, .num r.n.y, .num r.n.z]), ("rlv", .bool r.rlv)]

/-- `ReferenceVector(**d)`: both fields are required -/
def refVecOfDict (d : J α) : Option (RefVecS α) :=
  if d.keys.all (fun k => ["n_ref", "rlv"].contains k) then
    match d.get? "n_ref", d.get? "rlv" with
    | some (.arr [.num x, .num y, .num z]), some (.bool b) => some ⟨⟨x, y, z⟩, b⟩
    | _, _ => none
  else none

def matDict : Option (M3 α) → J α
  | none => .null
  | some m => .arr [.arr [.num m.a00, .num m.a01, .num m.a02], .arr [.num m.a10, .num m.a11, .num m.a12], .arr [.num m.a20, .num m.a21, .num m.a22]]

def matOfDict : J α → Option (Option (M3 α))
  | .null => some none
  | .arr [.arr [.num a, .num b, .num c], .arr [.num d, .num e, .num f], .arr [.num g, .num h, .num i]] => some (some ⟨a, b, c, d, e, f, g, h, i⟩)
  | _ => none

/-! ## UB calculation -/
structure UBS (α : Type) where
  name : String
  crystal : Option (CrystalS α)
  refl : List (ReflS α)
  orient : List (OrientS α)
  reference : RefVecS α
  surface : RefVecS α
  U : Option (M3 α)
  UB : Option (M3 α)

def ubDict (s : UBS α) : J α :=
  .obj [("name", .str s.name),
        ("crystal", match s.crystal with | none => .null | some c => crystalDict c),
        ("reflist", .arr (s.refl.map reflDict)),
        ("orientlist", .arr (s.orient.map orientDict)),
        ("reference", refVecDict s.reference),
        ("surface", refVecDict s.surface),
        ("u_matrix", matDict s.U),
        ("ub_matrix", matDict s.UB)]

/-- `UBCalculation.fromdict`: every field is read with `data[...]` and assigned verbatim -/
def ubOfDict (d : J α) : Option (UBS α) := do
  let name ← (← d.get? "name").asStr?
  let crystal ← match (← d.get? "crystal") with
    | .null => some none
    | c => (crystalOfDict c).map some
  let refl ← listOfDict reflOfDict (← d.get? "reflist")
  let orient ← listOfDict orientOfDict (← d.get? "orientlist")
  let reference ← refVecOfDict (← d.get? "reference")
  let surface ← refVecOfDict (← d.get? "surface")
  let U ← matOfDict (← d.get? "u_matrix")
  let UB ← matOfDict (← d.get? "ub_matrix")
  pure ⟨name, crystal, refl, orient, reference, surface, U, UB⟩

/-! ## constraints -/
def consEntry (s : CState α) (n : Name) : String × J α :=
  (n.toString, match s.get n with | .tru => J.bool true | .num x => J.num x | .none => J.null)

def consDict (s : CState α) : J α := .obj ((Name.all.filter fun n => s.active n).map (consEntry s))

def itemOf (kv : String × J α) : Option (CState.Item α) :=
  match kv.2 with
  | .null => some (Name.ofString? kv.1, .none)
  | .bool true => some (Name.ofString? kv.1, .tru)
  | .bool false => some (Name.ofString? kv.1, .fals)
  | .num x => some (Name.ofString? kv.1, .num x)
  | _ => none

/-- `Constraints(data)` with a dictionary: the bulk setter on a fresh object -/
def consOfDict (d : J α) : Option (CState α) :=
  match d with
  | .obj kv =>
    match kv.mapM itemOf with
    | none => none
    | some items =>
      match CState.bulkLoop CState.init items with
      | .ok s => some s
      | .error _ => none
  | _ => none

/-! ## hkl calculation -/
structure HklS (α : Type) where
  ub : UBS α
  cons : CState α

def hklDict (s : HklS α) : J α := .obj [("ubcalc", ubDict s.ub), ("constraints", consDict s.cons)]

def hklOfDict (d : J α) : Option (HklS α) := do
  let cons ← consOfDict (← d.get? "constraints")
  let ub ← ubOfDict (← d.get? "ubcalc")
  pure ⟨ub, cons⟩
end Serial
