import Diffcalc.Model.Serial
import Diffcalc.Drive.Wire
/-!
Harness glue for C14 (not part of the proof model): a token syntax for JSON values with exact floats, and the raw dump of a
calculator's internal state (radians, stored cell) as produced by `tools/props/c14.py` from the real objects' attributes.
-/
open Wire Serial

namespace SerialWire

def strHex (s : String) : String := s.toUTF8.foldl (fun acc b => acc ++ String.singleton (hexDigit (b.toNat / 16)) ++ String.singleton (hexDigit (b.toNat % 16))) ""

def hexStr (h : String) : Option String :=
  let cs := h.toList
  let rec go : List Char → ByteArray → Option ByteArray
    | [], acc => some acc
    | a :: b :: r, acc => match hexVal a, hexVal b with
      | some x, some y => go r (acc.push (UInt8.ofNat (x * 16 + y)))
      | _, _ => none
    | _, _ => none
  match go cs ByteArray.empty with
  | some ba => String.fromUTF8? ba
  | none => none

partial def showJ : J Float → String
  | .null => "null"
  | .bool true => "T"
  | .bool false => "F"
  | .num x => "n" ++ showFloat x
  | .str s => "s" ++ strHex s
  | .arr l => "[ " ++ String.intercalate " " (l.map showJ) ++ (if l.isEmpty then "]" else " ]")
  | .obj kv => "{ " ++ String.intercalate " " (kv.map fun p => "s" ++ strHex p.1 ++ " " ++ showJ p.2) ++ (if kv.isEmpty then "}" else " }")

mutual
partial def parseJ : List String → Option (J Float × List String)
  | "null" :: r => some (.null, r)
  | "T" :: r => some (.bool true, r)
  | "F" :: r => some (.bool false, r)
  | "[" :: r => parseArr r []
  | "{" :: r => parseObj r []
  | t :: r =>
    if t.startsWith "n" then (parseFloat (t.drop 1).toString).map fun x => (.num x, r)
    else if t.startsWith "s" then (hexStr (t.drop 1).toString).map fun s => (.str s, r)
    else none
  | [] => none
partial def parseArr : List String → List (J Float) → Option (J Float × List String)
  | "]" :: r, acc => some (.arr acc.reverse, r)
  | ts, acc => match parseJ ts with
    | some (j, r) => parseArr r (j :: acc)
    | none => none
partial def parseObj : List String → List (String × J Float) → Option (J Float × List String)
  | "}" :: r, acc => some (.obj acc.reverse, r)
  | k :: ts, acc =>
    if k.startsWith "s" then
      match hexStr (k.drop 1).toString, parseJ ts with
      | some key, some (j, r) => parseObj r ((key, j) :: acc)
      | _, _ => none
    else none
  | [], _ => none
end

/-! ## raw state dump -/
def nums? : J Float → Option (List Float)
  | .arr l => l.mapM J.asNum?
  | _ => none

def posOfRaw (j : J Float) : Option (PosS Float) :=
  match nums? j with
  | some [a, b, c, d, e, f] => some ⟨a, b, c, d, e, f⟩
  | _ => none
def posRaw (p : PosS Float) : J Float := .arr [.num p.mu, .num p.delta, .num p.nu, .num p.eta, .num p.chi, .num p.phi]

def reflOfRaw (d : J Float) : Option (ReflS Float) := do
  pure ⟨← (← d.get? "h").asNum?, ← (← d.get? "k").asNum?, ← (← d.get? "l").asNum?, ← posOfRaw (← d.get? "pos"),
        ← (← d.get? "energy").asNum?, ← (← d.get? "tag").asOptStr?⟩
def reflRaw (r : ReflS Float) : J Float :=
  .obj [("h", .num r.h), ("k", .num r.k), ("l", .num r.l), ("pos", posRaw r.pos), ("energy", .num r.energy), ("tag", J.ofOptStr r.tag)]

def orientOfRaw (d : J Float) : Option (OrientS Float) := do
  pure ⟨← (← d.get? "h").asNum?, ← (← d.get? "k").asNum?, ← (← d.get? "l").asNum?, ← (← d.get? "x").asNum?, ← (← d.get? "y").asNum?,
        ← (← d.get? "z").asNum?, ← posOfRaw (← d.get? "pos"), ← (← d.get? "tag").asOptStr?⟩
def orientRaw (r : OrientS Float) : J Float :=
  .obj [("h", .num r.h), ("k", .num r.k), ("l", .num r.l), ("x", .num r.x), ("y", .num r.y), ("z", .num r.z), ("pos", posRaw r.pos), ("tag", J.ofOptStr r.tag)]

def crystalOfRaw (d : J Float) : Option (CrystalS Float) := do
  let name ← (← d.get? "name").asStr?
  let sys ← (← d.get? "system").asStr?
  match nums? (← d.get? "cell") with
  | some [a, b, c, d, e, f] => pure ⟨name, sys, a, b, c, d, e, f⟩
  | _ => none
def crystalRaw (c : CrystalS Float) : J Float :=
  .obj [("name", .str c.name), ("system", .str c.system), ("cell", .arr [.num c.a1, .num c.a2, .num c.a3, .num c.alpha1, .num c.alpha2, .num c.alpha3])]

def refVecOfRaw (d : J Float) : Option (RefVecS Float) := do
  let b ← (← d.get? "rlv").asBool?
  match nums? (← d.get? "n") with
  | some [x, y, z] => pure ⟨⟨x, y, z⟩, b⟩
  | _ => none
def refVecRaw (r : RefVecS Float) : J Float := .obj [("n", .arr [.num r.n.x, .num r.n.y, .num r.n.z]), ("rlv", .bool r.rlv)]

def ubOfRaw (d : J Float) : Option (UBS Float) := do
  let name ← (← d.get? "name").asStr?
  let crystal ← match (← d.get? "crystal") with
    | .null => some none
    | c => (crystalOfRaw c).map some
  let refl ← listOfDict reflOfRaw (← d.get? "refl")
  let orient ← listOfDict orientOfRaw (← d.get? "orient")
  let reference ← refVecOfRaw (← d.get? "reference")
  let surface ← refVecOfRaw (← d.get? "surface")
  let U ← matOfDict (← d.get? "U")
  let UB ← matOfDict (← d.get? "UB")
  pure ⟨name, crystal, refl, orient, reference, surface, U, UB⟩
def ubRaw (s : UBS Float) : J Float :=
  .obj [("name", .str s.name), ("crystal", match s.crystal with | none => .null | some c => crystalRaw c),
        ("refl", .arr (s.refl.map reflRaw)), ("orient", .arr (s.orient.map orientRaw)),
        ("reference", refVecRaw s.reference), ("surface", refVecRaw s.surface), ("U", matDict s.U), ("UB", matDict s.UB)]

/-- constraints: stored values (radians / true), by name -/
def consOfRaw (d : J Float) : Option (CState Float) :=
  match d with
  | .obj kv =>
    kv.foldlM (fun (st : CState Float) (p : String × J Float) =>
      match Name.ofString? p.1, p.2 with
      | some n, .num x => some (st.upd n (some (.num x)))
      | some n, .bool true => some (st.upd n (some .tru))
      | _, _ => none) CState.init
  | _ => none
def consRaw (s : CState Float) : J Float :=
  .obj ((Name.all.filter fun n => s.active n).map fun n =>
    (n.toString, match s n with | some (.num x) => J.num x | some .tru => J.bool true | none => J.null))

def hklOfRaw (d : J Float) : Option (HklS Float) := do
  pure ⟨← ubOfRaw (← d.get? "ub"), ← consOfRaw (← d.get? "cons")⟩
def hklRaw (s : HklS Float) : J Float := .obj [("ub", ubRaw s.ub), ("cons", consRaw s.cons)]
end SerialWire
