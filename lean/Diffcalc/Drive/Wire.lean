import Diffcalc.Scalar
/-! Line-protocol helpers: floats travel as IEEE-754 bit patterns (16 hex digits), so no decimal parsing is involved. -/
namespace Wire

def hexVal (c : Char) : Option Nat :=
  if '0' ≤ c ∧ c ≤ '9' then some (c.toNat - '0'.toNat)
  else if 'a' ≤ c ∧ c ≤ 'f' then some (c.toNat - 'a'.toNat + 10)
  else if 'A' ≤ c ∧ c ≤ 'F' then some (c.toNat - 'A'.toNat + 10)
  else none

def parseHex (s : String) : Option Nat :=
  if s.isEmpty then none else
  s.foldl (fun acc c => match acc, hexVal c with
    | some a, some v => some (a * 16 + v)
    | _, _ => none) (some 0)

def parseFloat (s : String) : Option Float := (parseHex s).map fun n => Float.ofBits (UInt64.ofNat n)

def hexDigit (n : Nat) : Char := if n < 10 then Char.ofNat (n + '0'.toNat) else Char.ofNat (n - 10 + 'a'.toNat)

def toHex16 (n : Nat) : String := Id.run do
  let mut s := ""
  let mut m := n
  for _ in [0:16] do
    s := String.singleton (hexDigit (m % 16)) ++ s
    m := m / 16
  return s

def showFloat (x : Float) : String := toHex16 x.toBits.toNat

def tokens (line : String) : List String :=
  (line.splitOn " ").filter (fun t => !t.isEmpty) |>.map (fun t => t.trimAscii.toString) |>.filter (fun t => !t.isEmpty)

end Wire
