import Diffcalc.Scalar
/-!
# 3-vectors and 3×3 matrices over a `Scalar`

Plain structures (no Mathlib) so that the same definitions run at `Float` and are reasoned about at `ℝ`.
`inv3` is the adjugate over the determinant: the algebraic definition of `numpy.linalg.inv`
(validated numerically against numpy by the correspondence checks; LAPACK itself is trusted).
-/
open Scalar

structure V3 (α : Type) where
  x : α
  y : α
  z : α

structure M3 (α : Type) where
  a00 : α
  a01 : α
  a02 : α
  a10 : α
  a11 : α
  a12 : α
  a20 : α
  a21 : α
  a22 : α

namespace V3
variable {α : Type} [Scalar α]
def add (u v : V3 α) : V3 α := ⟨u.x + v.x, u.y + v.y, u.z + v.z⟩
def sub (u v : V3 α) : V3 α := ⟨u.x - v.x, u.y - v.y, u.z - v.z⟩
def smul (c : α) (v : V3 α) : V3 α := ⟨c * v.x, c * v.y, c * v.z⟩
def neg (v : V3 α) : V3 α := ⟨-v.x, -v.y, -v.z⟩
def dot (u v : V3 α) : α := u.x * v.x + u.y * v.y + u.z * v.z
def cross (u v : V3 α) : V3 α :=
  ⟨u.y * v.z - u.z * v.y, u.z * v.x - u.x * v.z, u.x * v.y - u.y * v.x⟩
def normSq (v : V3 α) : α := dot v v
def norm (v : V3 α) : α := sqrt (normSq v)
/-- `diffcalc.util.normalised`: `vector * (1.0 / norm)`, the vector itself when the norm is (exactly) zero -/
def normalised (v : V3 α) : V3 α :=
  let n := norm v
  if beq n zero then v else smul (one / n) v
/-- `n / norm(n)` as in `ReferenceVector.get_array` (numpy division: no zero guard) -/
def unit (v : V3 α) : V3 α := let n := norm v; ⟨v.x / n, v.y / n, v.z / n⟩
def ex : V3 α := ⟨one, zero, zero⟩
def ey : V3 α := ⟨zero, one, zero⟩
def ez : V3 α := ⟨zero, zero, one⟩
def get (v : V3 α) : Nat → α | 0 => v.x | 1 => v.y | _ => v.z
end V3

namespace M3
variable {α : Type} [Scalar α]
def id : M3 α := ⟨one, zero, zero, zero, one, zero, zero, zero, one⟩
def mul (a b : M3 α) : M3 α :=
  ⟨a.a00 * b.a00 + a.a01 * b.a10 + a.a02 * b.a20, a.a00 * b.a01 + a.a01 * b.a11 + a.a02 * b.a21, a.a00 * b.a02 + a.a01 * b.a12 + a.a02 * b.a22,
   a.a10 * b.a00 + a.a11 * b.a10 + a.a12 * b.a20, a.a10 * b.a01 + a.a11 * b.a11 + a.a12 * b.a21, a.a10 * b.a02 + a.a11 * b.a12 + a.a12 * b.a22,
   a.a20 * b.a00 + a.a21 * b.a10 + a.a22 * b.a20, a.a20 * b.a01 + a.a21 * b.a11 + a.a22 * b.a21, a.a20 * b.a02 + a.a21 * b.a12 + a.a22 * b.a22⟩
def mulVec (a : M3 α) (v : V3 α) : V3 α :=
  ⟨a.a00 * v.x + a.a01 * v.y + a.a02 * v.z, a.a10 * v.x + a.a11 * v.y + a.a12 * v.z, a.a20 * v.x + a.a21 * v.y + a.a22 * v.z⟩
def transpose (a : M3 α) : M3 α := ⟨a.a00, a.a10, a.a20, a.a01, a.a11, a.a21, a.a02, a.a12, a.a22⟩
def sub (a b : M3 α) : M3 α :=
  ⟨a.a00 - b.a00, a.a01 - b.a01, a.a02 - b.a02, a.a10 - b.a10, a.a11 - b.a11, a.a12 - b.a12, a.a20 - b.a20, a.a21 - b.a21, a.a22 - b.a22⟩
def smul (c : α) (a : M3 α) : M3 α :=
  ⟨c * a.a00, c * a.a01, c * a.a02, c * a.a10, c * a.a11, c * a.a12, c * a.a20, c * a.a21, c * a.a22⟩
/-- numpy `a / c` (element-wise) -/
def sdiv (a : M3 α) (c : α) : M3 α :=
  ⟨a.a00 / c, a.a01 / c, a.a02 / c, a.a10 / c, a.a11 / c, a.a12 / c, a.a20 / c, a.a21 / c, a.a22 / c⟩
def det (a : M3 α) : α :=
  a.a00 * (a.a11 * a.a22 - a.a12 * a.a21) - a.a01 * (a.a10 * a.a22 - a.a12 * a.a20) + a.a02 * (a.a10 * a.a21 - a.a11 * a.a20)
def adj (a : M3 α) : M3 α :=
  ⟨a.a11 * a.a22 - a.a12 * a.a21, a.a02 * a.a21 - a.a01 * a.a22, a.a01 * a.a12 - a.a02 * a.a11,
   a.a12 * a.a20 - a.a10 * a.a22, a.a00 * a.a22 - a.a02 * a.a20, a.a02 * a.a10 - a.a00 * a.a12,
   a.a10 * a.a21 - a.a11 * a.a20, a.a01 * a.a20 - a.a00 * a.a21, a.a00 * a.a11 - a.a01 * a.a10⟩
/-- `numpy.linalg.inv` as adjugate / determinant -/
def inv (a : M3 α) : M3 α := smul (one / det a) (adj a)
def col (a : M3 α) : Nat → V3 α
  | 0 => ⟨a.a00, a.a10, a.a20⟩ | 1 => ⟨a.a01, a.a11, a.a21⟩ | _ => ⟨a.a02, a.a12, a.a22⟩
def ofCols (c0 c1 c2 : V3 α) : M3 α := ⟨c0.x, c1.x, c2.x, c0.y, c1.y, c2.y, c0.z, c1.z, c2.z⟩
def toList (a : M3 α) : List α := [a.a00, a.a01, a.a02, a.a10, a.a11, a.a12, a.a20, a.a21, a.a22]
def ofList : List α → Option (M3 α)
  | [a, b, c, d, e, f, g, h, i] => some ⟨a, b, c, d, e, f, g, h, i⟩
  | _ => none
/-- `util.x_rotation`, `y_rotation`, `z_rotation` are GENERATED from the source (Gen/Rotations.lean);
    these are the right-handed axis rotations of the specification (Rodrigues about e_x, e_y, e_z). -/
def rotX (t : α) : M3 α := ⟨one, zero, zero, zero, cos t, -(sin t), zero, sin t, cos t⟩
def rotY (t : α) : M3 α := ⟨cos t, zero, sin t, zero, one, zero, -(sin t), zero, cos t⟩
def rotZ (t : α) : M3 α := ⟨cos t, -(sin t), zero, sin t, cos t, zero, zero, zero, one⟩
end M3
