import Diffcalc.Linalg
import DiffcalcProofs.RealScalar
import Mathlib.Tactic.LinearCombination
/-! Real-number lemmas about the `V3` / `M3` kit. -/
noncomputable section
open Scalar

@[simp] theorem rs_zero : (Scalar.zero : ℝ) = 0 := by simp [Scalar.zero, Scalar.ofNat]
@[simp] theorem rs_one : (Scalar.one : ℝ) = 1 := by simp [Scalar.one, Scalar.ofNat]
@[simp] theorem rs_two : (Scalar.two : ℝ) = 2 := by simp [Scalar.two, Scalar.ofNat]
@[simp] theorem rs_ofNat (n : Nat) : (Scalar.ofNat n : ℝ) = n := rfl
@[simp] theorem rs_sin (x : ℝ) : Scalar.sin x = Real.sin x := rfl
@[simp] theorem rs_cos (x : ℝ) : Scalar.cos x = Real.cos x := rfl
@[simp] theorem rs_tan (x : ℝ) : Scalar.tan x = Real.tan x := rfl
@[simp] theorem rs_sqrt (x : ℝ) : Scalar.sqrt x = Real.sqrt x := rfl
@[simp] theorem rs_asin (x : ℝ) : Scalar.asin x = Real.arcsin x := rfl
@[simp] theorem rs_acos (x : ℝ) : Scalar.acos x = Real.arccos x := rfl
@[simp] theorem rs_atan (x : ℝ) : Scalar.atan x = Real.arctan x := rfl
@[simp] theorem rs_atan2 (y x : ℝ) : Scalar.atan2 y x = atan2R y x := rfl
@[simp] theorem rs_pi : (Scalar.pi : ℝ) = Real.pi := rfl
@[simp] theorem rs_abs (x : ℝ) : Scalar.abs x = |x| := rfl
@[simp] theorem rs_lt (a b : ℝ) : Scalar.lt a b = decide (a < b) := rfl
@[simp] theorem rs_le (a b : ℝ) : Scalar.le a b = decide (a ≤ b) := rfl
@[simp] theorem rs_beq (a b : ℝ) : Scalar.beq a b = decide (a = b) := rfl

namespace V3
@[ext] theorem ext' {u v : V3 ℝ} (hx : u.x = v.x) (hy : u.y = v.y) (hz : u.z = v.z) : u = v := by
  cases u; cases v; simp_all

theorem normSq_nonneg (v : V3 ℝ) : 0 ≤ normSq v := by
  simp only [normSq, dot]; nlinarith [sq_nonneg v.x, sq_nonneg v.y, sq_nonneg v.z]

theorem norm_nonneg (v : V3 ℝ) : 0 ≤ norm v := by simp [norm, Real.sqrt_nonneg]

theorem norm_pos_iff (v : V3 ℝ) : 0 < norm v ↔ (v.x ≠ 0 ∨ v.y ≠ 0 ∨ v.z ≠ 0) := by
  simp only [norm, rs_sqrt, Real.sqrt_pos, normSq, dot]
  constructor
  · intro h
    by_contra hc
    push Not at hc
    obtain ⟨h1, h2, h3⟩ := hc
    simp [h1, h2, h3] at h
  · rintro (h | h | h) <;> [have := pow_pos (abs_pos.mpr h) 2; have := pow_pos (abs_pos.mpr h) 2; have := pow_pos (abs_pos.mpr h) 2] <;>
      rw [sq_abs] at this <;> nlinarith [sq_nonneg v.x, sq_nonneg v.y, sq_nonneg v.z]

theorem norm_smul_pos (c : ℝ) (hc : 0 < c) (v : V3 ℝ) : norm (smul c v) = c * norm v := by
  simp only [norm, normSq, dot, smul, rs_sqrt]
  have : c * v.x * (c * v.x) + c * v.y * (c * v.y) + c * v.z * (c * v.z) = c^2 * (v.x*v.x + v.y*v.y + v.z*v.z) := by ring
  rw [this, Real.sqrt_mul (by positivity), Real.sqrt_sq hc.le]

/-- scaling a vector by a positive factor does not change its unit vector -/
theorem unit_smul_pos (c : ℝ) (hc : 0 < c) (v : V3 ℝ) (hv : 0 < norm v) : unit (smul c v) = unit v := by
  have hn := norm_smul_pos c hc v
  have hc' : c ≠ 0 := hc.ne'
  have hv' : norm v ≠ 0 := hv.ne'
  ext <;> (simp only [unit]; rw [hn]; simp only [smul]; field_simp)

theorem unit_eq_smul (v : V3 ℝ) (hv : 0 < norm v) : unit v = smul (1 / norm v) v := by
  ext <;> simp only [unit, smul] <;> field_simp

theorem norm_unit (v : V3 ℝ) (hv : 0 < norm v) : norm (unit v) = 1 := by
  rw [unit_eq_smul v hv, norm_smul_pos _ (by positivity)]
  field_simp
end V3

namespace M3
@[ext] theorem ext' {a b : M3 ℝ} (h00 : a.a00 = b.a00) (h01 : a.a01 = b.a01) (h02 : a.a02 = b.a02)
    (h10 : a.a10 = b.a10) (h11 : a.a11 = b.a11) (h12 : a.a12 = b.a12)
    (h20 : a.a20 = b.a20) (h21 : a.a21 = b.a21) (h22 : a.a22 = b.a22) : a = b := by
  cases a; cases b; simp_all

theorem mulVec_mul (a b : M3 ℝ) (v : V3 ℝ) : mulVec (mul a b) v = mulVec a (mulVec b v) := by
  ext <;> simp only [mulVec, mul] <;> ring

theorem mul_assoc' (a b c : M3 ℝ) : mul (mul a b) c = mul a (mul b c) := by
  ext <;> simp only [mul] <;> ring

theorem mul_id (a : M3 ℝ) : mul a id = a := by ext <;> simp [mul, id]
theorem id_mul (a : M3 ℝ) : mul id a = a := by ext <;> simp [mul, id]
theorem mulVec_id (v : V3 ℝ) : mulVec id v = v := by ext <;> simp [mulVec, id]

theorem mulVec_smul (a : M3 ℝ) (c : ℝ) (v : V3 ℝ) : mulVec a (V3.smul c v) = V3.smul c (mulVec a v) := by
  ext <;> simp only [mulVec, V3.smul] <;> ring

theorem inv_mul_cancel (a : M3 ℝ) (h : det a ≠ 0) : mul (inv a) a = id := by
  ext <;> simp only [mul, inv, smul, adj, id, rs_one, rs_zero] <;> field_simp <;> simp only [det] <;> ring

theorem mul_inv_cancel (a : M3 ℝ) (h : det a ≠ 0) : mul a (inv a) = id := by
  ext <;> simp only [mul, inv, smul, adj, id, rs_one, rs_zero] <;> field_simp <;> simp only [det] <;> ring

theorem inv_mulVec_cancel (a : M3 ℝ) (h : det a ≠ 0) (v : V3 ℝ) : mulVec (inv a) (mulVec a v) = v := by
  rw [← mulVec_mul, inv_mul_cancel a h, mulVec_id]

theorem mulVec_inv_cancel (a : M3 ℝ) (h : det a ≠ 0) (v : V3 ℝ) : mulVec a (mulVec (inv a) v) = v := by
  rw [← mulVec_mul, mul_inv_cancel a h, mulVec_id]

theorem det_mul (a b : M3 ℝ) : det (mul a b) = det a * det b := by
  simp only [det, mul]; ring

theorem det_transpose (a : M3 ℝ) : det (transpose a) = det a := by
  simp only [det, transpose]; ring

theorem transpose_mul (a b : M3 ℝ) : transpose (mul a b) = mul (transpose b) (transpose a) := by
  ext <;> simp only [transpose, mul] <;> ring

/-- a proper rotation: orthonormal with determinant +1 -/
def IsRot (r : M3 ℝ) : Prop := mul (transpose r) r = id ∧ det r = 1

theorem IsRot.mul {a b : M3 ℝ} (ha : IsRot a) (hb : IsRot b) : IsRot (M3.mul a b) := by
  refine ⟨?_, by rw [det_mul, ha.2, hb.2]; ring⟩
  rw [transpose_mul, mul_assoc', ← mul_assoc' (transpose a) a b, ha.1, id_mul, hb.1]

theorem isRot_id : IsRot (id : M3 ℝ) := by
  refine ⟨?_, by simp [det, id]⟩
  ext <;> simp [mul, transpose, id]

theorem mulVec_injective (a : M3 ℝ) (h : det a ≠ 0) (v : V3 ℝ) (hv : 0 < V3.norm v) : 0 < V3.norm (mulVec a v) := by
  rw [V3.norm_pos_iff] at hv ⊢
  by_contra hc
  push Not at hc
  have : mulVec a v = ⟨0, 0, 0⟩ := by ext <;> simp [hc.1, hc.2.1, hc.2.2]
  have h2 := inv_mulVec_cancel a h v
  rw [this] at h2
  have : v = ⟨0, 0, 0⟩ := by rw [← h2]; ext <;> simp [mulVec]
  rw [this] at hv
  simp at hv
end M3
end
