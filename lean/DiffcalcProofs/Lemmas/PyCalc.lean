import Diffcalc.Solver.Mode
import DiffcalcProofs.Lemmas.RealLinalg
/-!
# A small calculus for the `Py (List _)` generators of the solver model

* `AllOk P m`  — every element of a successfully produced list satisfies `P` (used for pass-through / soundness);
* `NoLeak m`   — if `m` fails, it fails with `DiffcalcException` (used for C11);
* `OnlyAD m`   — if `m` fails, it fails with `AssertionError` or `DiffcalcException` (what `try … except AssertionError` may see).
Closure lemmas for `pure`, `bind`, `forM'`, `catchAssert`, `List.map`, `mapM`.
-/
open Solver PyOps

variable {β γ : Type}

def AllOk (P : β → Prop) (m : Py (List β)) : Prop := ∀ l, m = .ok l → ∀ x ∈ l, P x
def NoLeak (m : Py β) : Prop := ∀ e, m = .error e → e = .dce
def OnlyAD (m : Py β) : Prop := ∀ e, m = .error e → e = .dce ∨ e = .assertion

theorem allOk_ok {P : β → Prop} {l : List β} (h : ∀ x ∈ l, P x) : AllOk P (.ok l) := by
  intro l' hl; cases hl; exact h
theorem allOk_error {P : β → Prop} (e : PErr) : AllOk P (.error e : Py (List β)) := by
  intro l hl; cases hl
theorem allOk_nil {P : β → Prop} : AllOk P (.ok [] : Py (List β)) := allOk_ok (by simp)

theorem allOk_catchAssert {P : β → Prop} {m : Py (List β)} (h : AllOk P m) : AllOk P (catchAssert m) := by
  unfold catchAssert
  cases m with
  | ok l => exact h
  | error e => cases e <;> first | exact allOk_nil | exact allOk_error _

theorem allOk_bind {P : β → Prop} {m : Py γ} {f : γ → Py (List β)} (h : ∀ a, m = .ok a → AllOk P (f a)) :
    AllOk P (m >>= f) := by
  cases m with
  | ok a => exact h a rfl
  | error e => exact allOk_error e

theorem allOk_forM' {P : β → Prop} (xs : List γ) (f : γ → Py (List β)) (h : ∀ x ∈ xs, AllOk P (f x)) :
    AllOk P (forM' xs f) := by
  induction xs with
  | nil => exact allOk_nil
  | cons x xs ih =>
    unfold forM'
    apply allOk_bind
    intro ys hys
    apply allOk_bind
    intro zs hzs
    intro l hl
    cases hl
    intro y hy
    rcases List.mem_append.mp hy with h1 | h1
    · exact h x (by simp) ys hys y h1
    · exact ih (fun x' hx' => h x' (by simp [hx'])) zs hzs y h1

theorem allOk_map {P : β → Prop} {Q : γ → Prop} {m : Py (List γ)} (g : γ → β) (hm : AllOk Q m)
    (hg : ∀ x, Q x → P (g x)) : AllOk P (m >>= fun l => pure (l.map g)) := by
  apply allOk_bind
  intro l hl
  apply allOk_ok
  intro y hy
  obtain ⟨x, hx, rfl⟩ := List.mem_map.mp hy
  exact hg x (hm l hl x hx)

theorem allOk_mono {P Q : β → Prop} {m : Py (List β)} (h : AllOk P m) (hpq : ∀ x, P x → Q x) : AllOk Q m :=
  fun l hl x hx => hpq x (h l hl x hx)

/-! ## errors -/

theorem noLeak_ok (a : β) : NoLeak (.ok a : Py β) := by intro e h; cases h
theorem noLeak_dce : NoLeak (.error .dce : Py β) := by intro e h; cases h; rfl
theorem onlyAD_ok (a : β) : OnlyAD (.ok a : Py β) := by intro e h; cases h
theorem onlyAD_dce : OnlyAD (.error .dce : Py β) := by intro e h; cases h; exact Or.inl rfl
theorem onlyAD_assert : OnlyAD (.error .assertion : Py β) := by intro e h; cases h; exact Or.inr rfl
theorem NoLeak.onlyAD {m : Py β} (h : NoLeak m) : OnlyAD m := fun e he => Or.inl (h e he)

theorem noLeak_bind {m : Py γ} {f : γ → Py β} (hm : NoLeak m) (hf : ∀ a, m = .ok a → NoLeak (f a)) : NoLeak (m >>= f) := by
  cases m with
  | ok a => exact hf a rfl
  | error e => intro e' he'; cases he'; exact hm e rfl

theorem onlyAD_bind {m : Py γ} {f : γ → Py β} (hm : OnlyAD m) (hf : ∀ a, m = .ok a → OnlyAD (f a)) : OnlyAD (m >>= f) := by
  cases m with
  | ok a => exact hf a rfl
  | error e => intro e' he'; cases he'; exact hm e rfl

theorem noLeak_catchAssert {m : Py (List β)} (h : OnlyAD m) : NoLeak (catchAssert m) := by
  unfold catchAssert
  cases m with
  | ok l => exact noLeak_ok l
  | error e =>
    rcases h e rfl with rfl | rfl
    · exact noLeak_dce
    · exact noLeak_ok _

theorem noLeak_forM' (xs : List γ) (f : γ → Py (List β)) (h : ∀ x ∈ xs, NoLeak (f x)) : NoLeak (forM' xs f) := by
  induction xs with
  | nil => exact noLeak_ok _
  | cons x xs ih =>
    unfold forM'
    apply noLeak_bind (h x (by simp))
    intro ys _
    apply noLeak_bind (ih (fun x' hx' => h x' (by simp [hx'])))
    intro zs _
    exact noLeak_ok _

theorem onlyAD_forM' (xs : List γ) (f : γ → Py (List β)) (h : ∀ x ∈ xs, OnlyAD (f x)) : OnlyAD (forM' xs f) := by
  induction xs with
  | nil => exact onlyAD_ok _
  | cons x xs ih =>
    unfold forM'
    apply onlyAD_bind (h x (by simp))
    intro ys _
    apply onlyAD_bind (ih (fun x' hx' => h x' (by simp [hx'])))
    intro zs _
    exact onlyAD_ok _

theorem noLeak_mapM {f : γ → Py β} (h : ∀ x, NoLeak (f x)) : ∀ xs : List γ, NoLeak (xs.mapM f)
  | [] => by simp only [List.mapM_nil]; exact noLeak_ok _
  | x :: xs => by
    simp only [List.mapM_cons]
    apply noLeak_bind (h x)
    intro y _
    apply noLeak_bind (noLeak_mapM h xs)
    intro ys _
    exact noLeak_ok _

theorem bind_ok_inv {m : Py γ} {f : γ → Py β} {b : β} (h : (m >>= f) = .ok b) : ∃ a, m = .ok a ∧ f a = .ok b := by
  cases m with
  | ok a => exact ⟨a, rfl, h⟩
  | error e => cases h

/-! ## the real-number reading of the partial operations -/

theorem bound_cases (x : ℝ) : (∃ y, bound x = .ok y ∧ |y| ≤ 1) ∨ bound x = .error .assertion := by
  unfold bound
  by_cases h1 : Scalar.lt ((Scalar.one : ℝ) + Scalar.SMALL) (Scalar.abs x) = true
  · right; rw [if_pos h1]
  · left
    rw [if_neg h1]
    by_cases h2 : Scalar.lt (Scalar.one : ℝ) x = true
    · exact ⟨Scalar.one, by rw [if_pos h2], by simp⟩
    · rw [if_neg h2]
      by_cases h3 : Scalar.lt x (-(Scalar.one : ℝ)) = true
      · exact ⟨-Scalar.one, by rw [if_pos h3], by simp⟩
      · refine ⟨x, by rw [if_neg h3], ?_⟩
        simp only [rs_lt, rs_one, decide_eq_true_eq, not_lt] at h2 h3
        exact abs_le.mpr ⟨h3, h2⟩

theorem onlyAD_bound (x : ℝ) : OnlyAD (bound x) := by
  rcases bound_cases x with ⟨y, hy, _⟩ | h
  · rw [hy]; exact onlyAD_ok y
  · rw [h]; exact onlyAD_assert

theorem pyAsin_ok {y : ℝ} (h : |y| ≤ 1) : pyAsin y = .ok (Real.arcsin y) := by
  unfold pyAsin
  have : Scalar.lt (Scalar.one : ℝ) (Scalar.abs y) = false := by
    simp only [rs_lt, rs_one, rs_abs, decide_eq_false_iff_not, not_lt]; exact h
  rw [if_neg (by rw [this]; simp)]; rfl
theorem pyAcos_ok {y : ℝ} (h : |y| ≤ 1) : pyAcos y = .ok (Real.arccos y) := by
  unfold pyAcos
  have : Scalar.lt (Scalar.one : ℝ) (Scalar.abs y) = false := by
    simp only [rs_lt, rs_one, rs_abs, decide_eq_false_iff_not, not_lt]; exact h
  rw [if_neg (by rw [this]; simp)]; rfl
theorem pySqrt_ok {y : ℝ} (h : 0 ≤ y) : pySqrt y = .ok (Real.sqrt y) := by
  unfold pySqrt
  have : Scalar.lt y (Scalar.zero : ℝ) = false := by
    simp only [rs_lt, rs_zero, decide_eq_false_iff_not, not_lt]; exact h
  rw [if_neg (by rw [this]; simp)]; rfl

/-- `asin(bound(x))` / `acos(bound(x))`: the only possible failure is the AssertionError of `bound` -/
theorem onlyAD_bound_asin (x : ℝ) : OnlyAD (bound x >>= pyAsin) := by
  rcases bound_cases x with ⟨y, hy, hle⟩ | h
  · rw [hy]; show OnlyAD (pyAsin y); rw [pyAsin_ok hle]; exact onlyAD_ok _
  · rw [h]; exact onlyAD_assert
theorem onlyAD_bound_acos (x : ℝ) : OnlyAD (bound x >>= pyAcos) := by
  rcases bound_cases x with ⟨y, hy, hle⟩ | h
  · rw [hy]; show OnlyAD (pyAcos y); rw [pyAcos_ok hle]; exact onlyAD_ok _
  · rw [h]; exact onlyAD_assert
