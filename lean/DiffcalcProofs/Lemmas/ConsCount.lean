import Diffcalc.Model.Cons
import Mathlib.Tactic.Linarith
import Mathlib.Tactic.Cases
import Mathlib.Data.List.Nodup
/-! Counting lemmas for the constraint state: pointwise update of a duplicate-free name list. -/
open CState

variable {α : Type}

/-- changing a predicate at one point of a duplicate-free list changes the count by that point only -/
theorem filter_length_update {β : Type} [DecidableEq β] (l : List β) (hn : l.Nodup) (n : β)
    (p p' : β → Bool) (h : ∀ m, m ≠ n → p' m = p m) :
    (l.filter p').length + (if n ∈ l ∧ p n then 1 else 0) = (l.filter p).length + (if n ∈ l ∧ p' n then 1 else 0) := by
  induction l with
  | nil => simp
  | cons x xs ih =>
    have hx : x ∉ xs := (List.nodup_cons.mp hn).1
    have hxs := (List.nodup_cons.mp hn).2
    have ih := ih hxs
    by_cases hxn : x = n
    · subst hxn
      have e : (xs.filter p').length = (xs.filter p).length := by
        congr 1; apply List.filter_congr; intro m hm; exact h m (by rintro rfl; exact hx hm)
      simp only [hx, false_and, if_false, add_zero] at ih
      simp only [List.filter_cons, List.mem_cons, true_or, true_and]
      cases hp : p x <;> cases hp' : p' x <;> simp [e]
    · have hpx : p' x = p x := h x hxn
      have hne : n ≠ x := fun e => hxn e.symm
      simp only [List.filter_cons, hpx, List.mem_cons, hne, false_or]
      cases hp : p x <;> simp <;> omega

theorem names_nodup : Name.all.Nodup := by decide
theorem mem_all (n : Name) : n ∈ Name.all := by cases n <;> decide

theorem count_split (s : CState α) : s.count = s.countCat .det + s.countCat .ref + s.countCat .samp := by
  unfold count countCat
  have : ∀ l : List Name, (l.filter fun n => s.active n).length =
      (l.filter fun n => s.active n && n.cat == Cat.det).length + (l.filter fun n => s.active n && n.cat == Cat.ref).length
      + (l.filter fun n => s.active n && n.cat == Cat.samp).length := by
    intro l
    induction l with
    | nil => simp
    | cons x xs ih =>
      simp only [List.filter_cons]
      cases hx : s.active x <;> cases hc : x.cat <;> simp [ih] <;> omega
  exact this _

theorem count_upd (s : CState α) (n : Name) (v : Option (Val α)) :
    (s.upd n v).count + (if s.active n then 1 else 0) = s.count + (if v.isSome then 1 else 0) := by
  have := filter_length_update Name.all names_nodup n (fun m => s.active m) (fun m => (s.upd n v).active m)
    (by intro m hm; simp [active, upd, hm])
  simp only [mem_all, true_and] at this
  simpa [count, active, upd] using this

theorem countCat_upd (s : CState α) (n : Name) (v : Option (Val α)) (c : Cat) :
    (s.upd n v).countCat c + (if s.active n && n.cat == c then 1 else 0)
      = s.countCat c + (if v.isSome && n.cat == c then 1 else 0) := by
  have := filter_length_update Name.all names_nodup n (fun m => s.active m && m.cat == c)
    (fun m => (s.upd n v).active m && m.cat == c) (by intro m hm; simp [active, upd, hm])
  simp only [mem_all, true_and] at this
  simpa [countCat, active, upd] using this

theorem countCat_clearCat (s : CState α) (c c' : Cat) :
    (clearCat s c).countCat c' = if c' = c then 0 else s.countCat c' := by
  unfold countCat clearCat active
  by_cases h : c' = c
  · subst h
    simp only [if_true]
    rw [List.length_eq_zero_iff, List.filter_eq_nil_iff]
    intro m _
    by_cases hm : m.cat = c' <;> simp [hm]
  · simp only [h, if_false]
    congr 1
    apply List.filter_congr
    intro m _
    by_cases hm : m.cat = c
    · have : (m.cat == c') = false := by simp [hm]; exact fun e => h e.symm
      simp [this]
    · simp [hm]

theorem count_init : (CState.init : CState α).count = 0 := by
  simp [count, init, active]
theorem countCat_init (c : Cat) : (CState.init : CState α).countCat c = 0 := by
  simp [countCat, init, active]
