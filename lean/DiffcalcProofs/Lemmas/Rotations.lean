import Diffcalc.Gen.Rotations
import Diffcalc.Model.Miscut
import DiffcalcProofs.Lemmas.RealLinalg
/-!
# Axis rotations: the generated constructors against the specification

`M3.rotX/rotY/rotZ` are the right-handed rotations about `e_x, e_y, e_z` (they *are* the Rodrigues matrices about those
axes: `rotX_eq_rodrigues` …).  The constructors GENERATED from `util.py` / `geometry.py` are shown equal to them,
so a transposed matrix or a flipped axis sense in the source breaks these lemmas.
-/
noncomputable section
open M3

theorem gen_x_rotation (t : ℝ) : Gen.x_rotation t = rotX t := by
  ext <;> simp [Gen.x_rotation, rotX]
theorem gen_y_rotation (t : ℝ) : Gen.y_rotation t = rotY t := by
  ext <;> simp [Gen.y_rotation, rotY]
theorem gen_z_rotation (t : ℝ) : Gen.z_rotation t = rotZ t := by
  ext <;> simp [Gen.z_rotation, rotZ]

/-- axis senses of You (1999): mu, nu right-handed about x; chi right-handed about y; delta, eta, phi left-handed about z -/
theorem gen_rot_senses (t : ℝ) :
    Gen.rot_MU t = rotX t ∧ Gen.rot_NU t = rotX t ∧ Gen.rot_CHI t = rotY t ∧
    Gen.rot_DELTA t = rotZ (-t) ∧ Gen.rot_ETA t = rotZ (-t) ∧ Gen.rot_PHI t = rotZ (-t) := by
  simp only [Gen.rot_MU, Gen.rot_NU, Gen.rot_CHI, Gen.rot_DELTA, Gen.rot_ETA, Gen.rot_PHI,
    gen_x_rotation, gen_y_rotation, gen_z_rotation, and_self]

theorem norm_ex : V3.norm (V3.ex : V3 ℝ) = 1 := by simp [V3.norm, V3.normSq, V3.dot, V3.ex]
theorem norm_ey : V3.norm (V3.ey : V3 ℝ) = 1 := by simp [V3.norm, V3.normSq, V3.dot, V3.ey]
theorem norm_ez : V3.norm (V3.ez : V3 ℝ) = 1 := by simp [V3.norm, V3.normSq, V3.dot, V3.ez]

/-- the specification rotations are the right-handed Rodrigues rotations about the coordinate axes -/
theorem rotX_eq_rodrigues (t : ℝ) : rotX t = rodrigues V3.ex t := by
  ext <;> simp only [rotX, rodrigues, norm_ex] <;> simp [V3.ex]
theorem rotY_eq_rodrigues (t : ℝ) : rotY t = rodrigues V3.ey t := by
  ext <;> simp only [rotY, rodrigues, norm_ey] <;> simp [V3.ey]
theorem rotZ_eq_rodrigues (t : ℝ) : rotZ t = rodrigues V3.ez t := by
  ext <;> simp only [rotZ, rodrigues, norm_ez] <;> simp [V3.ez]

theorem isRot_rotX (t : ℝ) : IsRot (rotX t) := by
  constructor
  · ext <;> simp [M3.mul, M3.transpose, rotX, M3.id] <;> nlinarith [Real.sin_sq_add_cos_sq t]
  · simp [M3.det, rotX]; nlinarith [Real.sin_sq_add_cos_sq t]
theorem isRot_rotY (t : ℝ) : IsRot (rotY t) := by
  constructor
  · ext <;> simp [M3.mul, M3.transpose, rotY, M3.id] <;> nlinarith [Real.sin_sq_add_cos_sq t]
  · simp [M3.det, rotY]; nlinarith [Real.sin_sq_add_cos_sq t]
theorem isRot_rotZ (t : ℝ) : IsRot (rotZ t) := by
  constructor
  · ext <;> simp [M3.mul, M3.transpose, rotZ, M3.id] <;> nlinarith [Real.sin_sq_add_cos_sq t]
  · simp [M3.det, rotZ]; nlinarith [Real.sin_sq_add_cos_sq t]

/-- `numpy.linalg.inv` (adjugate / determinant) of an axis rotation is its transpose -/
theorem inv_rotX (t : ℝ) : M3.inv (rotX t) = M3.transpose (rotX t) := by
  have h : Real.cos t * Real.cos t + Real.sin t * Real.sin t = 1 := by nlinarith [Real.sin_sq_add_cos_sq t]
  ext <;> simp [M3.inv, M3.smul, M3.adj, M3.det, M3.transpose, rotX, h]
theorem inv_rotY (t : ℝ) : M3.inv (rotY t) = M3.transpose (rotY t) := by
  have h : Real.cos t * Real.cos t + Real.sin t * Real.sin t = 1 := by nlinarith [Real.sin_sq_add_cos_sq t]
  ext <;> simp [M3.inv, M3.smul, M3.adj, M3.det, M3.transpose, rotY, h]
theorem inv_rotZ (t : ℝ) : M3.inv (rotZ t) = M3.transpose (rotZ t) := by
  have h : Real.cos t * Real.cos t + Real.sin t * Real.sin t = 1 := by nlinarith [Real.sin_sq_add_cos_sq t]
  ext <;> simp [M3.inv, M3.smul, M3.adj, M3.det, M3.transpose, rotZ, h]

/-- adding a full turn changes nothing -/
theorem rot_periodic (t : ℝ) :
    rotX (t + 2 * Real.pi) = rotX t ∧ rotY (t + 2 * Real.pi) = rotY t ∧ rotZ (t + 2 * Real.pi) = rotZ t := by
  refine ⟨?_, ?_, ?_⟩ <;> ext <;> simp [rotX, rotY, rotZ]

theorem rotZ_neg_periodic (t : ℝ) : rotZ (-(t + 2 * Real.pi)) = rotZ (-t) := by
  have : -(t + 2 * Real.pi) = -t - 2 * Real.pi := by ring
  rw [this]
  ext <;> simp [rotZ, Real.cos_sub_two_pi, Real.sin_sub_two_pi]
end
