import Diffcalc.Model.RefList
import Mathlib.Tactic.Linarith
import Mathlib.Data.List.Basic
/-!
# C18 — reflection and orientation lists are faithful 1-based, tag-addressable sequences
(and the list part of C17: a rejected edit changes nothing)

Model: `Diffcalc/Model/RefList.lean` (hand, tie H: random histories through `UBCalculation`'s wrappers on both
lists, full list compared after every operation).  The statements are the plain-sequence laws, for every list
and every record type.
-/
namespace C18

open RefList

variable {ρ : Type} (tagOf : ρ → Option String)

/-! ## addressing -/

theorem findIdx?_spec (p : ρ → Bool) : ∀ (l : List ρ) (k : Nat), findIdx? p l = some k →
    k < l.length ∧ (∃ r, l[k]? = some r ∧ p r = true) ∧ ∀ j, j < k → ∀ r, l[j]? = some r → p r = false
  | [], k, h => by simp [findIdx?] at h
  | x :: xs, k, h => by
    unfold findIdx? at h
    by_cases hp : p x = true
    · simp only [hp, if_true, Option.some.injEq] at h
      subst h
      exact ⟨by simp, ⟨x, by simp, hp⟩, fun j hj => absurd hj (Nat.not_lt_zero _)⟩
    · simp only [hp, Bool.false_eq_true, if_false, Option.map_eq_some_iff] at h
      obtain ⟨k', hk', rfl⟩ := h
      obtain ⟨h1, ⟨r, hr, hpr⟩, h3⟩ := findIdx?_spec p xs k' hk'
      refine ⟨by simp; omega, ⟨r, by simpa using hr, hpr⟩, ?_⟩
      intro j hj r' hr'
      cases j with
      | zero => simp at hr'; subst hr'; simpa using hp
      | succ j' => exact h3 j' (by omega) r' (by simpa using hr')

theorem findIdx?_none (p : ρ → Bool) : ∀ (l : List ρ), findIdx? p l = none → ∀ r ∈ l, p r = false
  | [], _, r, hr => by cases hr
  | x :: xs, h, r, hr => by
    unfold findIdx? at h
    by_cases hp : p x = true
    · simp [hp] at h
    · simp only [hp, Bool.false_eq_true, if_false, Option.map_eq_none_iff] at h
      cases hr with
      | head => simpa using hp
      | tail _ hr' => exact findIdx?_none p xs h r hr'

/-- a 1-based index in range addresses position `i - 1` -/
theorem locate_num (l : List ρ) (i : Nat) (h1 : 1 ≤ i) (h2 : i ≤ l.length) :
    locate tagOf l (.num i) = .ok (i - 1) := by
  simp only [locate, resolve, pyPos]
  have : (0:Int) ≤ (i:Int) - 1 := by omega
  have h3 : ((i:Int) - 1) < (l.length : Int) := by omega
  simp only [this, h3, if_true]
  congr 1
  omega

/-- an index above `n` raises IndexError -/
theorem locate_above (l : List ρ) (i : Nat) (h : l.length < i) :
    locate tagOf l (.num i) = .error .index := by
  simp only [locate, resolve, pyPos]
  have : (0:Int) ≤ (i:Int) - 1 := by omega
  have h3 : ¬ ((i:Int) - 1) < (l.length : Int) := by omega
  rw [if_pos this, if_neg h3]

/-- a tag addresses the first record carrying it; an unknown tag raises ValueError -/
theorem locate_tag (l : List ρ) (t : String) :
    (∀ k, locate tagOf l (.tag t) = .ok k →
        (∃ r, l[k]? = some r ∧ tagOf r = some t) ∧ (∀ j, j < k → ∀ r, l[j]? = some r → tagOf r ≠ some t)
        ∧ locate tagOf l (.num ((k:Int) + 1)) = .ok k) ∧
    ((∀ r ∈ l, tagOf r ≠ some t) → locate tagOf l (.tag t) = .error .value) ∧
    (locate tagOf l (.tag t) ≠ .error .index) := by
  refine ⟨?_, ?_, ?_⟩
  · intro k hk
    simp only [locate, resolve] at hk
    cases hf : findIdx? (fun r => tagOf r == some t) l with
    | none => simp [hf] at hk
    | some k' =>
      obtain ⟨hlt, ⟨r, hr, hp⟩, hfirst⟩ := findIdx?_spec _ l k' hf
      simp only [hf, pyPos] at hk
      have h0 : (0:Int) ≤ (k':Int) := by omega
      have h1 : (k':Int) < (l.length:Int) := by omega
      simp only [h0, h1, if_true, Except.ok.injEq, Int.toNat_natCast] at hk
      subst hk
      refine ⟨⟨r, hr, by simpa using hp⟩, ?_, ?_⟩
      · intro j hj r' hr'
        have := hfirst j hj r' hr'
        simpa using this
      · simp only [locate, resolve, pyPos]
        have e : ((k':Int) + 1 - 1) = (k':Int) := by omega
        simp [e, h0, h1]
  · intro hall
    simp only [locate, resolve]
    cases hf : findIdx? (fun r => tagOf r == some t) l with
    | none => rfl
    | some k' =>
      obtain ⟨_, ⟨r, hr, hp⟩, _⟩ := findIdx?_spec _ l k' hf
      have hm : r ∈ l := List.mem_of_getElem? hr
      exact absurd (by simpa using hp) (hall r hm)
  · simp only [locate, resolve]
    cases hf : findIdx? (fun r => tagOf r == some t) l with
    | none => simp
    | some k' =>
      obtain ⟨hlt, _, _⟩ := findIdx?_spec _ l k' hf
      have h0 : (0:Int) ≤ (k':Int) := by omega
      have h1 : (k':Int) < (l.length:Int) := by omega
      simp [pyPos, h0, h1]

theorem locate_lt (l : List ρ) (ix : Idx) (p : Nat) (h : locate tagOf l ix = .ok p) : p < l.length := by
  simp only [locate] at h
  cases hr : resolve tagOf l ix with
  | error e => simp [hr] at h
  | ok k =>
    simp only [hr, pyPos] at h
    by_cases h0 : (0:Int) ≤ k
    · by_cases h1 : k < (l.length:Int)
      · simp only [h0, h1, if_true, Except.ok.injEq] at h; omega
      · simp [h0, h1] at h
    · by_cases h2 : -(l.length:Int) ≤ k
      · simp only [h0, h2, if_false, if_true, Except.ok.injEq] at h; omega
      · simp [h0, h2] at h

/-! ## the sequence laws -/

/-- `add` appends: length grows by one, the new record is last, earlier records are untouched -/
theorem add_appends (l : List ρ) (r : ρ) :
    (step tagOf l (.add r)).1 = l ++ [r] ∧
    (step tagOf (l ++ [r]) (.get (.num (l.length + 1 : Nat)))).2 = .record r := by
  refine ⟨rfl, ?_⟩
  have := locate_num tagOf (l ++ [r]) (l.length + 1) (by omega) (by simp)
  simp only [step, this]
  simp

/-- `get` returns exactly the stored record at the addressed position and does not change the list -/
theorem get_returns (l : List ρ) (ix : Idx) (p : Nat) (h : locate tagOf l ix = .ok p) :
    ∃ r, l[p]? = some r ∧ step tagOf l (.get ix) = (l, .record r) := by
  have hp := locate_lt tagOf l ix p h
  refine ⟨l[p], by simp [hp], ?_⟩
  simp [step, h, hp]

/-- `edit` replaces in place -/
theorem edit_replaces (l : List ρ) (ix : Idx) (r : ρ) (p : Nat) (h : locate tagOf l ix = .ok p) :
    step tagOf l (.edit ix r) = (l.set p r, .unit) ∧ (l.set p r).length = l.length ∧
    (l.set p r)[p]? = some r ∧ ∀ j, j ≠ p → (l.set p r)[j]? = l[j]? := by
  have hp := locate_lt tagOf l ix p h
  refine ⟨by simp [step, h], by simp, by simp [hp], ?_⟩
  intro j hj
  simp [List.getElem?_set, Ne.symm hj]

/-- `del` closes the gap -/
theorem del_closes_gap (l : List ρ) (ix : Idx) (p : Nat) (h : locate tagOf l ix = .ok p) :
    step tagOf l (.del ix) = (l.eraseIdx p, .unit) ∧ (l.eraseIdx p).length + 1 = l.length ∧
    (∀ j, j < p → (l.eraseIdx p)[j]? = l[j]?) ∧ (∀ j, p ≤ j → (l.eraseIdx p)[j]? = l[j + 1]?) := by
  have hp := locate_lt tagOf l ix p h
  refine ⟨by simp [step, h], ?_, ?_, ?_⟩
  · rw [List.length_eraseIdx]; simp [hp]; omega
  · intro j hj; simp [List.getElem?_eraseIdx, hj]
  · intro j hj
    have : ¬ j < p := by omega
    simp [List.getElem?_eraseIdx, this]

/-- `swap` exchanges two records and nothing else -/
theorem swap_exchanges (l : List ρ) (i j : Idx) (p q : Nat)
    (hi : locate tagOf l i = .ok p) (hj : locate tagOf l j = .ok q) :
    ∃ x y, l[p]? = some x ∧ l[q]? = some y ∧
      step tagOf l (.swap i j) = ((l.set p y).set q x, .unit) ∧
      ((l.set p y).set q x).length = l.length ∧
      ((l.set p y).set q x)[q]? = some x ∧ (p ≠ q → ((l.set p y).set q x)[p]? = some y) ∧
      ∀ k, k ≠ p → k ≠ q → ((l.set p y).set q x)[k]? = l[k]? := by
  have hp := locate_lt tagOf l i p hi
  have hq := locate_lt tagOf l j q hj
  refine ⟨l[p], l[q], by simp [hp], by simp [hq], ?_, by simp, by simp [hq], ?_, ?_⟩
  · simp only [locate] at hi hj
    cases hri : resolve tagOf l i with
    | error e => simp [hri] at hi
    | ok a =>
      cases hrj : resolve tagOf l j with
      | error e => simp [hrj] at hj
      | ok b =>
        simp only [hri] at hi
        simp only [hrj] at hj
        cases hpa : pyPos l.length a with
        | none => simp [hpa] at hi
        | some p' =>
          cases hpb : pyPos l.length b with
          | none => simp [hpb] at hj
          | some q' =>
            simp only [hpa, Except.ok.injEq] at hi
            simp only [hpb, Except.ok.injEq] at hj
            subst hi hj
            simp [step, hri, hrj, hpa, hpb, hp, hq]
  · intro hne
    simp [List.getElem?_set, hne, hp, Ne.symm hne]
  · intro k hkp hkq
    simp [List.getElem?_set, Ne.symm hkp, Ne.symm hkq]

/-- `len` and the tag-to-number lookup -/
theorem len_tagNum (l : List ρ) (t : String) :
    step tagOf l .len = (l, .nat l.length) ∧
    (∀ k, locate tagOf l (.tag t) = .ok k → step tagOf l (.tagNum t) = (l, .nat (k + 1))) ∧
    ((∀ r ∈ l, tagOf r ≠ some t) → step tagOf l (.tagNum t) = (l, .err .value)) := by
  refine ⟨rfl, ?_, ?_⟩
  · intro k hk
    simp only [locate, resolve] at hk
    cases hf : findIdx? (fun r => tagOf r == some t) l with
    | none => simp [hf] at hk
    | some k' =>
      obtain ⟨hlt, _, _⟩ := findIdx?_spec _ l k' hf
      have h0 : (0:Int) ≤ (k':Int) := by omega
      have h1 : (k':Int) < (l.length:Int) := by omega
      simp only [hf, pyPos, h0, h1, if_true, Except.ok.injEq, Int.toNat_natCast] at hk
      subst hk
      simp [step, hf]
  · intro hall
    cases hf : findIdx? (fun r => tagOf r == some t) l with
    | none => simp [step, hf]
    | some k' =>
      obtain ⟨_, ⟨r, hr, hp⟩, _⟩ := findIdx?_spec _ l k' hf
      exact absurd (by simpa using hp) (hall r (List.mem_of_getElem? hr))

/-! ## errors leave the list unchanged (C18 last clause, C17 for list edits) -/

theorem step_error_unchanged (l : List ρ) (op : Op ρ) (e : LErr)
    (h : (step tagOf l op).2 = .err e) : (step tagOf l op).1 = l := by
  cases op with
  | add r => simp [step] at h
  | edit ix r => simp only [step] at h ⊢; split <;> simp_all
  | get ix => simp only [step] at h ⊢; split <;> (try split) <;> simp_all
  | del ix => simp only [step] at h ⊢; split <;> simp_all
  | swap i j => simp only [step] at h ⊢; (repeat' split) <;> simp_all
  | len => rfl
  | tagNum t => simp only [step] at h ⊢; split <;> simp_all

/-- an index above `n` raises IndexError, an unknown tag raises ValueError — for every addressing operation -/
theorem bad_address (l : List ρ) (r : ρ) :
    (∀ i : Nat, l.length < i →
      (step tagOf l (.get (.num i))).2 = .err .index ∧ (step tagOf l (.edit (.num i) r)).2 = .err .index ∧
      (step tagOf l (.del (.num i))).2 = .err .index) ∧
    (∀ t, (∀ r ∈ l, tagOf r ≠ some t) →
      (step tagOf l (.get (.tag t))).2 = .err .value ∧ (step tagOf l (.edit (.tag t) r)).2 = .err .value ∧
      (step tagOf l (.del (.tag t))).2 = .err .value) := by
  constructor
  · intro i hi
    have := locate_above tagOf l i hi
    simp [step, this]
  · intro t ht
    have := (locate_tag tagOf l t).2.1 ht
    simp [step, this]

/-- the records offered to a history by `add` / `edit` -/
def inputs : List (Op ρ) → List ρ
  | [] => []
  | .add r :: ops => r :: inputs ops
  | .edit _ r :: ops => r :: inputs ops
  | _ :: ops => inputs ops

theorem step_mem (l : List ρ) (op : Op ρ) (r : ρ) (h : r ∈ (step tagOf l op).1) : r ∈ l ∨ r ∈ inputs [op] := by
  cases op with
  | add r' => simp only [step, List.mem_append, List.mem_singleton] at h; simpa [inputs] using h
  | edit ix r' =>
    simp only [step] at h
    split at h
    · rcases List.mem_or_eq_of_mem_set h with h | h
      · exact Or.inl h
      · right; simp [inputs, h]
    · exact Or.inl h
  | get ix => simp only [step] at h; (repeat' split at h) <;> exact Or.inl h
  | del ix =>
    simp only [step] at h
    split at h
    · exact Or.inl (List.mem_of_mem_eraseIdx h)
    · exact Or.inl h
  | swap i j =>
    simp only [step] at h
    (repeat' split at h) <;> (try exact Or.inl h)
    rename_i x y hx hy
    rcases List.mem_or_eq_of_mem_set h with h | h
    · rcases List.mem_or_eq_of_mem_set h with h | h
      · exact Or.inl h
      · subst h; exact Or.inl (List.mem_of_getElem? hy)
    · subst h; exact Or.inl (List.mem_of_getElem? hx)
  | len => exact Or.inl h
  | tagNum t => simp only [step] at h; split at h <;> exact Or.inl h

theorem inputs_cons (op : Op ρ) (ops : List (Op ρ)) (r : ρ) :
    r ∈ inputs (op :: ops) ↔ r ∈ inputs [op] ∨ r ∈ inputs ops := by
  cases op <;> simp [inputs]

/-- **records come back as stored**, lifted to every finite history: every record of the final list is a record
    of the initial list or one supplied by an `add` / `edit` of the history — nothing is fabricated or altered -/
theorem history_records (ops : List (Op ρ)) (l : List ρ) (r : ρ)
    (h : r ∈ ops.foldl (fun st op => (step tagOf st op).1) l) : r ∈ l ∨ r ∈ inputs ops := by
  induction ops generalizing l with
  | nil => exact Or.inl h
  | cons op ops ih =>
    rcases ih _ h with h1 | h1
    · rcases step_mem tagOf l op r h1 with h2 | h2
      · exact Or.inl h2
      · exact Or.inr ((inputs_cons op ops r).mpr (Or.inl h2))
    · exact Or.inr ((inputs_cons op ops r).mpr (Or.inr h1))

/-- a history in which every operation fails leaves the list exactly as it was -/
theorem history_all_rejected (ops : List (Op ρ)) (l : List ρ)
    (h : ∀ op ∈ ops, ∀ l', ∃ e, (step tagOf l' op).2 = .err e) :
    ops.foldl (fun st op => (step tagOf st op).1) l = l := by
  induction ops generalizing l with
  | nil => rfl
  | cons op ops ih =>
    obtain ⟨e, he⟩ := h op (by simp) l
    simp only [List.foldl_cons]
    rw [step_error_unchanged tagOf l op e he]
    exact ih l (fun op' hop' => h op' (by simp [hop']))

/-- non-vacuity: duplicate tags, the first one is addressed -/
example : (step (fun (r : String × Nat) => some r.1) [("a", 1), ("b", 2), ("a", 3)] (.get (.tag "a"))) =
    ([("a", 1), ("b", 2), ("a", 3)], .record ("a", 1)) := by
  simp [step, locate, resolve, RefList.findIdx?, pyPos]

end C18
