import Diffcalc.Model.UBState
import DiffcalcProofs.Lemmas.RealLinalg
/-!
# C08 — U stays a proper rotation and UB = U·B through every history of UB operations
(and the UB part of C17: a rejected update changes nothing)

Model: `Diffcalc/Model/UBState.lean` (hand, tie H: random histories through the real `UBCalculation`, `U`/`UB`
compared after every operation).  Real-number reading.
-/
namespace C08
open UBState M3
noncomputable section

/-- the invariant of the property: whenever `U` is defined it is a proper rotation, and whenever a lattice and
    `U` are both defined the stored `UB` equals `U·B` of the *current* lattice -/
def Inv (s : UBState ℝ) : Prop :=
  (∀ u, s.U = some u → IsRot u) ∧ (∀ b u, s.B = some b → s.U = some u → s.UB = some (M3.mul u b))

/-- "rotation-valued inputs": what the property assumes about the arguments of each operation -/
def ValidOp (s : UBState ℝ) : UOp ℝ → Prop
  | .setU (some m) => IsRot m
  | .setUb (some m) => match s.B with | some b => IsRot (M3.mul m (M3.inv b)) | none => True
  | .setMiscut rot _ => IsRot rot
  | .calcUb (some u) => IsRot u
  | .refineUb _ (some r) => IsRot r
  | .fitUb _ (some u) => IsRot u
  | _ => True

theorem sdiv_cbrt_det_of_isRot {m : M3 ℝ} (h : IsRot m) : M3.sdiv m (Scalar.cbrt (M3.det m)) = m := by
  rw [h.2]
  show M3.sdiv m (cbrtR 1) = m
  rw [cbrtR_one]
  ext <;> simp [M3.sdiv]

theorem inv_init : Inv (UBState.init : UBState ℝ) := by
  constructor <;> (intros; simp_all [UBState.init])

theorem inv_setLattice (s : UBState ℝ) (b : M3 ℝ) (h : Inv s) : Inv (s.setLatticeOk b) := by
  obtain ⟨h1, h2⟩ := h
  refine ⟨fun u hu => h1 u (by simpa [setLatticeOk] using hu), ?_⟩
  intro b' u hb hu
  simp only [setLatticeOk] at hb hu ⊢
  cases hb
  simp [hu]

theorem inv_setU (s : UBState ℝ) (m : M3 ℝ) (hm : IsRot m) (h : Inv s) : Inv (s.setUOk m) := by
  have e := sdiv_cbrt_det_of_isRot hm
  refine ⟨?_, ?_⟩
  · intro u hu
    simp only [setUOk, e, Option.some.injEq] at hu
    subst hu; exact hm
  · intro b u hb hu
    simp only [setUOk, e] at hb hu ⊢
    cases hu
    simp [hb]

theorem inv_setUb (s : UBState ℝ) (m : M3 ℝ)
    (hm : match s.B with | some b => IsRot (M3.mul m (M3.inv b)) | none => True) (h : Inv s) :
    Inv (s.setUbOk m) := by
  unfold setUbOk
  cases hB : s.B with
  | none =>
    refine ⟨fun u hu => h.1 u (by simpa using hu), ?_⟩
    intro b u hb hu
    simp [hB] at hb
  | some b =>
    simp only [hB] at hm
    have e := sdiv_cbrt_det_of_isRot hm
    simp only [e]
    refine ⟨?_, ?_⟩
    · intro u hu; simp only [Option.some.injEq] at hu; subst hu; exact hm
    · intro b' u hb hu
      simp only [hB, Option.some.injEq] at hb hu
      subst hb hu; rfl

theorem inv_setMiscut (s : UBState ℝ) (rot : M3 ℝ) (add : Bool) (hr : IsRot rot) (h : Inv s) :
    Inv (s.setMiscutOk rot add) := by
  unfold setMiscutOk
  cases hU : s.U with
  | none => exact inv_setU s rot hr h
  | some u =>
    cases add with
    | false => exact inv_setU s rot hr h
    | true => exact inv_setU s _ (IsRot.mul hr (h.1 u hU)) h

/-- one operation on rotation-valued inputs keeps the invariant -/
theorem inv_step (s : UBState ℝ) (op : UOp ℝ) (hv : ValidOp s op) (h : Inv s) : Inv (s.step op).1 := by
  cases op with
  | setLattice nb => cases nb with
    | none => exact h
    | some b => exact inv_setLattice s b h
  | setU m => cases m with
    | none => exact h
    | some m => exact inv_setU s m hv h
  | setUb m => cases m with
    | none => exact h
    | some m => exact inv_setUb s m hv h
  | setMiscut rot add => exact inv_setMiscut s rot add hv h
  | calcUb u =>
    simp only [UBState.step]
    cases hB : s.B with
    | none => exact h
    | some b =>
      cases u with
      | none => exact h
      | some u =>
        simp only [ValidOp] at hv
        refine ⟨?_, ?_⟩
        · intro u' hu'; simp only [Option.some.injEq] at hu'; subst hu'; exact hv
        · intro b' u' hb hu'
          simp only [hB, Option.some.injEq] at hb hu'
          subst hb hu'; rfl
  | refineUb nb rot =>
    cases nb with
    | none =>
      cases rot with
      | none => exact h
      | some r => exact inv_setMiscut _ r true hv h
    | some b =>
      cases rot with
      | none => exact inv_setLattice s b h
      | some r => exact inv_setMiscut _ r true hv (inv_setLattice s b h)
  | fitUb nb nu =>
    cases nb with
    | none =>
      cases nu with
      | none => exact h
      | some u => exact inv_setU _ u hv h
    | some b =>
      cases nu with
      | none => exact inv_setLattice s b h
      | some u => exact inv_setU _ u hv (inv_setLattice s b h)

/-- a history whose every operation is applied to rotation-valued inputs (checked against the state it meets) -/
def ValidHist : UBState ℝ → List (UOp ℝ) → Prop
  | _, [] => True
  | s, op :: ops => ValidOp s op ∧ ValidHist (s.step op).1 ops

/-- **C08**: after any finite history of the public orientation operations on rotation-valued inputs,
    `U` (when defined) is a proper rotation and `UB = U·B(current lattice)` (when both are defined) -/
theorem inv_history (ops : List (UOp ℝ)) (s : UBState ℝ) (hv : ValidHist s ops) (h : Inv s) :
    Inv (ops.foldl (fun st op => (st.step op).1) s) := by
  induction ops generalizing s with
  | nil => exact h
  | cons op ops ih => exact ih _ hv.2 (inv_step s op hv.1 h)

theorem c08_history (ops : List (UOp ℝ)) (hv : ValidHist UBState.init ops) :
    Inv (ops.foldl (fun st op => (st.step op).1) UBState.init) :=
  inv_history ops _ hv inv_init

/-- `set_miscut(axis, angle)` makes `U` the given rotation, composed on the left of the previous `U` when `add` is requested -/
theorem setMiscut_spec (s : UBState ℝ) (rot : M3 ℝ) (hr : IsRot rot) :
    (s.setMiscutOk rot false).U = some rot ∧
    (∀ u, s.U = some u → IsRot u → (s.setMiscutOk rot true).U = some (M3.mul rot u)) ∧
    (s.U = none → (s.setMiscutOk rot true).U = some rot) := by
  refine ⟨?_, ?_, ?_⟩
  · unfold setMiscutOk
    cases s.U <;> simp [setUOk, sdiv_cbrt_det_of_isRot hr]
  · intro u hu hur
    simp [setMiscutOk, hu, setUOk, sdiv_cbrt_det_of_isRot (IsRot.mul hr hur)]
  · intro hu
    simp [setMiscutOk, hu, setUOk, sdiv_cbrt_det_of_isRot hr]

/-- **C17 (UB operations)**: a rejected update leaves `(crystal, U, UB)` unchanged -/
theorem step_error_unchanged (s : UBState ℝ) (op : UOp ℝ) (e : UErr) (h : (s.step op).2 = .error e) :
    (s.step op).1 = s := by
  cases op with
  | setLattice nb => cases nb <;> simp_all [UBState.step]
  | setU m => cases m <;> simp_all [UBState.step]
  | setUb m => cases m <;> simp_all [UBState.step]
  | setMiscut rot add => simp [UBState.step] at h
  | calcUb u =>
    simp only [UBState.step] at h ⊢
    cases hB : s.B <;> cases u <;> simp_all
  | refineUb nb rot => simp [UBState.step] at h
  | fitUb nb nu => simp [UBState.step] at h

/-- non-vacuity: a lattice change after `set_u` — the stored UB follows the new lattice -/
example (b b' : M3 ℝ) :
    let s := (((UBState.init : UBState ℝ).step (.setLattice (some b))).1.step (.setU (some M3.id))).1
    (s.step (.setLattice (some b'))).1.UB = some (M3.mul M3.id b') := by
  simp [UBState.step, setLatticeOk, setUOk, UBState.init, sdiv_cbrt_det_of_isRot isRot_id]
end
end C08
