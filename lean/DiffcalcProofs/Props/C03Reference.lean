import DiffcalcProofs.Props.C03Detector
/-!
# C03 — completeness of the reference + two-sample branches (`calc_reference.py`)

`refConChiPhi_complete` (chi and phi given): every `(qaz, mu, eta)` that satisfies the orientation equation of the reference modes,
`Z · N_phi · PSIᵀ · THETAᵀ = F(qaz)`, together with the given chi and phi is returned, modulo 2π in the three computed angles.  The first
free angle comes from a complete pair of `asin` roots, and for the matching root the two `atan2` expressions recover `qaz` and `eta` because
their arguments are `|cos mu|` times the sine and cosine of those very angles; the sibling root meets the same "cannot be chosen uniquely"
tests with the same magnitudes, so it cannot end the request.
-/
namespace C03
open M3 Solver Scalar PyOps C01
noncomputable section

theorem isSmall_neg (x : ℝ) : Scalar.isSmall (-x) = Scalar.isSmall x := by
  rw [isSmall_real, isSmall_real, abs_neg]

/-- the code's `V` in terms of the angles of a solution: `V = (MU·ETA)ᵀ · F(qaz)` -/
theorem refV_entries (mu eta chi phi qaz : ℝ) (Vr : M3 ℝ)
    (h : M3.mul (C04.Z mu eta chi phi) Vr = Fq qaz) :
    let V := M3.mul (M3.mul (rotY chi) (rotZ (-phi))) Vr
    V.a21 = -Real.sin mu ∧ V.a20 = Real.cos mu * Real.cos qaz ∧ V.a22 = Real.cos mu * Real.sin qaz ∧
    V.a01 = -(Real.cos mu * Real.sin eta) ∧ V.a11 = Real.cos mu * Real.cos eta := by
  intro V
  have hME : IsRot (M3.mul (rotX mu) (rotZ (-eta))) := IsRot.mul (isRot_rotX _) (isRot_rotZ _)
  have hZ : C04.Z mu eta chi phi = M3.mul (M3.mul (rotX mu) (rotZ (-eta))) (M3.mul (rotY chi) (rotZ (-phi))) := by
    simp only [C04.Z, M3.mul_assoc']
  have hV : V = M3.mul (M3.transpose (M3.mul (rotX mu) (rotZ (-eta)))) (Fq qaz) := by
    rw [← h, hZ, M3.mul_assoc', ← M3.mul_assoc' (M3.transpose _), hME.1, M3.id_mul]
  rw [hV]
  simp only [M3.mul, M3.transpose, rotX, rotZ, Fq, rs_cos, rs_sin, rs_one, rs_zero, Real.cos_neg, Real.sin_neg]
  refine ⟨by ring, by ring, by ring, by ring, by ring⟩

/-- **completeness of `__calc_sample_ref_con_chi_phi`** -/
theorem refConChiPhi_complete (chi phi psi theta : ℝ) (N : M3 ℝ)
    (qaz0 mu0 eta0 : ℝ) (hS : RefSpec (Vref psi theta N) (qaz0, psi, mu0, eta0, chi, phi))
    (hgen : Scalar.isSmall (Real.cos (Real.arcsin (Real.sin mu0))) = false)
    (hne : (Scalar.isSmall (|Real.cos mu0| * Real.sin eta0) && Scalar.isSmall (|Real.cos mu0| * Real.cos eta0)) = false)
    (hnq : (Scalar.isSmall (|Real.cos mu0| * Real.sin qaz0) && Scalar.isSmall (|Real.cos mu0| * Real.cos qaz0)) = false) :
    ∃ l, refConChiPhi chi phi psi theta N = .ok l ∧
      ∃ t ∈ l, SameAngle t.1 qaz0 ∧ t.2.1 = psi ∧ SameAngle t.2.2.1 mu0 ∧ SameAngle t.2.2.2.1 eta0 ∧ t.2.2.2.2.1 = chi ∧ t.2.2.2.2.2 = phi := by
  unfold RefSpec at hS
  obtain ⟨e21, e20, e22, e01, e11⟩ := refV_entries mu0 eta0 chi phi qaz0 _ hS
  -- the code's V is the same matrix
  have hVeq : M3.mul (M3.mul (M3.mul (M3.mul (Gen.rot_CHI chi) (Gen.rot_PHI phi)) N) (M3.transpose (Gen.x_rotation psi))) (M3.transpose (Gen.z_rotation (-theta)))
      = M3.mul (M3.mul (rotY chi) (rotZ (-phi))) (Vref psi theta N) := by
    obtain ⟨_, _, hCHI, _, _, hPHI⟩ := (gen_rot_senses chi).1, (gen_rot_senses chi).2.1, (gen_rot_senses chi).2.2.1, (gen_rot_senses chi).2.2.2.1,
      (gen_rot_senses chi).2.2.2.2.1, (gen_rot_senses phi).2.2.2.2.2
    rw [hCHI, hPHI]; simp only [Vref, M3.mul_assoc']
  set V := M3.mul (M3.mul (rotY chi) (rotZ (-phi))) (Vref psi theta N) with hVdef
  unfold refConChiPhi
  simp only [hVeq]
  have hcm : Real.cos mu0 ≠ 0 := by
    intro h0
    have : Real.cos (Real.arcsin (Real.sin mu0)) = 0 := by
      rw [Real.cos_arcsin]
      have h1 := Real.sin_sq_add_cos_sq mu0
      rw [h0] at h1
      have : 1 - Real.sin mu0 ^ 2 = 0 := by nlinarith
      rw [this, Real.sqrt_zero]
    rw [this, isSmall_real] at hgen
    simp only [abs_zero, decide_eq_false_iff_not, not_le] at hgen
    norm_num at hgen
  have hr : 0 < |Real.cos mu0| := abs_pos.mpr hcm
  have hx : -V.a21 = Real.sin mu0 := by rw [e21]; ring
  have hxabs : |-V.a21| ≤ 1 := by rw [hx]; exact Real.abs_sin_le_one _
  unfold boundAsin tryAssert
  rw [bound_id hxabs]
  simp only [bind, Except.bind, hx, pyAsin_ok (Real.abs_sin_le_one mu0), rs_cos, rs_pi, hgen, Bool.false_eq_true, if_false]
  set a := Real.arcsin (Real.sin mu0) with ha
  have hca : Real.cos a = |Real.cos mu0| := by
    rw [ha, Real.cos_arcsin]
    have h1 := Real.sin_sq_add_cos_sq mu0
    have : 1 - Real.sin mu0 ^ 2 = Real.cos mu0 ^ 2 := by linarith
    rw [this, Real.sqrt_sq_eq_abs]
  -- the body of the loop, for any angle whose cosine has the magnitude of cos mu0
  have body : ∀ mu : ℝ, |Real.cos mu| = |Real.cos mu0| →
      ∃ q e, (let sgn := Scalar.sign (Real.cos mu)
        if (Scalar.isSmall (-sgn * V.a01) && Scalar.isSmall (sgn * V.a11)) = true then (.error .dce : Py (List (RTuple ℝ)))
        else if (Scalar.isSmall (sgn * V.a22) && Scalar.isSmall (sgn * V.a20)) = true then .error .dce
        else .ok [(atan2R (sgn * V.a22) (sgn * V.a20), psi, mu, atan2R (-sgn * V.a01) (sgn * V.a11), chi, phi)]) = .ok [(q, psi, mu, e, chi, phi)] ∧
        (SameAngle mu mu0 → SameAngle q qaz0 ∧ SameAngle e eta0) := by
    intro mu hmu
    have hns : Scalar.isSmall (Real.cos mu) = false := by
      have : |Real.cos mu| = |Real.cos a| := by rw [hmu, hca, abs_abs]
      rw [isSmall_congr_abs this]; exact hgen
    obtain ⟨s1, s2⟩ := sign_facts (Real.cos mu) hns
    set sgn : ℝ := Scalar.sign (Real.cos mu) with hsgn
    set w := sgn * Real.cos mu0 with hw
    have hwabs : |w| = |Real.cos mu0| := by
      rw [hw, abs_mul]
      have : |sgn| = 1 := by
        have h := abs_mul_abs_self sgn
        have : |sgn| * |sgn| = 1 := by rw [h, ← pow_two]; exact s2
        nlinarith [abs_nonneg sgn]
      rw [this, one_mul]
    have f22 : sgn * V.a22 = w * Real.sin qaz0 := by rw [e22, hw]; ring
    have f20 : sgn * V.a20 = w * Real.cos qaz0 := by rw [e20, hw]; ring
    have f01 : -sgn * V.a01 = w * Real.sin eta0 := by rw [e01, hw]; ring
    have f11 : sgn * V.a11 = w * Real.cos eta0 := by rw [e11, hw]; ring
    have sm : ∀ x : ℝ, Scalar.isSmall (w * x) = Scalar.isSmall (|Real.cos mu0| * x) := by
      intro x; apply isSmall_congr_abs; rw [abs_mul w x, abs_mul (|Real.cos mu0|) x, hwabs, abs_abs]
    refine ⟨atan2R (sgn * V.a22) (sgn * V.a20), atan2R (-sgn * V.a01) (sgn * V.a11), ?_, ?_⟩
    · simp only [f22, f20, f01, f11, sm, hne, hnq, Bool.false_eq_true, if_false]
    · intro hsame
      have hwc : w = |Real.cos mu0| := by rw [hw, ← hsame.2, s1, hmu]
      rw [f22, f20, f01, f11, hwc]
      exact ⟨sameAngle_atan2 _ _ _ _ hr rfl rfl, sameAngle_atan2 _ _ _ _ hr rfl rfl⟩
  have hroots := asin_roots_complete mu0 (Real.sin mu0) (Real.abs_sin_le_one _) rfl
  rw [← ha] at hroots
  have hc1 : |Real.cos a| = |Real.cos mu0| := by rw [hca, abs_abs]
  have hc2 : |Real.cos (Real.pi - a)| = |Real.cos mu0| := by rw [Real.cos_pi_sub, abs_neg, hc1]
  obtain ⟨q1, e1, hb1, hs1⟩ := body a hc1
  obtain ⟨q2, e2, hb2, hs2⟩ := body (Real.pi - a) hc2
  simp only [] at hb1 hb2
  simp only [forM', bind, Except.bind, rs_atan2, hb1, hb2, pure, Except.pure]
  refine ⟨_, rfl, ?_⟩
  rcases hroots with h | h
  · obtain ⟨hq, he⟩ := hs1 (sameAngle_symm h)
    exact ⟨_, List.mem_cons_self, hq, rfl, sameAngle_symm h, he, rfl, rfl⟩
  · obtain ⟨hq, he⟩ := hs2 (sameAngle_symm h)
    exact ⟨_, List.mem_cons_of_mem _ List.mem_cons_self, hq, rfl, sameAngle_symm h, he, rfl, rfl⟩

/-! ## the two branches that go through `__get_chi_and_qaz` (mu + phi and eta + phi given) -/

/-- the converse of `refSpec_of_fmec`: the orientation equation in its second arrangement -/
theorem fmec_of_refSpec (N : M3 ℝ) (hN : IsRot N) (qaz psi theta mu eta chi phi : ℝ)
    (h : RefSpec (Vref psi theta N) (qaz, psi, mu, eta, chi, phi)) : Vref2 phi psi theta N = fmec qaz mu eta chi := by
  unfold RefSpec at h
  have hT : M3.transpose (Vref psi theta N) = M3.mul (Vref2 phi psi theta N) (rotZ (-phi)) := by
    unfold Vref Vref2
    rw [gen_x_rotation, gen_z_rotation, (gen_rot_senses phi).2.2.2.2.2, inv_of_isRot' hN, transpose_mul3, transpose_transpose', transpose_transpose']
    simp only [M3.mul_assoc']
    rw [(isRot_rotZ (-phi)).1, M3.mul_id]
  have hZ : C04.Z mu eta chi phi = M3.mul (mec mu eta chi) (rotZ (-phi)) := Z_eq_mec_phi mu eta chi phi
  have h2 := congrArg M3.transpose h
  rw [M3.transpose_mul, hT, hZ, M3.transpose_mul] at h2
  -- Vref2 · PHI · PHIᵀ · mecᵀ = Fᵀ
  have h3 : M3.mul (Vref2 phi psi theta N) (M3.transpose (mec mu eta chi)) = M3.transpose (Fq qaz) := by
    rw [← h2]; simp only [M3.mul_assoc']
    rw [← M3.mul_assoc' (rotZ (-phi)), rot_mul_transpose (isRot_rotZ (-phi)), M3.id_mul]
  have h4 := congrArg (fun m => M3.mul m (mec mu eta chi)) h3
  simp only [M3.mul_assoc', (isRot_mec mu eta chi).1, M3.mul_id] at h4
  rw [h4, fmec]

/-- **`__get_chi_and_qaz` recovers chi and qaz** of a solution from `V = F(qaz)ᵀ·MU·ETA·CHI`: the four `atan2` arguments are
    `(1 − cos²μ cos²η)` times the sine and cosine of the two angles -/
theorem chiAndQaz_complete (mu eta qaz0 chi0 : ℝ) (V : M3 ℝ) (hV : V = fmec qaz0 mu eta chi0)
    (hr : (Real.cos mu * Real.cos eta) ^ 2 ≠ 1)
    (hns : (Scalar.isSmall ((1 - (Real.cos mu * Real.cos eta) ^ 2) * Real.sin chi0) &&
            Scalar.isSmall ((1 - (Real.cos mu * Real.cos eta) ^ 2) * Real.cos chi0)) = false) :
    ∃ q c, chiAndQaz mu eta V = .ok (q, c) ∧ SameAngle q qaz0 ∧ SameAngle c chi0 := by
  have hsm := Real.sin_sq_add_cos_sq mu
  have hse := Real.sin_sq_add_cos_sq eta
  have hle : (Real.cos mu * Real.cos eta) ^ 2 ≤ 1 := by
    have h1 : Real.cos mu ^ 2 ≤ 1 := by nlinarith [sq_nonneg (Real.sin mu)]
    have h2 : Real.cos eta ^ 2 ≤ 1 := by nlinarith [sq_nonneg (Real.sin eta)]
    rw [mul_pow]; nlinarith [sq_nonneg (Real.cos mu), sq_nonneg (Real.cos eta)]
  have hrpos : 0 < 1 - (Real.cos mu * Real.cos eta) ^ 2 := by
    rcases hle.lt_or_eq with h | h
    · linarith
    · exact absurd h hr
  set r := 1 - (Real.cos mu * Real.cos eta) ^ 2 with hrdef
  have e10 : V.a10 = -(Real.cos chi0 * Real.cos mu * Real.sin eta) + Real.sin chi0 * Real.sin mu := by
    rw [hV, fmec, mec_entries]; simp only [M3.mul, M3.transpose, Fq]; ring
  have e12 : V.a12 = -(Real.cos chi0 * Real.sin mu) - Real.cos mu * Real.sin chi0 * Real.sin eta := by
    rw [hV, fmec, mec_entries]; simp only [M3.mul, M3.transpose, Fq]; ring
  have e01 : V.a01 = Real.cos eta * Real.cos qaz0 * Real.sin mu + Real.sin eta * Real.sin qaz0 := by
    rw [hV, fmec, mec_entries]; simp only [M3.mul, M3.transpose, Fq]; ring
  have e21 : V.a21 = Real.cos eta * Real.sin mu * Real.sin qaz0 - Real.cos qaz0 * Real.sin eta := by
    rw [hV, fmec, mec_entries]; simp only [M3.mul, M3.transpose, Fq]; ring
  have f1 : Real.sin mu * V.a10 + -(Real.cos mu) * Real.sin eta * V.a12 = r * Real.sin chi0 := by
    rw [e10, e12, hrdef]; linear_combination (Real.sin chi0) * hsm + (Real.cos mu ^ 2 * Real.sin chi0) * hse
  have f2 : -(Real.cos mu) * Real.sin eta * V.a10 - Real.sin mu * V.a12 = r * Real.cos chi0 := by
    rw [e10, e12, hrdef]; linear_combination (Real.cos chi0) * hsm + (Real.cos chi0 * Real.cos mu ^ 2) * hse
  have f3 : Real.sin eta * V.a01 + Real.cos eta * Real.sin mu * V.a21 = r * Real.sin qaz0 := by
    rw [e01, e21, hrdef]; linear_combination (Real.cos eta ^ 2 * Real.sin qaz0) * hsm + (Real.sin qaz0) * hse
  have f4 : Real.cos eta * Real.sin mu * V.a01 - Real.sin eta * V.a21 = r * Real.cos qaz0 := by
    rw [e01, e21, hrdef]; linear_combination (Real.cos eta ^ 2 * Real.cos qaz0) * hsm + (Real.cos qaz0) * hse
  unfold chiAndQaz
  simp only [rs_sin, rs_cos, rs_atan2, f1, f2, f3, f4, hns, Bool.false_eq_true, if_false]
  exact ⟨_, _, rfl, sameAngle_atan2 _ _ _ _ hrpos rfl rfl, sameAngle_atan2 _ _ _ _ hrpos rfl rfl⟩

theorem fmec_congr_eta (qaz mu eta eta' chi : ℝ) (h : SameAngle eta eta') : fmec qaz mu eta chi = fmec qaz mu eta' chi := by
  simp only [fmec, mec_entries, h.1, h.2]

theorem fmec_congr_mu (qaz mu mu' eta chi : ℝ) (h : SameAngle mu mu') : fmec qaz mu eta chi = fmec qaz mu' eta chi := by
  simp only [fmec, mec_entries, h.1, h.2]

/-- **completeness of `__calc_sample_ref_con_mu_phi`** (mu and phi given): eta from a complete pair of `acos` roots, chi and qaz read off.
    `hsib`: the sibling root does not make `__get_chi_and_qaz` raise (an exception there ends the whole request). -/
theorem refConMuPhi_complete (mu phi psi theta : ℝ) (N : M3 ℝ) (hN : IsRot N)
    (qaz0 eta0 chi0 : ℝ) (hS : RefSpec (Vref psi theta N) (qaz0, psi, mu, eta0, chi0, phi))
    (hcm : Scalar.isSmall (Real.cos mu) = false)
    (hr : (Real.cos mu * Real.cos eta0) ^ 2 ≠ 1)
    (hns : (Scalar.isSmall ((1 - (Real.cos mu * Real.cos eta0) ^ 2) * Real.sin chi0) &&
            Scalar.isSmall ((1 - (Real.cos mu * Real.cos eta0) ^ 2) * Real.cos chi0)) = false)
    (hsib : ∀ eta ∈ [Real.arccos (Real.cos eta0), -Real.arccos (Real.cos eta0)], ∃ qc, chiAndQaz mu eta (Vref2 phi psi theta N) = .ok qc) :
    ∃ l, refConMuPhi mu phi psi theta N = .ok l ∧
      ∃ t ∈ l, SameAngle t.1 qaz0 ∧ t.2.1 = psi ∧ t.2.2.1 = mu ∧ SameAngle t.2.2.2.1 eta0 ∧ SameAngle t.2.2.2.2.1 chi0 ∧ t.2.2.2.2.2 = phi := by
  have hV := fmec_of_refSpec N hN qaz0 psi theta mu eta0 chi0 phi hS
  have hcne := not_small_ne_zero hcm
  have h11 : (Vref2 phi psi theta N).a11 = Real.cos mu * Real.cos eta0 := by
    rw [hV, fmec, mec_entries]; simp only [M3.mul, M3.transpose, Fq]; ring
  have hx : (Vref2 phi psi theta N).a11 / Real.cos mu = Real.cos eta0 := by rw [h11]; field_simp
  have hxabs : |(Vref2 phi psi theta N).a11 / Real.cos mu| ≤ 1 := by rw [hx]; exact Real.abs_cos_le_one _
  have hroots := acos_roots_complete eta0 (Real.cos eta0) (Real.abs_cos_le_one _) rfl
  unfold refConMuPhi boundAcos tryAssert
  simp only [rs_cos, hcm, Bool.false_eq_true, if_false]
  rw [bound_id hxabs]
  simp only [bind, Except.bind, hx, pyAcos_ok (Real.abs_cos_le_one eta0)]
  set a := Real.arccos (Real.cos eta0) with ha
  obtain ⟨⟨q1, c1⟩, hb1⟩ := hsib a (by simp [ha])
  obtain ⟨⟨q2, c2⟩, hb2⟩ := hsib (-a) (by simp [ha])
  simp only [forM', bind, Except.bind, hb1, hb2, pure, Except.pure]
  refine ⟨_, rfl, ?_⟩
  -- the matching root
  have hit : ∀ eta q c, SameAngle eta0 eta → chiAndQaz mu eta (Vref2 phi psi theta N) = .ok (q, c) → SameAngle q qaz0 ∧ SameAngle c chi0 := by
    intro eta q c hs hok
    have hV' : Vref2 phi psi theta N = fmec qaz0 mu eta chi0 := by rw [hV]; exact fmec_congr_eta _ _ _ _ _ hs
    obtain ⟨q', c', hok', hq, hc⟩ := chiAndQaz_complete mu eta qaz0 chi0 _ hV' (by rw [← hs.2]; exact hr) (by rw [← hs.2]; exact hns)
    rw [hok] at hok'; cases hok'; exact ⟨hq, hc⟩
  rcases hroots with h | h
  · obtain ⟨hq, hc⟩ := hit a q1 c1 h hb1
    exact ⟨_, List.mem_cons_self, hq, rfl, rfl, sameAngle_symm h, hc, rfl⟩
  · obtain ⟨hq, hc⟩ := hit (-a) q2 c2 h hb2
    exact ⟨_, List.mem_cons_of_mem _ List.mem_cons_self, hq, rfl, rfl, sameAngle_symm h, hc, rfl⟩

/-- **completeness of `__calc_sample_ref_con_eta_phi`** (eta and phi given): mu from a complete pair of `acos` roots, chi and qaz read off -/
theorem refConEtaPhi_complete (eta phi psi theta : ℝ) (N : M3 ℝ) (hN : IsRot N)
    (qaz0 mu0 chi0 : ℝ) (hS : RefSpec (Vref psi theta N) (qaz0, psi, mu0, eta, chi0, phi))
    (hce : Scalar.isSmall (Real.cos eta) = false)
    (hr : (Real.cos mu0 * Real.cos eta) ^ 2 ≠ 1)
    (hns : (Scalar.isSmall ((1 - (Real.cos mu0 * Real.cos eta) ^ 2) * Real.sin chi0) &&
            Scalar.isSmall ((1 - (Real.cos mu0 * Real.cos eta) ^ 2) * Real.cos chi0)) = false)
    (hsib : ∀ mu ∈ [Real.arccos (Real.cos mu0), -Real.arccos (Real.cos mu0)], ∃ qc, chiAndQaz mu eta (Vref2 phi psi theta N) = .ok qc) :
    ∃ l, refConEtaPhi eta phi psi theta N = .ok l ∧
      ∃ t ∈ l, SameAngle t.1 qaz0 ∧ t.2.1 = psi ∧ SameAngle t.2.2.1 mu0 ∧ t.2.2.2.1 = eta ∧ SameAngle t.2.2.2.2.1 chi0 ∧ t.2.2.2.2.2 = phi := by
  have hV := fmec_of_refSpec N hN qaz0 psi theta mu0 eta chi0 phi hS
  have hcne := not_small_ne_zero hce
  have h11 : (Vref2 phi psi theta N).a11 = Real.cos mu0 * Real.cos eta := by
    rw [hV, fmec, mec_entries]; simp only [M3.mul, M3.transpose, Fq]; ring
  have hx : (Vref2 phi psi theta N).a11 / Real.cos eta = Real.cos mu0 := by rw [h11]; field_simp
  have hxabs : |(Vref2 phi psi theta N).a11 / Real.cos eta| ≤ 1 := by rw [hx]; exact Real.abs_cos_le_one _
  have hroots := acos_roots_complete mu0 (Real.cos mu0) (Real.abs_cos_le_one _) rfl
  unfold refConEtaPhi boundAcos tryAssert
  simp only [rs_cos, hce, Bool.false_eq_true, if_false]
  rw [bound_id hxabs]
  simp only [bind, Except.bind, hx, pyAcos_ok (Real.abs_cos_le_one mu0)]
  set a := Real.arccos (Real.cos mu0) with ha
  obtain ⟨⟨q1, c1⟩, hb1⟩ := hsib a (by simp [ha])
  obtain ⟨⟨q2, c2⟩, hb2⟩ := hsib (-a) (by simp [ha])
  simp only [forM', bind, Except.bind, hb1, hb2, pure, Except.pure]
  refine ⟨_, rfl, ?_⟩
  have hit : ∀ mu q c, SameAngle mu0 mu → chiAndQaz mu eta (Vref2 phi psi theta N) = .ok (q, c) → SameAngle q qaz0 ∧ SameAngle c chi0 := by
    intro mu q c hs hok
    have hV' : Vref2 phi psi theta N = fmec qaz0 mu eta chi0 := by rw [hV]; exact fmec_congr_mu _ _ _ _ _ hs
    obtain ⟨q', c', hok', hq, hc⟩ := chiAndQaz_complete mu eta qaz0 chi0 _ hV' (by rw [← hs.2]; exact hr) (by rw [← hs.2]; exact hns)
    rw [hok] at hok'; cases hok'; exact ⟨hq, hc⟩
  rcases hroots with h | h
  · obtain ⟨hq, hc⟩ := hit a q1 c1 h hb1
    exact ⟨_, List.mem_cons_self, hq, rfl, sameAngle_symm h, rfl, hc, rfl⟩
  · obtain ⟨hq, hc⟩ := hit (-a) q2 c2 h hb2
    exact ⟨_, List.mem_cons_of_mem _ List.mem_cons_self, hq, rfl, sameAngle_symm h, rfl, hc, rfl⟩

/-! ## the branches that go through `__get_phi_and_qaz` -/

/-- **`__get_phi_and_qaz` recovers phi and qaz** of a solution: with `V = Zᵀ·F(qaz)` the four `atan2` arguments are `(1 − V21²)` times the
    sine and cosine of the two angles -/
theorem phiAndQaz_complete (chi eta mu qaz0 phi0 : ℝ) (V : M3 ℝ)
    (hV : V = M3.mul (M3.transpose (C04.Z mu eta chi phi0)) (Fq qaz0)) (hr : V.a21 ^ 2 ≠ 1) :
    SameAngle (phiAndQaz chi eta mu V).1 qaz0 ∧ SameAngle (phiAndQaz chi eta mu V).2 phi0 := by
  have hsm := Real.sin_sq_add_cos_sq mu
  have hse := Real.sin_sq_add_cos_sq eta
  have hsc := Real.sin_sq_add_cos_sq chi
  have hsp := Real.sin_sq_add_cos_sq phi0
  have hsq := Real.sin_sq_add_cos_sq qaz0
  have hZrot : IsRot (M3.mul (M3.transpose (C04.Z mu eta chi phi0)) (Fq qaz0)) :=
    IsRot.mul (C04.isRot_transpose (C04.isRot_Z _ _ _ _)) (isRot_Fq _)
  have hrow : V.a20 ^ 2 + V.a21 ^ 2 + V.a22 ^ 2 = 1 := by rw [hV]; exact (isRot_entries_le hZrot).1
  have hrpos : 0 < 1 - V.a21 ^ 2 := by
    have : V.a21 ^ 2 ≤ 1 := by nlinarith [sq_nonneg V.a20, sq_nonneg V.a22]
    rcases this.lt_or_eq with h | h
    · linarith
    · exact absurd h hr
  have e20 : V.a20 = Real.cos chi * Real.cos mu * Real.cos qaz0 + Real.cos eta * Real.sin chi * Real.sin qaz0
      - Real.cos qaz0 * Real.sin chi * Real.sin eta * Real.sin mu := by
    rw [hV]; simp only [M3.mul, M3.transpose, C04.Z, rotX, rotZ, rotY, Fq, rs_cos, rs_sin, rs_one, rs_zero, Real.cos_neg, Real.sin_neg]; ring
  have e21 : V.a21 = -(Real.cos chi * Real.sin mu) - Real.cos mu * Real.sin chi * Real.sin eta := by
    rw [hV]; simp only [M3.mul, M3.transpose, C04.Z, rotX, rotZ, rotY, Fq, rs_cos, rs_sin, rs_one, rs_zero, Real.cos_neg, Real.sin_neg]; ring
  have e22 : V.a22 = Real.cos chi * Real.cos mu * Real.sin qaz0 - Real.cos eta * Real.cos qaz0 * Real.sin chi
      - Real.sin chi * Real.sin eta * Real.sin mu * Real.sin qaz0 := by
    rw [hV]; simp only [M3.mul, M3.transpose, C04.Z, rotX, rotZ, rotY, Fq, rs_cos, rs_sin, rs_one, rs_zero, Real.cos_neg, Real.sin_neg]; ring
  have e01 : V.a01 = -(Real.cos chi * Real.cos mu * Real.cos phi0 * Real.sin eta) - Real.cos eta * Real.cos mu * Real.sin phi0
      + Real.cos phi0 * Real.sin chi * Real.sin mu := by
    rw [hV]; simp only [M3.mul, M3.transpose, C04.Z, rotX, rotZ, rotY, Fq, rs_cos, rs_sin, rs_one, rs_zero, Real.cos_neg, Real.sin_neg]; ring
  have e11 : V.a11 = -(Real.cos chi * Real.cos mu * Real.sin eta * Real.sin phi0) + Real.cos eta * Real.cos mu * Real.cos phi0
      + Real.sin chi * Real.sin mu * Real.sin phi0 := by
    rw [hV]; simp only [M3.mul, M3.transpose, C04.Z, rotX, rotZ, rotY, Fq, rs_cos, rs_sin, rs_one, rs_zero, Real.cos_neg, Real.sin_neg]; ring
  set r := 1 - V.a21 ^ 2 with hrdef
  have f1 : V.a20 * (Real.sin chi * Real.cos eta) - V.a22 * (Real.sin chi * Real.sin eta * Real.sin mu - Real.cos chi * Real.cos mu) = r * Real.sin qaz0 := by
    rw [hrdef, e20, e21, e22]
    linear_combination (Real.sin qaz0 * (Real.cos chi ^ 2 + Real.sin chi ^ 2 * Real.sin eta ^ 2)) * hsm + (Real.sin chi ^ 2 * Real.sin qaz0) * hse + (Real.sin qaz0) * hsc
  have f2 : -V.a22 * (Real.sin chi * Real.cos eta) - V.a20 * (Real.sin chi * Real.sin eta * Real.sin mu - Real.cos chi * Real.cos mu) = r * Real.cos qaz0 := by
    rw [hrdef, e20, e21, e22]
    linear_combination (Real.cos qaz0 * (Real.cos chi ^ 2 + Real.sin chi ^ 2 * Real.sin eta ^ 2)) * hsm + (Real.cos qaz0 * Real.sin chi ^ 2) * hse + (Real.cos qaz0) * hsc
  have f3 : V.a11 * (Real.sin chi * Real.sin mu - Real.cos mu * Real.cos chi * Real.sin eta) - V.a01 * (Real.cos mu * Real.cos eta) = r * Real.sin phi0 := by
    rw [hrdef, e01, e11, e21]
    linear_combination (Real.sin phi0 * (Real.cos chi ^ 2 + Real.sin chi ^ 2)) * hsm + (Real.cos mu ^ 2 * Real.sin phi0 * (Real.cos chi ^ 2 + Real.sin chi ^ 2)) * hse
      + (-(Real.sin phi0) * (Real.cos eta * Real.cos mu - 1) * (Real.cos eta * Real.cos mu + 1)) * hsc
  have f4 : V.a01 * (Real.sin chi * Real.sin mu - Real.cos mu * Real.cos chi * Real.sin eta) + V.a11 * (Real.cos mu * Real.cos eta) = r * Real.cos phi0 := by
    rw [hrdef, e01, e11, e21]
    linear_combination (Real.cos phi0 * (Real.cos chi ^ 2 + Real.sin chi ^ 2)) * hsm + (Real.cos mu ^ 2 * Real.cos phi0 * (Real.cos chi ^ 2 + Real.sin chi ^ 2)) * hse
      + (-(Real.cos phi0) * (Real.cos eta * Real.cos mu - 1) * (Real.cos eta * Real.cos mu + 1)) * hsc
  unfold phiAndQaz
  simp only [rs_sin, rs_cos, rs_atan2, f1, f2, f3, f4]
  exact ⟨sameAngle_atan2 _ _ _ _ hrpos rfl rfl, sameAngle_atan2 _ _ _ _ hrpos rfl rfl⟩

/-- from the orientation equation to the form `V = Zᵀ·F(qaz)` used by `__get_phi_and_qaz` -/
theorem V_of_refSpec (Vr : M3 ℝ) (qaz psi mu eta chi phi : ℝ) (h : RefSpec Vr (qaz, psi, mu, eta, chi, phi)) :
    Vr = M3.mul (M3.transpose (C04.Z mu eta chi phi)) (Fq qaz) := by
  unfold RefSpec at h
  have := congrArg (fun m => M3.mul (M3.transpose (C04.Z mu eta chi phi)) m) h
  simp only [] at this
  rw [← M3.mul_assoc', (C04.isRot_Z mu eta chi phi).1, M3.id_mul] at this
  exact this

theorem Zt_congr_eta (mu eta eta' chi phi : ℝ) (h : SameAngle eta eta') : C04.Z mu eta chi phi = C04.Z mu eta' chi phi :=
  Z_congr4 _ _ _ _ _ _ _ _ (sameAngle_refl _) h (sameAngle_refl _) (sameAngle_refl _)

/-- **completeness of `__calc_sample_ref_con_chi_mu`** (chi and mu given): eta from a complete pair of `asin` roots, phi and qaz read off -/
theorem refConChiMu_complete (chi mu psi theta : ℝ) (N : M3 ℝ)
    (qaz0 eta0 phi0 : ℝ) (hS : RefSpec (Vref psi theta N) (qaz0, psi, mu, eta0, chi, phi0))
    (hd : Real.sin chi * Real.cos mu ≠ 0) (hne : (Vref psi theta N).a21 ^ 2 ≠ 1) :
    ∃ l, refConChiMu chi mu psi theta N = .ok l ∧
      ∃ t ∈ l, SameAngle t.1 qaz0 ∧ t.2.1 = psi ∧ t.2.2.1 = mu ∧ SameAngle t.2.2.2.1 eta0 ∧ t.2.2.2.2.1 = chi ∧ SameAngle t.2.2.2.2.2 phi0 := by
  have hV := V_of_refSpec _ qaz0 psi mu eta0 chi phi0 hS
  set V := Vref psi theta N with hVdef
  have e21 : V.a21 = -(Real.cos chi * Real.sin mu) - Real.cos mu * Real.sin chi * Real.sin eta0 := by
    rw [hV]; simp only [M3.mul, M3.transpose, C04.Z, rotX, rotZ, rotY, Fq, rs_cos, rs_sin, rs_one, rs_zero, Real.cos_neg, Real.sin_neg]; ring
  have h1 : Real.sin chi ≠ 0 := left_ne_zero_of_mul hd
  have h2 : Real.cos mu ≠ 0 := right_ne_zero_of_mul hd
  have hx : (-V.a21 - Real.cos chi * Real.sin mu) / (Real.sin chi * Real.cos mu) = Real.sin eta0 := by rw [e21]; field_simp; ring
  have hxabs : |(-V.a21 - Real.cos chi * Real.sin mu) / (Real.sin chi * Real.cos mu)| ≤ 1 := by rw [hx]; exact Real.abs_sin_le_one _
  have hroots := asin_roots_complete eta0 (Real.sin eta0) (Real.abs_sin_le_one _) rfl
  unfold refConChiMu boundAsin tryAssert
  simp only [rs_sin, rs_cos, rs_pi, ← hVdef]
  rw [bound_id hxabs]
  simp only [bind, Except.bind, hx, pyAsin_ok (Real.abs_sin_le_one eta0)]
  refine ⟨_, rfl, ?_⟩
  set a := Real.arcsin (Real.sin eta0) with ha
  have hit : ∀ eta, SameAngle eta0 eta →
      SameAngle (phiAndQaz chi eta mu V).1 qaz0 ∧ SameAngle (phiAndQaz chi eta mu V).2 phi0 := by
    intro eta hs
    exact phiAndQaz_complete chi eta mu qaz0 phi0 V (by rw [hV, Zt_congr_eta mu eta0 eta chi phi0 hs]) hne
  rcases hroots with h | h
  · obtain ⟨hq, hp⟩ := hit a h
    exact ⟨_, List.mem_cons_self, hq, rfl, rfl, sameAngle_symm h, rfl, hp⟩
  · obtain ⟨hq, hp⟩ := hit (Real.pi - a) h
    exact ⟨_, List.mem_cons_of_mem _ List.mem_cons_self, hq, rfl, rfl, sameAngle_symm h, rfl, hp⟩

/-! ## the two branches with a phase-shifted root pair (mu + eta given: chi; chi + eta given: mu) -/

/-- the equation `X = A sin t + B cos t` solved the way `calc_reference.py` does it: either `asin(X/R)` shifted by `atan2(B, A)`, or
    `acos(X/R)` shifted by `atan2(A, B)`; both root pairs are complete -/
theorem shifted_roots (t A B X : ℝ) (hne : A ≠ 0 ∨ B ≠ 0) (hX : X = A * Real.sin t + B * Real.cos t) :
    |X / Real.sqrt (A * A + B * B)| ≤ 1 ∧
    (SameAngle t (Real.arcsin (X / Real.sqrt (A * A + B * B)) - atan2R B A) ∨
     SameAngle t (Real.pi - Real.arcsin (X / Real.sqrt (A * A + B * B)) - atan2R B A)) ∧
    (SameAngle t (atan2R A B + Real.arccos (X / Real.sqrt (A * A + B * B))) ∨
     SameAngle t (atan2R A B - Real.arccos (X / Real.sqrt (A * A + B * B)))) := by
  set R := Real.sqrt (A * A + B * B) with hRdef
  have hpos : 0 < A * A + B * B := by
    rcases hne with h | h
    · have := mul_self_pos.mpr h; nlinarith [mul_self_nonneg B]
    · have := mul_self_pos.mpr h; nlinarith [mul_self_nonneg A]
  have hR : 0 < R := Real.sqrt_pos.mpr hpos
  have hR2 : R ^ 2 = A * A + B * B := by rw [hRdef, Real.sq_sqrt hpos.le]
  obtain ⟨c1, s1⟩ := atan2_cs A B R hR (by rw [hR2]; ring)        -- eps  = atan2(B, A): cos = A/R, sin = B/R
  obtain ⟨c2, s2⟩ := atan2_cs B A R hR (by rw [hR2]; ring)        -- eps' = atan2(A, B): cos = B/R, sin = A/R
  have hsin : Real.sin (t + atan2R B A) = X / R := by
    rw [Real.sin_add, c1, s1, hX]; field_simp
  have hcos : Real.cos (t - atan2R A B) = X / R := by
    rw [Real.cos_sub, c2, s2, hX]; field_simp; ring
  have habs : |X / R| ≤ 1 := by rw [← hsin]; exact Real.abs_sin_le_one _
  refine ⟨habs, ?_, ?_⟩
  · rcases asin_roots_complete (t + atan2R B A) (X / R) habs hsin with h | h
    · left
      have := sameAngle_add _ _ (-(atan2R B A)) h
      rwa [add_neg_cancel_right, ← sub_eq_add_neg] at this
    · right
      have := sameAngle_add _ _ (-(atan2R B A)) h
      rwa [add_neg_cancel_right, ← sub_eq_add_neg] at this
  · rcases acos_roots_complete (t - atan2R A B) (X / R) habs hcos with h | h
    · left
      have := sameAngle_add _ _ (atan2R A B) h
      rwa [sub_add_cancel, add_comm] at this
    · right
      have := sameAngle_add _ _ (atan2R A B) h
      rw [sub_add_cancel] at this
      have e : -Real.arccos (X / R) + atan2R A B = atan2R A B - Real.arccos (X / R) := by ring
      rwa [e] at this

theorem Zt_congr_chi (mu eta chi chi' phi : ℝ) (h : SameAngle chi chi') : C04.Z mu eta chi phi = C04.Z mu eta chi' phi :=
  Z_congr4 _ _ _ _ _ _ _ _ (sameAngle_refl _) (sameAngle_refl _) h (sameAngle_refl _)

theorem Zt_congr_mu (mu mu' eta chi phi : ℝ) (h : SameAngle mu mu') : C04.Z mu eta chi phi = C04.Z mu' eta chi phi :=
  Z_congr4 _ _ _ _ _ _ _ _ h (sameAngle_refl _) (sameAngle_refl _) (sameAngle_refl _)

/-- **completeness of `__calc_sample_ref_con_mu_eta`** (mu and eta given): chi from a complete, phase-shifted root pair (either of the two
    forms the source chooses between), phi and qaz read off -/
theorem refConMuEta_complete (mu eta psi theta : ℝ) (N : M3 ℝ)
    (qaz0 chi0 phi0 : ℝ) (hS : RefSpec (Vref psi theta N) (qaz0, psi, mu, eta, chi0, phi0))
    (hR : Real.sin eta * Real.cos mu ≠ 0 ∨ Real.sin mu ≠ 0) (hne : (Vref psi theta N).a21 ^ 2 ≠ 1) :
    ∃ l, refConMuEta mu eta psi theta N = .ok l ∧
      ∃ t ∈ l, SameAngle t.1 qaz0 ∧ t.2.1 = psi ∧ t.2.2.1 = mu ∧ t.2.2.2.1 = eta ∧ SameAngle t.2.2.2.2.1 chi0 ∧ SameAngle t.2.2.2.2.2 phi0 := by
  have hV := V_of_refSpec _ qaz0 psi mu eta chi0 phi0 hS
  set V := Vref psi theta N with hVdef
  have e21 : -V.a21 = (Real.sin eta * Real.cos mu) * Real.sin chi0 + Real.sin mu * Real.cos chi0 := by
    rw [hV]; simp only [M3.mul, M3.transpose, C04.Z, rotX, rotZ, rotY, Fq, rs_cos, rs_sin, rs_one, rs_zero, Real.cos_neg, Real.sin_neg]; ring
  obtain ⟨habs, hasin, hacos⟩ := shifted_roots chi0 (Real.sin eta * Real.cos mu) (Real.sin mu) (-V.a21) hR e21
  have hS' : Real.sin eta * Real.sin eta * (Real.cos mu * Real.cos mu) + Real.sin mu * Real.sin mu
      = Real.sin eta * Real.cos mu * (Real.sin eta * Real.cos mu) + Real.sin mu * Real.sin mu := by ring
  have hnn : 0 ≤ Real.sin eta * Real.cos mu * (Real.sin eta * Real.cos mu) + Real.sin mu * Real.sin mu := by
    nlinarith [mul_self_nonneg (Real.sin eta * Real.cos mu), mul_self_nonneg (Real.sin mu)]
  set R := Real.sqrt (Real.sin eta * Real.cos mu * (Real.sin eta * Real.cos mu) + Real.sin mu * Real.sin mu) with hRdef
  have hit : ∀ chi, SameAngle chi0 chi →
      SameAngle (phiAndQaz chi eta mu V).1 qaz0 ∧ SameAngle (phiAndQaz chi eta mu V).2 phi0 := by
    intro chi hs
    exact phiAndQaz_complete chi eta mu qaz0 phi0 V (by rw [hV, Zt_congr_chi mu eta chi0 chi phi0 hs]) hne
  unfold refConMuEta tryAssert
  simp only [rs_sin, rs_cos, rs_atan2, rs_pi, ← hVdef, hS', bind, Except.bind, pySqrt_ok hnn, ← hRdef, bound_id habs]
  by_cases hsm : Scalar.isSmall (Real.cos mu * Real.sin eta) = true
  · simp only [hsm, if_true, pyAcos_ok habs, pure, Except.pure]
    refine ⟨_, rfl, ?_⟩
    rcases hacos with h | h
    · obtain ⟨hq, hp⟩ := hit _ h
      exact ⟨_, List.mem_cons_self, hq, rfl, rfl, rfl, sameAngle_symm h, hp⟩
    · obtain ⟨hq, hp⟩ := hit _ h
      exact ⟨_, List.mem_cons_of_mem _ List.mem_cons_self, hq, rfl, rfl, rfl, sameAngle_symm h, hp⟩
  · simp only [hsm, Bool.false_eq_true, if_false, pyAsin_ok habs, pure, Except.pure]
    refine ⟨_, rfl, ?_⟩
    rcases hasin with h | h
    · obtain ⟨hq, hp⟩ := hit _ h
      exact ⟨_, List.mem_cons_self, hq, rfl, rfl, rfl, sameAngle_symm h, hp⟩
    · obtain ⟨hq, hp⟩ := hit _ h
      exact ⟨_, List.mem_cons_of_mem _ List.mem_cons_self, hq, rfl, rfl, rfl, sameAngle_symm h, hp⟩

/-- **completeness of `__calc_sample_ref_con_chi_eta`** (chi and eta given): mu from a complete, phase-shifted root pair, phi and qaz read off -/
theorem refConChiEta_complete (chi eta psi theta : ℝ) (N : M3 ℝ)
    (qaz0 mu0 phi0 : ℝ) (hS : RefSpec (Vref psi theta N) (qaz0, psi, mu0, eta, chi, phi0))
    (hR : Real.cos chi ≠ 0 ∨ Real.sin chi * Real.sin eta ≠ 0) (hne : (Vref psi theta N).a21 ^ 2 ≠ 1) :
    ∃ l, refConChiEta chi eta psi theta N = .ok l ∧
      ∃ t ∈ l, SameAngle t.1 qaz0 ∧ t.2.1 = psi ∧ SameAngle t.2.2.1 mu0 ∧ t.2.2.2.1 = eta ∧ t.2.2.2.2.1 = chi ∧ SameAngle t.2.2.2.2.2 phi0 := by
  have hV := V_of_refSpec _ qaz0 psi mu0 eta chi phi0 hS
  set V := Vref psi theta N with hVdef
  have e21 : -V.a21 = Real.cos chi * Real.sin mu0 + (Real.sin chi * Real.sin eta) * Real.cos mu0 := by
    rw [hV]; simp only [M3.mul, M3.transpose, C04.Z, rotX, rotZ, rotY, Fq, rs_cos, rs_sin, rs_one, rs_zero, Real.cos_neg, Real.sin_neg]; ring
  obtain ⟨habs, hasin, hacos⟩ := shifted_roots mu0 (Real.cos chi) (Real.sin chi * Real.sin eta) (-V.a21) hR e21
  have hS' : Real.sin eta * Real.sin eta * (Real.sin chi * Real.sin chi) + Real.cos chi * Real.cos chi
      = Real.cos chi * Real.cos chi + Real.sin chi * Real.sin eta * (Real.sin chi * Real.sin eta) := by ring
  have hnn : 0 ≤ Real.cos chi * Real.cos chi + Real.sin chi * Real.sin eta * (Real.sin chi * Real.sin eta) := by
    nlinarith [mul_self_nonneg (Real.sin chi * Real.sin eta), mul_self_nonneg (Real.cos chi)]
  set R := Real.sqrt (Real.cos chi * Real.cos chi + Real.sin chi * Real.sin eta * (Real.sin chi * Real.sin eta)) with hRdef
  have hit : ∀ mu, SameAngle mu0 mu →
      SameAngle (phiAndQaz chi eta mu V).1 qaz0 ∧ SameAngle (phiAndQaz chi eta mu V).2 phi0 := by
    intro mu hs
    exact phiAndQaz_complete chi eta mu qaz0 phi0 V (by rw [hV, Zt_congr_mu mu0 mu eta chi phi0 hs]) hne
  unfold refConChiEta tryAssert
  simp only [rs_sin, rs_cos, rs_atan2, rs_pi, ← hVdef, hS', bind, Except.bind, pySqrt_ok hnn, ← hRdef, bound_id habs]
  by_cases hsm : Scalar.isSmall (Real.cos chi) = true
  · simp only [hsm, if_true, pyAcos_ok habs, pure, Except.pure]
    refine ⟨_, rfl, ?_⟩
    rcases hacos with h | h
    · obtain ⟨hq, hp⟩ := hit _ h
      exact ⟨_, List.mem_cons_self, hq, rfl, sameAngle_symm h, rfl, rfl, hp⟩
    · obtain ⟨hq, hp⟩ := hit _ h
      exact ⟨_, List.mem_cons_of_mem _ List.mem_cons_self, hq, rfl, sameAngle_symm h, rfl, rfl, hp⟩
  · simp only [hsm, Bool.false_eq_true, if_false, pyAsin_ok habs, pure, Except.pure]
    refine ⟨_, rfl, ?_⟩
    rcases hasin with h | h
    · obtain ⟨hq, hp⟩ := hit _ h
      exact ⟨_, List.mem_cons_self, hq, rfl, sameAngle_symm h, rfl, rfl, hp⟩
    · obtain ⟨hq, hp⟩ := hit _ h
      exact ⟨_, List.mem_cons_of_mem _ List.mem_cons_self, hq, rfl, sameAngle_symm h, rfl, rfl, hp⟩

/-- the position carries the two given sample values of a reference + two-sample mode -/
def CarriesRef (s : Samp2Ref ℝ) (mu eta chi phi : ℝ) : Prop :=
  match s with
  | .chiPhi c p => chi = c ∧ phi = p
  | .muEta m e => mu = m ∧ eta = e
  | .chiEta c e => chi = c ∧ eta = e
  | .chiMu c m => chi = c ∧ mu = m
  | .muPhi m p => mu = m ∧ phi = p
  | .etaPhi e p => eta = e ∧ phi = p

/-- generic branch of each of the six solvers at the position to be recovered (no degenerate axis, `V21² ≠ 1`, no sibling root of
    `__get_chi_and_qaz` raising) -/
def Samp2RefRegular (s : Samp2Ref ℝ) (psi theta : ℝ) (N : M3 ℝ) (qaz mu eta chi phi : ℝ) : Prop :=
  match s with
  | .chiPhi _ _ => Scalar.isSmall (Real.cos (Real.arcsin (Real.sin mu))) = false ∧
      (Scalar.isSmall (|Real.cos mu| * Real.sin eta) && Scalar.isSmall (|Real.cos mu| * Real.cos eta)) = false ∧
      (Scalar.isSmall (|Real.cos mu| * Real.sin qaz) && Scalar.isSmall (|Real.cos mu| * Real.cos qaz)) = false
  | .muEta _ _ => (Real.sin eta * Real.cos mu ≠ 0 ∨ Real.sin mu ≠ 0) ∧ (Vref psi theta N).a21 ^ 2 ≠ 1
  | .chiEta _ _ => (Real.cos chi ≠ 0 ∨ Real.sin chi * Real.sin eta ≠ 0) ∧ (Vref psi theta N).a21 ^ 2 ≠ 1
  | .chiMu _ _ => Real.sin chi * Real.cos mu ≠ 0 ∧ (Vref psi theta N).a21 ^ 2 ≠ 1
  | .muPhi _ _ => Scalar.isSmall (Real.cos mu) = false ∧ (Real.cos mu * Real.cos eta) ^ 2 ≠ 1 ∧
      (Scalar.isSmall ((1 - (Real.cos mu * Real.cos eta) ^ 2) * Real.sin chi) && Scalar.isSmall ((1 - (Real.cos mu * Real.cos eta) ^ 2) * Real.cos chi)) = false ∧
      (∀ e ∈ [Real.arccos (Real.cos eta), -Real.arccos (Real.cos eta)], ∃ qc, chiAndQaz mu e (Vref2 phi psi theta N) = .ok qc)
  | .etaPhi _ _ => Scalar.isSmall (Real.cos eta) = false ∧ (Real.cos mu * Real.cos eta) ^ 2 ≠ 1 ∧
      (Scalar.isSmall ((1 - (Real.cos mu * Real.cos eta) ^ 2) * Real.sin chi) && Scalar.isSmall ((1 - (Real.cos mu * Real.cos eta) ^ 2) * Real.cos chi)) = false ∧
      (∀ m ∈ [Real.arccos (Real.cos mu), -Real.arccos (Real.cos mu)], ∃ qc, chiAndQaz m eta (Vref2 phi psi theta N) = .ok qc)

/-- **completeness of `_calc_sample_con_two_sample_and_reference`, all six branches behind the dispatcher**: every solution of the orientation
    equation `Z·N_phi·PSIᵀ·THETAᵀ = F(qaz)` that carries the two given sample angles is returned, modulo 2π in the computed angles -/
theorem twoSampleReference_complete (s : Samp2Ref ℝ) (psi theta : ℝ) (N : M3 ℝ) (hN : IsRot N)
    (qaz0 mu0 eta0 chi0 phi0 : ℝ) (hS : RefSpec (Vref psi theta N) (qaz0, psi, mu0, eta0, chi0, phi0))
    (hc : CarriesRef s mu0 eta0 chi0 phi0) (hr : Samp2RefRegular s psi theta N qaz0 mu0 eta0 chi0 phi0) :
    ∃ l, twoSampleReference s psi theta N = .ok l ∧
      ∃ t ∈ l, SameAngle t.1 qaz0 ∧ t.2.1 = psi ∧ SameAngle t.2.2.1 mu0 ∧ SameAngle t.2.2.2.1 eta0 ∧ SameAngle t.2.2.2.2.1 chi0 ∧ SameAngle t.2.2.2.2.2 phi0 := by
  cases s with
  | chiPhi c p =>
    obtain ⟨rfl, rfl⟩ := hc
    obtain ⟨l, hl, t, ht, h1, h2, h3, h4, h5, h6⟩ := refConChiPhi_complete _ _ psi theta N qaz0 mu0 eta0 hS hr.1 hr.2.1 hr.2.2
    exact ⟨l, hl, t, ht, h1, h2, h3, h4, sameAngle_of_eq h5, sameAngle_of_eq h6⟩
  | muEta m e =>
    obtain ⟨rfl, rfl⟩ := hc
    obtain ⟨l, hl, t, ht, h1, h2, h3, h4, h5, h6⟩ := refConMuEta_complete _ _ psi theta N qaz0 chi0 phi0 hS hr.1 hr.2
    exact ⟨l, hl, t, ht, h1, h2, sameAngle_of_eq h3, sameAngle_of_eq h4, h5, h6⟩
  | chiEta c e =>
    obtain ⟨rfl, rfl⟩ := hc
    obtain ⟨l, hl, t, ht, h1, h2, h3, h4, h5, h6⟩ := refConChiEta_complete _ _ psi theta N qaz0 mu0 phi0 hS hr.1 hr.2
    exact ⟨l, hl, t, ht, h1, h2, h3, sameAngle_of_eq h4, sameAngle_of_eq h5, h6⟩
  | chiMu c m =>
    obtain ⟨rfl, rfl⟩ := hc
    obtain ⟨l, hl, t, ht, h1, h2, h3, h4, h5, h6⟩ := refConChiMu_complete _ _ psi theta N qaz0 eta0 phi0 hS hr.1 hr.2
    exact ⟨l, hl, t, ht, h1, h2, sameAngle_of_eq h3, h4, sameAngle_of_eq h5, h6⟩
  | muPhi m p =>
    obtain ⟨rfl, rfl⟩ := hc
    obtain ⟨l, hl, t, ht, h1, h2, h3, h4, h5, h6⟩ := refConMuPhi_complete _ _ psi theta N hN qaz0 eta0 chi0 hS hr.1 hr.2.1 hr.2.2.1 hr.2.2.2
    exact ⟨l, hl, t, ht, h1, h2, sameAngle_of_eq h3, h4, h5, sameAngle_of_eq h6⟩
  | etaPhi e p =>
    obtain ⟨rfl, rfl⟩ := hc
    obtain ⟨l, hl, t, ht, h1, h2, h3, h4, h5, h6⟩ := refConEtaPhi_complete _ _ psi theta N hN qaz0 mu0 chi0 hS hr.1 hr.2.1 hr.2.2.1 hr.2.2.2
    exact ⟨l, hl, t, ht, h1, h2, h3, sameAngle_of_eq h4, h5, sameAngle_of_eq h6⟩

end
end C03
