import DiffcalcProofs.Props.C01Assembly2
namespace C01
open M3 Solver Scalar PyOps
noncomputable section

/-- `get_hkl` on a candidate converted to degrees is the forward model at the candidate's radians -/
theorem getHkl_solToPos (ub : UBIn ℝ) (s : Sol ℝ) (wl : ℝ) :
    getHkl ub (solToPos s) wl = C04.fwd ub.UB s.1 s.2.1 s.2.2.1 s.2.2.2.1 s.2.2.2.2.1 s.2.2.2.2.2 wl := by
  obtain ⟨mu, delta, nu, eta, chi, phi⟩ := s
  unfold getHkl solToPos Pos.rad
  simp only [toRad_toDeg']
  exact C04.getHkl_eq_fwd ub.UB mu delta nu eta chi phi wl

/-- **from candidates to the returned list**: every position returned by `get_position` is the tidied degree form of a candidate, and whenever
    the degenerate tidy-up leaves that candidate alone, any exactness statement about candidates transfers to `get_hkl` of the returned position -/
theorem getPosition_exact (ub : UBIn ℝ) (mode : Mode ℝ) (hkl : V3 ℝ) (wl : ℝ) (P : Sol ℝ → Prop)
    (hP : AllOk (fun s : Sol ℝ => P s → C04.fwd ub.UB s.1 s.2.1 s.2.2.1 s.2.2.2.1 s.2.2.2.2.1 s.2.2.2.2.2 wl = hkl) (candidates ub mode hkl wl))
    (l : List (Pos ℝ × VAngles ℝ)) (h : getPosition ub mode hkl wl = .ok l) :
    ∀ pv ∈ l, ∃ s : Sol ℝ, pv.1 = tidy mode.info (solToPos s) ∧
      (P s → tidy mode.info (solToPos s) = solToPos s → getHkl ub pv.1 wl = hkl) := by
  unfold getPosition at h
  obtain ⟨pairs, hp, h⟩ := bind_ok_inv h
  obtain ⟨_, _, h⟩ := bind_ok_inv h
  obtain ⟨_, _, h⟩ := bind_ok_inv h
  simp only [pure, Except.pure, Except.ok.injEq] at h
  subst h
  intro pv hpv
  obtain ⟨_, _, cands, s, hc, hs, hps⟩ := C02.filter_sound ub mode hkl wl pairs hp pv hpv
  refine ⟨s, hps, ?_⟩
  intro hPs htidy
  rw [hps, htidy, getHkl_solToPos]
  exact hP cands hc s hs hPs
end
end C01
