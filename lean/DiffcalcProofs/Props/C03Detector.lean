import DiffcalcProofs.Props.C03Assembly
import DiffcalcProofs.Props.C01Detector
/-!
# C03 — completeness of the detector layers from delta and from nu (`calc_detector.py`), and of the dispatcher over all three

A detector position `(delta, nu0)` / `(delta0, nu)` that satisfies the detector relation for some `qaz0` is among the triples
`_calc_remaining_detector_angles_delta` / `_nu` yield, modulo 2π in the two computed angles, on the generic branch: both roots of either
angle are listed, and the sign filter keeps the right combination because the quantities whose signs it compares are tied by the
relation itself.
-/
namespace C03
open M3 Solver Scalar PyOps C01
noncomputable section

/-- equal products of quantities away from zero have equal products of (three-valued) signs -/
theorem sign_mul_eq_of_mul_eq (a b c d : ℝ) (ha : Scalar.isSmall a = false) (hb : Scalar.isSmall b = false)
    (hc : Scalar.isSmall c = false) (hd : Scalar.isSmall d = false) (h : a * b = c * d) :
    (Scalar.sign a : ℝ) * Scalar.sign b = Scalar.sign c * Scalar.sign d := by
  obtain ⟨a1, a2⟩ := sign_facts a ha
  obtain ⟨b1, b2⟩ := sign_facts b hb
  obtain ⟨c1, c2⟩ := sign_facts c hc
  obtain ⟨d1, d2⟩ := sign_facts d hd
  have hab : a * b ≠ 0 := mul_ne_zero (not_small_ne_zero ha) (not_small_ne_zero hb)
  have e1 : (Scalar.sign a * Scalar.sign b) * (a * b) = |a * b| := by rw [abs_mul, ← a1, ← b1]; ring
  have e2 : (Scalar.sign c * Scalar.sign d) * (a * b) = |a * b| := by rw [h, abs_mul, ← c1, ← d1]; ring
  have : ((Scalar.sign a : ℝ) * Scalar.sign b - Scalar.sign c * Scalar.sign d) * (a * b) = 0 := by linear_combination e1 - e2
  rcases mul_eq_zero.mp this with h0 | h0
  · linarith
  · exact absurd h0 hab

theorem isSmall_congr_abs {a b : ℝ} (h : |a| = |b|) : Scalar.isSmall a = Scalar.isSmall b := by
  rw [isSmall_real, isSmall_real, h]

/-- **completeness of `_calc_remaining_detector_angles_delta`** -/
theorem detFromDelta_complete (delta theta nu0 qaz0 : ℝ) (hD : DetSpec delta nu0 qaz0 theta)
    (hcd : Scalar.isSmall (Real.cos delta) = false) (hs2 : Scalar.isSmall (Real.sin (2 * theta)) = false)
    (hgq : Scalar.isSmall (Real.cos (Real.arcsin (Real.sin delta / Real.sin (2 * theta)))) = false)
    (hgn : Scalar.isSmall (Real.arccos (Real.cos (2 * theta) / Real.cos delta)) = false)
    (hsn : Scalar.isSmall (Real.sin nu0) = false) (hcq : Scalar.isSmall (Real.cos qaz0) = false) :
    ∃ l, detFromDelta delta theta = .ok l ∧ ∃ t ∈ l, t.1 = delta ∧ SameAngle t.2.1 nu0 ∧ SameAngle t.2.2 qaz0 := by
  obtain ⟨h1, h2, h3⟩ := hD
  have hcdne := not_small_ne_zero hcd
  have hs2ne := not_small_ne_zero hs2
  have hx : Real.sin delta / Real.sin (2 * theta) = Real.sin qaz0 := by rw [h1]; field_simp
  have hy : Real.cos (2 * theta) / Real.cos delta = Real.cos nu0 := by rw [← h3]; field_simp
  have hxabs : |Real.sin delta / Real.sin (2 * theta)| ≤ 1 := by rw [hx]; exact Real.abs_sin_le_one _
  have hyabs : |Real.cos (2 * theta) / Real.cos delta| ≤ 1 := by rw [hy]; exact Real.abs_cos_le_one _
  set x := Real.sin delta / Real.sin (2 * theta) with hxdef
  set y := Real.cos (2 * theta) / Real.cos delta with hydef
  have hq := asin_roots_complete qaz0 x hxabs hx.symm
  have hn := acos_roots_complete nu0 y hyabs hy.symm
  unfold detFromDelta acosNu boundAsin boundAcos
  simp only [rs_sin, rs_cos, rs_two, rs_pi, rs_zero, ← hxdef, ← hydef]
  rw [bound_id hxabs]
  simp only [bind, Except.bind, pyAsin_ok hxabs]
  rw [if_neg (by rw [hcd]; simp), bound_id hyabs]
  simp only [pyAcos_ok hyabs, catchAssert, hgq, hgn, Bool.false_eq_true, if_false, pure, Except.pure]
  refine ⟨_, rfl, ?_⟩
  -- any listed (qaz, nu) congruent to (qaz0, nu0) passes the sign filter
  have key : ∀ qz nu : ℝ, SameAngle qaz0 qz → SameAngle nu0 nu →
      (qz = Real.arcsin x ∨ qz = Real.pi - Real.arcsin x) → (nu = Real.arccos y ∨ nu = -Real.arccos y) →
      ∃ t ∈ List.filterMap (fun p : ℝ × ℝ => if Scalar.beq (Scalar.sign (Real.sin (2 * theta)) * Scalar.sign (Real.cos p.1))
            (Scalar.sign (Real.sin p.2) * Scalar.sign (Real.cos delta)) = true then some (delta, p.2, p.1) else none)
          (List.flatMap (fun qaz => List.map (fun nu => (qaz, nu)) [Real.arccos y, -Real.arccos y]) [Real.arcsin x, Real.pi - Real.arcsin x]),
        t.1 = delta ∧ SameAngle t.2.1 nu0 ∧ SameAngle t.2.2 qaz0 := by
    intro qz nu hqs hns hqm hnm
    refine ⟨(delta, nu, qz), ?_, rfl, sameAngle_symm hns, sameAngle_symm hqs⟩
    apply List.mem_filterMap.mpr
    refine ⟨(qz, nu), ?_, ?_⟩
    · simp only [List.flatMap_cons, List.flatMap_nil, List.map_cons, List.map_nil, List.append_nil, List.cons_append, List.nil_append,
        List.mem_cons, List.not_mem_nil, or_false, Prod.mk.injEq]
      rcases hqm with rfl | rfl <;> rcases hnm with rfl | rfl <;> simp
    · have hsg : (Scalar.sign (Real.sin (2 * theta)) : ℝ) * Scalar.sign (Real.cos qz) = Scalar.sign (Real.sin nu) * Scalar.sign (Real.cos delta) := by
        rw [← hqs.2, ← hns.1]
        exact sign_mul_eq_of_mul_eq _ _ _ _ hs2 hcq hsn hcd (by linear_combination -h2)
      simp only [rs_beq, hsg, decide_true, if_true]
  rcases hq with hq | hq <;> rcases hn with hn | hn
  · exact key _ _ hq hn (Or.inl rfl) (Or.inl rfl)
  · exact key _ _ hq hn (Or.inl rfl) (Or.inr rfl)
  · exact key _ _ hq hn (Or.inr rfl) (Or.inl rfl)
  · exact key _ _ hq hn (Or.inr rfl) (Or.inr rfl)

theorem sign_eq_mul_of_eq_mul (a c d : ℝ) (ha : Scalar.isSmall a = false) (hc : Scalar.isSmall c = false) (hd : Scalar.isSmall d = false)
    (h : a = c * d) : (Scalar.sign a : ℝ) = Scalar.sign c * Scalar.sign d := by
  have h1 : Scalar.isSmall (1 : ℝ) = false := by rw [isSmall_real]; simp only [decide_eq_false_iff_not, not_le]; norm_num
  have hs1 : (Scalar.sign (1 : ℝ) : ℝ) = 1 := by
    obtain ⟨e1, _⟩ := sign_facts 1 h1
    simpa using e1
  have := sign_mul_eq_of_mul_eq a 1 c d ha h1 hc hd (by rw [mul_one]; exact h)
  rwa [hs1, mul_one] at this

/-- **completeness of `_calc_remaining_detector_angles_nu`** -/
theorem detFromNu_complete (nu theta delta0 qaz0 : ℝ) (hD : DetSpec delta0 nu qaz0 theta)
    (hcn : Scalar.isSmall (Real.cos nu) = false) (hs2 : Scalar.isSmall (Real.sin (2 * theta)) = false)
    (hgq : Scalar.isSmall (Real.arccos (Real.cos (2 * theta) / Real.cos nu * Real.sin nu / Real.sin (2 * theta))) = false)
    (hgd : Scalar.isSmall (Real.arccos (Real.cos (2 * theta) / Real.cos nu)) = false)
    (hsd : Scalar.isSmall (Real.sin delta0) = false) (hsq : Scalar.isSmall (Real.sin qaz0) = false) :
    ∃ l, detFromNu nu theta = .ok l ∧ ∃ t ∈ l, SameAngle t.1 delta0 ∧ t.2.1 = nu ∧ SameAngle t.2.2 qaz0 := by
  obtain ⟨h1, h2, h3⟩ := hD
  have hcnne := not_small_ne_zero hcn
  have hs2ne := not_small_ne_zero hs2
  have hx : Real.cos (2 * theta) / Real.cos nu = Real.cos delta0 := by rw [← h3]; field_simp
  have hy : Real.cos (2 * theta) / Real.cos nu * Real.sin nu / Real.sin (2 * theta) = Real.cos qaz0 := by rw [hx, h2]; field_simp
  have hxabs : |Real.cos (2 * theta) / Real.cos nu| ≤ 1 := by rw [hx]; exact Real.abs_cos_le_one _
  have hyabs : |Real.cos (2 * theta) / Real.cos nu * Real.sin nu / Real.sin (2 * theta)| ≤ 1 := by rw [hy]; exact Real.abs_cos_le_one _
  set x := Real.cos (2 * theta) / Real.cos nu with hxdef
  set y := x * Real.sin nu / Real.sin (2 * theta) with hydef
  have hdl := acos_roots_complete delta0 x hxabs hx.symm
  have hq := acos_roots_complete qaz0 y hyabs hy.symm
  unfold detFromNu boundAcos
  simp only [rs_sin, rs_cos, rs_two, rs_zero, ← hxdef, ← hydef]
  rw [if_neg (by rw [hcn]; simp), bound_id hxabs]
  simp only [bind, Except.bind, pyAcos_ok hxabs]
  rw [bound_id hyabs]
  simp only [pyAcos_ok hyabs, catchAssert, hgq, hgd, Bool.false_eq_true, if_false, pure, Except.pure]
  refine ⟨_, rfl, ?_⟩
  have key : ∀ qz dl : ℝ, SameAngle qaz0 qz → SameAngle delta0 dl →
      (qz = Real.arccos y ∨ qz = -Real.arccos y) → (dl = Real.arccos x ∨ dl = -Real.arccos x) →
      ∃ t ∈ List.filterMap (fun p : ℝ × ℝ => if Scalar.beq (Scalar.sign (Real.sin p.2))
            (Scalar.sign (Real.sin p.1) * Scalar.sign (Real.sin (2 * theta))) = true then some (p.2, nu, p.1) else none)
          (List.flatMap (fun qaz => List.map (fun delta => (qaz, delta)) [Real.arccos x, -Real.arccos x]) [Real.arccos y, -Real.arccos y]),
        SameAngle t.1 delta0 ∧ t.2.1 = nu ∧ SameAngle t.2.2 qaz0 := by
    intro qz dl hqs hds hqm hdm
    refine ⟨(dl, nu, qz), ?_, sameAngle_symm hds, rfl, sameAngle_symm hqs⟩
    apply List.mem_filterMap.mpr
    refine ⟨(qz, dl), ?_, ?_⟩
    · simp only [List.flatMap_cons, List.flatMap_nil, List.map_cons, List.map_nil, List.append_nil, List.cons_append, List.nil_append,
        List.mem_cons, List.not_mem_nil, or_false, Prod.mk.injEq]
      rcases hqm with rfl | rfl <;> rcases hdm with rfl | rfl <;> simp
    · have hsg : (Scalar.sign (Real.sin dl) : ℝ) = Scalar.sign (Real.sin qz) * Scalar.sign (Real.sin (2 * theta)) := by
        rw [← hqs.1, ← hds.1]
        exact sign_eq_mul_of_eq_mul _ _ _ hsd hsq hs2 (by rw [h1]; ring)
      simp only [rs_beq, hsg, decide_true, if_true]
  rcases hq with hq | hq <;> rcases hdl with hdl | hdl
  · exact key _ _ hq hdl (Or.inl rfl) (Or.inl rfl)
  · exact key _ _ hq hdl (Or.inl rfl) (Or.inr rfl)
  · exact key _ _ hq hdl (Or.inr rfl) (Or.inl rfl)
  · exact key _ _ hq hdl (Or.inr rfl) (Or.inr rfl)

/-- the detector position honours the mode's detector constraint -/
def DetCarries (det : DetCon ℝ) (delta nu : ℝ) : Prop :=
  match det with
  | .delta v => delta = v
  | .nu v => nu = v
  | .qaz v => SameAngle (qazOf delta nu) v

/-- generic branch of the detector solver that handles the constraint, at the position to be recovered -/
def DetRegular (det : DetCon ℝ) (delta nu theta : ℝ) : Prop :=
  match det with
  | .delta _ => Scalar.isSmall (Real.cos delta) = false ∧ Scalar.isSmall (Real.sin (2 * theta)) = false ∧
      Scalar.isSmall (Real.cos (Real.arcsin (Real.sin delta / Real.sin (2 * theta)))) = false ∧
      Scalar.isSmall (Real.arccos (Real.cos (2 * theta) / Real.cos delta)) = false ∧
      Scalar.isSmall (Real.sin nu) = false ∧ Scalar.isSmall (Real.cos (qazOf delta nu)) = false
  | .nu _ => Scalar.isSmall (Real.cos nu) = false ∧ Scalar.isSmall (Real.sin (2 * theta)) = false ∧
      Scalar.isSmall (Real.arccos (Real.cos (2 * theta) / Real.cos nu * Real.sin nu / Real.sin (2 * theta))) = false ∧
      Scalar.isSmall (Real.arccos (Real.cos (2 * theta) / Real.cos nu)) = false ∧
      Scalar.isSmall (Real.sin delta) = false ∧ Scalar.isSmall (Real.sin (qazOf delta nu)) = false
  | .qaz _ => Scalar.isSmall (Real.cos delta) = false

/-- **completeness of the detector layer, whichever detector angle is constrained** -/
theorem detRemaining_complete (det : DetCon ℝ) (delta nu theta : ℝ) (hD : DetSpec delta nu (qazOf delta nu) theta)
    (hc : DetCarries det delta nu) (hr : DetRegular det delta nu theta) :
    ∃ ds, detRemaining det theta = .ok ds ∧ ∃ d ∈ ds, SameAngle d.1 delta ∧ SameAngle d.2.1 nu ∧ SameAngle d.2.2 (qazOf delta nu) := by
  cases det with
  | delta v =>
    simp only [DetCarries] at hc; subst hc
    obtain ⟨l, hl, t, ht, h1, h2, h3⟩ := detFromDelta_complete delta theta nu _ hD hr.1 hr.2.1 hr.2.2.1 hr.2.2.2.1 hr.2.2.2.2.1 hr.2.2.2.2.2
    exact ⟨l, hl, t, ht, sameAngle_of_eq h1, h2, h3⟩
  | nu v =>
    simp only [DetCarries] at hc; subst hc
    obtain ⟨l, hl, t, ht, h1, h2, h3⟩ := detFromNu_complete nu theta delta _ hD hr.1 hr.2.1 hr.2.2.1 hr.2.2.2.1 hr.2.2.2.2.1 hr.2.2.2.2.2
    exact ⟨l, hl, t, ht, h1, sameAngle_of_eq h2, h3⟩
  | qaz v =>
    simp only [DetCarries] at hc
    obtain ⟨t, ht, h1, h2, h3⟩ := detFromQaz_complete delta nu v theta (detSpec_congr _ _ _ _ _ hc hD) hr
    exact ⟨_, rfl, t, ht, h1, h2, h3 ▸ sameAngle_symm hc⟩

/-- **any detector constraint (delta, nu or qaz) + two sample angles: completeness end to end** (all 27 mode shapes of this family).
    A position `P` whose forward model is the requested `hkl`, which honours the detector constraint and carries the mode's two sample
    values, is among the candidates of `__calc_hkl_to_position`, every angle modulo 2π.  Side conditions: reference vector not within
    1e-7 of the scattering vector; `P` off the direct beam / exact backscattering; the detector branch and the sample branch on their
    generic sides at `P` (for every representative of `P`'s azimuth: the solver hands the sample layer a root, not `qazOf` itself); and no
    sibling root of the detector layer makes the sample layer raise (an exception in one generator ends the whole request). -/
theorem detSamp2_complete (ub : UBIn ℝ) (U : M3 ℝ) (hU : IsRot U) (hUB : ub.UB = M3.mul U ub.B) (hB : M3.det ub.B ≠ 0)
    (det : DetCon ℝ) (s : Samp2Det ℝ) (hkl : V3 ℝ) (wl : ℝ) (hwl : 0 < wl)
    (hne : 0 < V3.norm (M3.mulVec ub.B hkl)) (hn : 0 < V3.norm ub.n_phi)
    (hx : (1e-7 : ℝ) < V3.norm (V3.cross (V3.unit (M3.mulVec ub.UB hkl)) (V3.unit ub.n_phi)))
    (mu delta nu eta chi phi : ℝ)
    (hf : C04.fwd ub.UB mu delta nu eta chi phi wl = hkl)
    (hs : |Real.cos delta * Real.cos nu| < 1)
    (hdc : DetCarries det delta nu) (hdr : DetRegular det delta nu (thetaOf delta nu))
    (hc : ∀ qz, SameAngle qz (qazOf delta nu) → Carries s (thetaOf delta nu) qz (mu, eta, chi, phi))
    (hr : ∀ N, calcN (M3.mulVec ub.UB hkl) ub.n_phi = .ok N → ∀ qz, SameAngle qz (qazOf delta nu) →
      Samp2DetRegular s N (thetaOf delta nu) qz (mu, eta, chi, phi))
    (hsib : ∀ N, calcN (M3.mulVec ub.UB hkl) ub.n_phi = .ok N → ∀ ds, detRemaining det (thetaOf delta nu) = .ok ds →
      ∀ x ∈ ds, ∃ ys, twoSampleDetector s x.2.2 (thetaOf delta nu) N = .ok ys) :
    ∃ l, candidates ub (.detSamp2 det s) hkl wl = .ok l ∧ ∃ sol ∈ l, SamePosition sol mu delta nu eta chi phi := by
  have hpi := Real.pi_pos
  have hnUB : V3.norm (M3.mulVec ub.UB hkl) = V3.norm (M3.mulVec ub.B hkl) := by rw [hUB]; exact norm_UB U ub.B hU hkl
  have hnUBpos : 0 < V3.norm (M3.mulVec ub.UB hkl) := by rw [hnUB]; exact hne
  have hdetUB : M3.det ub.UB ≠ 0 := by rw [hUB, M3.det_mul, hU.2, one_mul]; exact hB
  obtain ⟨hD, hlo, hhi⟩ := detSpec_of_position delta nu hs
  have hbragg := bragg_of_fwd ub.UB hdetUB mu delta nu eta chi phi wl hwl hkl hf hs
  rw [hnUB] at hbragg
  have hreach : wl * V3.norm (M3.mulVec ub.B hkl) / (4 * Real.pi) ≤ 1 := by rw [hbragg]; exact Real.sin_le_one _
  have hth : Real.arcsin (wl * V3.norm (M3.mulVec ub.B hkl) / (4 * Real.pi)) = thetaOf delta nu := by
    rw [hbragg]; exact Real.arcsin_sin (by linarith) (by linarith)
  obtain ⟨N, hN⟩ := C11.calcN_total (M3.mulVec ub.UB hkl) ub.n_phi
  obtain ⟨hNrot, hNcol⟩ := calcN_generic _ _ N hnUBpos hn hx hN
  have hNunit : N.a00 ^ 2 + N.a10 ^ 2 + N.a20 ^ 2 = 1 := by
    have := congrArg M3.a00 hNrot.1; simp only [M3.mul, M3.transpose, M3.id, rs_one] at this; linear_combination this
  have hZ := decomposition ub.UB hdetUB mu delta nu eta chi phi wl hkl hf
  rw [qLab_of_DetSpec delta nu _ _ wl hD] at hZ
  have hsp : 0 < Real.sin (thetaOf delta nu) := Real.sin_pos_of_pos_of_lt_pi hlo (by linarith)
  have hS0 : SampleSpec ⟨N.a00, N.a10, N.a20⟩ (thetaOf delta nu) (qazOf delta nu) (mu, eta, chi, phi) := by
    unfold SampleSpec
    simp only []
    rw [hNcol, V3.unit_eq_smul _ hnUBpos, M3.mulVec_smul, hZ, hnUB]
    have hnorm : V3.norm (M3.mulVec ub.B hkl) = 2 * (2 * Real.pi / wl) * Real.sin (thetaOf delta nu) := by
      rw [← hbragg]; field_simp; ring
    rw [hnorm]
    ext <;> simp only [V3.smul] <;> field_simp
  obtain ⟨ds, hds, d, hd, hd1, hd2, hd3⟩ := detRemaining_complete det delta nu _ hD hdc hdr
  -- the sample relation for the root the detector layer hands on
  have hS : SampleSpec ⟨N.a00, N.a10, N.a20⟩ (thetaOf delta nu) d.2.2 (mu, eta, chi, phi) := by
    unfold SampleSpec at hS0 ⊢
    rw [hS0]; simp only [qDir, hd3.1, hd3.2]
  obtain ⟨ss, hss, t, ht, hsame⟩ := twoSampleDetector_complete s d.2.2 (thetaOf delta nu) N hNunit _ hS (hc _ hd3) (hr N hN _ hd3)
  unfold candidates
  rw [ttheta_eq ub.B hB hkl wl hwl hne hreach]
  simp only [bind, Except.bind, rs_two]
  have hhalf : 2 * Real.arcsin (wl * V3.norm (M3.mulVec ub.B hkl) / (4 * Real.pi)) / 2 = thetaOf delta nu := by rw [hth]; ring
  rw [hhalf]
  unfold detSampleReference
  simp only [bind, Except.bind]
  rw [hN]
  simp only [hds]
  have hall : ∀ x ∈ ds, ∃ ys,
      (match twoSampleDetector s x.2.2 (thetaOf delta nu) N with
        | Except.error err => Except.error err
        | Except.ok v => Except.ok (List.map (fun x_1 => (x_1.1, x.1, x.2.1, x_1.2.1, x_1.2.2.1, x_1.2.2.2)) v) : Py (List (Sol ℝ))) = .ok ys := by
    intro x hxm
    obtain ⟨ys, hys⟩ := hsib N hN ds hds x hxm
    rw [hys]
    exact ⟨_, rfl⟩
  obtain ⟨l, hl, hmem⟩ := forM'_ok_of_all _ _ hall
  refine ⟨l, ?_, (t.1, d.1, d.2.1, t.2.1, t.2.2.1, t.2.2.2), ?_, hsame.1, hd1, hd2, hsame.2.1, hsame.2.2.1, hsame.2.2.2⟩
  · rw [← hl]; congr 1; funext x; cases twoSampleDetector s x.2.2 (thetaOf delta nu) N <;> rfl
  apply hmem d hd (List.map (fun x_1 => (x_1.1, d.1, d.2.1, x_1.2.1, x_1.2.2.1, x_1.2.2.2)) ss)
  · rw [hss]
  · exact List.mem_map.mpr ⟨t, ht, rfl⟩

end
end C03
