import Diffcalc.Model.Miscut
import Diffcalc.Gen.Rotations
import DiffcalcProofs.Lemmas.RealLinalg
/-!
# C08 (miscut and quaternion parts)

* `rodrigues_isRot`      — the rotation `set_miscut` installs is a proper rotation (for every non-zero axis, every angle);
* `rodrigues_axis_fixed` — it leaves its axis fixed (so it is the rotation *about that axis*; handedness is fixed by
                           the Rodrigues formula itself);
* `getMiscut_setMiscut`  — `get_miscut` returns that angle and (unit) axis when the axis is perpendicular to the unit
                           surface normal and `0 < angle < π`;
* `quatRot_isRot`        — `_get_rot_matrix(_get_quat_from_u123(u))` (GENERATED from `ub/fitting.py`) is a proper rotation
                           for every `u1 ∈ [0,1]` and all `u2, u3`: whatever the optimiser of `fit_ub` returns within its bounds, `U` stays proper.
-/
namespace C08
open M3
noncomputable section

/-- unit components of a non-zero vector -/
theorem unit_comps (k : V3 ℝ) (hk : 0 < V3.norm k) :
    (k.x / V3.norm k)^2 + (k.y / V3.norm k)^2 + (k.z / V3.norm k)^2 = 1 := by
  have hn : V3.norm k ^ 2 = k.x * k.x + k.y * k.y + k.z * k.z := by
    simp only [V3.norm, V3.normSq, V3.dot, rs_sqrt]
    rw [Real.sq_sqrt]
    nlinarith [sq_nonneg k.x, sq_nonneg k.y, sq_nonneg k.z]
  have hne : V3.norm k ≠ 0 := hk.ne'
  field_simp
  linarith

/-- the Rodrigues matrix on explicit unit components and explicit cosine / sine -/
def rodMat (kx ky kz c s : ℝ) : M3 ℝ :=
  ⟨c + kx * kx * (1 - c), kx * ky * (1 - c) - kz * s, kx * kz * (1 - c) + ky * s,
   ky * kx * (1 - c) + kz * s, c + ky * ky * (1 - c), ky * kz * (1 - c) - kx * s,
   kz * kx * (1 - c) - ky * s, kz * ky * (1 - c) + kx * s, c + kz * kz * (1 - c)⟩

theorem rodrigues_eq (k : V3 ℝ) (t : ℝ) :
    rodrigues k t = rodMat (k.x / V3.norm k) (k.y / V3.norm k) (k.z / V3.norm k) (Real.cos t) (Real.sin t) := by
  simp [rodrigues, rodMat]

theorem rodMat_isRot (kx ky kz c s : ℝ) (hk : kx ^ 2 + ky ^ 2 + kz ^ 2 = 1) (hcs : s ^ 2 + c ^ 2 = 1) :
    IsRot (rodMat kx ky kz c s) := by
  constructor
  · ext <;> simp only [M3.mul, M3.transpose, rodMat, M3.id, rs_one, rs_zero]
    · linear_combination (c^2*kx^2 - c^2 - 2*c*kx^2 + kx^2 + 1) * hk + (ky^2 + kz^2) * hcs
    · linear_combination (c^2*kx*ky - 2*c*kx*ky + kx*ky) * hk + (-kx*ky) * hcs
    · linear_combination (c^2*kx*kz - 2*c*kx*kz + kx*kz) * hk + (-kx*kz) * hcs
    · linear_combination (c^2*kx*ky - 2*c*kx*ky + kx*ky) * hk + (-kx*ky) * hcs
    · linear_combination (c^2*ky^2 - 2*c*ky^2 + ky^2 + s^2) * hk + (1 - ky^2) * hcs
    · linear_combination (c^2*ky*kz - 2*c*ky*kz + ky*kz) * hk + (-ky*kz) * hcs
    · linear_combination (c^2*kx*kz - 2*c*kx*kz + kx*kz) * hk + (-kx*kz) * hcs
    · linear_combination (c^2*ky*kz - 2*c*ky*kz + ky*kz) * hk + (-ky*kz) * hcs
    · linear_combination (c^2*kz^2 - 2*c*kz^2 + kz^2 + s^2) * hk + (1 - kz^2) * hcs
  · simp only [M3.det, rodMat]
    linear_combination (-c^3 + c^2 - c*kx^2*s^2 - c*ky^2*s^2 - c*kz^2*s^2 + kx^2*s^2 + ky^2*s^2 + kz^2*s^2 + s^2) * hk + (1) * hcs

theorem rodrigues_isRot (k : V3 ℝ) (t : ℝ) (hk : 0 < V3.norm k) : IsRot (rodrigues k t) := by
  rw [rodrigues_eq]
  exact rodMat_isRot _ _ _ _ _ (unit_comps k hk) (Real.sin_sq_add_cos_sq t)

theorem rodrigues_axis_fixed (k : V3 ℝ) (t : ℝ) (hk : 0 < V3.norm k) :
    M3.mulVec (rodrigues k t) (V3.unit k) = V3.unit k := by
  have hk := unit_comps k hk
  rw [rodrigues_eq]
  simp only [V3.unit]
  generalize k.x / V3.norm k = kx at hk ⊢
  generalize k.y / V3.norm k = ky at hk ⊢
  generalize k.z / V3.norm k = kz at hk ⊢
  ext <;> simp only [M3.mulVec, rodMat]
  · linear_combination (-Real.cos t*kx + kx) * hk
  · linear_combination (-Real.cos t*ky + ky) * hk
  · linear_combination (-Real.cos t*kz + kz) * hk

/-- the algebra behind `get_miscut`: for a unit axis `k` perpendicular to the unit surface normal `s`,
    `s × (R s) = sin θ · k` and `s · (R s) = cos θ` -/
theorem miscut_algebra (k s : V3 ℝ) (t : ℝ) (hk : V3.norm k = 1) (hs : V3.dot s s = 1) (hperp : V3.dot k s = 0) :
    V3.cross s (M3.mulVec (rodrigues k t) s) = V3.smul (Real.sin t) k ∧
    V3.dot s (M3.mulVec (rodrigues k t) s) = Real.cos t := by
  have hkk : k.x * k.x + k.y * k.y + k.z * k.z = 1 := by
    have h2 := unit_comps k (by rw [hk]; norm_num)
    rw [hk] at h2; simpa [pow_two] using h2
  simp only [V3.dot] at hs hperp
  constructor
  · ext <;> simp only [V3.cross, M3.mulVec, rodrigues, V3.smul, hk, div_one, rs_one, rs_cos, rs_sin]
    · linear_combination (Real.sin t * k.x) * hs + (-(Real.sin t) * s.x - (1 - Real.cos t) * (k.y * s.z - k.z * s.y)) * hperp
    · linear_combination (Real.sin t * k.y) * hs + (-(Real.sin t) * s.y - (1 - Real.cos t) * (k.z * s.x - k.x * s.z)) * hperp
    · linear_combination (Real.sin t * k.z) * hs + (-(Real.sin t) * s.z - (1 - Real.cos t) * (k.x * s.y - k.y * s.x)) * hperp
  · simp only [V3.dot, M3.mulVec, rodrigues, hk, div_one, rs_one, rs_cos, rs_sin]
    linear_combination (Real.cos t) * hs + ((1 - Real.cos t) * (k.x * s.x + k.y * s.y + k.z * s.z)) * hperp

theorem norm_rot (r : M3 ℝ) (hr : IsRot r) (v : V3 ℝ) : V3.norm (M3.mulVec r v) = V3.norm v := by
  have h := hr.1
  have e : V3.normSq (M3.mulVec r v) = V3.normSq v := by
    have h00 := congrArg M3.a00 h; have h01 := congrArg M3.a01 h; have h02 := congrArg M3.a02 h
    have h11 := congrArg M3.a11 h; have h12 := congrArg M3.a12 h; have h22 := congrArg M3.a22 h
    simp only [M3.mul, M3.transpose, M3.id, rs_one, rs_zero] at h00 h01 h02 h11 h12 h22
    simp only [V3.normSq, V3.dot, M3.mulVec]
    linear_combination (v.x*v.x) * h00 + (2*v.x*v.y) * h01 + (2*v.x*v.z) * h02 + (v.y*v.y) * h11 + (2*v.y*v.z) * h12 + (v.z*v.z) * h22
  simp only [V3.norm, e]

/-- **C08, get_miscut ∘ set_miscut**: for a unit axis perpendicular to the unit lab-frame surface normal and
    `0 < θ < π`, `get_miscut` on `U = Rod(k, θ)` returns `θ` (in degrees) and the axis `k` -/
theorem getMiscut_setMiscut (k s : V3 ℝ) (t : ℝ) (hk : V3.norm k = 1) (hs : V3.dot s s = 1)
    (hperp : V3.dot k s = 0) (ht0 : 0 < t) (ht1 : t < Real.pi) (hbig : (1e-7 : ℝ) ≤ Real.sin t) :
    Miscut.getMiscut (rodrigues k t) s = .ok (Scalar.toDeg t, k) := by
  obtain ⟨hcross, hdot⟩ := miscut_algebra k s t hk hs hperp
  have hsin : 0 < Real.sin t := Real.sin_pos_of_pos_of_lt_pi ht0 ht1
  have hrot := rodrigues_isRot k t (by rw [hk]; norm_num)
  have hns : V3.norm s = 1 := by simp [V3.norm, V3.normSq, hs]
  have hnr : V3.norm (M3.mulVec (rodrigues k t) s) = 1 := by rw [norm_rot _ hrot, hns]
  have hnax : V3.norm (V3.smul (Real.sin t) k) = Real.sin t := by rw [V3.norm_smul_pos _ hsin, hk, mul_one]
  have hcos1 : |Real.cos t| ≤ 1 := Real.abs_cos_le_one t
  unfold Miscut.getMiscut
  simp only [hcross, hdot, hnr, hns, hnax, mul_one, div_one]
  have h1 : Scalar.lt (Scalar.abs (Real.sin t)) (Scalar.SMALL : ℝ) = false := by
    simp only [rs_lt, rs_abs, Scalar.SMALL, Scalar.ofSci, decide_eq_false_iff_not, not_lt]
    rw [abs_of_pos hsin]; norm_num at hbig ⊢; linarith
  simp only [h1, Bool.false_eq_true, if_false]
  have hb : PyOps.bound (Real.cos t) = .ok (Real.cos t) := by
    unfold PyOps.bound
    have a1 : Scalar.lt ((Scalar.one : ℝ) + Scalar.SMALL) (Scalar.abs (Real.cos t)) = false := by
      simp only [rs_lt, rs_abs, rs_one, Scalar.SMALL, Scalar.ofSci, decide_eq_false_iff_not, not_lt]
      norm_num; linarith
    have a2 : Scalar.lt (Scalar.one : ℝ) (Real.cos t) = false := by
      simp only [rs_lt, rs_one, decide_eq_false_iff_not, not_lt]; exact Real.cos_le_one t
    have a3 : Scalar.lt (Real.cos t) (-(Scalar.one : ℝ)) = false := by
      simp only [rs_lt, rs_one, decide_eq_false_iff_not, not_lt]; exact Real.neg_one_le_cos t
    simp only [a1, a2, a3, Bool.false_eq_true, if_false]
  have ha : PyOps.pyAcos (Real.cos t) = .ok t := by
    unfold PyOps.pyAcos
    have : Scalar.lt (Scalar.one : ℝ) (Scalar.abs (Real.cos t)) = false := by
      simp only [rs_lt, rs_abs, rs_one, decide_eq_false_iff_not, not_lt]; exact hcos1
    simp only [this, Bool.false_eq_true, if_false, rs_acos]
    rw [Real.arccos_cos ht0.le ht1.le]
  simp only [hb, ha, bind, Except.bind, pure, Except.pure]
  congr 2
  rw [V3.unit_eq_smul _ (by rw [hnax]; exact hsin), hnax]
  ext <;> simp only [V3.smul] <;> field_simp

theorem abs_dot_le_norms (a b : V3 ℝ) : |V3.dot a b| ≤ V3.norm a * V3.norm b := by
  have hl : V3.dot (V3.cross a b) (V3.cross a b) = V3.dot a a * V3.dot b b - V3.dot a b ^ 2 := by
    simp only [V3.dot, V3.cross]; ring
  have hn : 0 ≤ V3.dot (V3.cross a b) (V3.cross a b) := by
    simp only [V3.dot]; nlinarith [mul_self_nonneg (V3.cross a b).x, mul_self_nonneg (V3.cross a b).y, mul_self_nonneg (V3.cross a b).z]
  have h1 : V3.norm a * V3.norm a = V3.dot a a := by simp only [V3.norm, rs_sqrt]; exact Real.mul_self_sqrt (V3.normSq_nonneg a)
  have h2 : V3.norm b * V3.norm b = V3.dot b b := by simp only [V3.norm, rs_sqrt]; exact Real.mul_self_sqrt (V3.normSq_nonneg b)
  have hab := mul_nonneg (V3.norm_nonneg a) (V3.norm_nonneg b)
  apply abs_le_of_sq_le_sq _ hab
  nlinarith

/-- **C11 (textual reports) / C08**: `get_miscut` never leaves through `bound`'s AssertionError, whatever the length of the surface vector —
    the defect of the pinned tree (`cos = s·Us / |Us|`, not divided by `|s|`) made `str(UBCalculation)` raise for `surf_nphi = (0, 0, 2)` -/
theorem getMiscut_total (U : M3 ℝ) (hU : IsRot U) (s : V3 ℝ) : ∃ r, Miscut.getMiscut U s = .ok r := by
  unfold Miscut.getMiscut
  simp only []
  split
  · exact ⟨_, rfl⟩
  · have hle := abs_dot_le_norms s (M3.mulVec U s)
    have hn := norm_rot U hU s
    have hx : |V3.dot s (M3.mulVec U s) / (V3.norm s * V3.norm (M3.mulVec U s))| ≤ 1 := by
      by_cases h0 : V3.norm s * V3.norm (M3.mulVec U s) = 0
      · rw [h0, div_zero, abs_zero]; norm_num
      · have hpos : 0 < V3.norm s * V3.norm (M3.mulVec U s) :=
          lt_of_le_of_ne (mul_nonneg (V3.norm_nonneg _) (V3.norm_nonneg _)) (Ne.symm h0)
        rw [abs_div, abs_of_pos hpos]
        exact (div_le_one hpos).mpr hle
    obtain ⟨l, u⟩ := abs_le.mp hx
    have hb : PyOps.bound (V3.dot s (M3.mulVec U s) / (V3.norm s * V3.norm (M3.mulVec U s)))
        = .ok (V3.dot s (M3.mulVec U s) / (V3.norm s * V3.norm (M3.mulVec U s))) := by
      unfold PyOps.bound
      have a1 : Scalar.lt ((Scalar.one : ℝ) + Scalar.SMALL) (Scalar.abs (V3.dot s (M3.mulVec U s) / (V3.norm s * V3.norm (M3.mulVec U s)))) = false := by
        simp only [rs_lt, rs_abs, rs_one, Scalar.SMALL, Scalar.ofSci, decide_eq_false_iff_not, not_lt]
        have : (0:ℝ) ≤ OfScientific.ofScientific 1 true 7 := by norm_num
        linarith
      have a2 : Scalar.lt (Scalar.one : ℝ) (V3.dot s (M3.mulVec U s) / (V3.norm s * V3.norm (M3.mulVec U s))) = false := by
        simp only [rs_lt, rs_one, decide_eq_false_iff_not, not_lt]; exact u
      have a3 : Scalar.lt (V3.dot s (M3.mulVec U s) / (V3.norm s * V3.norm (M3.mulVec U s))) (-(Scalar.one : ℝ)) = false := by
        simp only [rs_lt, rs_one, decide_eq_false_iff_not, not_lt]; exact l
      simp only [a1, a2, a3, Bool.false_eq_true, if_false]
    have ha : PyOps.pyAcos (V3.dot s (M3.mulVec U s) / (V3.norm s * V3.norm (M3.mulVec U s)))
        = .ok (Real.arccos (V3.dot s (M3.mulVec U s) / (V3.norm s * V3.norm (M3.mulVec U s)))) := by
      unfold PyOps.pyAcos
      have : Scalar.lt (Scalar.one : ℝ) (Scalar.abs (V3.dot s (M3.mulVec U s) / (V3.norm s * V3.norm (M3.mulVec U s)))) = false := by
        simp only [rs_lt, rs_abs, rs_one, decide_eq_false_iff_not, not_lt]; exact hx
      simp only [this, Bool.false_eq_true, if_false, rs_acos]
    simp only [hb, ha, bind, Except.bind, pure, Except.pure]
    exact ⟨_, rfl⟩

/-- **C08 / C15**: the matrix built from any point of the optimiser's box is a proper rotation -/
theorem quatRot_isRot (u1 u2 u3 : ℝ) (h0 : 0 ≤ u1) (h1 : u1 ≤ 1) :
    let q := Gen.get_quat_from_u123 u1 u2 u3
    IsRot (Gen.get_rot_matrix q.1 q.2.1 q.2.2.1 q.2.2.2) := by
  simp only [Gen.get_quat_from_u123]
  have ha : Real.sqrt (1 - u1) ^ 2 = 1 - u1 := Real.sq_sqrt (by linarith)
  have hb : Real.sqrt u1 ^ 2 = u1 := Real.sq_sqrt h0
  have e2 := Real.sin_sq_add_cos_sq (2 * Real.pi * u2)
  have e3 := Real.sin_sq_add_cos_sq (2 * Real.pi * u3)
  have hq : (Real.sqrt (1 - u1) * Real.sin (2 * Real.pi * u2))^2 + (Real.sqrt (1 - u1) * Real.cos (2 * Real.pi * u2))^2
      + (Real.sqrt u1 * Real.sin (2 * Real.pi * u3))^2 + (Real.sqrt u1 * Real.cos (2 * Real.pi * u3))^2 = 1 := by
    have : (Real.sqrt (1 - u1) * Real.sin (2 * Real.pi * u2))^2 + (Real.sqrt (1 - u1) * Real.cos (2 * Real.pi * u2))^2
      + (Real.sqrt u1 * Real.sin (2 * Real.pi * u3))^2 + (Real.sqrt u1 * Real.cos (2 * Real.pi * u3))^2
      = Real.sqrt (1 - u1)^2 * (Real.sin (2 * Real.pi * u2)^2 + Real.cos (2 * Real.pi * u2)^2)
        + Real.sqrt u1 ^2 * (Real.sin (2 * Real.pi * u3)^2 + Real.cos (2 * Real.pi * u3)^2) := by ring
    rw [this, e2, e3, ha, hb]; ring
  simp only [rs_sqrt, rs_sin, rs_cos, rs_pi, rs_ofNat, Nat.cast_ofNat, Nat.cast_one]
  generalize Real.sqrt (1 - u1) * Real.sin (2 * Real.pi * u2) = q0 at hq ⊢
  generalize Real.sqrt (1 - u1) * Real.cos (2 * Real.pi * u2) = q1 at hq ⊢
  generalize Real.sqrt u1 * Real.sin (2 * Real.pi * u3) = q2 at hq ⊢
  generalize Real.sqrt u1 * Real.cos (2 * Real.pi * u3) = q3 at hq ⊢
  constructor
  · ext <;> simp only [M3.mul, M3.transpose, Gen.get_rot_matrix, M3.id, rs_one, rs_zero, rs_ofNat, Nat.cast_ofNat]
    · linear_combination (q0^2 + q1^2 + q2^2 + q3^2 + 1) * hq
    · linear_combination (0:ℝ) * hq
    · linear_combination (0:ℝ) * hq
    · linear_combination (0:ℝ) * hq
    · linear_combination (q0^2 + q1^2 + q2^2 + q3^2 + 1) * hq
    · linear_combination (0:ℝ) * hq
    · linear_combination (0:ℝ) * hq
    · linear_combination (0:ℝ) * hq
    · linear_combination (q0^2 + q1^2 + q2^2 + q3^2 + 1) * hq
  · simp only [M3.det, Gen.get_rot_matrix, rs_ofNat, Nat.cast_ofNat]
    linear_combination ((q0^2 + q1^2 + q2^2 + q3^2)^2 + (q0^2 + q1^2 + q2^2 + q3^2) + 1) * hq
end
end C08
