import DiffcalcProofs.Props.C03Sample10
import DiffcalcProofs.Props.C03Sample5
import DiffcalcProofs.Props.C03Sample7
import DiffcalcProofs.Props.C03Sample8
import DiffcalcProofs.Props.C01Assembly
/-!
# C03 — completeness assembled end to end: detector (qaz) + two sample angles

`detSamp2_qaz_complete`: a physical position `P = (mu, delta, nu, eta, chi, phi)` whose forward model is the requested `hkl`
(`C04.fwd UB P λ = hkl`), which honours the qaz constraint and the two sample constraints of the mode, is among the candidates that
`__calc_hkl_to_position` produces for that request — modulo 2π in every angle — for all nine mode shapes `qaz + two sample constraints`
(generic branch of each layer; the side conditions are those of the branch theorems, collected in `Samp2DetRegular`).

The pieces: (1) `decomposition` — a position whose forward model is `hkl` satisfies the detector relation for its own `(θ_P, qaz)` and the
sample relation `Z · UB·hkl = |q| qDir θ_P qaz`; (2) `bragg_of_fwd` — its `θ_P` is the Bragg angle the solver computes from the cell;
(3) `twoSampleDetector_complete` — the nine branch theorems behind one dispatcher statement; (4) the detector layer from qaz is complete
(`C03.detFromQaz_complete`); (5) the walk through the nested generator loops (`forM'_ok_of_all`).
-/
namespace C03
open M3 Solver Scalar PyOps C01
noncomputable section

/-- the position carries the two given sample values of the mode (for the bisect modes: satisfies the bisect relations, for some
    `theta + omega`) -/
def Carries (s : Samp2Det ℝ) (theta qaz : ℝ) (p : STuple ℝ) : Prop :=
  match s with
  | .muEta mu eta => p.1 = mu ∧ p.2.1 = eta
  | .omegaBisect om => Real.tan p.1 = Real.tan (theta + om) * Real.cos qaz ∧ Real.sin p.2.1 = Real.sin (theta + om) * Real.sin qaz
  | .muBisect mu => p.1 = mu ∧ ∃ th, Real.tan mu = Real.tan th * Real.cos qaz ∧ Real.sin p.2.1 = Real.sin th * Real.sin qaz ∧ Real.cos th ≠ 0 ∧
      ∀ th', SameAngle th' th → Scalar.isSmall (|Real.arcsin (Real.sin th' * Real.sin qaz)| - Real.pi / 2) = false
  | .etaBisect eta => p.2.1 = eta ∧ ∃ th, Real.tan p.1 = Real.tan th * Real.cos qaz ∧ Real.sin eta = Real.sin th * Real.sin qaz
  | .chiPhi chi phi => p.2.2.1 = chi ∧ p.2.2.2 = phi
  | .muPhi mu phi => p.1 = mu ∧ p.2.2.2 = phi
  | .muChi mu chi => p.1 = mu ∧ p.2.2.1 = chi
  | .etaPhi eta phi => p.2.1 = eta ∧ p.2.2.2 = phi
  | .etaChi eta chi => p.2.1 = eta ∧ p.2.2.1 = chi

/-- the generic branch of each of the nine sample solvers, at the position `p` that is to be recovered: the side conditions of the
    branch completeness theorems (no degenerate axis, no coincident-root shortcut, no gimbal lock) -/
def Samp2DetRegular (s : Samp2Det ℝ) (N : M3 ℝ) (theta qaz : ℝ) (p : STuple ℝ) : Prop :=
  let h : V3 ℝ := ⟨N.a00, N.a10, N.a20⟩
  match s with
  | .muEta mu eta => (Scalar.isSmall N.a00 && Scalar.isSmall N.a10) = false ∧
      (outerInv mu eta (qDir theta qaz)).x ^ 2 + (outerInv mu eta (qDir theta qaz)).z ^ 2 ≠ 0
  | .omegaBisect om => Real.cos p.1 ≠ 0 ∧
      Scalar.isSmall (|Real.arcsin (Real.sin (theta + om) * Real.sin qaz)| - Real.pi / 2) = false ∧
      (Scalar.isSmall N.a00 && Scalar.isSmall N.a10) = false ∧
      (outerInv p.1 p.2.1 (qDir theta qaz)).x ^ 2 + (outerInv p.1 p.2.1 (qDir theta qaz)).z ^ 2 ≠ 0
  | .muBisect mu => Scalar.isSmall (Real.cos qaz) = false ∧
      (Scalar.isSmall N.a00 && Scalar.isSmall N.a10) = false ∧
      (outerInv mu p.2.1 (qDir theta qaz)).x ^ 2 + (outerInv mu p.2.1 (qDir theta qaz)).z ^ 2 ≠ 0
  | .etaBisect eta => Real.cos p.1 ≠ 0 ∧ Scalar.isSmall (Real.sin qaz) = false ∧
      Scalar.isSmall (|Real.arcsin (Real.sin eta / Real.sin qaz)| - Real.pi / 2) = false ∧
      (Scalar.isSmall N.a00 && Scalar.isSmall N.a10) = false ∧
      (outerInv p.1 eta (qDir theta qaz)).x ^ 2 + (outerInv p.1 eta (qDir theta qaz)).z ^ 2 ≠ 0
  | .chiPhi chi phi => (Real.sin theta ≠ 0 ∨ -(Real.cos qaz) * Real.cos theta ≠ 0) ∧
      (∀ mu ∈ [Real.arcsin ((inner chi phi h).z / Scalar.hypot (Real.sin theta) (-(Real.cos qaz) * Real.cos theta))
            + atan2R (-(Real.cos qaz) * Real.cos theta) (Real.sin theta),
          Real.pi - Real.arcsin ((inner chi phi h).z / Scalar.hypot (Real.sin theta) (-(Real.cos qaz) * Real.cos theta))
            + atan2R (-(Real.cos qaz) * Real.cos theta) (Real.sin theta)],
        (Scalar.isSmall (chiPhiXY (inner chi phi h) qaz theta mu).1 && Scalar.isSmall (chiPhiXY (inner chi phi h) qaz theta mu).2) = false) ∧
      (inner chi phi h).x ^ 2 + (inner chi phi h).y ^ 2 ≠ 0
  | .muPhi mu phi => (N.a00 * Real.cos phi + N.a10 * Real.sin phi ≠ 0 ∨ N.a20 ≠ 0) ∧
      (M3.mulVec (M3.transpose (rotX mu)) (qDir theta qaz)).x ^ 2 + (M3.mulVec (M3.transpose (rotX mu)) (qDir theta qaz)).y ^ 2 ≠ 0
  | .muChi mu chi => Scalar.isSmall (Real.sin chi) = false ∧ (Scalar.isSmall N.a10 && Scalar.isSmall N.a00) = false ∧
      (Scalar.isSmall (-(Real.cos qaz) * Real.cos theta * Real.sin mu + Real.cos mu * Real.sin theta) && Scalar.isSmall (Real.sin qaz * Real.cos theta)) = false ∧
      Scalar.isSmall (Real.arccos ((N.a20 * Real.cos chi - (Real.cos mu * Real.cos qaz * Real.cos theta + Real.sin mu * Real.sin theta)) /
              (Real.sin chi * Scalar.hypot N.a10 N.a00))) = false ∧
      (∀ phi, SameAngle phi p.2.2.2 → (inner chi phi h).x ^ 2 + (inner chi phi h).y ^ 2 ≠ 0)
  | .etaPhi eta phi => Real.cos eta ≠ 0 ∧ (-(Real.sin theta) ≠ 0 ∨ Real.cos theta * Real.cos qaz ≠ 0) ∧
      (Scalar.isSmall N.a20 && Scalar.isSmall (N.a00 * Real.cos phi + N.a10 * Real.sin phi)) = false ∧
      Scalar.isSmall (Real.arccos ((Real.sin qaz * Real.cos theta / Real.cos eta - (N.a10 * Real.cos phi - N.a00 * Real.sin phi) * Real.tan eta) /
              Scalar.hypot N.a20 (N.a00 * Real.cos phi + N.a10 * Real.sin phi))) = false ∧
      (∀ chi, SameAngle chi p.2.2.1 → (M3.mulVec (ecp eta chi phi) h).y ^ 2 + (M3.mulVec (ecp eta chi phi) h).z ^ 2 ≠ 0)
  | .etaChi eta chi => (1e-7 : ℝ) < Real.sin theta ^ 2 + (Real.cos qaz * Real.cos theta) ^ 2 ∧
      (Scalar.isSmall (N.a10 * Real.cos chi * Real.cos eta - N.a00 * Real.sin eta) &&
            Scalar.isSmall (N.a00 * Real.cos chi * Real.cos eta + N.a10 * Real.sin eta)) = false ∧
      Scalar.isSmall (Real.arccos ((Real.cos theta * Real.sin qaz - N.a20 * Real.cos eta * Real.sin chi) /
              Scalar.hypot (N.a10 * Real.cos chi * Real.cos eta - N.a00 * Real.sin eta) (N.a00 * Real.cos chi * Real.cos eta + N.a10 * Real.sin eta))) = false ∧
      (∀ phi ∈ [Real.arccos ((Real.cos theta * Real.sin qaz - N.a20 * Real.cos eta * Real.sin chi) /
              Scalar.hypot (N.a10 * Real.cos chi * Real.cos eta - N.a00 * Real.sin eta) (N.a00 * Real.cos chi * Real.cos eta + N.a10 * Real.sin eta))
            + atan2R (N.a10 * Real.cos chi * Real.cos eta - N.a00 * Real.sin eta) (N.a00 * Real.cos chi * Real.cos eta + N.a10 * Real.sin eta),
          -Real.arccos ((Real.cos theta * Real.sin qaz - N.a20 * Real.cos eta * Real.sin chi) /
              Scalar.hypot (N.a10 * Real.cos chi * Real.cos eta - N.a00 * Real.sin eta) (N.a00 * Real.cos chi * Real.cos eta + N.a10 * Real.sin eta))
            + atan2R (N.a10 * Real.cos chi * Real.cos eta - N.a00 * Real.sin eta) (N.a00 * Real.cos chi * Real.cos eta + N.a10 * Real.sin eta)],
        ∃ t, etaChiInner eta chi qaz theta N phi = .ok [t]) ∧
      (∀ phi, SameAngle phi p.2.2.2 → (M3.mulVec (ecp eta chi phi) h).y ^ 2 + (M3.mulVec (ecp eta chi phi) h).z ^ 2 ≠ 0)

theorem sameAngle_of_eq {a b : ℝ} (h : a = b) : SameAngle a b := h ▸ sameAngle_refl a

/-- **completeness of `_calc_sample_con_two_sample_and_detector`, all nine branches behind the dispatcher**: a tuple that satisfies the
    sample relation and carries the mode's two given values is returned, modulo 2π -/
theorem twoSampleDetector_complete (s : Samp2Det ℝ) (qaz theta : ℝ) (N : M3 ℝ) (hN : N.a00 ^ 2 + N.a10 ^ 2 + N.a20 ^ 2 = 1)
    (p : STuple ℝ) (hS : SampleSpec ⟨N.a00, N.a10, N.a20⟩ theta qaz p) (hc : Carries s theta qaz p) (hr : Samp2DetRegular s N theta qaz p) :
    ∃ l, twoSampleDetector s qaz theta N = .ok l ∧ ∃ t ∈ l, SameTuple t p := by
  obtain ⟨mu0, eta0, chi0, phi0⟩ := p
  cases s with
  | muEta mu eta =>
    obtain ⟨rfl, rfl⟩ := hc
    obtain ⟨l, hl, t, ht, h1, h2, h3, h4⟩ := sampleConMuEta_complete _ _ qaz theta N hN chi0 phi0 hS hr.1 hr.2
    exact ⟨l, hl, t, ht, sameAngle_of_eq h1, sameAngle_of_eq h2, h3, h4⟩
  | omegaBisect om =>
    obtain ⟨l, hl, t, ht, h⟩ := omegaBisect_complete om qaz theta N hN mu0 eta0 chi0 phi0 hS hc.1 hc.2 hr.1 hr.2.1 hr.2.2.1 hr.2.2.2
    exact ⟨l, hl, t, ht, h⟩
  | muBisect mu =>
    obtain ⟨rfl, th, hBm, hBe, hct, hgen⟩ := hc
    obtain ⟨l, hl, t, ht, h1, h2, h3, h4⟩ := muBisect_complete _ qaz theta N hN eta0 chi0 phi0 th hS hBm hBe hct hr.1 hgen hr.2.1 hr.2.2
    exact ⟨l, hl, t, ht, sameAngle_of_eq h1, h2, h3, h4⟩
  | etaBisect eta =>
    obtain ⟨rfl, th, hBm, hBe⟩ := hc
    obtain ⟨l, hl, t, ht, h1, h2, h3, h4⟩ := etaBisect_complete _ qaz theta N hN mu0 chi0 phi0 th hS hBm hBe hr.1 hr.2.1 hr.2.2.1 hr.2.2.2.1 hr.2.2.2.2
    exact ⟨l, hl, t, ht, h1, sameAngle_of_eq h2, h3, h4⟩
  | chiPhi chi phi =>
    obtain ⟨rfl, rfl⟩ := hc
    obtain ⟨l, hl, t, ht, h1, h2, h3, h4⟩ := sampleConChiPhi_complete _ _ qaz theta N hN mu0 eta0 hS hr.1 hr.2.1 hr.2.2
    exact ⟨l, hl, t, ht, h1, h2, sameAngle_of_eq h3, sameAngle_of_eq h4⟩
  | muPhi mu phi =>
    obtain ⟨rfl, rfl⟩ := hc
    obtain ⟨l, hl, t, ht, h1, h2, h3, h4⟩ := sampleConMuPhi_complete _ _ qaz theta N hN eta0 chi0 hS hr.1 hr.2
    exact ⟨l, hl, t, ht, sameAngle_of_eq h1, h2, h3, sameAngle_of_eq h4⟩
  | muChi mu chi =>
    obtain ⟨rfl, rfl⟩ := hc
    obtain ⟨l, hl, t, ht, h1, h2, h3, h4⟩ := sampleConMuChi_complete _ _ qaz theta N hN eta0 phi0 hS hr.1 hr.2.1 hr.2.2.1 hr.2.2.2.1 hr.2.2.2.2
    exact ⟨l, hl, t, ht, sameAngle_of_eq h1, h2, sameAngle_of_eq h3, h4⟩
  | etaPhi eta phi =>
    obtain ⟨rfl, rfl⟩ := hc
    obtain ⟨l, hl, t, ht, h1, h2, h3, h4⟩ := sampleConEtaPhi_complete _ _ qaz theta N hN mu0 chi0 hS hr.1 hr.2.1 hr.2.2.1 hr.2.2.2.1 hr.2.2.2.2
    exact ⟨l, hl, t, ht, h1, sameAngle_of_eq h2, h3, sameAngle_of_eq h4⟩
  | etaChi eta chi =>
    obtain ⟨rfl, rfl⟩ := hc
    obtain ⟨l, hl, t, ht, h1, h2, h3, h4⟩ := sampleConEtaChi_complete _ _ qaz theta N hN mu0 phi0 hS hr.1 hr.2.1 hr.2.2.1 hr.2.2.2.1 hr.2.2.2.2
    exact ⟨l, hl, t, ht, h1, sameAngle_of_eq h2, sameAngle_of_eq h3, h4⟩

/-! ## from the forward model to the two layer relations -/

/-- the Bragg angle carried by a detector position: `cos 2θ = cos δ · cos ν` -/
def thetaOf (delta nu : ℝ) : ℝ := Real.arccos (Real.cos delta * Real.cos nu) / 2
/-- the azimuth of the scattering plane carried by a detector position: `tan qaz = tan δ / sin ν` -/
def qazOf (delta nu : ℝ) : ℝ := atan2R (Real.sin delta) (Real.cos delta * Real.sin nu)

/-- every detector position off the direct beam and off exact backscattering satisfies the detector relation for its own `(θ, qaz)` -/
theorem detSpec_of_position (delta nu : ℝ) (hs : |Real.cos delta * Real.cos nu| < 1) :
    DetSpec delta nu (qazOf delta nu) (thetaOf delta nu) ∧ 0 < thetaOf delta nu ∧ thetaOf delta nu < Real.pi / 2 := by
  set c := Real.cos delta * Real.cos nu with hc
  obtain ⟨hlo, hhi⟩ := abs_lt.mp hs
  have h2 : 2 * thetaOf delta nu = Real.arccos c := by unfold thetaOf; ring
  have hcos : Real.cos (2 * thetaOf delta nu) = c := by rw [h2, Real.cos_arccos hlo.le hhi.le]
  have hsin : Real.sin (2 * thetaOf delta nu) = Real.sqrt (1 - c ^ 2) := by rw [h2, Real.sin_arccos]
  set x := Real.cos delta * Real.sin nu with hx
  set y := Real.sin delta with hy
  have hxy : x ^ 2 + y ^ 2 = 1 - c ^ 2 := by
    have h1 := Real.sin_sq_add_cos_sq delta
    have h3 := Real.sin_sq_add_cos_sq nu
    rw [hx, hy, hc]; nlinarith [h1, h3]
  have hpos : 0 < 1 - c ^ 2 := by nlinarith
  have hsq : 0 < Real.sqrt (1 - c ^ 2) := Real.sqrt_pos.mpr hpos
  have hne : x ≠ 0 ∨ y ≠ 0 := by
    by_contra hcon
    push Not at hcon
    rw [hcon.1, hcon.2] at hxy
    nlinarith
  refine ⟨⟨?_, ?_, hcos.symm⟩, ?_, ?_⟩
  · rw [hsin]; unfold qazOf; rw [sin_atan2R, hxy]; field_simp
  · rw [hsin]; unfold qazOf; rw [cos_atan2R hne, hxy]; field_simp; rfl
  · unfold thetaOf; have := Real.arccos_pos.mpr hhi; linarith
  · unfold thetaOf; have := Real.arccos_lt_pi.mpr hlo; linarith

/-- a position whose forward model is `hkl` turns `UB·hkl` into its own laboratory scattering vector -/
theorem decomposition (UB : M3 ℝ) (hdet : M3.det UB ≠ 0) (mu delta nu eta chi phi wl : ℝ) (hkl : V3 ℝ)
    (hf : C04.fwd UB mu delta nu eta chi phi wl = hkl) :
    M3.mulVec (C04.Z mu eta chi phi) (M3.mulVec UB hkl) = C04.qLab delta nu wl := by
  rw [← hf]; unfold C04.fwd
  rw [M3.mulVec_inv_cancel UB hdet, ← M3.mulVec_mul, rot_mul_transpose (C04.isRot_Z mu eta chi phi), M3.mulVec_id]

theorem norm_qDir (theta qaz : ℝ) : V3.norm (qDir theta qaz) = 1 := by
  have h := qDir_unit theta qaz
  unfold V3.norm V3.normSq V3.dot
  have : (qDir theta qaz).x * (qDir theta qaz).x + (qDir theta qaz).y * (qDir theta qaz).y + (qDir theta qaz).z * (qDir theta qaz).z = 1 := by
    linear_combination h
  simp only [rs_sqrt] at *
  rw [this, Real.sqrt_one]

/-- the Bragg angle the solver computes from the cell is the one the position carries -/
theorem bragg_of_fwd (UB : M3 ℝ) (hdet : M3.det UB ≠ 0) (mu delta nu eta chi phi wl : ℝ) (hwl : 0 < wl) (hkl : V3 ℝ)
    (hf : C04.fwd UB mu delta nu eta chi phi wl = hkl) (hs : |Real.cos delta * Real.cos nu| < 1) :
    wl * V3.norm (M3.mulVec UB hkl) / (4 * Real.pi) = Real.sin (thetaOf delta nu) := by
  obtain ⟨hD, hlo, hhi⟩ := detSpec_of_position delta nu hs
  have hZ := decomposition UB hdet mu delta nu eta chi phi wl hkl hf
  rw [qLab_of_DetSpec delta nu _ _ wl hD] at hZ
  have hn := congrArg V3.norm hZ
  rw [C08.norm_rot _ (C04.isRot_Z mu eta chi phi)] at hn
  have hpi := Real.pi_pos
  have hsp : 0 < Real.sin (thetaOf delta nu) := Real.sin_pos_of_pos_of_lt_pi hlo (by linarith)
  have hcpos : 0 < 2 * (2 * Real.pi / wl) * Real.sin (thetaOf delta nu) := by positivity
  rw [V3.norm_smul_pos _ hcpos, norm_qDir, mul_one] at hn
  rw [hn]; field_simp; norm_num

/-- a nested generator loop all of whose bodies succeed succeeds, and holds everything its bodies yield -/
theorem forM'_ok_of_all {β γ : Type} (xs : List β) (f : β → Py (List γ)) (h : ∀ x ∈ xs, ∃ ys, f x = .ok ys) :
    ∃ l, forM' xs f = .ok l ∧ ∀ x ∈ xs, ∀ ys, f x = .ok ys → ∀ y ∈ ys, y ∈ l := by
  induction xs with
  | nil => exact ⟨[], rfl, fun x hx => by cases hx⟩
  | cons a rest ih =>
    obtain ⟨ya, hya⟩ := h a List.mem_cons_self
    obtain ⟨lr, hlr, hmem⟩ := ih (fun x hx => h x (List.mem_cons_of_mem _ hx))
    refine ⟨ya ++ lr, ?_, ?_⟩
    · simp only [forM', bind, Except.bind, hya, hlr, pure, Except.pure]
    · intro x hx ys hys y hy
      rcases List.mem_cons.mp hx with rfl | hx'
      · rw [hya] at hys; cases hys; exact List.mem_append_left _ hy
      · exact List.mem_append_right _ (hmem x hx' ys hys y hy)

/-- what "the position is recovered" means: every one of the six angles modulo 2π -/
def SamePosition (sol : Sol ℝ) (mu delta nu eta chi phi : ℝ) : Prop :=
  SameAngle sol.1 mu ∧ SameAngle sol.2.1 delta ∧ SameAngle sol.2.2.1 nu ∧
  SameAngle sol.2.2.2.1 eta ∧ SameAngle sol.2.2.2.2.1 chi ∧ SameAngle sol.2.2.2.2.2 phi

/-- **qaz + two sample angles: completeness end to end** (nine mode shapes).  A position `P` whose forward model is the requested `hkl`,
    whose azimuth `qazOf δ ν` is the constrained value `q` (mod 2π) and which carries the mode's two sample values is among the
    candidates of `__calc_hkl_to_position`, every angle modulo 2π.  Side conditions: the reference vector is not within 1e-7 of the
    scattering vector, the position is off the direct beam / exact backscattering, `cos δ` is not small, and the sample branch is on its
    generic side at `P` (`Samp2DetRegular`, evaluated at the `N_phi` the solver itself builds). -/
theorem detSamp2_qaz_complete (ub : UBIn ℝ) (U : M3 ℝ) (hU : IsRot U) (hUB : ub.UB = M3.mul U ub.B) (hB : M3.det ub.B ≠ 0)
    (q : ℝ) (s : Samp2Det ℝ) (hkl : V3 ℝ) (wl : ℝ) (hwl : 0 < wl)
    (hne : 0 < V3.norm (M3.mulVec ub.B hkl)) (hn : 0 < V3.norm ub.n_phi)
    (hx : (1e-7 : ℝ) < V3.norm (V3.cross (V3.unit (M3.mulVec ub.UB hkl)) (V3.unit ub.n_phi)))
    (mu delta nu eta chi phi : ℝ)
    (hf : C04.fwd ub.UB mu delta nu eta chi phi wl = hkl)
    (hs : |Real.cos delta * Real.cos nu| < 1)
    (hq : SameAngle (qazOf delta nu) q)
    (hc : Carries s (thetaOf delta nu) q (mu, eta, chi, phi))
    (hcd : Scalar.isSmall (Real.cos delta) = false)
    (hr : ∀ N, calcN (M3.mulVec ub.UB hkl) ub.n_phi = .ok N → Samp2DetRegular s N (thetaOf delta nu) q (mu, eta, chi, phi)) :
    ∃ l, candidates ub (.detSamp2 (.qaz q) s) hkl wl = .ok l ∧ ∃ sol ∈ l, SamePosition sol mu delta nu eta chi phi := by
  have hpi := Real.pi_pos
  have hnUB : V3.norm (M3.mulVec ub.UB hkl) = V3.norm (M3.mulVec ub.B hkl) := by rw [hUB]; exact norm_UB U ub.B hU hkl
  have hnUBpos : 0 < V3.norm (M3.mulVec ub.UB hkl) := by rw [hnUB]; exact hne
  have hdetUB : M3.det ub.UB ≠ 0 := by rw [hUB, M3.det_mul, hU.2, one_mul]; exact hB
  obtain ⟨hD0, hlo, hhi⟩ := detSpec_of_position delta nu hs
  have hD : DetSpec delta nu q (thetaOf delta nu) := detSpec_congr _ _ _ _ _ hq hD0
  have hbragg := bragg_of_fwd ub.UB hdetUB mu delta nu eta chi phi wl hwl hkl hf hs
  rw [hnUB] at hbragg
  have hreach : wl * V3.norm (M3.mulVec ub.B hkl) / (4 * Real.pi) ≤ 1 := by rw [hbragg]; exact Real.sin_le_one _
  have hth : Real.arcsin (wl * V3.norm (M3.mulVec ub.B hkl) / (4 * Real.pi)) = thetaOf delta nu := by
    rw [hbragg]; exact Real.arcsin_sin (by linarith) (by linarith)
  -- the sample relation at P
  obtain ⟨N, hN⟩ := C11.calcN_total (M3.mulVec ub.UB hkl) ub.n_phi
  obtain ⟨hNrot, hNcol⟩ := calcN_generic _ _ N hnUBpos hn hx hN
  have hNunit : N.a00 ^ 2 + N.a10 ^ 2 + N.a20 ^ 2 = 1 := by
    have := congrArg M3.a00 hNrot.1; simp only [M3.mul, M3.transpose, M3.id, rs_one] at this; linear_combination this
  have hZ := decomposition ub.UB hdetUB mu delta nu eta chi phi wl hkl hf
  rw [qLab_of_DetSpec delta nu q _ wl hD] at hZ
  have hsp : 0 < Real.sin (thetaOf delta nu) := Real.sin_pos_of_pos_of_lt_pi hlo (by linarith)
  have hS : SampleSpec ⟨N.a00, N.a10, N.a20⟩ (thetaOf delta nu) q (mu, eta, chi, phi) := by
    unfold SampleSpec
    simp only []
    rw [hNcol, V3.unit_eq_smul _ hnUBpos, M3.mulVec_smul, hZ, hnUB]
    have hnorm : V3.norm (M3.mulVec ub.B hkl) = 2 * (2 * Real.pi / wl) * Real.sin (thetaOf delta nu) := by
      rw [← hbragg]; field_simp; ring
    rw [hnorm]
    ext <;> simp only [V3.smul] <;> field_simp
  obtain ⟨ss, hss, t, ht, hsame⟩ := twoSampleDetector_complete s q (thetaOf delta nu) N hNunit _ hS hc (hr N hN)
  obtain ⟨d, hd, hd1, hd2, hd3⟩ := detFromQaz_complete delta nu q (thetaOf delta nu) hD hcd
  -- unfold the pipeline
  unfold candidates
  rw [ttheta_eq ub.B hB hkl wl hwl hne hreach]
  simp only [bind, Except.bind, rs_two]
  have hhalf : 2 * Real.arcsin (wl * V3.norm (M3.mulVec ub.B hkl) / (4 * Real.pi)) / 2 = thetaOf delta nu := by rw [hth]; ring
  rw [hhalf]
  unfold detSampleReference
  simp only [bind, Except.bind]
  rw [hN]
  simp only [detRemaining, pure, Except.pure]
  have hall : ∀ x ∈ detFromQaz q (thetaOf delta nu), ∃ ys,
      (match twoSampleDetector s x.2.2 (thetaOf delta nu) N with
        | Except.error err => Except.error err
        | Except.ok v => Except.ok (List.map (fun x_1 => (x_1.1, x.1, x.2.1, x_1.2.1, x_1.2.2.1, x_1.2.2.2)) v) : Py (List (Sol ℝ))) = .ok ys := by
    intro x hxm
    rw [detFromQaz_qaz q _ x hxm, hss]
    exact ⟨_, rfl⟩
  obtain ⟨l, hl, hmem⟩ := forM'_ok_of_all _ _ hall
  refine ⟨l, ?_, (t.1, d.1, d.2.1, t.2.1, t.2.2.1, t.2.2.2), ?_, hsame.1, hd1, hd2, hsame.2.1, hsame.2.2.1, hsame.2.2.2⟩
  · rw [← hl]; congr 1; funext x; cases twoSampleDetector s x.2.2 (thetaOf delta nu) N <;> rfl
  apply hmem d hd (List.map (fun x_1 => (x_1.1, d.1, d.2.1, x_1.2.1, x_1.2.2.1, x_1.2.2.2)) ss)
  · rw [hd3, hss]
  · exact List.mem_map.mpr ⟨t, ht, rfl⟩

end
end C03
