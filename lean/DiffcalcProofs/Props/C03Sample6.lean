import DiffcalcProofs.Props.C03Sample5
/-!
# C03 — completeness of `__calc_sample_con_chi_phi` (detector + chi + phi given)
-/
namespace C03
open M3 Solver Scalar PyOps C01
noncomputable section

/-- converse of `sampleSpec_of_eta` -/
theorem eta_of_sampleSpec (mu eta chi phi : ℝ) (h q : V3 ℝ) (hS : M3.mulVec (C04.Z mu eta chi phi) h = q) :
    M3.mulVec (rotZ (-eta)) (inner chi phi h) = M3.mulVec (M3.transpose (rotX mu)) q := by
  have hin := inner_of_sampleSpec mu eta chi phi h q hS
  have : outerInv mu eta q = M3.mulVec (M3.transpose (rotZ (-eta))) (M3.mulVec (M3.transpose (rotX mu)) q) := by
    rw [outerInv, M3.mulVec_mul]
  rw [hin, this, ← M3.mulVec_mul, rot_mul_transpose (isRot_rotZ _), M3.mulVec_id]

/-- the pair `(X, Y)` whose `atan2` is eta in `__calc_sample_con_chi_phi` -/
def chiPhiXY (g : V3 ℝ) (qaz theta mu : ℝ) : ℝ × ℝ :=
  (g.y * (Real.cos theta * Real.sin qaz) + g.x * (-(Real.cos theta) * Real.sin mu * Real.cos qaz + Real.cos mu * Real.sin theta),
   g.x * (Real.cos theta * Real.sin qaz) - g.y * (-(Real.cos theta) * Real.sin mu * Real.cos qaz + Real.cos mu * Real.sin theta))

/-- **completeness of `__calc_sample_con_chi_phi`** -/
theorem sampleConChiPhi_complete (chi phi qaz theta : ℝ) (N : M3 ℝ) (hN : N.a00 ^ 2 + N.a10 ^ 2 + N.a20 ^ 2 = 1)
    (mu0 eta0 : ℝ) (hS : SampleSpec ⟨N.a00, N.a10, N.a20⟩ theta qaz (mu0, eta0, chi, phi))
    (hr0 : Real.sin theta ≠ 0 ∨ -(Real.cos qaz) * Real.cos theta ≠ 0)
    (hall : ∀ mu ∈ [Real.arcsin ((inner chi phi ⟨N.a00, N.a10, N.a20⟩).z / Scalar.hypot (Real.sin theta) (-(Real.cos qaz) * Real.cos theta))
          + atan2R (-(Real.cos qaz) * Real.cos theta) (Real.sin theta),
        Real.pi - Real.arcsin ((inner chi phi ⟨N.a00, N.a10, N.a20⟩).z / Scalar.hypot (Real.sin theta) (-(Real.cos qaz) * Real.cos theta))
          + atan2R (-(Real.cos qaz) * Real.cos theta) (Real.sin theta)],
      (Scalar.isSmall (chiPhiXY (inner chi phi ⟨N.a00, N.a10, N.a20⟩) qaz theta mu).1 &&
        Scalar.isSmall (chiPhiXY (inner chi phi ⟨N.a00, N.a10, N.a20⟩) qaz theta mu).2) = false)
    (hreg : (inner chi phi ⟨N.a00, N.a10, N.a20⟩).x ^ 2 + (inner chi phi ⟨N.a00, N.a10, N.a20⟩).y ^ 2 ≠ 0) :
    ∃ l, sampleConChiPhi chi phi qaz theta N = .ok l ∧
      ∃ t ∈ l, SameAngle t.1 mu0 ∧ SameAngle t.2.1 eta0 ∧ t.2.2.1 = chi ∧ t.2.2.2 = phi := by
  set g := inner chi phi ⟨N.a00, N.a10, N.a20⟩ with hg
  unfold SampleSpec at hS
  simp only [] at hS
  have he := eta_of_sampleSpec mu0 eta0 chi phi _ _ hS
  rw [← hg] at he
  have hx0 := congrArg V3.x he; have hy0 := congrArg V3.y he; have hz0 := congrArg V3.z he
  simp only [M3.mulVec, M3.transpose, rotX, rotZ, qDir, rs_cos, rs_sin, rs_one, rs_zero, Real.cos_neg, Real.sin_neg] at hx0 hy0 hz0
  have hx0' : g.x * Real.cos eta0 + g.y * Real.sin eta0 = Real.cos theta * Real.sin qaz := by linear_combination hx0
  have hy0' : -g.x * Real.sin eta0 + g.y * Real.cos eta0 = -(-(Real.cos theta) * Real.sin mu0 * Real.cos qaz + Real.cos mu0 * Real.sin theta) := by linear_combination hy0
  have hz0' : g.z = Real.sin mu0 * Real.sin theta + Real.cos mu0 * (Real.cos theta * Real.cos qaz) := by linear_combination hz0
  clear hx0 hy0 hz0
  unfold sampleConChiPhi
  simp only []
  set V := M3.mul (M3.mul (Gen.rot_CHI chi) (Gen.rot_PHI phi)) N with hVdef
  have hVc : (⟨V.a00, V.a10, V.a20⟩ : V3 ℝ) = g := by
    rw [hg, inner, hVdef, (gen_rot_senses chi).2.2.1, (gen_rot_senses phi).2.2.2.2.2]
    ext <;> simp only [M3.mulVec, M3.mul] <;> ring
  have hv0 : V.a00 = g.x := congrArg V3.x hVc
  have hv1 : V.a10 = g.y := congrArg V3.y hVc
  have hv2 : V.a20 = g.z := congrArg V3.z hVc
  simp only [rs_cos, rs_sin, rs_atan2, rs_pi]
  have hsq : 0 ≤ Real.cos qaz * Real.cos qaz * (Real.cos theta * Real.cos theta) + Real.sin theta * Real.sin theta := by
    nlinarith [mul_self_nonneg (Real.cos qaz * Real.cos theta), mul_self_nonneg (Real.sin theta)]
  rw [pySqrt_ok hsq]
  simp only [bind, Except.bind]
  have hrr : Real.sqrt (Real.cos qaz * Real.cos qaz * (Real.cos theta * Real.cos theta) + Real.sin theta * Real.sin theta)
      = Scalar.hypot (Real.sin theta) (-(Real.cos qaz) * Real.cos theta) := by
    simp only [Scalar.hypot, rs_sqrt]; congr 1; ring
  rw [hrr, hv2]
  have hr := hypot_pos_of _ _ hr0
  have hr2 := hypot_sq (Real.sin theta) (-(Real.cos qaz) * Real.cos theta)
  set r := Scalar.hypot (Real.sin theta) (-(Real.cos qaz) * Real.cos theta) with hrdef
  have hrne := hr.ne'
  obtain ⟨hce, hse⟩ := atan2_cs (Real.sin theta) (-(Real.cos qaz) * Real.cos theta) r hr hr2
  set eps := atan2R (-(Real.cos qaz) * Real.cos theta) (Real.sin theta) with hepsdef
  have hp0 : Real.sin theta = r * Real.cos eps := by rw [hce]; field_simp
  have hp1 : -(Real.cos qaz) * Real.cos theta = r * Real.sin eps := by rw [hse]; field_simp
  -- sin(mu0 − eps) = g.z / r
  have hsinmu : Real.sin (mu0 - eps) = g.z / r := by
    rw [Real.sin_sub, hz0']
    have : Real.sin mu0 * Real.sin theta - Real.cos mu0 * (-(Real.cos qaz) * Real.cos theta)
        = r * (Real.sin mu0 * Real.cos eps - Real.cos mu0 * Real.sin eps) := by rw [hp0, hp1]; ring
    field_simp
    linear_combination (-1 : ℝ) * this
  have hclip : |g.z / r| ≤ 1 := by rw [← hsinmu]; exact Real.abs_sin_le_one _
  obtain ⟨s, hs⟩ := C11.boundAsin_ok hclip
  obtain ⟨hsval, _⟩ := C01.boundAsin_ok hclip hs
  unfold tryAssert
  rw [hs]
  (try simp only [])
  rw [hsval]
  -- every root gives a list
  have htotal : ∀ mu ∈ [Real.arcsin (g.z / r) + eps, Real.pi - Real.arcsin (g.z / r) + eps],
      ∃ lx, (if (Scalar.isSmall (V.a10 * (Real.cos theta * Real.sin qaz) + V.a00 * (-(Real.cos theta) * Real.sin mu * Real.cos qaz + Real.cos mu * Real.sin theta)) &&
              Scalar.isSmall (V.a00 * (Real.cos theta * Real.sin qaz) - V.a10 * (-(Real.cos theta) * Real.sin mu * Real.cos qaz + Real.cos mu * Real.sin theta))) = true
            then (.error .dce : Py (List (STuple ℝ)))
            else .ok [(mu, atan2R (V.a10 * (Real.cos theta * Real.sin qaz) + V.a00 * (-(Real.cos theta) * Real.sin mu * Real.cos qaz + Real.cos mu * Real.sin theta))
                        (V.a00 * (Real.cos theta * Real.sin qaz) - V.a10 * (-(Real.cos theta) * Real.sin mu * Real.cos qaz + Real.cos mu * Real.sin theta)), chi, phi)]) = .ok lx := by
    intro mu hmu
    have := hall mu hmu
    unfold chiPhiXY at this
    simp only [] at this
    rw [hv0, hv1, this]
    exact ⟨_, rfl⟩
  obtain ⟨l, hl, hmem⟩ := forM'_complete _ _ htotal
  refine ⟨l, hl, ?_⟩
  obtain ⟨mu', hm, hsame⟩ : ∃ mu', mu' ∈ [Real.arcsin (g.z / r) + eps, Real.pi - Real.arcsin (g.z / r) + eps] ∧ SameAngle mu' mu0 := by
    rcases asin_roots_complete (mu0 - eps) (g.z / r) hclip hsinmu with h | h
    · exact ⟨_, List.mem_cons.mpr (Or.inl rfl), sameAngle_sub_add mu0 eps _ h⟩
    · exact ⟨Real.pi - Real.arcsin (g.z / r) + eps, List.mem_cons.mpr (Or.inr (List.mem_cons.mpr (Or.inl rfl))), sameAngle_sub_add mu0 eps _ h⟩
  have hnot := hall mu' hm
  unfold chiPhiXY at hnot
  simp only [] at hnot
  rw [← hv0, ← hv1] at hnot
  obtain ⟨a, hadef⟩ : ∃ a, a = Real.cos theta * Real.sin qaz := ⟨_, rfl⟩
  obtain ⟨b, hbdef⟩ : ∃ b, b = -(Real.cos theta) * Real.sin mu' * Real.cos qaz + Real.cos mu' * Real.sin theta := ⟨_, rfl⟩
  rw [← hadef, ← hbdef] at hnot
  have hcand : (mu', atan2R (V.a10 * a + V.a00 * b) (V.a00 * a - V.a10 * b), chi, phi) ∈ l := by
    apply hmem mu' hm [(mu', atan2R (V.a10 * a + V.a00 * b) (V.a00 * a - V.a10 * b), chi, phi)] _ _ (by simp)
    show (if (Scalar.isSmall (V.a10 * (Real.cos theta * Real.sin qaz) + V.a00 * (-(Real.cos theta) * Real.sin mu' * Real.cos qaz + Real.cos mu' * Real.sin theta)) &&
              Scalar.isSmall (V.a00 * (Real.cos theta * Real.sin qaz) - V.a10 * (-(Real.cos theta) * Real.sin mu' * Real.cos qaz + Real.cos mu' * Real.sin theta))) = true
            then (.error .dce : Py (List (STuple ℝ))) else _) = _
    rw [← hadef, ← hbdef, hnot]; rfl
  refine ⟨_, hcand, hsame, ?_, rfl, rfl⟩
  -- eta: both solve the same rotation equations
  show SameAngle (atan2R (V.a10 * a + V.a00 * b) (V.a00 * a - V.a10 * b)) eta0
  rw [hv0, hv1]
  have hb0 : b = -(Real.cos theta) * Real.sin mu0 * Real.cos qaz + Real.cos mu0 * Real.sin theta := by rw [hbdef, hsame.1, hsame.2]
  have hgu := inner_unit chi phi ⟨N.a00, N.a10, N.a20⟩ hN
  rw [← hg] at hgu
  obtain ⟨gx, hgx⟩ : ∃ gx, gx = g.x := ⟨_, rfl⟩
  obtain ⟨gy, hgy⟩ : ∃ gy, gy = g.y := ⟨_, rfl⟩
  obtain ⟨gz, hgz⟩ : ∃ gz, gz = g.z := ⟨_, rfl⟩
  rw [← hgx, ← hgy] at hx0' hy0' hreg hgu ⊢
  rw [← hgz] at hz0' hgu
  have hD : gx ^ 2 + gy ^ 2 = a ^ 2 + (-b) ^ 2 := by
    have hm := Real.sin_sq_add_cos_sq mu0
    have hq := qDir_unit theta qaz
    simp only [qDir] at hq
    have h3 : a ^ 2 + b ^ 2 + gz ^ 2 = 1 := by
      rw [hz0', hadef, hb0]
      linear_combination hq + (Real.sin theta ^ 2 + (Real.cos theta * Real.cos qaz) ^ 2) * hm
    linear_combination hgu - h3
  obtain ⟨cx, cy⟩ := rot_solve gx gy a (-b) hD
  have earg1 : a * gy - -b * gx = gy * a + gx * b := by ring
  have earg2 : a * gx + -b * gy = gx * a - gy * b := by ring
  rw [earg1, earg2] at cx cy
  refine sameAngle_of_rot gx gy a (-b) _ eta0 hreg cx cy ?_ ?_
  · rw [hadef]; linear_combination hx0'
  · rw [hb0]; linear_combination hy0'

end
end C03
