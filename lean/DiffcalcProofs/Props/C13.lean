import DiffcalcProofs.Props.C04
import DiffcalcProofs.Props.C06
import DiffcalcProofs.Props.C03
/-!
# C13 — solutions respect the physical symmetries of the diffraction problem

The solution set of a request is `{P | forward model(P) = hkl ∧ P honours the constraints}`.  Proved here (real reading), on the
GENERATED `get_hkl` / B matrix:
* (a) scaling all cell lengths and the wavelength by `s > 0`: `B` scales by `1/s` (`reciprocalB_scale`) and
  `get_hkl(U·B/s, P, s·λ) = get_hkl(U·B, P, λ)` (`getHkl_scale_cell`) — the same positions diffract at the same hkl;
* (b) `get_hkl(UB, P, λ/n) = n · get_hkl(UB, P, λ)` (`getHkl_order`);
* (c) adding 360° to an axis changes nothing (C04.getHkl_periodic) and the read-back filter is 360°-periodic in the
  constrained value (`anglesEquivalent_periodic`);
* (d) remounting the crystal rotated by ε about the phi axis (`U' = Rz(ε)·U`): `get_hkl(U'B, P with φ+ε) = get_hkl(UB, P)`
  (`getHkl_remount`) — every solution's phi shifts by ε and all other angles stay.
That the *solver* returns the whole solution set is C01 ∧ C03 (partial); the invariance of the returned lists themselves
is exercised by the metamorphic oracle.
-/
namespace C13
open M3
noncomputable section

theorem inv_smul (c : ℝ) (hc : c ≠ 0) (a : M3 ℝ) (hdet : M3.det a ≠ 0) : M3.inv (M3.smul c a) = M3.smul (1 / c) (M3.inv a) := by
  have hd : M3.det (M3.smul c a) = c ^ 3 * M3.det a := by simp only [M3.det, M3.smul]; ring
  ext <;> simp only [M3.inv, M3.smul, M3.adj, rs_one, hd] <;> simp only [M3.det] at hdet ⊢ <;> field_simp <;> ring

/-- (a) the same position, the lattice and the wavelength scaled by the same factor: same hkl -/
theorem getHkl_scale_cell (UB : M3 ℝ) (hdet : M3.det UB ≠ 0) (s : ℝ) (hs : 0 < s) (mu delta nu eta chi phi wl : ℝ) (hwl : wl ≠ 0) :
    Gen.get_hkl (M3.smul (1 / s) UB) mu delta nu eta chi phi (s * wl) = Gen.get_hkl UB mu delta nu eta chi phi wl := by
  rw [C04.getHkl_scale_wl _ _ _ _ _ _ _ wl s hwl hs.ne']
  simp only [C04.getHkl_eq_fwd, C04.fwd]
  rw [inv_smul (1 / s) (by positivity) UB hdet]
  ext <;> simp only [M3.mulVec, M3.smul, V3.smul] <;> field_simp

/-- (a) the B matrix of a cell whose lengths are all multiplied by `s` is `B / s` -/
theorem reciprocalB_scale (k : C06.Cell) (s : ℝ) (hs : 0 < s) :
    Gen.reciprocalB (s * k.a1) (s * k.a2) (s * k.a3) k.al1 k.al2 k.al3 = M3.smul (1 / s) k.B := by
  let k' : C06.Cell := { k with a1 := s * k.a1, a2 := s * k.a2, a3 := s * k.a3,
                                 ha1 := by have := k.ha1; positivity, ha2 := by have := k.ha2; positivity, ha3 := by have := k.ha3; positivity }
  have h1 := k'.B_closed
  have h2 := k.B_closed
  have hr : 0 < Real.sqrt k.W := Real.sqrt_pos.mpr k.hWpos
  have e : k'.B = Gen.reciprocalB (s * k.a1) (s * k.a2) (s * k.a3) k.al1 k.al2 k.al3 := rfl
  rw [← e, h1, h2]
  have ha1 := k.ha1.ne'; have ha2 := k.ha2.ne'; have ha3 := k.ha3.ne'
  have hs1 := k.hs1.ne'; have hs2 := k.hs2.ne'; have hs3 := k.hs3.ne'
  ext <;> simp only [M3.smul, k', C06.Cell.W, C06.Cell.c1, C06.Cell.c2, C06.Cell.c3, C06.Cell.s1, C06.Cell.s2, C06.Cell.s3, C06.Cell.x2, C06.Cell.x3]
    <;> first | (field_simp; done) | simp

/-- (b) n-th order: hkl scales by `n` when the wavelength is divided by `n` -/
theorem getHkl_order (UB : M3 ℝ) (mu delta nu eta chi phi wl n : ℝ) (hwl : wl ≠ 0) (hn : n ≠ 0) :
    Gen.get_hkl UB mu delta nu eta chi phi (wl / n) = V3.smul n (Gen.get_hkl UB mu delta nu eta chi phi wl) := by
  have : wl / n = (1 / n) * wl := by ring
  rw [this, C04.getHkl_scale_wl _ _ _ _ _ _ _ wl (1 / n) hwl (by positivity)]
  congr 1; field_simp

/-- (c) the read-back filter compares angles modulo 360° -/
theorem anglesEquivalent_periodic (a b : ℝ) : PyOps.anglesEquivalent (a + 360) b = PyOps.anglesEquivalent a b := by
  simp only [PyOps.anglesEquivalent, PyOps.anglesEquivalentTol, Scalar.isSmallTol, Scalar.toRad, rs_sin, rs_abs, rs_le, rs_pi, rs_ofNat, rs_two]
  have hpi := Real.pi_ne_zero
  have : (a + 360 - b) * Real.pi / (180 : ℕ) / 2 = (a - b) * Real.pi / (180 : ℕ) / 2 + Real.pi := by push_cast; field_simp; ring
  rw [this, Real.sin_add_pi, abs_neg]

theorem rotZ_add (a b : ℝ) : M3.mul (rotZ a) (rotZ b) = rotZ (a + b) := by
  ext <;> simp [M3.mul, rotZ, Real.cos_add, Real.sin_add] <;> ring

/-- (d) remounting: with `U' = Rz(ε)·U` the position with `phi + ε` diffracts at the same hkl -/
theorem getHkl_remount (UB : M3 ℝ) (hdet : M3.det UB ≠ 0) (eps mu delta nu eta chi phi wl : ℝ) :
    Gen.get_hkl (M3.mul (rotZ eps) UB) mu delta nu eta chi (phi + eps) wl = Gen.get_hkl UB mu delta nu eta chi phi wl := by
  simp only [C04.getHkl_eq_fwd, C04.fwd]
  have hR := isRot_rotZ eps
  have hdR : M3.det (rotZ eps) ≠ 0 := by rw [hR.2]; norm_num
  have hinv : M3.inv (M3.mul (rotZ eps) UB) = M3.mul (M3.inv UB) (M3.transpose (rotZ eps)) := by
    symm
    apply C06.inv_unique _ _ (by rw [M3.det_mul]; exact mul_ne_zero hdR hdet)
    rw [M3.mul_assoc', ← M3.mul_assoc' UB, M3.mul_inv_cancel UB hdet, M3.id_mul]
    have h := (C04.isRot_transpose hR).1
    rw [C06.transpose_transpose] at h
    exact h
  have hz : rotZ (-(phi + eps)) = M3.mul (rotZ (-phi)) (rotZ (-eps)) := by
    rw [rotZ_add]; congr 1; ring
  have hZ : C04.Z mu eta chi (phi + eps) = M3.mul (C04.Z mu eta chi phi) (rotZ (-eps)) := by
    simp only [C04.Z, hz, M3.mul_assoc']
  rw [hinv, hZ, M3.transpose_mul, M3.mulVec_mul, M3.mulVec_mul]
  congr 1
  rw [← M3.mulVec_mul]
  have : M3.mul (M3.transpose (rotZ eps)) (M3.transpose (rotZ (-eps))) = M3.id := by
    ext <;> simp [M3.mul, M3.transpose, rotZ, M3.id] <;> nlinarith [Real.sin_sq_add_cos_sq eps]
  rw [this, M3.mulVec_id]
end
end C13
