import DiffcalcProofs.Props.C03Sample7
/-!
# C03 — completeness through soundness + uniqueness of the last angle: `__calc_sample_con_eta_phi`

Once the roots of the branch's first equation are known to be complete, the remaining angle is pinned by the sample relation itself:
a sound candidate with the right first angle must carry the right last angle.
-/
namespace C03
open M3 Solver Scalar PyOps C01
noncomputable section

/-- **mu is determined by the other three**: two positions that differ only in mu and both satisfy the sample relation have the same mu modulo 2π,
    unless `ETA·CHI·PHI·h` lies along the mu axis -/
theorem mu_unique (mu mu' eta chi phi : ℝ) (h q : V3 ℝ)
    (h1 : M3.mulVec (C04.Z mu eta chi phi) h = q) (h2 : M3.mulVec (C04.Z mu' eta chi phi) h = q)
    (hne : (M3.mulVec (ecp eta chi phi) h).y ^ 2 + (M3.mulVec (ecp eta chi phi) h).z ^ 2 ≠ 0) : SameAngle mu mu' := by
  rw [Z_eq_mu_ecp, M3.mulVec_mul] at h1 h2
  obtain ⟨gy, hgy⟩ : ∃ gy, gy = (M3.mulVec (ecp eta chi phi) h).y := ⟨_, rfl⟩
  obtain ⟨gz, hgz⟩ : ∃ gz, gz = (M3.mulVec (ecp eta chi phi) h).z := ⟨_, rfl⟩
  have a1 := congrArg V3.y h1; have a2 := congrArg V3.z h1
  have b1 := congrArg V3.y h2; have b2 := congrArg V3.z h2
  simp only [M3.mulVec, rotX, rs_cos, rs_sin, rs_one, rs_zero] at a1 a2 b1 b2
  rw [← hgy, ← hgz] at hne
  have e : ∀ m : ℝ, (0 * (ecp eta chi phi).a00 + Real.cos m * (ecp eta chi phi).a10 + -Real.sin m * (ecp eta chi phi).a20) = 0 → True := fun _ _ => trivial
  -- the two rotation equations in the (y, z) plane
  have hy : ∀ m, (M3.mulVec (rotX m) (M3.mulVec (ecp eta chi phi) h)).y = gy * Real.cos m + (-gz) * Real.sin m := by
    intro m; simp only [M3.mulVec, rotX, rs_cos, rs_sin, rs_one, rs_zero, hgy, hgz]; ring
  have hz : ∀ m, -(M3.mulVec (rotX m) (M3.mulVec (ecp eta chi phi) h)).z = -gy * Real.sin m + (-gz) * Real.cos m := by
    intro m; simp only [M3.mulVec, rotX, rs_cos, rs_sin, rs_one, rs_zero, hgy, hgz]; ring
  have hne' : gy ^ 2 + (-gz) ^ 2 ≠ 0 := by rw [neg_sq]; exact hne
  exact sameAngle_of_rot gy (-gz) q.y (-q.z) mu mu' hne'
    (by rw [← hy, h1]) (by rw [← hz, h1]) (by rw [← hy, h2]) (by rw [← hz, h2])

/-- **completeness of `__calc_sample_con_eta_phi`** (generic branch of the soundness theorem, plus: the given position is not on the mu axis) -/
theorem sampleConEtaPhi_complete (eta phi qaz theta : ℝ) (N : M3 ℝ) (hN : N.a00 ^ 2 + N.a10 ^ 2 + N.a20 ^ 2 = 1)
    (mu0 chi0 : ℝ) (hS : SampleSpec ⟨N.a00, N.a10, N.a20⟩ theta qaz (mu0, eta, chi0, phi))
    (hce : Real.cos eta ≠ 0)
    (hrho : -(Real.sin theta) ≠ 0 ∨ Real.cos theta * Real.cos qaz ≠ 0)
    (hXY : (Scalar.isSmall N.a20 && Scalar.isSmall (N.a00 * Real.cos phi + N.a10 * Real.sin phi)) = false)
    (hgen : Scalar.isSmall (Real.arccos ((Real.sin qaz * Real.cos theta / Real.cos eta - (N.a10 * Real.cos phi - N.a00 * Real.sin phi) * Real.tan eta) /
              Scalar.hypot N.a20 (N.a00 * Real.cos phi + N.a10 * Real.sin phi))) = false)
    (hne : ∀ chi, SameAngle chi chi0 → (M3.mulVec (ecp eta chi phi) ⟨N.a00, N.a10, N.a20⟩).y ^ 2 + (M3.mulVec (ecp eta chi phi) ⟨N.a00, N.a10, N.a20⟩).z ^ 2 ≠ 0) :
    ∃ l, sampleConEtaPhi eta phi qaz theta N = .ok l ∧
      ∃ t ∈ l, SameAngle t.1 mu0 ∧ t.2.1 = eta ∧ SameAngle t.2.2.1 chi0 ∧ t.2.2.2 = phi := by
  obtain ⟨X, hXdef⟩ : ∃ X, X = N.a20 := ⟨_, rfl⟩
  obtain ⟨Y, hYdef⟩ : ∃ Y, Y = N.a00 * Real.cos phi + N.a10 * Real.sin phi := ⟨_, rfl⟩
  obtain ⟨b', hbdef⟩ : ∃ b', b' = N.a10 * Real.cos phi - N.a00 * Real.sin phi := ⟨_, rfl⟩
  -- the x-equation of the given solution
  have hS' := hS
  unfold SampleSpec at hS'
  simp only [] at hS'
  have hmid := mid_of_sampleSpec mu0 eta chi0 phi _ _ hS'
  have hx0 := congrArg V3.x hmid
  simp only [M3.mulVec, M3.mul, M3.transpose, rotX, rotZ, rotY, qDir, rs_cos, rs_sin, rs_one, rs_zero, Real.cos_neg, Real.sin_neg] at hx0
  have hx : (Y * Real.cos chi0 + X * Real.sin chi0) * Real.cos eta + b' * Real.sin eta = Real.sin qaz * Real.cos theta := by
    rw [hYdef, hXdef, hbdef]; linear_combination hx0
  have hr0 : Y ≠ 0 ∨ X ≠ 0 := by
    by_contra hc; push Not at hc
    rw [← hXdef, ← hYdef, hc.1, hc.2] at hXY
    simp [isSmall_real] at hXY; norm_num at hXY
  have hr := hypot_pos_of Y X hr0
  have hr2 := hypot_sq Y X
  have hhy : Scalar.hypot X Y = Scalar.hypot Y X := by simp only [Scalar.hypot, rs_sqrt]; congr 1; ring
  obtain ⟨r, hrdef⟩ : ∃ r, r = Scalar.hypot Y X := ⟨_, rfl⟩
  rw [← hrdef] at hr hr2
  have hrne := hr.ne'
  obtain ⟨hce', hse'⟩ := atan2_cs Y X r hr hr2
  obtain ⟨eps, hepsdef⟩ : ∃ eps, eps = atan2R X Y := ⟨_, rfl⟩
  rw [← hepsdef] at hce' hse'
  have hY : Y = r * Real.cos eps := by rw [hce']; field_simp
  have hX : X = r * Real.sin eps := by rw [hse']; field_simp
  obtain ⟨rhs, hrhs⟩ : ∃ rhs, rhs = Real.sin qaz * Real.cos theta / Real.cos eta - b' * Real.tan eta := ⟨_, rfl⟩
  have hcos : Real.cos (chi0 - eps) = rhs / r := by
    rw [Real.cos_sub, hrhs, Real.tan_eq_sin_div_cos]
    have : Y * Real.cos chi0 + X * Real.sin chi0 = r * (Real.cos chi0 * Real.cos eps + Real.sin chi0 * Real.sin eps) := by
      conv_lhs => rw [hY, hX]
      ring
    field_simp
    linear_combination hx - Real.cos eta * this
  have hclip : |rhs / r| ≤ 1 := by rw [← hcos]; exact Real.abs_cos_le_one _
  subst hrhs hrdef hbdef hXdef hYdef
  rw [← hhy] at hclip hcos
  -- the list the branch returns
  have hsound := sampleConEtaPhi_sound eta phi qaz theta N hN hce hrho hclip hgen
  obtain ⟨c, hc⟩ := C11.boundAcos_ok hclip
  obtain ⟨hcv, _⟩ := C01.boundAcos_ok hclip hc
  have hlist : sampleConEtaPhi eta phi qaz theta N = .ok (([eps + c, eps - c] : List ℝ).map fun chi =>
      (atan2R (Real.cos theta * Real.cos qaz) (-(Real.sin theta)) +
        atan2R ((N.a00 * Real.cos phi + N.a10 * Real.sin phi) * Real.sin chi - N.a20 * Real.cos chi)
          (-N.a20 * Real.sin chi * Real.sin eta - Real.cos chi * Real.sin eta * (N.a00 * Real.cos phi + N.a10 * Real.sin phi)
            - Real.cos eta * (N.a00 * Real.sin phi - N.a10 * Real.cos phi)), eta, chi, phi)) := by
    unfold sampleConEtaPhi
    simp only [rs_cos, rs_sin, rs_atan2, rs_tan, hXY, Bool.false_eq_true, if_false]
    unfold tryAssert
    rw [hc]
    simp only []
    rw [hcv, hgen]
    simp only [Bool.false_eq_true, if_false, ← hepsdef]
  refine ⟨_, hlist, ?_⟩
  obtain ⟨chi', hm, hsame⟩ : ∃ chi', chi' ∈ [eps + c, eps - c] ∧ SameAngle chi' chi0 := by
    rw [hcv]
    rcases acos_roots_complete (chi0 - eps) _ hclip hcos with h | h
    · refine ⟨_, List.mem_cons.mpr (Or.inl rfl), ?_⟩
      have := sameAngle_sub_add chi0 eps _ h
      rwa [add_comm] at this
    · refine ⟨_, List.mem_cons.mpr (Or.inr (List.mem_cons.mpr (Or.inl rfl))), ?_⟩
      have := sameAngle_sub_add chi0 eps _ h
      rwa [add_comm, ← sub_eq_add_neg] at this
  -- the candidate built from chi' is sound, and mu is pinned by the relation
  set t := (atan2R (Real.cos theta * Real.cos qaz) (-(Real.sin theta)) +
        atan2R ((N.a00 * Real.cos phi + N.a10 * Real.sin phi) * Real.sin chi' - N.a20 * Real.cos chi')
          (-N.a20 * Real.sin chi' * Real.sin eta - Real.cos chi' * Real.sin eta * (N.a00 * Real.cos phi + N.a10 * Real.sin phi)
            - Real.cos eta * (N.a00 * Real.sin phi - N.a10 * Real.cos phi)), eta, chi', phi) with htdef
  have htmem : t ∈ ([eps + c, eps - c] : List ℝ).map fun chi =>
      (atan2R (Real.cos theta * Real.cos qaz) (-(Real.sin theta)) +
        atan2R ((N.a00 * Real.cos phi + N.a10 * Real.sin phi) * Real.sin chi - N.a20 * Real.cos chi)
          (-N.a20 * Real.sin chi * Real.sin eta - Real.cos chi * Real.sin eta * (N.a00 * Real.cos phi + N.a10 * Real.sin phi)
            - Real.cos eta * (N.a00 * Real.sin phi - N.a10 * Real.cos phi)), eta, chi, phi) := List.mem_map.mpr ⟨chi', hm, rfl⟩
  have hSt := hsound _ hlist t htmem
  refine ⟨t, htmem, ?_, rfl, hsame, rfl⟩
  unfold SampleSpec at hSt
  simp only [htdef] at hSt ⊢
  have hS0 : M3.mulVec (C04.Z mu0 eta chi' phi) ⟨N.a00, N.a10, N.a20⟩ = qDir theta qaz := by
    rw [Z_congr_chi mu0 eta chi' chi0 phi hsame]; exact hS'
  exact mu_unique _ mu0 eta chi' phi _ _ hSt hS0 (hne chi' hsame)

end
end C03
