import DiffcalcProofs.Props.C03Sample8
/-!
# C03 — completeness of `__calc_sample_con_mu_chi` (detector + mu + chi given): roots of phi complete, eta pinned by the relation
-/
namespace C03
open M3 Solver Scalar PyOps C01
noncomputable section

/-- **eta is determined by the other three** (unless `CHI·PHI·h` lies along the eta axis) -/
theorem eta_unique (mu eta eta' chi phi : ℝ) (h q : V3 ℝ)
    (h1 : M3.mulVec (C04.Z mu eta chi phi) h = q) (h2 : M3.mulVec (C04.Z mu eta' chi phi) h = q)
    (hne : (inner chi phi h).x ^ 2 + (inner chi phi h).y ^ 2 ≠ 0) : SameAngle eta eta' := by
  have e1 := eta_of_sampleSpec mu eta chi phi h q h1
  have e2 := eta_of_sampleSpec mu eta' chi phi h q h2
  obtain ⟨gx, hgx⟩ : ∃ gx, gx = (inner chi phi h).x := ⟨_, rfl⟩
  obtain ⟨gy, hgy⟩ : ∃ gy, gy = (inner chi phi h).y := ⟨_, rfl⟩
  rw [← hgx, ← hgy] at hne
  have hx : ∀ e, (M3.mulVec (rotZ (-e)) (inner chi phi h)).x = gx * Real.cos e + gy * Real.sin e := by
    intro e; simp only [M3.mulVec, rotZ, rs_cos, rs_sin, rs_one, rs_zero, Real.cos_neg, Real.sin_neg, hgx, hgy]; ring
  have hy : ∀ e, (M3.mulVec (rotZ (-e)) (inner chi phi h)).y = -gx * Real.sin e + gy * Real.cos e := by
    intro e; simp only [M3.mulVec, rotZ, rs_cos, rs_sin, rs_one, rs_zero, Real.cos_neg, Real.sin_neg, hgx, hgy]; ring
  exact sameAngle_of_rot gx gy (M3.mulVec (M3.transpose (rotX mu)) q).x (M3.mulVec (M3.transpose (rotX mu)) q).y eta eta' hne
    (by rw [← hx, e1]) (by rw [← hy, e1]) (by rw [← hx, e2]) (by rw [← hy, e2])

/-- **completeness of `__calc_sample_con_mu_chi`** -/
theorem sampleConMuChi_complete (mu chi qaz theta : ℝ) (N : M3 ℝ) (hN : N.a00 ^ 2 + N.a10 ^ 2 + N.a20 ^ 2 = 1)
    (eta0 phi0 : ℝ) (hS : SampleSpec ⟨N.a00, N.a10, N.a20⟩ theta qaz (mu, eta0, chi, phi0))
    (hschi : Scalar.isSmall (Real.sin chi) = false)
    (hAB : (Scalar.isSmall N.a10 && Scalar.isSmall N.a00) = false)
    (hA00 : (Scalar.isSmall (-(Real.cos qaz) * Real.cos theta * Real.sin mu + Real.cos mu * Real.sin theta) && Scalar.isSmall (Real.sin qaz * Real.cos theta)) = false)
    (hgen : Scalar.isSmall (Real.arccos ((N.a20 * Real.cos chi - (Real.cos mu * Real.cos qaz * Real.cos theta + Real.sin mu * Real.sin theta)) /
              (Real.sin chi * Scalar.hypot N.a10 N.a00))) = false)
    (hne : ∀ phi, SameAngle phi phi0 → (inner chi phi ⟨N.a00, N.a10, N.a20⟩).x ^ 2 + (inner chi phi ⟨N.a00, N.a10, N.a20⟩).y ^ 2 ≠ 0) :
    ∃ l, sampleConMuChi mu chi qaz theta N = .ok l ∧
      ∃ t ∈ l, t.1 = mu ∧ SameAngle t.2.1 eta0 ∧ t.2.2.1 = chi ∧ SameAngle t.2.2.2 phi0 := by
  have hsne : Real.sin chi ≠ 0 := not_small_ne_zero hschi
  have hS' := hS
  unfold SampleSpec at hS'
  simp only [] at hS'
  -- the z-equation of the given solution
  have hmid := mid_of_sampleSpec mu eta0 chi phi0 _ _ hS'
  have hz0 := congrArg V3.z hmid
  simp only [M3.mulVec, M3.mul, M3.transpose, rotX, rotZ, rotY, qDir, rs_cos, rs_sin, rs_one, rs_zero, Real.cos_neg, Real.sin_neg] at hz0
  have hr0 : N.a00 ≠ 0 ∨ N.a10 ≠ 0 := by
    by_contra hc; push Not at hc
    rw [hc.1, hc.2] at hAB
    simp [isSmall_real] at hAB; norm_num at hAB
  have hr := hypot_pos_of N.a00 N.a10 hr0
  have hr2 := hypot_sq N.a00 N.a10
  have hhy : Scalar.hypot N.a10 N.a00 = Scalar.hypot N.a00 N.a10 := by simp only [Scalar.hypot, rs_sqrt]; congr 1; ring
  rw [hhy] at hgen
  obtain ⟨r, hrdef⟩ : ∃ r, r = Scalar.hypot N.a00 N.a10 := ⟨_, rfl⟩
  rw [← hrdef] at hr hr2 hgen
  have hrne := hr.ne'
  obtain ⟨hce, hse⟩ := atan2_cs N.a00 N.a10 r hr hr2
  obtain ⟨ks, hksdef⟩ : ∃ ks, ks = atan2R N.a10 N.a00 := ⟨_, rfl⟩
  rw [← hksdef] at hce hse
  have h0 : N.a00 = r * Real.cos ks := by rw [hce]; field_simp
  have h1 : N.a10 = r * Real.sin ks := by rw [hse]; field_simp
  obtain ⟨V20, hV20⟩ : ∃ V20, V20 = Real.cos mu * Real.cos qaz * Real.cos theta + Real.sin mu * Real.sin theta := ⟨_, rfl⟩
  rw [← hV20] at hgen
  have hcos : Real.cos (phi0 - ks) = (N.a20 * Real.cos chi - V20) / (Real.sin chi * r) := by
    rw [Real.cos_sub]
    have hk : N.a00 * Real.cos phi0 + N.a10 * Real.sin phi0 = r * (Real.cos phi0 * Real.cos ks + Real.sin phi0 * Real.sin ks) := by
      conv_lhs => rw [h0, h1]
      ring
    have hz : (N.a00 * Real.cos phi0 + N.a10 * Real.sin phi0) * Real.sin chi = N.a20 * Real.cos chi - V20 := by
      rw [hV20]; linear_combination (-1 : ℝ) * hz0
    field_simp
    linear_combination hz - Real.sin chi * hk
  have hclip : |(N.a20 * Real.cos chi - V20) / (Real.sin chi * r)| ≤ 1 := by rw [← hcos]; exact Real.abs_cos_le_one _
  subst hV20 hrdef
  rw [← hhy] at hclip hcos hgen
  have hsound := sampleConMuChi_sound mu chi qaz theta N hN hclip hgen
  obtain ⟨c, hc⟩ := C11.boundAcos_ok hclip
  obtain ⟨hcv, _⟩ := C01.boundAcos_ok hclip hc
  -- the list: both roots, neither raises
  have hbranch : ∀ phi : ℝ, ∃ t : STuple ℝ, t.1 = mu ∧ t.2.2.1 = chi ∧ t.2.2.2 = phi ∧
      (let A00 := -(Real.cos qaz) * Real.cos theta * Real.sin mu + Real.cos mu * Real.sin theta
       let B00 := Real.sin qaz * Real.cos theta
       let V00 := N.a00 * Real.cos chi * Real.cos phi + N.a10 * Real.cos chi * Real.sin phi + N.a20 * Real.sin chi
       let V10 := N.a10 * Real.cos phi - N.a00 * Real.sin phi
       (if (Scalar.isSmall A00 && Scalar.isSmall B00) = true then (.error .dce : Py (List (STuple ℝ)))
        else .ok [(mu, atan2R (V00 * A00 + V10 * B00) (V00 * B00 - V10 * A00), chi, phi)])) = .ok [t] := by
    intro phi
    refine ⟨(mu, atan2R ((N.a00 * Real.cos chi * Real.cos phi + N.a10 * Real.cos chi * Real.sin phi + N.a20 * Real.sin chi) * (-(Real.cos qaz) * Real.cos theta * Real.sin mu + Real.cos mu * Real.sin theta)
          + (N.a10 * Real.cos phi - N.a00 * Real.sin phi) * (Real.sin qaz * Real.cos theta))
        ((N.a00 * Real.cos chi * Real.cos phi + N.a10 * Real.cos chi * Real.sin phi + N.a20 * Real.sin chi) * (Real.sin qaz * Real.cos theta)
          - (N.a10 * Real.cos phi - N.a00 * Real.sin phi) * (-(Real.cos qaz) * Real.cos theta * Real.sin mu + Real.cos mu * Real.sin theta)), chi, phi), rfl, rfl, rfl, ?_⟩
    simp only [hA00, Bool.false_eq_true, if_false]
  have hlist : ∃ l, sampleConMuChi mu chi qaz theta N = .ok l ∧
      ∀ phi ∈ [c + ks, -c + ks], ∃ t ∈ l, t.1 = mu ∧ t.2.2.1 = chi ∧ t.2.2.2 = phi := by
    unfold sampleConMuChi
    simp only [rs_cos, rs_sin, rs_atan2, hschi, hAB, Bool.false_eq_true, if_false]
    unfold tryAssert
    rw [hc]
    simp only []
    rw [hcv, hgen]
    simp only [Bool.false_eq_true, if_false, ← hksdef]
    obtain ⟨l, hl, hmem⟩ := forM'_complete [Real.arccos ((N.a20 * Real.cos chi - (Real.cos mu * Real.cos qaz * Real.cos theta + Real.sin mu * Real.sin theta)) /
          (Real.sin chi * Scalar.hypot N.a10 N.a00)) + ks,
        -Real.arccos ((N.a20 * Real.cos chi - (Real.cos mu * Real.cos qaz * Real.cos theta + Real.sin mu * Real.sin theta)) /
          (Real.sin chi * Scalar.hypot N.a10 N.a00)) + ks] _
      (fun phi _ => by obtain ⟨t, _, _, _, ht⟩ := hbranch phi; exact ⟨[t], ht⟩)
    refine ⟨l, hl, ?_⟩
    intro phi hphi
    obtain ⟨t, h1', h2', h3', ht⟩ := hbranch phi
    exact ⟨t, hmem phi hphi [t] ht t (by simp), h1', h2', h3'⟩
  obtain ⟨l, hl, hroots⟩ := hlist
  refine ⟨l, hl, ?_⟩
  obtain ⟨phi', hm, hsame⟩ : ∃ phi', phi' ∈ [c + ks, -c + ks] ∧ SameAngle phi' phi0 := by
    rw [hcv]
    rcases acos_roots_complete (phi0 - ks) _ hclip hcos with h | h
    · exact ⟨_, List.mem_cons.mpr (Or.inl rfl), sameAngle_sub_add phi0 ks _ h⟩
    · exact ⟨_, List.mem_cons.mpr (Or.inr (List.mem_cons.mpr (Or.inl rfl))), sameAngle_sub_add phi0 ks _ h⟩
  obtain ⟨t, htl, ht1, ht3, ht4⟩ := hroots phi' hm
  have hSt := hsound l hl t htl
  obtain ⟨tm, te, tc, tp⟩ := t
  simp only [] at ht1 ht3 ht4
  subst ht1 ht3 ht4
  refine ⟨_, htl, rfl, ?_, rfl, hsame⟩
  unfold SampleSpec at hSt
  simp only [] at hSt ⊢
  have hS0 : M3.mulVec (C04.Z tm eta0 tc tp) ⟨N.a00, N.a10, N.a20⟩ = qDir theta qaz := by
    rw [Z_congr4 tm tm eta0 eta0 tc tc tp phi0 (sameAngle_refl _) (sameAngle_refl _) (sameAngle_refl _) hsame]; exact hS'
  exact eta_unique tm te eta0 tc tp _ _ hSt hS0 (hne tp hsame)
end
end C03
