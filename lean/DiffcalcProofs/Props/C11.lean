import DiffcalcProofs.Lemmas.PyCalc
import DiffcalcProofs.Props.C06
/-!
# C11 — queries fail only with DiffcalcException (finite-real reading of the solver model)

Model: `Diffcalc/Solver/*.lean` (hand, tie H).  `NoLeak m`: if `m` fails it fails with DiffcalcException.
Assembled function by function: every `asin/acos` sits behind `bound`, every `bound` inside the generators sits
inside a `try … except AssertionError`, the layers only re-raise what the layers below raise.

What this reading cannot exhibit: inf/NaN produced by numpy division by an exact zero — those points are executed
on the real code by the check (special-value stream); the theorems are about finite real arithmetic.
-/
namespace C11
open Solver PyOps
noncomputable section

variable {β γ : Type}

theorem noLeak_tryAssert {m : Py γ} {k : γ → Py (List β)} (hm : OnlyAD m) (hk : ∀ v, m = .ok v → NoLeak (k v)) :
    NoLeak (tryAssert m k) := by
  unfold tryAssert
  cases m with
  | ok v => exact hk v rfl
  | error e =>
    rcases hm e rfl with rfl | rfl
    · exact noLeak_dce
    · exact noLeak_ok _

theorem onlyAD_boundAsin (x : ℝ) : OnlyAD (boundAsin x) := onlyAD_bound_asin x
theorem onlyAD_boundAcos (x : ℝ) : OnlyAD (boundAcos x) := onlyAD_bound_acos x

theorem bound_ok_abs {x y : ℝ} (h : bound x = .ok y) : |y| ≤ 1 := by
  rcases bound_cases x with ⟨y', hy', hle⟩ | he
  · rw [hy'] at h; cases h; exact hle
  · rw [he] at h; cases h

theorem onlyAD_sqrt_sumsq_bind {f : ℝ → Py γ} (a b : ℝ) (hf : ∀ s, OnlyAD (f s)) :
    OnlyAD (pySqrt (a * a + b * b) >>= f) := by
  rw [pySqrt_ok (by nlinarith [mul_self_nonneg a, mul_self_nonneg b])]
  exact hf _

/-! ## sample layer -/

theorem noLeak_sampleFromChiEta (chi eta : ℝ) (Z : M3 ℝ) : NoLeak (sampleFromChiEta chi eta Z) := by
  unfold sampleFromChiEta; (try simp only []); split
  · exact noLeak_dce
  · exact noLeak_ok _

theorem noLeak_sampleConMu (mu : ℝ) (Nl Np : M3 ℝ) : NoLeak (sampleConMu mu Nl Np) := by
  unfold sampleConMu
  apply noLeak_catchAssert
  apply onlyAD_bind (onlyAD_boundAcos _)
  intro a _; split <;> exact onlyAD_ok _

theorem noLeak_sampleConPhi (phi : ℝ) (Nl Np : M3 ℝ) : NoLeak (sampleConPhi phi Nl Np) := by
  unfold sampleConPhi
  apply noLeak_tryAssert (onlyAD_boundAsin _)
  intro a _; split
  · exact noLeak_dce
  · exact noLeak_ok _

theorem noLeak_sampleConChi (chi : ℝ) (Nl Np : M3 ℝ) : NoLeak (sampleConChi chi Nl Np) := by
  unfold sampleConChi; (try simp only []); split
  · exact noLeak_dce
  · apply noLeak_tryAssert (onlyAD_boundAcos _)
    intro a _
    exact noLeak_forM' _ _ (fun e _ => noLeak_sampleFromChiEta _ _ _)

theorem noLeak_sampleConEta (eta : ℝ) (Nl Np : M3 ℝ) : NoLeak (sampleConEta eta Nl Np) := by
  unfold sampleConEta; (try simp only []); split
  · exact noLeak_dce
  · apply noLeak_tryAssert (onlyAD_boundAsin _)
    intro a _
    exact noLeak_forM' _ _ (fun e _ => noLeak_sampleFromChiEta _ _ _)

/-- Cauchy–Schwarz in the form the code needs: the cosine between two (normalised or null) vectors is within [-1, 1] -/
theorem normSq_unitish (x : V3 ℝ) : V3.normSq (V3.smul (1 / V3.norm x) x) ≤ 1 := by
  by_cases h : V3.norm x = 0
  · simp [h, V3.normSq, V3.dot, V3.smul]
  · have hp : 0 < V3.norm x := lt_of_le_of_ne (V3.norm_nonneg x) (Ne.symm h)
    have : V3.norm (V3.smul (1 / V3.norm x) x) = 1 := by
      rw [V3.norm_smul_pos _ (by positivity)]; field_simp
    have h2 : V3.normSq (V3.smul (1 / V3.norm x) x) = V3.norm (V3.smul (1 / V3.norm x) x) ^ 2 := by
      simp only [V3.norm, rs_sqrt]; rw [Real.sq_sqrt (V3.normSq_nonneg _)]
    rw [h2, this]; norm_num

theorem cauchy_schwarz (u v : V3 ℝ) : (V3.dot u v) ^ 2 ≤ V3.normSq u * V3.normSq v := by
  simp only [V3.dot, V3.normSq]
  nlinarith [sq_nonneg (u.x * v.y - u.y * v.x), sq_nonneg (u.x * v.z - u.z * v.x), sq_nonneg (u.y * v.z - u.z * v.y)]

theorem abs_cos_between (x y : V3 ℝ) :
    |V3.dot (V3.smul (1 / V3.norm x) x) (V3.smul (1 / V3.norm y) y)| ≤ 1 := by
  have h := cauchy_schwarz (V3.smul (1 / V3.norm x) x) (V3.smul (1 / V3.norm y) y)
  have h1 := normSq_unitish x
  have h2 := normSq_unitish y
  have h3 := V3.normSq_nonneg (V3.smul (1 / V3.norm x) x)
  have h4 := V3.normSq_nonneg (V3.smul (1 / V3.norm y) y)
  have : (V3.dot (V3.smul (1 / V3.norm x) x) (V3.smul (1 / V3.norm y) y)) ^ 2 ≤ 1 := by nlinarith
  exact abs_le_one_iff_mul_self_le_one.mpr (by nlinarith)

theorem boundAcos_ok {x : ℝ} (h : |x| ≤ 1) : ∃ a, boundAcos x = .ok a := by
  unfold boundAcos
  rcases bound_cases x with ⟨y, hy, hle⟩ | he
  · rw [hy]; exact ⟨_, pyAcos_ok hle⟩
  · exfalso
    unfold bound at he
    have : Scalar.lt ((Scalar.one : ℝ) + Scalar.SMALL) (Scalar.abs x) = false := by
      simp only [rs_lt, rs_one, rs_abs, Scalar.SMALL, Scalar.ofSci, decide_eq_false_iff_not, not_lt]
      norm_num; linarith
    rw [if_neg (by rw [this]; simp)] at he
    split at he <;> (try split at he) <;> cases he

theorem boundAsin_ok {x : ℝ} (h : |x| ≤ 1) : ∃ a, boundAsin x = .ok a := by
  unfold boundAsin
  rcases bound_cases x with ⟨y, hy, hle⟩ | he
  · rw [hy]; exact ⟨_, pyAsin_ok hle⟩
  · exfalso
    unfold bound at he
    have : Scalar.lt ((Scalar.one : ℝ) + Scalar.SMALL) (Scalar.abs x) = false := by
      simp only [rs_lt, rs_one, rs_abs, Scalar.SMALL, Scalar.ofSci, decide_eq_false_iff_not, not_lt]
      norm_num; linarith
    rw [if_neg (by rw [this]; simp)] at he
    split at he <;> (try split at he) <;> cases he

/-- `angle_between_vectors` never fails on finite vectors (real reading) -/
theorem angleBetween_total (x y : V3 ℝ) : ∃ a, angleBetween x y = .ok a := by
  unfold angleBetween
  simp only [rs_one]
  obtain ⟨a, ha⟩ := boundAcos_ok (abs_cos_between x y)
  rw [ha]; exact ⟨_, rfl⟩

/-- `_calc_N` never fails on finite vectors (real reading) -/
theorem calcN_total (Q n : V3 ℝ) : ∃ N, calcN Q n = .ok N := by
  unfold calcN
  obtain ⟨a, ha⟩ := angleBetween_total (V3.normalised Q) (V3.normalised n)
  simp only [ha]; exact ⟨_, rfl⟩

theorem noLeak_calcN (Q n : V3 ℝ) : NoLeak (calcN Q n) := by
  obtain ⟨N, hN⟩ := calcN_total Q n
  rw [hN]; exact noLeak_ok _

theorem noLeak_sampleConMuEta (mu eta qaz theta : ℝ) (N : M3 ℝ) : NoLeak (sampleConMuEta mu eta qaz theta N) := by
  unfold sampleConMuEta; (try simp only []); split
  · exact noLeak_dce
  · apply noLeak_tryAssert (onlyAD_boundAsin _)
    intro a _; exact noLeak_ok _

theorem noLeak_sampleConOmegaBisect (om qaz theta : ℝ) (N : M3 ℝ) : NoLeak (sampleConOmegaBisect om qaz theta N) := by
  unfold sampleConOmegaBisect
  exact noLeak_forM' _ _ (fun p _ => noLeak_sampleConMuEta _ _ _ _ _)

theorem noLeak_sampleConMuBisect (mu qaz theta : ℝ) (N : M3 ℝ) : NoLeak (sampleConMuBisect mu qaz theta N) := by
  unfold sampleConMuBisect; (try simp only [])
  split
  · exact noLeak_ok _
  · exact noLeak_forM' _ _ (fun p _ => noLeak_sampleConMuEta _ _ _ _ _)

theorem noLeak_sampleConEtaBisect (eta qaz theta : ℝ) (N : M3 ℝ) : NoLeak (sampleConEtaBisect eta qaz theta N) := by
  unfold sampleConEtaBisect; (try simp only [])
  split
  · split
    · exact noLeak_forM' _ _ (fun p _ => noLeak_sampleConMuEta _ _ _ _ _)
    · exact noLeak_ok _
  · apply noLeak_tryAssert (onlyAD_boundAsin _)
    intro a _
    split <;> exact noLeak_forM' _ _ (fun p _ => noLeak_sampleConMuEta _ _ _ _ _)

theorem noLeak_sampleConChiPhi (chi phi qaz theta : ℝ) (N : M3 ℝ) : NoLeak (sampleConChiPhi chi phi qaz theta N) := by
  unfold sampleConChiPhi; (try simp only [])
  apply noLeak_tryAssert
  · have : Real.cos qaz * Real.cos qaz * (Real.cos theta * Real.cos theta) + Real.sin theta * Real.sin theta
        = (Real.cos qaz * Real.cos theta) * (Real.cos qaz * Real.cos theta) + Real.sin theta * Real.sin theta := by ring
    simp only [rs_cos, rs_sin, this]
    exact onlyAD_sqrt_sumsq_bind _ _ (fun s => onlyAD_boundAsin _)
  · intro a _
    apply noLeak_forM'
    intro mu _; (try simp only []); split
    · exact noLeak_dce
    · exact noLeak_ok _

theorem noLeak_sampleConMuPhi (mu phi qaz theta : ℝ) (N : M3 ℝ) : NoLeak (sampleConMuPhi mu phi qaz theta N) := by
  unfold sampleConMuPhi; (try simp only [])
  apply noLeak_tryAssert (onlyAD_boundAsin _)
  intro a _; exact noLeak_ok _

theorem noLeak_sampleConMuChi (mu chi qaz theta : ℝ) (N : M3 ℝ) : NoLeak (sampleConMuChi mu chi qaz theta N) := by
  unfold sampleConMuChi; (try simp only [])
  split
  · exact noLeak_dce
  · split
    · exact noLeak_dce
    · apply noLeak_tryAssert (onlyAD_boundAcos _)
      intro a _
      apply noLeak_forM'
      intro phi _; (try simp only []); split
      · exact noLeak_dce
      · exact noLeak_ok _

theorem noLeak_sampleConEtaPhi (eta phi qaz theta : ℝ) (N : M3 ℝ) : NoLeak (sampleConEtaPhi eta phi qaz theta N) := by
  unfold sampleConEtaPhi; (try simp only [])
  split
  · exact noLeak_dce
  · apply noLeak_tryAssert (onlyAD_boundAcos _)
    intro a _; exact noLeak_ok _

theorem noLeak_sampleConEtaChi (eta chi qaz theta : ℝ) (N : M3 ℝ) : NoLeak (sampleConEtaChi eta chi qaz theta N) := by
  unfold sampleConEtaChi; (try simp only [])
  split
  · exact noLeak_dce
  · apply noLeak_tryAssert (onlyAD_boundAcos _)
    intro a _
    apply noLeak_forM'
    intro phi _; (try simp only []); split
    · exact noLeak_dce
    · exact noLeak_ok _

theorem noLeak_twoSampleDetector (s : Samp2Det ℝ) (qaz theta : ℝ) (N : M3 ℝ) : NoLeak (twoSampleDetector s qaz theta N) := by
  cases s <;> simp only [twoSampleDetector]
  · exact noLeak_sampleConMuEta _ _ _ _ _
  · exact noLeak_sampleConOmegaBisect _ _ _ _
  · exact noLeak_sampleConMuBisect _ _ _ _
  · exact noLeak_sampleConEtaBisect _ _ _ _
  · exact noLeak_sampleConChiPhi _ _ _ _ _
  · exact noLeak_sampleConMuPhi _ _ _ _ _
  · exact noLeak_sampleConMuChi _ _ _ _ _
  · exact noLeak_sampleConEtaPhi _ _ _ _ _
  · exact noLeak_sampleConEtaChi _ _ _ _ _

/-- `_calc_remaining_sample_angles`: the AssertionError that `_calc_N`'s `bound` could raise is NOT caught by the
    source; it cannot occur for finite vectors (|cos| ≤ 1 by Cauchy–Schwarz, `calcN_total`) -/
theorem noLeak_remainingSample (s : Samp1 ℝ) (theta alpha qaz : ℝ) (naz : Option ℝ) (N : M3 ℝ) :
    NoLeak (remainingSample s theta alpha qaz naz N) := by
  unfold remainingSample
  apply noLeak_bind (noLeak_calcN _ _)
  intro Nl _
  cases s <;> simp only []
  · exact noLeak_sampleConMu _ _ _
  · exact noLeak_sampleConPhi _ _ _
  · exact noLeak_sampleConEta _ _ _
  · exact noLeak_sampleConChi _ _ _

/-! ## reference layer -/

theorem noLeak_chiAndQaz (mu eta : ℝ) (V : M3 ℝ) : NoLeak (chiAndQaz mu eta V) := by
  unfold chiAndQaz; (try simp only []); split
  · exact noLeak_dce
  · exact noLeak_ok _

theorem noLeak_refConChiPhi (chi phi psi theta : ℝ) (N : M3 ℝ) : NoLeak (refConChiPhi chi phi psi theta N) := by
  unfold refConChiPhi; (try simp only [])
  apply noLeak_tryAssert (onlyAD_boundAsin _)
  intro a _
  apply noLeak_forM'
  intro mu _; (try simp only []); split
  · exact noLeak_dce
  · split
    · exact noLeak_dce
    · exact noLeak_ok _

theorem onlyAD_sqrt_bound (a b x : ℝ) : OnlyAD (pySqrt (a * a + b * b) >>= fun s => bound (x / s)) :=
  onlyAD_sqrt_sumsq_bind _ _ (fun _ => onlyAD_bound _)

theorem noLeak_refConMuEta (mu eta psi theta : ℝ) (N : M3 ℝ) : NoLeak (refConMuEta mu eta psi theta N) := by
  unfold refConMuEta; (try simp only [])
  apply noLeak_tryAssert
  · have : Real.sin eta * Real.sin eta * (Real.cos mu * Real.cos mu) + Real.sin mu * Real.sin mu
        = (Real.sin eta * Real.cos mu) * (Real.sin eta * Real.cos mu) + Real.sin mu * Real.sin mu := by ring
    simp only [rs_cos, rs_sin, this]
    exact onlyAD_sqrt_bound _ _ _
  · intro bot hb
    have hle : |bot| ≤ 1 := by
      have : ∃ s, bound (-(Vref psi theta N).a21 / s) = .ok bot := by
        cases hs : pySqrt (Scalar.sin eta * Scalar.sin eta * (Scalar.cos mu * Scalar.cos mu) + Scalar.sin mu * Scalar.sin mu) with
        | ok s => rw [hs] at hb; exact ⟨s, hb⟩
        | error e => rw [hs] at hb; cases hb
      obtain ⟨s, hs⟩ := this
      exact bound_ok_abs hs
    split <;> simp only [pyAcos_ok hle, pyAsin_ok hle, bind, Except.bind, pure, Except.pure] <;> exact noLeak_ok _

theorem noLeak_refConChiEta (chi eta psi theta : ℝ) (N : M3 ℝ) : NoLeak (refConChiEta chi eta psi theta N) := by
  unfold refConChiEta; (try simp only [])
  apply noLeak_tryAssert
  · have : Real.sin eta * Real.sin eta * (Real.sin chi * Real.sin chi) + Real.cos chi * Real.cos chi
        = (Real.sin eta * Real.sin chi) * (Real.sin eta * Real.sin chi) + Real.cos chi * Real.cos chi := by ring
    simp only [rs_cos, rs_sin, this]
    exact onlyAD_sqrt_bound _ _ _
  · intro bot hb
    have hle : |bot| ≤ 1 := by
      have : ∃ s, bound (-(Vref psi theta N).a21 / s) = .ok bot := by
        cases hs : pySqrt (Scalar.sin eta * Scalar.sin eta * (Scalar.sin chi * Scalar.sin chi) + Scalar.cos chi * Scalar.cos chi) with
        | ok s => rw [hs] at hb; exact ⟨s, hb⟩
        | error e => rw [hs] at hb; cases hb
      obtain ⟨s, hs⟩ := this
      exact bound_ok_abs hs
    split <;> simp only [pyAcos_ok hle, pyAsin_ok hle, bind, Except.bind, pure, Except.pure] <;> exact noLeak_ok _

theorem noLeak_refConChiMu (chi mu psi theta : ℝ) (N : M3 ℝ) : NoLeak (refConChiMu chi mu psi theta N) := by
  unfold refConChiMu; (try simp only [])
  apply noLeak_tryAssert (onlyAD_boundAsin _)
  intro a _; exact noLeak_ok _

theorem noLeak_refConMuPhi (mu phi psi theta : ℝ) (N : M3 ℝ) : NoLeak (refConMuPhi mu phi psi theta N) := by
  unfold refConMuPhi; (try simp only []); split
  · exact noLeak_dce
  · apply noLeak_tryAssert (onlyAD_boundAcos _)
    intro a _
    apply noLeak_forM'
    intro eta _
    apply noLeak_bind (noLeak_chiAndQaz _ _ _)
    intro r _; exact noLeak_ok _

theorem noLeak_refConEtaPhi (eta phi psi theta : ℝ) (N : M3 ℝ) : NoLeak (refConEtaPhi eta phi psi theta N) := by
  unfold refConEtaPhi; (try simp only []); split
  · exact noLeak_dce
  · apply noLeak_tryAssert (onlyAD_boundAcos _)
    intro a _
    apply noLeak_forM'
    intro mu _
    apply noLeak_bind (noLeak_chiAndQaz _ _ _)
    intro r _; exact noLeak_ok _

theorem noLeak_twoSampleReference (s : Samp2Ref ℝ) (psi theta : ℝ) (N : M3 ℝ) : NoLeak (twoSampleReference s psi theta N) := by
  cases s <;> simp only [twoSampleReference]
  · exact noLeak_refConChiPhi _ _ _ _ _
  · exact noLeak_refConMuEta _ _ _ _ _
  · exact noLeak_refConChiEta _ _ _ _ _
  · exact noLeak_refConChiMu _ _ _ _ _
  · exact noLeak_refConMuPhi _ _ _ _ _
  · exact noLeak_refConEtaPhi _ _ _ _ _

/-! ## detector layer -/

theorem noLeak_detFromDelta (delta theta : ℝ) : NoLeak (detFromDelta delta theta) := by
  unfold detFromDelta
  apply noLeak_catchAssert
  apply onlyAD_bind (onlyAD_boundAsin _)
  intro a _
  apply onlyAD_bind
  · unfold acosNu; split
    · exact onlyAD_ok _
    · exact onlyAD_boundAcos _
  · intro b _; exact onlyAD_ok _

theorem noLeak_detFromNu (nu theta : ℝ) : NoLeak (detFromNu nu theta) := by
  unfold detFromNu; (try simp only []); split
  · exact noLeak_dce
  · apply noLeak_catchAssert
    apply onlyAD_bind (onlyAD_boundAcos _)
    intro a _
    apply onlyAD_bind (onlyAD_boundAcos _)
    intro b _; exact onlyAD_ok _

theorem noLeak_detRemaining (d : DetCon ℝ) (theta : ℝ) : NoLeak (detRemaining d theta) := by
  cases d <;> simp only [detRemaining]
  · exact noLeak_detFromDelta _ _
  · exact noLeak_detFromNu _ _
  · exact noLeak_ok _

theorem onlyAD_nazQazAngle (theta alpha : ℝ) (tau : Option ℝ) : OnlyAD (nazQazAngle theta alpha tau) := by
  unfold nazQazAngle; (try simp only []); split
  · exact onlyAD_ok _
  · cases tau with
    | none => exact onlyAD_ok _
    | some t =>
      simp only []
      split
      · exact onlyAD_ok _
      · apply onlyAD_bind (onlyAD_boundAcos _)
        intro a _; exact onlyAD_ok _

/-- `_calc_detector_con_det_or_naz` under its own precondition (a detector or naz constraint is present — guaranteed by the dispatcher) -/
theorem noLeak_detOrNaz (det : Option (DetCon ℝ)) (naz : Option ℝ) (theta : ℝ) (tau : Option ℝ) (alpha : ℝ)
    (hpre : det.isSome ∨ naz.isSome) : NoLeak (detOrNaz det naz theta tau alpha) := by
  unfold detOrNaz
  have : (det.isNone && naz.isNone) = false := by
    rcases hpre with h | h <;> (cases det <;> cases naz <;> simp_all)
  rw [if_neg (by rw [this]; simp)]
  apply noLeak_tryAssert (onlyAD_nazQazAngle _ _ _)
  intro nq _
  cases det with
  | some d =>
    simp only []
    apply noLeak_bind (noLeak_detRemaining _ _)
    intro l _; exact noLeak_ok _
  | none =>
    simp only []
    cases naz <;> exact noLeak_ok _

/-! ## calc_func layer -/

theorem noLeak_lastSampleAngle_AD (free : Free) (mu eta chi phi : ℝ) (h : V3 ℝ) (theta : ℝ) :
    OnlyAD (lastSampleAngle free mu eta chi phi h theta) := by
  unfold lastSampleAngle
  split
  rename_i A B C _
  split
  · exact onlyAD_dce
  · apply onlyAD_bind (onlyAD_boundAcos _)
    intro a _; exact onlyAD_ok _

theorem noLeak_threeSample (free : Free) (mu eta chi phi : ℝ) (h : V3 ℝ) (theta : ℝ) :
    NoLeak (threeSample free mu eta chi phi h theta) := by
  unfold threeSample
  apply noLeak_tryAssert (noLeak_lastSampleAngle_AD _ _ _ _ _ _ _)
  intro vals _; exact noLeak_ok _

theorem noLeak_twoSampleAndReference (s : Samp2Ref ℝ) (h n : V3 ℝ) (theta psi : ℝ) :
    NoLeak (twoSampleAndReference s h n theta psi) := by
  unfold twoSampleAndReference
  apply noLeak_bind (noLeak_calcN _ _)
  intro N _
  apply noLeak_bind (noLeak_twoSampleReference _ _ _ _)
  intro rs _; exact noLeak_ok _

theorem noLeak_remainingReference (r : RefCon ℝ) (theta tau : ℝ) : NoLeak (remainingReference r theta tau) := by
  unfold remainingReference
  have key : ∀ {m : Py ℝ}, OnlyAD m → NoLeak (toDce m) := by
    intro m hm
    unfold toDce
    cases m with
    | ok v => exact noLeak_ok v
    | error e => rcases hm e rfl with rfl | rfl <;> exact noLeak_dce
  apply key
  cases r <;> simp only []
  · exact onlyAD_boundAsin _
  · apply onlyAD_bind (onlyAD_boundAsin _); intro _ _; exact onlyAD_ok _
  · exact onlyAD_boundAsin _
  · apply onlyAD_bind (onlyAD_boundAsin _); intro a _
    apply onlyAD_bind (onlyAD_boundAsin _); intro _ _; exact onlyAD_ok _
  · exact onlyAD_boundAsin _
  · apply onlyAD_bind (onlyAD_boundAsin _); intro _ _; exact onlyAD_ok _
  · exact onlyAD_boundAsin _

/-- `_calc_det_sample_reference` for the mode shapes the dispatcher produces -/
theorem noLeak_detSampleReference (det : Option (DetCon ℝ)) (naz : Option ℝ) (samp : SampD ℝ) (h n : V3 ℝ) (theta : ℝ)
    (alpha tau : Option ℝ)
    (hshape : match samp with | .one _ => (det.isSome ∨ naz.isSome) ∧ alpha.isSome | .two _ => True) :
    NoLeak (detSampleReference det naz samp h n theta alpha tau) := by
  unfold detSampleReference
  apply noLeak_bind (noLeak_calcN _ _)
  intro N _
  cases samp with
  | one s =>
    simp only [] at hshape ⊢
    cases alpha with
    | none => simp at hshape
    | some a =>
      simp only []
      apply noLeak_bind (noLeak_detOrNaz _ _ _ _ _ hshape.1)
      intro ds _
      apply noLeak_forM'
      intro d _
      apply noLeak_bind (noLeak_remainingSample _ _ _ _ _ _)
      intro ss _; exact noLeak_ok _
  | two s =>
    simp only []
    cases det with
    | none => exact noLeak_dce
    | some d =>
      simp only []
      apply noLeak_bind (noLeak_detRemaining _ _)
      intro ds _
      apply noLeak_forM'
      intro t _
      apply noLeak_bind (noLeak_twoSampleDetector _ _ _ _)
      intro ss _; exact noLeak_ok _

/-! ## calc.py layer -/

theorem noLeak_angleBetween (x y : V3 ℝ) : NoLeak (angleBetween x y) := by
  obtain ⟨a, ha⟩ := angleBetween_total x y
  rw [ha]; exact noLeak_ok _

theorem noLeak_nphiAlphaTau (ub : UBIn ℝ) (ref : RefCon ℝ) (h : V3 ℝ) (theta : ℝ) : NoLeak (nphiAlphaTau ub ref h theta) := by
  unfold nphiAlphaTau
  apply noLeak_bind (noLeak_angleBetween _ _); intro t1 _
  apply noLeak_bind (noLeak_angleBetween _ _); intro t2 _
  dsimp only
  repeat' split
  all_goals first
    | exact noLeak_dce
    | (apply noLeak_bind (noLeak_remainingReference _ _ _); intro a _; exact noLeak_ok _)

/-- the Bragg angle: for an invertible B the only failures are DiffcalcExceptions (zero vector, unreachable reflection) -/
theorem noLeak_ttheta (B : M3 ℝ) (hdet : M3.det B ≠ 0) (hkl : V3 ℝ) (en : ℝ) : NoLeak (CrystalModel.ttheta B hkl en) := by
  unfold CrystalModel.ttheta
  by_cases hz : hkl.x = 0 ∧ hkl.y = 0 ∧ hkl.z = 0
  · have : hkl = ⟨0, 0, 0⟩ := by cases hkl; simp_all
    rw [this, C06.planeDistance_zero]; exact noLeak_dce
  · have hpos : 0 < V3.norm hkl := by
      rw [V3.norm_pos_iff]; by_contra hc; push Not at hc; exact hz hc
    rw [C06.planeDistance_eq B hdet hkl (M3.mulVec_injective B hdet hkl hpos)]
    simp only []
    rcases bound_cases (Scalar.ofSci 1239842 true 5 / en / (2 * Real.pi / V3.norm (M3.mulVec B hkl) * Scalar.two)) with ⟨y, hy, hle⟩ | he
    · rw [hy]; simp only [pyAsin_ok hle]; exact noLeak_ok _
    · rw [he]; exact noLeak_dce

theorem mapM_total {f : β → Py γ} (h : ∀ x, ∃ y, f x = .ok y) : ∀ xs : List β, ∃ l, xs.mapM f = .ok l
  | [] => ⟨[], rfl⟩
  | x :: xs => by
    obtain ⟨y, hy⟩ := h x
    obtain ⟨l, hl⟩ := mapM_total h xs
    exact ⟨y :: l, by simp [List.mapM_cons, hy, hl, bind, Except.bind, pure, Except.pure]⟩

/-- the candidate generation fails only with DiffcalcException, for every implemented mode shape -/
theorem noLeak_candidates (ub : UBIn ℝ) (hdet : M3.det ub.B ≠ 0) (mode : Mode ℝ) (hkl : V3 ℝ) (wl : ℝ)
    (hshape : match mode with | .detRefSamp det naz _ _ => det.isSome ∨ naz.isSome | _ => True) :
    NoLeak (candidates ub mode hkl wl) := by
  unfold candidates
  apply noLeak_bind (noLeak_ttheta _ hdet _ _)
  intro tth _
  cases mode with
  | detRefSamp det naz ref s =>
    simp only [] at hshape ⊢
    apply noLeak_bind (noLeak_nphiAlphaTau _ _ _ _)
    intro r _
    exact noLeak_detSampleReference _ _ _ _ _ _ _ _ ⟨hshape, rfl⟩
  | detSamp2 det s =>
    exact noLeak_detSampleReference _ _ _ _ _ _ _ _ trivial
  | refSamp2 ref s =>
    simp only []
    apply noLeak_bind (noLeak_nphiAlphaTau _ _ _ _)
    intro r _
    apply noLeak_forM'
    intro psi _
    cases psi with
    | none => exact noLeak_ok _
    | some p => exact noLeak_twoSampleAndReference _ _ _ _ _
  | samp3 free mu eta chi phi => exact noLeak_threeSample _ _ _ _ _ _ _

theorem hklToPosition_noLeak (ub : UBIn ℝ) (hdet : M3.det ub.B ≠ 0) (mode : Mode ℝ) (hkl : V3 ℝ) (wl : ℝ)
    (hshape : match mode with | .detRefSamp det naz _ _ => det.isSome ∨ naz.isSome | _ => True)
    (hva : ∀ p, NoLeak (virtualAngles ub p)) : NoLeak (hklToPosition ub mode hkl wl) := by
  unfold hklToPosition
  apply noLeak_bind (noLeak_candidates ub hdet mode hkl wl hshape)
  intro cands _
  split
  · exact noLeak_dce
  · apply noLeak_bind
    · apply noLeak_mapM
      intro p
      apply noLeak_bind (hva p); intro va _; exact noLeak_ok _
    · intro pairs _
      dsimp only
      split
      · exact noLeak_dce
      · exact noLeak_ok _

theorem hklToPosition_nonempty (ub : UBIn ℝ) (mode : Mode ℝ) (hkl : V3 ℝ) (wl : ℝ) (l : List (Pos ℝ × VAngles ℝ))
    (h : hklToPosition ub mode hkl wl = .ok l) : l ≠ [] := by
  unfold hklToPosition at h
  obtain ⟨cands, _, h⟩ := bind_ok_inv h
  split at h
  · cases h
  · obtain ⟨pairs, _, h⟩ := bind_ok_inv h
    dsimp only at h
    split at h
    · cases h
    · rename_i hne
      cases h
      intro h0; apply hne; simp [h0]

/-- **C11 (get_position)**: `get_position` either returns a NON-EMPTY list or raises DiffcalcException — for every
    implemented mode shape and every finite input, provided `get_virtual_angles` does not leak on the candidate positions
    (`virtualAngles_noLeak` below discharges this for unit reference vectors) -/
theorem getPosition_noLeak (ub : UBIn ℝ) (hdet : M3.det ub.B ≠ 0) (mode : Mode ℝ) (hkl : V3 ℝ) (wl : ℝ)
    (hshape : match mode with | .detRefSamp det naz _ _ => det.isSome ∨ naz.isSome | _ => True)
    (hva : ∀ p, NoLeak (virtualAngles ub p)) : NoLeak (getPosition ub mode hkl wl) := by
  unfold getPosition
  apply noLeak_bind (hklToPosition_noLeak ub hdet mode hkl wl hshape hva)
  intro pairs _
  apply noLeak_bind
  · apply noLeak_mapM
    intro x
    obtain ⟨p, va⟩ := x
    dsimp only
    split
    · exact noLeak_ok _
    · exact noLeak_dce
  · intro _ _
    apply noLeak_bind
    · apply noLeak_mapM
      intro x
      obtain ⟨p, va⟩ := x
      exact hva p
    · intro _ _; exact noLeak_ok _

theorem getPosition_nonempty (ub : UBIn ℝ) (mode : Mode ℝ) (hkl : V3 ℝ) (wl : ℝ) (l : List (Pos ℝ × VAngles ℝ))
    (h : getPosition ub mode hkl wl = .ok l) : l ≠ [] := by
  unfold getPosition at h
  obtain ⟨pairs, hp, h⟩ := bind_ok_inv h
  obtain ⟨_, _, h⟩ := bind_ok_inv h
  obtain ⟨_, _, h⟩ := bind_ok_inv h
  cases h
  exact hklToPosition_nonempty ub mode hkl wl _ hp

/-! ## `get_virtual_angles` never raises (real reading) -/

theorem normSq_normalised_le (v : V3 ℝ) : V3.normSq (V3.normalised v) ≤ 1 := by
  unfold V3.normalised
  simp only [rs_beq, rs_zero, rs_one]
  by_cases h : V3.norm v = 0
  · simp only [h, decide_true, if_true]
    have : V3.normSq v = 0 := by
      have h2 : V3.norm v ^ 2 = V3.normSq v := by simp only [V3.norm, rs_sqrt]; exact Real.sq_sqrt (V3.normSq_nonneg v)
      rw [← h2, h]; ring
    rw [this]; norm_num
  · simp only [h, decide_false, Bool.false_eq_true, if_false]
    exact normSq_unitish v

theorem abs_comp_le_of_normSq_le (v : V3 ℝ) (h : V3.normSq v ≤ 1) : |v.y| ≤ 1 := by
  simp only [V3.normSq, V3.dot] at h
  exact abs_le_one_iff_mul_self_le_one.mpr (by nlinarith [mul_self_nonneg v.x, mul_self_nonneg v.z])

theorem abs_dot_le_one (u v : V3 ℝ) (hu : V3.normSq u ≤ 1) (hv : V3.normSq v ≤ 1) : |V3.dot u v| ≤ 1 := by
  have h := cauchy_schwarz u v
  have h3 := V3.normSq_nonneg u
  have h4 := V3.normSq_nonneg v
  have : (V3.dot u v) ^ 2 ≤ 1 := by nlinarith
  exact abs_le_one_iff_mul_self_le_one.mpr (by nlinarith)

theorem boundAsin_eq {x : ℝ} (h : |x| ≤ 1) : boundAsin x = .ok (Real.arcsin x) := by
  unfold boundAsin
  have hb : bound x = .ok x := by
    unfold bound
    have a1 : Scalar.lt ((Scalar.one : ℝ) + Scalar.SMALL) (Scalar.abs x) = false := by
      simp only [rs_lt, rs_one, rs_abs, Scalar.SMALL, Scalar.ofSci, decide_eq_false_iff_not, not_lt]; norm_num; linarith
    have a2 : Scalar.lt (Scalar.one : ℝ) x = false := by
      simp only [rs_lt, rs_one, decide_eq_false_iff_not, not_lt]; exact (abs_le.mp h).2
    have a3 : Scalar.lt x (-(Scalar.one : ℝ)) = false := by
      simp only [rs_lt, rs_one, decide_eq_false_iff_not, not_lt]; exact (abs_le.mp h).1
    simp only [a1, a2, a3, Bool.false_eq_true, if_false]
  rw [hb]; exact pyAsin_ok h

theorem boundAcos_eq {x : ℝ} (h : |x| ≤ 1) : boundAcos x = .ok (Real.arccos x) := by
  unfold boundAcos
  have hb : bound x = .ok x := by
    unfold bound
    have a1 : Scalar.lt ((Scalar.one : ℝ) + Scalar.SMALL) (Scalar.abs x) = false := by
      simp only [rs_lt, rs_one, rs_abs, Scalar.SMALL, Scalar.ofSci, decide_eq_false_iff_not, not_lt]; norm_num; linarith
    have a2 : Scalar.lt (Scalar.one : ℝ) x = false := by
      simp only [rs_lt, rs_one, decide_eq_false_iff_not, not_lt]; exact (abs_le.mp h).2
    have a3 : Scalar.lt x (-(Scalar.one : ℝ)) = false := by
      simp only [rs_lt, rs_one, decide_eq_false_iff_not, not_lt]; exact (abs_le.mp h).1
    simp only [a1, a2, a3, Bool.false_eq_true, if_false]
  rw [hb]; exact pyAcos_ok h

/-- the scattered beam direction and the raw scattering vector of a detector setting -/
def kfHat (delta nu : ℝ) : V3 ℝ := M3.mulVec (M3.mul (Gen.rot_NU nu) (Gen.rot_DELTA delta)) ⟨0, 1, 0⟩
def qRaw (delta nu : ℝ) : V3 ℝ := M3.mulVec (M3.sub (M3.mul (Gen.rot_NU nu) (Gen.rot_DELTA delta)) M3.id) ⟨0, 1, 0⟩

theorem qRaw_eq (delta nu : ℝ) : qRaw delta nu = V3.sub (kfHat delta nu) ⟨0, 1, 0⟩ := by
  ext <;> simp [qRaw, kfHat, M3.mulVec, M3.sub, M3.id, V3.sub]

theorem normSq_kfHat (delta nu : ℝ) : V3.normSq (kfHat delta nu) = 1 := by
  simp only [kfHat, Gen.rot_NU, Gen.rot_DELTA, Gen.x_rotation, Gen.z_rotation, V3.normSq, V3.dot, M3.mulVec, M3.mul, rs_ofNat,
    rs_cos, rs_sin, Real.cos_neg, Real.sin_neg]
  have h1 := Real.sin_sq_add_cos_sq delta
  have h2 := Real.sin_sq_add_cos_sq nu
  push_cast
  nlinarith

theorem normSq_qRaw (delta nu : ℝ) : V3.normSq (qRaw delta nu) = 2 - 2 * (Real.cos delta * Real.cos nu) := by
  simp only [qRaw, Gen.rot_NU, Gen.rot_DELTA, Gen.x_rotation, Gen.z_rotation, V3.normSq, V3.dot, M3.mulVec, M3.mul, M3.sub, M3.id,
    rs_ofNat, rs_cos, rs_sin, rs_one, rs_zero, Real.cos_neg, Real.sin_neg]
  have h1 := Real.sin_sq_add_cos_sq delta
  have h2 := Real.sin_sq_add_cos_sq nu
  push_cast
  nlinarith

/-- `|k_f − k_i| = 2 sin θ` with `θ = acos(cos δ cos ν)/2` -/
theorem norm_qRaw (delta nu : ℝ) : V3.norm (qRaw delta nu) = 2 * Real.sin (Real.arccos (Real.cos delta * Real.cos nu) / 2) := by
  set c := Real.cos delta * Real.cos nu with hc
  have hcabs : |c| ≤ 1 := by
    rw [hc, abs_mul]
    exact mul_le_one₀ (Real.abs_cos_le_one _) (abs_nonneg _) (Real.abs_cos_le_one _)
  set th := Real.arccos c / 2 with hth
  have h0 : 0 ≤ th := by have := Real.arccos_nonneg c; positivity
  have h1 : th ≤ Real.pi / 2 := by have := Real.arccos_le_pi c; linarith
  have hs : 0 ≤ Real.sin th := Real.sin_nonneg_of_nonneg_of_le_pi h0 (by linarith [Real.pi_pos])
  have hcos : Real.cos (2 * th) = c := by
    rw [hth]; have : 2 * (Real.arccos c / 2) = Real.arccos c := by ring
    rw [this]; exact Real.cos_arccos (abs_le.mp hcabs).1 (abs_le.mp hcabs).2
  have hsq : (2 * Real.sin th) ^ 2 = 2 - 2 * c := by
    rw [← hcos, Real.cos_two_mul]; have := Real.sin_sq_add_cos_sq th; nlinarith
  simp only [V3.norm, rs_sqrt, normSq_qRaw, ← hc, ← hsq]
  exact Real.sqrt_sq (by positivity)

/-- the quantity whose arcsine is `beta`: it is `n̂ · k̂_f`, hence within [-1, 1] — `bound` cannot fail there -/
theorem beta_arg_abs (delta nu : ℝ) (n : V3 ℝ) (hn : V3.normSq n ≤ 1) (hq : V3.norm (qRaw delta nu) ≠ 0) :
    |2 * Real.sin (Real.arccos (Real.cos delta * Real.cos nu) / 2) * V3.dot (V3.normalised (qRaw delta nu)) n - (-n.y)| ≤ 1 := by
  have hnorm := norm_qRaw delta nu
  have hnz : V3.normalised (qRaw delta nu) = V3.smul (1 / V3.norm (qRaw delta nu)) (qRaw delta nu) := by
    unfold V3.normalised; simp [hq]
  have key : 2 * Real.sin (Real.arccos (Real.cos delta * Real.cos nu) / 2) * V3.dot (V3.normalised (qRaw delta nu)) n - (-n.y)
      = V3.dot (kfHat delta nu) n := by
    rw [← hnorm, hnz]
    have : V3.norm (qRaw delta nu) * V3.dot (V3.smul (1 / V3.norm (qRaw delta nu)) (qRaw delta nu)) n = V3.dot (qRaw delta nu) n := by
      simp only [V3.dot, V3.smul]; field_simp
    rw [this, qRaw_eq]
    simp only [V3.dot, V3.sub]; ring
  rw [key]
  exact abs_dot_le_one _ _ (by rw [normSq_kfHat]) hn

/-- **C11 / C05**: `get_virtual_angles` does not raise on any finite position, whatever the reference and surface
    vectors are (real reading) -/
theorem virtualAngles_total (ub : UBIn ℝ) (p : Pos ℝ) : ∃ va, virtualAngles ub p = .ok va := by
  unfold virtualAngles
  simp only [thetaQaz]
  obtain ⟨a1, h1⟩ := angleBetween_total (⟨Scalar.zero, Scalar.one, Scalar.zero⟩ : V3 ℝ)
    (M3.mulVec (M3.mul (M3.mul (M3.mul (Gen.rot_MU p.rad.mu) (Gen.rot_ETA p.rad.eta)) (Gen.rot_CHI p.rad.chi)) (Gen.rot_PHI p.rad.phi)) ub.surf_nphi)
  obtain ⟨a2, h2⟩ := angleBetween_total (M3.mulVec (M3.mul (Gen.rot_NU p.rad.nu) (Gen.rot_DELTA p.rad.delta)) ⟨Scalar.zero, Scalar.one, Scalar.zero⟩)
    (M3.mulVec (M3.mul (M3.mul (M3.mul (Gen.rot_MU p.rad.mu) (Gen.rot_ETA p.rad.eta)) (Gen.rot_CHI p.rad.chi)) (Gen.rot_PHI p.rad.phi)) ub.surf_nphi)
  simp only [h1, h2, bind, Except.bind]
  set nl := V3.normalised (M3.mulVec (M3.mul (M3.mul (M3.mul (Gen.rot_MU p.rad.mu) (Gen.rot_ETA p.rad.eta)) (Gen.rot_CHI p.rad.chi)) (Gen.rot_PHI p.rad.phi)) ub.n_phi) with hnl
  have hn1 : V3.normSq nl ≤ 1 := normSq_normalised_le _
  have hy : |-nl.y| ≤ 1 := by rw [abs_neg]; exact abs_comp_le_of_normSq_le nl hn1
  rw [boundAsin_eq hy]
  simp only []
  have hqeq : M3.mulVec (M3.sub (M3.mul (Gen.rot_NU p.rad.nu) (Gen.rot_DELTA p.rad.delta)) M3.id) (⟨Scalar.zero, Scalar.one, Scalar.zero⟩ : V3 ℝ)
      = qRaw p.rad.delta p.rad.nu := by simp [qRaw]
  rw [hqeq]
  split
  · exact ⟨_, rfl⟩
  · rename_i hsm
    have hd : |V3.dot (V3.normalised (qRaw p.rad.delta p.rad.nu)) nl| ≤ 1 := abs_dot_le_one _ _ (normSq_normalised_le _) hn1
    rw [boundAcos_eq hd]
    simp only [pure, Except.pure]
    have hqne : V3.norm (qRaw p.rad.delta p.rad.nu) ≠ 0 := by
      intro h0
      apply hsm
      have hz : V3.normalised (qRaw p.rad.delta p.rad.nu) = qRaw p.rad.delta p.rad.nu := by
        unfold V3.normalised; simp [h0]
      simp only [Bool.or_eq_true]
      left
      simp only [Scalar.isSmallTol, hz, h0, rs_le, rs_abs, abs_zero, Scalar.ofSci, decide_eq_true_eq]
      norm_num
    have hb := beta_arg_abs p.rad.delta p.rad.nu nl hn1 hqne
    have hcos : Real.cos (Real.arccos (V3.dot (V3.normalised (qRaw p.rad.delta p.rad.nu)) nl)) = V3.dot (V3.normalised (qRaw p.rad.delta p.rad.nu)) nl :=
      Real.cos_arccos (abs_le.mp hd).1 (abs_le.mp hd).2
    have hsin : Real.sin (Real.arcsin (-nl.y)) = -nl.y := Real.sin_arcsin (abs_le.mp hy).1 (abs_le.mp hy).2
    simp only [rs_two, rs_sin, rs_cos, rs_acos, hcos, hsin]
    rw [boundAsin_eq hb]
    exact ⟨_, rfl⟩

theorem virtualAngles_noLeak (ub : UBIn ℝ) (p : Pos ℝ) : NoLeak (virtualAngles ub p) := by
  obtain ⟨va, h⟩ := virtualAngles_total ub p
  rw [h]; exact noLeak_ok _

/-- **C11, unconditional form** -/
theorem c11_getPosition (ub : UBIn ℝ) (hdet : M3.det ub.B ≠ 0) (mode : Mode ℝ) (hkl : V3 ℝ) (wl : ℝ)
    (hshape : match mode with | .detRefSamp det naz _ _ => det.isSome ∨ naz.isSome | _ => True) :
    NoLeak (getPosition ub mode hkl wl) ∧ ∀ l, getPosition ub mode hkl wl = .ok l → l ≠ [] :=
  ⟨getPosition_noLeak ub hdet mode hkl wl hshape (virtualAngles_noLeak ub), getPosition_nonempty ub mode hkl wl⟩
end
end C11

namespace C11
open Solver
/-- the modes the dispatcher builds from a constraint set always have the shape `c11_getPosition` assumes -/
theorem ofCons_shape (cs : ConList ℝ) (mode : Mode ℝ) (h : Mode.ofCons cs = some mode) :
    match mode with | .detRefSamp det naz _ _ => det.isSome ∨ naz.isSome | _ => True := by
  cases mode with
  | detRefSamp det naz ref s =>
    simp only []
    unfold Mode.ofCons at h
    simp only [] at h
    split at h
    · cases h
    · split at h
      · rename_i hdn
        split at h
        · split at h
          · cases h
          · (repeat' split at h) <;> first | (cases h; done) | (cases h; exact (Bool.or_eq_true _ _).mp hdn)
        · (repeat' split at h) <;> cases h
      · (repeat' split at h) <;> cases h
  | detSamp2 _ _ => trivial
  | refSamp2 _ _ => trivial
  | samp3 _ _ _ _ _ => trivial
end C11
