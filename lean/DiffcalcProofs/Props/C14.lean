import Diffcalc.Model.Serial
import DiffcalcProofs.Props.C06
import DiffcalcProofs.Props.C10Bulk
/-!
# C14 — serialisation round trips preserve the calculator's behaviour
-/
namespace C14
open Serial Scalar
noncomputable section

theorem toRad_toDeg (x : ℝ) : toRad (toDeg x) = x := by
  simp only [toRad, toDeg, rs_pi, rs_ofNat]
  have : Real.pi ≠ 0 := Real.pi_ne_zero
  field_simp

theorem pos_roundtrip (p : PosS ℝ) : posOfDict (posDict p) = some p := by
  simp [posOfDict, posDict, J.keys, posFields, posArg, J.get?, List.find?, toRad_toDeg]

theorem refl_roundtrip (r : ReflS ℝ) : reflOfDict (reflDict r) = some r := by
  have hp := pos_roundtrip r.pos
  cases ht : r.tag <;>
  simp [reflOfDict, reflDict, J.get?, List.find?, J.asNum?, J.asOptStr?, J.ofOptStr, hp, ht] <;> (cases r; simp_all)

theorem orient_roundtrip (r : OrientS ℝ) : orientOfDict (orientDict r) = some r := by
  have hp := pos_roundtrip r.pos
  cases ht : r.tag <;>
  simp [orientOfDict, orientDict, J.get?, List.find?, J.asNum?, J.asOptStr?, J.ofOptStr, hp, ht] <;> (cases r; simp_all)

theorem mapM_roundtrip {β : Type} (f : β → J ℝ) (g : J ℝ → Option β) (h : ∀ x, g (f x) = some x) (l : List β) :
    listOfDict g (.arr (l.map f)) = some l := by
  simp only [listOfDict]
  induction l with
  | nil => rfl
  | cons x xs ih => simp [List.mapM_cons, h x, ih]

/-- the stored cell is what `_get_cell_for_system` returned — the last statement of every path through `Crystal.__init__` -/
def ValidCrystal (c : CrystalS ℝ) : Prop :=
  ∃ a1 a2 a3 d1 d2 d3, Gen.cellForSystem c.system a1 a2 a3 d1 d2 d3 = some (c.a1, c.a2, c.a3, c.alpha1, c.alpha2, c.alpha3)

/-- every successful constructor call produces a valid crystal -/
theorem cellOfSystem_valid (name sys : String) (args : List ℝ) (c : ℝ × ℝ × ℝ × ℝ × ℝ × ℝ)
    (h : CrystalModel.cellOfSystem sys args = some c) :
    ValidCrystal ⟨name, sys, c.1, c.2.1, c.2.2.1, c.2.2.2.1, c.2.2.2.2.1, c.2.2.2.2.2⟩ := by
  unfold CrystalModel.cellOfSystem at h
  cases hf : CrystalModel.fieldsFor sys args with
  | none => simp [hf] at h
  | some f => simp only [hf] at h; exact ⟨f.a1, f.a2, f.a3, f.alpha1, f.alpha2, f.alpha3, h⟩

theorem cellOfSix_valid (name : String) (args : List ℝ) (c : ℝ × ℝ × ℝ × ℝ × ℝ × ℝ) (h : CrystalModel.cellOfSix args = some c) :
    ValidCrystal ⟨name, "Triclinic", c.1, c.2.1, c.2.2.1, c.2.2.2.1, c.2.2.2.2.1, c.2.2.2.2.2⟩ := by
  match args, h with
  | [a, b, cc, al, be, ga], h =>
    simp only [CrystalModel.cellOfSix, Option.some.injEq] at h
    subst h
    exact ⟨a, b, cc, al, be, ga, by simp [Gen.cellForSystem]⟩

/-- handing the stored cell back to the constructor (lengths, angles in degrees, with the system name) reproduces it -/
theorem cell_fixed_point (sys : String) (c1 c2 c3 l1 l2 l3 a1 a2 a3 d1 d2 d3 : ℝ)
    (h : Gen.cellForSystem sys a1 a2 a3 d1 d2 d3 = some (c1, c2, c3, l1, l2, l3)) :
    CrystalModel.cellOfSystem sys [c1, c2, c3, toDeg l1, toDeg l2, toDeg l3] = some (c1, c2, c3, l1, l2, l3) := by
  simp only [Gen.cellForSystem] at h
  split_ifs at h with h1 h2 h3 h4 h5 h6 h7
  all_goals
    first
    | (simp only [beq_iff_eq] at *
       subst_vars
       simp only [Option.some.injEq, Prod.mk.injEq] at h
       obtain ⟨rfl, rfl, rfl, rfl, rfl, rfl⟩ := h
       simp [CrystalModel.cellOfSystem, CrystalModel.fieldsFor, Gen.systemFields, CrystalModel.fill, CrystalModel.Fields.set,
         Gen.cellForSystem, toRad_toDeg])
    | cases h

theorem crystal_roundtrip (c : CrystalS ℝ) (hv : ValidCrystal c) : crystalOfDict (crystalDict c) = some c := by
  obtain ⟨a1, a2, a3, d1, d2, d3, h⟩ := hv
  obtain ⟨name, sys, c1, c2, c3, l1, l2, l3⟩ := c
  have key := cell_fixed_point sys c1 c2 c3 l1 l2 l3 a1 a2 a3 d1 d2 d3 h
  simp [crystalOfDict, crystalDict, J.keys, crystalKeys, J.get?, J.getD, List.find?, numArgs, key]

theorem refVec_roundtrip (r : RefVecS ℝ) : refVecOfDict (refVecDict r) = some r := by
  simp [refVecOfDict, refVecDict, J.keys, J.get?, List.find?]

theorem mat_roundtrip (m : Option (M3 ℝ)) : matOfDict (matDict m) = some m := by
  cases m <;> simp [matOfDict, matDict]

def ValidUB (s : UBS ℝ) : Prop := ∀ c, s.crystal = some c → ValidCrystal c

/-- **C14, UB calculation**: `fromdict(asdict(s)) = s` for every state whose crystal (if any) came out of the constructor —
    states with no lattice, no U / UB, untagged references and vectors in either frame are all inside the quantifier -/
theorem ub_roundtrip (s : UBS ℝ) (hv : ValidUB s) : ubOfDict (ubDict s) = some s := by
  obtain ⟨name, crystal, refl, orient, reference, surface, U, UB⟩ := s
  have hr := mapM_roundtrip reflDict reflOfDict refl_roundtrip refl
  have ho := mapM_roundtrip orientDict orientOfDict orient_roundtrip orient
  have h1 := refVec_roundtrip reference
  have h2 := refVec_roundtrip surface
  have h3 := mat_roundtrip U
  have h4 := mat_roundtrip UB
  cases crystal with
  | none => simp [ubOfDict, ubDict, J.get?, List.find?, J.asStr?, hr, ho, h1, h2, h3, h4]
  | some c =>
    have hc := crystal_roundtrip c (hv c rfl)
    have hne : ∀ (x : J ℝ), crystalDict c = x → x ≠ .null := by intro x hx; rw [← hx]; simp [crystalDict]
    simp [ubOfDict, ubDict, J.get?, List.find?, J.asStr?, hr, ho, h1, h2, h3, h4]
    simp [crystalDict] at hc ⊢
    simp [hc]

theorem ofString_toString (n : Name) : Name.ofString? n.toString = some n := by cases n <;> rfl

theorem mapM_items (s : CState ℝ) (l : List Name) :
    (l.map (consEntry s)).mapM itemOf = some (l.map fun n => (some n, C10.argOf s n)) := by
  induction l with
  | nil => rfl
  | cons n rest ih =>
    simp only [List.map_cons, List.mapM_cons, ih]
    simp only [consEntry, C10.argOf]
    cases s.get n <;> simp [itemOf, ofString_toString]

/-- **C14, constraints**: `Constraints(c.asdict)` re-creates every reachable constraint state -/
theorem cons_roundtrip (s : CState ℝ) (hi : s.Inv) (hw : C10.WellTyped s) : consOfDict (consDict s) = some s := by
  have h := (C10.bulk_roundtrip s hi hw).1
  rw [C10.asItems_eq] at h
  simp only [consOfDict, consDict, mapM_items, h]

/-- **C14, whole calculator**: `HklCalculation.fromdict(c.asdict)` re-creates the state — hence answers every query alike
    (queries are functions of the state, C12) — and serialises to the same dictionary -/
theorem hkl_roundtrip (s : HklS ℝ) (hv : ValidUB s.ub) (hi : s.cons.Inv) (hw : C10.WellTyped s.cons) :
    hklOfDict (hklDict s) = some s := by
  obtain ⟨ub, cons⟩ := s
  have h1 := ub_roundtrip ub hv
  have h2 := cons_roundtrip cons hi hw
  simp [hklOfDict, hklDict, J.get?, List.find?, h1, h2]

theorem hkl_dict_stable (s : HklS ℝ) (hv : ValidUB s.ub) (hi : s.cons.Inv) (hw : C10.WellTyped s.cons) :
    (hklOfDict (hklDict s)).map hklDict = some (hklDict s) := by
  rw [hkl_roundtrip s hv hi hw]; rfl

/-- non-vacuity: a state with a cubic crystal, an untagged reflection, no U, UB only, one VOID and one VALUE constraint -/
example : ∃ s : HklS ℝ, ValidUB s.ub ∧ s.cons.Inv ∧ C10.WellTyped s.cons ∧ s.ub.crystal.isSome ∧ s.ub.U = none ∧ s.ub.UB.isSome
    ∧ s.cons.active .a_eq_b ∧ s.cons.active .mu := by
  let cons : CState ℝ := (((CState.init : CState ℝ).step (.set .a_eq_b .tru)).1.step (.set .mu (.num 10))).1
  refine ⟨⟨⟨"x", some ⟨"c", "Cubic", 4, 4, 4, Real.pi / 2, Real.pi / 2, Real.pi / 2⟩, [⟨1, 0, 0, ⟨0, 0, 0, 0, 0, 0⟩, 12, none⟩], [],
    ⟨⟨1, 0, 0⟩, true⟩, ⟨⟨0, 0, 1⟩, false⟩, none, some M3.id⟩, cons⟩, ?_, ?_, ?_, rfl, rfl, rfl, ?_, ?_⟩
  · intro c hc
    simp only [Option.some.injEq] at hc
    subst hc
    exact ⟨4, 0, 0, 0, 0, 0, by simp [Gen.cellForSystem]⟩
  · exact C10.inv_history [.set .a_eq_b .tru, .set .mu (.num 10)] _ C10.inv_init
  · exact C10.wt_history [.set .a_eq_b .tru, .set .mu (.num 10)] _ C10.wt_init
  · simp [cons, CState.step, CState.set, CState.slot, CState.active, CState.init, CState.setValue, CState.upd, CState.countCat, CState.count, Name.all, Name.ty, Name.cat, CState.maxCat]
  · simp [cons, CState.step, CState.set, CState.slot, CState.active, CState.init, CState.setValue, CState.upd, CState.countCat, CState.count, Name.all, Name.ty, Name.cat, CState.maxCat]

end
end C14
