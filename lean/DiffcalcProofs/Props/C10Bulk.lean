import DiffcalcProofs.Props.C10
import DiffcalcProofs.Lemmas.RealLinalg
/-!
# C10 / C14 — the constraint dictionary round-trips: `Constraints(c.asdict)` rebuilds `c`

`WellTyped`: a VOID constraint stores `True`, a VALUE constraint stores a number — an invariant of every history.
`bulk_roundtrip`: for every state obeying the capacity rules and well typed, feeding the `asdict` read-out to the bulk setter of
a fresh object re-creates the state exactly (real reading: `radians(degrees x) = x`).
-/
namespace C10
open CState Scalar

variable {α : Type}

/-- a VOID constraint stores `True`, a VALUE constraint a number -/
def TypedFor (n : Name) : Val α → Prop
  | .tru => n.ty = .void
  | .num _ => n.ty = .value

def WellTyped (s : CState α) : Prop := ∀ n v, s n = some v → TypedFor n v

theorem wt_init : WellTyped (CState.init : CState α) := by intro n v h; simp [CState.init] at h

theorem wt_upd_none (s : CState α) (n : Name) (h : WellTyped s) : WellTyped (s.upd n none) := by
  intro m v hm
  simp only [upd] at hm
  split at hm
  · cases hm
  · exact h m v hm

theorem wt_clearCat (s : CState α) (c : Cat) (h : WellTyped s) : WellTyped (clearCat s c) := by
  intro m v hm
  simp only [clearCat] at hm
  split at hm
  · cases hm
  · exact h m v hm

theorem setValue_typed [Scalar α] (n : Name) (a : Arg α) (v : Val α) (h : setValue n a = .ok v) : TypedFor n v := by
  cases a <;> simp only [setValue] at h
  all_goals first | (cases h; done) | skip
  all_goals (split at h <;> first | (cases h; assumption) | cases h)

theorem wt_upd_some [Scalar α] (s : CState α) (n : Name) (a : Arg α) (v : Val α) (h : WellTyped s) (hv : setValue n a = .ok v) :
    WellTyped (s.upd n (some v)) := by
  intro m w hm
  simp only [upd] at hm
  split at hm
  · rename_i e; cases hm; subst e; exact setValue_typed _ a _ hv
  · exact h m w hm

theorem wt_set [Scalar α] (s : CState α) (n : Name) (a : Arg α) (h : WellTyped s) : WellTyped (s.set n a).1 := by
  by_cases hn : a = .none
  · subst hn; exact wt_upd_none s n h
  by_cases hf : a = .fals
  · subst hf; exact wt_upd_none s n h
  rcases set_cases s n a hn hf with ⟨_, e⟩ | ⟨_, _, _, e⟩ | ⟨v, _, hv, e⟩ | ⟨v, _, hv, e⟩ <;> rw [e]
  · exact h
  · exact h
  · exact wt_upd_some s n a v h hv
  · exact wt_upd_some _ n a v (wt_clearCat s n.cat h) hv

theorem wt_bulkLoop [Scalar α] (items : List (Item α)) (s s' : CState α) (h : WellTyped s)
    (hr : bulkLoop s items = .ok s') : WellTyped s' := by
  induction items generalizing s with
  | nil => simp [bulkLoop] at hr; subst hr; exact h
  | cons it rest ih =>
    obtain ⟨on, a⟩ := it
    cases on with
    | none => simp [bulkLoop] at hr
    | some n =>
      simp only [bulkLoop] at hr
      have hi := wt_set s n a h
      split at hr
      · rename_i s1 heq
        rw [heq] at hi
        exact ih s1 hi hr
      · simp at hr

theorem wt_step [Scalar α] (s : CState α) (op : COp α) (h : WellTyped s) : WellTyped (s.step op).1 := by
  cases op with
  | set n a => exact wt_set s n a h
  | del n => exact wt_upd_none s n h
  | clear => exact wt_init
  | bulk items =>
    simp only [CState.step, setBulk]
    split
    · rename_i s' heq; exact wt_bulkLoop items _ s' wt_init heq
    · exact h

/-- every reachable state is well typed -/
theorem wt_history [Scalar α] (ops : List (COp α)) (s : CState α) (h : WellTyped s) :
    WellTyped (ops.foldl (fun st op => (st.step op).1) s) := by
  induction ops generalizing s with
  | nil => exact h
  | cons op ops ih => exact ih _ (wt_step s op h)

/-! ## the round trip -/

/-- the part of a state that lives on a list of names -/
def restrict (s : CState α) (l : List Name) : CState α := fun n => if n ∈ l then s n else none

theorem restrict_nil (s : CState α) : restrict s [] = CState.init := by funext n; simp [restrict, CState.init]
theorem restrict_all (s : CState α) : restrict s Name.all = s := by funext n; simp [restrict, mem_all]

theorem restrict_snoc (s : CState α) (l : List Name) (n : Name) :
    restrict s (l ++ [n]) = (restrict s l).upd n (s n) ∨ n ∈ l := by
  by_cases hn : n ∈ l
  · right; exact hn
  · left
    funext m
    simp only [restrict, upd, List.mem_append, List.mem_singleton]
    by_cases hm : m = n
    · subst hm; simp
    · simp [hm]

theorem count_mono (s : CState α) (l : List Name) : (restrict s l).count ≤ s.count := by
  unfold count
  apply List.Sublist.length_le
  apply List.monotone_filter_right
  intro m hm
  simp only [active, restrict] at hm ⊢
  split at hm
  · exact hm
  · simp at hm

theorem countCat_mono (s : CState α) (l : List Name) (c : Cat) : (restrict s l).countCat c ≤ s.countCat c := by
  unfold countCat
  apply List.Sublist.length_le
  apply List.monotone_filter_right
  intro m hm
  simp only [active, restrict, Bool.and_eq_true] at hm ⊢
  refine ⟨?_, hm.2⟩
  have := hm.1
  split at this
  · exact this
  · simp at this

theorem countCat_le_max (s : CState α) (h : s.Inv) (c : Cat) : s.countCat c ≤ maxCat c := by
  obtain ⟨h1, h2, h3⟩ := h
  have := count_split s
  cases c <;> simp only [maxCat] <;> omega

/-- the read-out of one constraint as a bulk-setter argument -/
noncomputable def argOf (s : CState ℝ) (n : Name) : Arg ℝ :=
  match s.get n with | .tru => Arg.tru | .num x => Arg.num x | .none => Arg.none

theorem asItems_eq (s : CState ℝ) : s.asItems = (Name.all.filter fun n => s.active n).map fun n => (some n, argOf s n) := by
  simp only [asItems, argOf]
  congr 1; funext n; cases s.get n <;> rfl

theorem toRad_toDeg (x : ℝ) : toRad (toDeg x) = x := by
  simp only [toRad, toDeg, rs_pi, rs_ofNat]
  have : Real.pi ≠ 0 := Real.pi_ne_zero
  field_simp

theorem setValue_argOf (s : CState ℝ) (hw : WellTyped s) (n : Name) (v : Val ℝ) (hv : s n = some v) :
    setValue n (argOf s n) = .ok v := by
  have ht := hw n v hv
  cases v with
  | tru => simp only [argOf, CState.get, hv, setValue]; simp only [TypedFor] at ht; rw [if_pos ht]
  | num x =>
    simp only [argOf, CState.get, hv, setValue]; simp only [TypedFor] at ht
    rw [if_pos ht, toRad_toDeg]

theorem bulk_restrict (s : CState ℝ) (hi : s.Inv) (hw : WellTyped s) :
    ∀ (todo done : List Name), (done ++ todo).Nodup →
      bulkLoop (restrict s done) ((todo.filter fun n => s.active n).map fun n => (some n, argOf s n)) = .ok (restrict s (done ++ todo)) := by
  intro todo
  induction todo with
  | nil => intro done _; simp [bulkLoop]
  | cons n rest ih =>
    intro done hnd
    have hnd' : ((done ++ [n]) ++ rest).Nodup := by simpa using hnd
    have hn : n ∉ done := by
      intro hmem
      have := List.nodup_append.mp hnd
      exact this.2.2 n hmem n (List.mem_cons_self) rfl
    have ih' := ih (done ++ [n]) hnd'
    have happ : done ++ n :: rest = (done ++ [n]) ++ rest := by simp
    rw [happ]
    rcases restrict_snoc s done n with hsn | hmem
    swap
    · exact absurd hmem hn
    cases hv : s n with
    | none =>
      have hact : s.active n = false := by simp [active, hv]
      have : restrict s (done ++ [n]) = restrict s done := by
        rw [hsn, hv]; funext m; simp only [upd, restrict]; split
        · rename_i e; subst e; simp [hn]
        · rfl
      simp only [List.filter_cons, hact]
      rw [this] at ih'
      simpa using ih'
    | some v =>
      have hact : s.active n = true := by simp [active, hv]
      simp only [List.filter_cons, hact, if_true, List.map_cons, bulkLoop]
      -- the slot is free in the partial state
      have hna : (restrict s done).active n = false := by simp [active, restrict, hn]
      have hc := count_upd (restrict s done) n (s n)
      have hcc := countCat_upd (restrict s done) n (s n) n.cat
      rw [← hsn] at hc hcc
      simp only [hna, hv, Option.isSome_some, if_true] at hc hcc
      simp at hc hcc
      have m1 := count_mono s (done ++ [n])
      have m2 := countCat_mono s (done ++ [n]) n.cat
      have m3 := countCat_le_max s hi n.cat
      have hfree := accept_free (restrict s done) n (argOf s n) v (setValue_argOf s hw n v hv)
        (Or.inr ⟨by omega, by have := hi.1; omega⟩)
      have hset : (restrict s done).set n (argOf s n) = ((restrict s done).upd n (some v), .ok ()) := by
        apply Prod.ext
        · exact hfree.2
        · exact hfree.1
      rw [hset]
      simp only []
      rw [← hv, ← hsn]
      exact ih'

/-- **C10 / C14, constraints**: `Constraints(c.asdict)` re-creates `c`, for every state obeying the capacity rules -/
theorem bulk_roundtrip (s : CState ℝ) (hi : s.Inv) (hw : WellTyped s) :
    bulkLoop CState.init s.asItems = .ok s ∧ (CState.init : CState ℝ).setBulk s.asItems = (s, .ok ()) := by
  have h := bulk_restrict s hi hw Name.all [] (by simpa using names_nodup)
  rw [restrict_nil] at h
  simp only [List.nil_append, restrict_all] at h
  rw [asItems_eq]
  refine ⟨h, ?_⟩
  simp only [setBulk, h]
end C10
