import Diffcalc.Model.Refine
import DiffcalcProofs.Props.C07
import DiffcalcProofs.Props.C13
import DiffcalcProofs.Props.C14
import DiffcalcProofs.Props.C08
/-!
# C15 — refinement makes the calculator reproduce the reflections it was given

Model: `Diffcalc/Model/Refine.lean` (hand, tie H).
-/
namespace C15
open M3 Refine Scalar
noncomputable section

def diag (x y z : ℝ) : M3 ℝ := ⟨x, 0, 0, 0, y, 0, 0, 0, z⟩

/-- column `i` of `B` scales as `1 / a_i`: multiplying the three cell lengths by positive factors divides the columns -/
theorem reciprocalB_scale_axes (k : C06.Cell) (t1 t2 t3 : ℝ) (h1 : 0 < t1) (h2 : 0 < t2) (h3 : 0 < t3) :
    Gen.reciprocalB (t1 * k.a1) (t2 * k.a2) (t3 * k.a3) k.al1 k.al2 k.al3 = M3.mul k.B (diag (1 / t1) (1 / t2) (1 / t3)) := by
  let k' : C06.Cell := { k with a1 := t1 * k.a1, a2 := t2 * k.a2, a3 := t3 * k.a3,
                                 ha1 := by have := k.ha1; positivity, ha2 := by have := k.ha2; positivity, ha3 := by have := k.ha3; positivity }
  have e1 := k'.B_closed
  have e2 := k.B_closed
  have hr : 0 < Real.sqrt k.W := Real.sqrt_pos.mpr k.hWpos
  have e : k'.B = Gen.reciprocalB (t1 * k.a1) (t2 * k.a2) (t3 * k.a3) k.al1 k.al2 k.al3 := rfl
  rw [← e, e1, e2]
  have ha1 := k.ha1.ne'; have ha2 := k.ha2.ne'; have ha3 := k.ha3.ne'
  have hs1 := k.hs1.ne'; have hs2 := k.hs2.ne'; have hs3 := k.hs3.ne'
  have hr' := hr.ne'
  have ht1 := h1.ne'; have ht2 := h2.ne'; have ht3 := h3.ne'
  simp only [C06.Cell.W, C06.Cell.c1, C06.Cell.c2, C06.Cell.c3, C06.Cell.s1, C06.Cell.s2, C06.Cell.s3] at hr' hs1 hs2 hs3
  ext <;> simp only [M3.mul, diag, k', C06.Cell.W, C06.Cell.c1, C06.Cell.c2, C06.Cell.c3, C06.Cell.s1, C06.Cell.s2, C06.Cell.s3, C06.Cell.x2, C06.Cell.x3]
    <;> first | (field_simp; done) | (simp; done) | (field_simp; ring)

/-- if every axis with a non-zero index is scaled by `sc`, `B'·hkl = (B·hkl) / sc` -/
theorem Bhkl_scaled (B : M3 ℝ) (hkl : V3 ℝ) (sc t1 t2 t3 : ℝ)
    (c1 : hkl.x = 0 ∨ t1 = sc) (c2 : hkl.y = 0 ∨ t2 = sc) (c3 : hkl.z = 0 ∨ t3 = sc) :
    M3.mulVec (M3.mul B (diag (1 / t1) (1 / t2) (1 / t3))) hkl = V3.smul (1 / sc) (M3.mulVec B hkl) := by
  rcases c1 with c1 | c1 <;> rcases c2 with c2 | c2 <;> rcases c3 with c3 | c3 <;>
    (ext <;> simp only [M3.mulVec, M3.mul, diag, V3.smul, c1, c2, c3] <;> ring)

/-- the scale factor of `_rescale_unit_cell` in closed form -/
theorem scaleFactor_eq (B : M3 ℝ) (hdet : M3.det B ≠ 0) (hkl q : V3 ℝ) (wl : ℝ) (hne : 0 < V3.norm (M3.mulVec B hkl)) :
    scaleFactor B hkl q wl = .ok (1 / (V3.norm q / wl * (2 * Real.pi / V3.norm (M3.mulVec B hkl)))) := by
  simp only [scaleFactor, C06.planeDistance_eq B hdet hkl hne, bind, Except.bind, pure, Except.pure, rs_one]

/-- with that factor the rescaled reciprocal vector has exactly the measured length `2π|q|/λ` -/
theorem rescale_matches_q (n nq wl : ℝ) (hn : 0 < n) (hq : 0 < nq) (hwl : 0 < wl) :
    (1 / (1 / (nq / wl * (2 * Real.pi / n)))) * n = 2 * Real.pi / wl * nq := by
  have := Real.pi_pos
  field_simp

theorem abs_dot_le (a b : V3 ℝ) : |V3.dot a b| ≤ V3.norm a * V3.norm b := by
  have hl := C20.lagrange a b
  have h1 := C07.norm_sq a
  have h2 := C07.norm_sq b
  have hn : 0 ≤ V3.dot (V3.cross a b) (V3.cross a b) := by
    simp only [V3.dot]; nlinarith [mul_self_nonneg (V3.cross a b).x, mul_self_nonneg (V3.cross a b).y, mul_self_nonneg (V3.cross a b).z]
  have ha : 0 ≤ V3.norm a := by simp only [V3.norm, rs_sqrt]; exact Real.sqrt_nonneg _
  have hb : 0 ≤ V3.norm b := by simp only [V3.norm, rs_sqrt]; exact Real.sqrt_nonneg _
  have hab := mul_nonneg ha hb
  apply abs_le_of_sq_le_sq _ hab
  nlinarith

theorem cross_unit (v q : V3 ℝ) :
    V3.cross (V3.unit v) (V3.unit q) = V3.smul (1 / (V3.norm v * V3.norm q)) (V3.cross v q) := by
  ext <;> simp only [V3.cross, V3.unit, V3.smul] <;> ring

theorem norm_pos_of_cross (v q : V3 ℝ) (h : 0 < V3.norm (V3.cross v q)) : 0 < V3.norm v ∧ 0 < V3.norm q := by
  have hc := (V3.norm_pos_iff _).mp h
  constructor
  · apply (V3.norm_pos_iff v).mpr
    by_contra hcon
    push_neg at hcon
    obtain ⟨a, b, c⟩ := hcon
    simp [V3.cross, a, b, c] at hc
  · apply (V3.norm_pos_iff q).mpr
    by_contra hcon
    push_neg at hcon
    obtain ⟨a, b, c⟩ := hcon
    simp [V3.cross, a, b, c] at hc

/-- the Rodrigues rotation about `v × q` by the angle between `v` and `q` takes the direction of `v` onto that of `q` -/
theorem rodrigues_align (v q : V3 ℝ) (h : 0 < V3.norm (V3.cross v q)) :
    M3.mulVec (M3.rodrigues (V3.cross v q) (Real.arccos (V3.dot q v / (V3.norm q * V3.norm v)))) (V3.unit v) = V3.unit q := by
  obtain ⟨hv, hq⟩ := norm_pos_of_cross v q h
  have hvq : 0 < 1 / (V3.norm v * V3.norm q) := by positivity
  have hn' : 0 < V3.norm (V3.cross (V3.unit v) (V3.unit q)) := by
    rw [cross_unit, V3.norm_smul_pos _ hvq]; positivity
  have e1 : M3.rodrigues (V3.cross v q) (Real.arccos (V3.dot q v / (V3.norm q * V3.norm v)))
      = M3.rodrigues (V3.cross (V3.unit v) (V3.unit q)) (Real.arccos (V3.dot (V3.unit v) (V3.unit q))) := by
    rw [cross_unit, C20.rodrigues_scale_axis _ _ _ hvq h, C07.dot_unit, C20.dot_comm q v, mul_comm (V3.norm q)]
  rw [e1, C08.rodrigues_eq]
  exact C07.rod_align _ _ (C07.norm_unit_sq v hv) (C07.norm_unit_sq q hq) hn'

/-- **C15, orientation part**: when `refine_ub` applies a rotation it is a proper rotation taking the direction of `UB·hkl` onto the measured `q` -/
theorem refineRot_aligns (UB : M3 ℝ) (hkl q : V3 ℝ) (R : M3 ℝ) (h : refineRot UB hkl q = some R) :
    IsRot R ∧ M3.mulVec R (V3.unit (M3.mulVec UB hkl)) = V3.unit q := by
  unfold refineRot miscutFromHkl at h
  simp only [] at h
  set v := M3.mulVec UB hkl with hvdef
  by_cases hsm : Scalar.lt (V3.norm (V3.cross v q)) (Scalar.SMALL : ℝ) = true
  · simp [hsm] at h
  · have hpos : 0 < V3.norm (V3.cross v q) := by
      simp only [rs_lt, Scalar.SMALL, Scalar.ofSci, decide_eq_true_eq, not_lt] at hsm
      have : (0:ℝ) < OfScientific.ofScientific 1 true 7 := by norm_num
      linarith
    obtain ⟨hv, hq⟩ := norm_pos_of_cross v q hpos
    have hb : PyOps.bound (V3.dot q v / (V3.norm q * V3.norm v)) = .ok (V3.dot q v / (V3.norm q * V3.norm v)) := by
      have hle := abs_dot_le q v
      have hd : |V3.dot q v / (V3.norm q * V3.norm v)| ≤ 1 := by
        rw [abs_div, abs_of_pos (by positivity : 0 < V3.norm q * V3.norm v)]
        exact (div_le_one (by positivity)).mpr hle
      obtain ⟨l, u⟩ := abs_le.mp hd
      have c1 : Scalar.lt (Scalar.one + Scalar.SMALL : ℝ) (Scalar.abs (V3.dot q v / (V3.norm q * V3.norm v))) = false := by
        simp only [rs_lt, rs_abs, rs_one, Scalar.SMALL, Scalar.ofSci, decide_eq_false_iff_not, not_lt]
        have : (0:ℝ) ≤ OfScientific.ofScientific 1 true 7 := by norm_num
        linarith
      have c2 : Scalar.lt (Scalar.one : ℝ) (V3.dot q v / (V3.norm q * V3.norm v)) = false := by
        simp only [rs_lt, rs_one, decide_eq_false_iff_not, not_lt]; exact u
      have c3 : Scalar.lt (V3.dot q v / (V3.norm q * V3.norm v)) (-(Scalar.one : ℝ)) = false := by
        simp only [rs_lt, rs_one, decide_eq_false_iff_not, not_lt]; exact l
      simp only [PyOps.bound, c1, c2, c3, Bool.false_eq_true, if_false]
    rw [if_neg hsm, hb] at h
    simp only [] at h
    split at h
    · cases h
    · simp only [Option.some.injEq] at h
      rw [← h, C14.toRad_toDeg, rs_acos]
      have hax : (⟨(V3.cross v q).x / V3.norm (V3.cross v q), (V3.cross v q).y / V3.norm (V3.cross v q), (V3.cross v q).z / V3.norm (V3.cross v q)⟩ : V3 ℝ)
          = V3.smul (1 / V3.norm (V3.cross v q)) (V3.cross v q) := by
        ext <;> simp only [V3.smul] <;> ring
      rw [hax, C20.rodrigues_scale_axis _ _ _ (by positivity) hpos]
      exact ⟨C08.rodrigues_isRot _ _ hpos, rodrigues_align v q hpos⟩

theorem det_B_ne (k : C06.Cell) : M3.det k.B ≠ 0 := by
  obtain ⟨h10, h20, h21, p0, p1, p2⟩ := k.B_upper_pos
  have : M3.det k.B = k.B.a00 * k.B.a11 * k.B.a22 := by simp only [M3.det, h10, h20, h21]; ring
  rw [this]; positivity

/-- what `set_lattice(name, system, *rescaled)` makes of the rescaled lengths: for a cell of the system, every length is multiplied by `1` or by the
    scale factor, tied lengths by the same factor, and every length whose index is non-zero by the scale factor -/
theorem rescaled_cell (sys : String) (c : Cell ℝ) (f1 f2 f3 f4 f5 f6 : ℝ) (hv : Gen.cellForSystem sys f1 f2 f3 f4 f5 f6 = some c)
    (hkl : V3 ℝ) (sc : ℝ) :
    ∃ t1 t2 t3 : ℝ, CrystalModel.cellOfSystem sys (rescaledArgs sys c hkl sc)
        = some (t1 * c.1, t2 * c.2.1, t3 * c.2.2.1, c.2.2.2.1, c.2.2.2.2.1, c.2.2.2.2.2)
      ∧ (t1 = 1 ∨ t1 = sc) ∧ (t2 = 1 ∨ t2 = sc) ∧ (t3 = 1 ∨ t3 = sc)
      ∧ ((1e-7 : ℝ) < |hkl.x| → t1 = sc) ∧ ((1e-7 : ℝ) < |hkl.y| → t2 = sc) ∧ ((1e-7 : ℝ) < |hkl.z| → t3 = sc) := by
  have hb : ∀ x : ℝ, Scalar.lt (Scalar.SMALL : ℝ) (Scalar.abs x) = decide ((1e-7 : ℝ) < |x|) := by
    intro x; simp only [rs_lt, rs_abs, Scalar.SMALL, Scalar.ofSci]
  obtain ⟨c1, c2, c3, l1, l2, l3⟩ := c
  simp only [Gen.cellForSystem] at hv
  refine ⟨if (scaledAxes sys hkl).1 then sc else 1, if (scaledAxes sys hkl).2.1 then sc else 1, if (scaledAxes sys hkl).2.2 then sc else 1, ?_⟩
  split_ifs at hv with h1 h2 h3 h4 h5 h6 h7
  all_goals
    first
    | (simp only [beq_iff_eq] at *
       subst_vars
       simp only [Option.some.injEq, Prod.mk.injEq] at hv
       obtain ⟨rfl, rfl, rfl, rfl, rfl, rfl⟩ := hv
       simp only [scaledAxes, rescaledArgs, hb]
       by_cases b1 : (1e-7 : ℝ) < |hkl.x| <;> by_cases b2 : (1e-7 : ℝ) < |hkl.y| <;> by_cases b3 : (1e-7 : ℝ) < |hkl.z| <;>
         simp [b1, b2, b3, CrystalModel.cellOfSystem, CrystalModel.fieldsFor, Gen.systemFields, CrystalModel.fill, CrystalModel.Fields.set,
           Gen.cellForSystem, C14.toRad_toDeg])
    | cases hv

/-- **C15, refine_ub**: on the main branch (lattice refined, rotation applied) with both flags, the refined `UB` maps the given `hkl` exactly
    onto the measured scattering vector `(2π/λ)·q` — for every crystal system, every start orientation, every position and every zero pattern of `hkl` -/
theorem refineUb_post (sys : String) (k : C06.Cell) (f1 f2 f3 f4 f5 f6 : ℝ)
    (hsys : Gen.cellForSystem sys f1 f2 f3 f4 f5 f6 = some (k.a1, k.a2, k.a3, k.al1, k.al2, k.al3))
    (U : M3 ℝ) (hU : IsRot U) (hkl q : V3 ℝ) (wl : ℝ) (hwl : 0 < wl)
    (hx : hkl.x = 0 ∨ (1e-7 : ℝ) < |hkl.x|) (hy : hkl.y = 0 ∨ (1e-7 : ℝ) < |hkl.y|) (hz : hkl.z = 0 ∨ (1e-7 : ℝ) < |hkl.z|)
    (hne : 0 < V3.norm (M3.mulVec k.B hkl)) (hq : 0 < V3.norm q)
    (c1 : Cell ℝ) (h1 : refinedCell sys (k.a1, k.a2, k.a3, k.al1, k.al2, k.al3) hkl q wl = .ok (some c1))
    (R : M3 ℝ) (h2 : refineRot (M3.mul U (CrystalModel.Bof c1)) hkl q = some R) :
    refineUb sys (k.a1, k.a2, k.a3, k.al1, k.al2, k.al3) U hkl q wl true true
        = .ok (c1, ⟨some (CrystalModel.Bof c1), some (M3.mul R U), some (M3.mul (M3.mul R U) (CrystalModel.Bof c1))⟩)
    ∧ M3.mulVec (M3.mul (M3.mul R U) (CrystalModel.Bof c1)) hkl = V3.smul (2 * Real.pi / wl) q := by
  obtain ⟨hR, hal⟩ := refineRot_aligns _ hkl q R h2
  constructor
  · -- evaluation of the model on the main branch
    have hsd := C08.sdiv_cbrt_det_of_isRot (IsRot.mul hR hU)
    simp only [refineUb, h1, bind, Except.bind, pure, Except.pure, UBState.setLatticeOk, h2, UBState.setMiscutOk, UBState.setUOk, hsd]
  · -- the refined UB reproduces the reflection
    have hB : CrystalModel.Bof (k.a1, k.a2, k.a3, k.al1, k.al2, k.al3) = k.B := rfl
    set sc := 1 / (V3.norm q / wl * (2 * Real.pi / V3.norm (M3.mulVec k.B hkl))) with hsc
    have hscpos : 0 < sc := by have := Real.pi_pos; rw [hsc]; positivity
    have hsf : scaleFactor k.B hkl q wl = .ok sc := scaleFactor_eq k.B (det_B_ne k) hkl q wl hne
    obtain ⟨t1, t2, t3, hcell, d1, d2, d3, i1, i2, i3⟩ := rescaled_cell sys _ f1 f2 f3 f4 f5 f6 hsys hkl sc
    have hc1 : c1 = (t1 * k.a1, t2 * k.a2, t3 * k.a3, k.al1, k.al2, k.al3) := by
      simp only [refinedCell, hB, hsf, bind, Except.bind, pure, Except.pure] at h1
      split at h1
      · cases h1
      · split at h1
        · cases h1
        · rw [hcell] at h1
          simp only [Except.ok.injEq, Option.some.injEq] at h1
          exact h1.symm
    have p1 : 0 < t1 := by rcases d1 with h | h <;> rw [h] <;> [norm_num; exact hscpos]
    have p2 : 0 < t2 := by rcases d2 with h | h <;> rw [h] <;> [norm_num; exact hscpos]
    have p3 : 0 < t3 := by rcases d3 with h | h <;> rw [h] <;> [norm_num; exact hscpos]
    have hB1 : CrystalModel.Bof c1 = M3.mul k.B (diag (1 / t1) (1 / t2) (1 / t3)) := by
      rw [hc1]; exact reciprocalB_scale_axes k t1 t2 t3 p1 p2 p3
    have hBh : M3.mulVec (CrystalModel.Bof c1) hkl = V3.smul (1 / sc) (M3.mulVec k.B hkl) := by
      rw [hB1]
      exact Bhkl_scaled k.B hkl sc t1 t2 t3 (hx.imp id i1) (hy.imp id i2) (hz.imp id i3)
    set v := M3.mulVec (M3.mul U (CrystalModel.Bof c1)) hkl with hv
    have hvU : v = M3.mulVec U (V3.smul (1 / sc) (M3.mulVec k.B hkl)) := by rw [hv, M3.mulVec_mul, hBh]
    have hnv : V3.norm v = 2 * Real.pi / wl * V3.norm q := by
      rw [hvU, C08.norm_rot U hU, V3.norm_smul_pos _ (by positivity)]
      exact rescale_matches_q _ _ wl hne hq hwl
    have hvpos : 0 < V3.norm v := by rw [hnv]; have := Real.pi_pos; positivity
    have e1 : M3.mulVec (M3.mul (M3.mul R U) (CrystalModel.Bof c1)) hkl = M3.mulVec R v := by
      rw [hv, M3.mul_assoc', M3.mulVec_mul]
    have e2 : v = V3.smul (V3.norm v) (V3.unit v) := by
      rw [V3.unit_eq_smul v hvpos]; ext <;> simp only [V3.smul] <;> field_simp
    rw [e1, e2, M3.mulVec_smul, hal, hnv, V3.unit_eq_smul q hq]
    have hq' := hq.ne'
    ext <;> simp only [V3.smul] <;> field_simp

/-- corollary in the terms of the property: after `refine_ub` the given position maps back to the given `hkl` -/
theorem refineUb_reproduces (sys : String) (k : C06.Cell) (f1 f2 f3 f4 f5 f6 : ℝ)
    (hsys : Gen.cellForSystem sys f1 f2 f3 f4 f5 f6 = some (k.a1, k.a2, k.a3, k.al1, k.al2, k.al3))
    (U : M3 ℝ) (hU : IsRot U) (hkl : V3 ℝ) (mu delta nu eta chi phi wl : ℝ) (hwl : 0 < wl)
    (hx : hkl.x = 0 ∨ (1e-7 : ℝ) < |hkl.x|) (hy : hkl.y = 0 ∨ (1e-7 : ℝ) < |hkl.y|) (hz : hkl.z = 0 ∨ (1e-7 : ℝ) < |hkl.z|)
    (hne : 0 < V3.norm (M3.mulVec k.B hkl)) (hq : 0 < V3.norm (Gen.get_q_phi mu delta nu eta chi phi))
    (c1 : Cell ℝ) (h1 : refinedCell sys (k.a1, k.a2, k.a3, k.al1, k.al2, k.al3) hkl (Gen.get_q_phi mu delta nu eta chi phi) wl = .ok (some c1))
    (R : M3 ℝ) (h2 : refineRot (M3.mul U (CrystalModel.Bof c1)) hkl (Gen.get_q_phi mu delta nu eta chi phi) = some R)
    (hdet : M3.det (CrystalModel.Bof c1) ≠ 0) :
    Gen.get_hkl (M3.mul (M3.mul R U) (CrystalModel.Bof c1)) mu delta nu eta chi phi wl = hkl := by
  obtain ⟨_, hpost⟩ := refineUb_post sys k f1 f2 f3 f4 f5 f6 hsys U hU hkl _ wl hwl hx hy hz hne hq c1 h1 R h2
  obtain ⟨hR, _⟩ := refineRot_aligns _ hkl _ R h2
  set UB' := M3.mul (M3.mul R U) (CrystalModel.Bof c1) with hUB
  have hd : M3.det UB' ≠ 0 := by
    rw [hUB, M3.det_mul, M3.det_mul, hR.2, hU.2]; simpa using hdet
  have hqe := C04.getQPhi_eq UB' hd mu delta nu eta chi phi wl hwl.ne'
  rw [hqe, ← M3.mulVec_smul, ← M3.mulVec_smul] at hpost
  -- UB'·hkl = UB'·((2π/λ)(λ/2π) get_hkl)
  have := congrArg (M3.mulVec (M3.inv UB')) hpost
  rw [M3.inv_mulVec_cancel UB' hd, M3.inv_mulVec_cancel UB' hd] at this
  rw [this]
  have hpi := Real.pi_pos
  ext <;> simp only [V3.smul] <;> field_simp

/-- the refined cell is again a cell of the same crystal system (it is what the constructor made of the rescaled lengths) -/
theorem refinedCell_keeps_system (sys : String) (c c' : Cell ℝ) (hkl q : V3 ℝ) (wl : ℝ)
    (h : refinedCell sys c hkl q wl = .ok (some c')) :
    C14.ValidCrystal ⟨"x", sys, c'.1, c'.2.1, c'.2.2.1, c'.2.2.2.1, c'.2.2.2.2.1, c'.2.2.2.2.2⟩ := by
  unfold refinedCell at h
  cases hs : scaleFactor (CrystalModel.Bof c) hkl q wl with
  | error e => simp [hs, bind, Except.bind] at h
  | ok sc =>
    simp only [hs, bind, Except.bind, pure, Except.pure] at h
    split at h
    · cases h
    · split at h
      · cases h
      · split at h
        · rename_i c'' hc
          simp only [Except.ok.injEq, Option.some.injEq] at h
          subst h
          exact C14.cellOfSystem_valid "x" sys _ _ hc
        · cases h

/-- `fit_ub`, lattice part: whatever parameter vector the optimiser returns, the crystal built from it (`Crystal("trial", system, *vals)`) and
    handed to `set_lattice(name, system, a, b, c, alpha, beta, gamma)` is a cell of the same system, and that hand-over is lossless -/
theorem fit_keeps_system (sys : String) (vals : List ℝ) (c : Cell ℝ) (h : CrystalModel.cellOfSystem sys vals = some c) :
    C14.ValidCrystal ⟨"x", sys, c.1, c.2.1, c.2.2.1, c.2.2.2.1, c.2.2.2.2.1, c.2.2.2.2.2⟩ ∧
    CrystalModel.cellOfSystem sys [c.1, c.2.1, c.2.2.1, toDeg c.2.2.2.1, toDeg c.2.2.2.2.1, toDeg c.2.2.2.2.2] = some c := by
  have hv := C14.cellOfSystem_valid "x" sys vals c h
  refine ⟨hv, ?_⟩
  obtain ⟨a1, a2, a3, d1, d2, d3, hh⟩ := hv
  obtain ⟨c1, c2, c3, l1, l2, l3⟩ := c
  exact C14.cell_fixed_point sys c1 c2 c3 l1 l2 l3 a1 a2 a3 d1 d2 d3 hh

/-- `fit_ub`, orientation part: whatever `(u1, u2, u3) ∈ [0,1]³` the optimiser returns, the matrix built from it is a proper rotation -/
theorem fitU_proper (u1 u2 u3 : ℝ) (h0 : 0 ≤ u1) (h1 : u1 ≤ 1) :
    let q := Gen.get_quat_from_u123 u1 u2 u3
    IsRot (Gen.get_rot_matrix q.1 q.2.1 q.2.2.1 q.2.2.2) := C08.quatRot_isRot u1 u2 u3 h0 h1

/-! ## closed-form least squares (triclinic `fit_ub`) -/

theorem outer_mulVec (x : V3 ℝ) (M : M3 ℝ) : outer x (M3.mulVec M x) = M3.mul (outer x x) (M3.transpose M) := by
  ext <;> simp only [outer, M3.mulVec, M3.mul, M3.transpose] <;> ring

theorem add'_mul (a b c : M3 ℝ) : M3.mul (Refine.M3.add' a b) c = Refine.M3.add' (M3.mul a c) (M3.mul b c) := by
  ext <;> simp only [Refine.M3.add', M3.mul] <;> ring

theorem fold_exact (M : M3 ℝ) (data : List (V3 ℝ × V3 ℝ)) (h : ∀ p ∈ data, p.2 = M3.mulVec M p.1) (ax ay : M3 ℝ)
    (hacc : ay = M3.mul ax (M3.transpose M)) :
    data.foldl (fun acc p => Refine.M3.add' acc (outer p.1 p.2)) ay
      = M3.mul (data.foldl (fun acc p => Refine.M3.add' acc (outer p.1 p.1)) ax) (M3.transpose M) := by
  induction data generalizing ax ay with
  | nil => simpa using hacc
  | cons p rest ih =>
    simp only [List.foldl_cons]
    apply ih (fun p' hp' => h p' (List.mem_cons_of_mem _ hp'))
    rw [h p List.mem_cons_self, outer_mulVec, add'_mul, hacc]

/-- exactly consistent data (`y_i = M·x_i`, `XᵀX` invertible) ⇒ the least-squares matrix is `Mᵀ` -/
theorem lsq_exact (M : M3 ℝ) (data : List (V3 ℝ × V3 ℝ)) (h : ∀ p ∈ data, p.2 = M3.mulVec M p.1) (hdet : M3.det (xtx data) ≠ 0) :
    lsq data = M3.transpose M := by
  have hz : (Refine.M3.zero' : M3 ℝ) = M3.mul Refine.M3.zero' (M3.transpose M) := by
    ext <;> simp [Refine.M3.zero', M3.mul]
  have := fold_exact M data h Refine.M3.zero' Refine.M3.zero' hz
  unfold lsq
  rw [show xty data = M3.mul (xtx data) (M3.transpose M) from this, ← M3.mul_assoc', M3.inv_mul_cancel _ hdet, M3.id_mul]

theorem vdiv_smul_pos (c : ℝ) (hc : 0 < c) (u : V3 ℝ) (hu : V3.norm u = 1) : vdiv (V3.smul c u) (V3.norm (V3.smul c u)) = u := by
  rw [V3.norm_smul_pos c hc, hu]
  ext <;> simp only [vdiv, V3.smul] <;> field_simp

/-- Gram–Schmidt on `p·u0`, `r·u0 + s·u1`, `x·u0 + y·u1 + z·u2` with `u0, u1, u2` orthonormal and `p, s, z > 0` returns `u0, u1, u2` -/
theorem gramSchmidt_triangular (u0 u1 u2 : V3 ℝ) (p r s x y z : ℝ) (hp : 0 < p) (hs : 0 < s) (hz : 0 < z)
    (n0 : V3.norm u0 = 1) (n1 : V3.norm u1 = 1) (n2 : V3.norm u2 = 1)
    (o01 : V3.dot u0 u1 = 0) (o02 : V3.dot u0 u2 = 0) (o12 : V3.dot u1 u2 = 0) (b : M3 ℝ)
    (h0 : row0 b = V3.smul p u0) (h1 : row1 b = V3.add (V3.smul r u0) (V3.smul s u1))
    (h2 : row2 b = V3.add (V3.add (V3.smul x u0) (V3.smul y u1)) (V3.smul z u2)) :
    gramSchmidt b = M3.ofCols u0 u1 u2 := by
  have d0 := C20.dot_self_of_norm_one u0 n0
  have d1 := C20.dot_self_of_norm_one u1 n1
  have d2 := C20.dot_self_of_norm_one u2 n2
  have e1 : vdiv (row0 b) (V3.norm (row0 b)) = u0 := by rw [h0]; exact vdiv_smul_pos p hp u0 n0
  simp only [V3.dot] at d0 d1 d2 o01 o02 o12
  have e2' : V3.sub (row1 b) (V3.smul (V3.dot (row1 b) u0) u0) = V3.smul s u1 := by
    rw [h1]
    ext <;> simp only [V3.sub, V3.smul, V3.add, V3.dot]
    · linear_combination (-(r * u0.x)) * d0 + (-(s * u0.x)) * o01
    · linear_combination (-(r * u0.y)) * d0 + (-(s * u0.y)) * o01
    · linear_combination (-(r * u0.z)) * d0 + (-(s * u0.z)) * o01
  have e2 : vdiv (V3.sub (row1 b) (V3.smul (V3.dot (row1 b) u0) u0)) (V3.norm (V3.sub (row1 b) (V3.smul (V3.dot (row1 b) u0) u0))) = u1 := by
    rw [e2']; exact vdiv_smul_pos s hs u1 n1
  have e3' : V3.sub (V3.sub (row2 b) (V3.smul (V3.dot (row2 b) u0) u0)) (V3.smul (V3.dot (row2 b) u1) u1) = V3.smul z u2 := by
    rw [h2]
    ext <;> simp only [V3.sub, V3.smul, V3.add, V3.dot]
    · linear_combination (-(x * u0.x)) * d0 + (-(y * u0.x)) * o01 + (-(z * u0.x)) * o02 + (-(y * u1.x)) * d1 + (-(x * u1.x)) * o01 + (-(z * u1.x)) * o12
    · linear_combination (-(x * u0.y)) * d0 + (-(y * u0.y)) * o01 + (-(z * u0.y)) * o02 + (-(y * u1.y)) * d1 + (-(x * u1.y)) * o01 + (-(z * u1.y)) * o12
    · linear_combination (-(x * u0.z)) * d0 + (-(y * u0.z)) * o01 + (-(z * u0.z)) * o02 + (-(y * u1.z)) * d1 + (-(x * u1.z)) * o01 + (-(z * u1.z)) * o12
  unfold gramSchmidt
  simp only [e1, e2, e3']
  rw [vdiv_smul_pos z hz u2 n2]

/-- the rows of `(U·B)ᵀ` are `U` applied to the columns of the upper-triangular `B`: Gram–Schmidt returns `U` -/
theorem gramSchmidt_recovers_U (U B : M3 ℝ) (hU : IsRot U) (h10 : B.a10 = 0) (h20 : B.a20 = 0) (h21 : B.a21 = 0)
    (p0 : 0 < B.a00) (p1 : 0 < B.a11) (p2 : 0 < B.a22) :
    gramSchmidt (M3.transpose (M3.mul U B)) = U := by
  have ht := (C04.isRot_transpose hU).1     -- U·Uᵀ = 1 ... columns orthonormal comes from Uᵀ·U = 1
  have hc := hU.1
  set u0 : V3 ℝ := ⟨U.a00, U.a10, U.a20⟩ with hu0
  set u1 : V3 ℝ := ⟨U.a01, U.a11, U.a21⟩ with hu1
  set u2 : V3 ℝ := ⟨U.a02, U.a12, U.a22⟩ with hu2
  have c00 := congrArg M3.a00 hc; have c01 := congrArg M3.a01 hc; have c02 := congrArg M3.a02 hc
  have c11 := congrArg M3.a11 hc; have c12 := congrArg M3.a12 hc; have c22 := congrArg M3.a22 hc
  simp only [M3.mul, M3.transpose, M3.id, rs_one, rs_zero] at c00 c01 c02 c11 c12 c22
  have nrm : ∀ w : V3 ℝ, V3.dot w w = 1 → V3.norm w = 1 := by
    intro w hw; simp only [V3.norm, V3.normSq, rs_sqrt]; rw [hw, Real.sqrt_one]
  have hres := gramSchmidt_triangular u0 u1 u2 B.a00 B.a01 B.a11 B.a02 B.a12 B.a22 p0 p1 p2
    (nrm u0 (by simp only [V3.dot, hu0]; linarith)) (nrm u1 (by simp only [V3.dot, hu1]; linarith)) (nrm u2 (by simp only [V3.dot, hu2]; linarith))
    (by simp only [V3.dot, hu0, hu1]; linarith) (by simp only [V3.dot, hu0, hu2]; linarith) (by simp only [V3.dot, hu1, hu2]; linarith)
    (M3.transpose (M3.mul U B))
    (by ext <;> simp only [row0, M3.transpose, M3.mul, V3.smul, hu0, h10, h20] <;> ring)
    (by ext <;> simp only [row1, M3.transpose, M3.mul, V3.smul, V3.add, hu0, hu1, h21] <;> ring)
    (by ext <;> simp only [row2, M3.transpose, M3.mul, V3.smul, V3.add, hu0, hu1, hu2] <;> ring)
  rw [hres]
  ext <;> simp [M3.ofCols, hu0, hu1, hu2]

/-- **C15, triclinic fit**: reflections exactly consistent with an orientation `U ∈ SO(3)` and a cell `k` (that is `q_i·2π/λ_i = U·B·hkl_i`, with
    enough of them for `XᵀX` to be invertible) ⇒ the closed-form fit returns exactly `U` -/
theorem fitUncon_recovers_U (U : M3 ℝ) (hU : IsRot U) (k : C06.Cell) (refl : List (V3 ℝ × V3 ℝ × ℝ))
    (hcons : ∀ r ∈ refl, V3.smul (2 * Real.pi / (12.39842 / r.2.2)) r.2.1 = M3.mulVec (M3.mul U k.B) r.1)
    (hdet : M3.det (xtx (refl.map fun r => (r.1, V3.smul (2 * Real.pi / (12.39842 / r.2.2)) r.2.1))) ≠ 0) :
    (fitUncon refl).1 = U := by
  obtain ⟨h10, h20, h21, p0, p1, p2⟩ := k.B_upper_pos
  have hc : (Scalar.ofSci 1239842 true 5 : ℝ) = 12.39842 := by simp only [Scalar.ofSci]
  simp only [fitUncon, rs_two, rs_pi, hc]
  rw [lsq_exact (M3.mul U k.B) _ _ hdet]
  · exact gramSchmidt_recovers_U U k.B hU h10 h20 h21 p0 p1 p2
  · intro p hp
    obtain ⟨r, hr, rfl⟩ := List.mem_map.mp hp
    exact hcons r hr

/-! ## the direct cell recovered from the fitted reciprocal basis -/

/-- the three direct-lattice vectors computed by `_fit_ub_uncon` from the rows of `b` -/
def directVecs (b : M3 ℝ) : V3 ℝ × V3 ℝ × V3 ℝ :=
  let b1 := row0 b; let b2 := row1 b; let b3 := row2 b
  let V := V3.dot (V3.cross b1 b2) b3
  (V3.smul (2 * Real.pi / V) (V3.cross b2 b3), V3.smul (2 * Real.pi / V) (V3.cross b3 b1), V3.smul (2 * Real.pi / V) (V3.cross b1 b2))

def gram (a : V3 ℝ × V3 ℝ × V3 ℝ) : M3 ℝ :=
  ⟨V3.dot a.1 a.1, V3.dot a.1 a.2.1, V3.dot a.1 a.2.2, V3.dot a.2.1 a.1, V3.dot a.2.1 a.2.1, V3.dot a.2.1 a.2.2,
   V3.dot a.2.2 a.1, V3.dot a.2.2 a.2.1, V3.dot a.2.2 a.2.2⟩

theorem triple_eq_det (b : M3 ℝ) : V3.dot (V3.cross (row0 b) (row1 b)) (row2 b) = M3.det b := by
  simp only [V3.dot, V3.cross, row0, row1, row2, M3.det]; ring

/-- their Gram matrix is `4π² (b⁻¹)ᵀ b⁻¹` -/
theorem gram_directVecs (b : M3 ℝ) : gram (directVecs b) = M3.smul (4 * Real.pi ^ 2) (M3.mul (M3.transpose (M3.inv b)) (M3.inv b)) := by
  simp only [directVecs, triple_eq_det, M3.inv]
  generalize M3.det b = D
  ext <;> simp only [gram, M3.smul, M3.mul, M3.transpose, M3.adj, V3.dot, V3.smul, V3.cross, row0, row1, row2, rs_one] <;> ring

theorem smul_mul (c : ℝ) (a b : M3 ℝ) : M3.mul (M3.smul c a) b = M3.smul c (M3.mul a b) := by
  ext <;> simp only [M3.mul, M3.smul] <;> ring
theorem mul_smul' (c : ℝ) (a b : M3 ℝ) : M3.mul a (M3.smul c b) = M3.smul c (M3.mul a b) := by
  ext <;> simp only [M3.mul, M3.smul] <;> ring

/-- for `b = (U·B)ᵀ` with `U` a rotation the Gram matrix of the direct vectors is the metric tensor of the cell -/
theorem gram_is_G (U : M3 ℝ) (hU : IsRot U) (k : C06.Cell) : gram (directVecs (M3.transpose (M3.mul U k.B))) = k.G := by
  set X := M3.mul U k.B with hX
  have hdX : M3.det X ≠ 0 := by rw [hX, M3.det_mul, hU.2, one_mul]; exact det_B_ne k
  have hdXt : M3.det (M3.transpose X) ≠ 0 := by rw [M3.det_transpose]; exact hdX
  rw [gram_directVecs]
  set Q := M3.mul (M3.transpose (M3.inv (M3.transpose X))) (M3.inv (M3.transpose X)) with hQ
  -- Q · (Xᵀ X) = 1
  have hXX : M3.mul (M3.transpose X) X = M3.mul (M3.transpose k.B) k.B := by
    rw [hX, M3.transpose_mul, M3.mul_assoc', ← M3.mul_assoc' (M3.transpose U), hU.1, M3.id_mul]
  have hQ1 : M3.mul Q (M3.mul (M3.transpose X) X) = M3.id := by
    have e : M3.transpose (M3.inv (M3.transpose X)) = M3.inv X := by
      apply C06.inv_unique X _ hdX
      have := congrArg M3.transpose (M3.inv_mul_cancel (M3.transpose X) hdXt)
      rw [M3.transpose_mul, C06.transpose_transpose] at this
      rw [this]; ext <;> simp [M3.transpose, M3.id]
    rw [hQ, e, M3.mul_assoc', ← M3.mul_assoc' (M3.inv (M3.transpose X)), M3.inv_mul_cancel _ hdXt, M3.id_mul, M3.inv_mul_cancel X hdX]
  have hG := k.BtB_G
  rw [← hXX] at hG
  -- G = (Q·XᵀX)·G = Q·(4π²·1)
  have : k.G = M3.mul Q (M3.smul (4 * Real.pi ^ 2) M3.id) := by
    rw [← hG, ← M3.mul_assoc', hQ1, M3.id_mul]
  rw [this, mul_smul', M3.mul_id]

/-- **C15, triclinic fit, lattice**: the cell computed from the fitted basis of exactly consistent data is the true cell -/
theorem cellOfRecip_recovers (U : M3 ℝ) (hU : IsRot U) (k : C06.Cell) :
    cellOfRecip (M3.transpose (M3.mul U k.B)) = (k.a1, k.a2, k.a3, toDeg k.al1, toDeg k.al2, toDeg k.al3) := by
  have hg := gram_is_G U hU k
  set b := M3.transpose (M3.mul U k.B) with hb
  have g00 := congrArg M3.a00 hg; have g11 := congrArg M3.a11 hg; have g22 := congrArg M3.a22 hg
  have g12 := congrArg M3.a12 hg; have g02 := congrArg M3.a02 hg; have g01 := congrArg M3.a01 hg
  simp only [gram, directVecs, C06.Cell.G] at g00 g11 g22 g12 g02 g01
  have nrm : ∀ (w : V3 ℝ) (a : ℝ), 0 < a → V3.dot w w = a * a → V3.norm w = a := by
    intro w a ha hw; simp only [V3.norm, V3.normSq, rs_sqrt]; rw [hw, Real.sqrt_mul_self ha.le]
  have n1 := nrm _ _ k.ha1 g00
  have n2 := nrm _ _ k.ha2 g11
  have n3 := nrm _ _ k.ha3 g22
  have ha1 := k.ha1.ne'; have ha2 := k.ha2.ne'; have ha3 := k.ha3.ne'
  simp only [cellOfRecip, rs_two, rs_pi, rs_acos]
  rw [n1, n2, n3, g12, g02, g01]
  have a1 : Real.arccos (k.a2 * k.a3 * k.c1 / (k.a2 * k.a3)) = k.al1 := by
    rw [show k.a2 * k.a3 * k.c1 / (k.a2 * k.a3) = Real.cos k.al1 by simp only [C06.Cell.c1]; field_simp]
    exact Real.arccos_cos k.h1.1.le k.h1.2.le
  have a2 : Real.arccos (k.a1 * k.a3 * k.c2 / (k.a1 * k.a3)) = k.al2 := by
    rw [show k.a1 * k.a3 * k.c2 / (k.a1 * k.a3) = Real.cos k.al2 by simp only [C06.Cell.c2]; field_simp]
    exact Real.arccos_cos k.h2.1.le k.h2.2.le
  have a3 : Real.arccos (k.a1 * k.a2 * k.c3 / (k.a1 * k.a2)) = k.al3 := by
    rw [show k.a1 * k.a2 * k.c3 / (k.a1 * k.a2) = Real.cos k.al3 by simp only [C06.Cell.c3]; field_simp]
    exact Real.arccos_cos k.h3.1.le k.h3.2.le
  rw [a1, a2, a3]

/-- **C15, triclinic fit**: exactly consistent reflections ⇒ `fit_ub` returns exactly the true `U` and the true cell -/
theorem fitUncon_exact (U : M3 ℝ) (hU : IsRot U) (k : C06.Cell) (refl : List (V3 ℝ × V3 ℝ × ℝ))
    (hcons : ∀ r ∈ refl, V3.smul (2 * Real.pi / (12.39842 / r.2.2)) r.2.1 = M3.mulVec (M3.mul U k.B) r.1)
    (hdet : M3.det (xtx (refl.map fun r => (r.1, V3.smul (2 * Real.pi / (12.39842 / r.2.2)) r.2.1))) ≠ 0) :
    fitUncon refl = (U, (k.a1, k.a2, k.a3, toDeg k.al1, toDeg k.al2, toDeg k.al3)) := by
  have h1 := fitUncon_recovers_U U hU k refl hcons hdet
  have hc : (Scalar.ofSci 1239842 true 5 : ℝ) = 12.39842 := by simp only [Scalar.ofSci]
  have h2 : (fitUncon refl).2 = (k.a1, k.a2, k.a3, toDeg k.al1, toDeg k.al2, toDeg k.al3) := by
    simp only [fitUncon, rs_two, rs_pi, hc]
    rw [lsq_exact (M3.mul U k.B) _ _ hdet]
    · exact cellOfRecip_recovers U hU k
    · intro p hp
      obtain ⟨r, hr, rfl⟩ := List.mem_map.mp hp
      exact hcons r hr
  exact Prod.ext h1 h2

end
end C15
