import Diffcalc.Gen.GetHkl
import DiffcalcProofs.Lemmas.Rotations
import DiffcalcProofs.Props.C08Miscut
/-!
# C04 — get_hkl is the exact You-(1999) forward model

Model: `Gen.get_hkl`, `Gen.get_q_phi` and the six rotation constructors, all GENERATED from the source on every run (tie T).
Specification: first-principles beam vectors with right-handed axis rotations (`M3.rotX/rotY/rotZ` = Rodrigues about
`e_x, e_y, e_z`): `k_i = (2π/λ) ŷ`, `k_f = Rx(ν) Rz(−δ) k_i`, `Z = Rx(μ) Rz(−η) Ry(χ) Rz(−φ)`.
-/
namespace C04
open M3
noncomputable section

/-- sample rotation of the specification -/
def Z (mu eta chi phi : ℝ) : M3 ℝ := M3.mul (M3.mul (M3.mul (rotX mu) (rotZ (-eta))) (rotY chi)) (rotZ (-phi))
def kI (wl : ℝ) : V3 ℝ := ⟨0, 2 * Real.pi / wl, 0⟩
def kF (delta nu wl : ℝ) : V3 ℝ := M3.mulVec (M3.mul (rotX nu) (rotZ (-delta))) (kI wl)
/-- scattering vector in the laboratory frame -/
def qLab (delta nu wl : ℝ) : V3 ℝ := V3.sub (kF delta nu wl) (kI wl)
/-- the forward model: `UB⁻¹ Z⁻¹ (k_f − k_i)` with `Z⁻¹ = Zᵀ` -/
def fwd (UB : M3 ℝ) (mu delta nu eta chi phi wl : ℝ) : V3 ℝ :=
  M3.mulVec (M3.inv UB) (M3.mulVec (M3.transpose (Z mu eta chi phi)) (qLab delta nu wl))

theorem isRot_Z (mu eta chi phi : ℝ) : IsRot (Z mu eta chi phi) :=
  IsRot.mul (IsRot.mul (IsRot.mul (isRot_rotX _) (isRot_rotZ _)) (isRot_rotY _)) (isRot_rotZ _)

/-- **C04**: `get_hkl` equals the forward model, for every position, wavelength and UB -/
theorem getHkl_eq_fwd (UB : M3 ℝ) (mu delta nu eta chi phi wl : ℝ) :
    Gen.get_hkl UB mu delta nu eta chi phi wl = fwd UB mu delta nu eta chi phi wl := by
  obtain ⟨hMU, hNU, hCHI, hDELTA, hETA, hPHI⟩ :=
    (gen_rot_senses mu).1, (gen_rot_senses nu).2.1, (gen_rot_senses chi).2.2.1, (gen_rot_senses delta).2.2.2.1,
    (gen_rot_senses eta).2.2.2.2.1, (gen_rot_senses phi).2.2.2.2.2
  simp only [Gen.get_hkl, fwd, hMU, hNU, hCHI, hDELTA, hETA, hPHI, inv_rotX, inv_rotY, inv_rotZ]
  have hq : M3.mulVec (M3.sub (M3.mul (rotX nu) (rotZ (-delta))) M3.id) (⟨Scalar.ofNat 0, Scalar.ofNat 2 * Scalar.pi / wl, Scalar.ofNat 0⟩ : V3 ℝ)
      = qLab delta nu wl := by
    ext <;> simp [qLab, kF, kI, M3.mulVec, M3.sub, M3.id, V3.sub, M3.mul] <;> ring
  rw [hq]
  have hZ : M3.transpose (Z mu eta chi phi) =
      M3.mul (M3.mul (M3.mul (M3.transpose (rotZ (-phi))) (M3.transpose (rotY chi))) (M3.transpose (rotZ (-eta)))) (M3.transpose (rotX mu)) := by
    simp only [Z, M3.transpose_mul, M3.mul_assoc']
  rw [hZ]
  simp only [M3.mulVec_mul, M3.mul_assoc']

/-- with an invertible UB: `UB · get_hkl = Zᵀ (k_f − k_i)` -/
theorem UB_getHkl (UB : M3 ℝ) (hdet : M3.det UB ≠ 0) (mu delta nu eta chi phi wl : ℝ) :
    M3.mulVec UB (Gen.get_hkl UB mu delta nu eta chi phi wl) =
      M3.mulVec (M3.transpose (Z mu eta chi phi)) (qLab delta nu wl) := by
  rw [getHkl_eq_fwd, fwd, M3.mulVec_inv_cancel UB hdet]

theorem isRot_transpose {r : M3 ℝ} (h : IsRot r) : IsRot (M3.transpose r) := by
  have hinv : M3.mul r (M3.transpose r) = M3.id := by
    have h1 : M3.det r ≠ 0 := by rw [h.2]; norm_num
    have : M3.transpose r = M3.inv r := by
      have := congrArg (fun m => M3.mul m (M3.inv r)) h.1
      simp only [M3.mul_assoc', M3.mul_inv_cancel r h1, M3.mul_id, M3.id_mul] at this
      exact this
    rw [this, M3.mul_inv_cancel r h1]
  refine ⟨?_, by rw [M3.det_transpose, h.2]⟩
  have : M3.transpose (M3.transpose r) = r := by ext <;> rfl
  rw [this]; exact hinv

theorem normSq_qLab (delta nu wl : ℝ) :
    V3.normSq (qLab delta nu wl) = (2 * Real.pi / wl) ^ 2 * (2 - 2 * (Real.cos delta * Real.cos nu)) := by
  simp only [qLab, kF, kI, V3.normSq, V3.dot, V3.sub, M3.mulVec, M3.mul, rotX, rotZ, rs_cos, rs_sin, rs_one, rs_zero,
    Real.cos_neg, Real.sin_neg]
  have h1 := Real.sin_sq_add_cos_sq delta
  have h2 := Real.sin_sq_add_cos_sq nu
  linear_combination ((2 * Real.pi / wl) ^ 2) * h1 + ((2 * Real.pi / wl) ^ 2 * Real.cos delta ^ 2) * h2

/-- **C04, length**: `|UB·hkl| = (4π/λ) sin θ` with `cos 2θ = cos δ cos ν`, `θ ∈ [0, π/2]` -/
theorem norm_UB_hkl (UB : M3 ℝ) (hdet : M3.det UB ≠ 0) (mu delta nu eta chi phi wl theta : ℝ) (hwl : 0 < wl)
    (hth : Real.cos (2 * theta) = Real.cos delta * Real.cos nu) (h0 : 0 ≤ theta) (h1 : theta ≤ Real.pi / 2) :
    V3.norm (M3.mulVec UB (Gen.get_hkl UB mu delta nu eta chi phi wl)) = 4 * Real.pi / wl * Real.sin theta := by
  rw [UB_getHkl UB hdet, C08.norm_rot _ (isRot_transpose (isRot_Z mu eta chi phi))]
  simp only [V3.norm, normSq_qLab, rs_sqrt, ← hth]
  have hs : 0 ≤ Real.sin theta := Real.sin_nonneg_of_nonneg_of_le_pi h0 (by linarith [Real.pi_pos])
  have : (2 * Real.pi / wl) ^ 2 * (2 - 2 * Real.cos (2 * theta)) = (4 * Real.pi / wl * Real.sin theta) ^ 2 := by
    rw [Real.cos_two_mul]
    have := Real.sin_sq_add_cos_sq theta
    field_simp
    nlinarith
  rw [this, Real.sqrt_sq]
  have : 0 < 4 * Real.pi / wl := by positivity
  exact mul_nonneg this.le hs

/-- **C04, wavelength scaling**: hkl scales as `1/λ` -/
theorem getHkl_scale_wl (UB : M3 ℝ) (mu delta nu eta chi phi wl c : ℝ) (hwl : wl ≠ 0) (hc : c ≠ 0) :
    Gen.get_hkl UB mu delta nu eta chi phi (c * wl) = V3.smul (1 / c) (Gen.get_hkl UB mu delta nu eta chi phi wl) := by
  simp only [getHkl_eq_fwd, fwd]
  have hq : qLab delta nu (c * wl) = V3.smul (1 / c) (qLab delta nu wl) := by
    ext <;> simp only [qLab, kF, kI, V3.sub, V3.smul, M3.mulVec, M3.mul, rotX, rotZ, rs_one, rs_zero, rs_cos, rs_sin] <;> field_simp <;> ring
  rw [hq, M3.mulVec_smul, M3.mulVec_smul]

/-- **C04, periodicity**: adding 360° to any axis changes nothing -/
theorem getHkl_periodic (UB : M3 ℝ) (mu delta nu eta chi phi wl : ℝ) :
    Gen.get_hkl UB (mu + 2 * Real.pi) delta nu eta chi phi wl = Gen.get_hkl UB mu delta nu eta chi phi wl ∧
    Gen.get_hkl UB mu (delta + 2 * Real.pi) nu eta chi phi wl = Gen.get_hkl UB mu delta nu eta chi phi wl ∧
    Gen.get_hkl UB mu delta (nu + 2 * Real.pi) eta chi phi wl = Gen.get_hkl UB mu delta nu eta chi phi wl ∧
    Gen.get_hkl UB mu delta nu (eta + 2 * Real.pi) chi phi wl = Gen.get_hkl UB mu delta nu eta chi phi wl ∧
    Gen.get_hkl UB mu delta nu eta (chi + 2 * Real.pi) phi wl = Gen.get_hkl UB mu delta nu eta chi phi wl ∧
    Gen.get_hkl UB mu delta nu eta chi (phi + 2 * Real.pi) wl = Gen.get_hkl UB mu delta nu eta chi phi wl := by
  simp only [getHkl_eq_fwd, fwd, Z, qLab, kF, (rot_periodic _).1, (rot_periodic _).2.1, rotZ_neg_periodic, and_self]

/-- `get_q_phi` is the scattering vector of the unit-wavevector beam in the phi frame: `(λ/2π) · UB · get_hkl` -/
theorem getQPhi_eq (UB : M3 ℝ) (hdet : M3.det UB ≠ 0) (mu delta nu eta chi phi wl : ℝ) (hwl : wl ≠ 0) :
    Gen.get_q_phi mu delta nu eta chi phi = V3.smul (wl / (2 * Real.pi)) (M3.mulVec UB (Gen.get_hkl UB mu delta nu eta chi phi wl)) := by
  rw [UB_getHkl UB hdet]
  obtain ⟨hMU, hNU, hCHI, hDELTA, hETA, hPHI⟩ :=
    (gen_rot_senses mu).1, (gen_rot_senses nu).2.1, (gen_rot_senses chi).2.2.1, (gen_rot_senses delta).2.2.2.1,
    (gen_rot_senses eta).2.2.2.2.1, (gen_rot_senses phi).2.2.2.2.2
  simp only [Gen.get_q_phi, hMU, hNU, hCHI, hDELTA, hETA, hPHI, inv_rotX, inv_rotY, inv_rotZ]
  have hZ : M3.transpose (Z mu eta chi phi) =
      M3.mul (M3.mul (M3.mul (M3.transpose (rotZ (-phi))) (M3.transpose (rotY chi))) (M3.transpose (rotZ (-eta)))) (M3.transpose (rotX mu)) := by
    simp only [Z, M3.transpose_mul, M3.mul_assoc']
  rw [hZ, ← M3.mulVec_smul]
  congr 1
  have hpi := Real.pi_ne_zero
  ext <;> simp [qLab, kF, kI, M3.mulVec, M3.sub, M3.id, V3.sub, V3.smul, M3.mul] <;> field_simp

/-- non-vacuity: at delta = 60°, everything else 0, cubic a = 2π, λ = 1: hkl = (0, sin 60°·…) is not trivial -/
example : (Gen.get_hkl (M3.id : M3 ℝ) 0 0 0 0 0 0 1) = ⟨0, 0, 0⟩ := by
  rw [getHkl_eq_fwd]
  ext <;> simp [fwd, Z, qLab, kF, kI, M3.mulVec, M3.inv, M3.adj, M3.det, M3.smul, M3.id, M3.transpose, M3.mul, rotX, rotY, rotZ, V3.sub]
end
end C04
