import DiffcalcProofs.Props.C03Sample3
import DiffcalcProofs.Props.C01Assembly2
/-!
# C03 — completeness of the sample layer of the detector + reference + one-sample-angle family (`_calc_remaining_sample_angles`)
-/
namespace C03
open M3 Solver Scalar PyOps C01
noncomputable section

/-- four sample angles equal modulo 2π, component by component -/
def SameTuple (t t0 : STuple ℝ) : Prop :=
  SameAngle t.1 t0.1 ∧ SameAngle t.2.1 t0.2.1 ∧ SameAngle t.2.2.1 t0.2.2.1 ∧ SameAngle t.2.2.2 t0.2.2.2

/-- the given position carries the constrained axis, and the branch that handles it is on its generic side -/
def Samp1CompleteGeneric (s : Samp1 ℝ) (t0 : STuple ℝ) : Prop :=
  match s with
  | .mu v => t0.1 = v ∧ Scalar.isSmall (Real.sin (Real.arccos (Real.cos t0.2.2.1))) = false
  | .phi v => t0.2.2.2 = v ∧ Scalar.isSmall (Real.cos (Real.arcsin (Real.sin t0.2.1))) = false
  | .chi v => t0.2.2.1 = v ∧ Scalar.isSmall (Real.sin v) = false ∧
      (∀ e ∈ [Real.arccos (Real.cos t0.2.1), -Real.arccos (Real.cos t0.2.1)], chiEtaDegenerate v e (C04.Z t0.1 t0.2.1 v t0.2.2.2) = false) ∧
      Real.sin t0.2.1 ^ 2 * Real.sin v ^ 2 + Real.cos v ^ 2 ≠ 0 ∧ Real.sin t0.2.1 ^ 2 + Real.cos t0.2.1 ^ 2 * Real.cos v ^ 2 ≠ 0
  | .eta v => t0.2.1 = v ∧ Scalar.isSmall (Real.cos v) = false ∧
      (∀ x ∈ [Real.arcsin (Real.sin t0.2.2.1), Real.pi - Real.arcsin (Real.sin t0.2.2.1)], chiEtaDegenerate x v (C04.Z t0.1 v t0.2.2.1 t0.2.2.2) = false) ∧
      Real.sin v ^ 2 * Real.sin t0.2.2.1 ^ 2 + Real.cos t0.2.2.1 ^ 2 ≠ 0 ∧ Real.sin v ^ 2 + Real.cos v ^ 2 * Real.cos t0.2.2.1 ^ 2 ≠ 0

/-- the branch dispatch of `_calc_remaining_sample_angles` once the laboratory triad is known -/
theorem remainingBranch_complete (s : Samp1 ℝ) (N_phi N_lab : M3 ℝ) (hl : IsRot N_lab) (hp : IsRot N_phi)
    (t0 : STuple ℝ) (hF : FullSpec N_lab N_phi t0) (hgen : Samp1CompleteGeneric s t0) :
    ∃ l, (match s with
        | .mu v => sampleConMu v N_lab N_phi
        | .phi v => sampleConPhi v N_lab N_phi
        | .eta v => sampleConEta v N_lab N_phi
        | .chi v => sampleConChi v N_lab N_phi) = .ok l ∧ ∃ t ∈ l, SameTuple t t0 := by
  obtain ⟨mu0, eta0, chi0, phi0⟩ := t0
  cases s with
  | mu v =>
    obtain ⟨rfl, hg⟩ := hgen
    obtain ⟨l, hlk, t, ht, h1, h2, h3, h4⟩ := sampleConMu_complete mu0 N_lab N_phi hl hp eta0 chi0 phi0 hF hg
    exact ⟨l, hlk, t, ht, ⟨by rw [h1]; exact sameAngle_refl _, h2, h3, h4⟩⟩
  | phi v =>
    obtain ⟨rfl, hg⟩ := hgen
    obtain ⟨l, hlk, t, ht, h1, h2, h3, h4⟩ := sampleConPhi_complete phi0 N_lab N_phi hp mu0 eta0 chi0 hF hg
    exact ⟨l, hlk, t, ht, ⟨h1, h2, h3, by rw [h4]; exact sameAngle_refl _⟩⟩
  | chi v =>
    obtain ⟨rfl, hsc, hall, hD, hE⟩ := hgen
    obtain ⟨l, hlk, t, ht, h1, h2, h3, h4⟩ := sampleConChi_complete chi0 N_lab N_phi hp mu0 eta0 phi0 hF hsc hall hD hE
    exact ⟨l, hlk, t, ht, ⟨h1, h2, by rw [h3]; exact sameAngle_refl _, h4⟩⟩
  | eta v =>
    obtain ⟨rfl, hce, hall, hD, hE⟩ := hgen
    obtain ⟨l, hlk, t, ht, h1, h2, h3, h4⟩ := sampleConEta_complete eta0 N_lab N_phi hp mu0 chi0 phi0 hF hce hall hD hE
    exact ⟨l, hlk, t, ht, ⟨h1, by rw [h2]; exact sameAngle_refl _, h3, h4⟩⟩

/-- **completeness of `_calc_remaining_sample_angles`** (all four single-sample branches): whenever `_calc_N` delivers the laboratory triad, any
    position satisfying the full orientation equation `Z·N_phi = N_lab` with the constrained axis at its value is returned modulo 2π -/
theorem remainingSample_complete (s : Samp1 ℝ) (theta alpha qaz : ℝ) (naz : Option ℝ) (N_phi N_lab : M3 ℝ) (hl : IsRot N_lab) (hp : IsRot N_phi)
    (hN : calcN (qDir theta qaz) (C01.nLab alpha naz) = .ok N_lab)
    (t0 : STuple ℝ) (hF : FullSpec N_lab N_phi t0) (hgen : Samp1CompleteGeneric s t0) :
    ∃ l, remainingSample s theta alpha qaz naz N_phi = .ok l ∧ ∃ t ∈ l, SameTuple t t0 := by
  obtain ⟨l, hlk, ht⟩ := remainingBranch_complete s N_phi N_lab hl hp t0 hF hgen
  refine ⟨l, ?_, ht⟩
  unfold remainingSample
  simp only [rs_cos, rs_sin, rs_zero]
  cases naz with
  | none =>
    have e : calcN (⟨Real.cos theta * Real.sin qaz, -(Real.sin theta), Real.cos theta * Real.cos qaz⟩ : V3 ℝ) ⟨0, -(Real.sin alpha), 0⟩ = .ok N_lab := hN
    simp only [bind, Except.bind, e]
    cases s <;> exact hlk
  | some nz =>
    have e : calcN (⟨Real.cos theta * Real.sin qaz, -(Real.sin theta), Real.cos theta * Real.cos qaz⟩ : V3 ℝ)
        ⟨Real.cos alpha * Real.sin nz, -(Real.sin alpha), Real.cos alpha * Real.cos nz⟩ = .ok N_lab := hN
    simp only [bind, Except.bind, e]
    cases s <;> exact hlk

end
end C03
