import DiffcalcProofs.Props.C20
import DiffcalcProofs.Props.C05Geo
import DiffcalcProofs.Props.C06
/-!
# C20 — the round trip, end to end on the model

`polarFromHkl UB B (s · hklFromPolar UB ref pol az) ref = (pol, az mod 2π, s)`: the inverse transform, composed through
`angle_between_vectors`, `bound`, the plane distances and the azimuth gate, returns the polar angle, the azimuth modulo 360° and the scale.
-/
namespace C20
open M3 Scalar PyOps
noncomputable section

theorem eq_smul_unit (x : V3 ℝ) (hx : 0 < V3.norm x) : x = V3.smul (V3.norm x) (V3.unit x) := by
  have := hx.ne'
  ext <;> simp only [V3.smul, V3.unit] <;> field_simp

/-- `cos(radians(angle_between_vectors(x, y)))` is the dot product of the unit vectors -/
theorem cosBetween_eq (x y : V3 ℝ) (hx : 0 < V3.norm x) (hy : 0 < V3.norm y) :
    Polar.cosBetween x y = .ok (V3.dot (V3.unit x) (V3.unit y)) := by
  unfold Polar.cosBetween
  rw [C05.angleBetween_eq]
  simp only [bind, Except.bind, pure, Except.pure, rs_cos, C01.toRad_toDeg']
  have h := C11.abs_cos_between x y
  obtain ⟨l, u⟩ := abs_le.mp h
  rw [Real.cos_arccos l u, ← V3.unit_eq_smul x hx, ← V3.unit_eq_smul y hy]

theorem angleBetween_unit (x y : V3 ℝ) (hx : 0 < V3.norm x) (hy : 0 < V3.norm y) :
    Solver.angleBetween x y = .ok (Scalar.toDeg (Real.arccos (V3.dot (V3.unit x) (V3.unit y)))) := by
  rw [C05.angleBetween_eq, ← V3.unit_eq_smul x hx, ← V3.unit_eq_smul y hy]

theorem cross_smul_left (t : ℝ) (a b : V3 ℝ) : V3.cross (V3.smul t a) b = V3.smul t (V3.cross a b) := by
  ext <;> simp only [V3.cross, V3.smul] <;> ring
theorem smul_smul (s t : ℝ) (a : V3 ℝ) : V3.smul s (V3.smul t a) = V3.smul (s * t) a := by
  ext <;> simp only [V3.smul] <;> ring
theorem norm_of_dot_self_one (v : V3 ℝ) (h : V3.dot v v = 1) : V3.norm v = 1 := by
  unfold V3.norm V3.normSq; simp only [rs_sqrt]; rw [h]; exact Real.sqrt_one

/-- the offset direction of the forward transform: a unit vector with the three components of `C20.offset_components` -/
def oDir (w k : V3 ℝ) (p a : ℝ) : V3 ℝ := M3.mulVec (rodrigues w a) (M3.mulVec (rodrigues k p) w)

/-- `UB · hklFromPolar UB ref pol az = |w| · oDir ŵ k̂ pol az` with `w = UB·ref`, `k = auxAxis w` -/
theorem forward_closed (UB : M3 ℝ) (hdet : M3.det UB ≠ 0) (ref : V3 ℝ) (pol az : ℝ)
    (hw : 0 < V3.norm (M3.mulVec UB ref)) (hax : 0 < V3.norm (Polar.auxAxis (M3.mulVec UB ref))) :
    M3.mulVec UB (Polar.hklFromPolar UB ref pol az) =
      V3.smul (V3.norm (M3.mulVec UB ref)) (oDir (V3.unit (M3.mulVec UB ref)) (V3.unit (Polar.auxAxis (M3.mulVec UB ref))) pol az) := by
  unfold Polar.hklFromPolar oDir
  simp only [M3.mulVec_mul, M3.mulVec_inv_cancel UB hdet]
  set w := M3.mulVec UB ref with hwdef
  set k := Polar.auxAxis w with hkdef
  have e1 : rodrigues w az = rodrigues (V3.unit w) az := by
    conv_lhs => rw [eq_smul_unit w hw]
    exact rodrigues_scale_axis _ _ _ hw (by rw [V3.norm_unit w hw]; norm_num)
  have e2 : rodrigues k pol = rodrigues (V3.unit k) pol := by
    conv_lhs => rw [eq_smul_unit k hax]
    exact rodrigues_scale_axis _ _ _ hax (by rw [V3.norm_unit k hax]; norm_num)
  rw [e1, e2]
  have hsm : ∀ R : M3 ℝ, M3.mulVec R w = V3.smul (V3.norm w) (M3.mulVec R (V3.unit w)) := by
    intro R
    conv_lhs => rw [eq_smul_unit w hw]
    rw [M3.mulVec_smul]
  rw [hsm (rodrigues (V3.unit k) pol), M3.mulVec_smul]

theorem auxAxis_perp (w : V3 ℝ) : V3.dot (Polar.auxAxis w) w = 0 := by
  unfold Polar.auxAxis; simp only []; split <;> simp only [V3.dot, V3.cross] <;> ring

theorem dot_smul_right (t : ℝ) (a b : V3 ℝ) : V3.dot a (V3.smul t b) = t * V3.dot a b := by simp only [V3.dot, V3.smul]; ring

theorem dot_unit_unit_zero (x y : V3 ℝ) (hx : 0 < V3.norm x) (hy : 0 < V3.norm y) (h : V3.dot x y = 0) :
    V3.dot (V3.unit x) (V3.unit y) = 0 := by
  rw [V3.unit_eq_smul x hx, V3.unit_eq_smul y hy, dot_smul_left, dot_smul_right, h]; ring

theorem norm_oDir (w k : V3 ℝ) (p a : ℝ) (hw : V3.norm w = 1) (hk : V3.norm k = 1) : V3.norm (oDir w k p a) = 1 := by
  unfold oDir
  rw [C08.norm_rot _ (C08.rodrigues_isRot _ a (by rw [hw]; norm_num)), C08.norm_rot _ (C08.rodrigues_isRot _ p (by rw [hk]; norm_num)), hw]

/-- the auxiliary axis never vanishes for a vector of length at least 1e-7 (so `hax` in `polar_roundtrip` is implied by that) -/
theorem auxAxis_pos (w : V3 ℝ) (hw : (1e-7 : ℝ) ≤ V3.norm w) : 0 < V3.norm (Polar.auxAxis w) := by
  have hS : (Scalar.SMALL : ℝ) = 1e-7 := by simp only [Scalar.SMALL, Scalar.ofSci]
  unfold Polar.auxAxis
  simp only []
  split
  · rename_i hlt
    simp only [rs_lt, decide_eq_true_eq, hS] at hlt
    rw [V3.norm_pos_iff]
    by_contra hc
    push Not at hc
    obtain ⟨h1, h2, _⟩ := hc
    simp only [V3.cross, V3.ez, rs_zero, rs_one] at h1 h2
    have hx : w.x = 0 := by linarith
    have hy : w.y = 0 := by linarith
    have e : V3.norm (V3.cross w V3.ey) = V3.norm w := by
      unfold V3.norm V3.normSq V3.dot V3.cross V3.ey
      simp only [rs_sqrt, rs_zero, rs_one, hx, hy]
      congr 1; ring
    rw [e] at hlt
    linarith
  · rename_i hlt
    simp only [rs_lt, decide_eq_true_eq, hS, not_lt] at hlt
    linarith

/-- **the round trip** -/
theorem polar_roundtrip (U B : M3 ℝ) (hU : IsRot U) (hB : M3.det B ≠ 0) (ref : V3 ℝ) (pol az s : ℝ) (hs : 0 < s)
    (hw : 0 < V3.norm (M3.mulVec (M3.mul U B) ref))
    (hax : 0 < V3.norm (Polar.auxAxis (M3.mulVec (M3.mul U B) ref)))
    (hp0 : 0 ≤ pol) (hp1 : pol ≤ Real.pi) (hsin : (2e-7 : ℝ) ≤ Real.sin pol)
    (harea : (1e-7 : ℝ) ≤ s * V3.norm (M3.mulVec (M3.mul U B) ref) ^ 2 * Real.sin pol) :
    ∃ azr, Polar.polarFromHkl (M3.mul U B) B (V3.smul s (Polar.hklFromPolar (M3.mul U B) ref pol az)) ref
        = .ok (Scalar.toDeg pol, some (Scalar.toDeg azr), s) ∧ C03.SameAngle azr az := by
  have hpi := Real.pi_pos
  have hsp : 0 < Real.sin pol := by linarith
  have hdet : M3.det (M3.mul U B) ≠ 0 := by rw [M3.det_mul, hU.2, one_mul]; exact hB
  set UB := M3.mul U B with hUB
  set w := M3.mulVec UB ref with hwdef
  set k := Polar.auxAxis w with hkdef
  set W := V3.norm w with hWdef
  have hw1 : V3.norm (V3.unit w) = 1 := V3.norm_unit w hw
  have hk1 : V3.norm (V3.unit k) = 1 := V3.norm_unit k hax
  have hperp : V3.dot (V3.unit k) (V3.unit w) = 0 := dot_unit_unit_zero k w hax hw (auxAxis_perp w)
  set o := oDir (V3.unit w) (V3.unit k) pol az with hodef
  have ho1 : V3.norm o = 1 := norm_oDir _ _ _ _ hw1 hk1
  obtain ⟨hc1, hc2, hc3⟩ := offset_components (V3.unit w) (V3.unit k) pol az hw1 hk1 hperp
  change V3.dot o (V3.unit w) = Real.cos pol at hc1
  change V3.dot o (V3.cross (V3.unit k) (V3.unit w)) = Real.sin pol * Real.cos az at hc2
  change V3.dot o (V3.unit k) = Real.sin pol * Real.sin az at hc3
  -- the offset vector in the laboratory frame
  have hon : M3.mulVec UB (V3.smul s (Polar.hklFromPolar UB ref pol az)) = V3.smul (s * W) o := by
    rw [M3.mulVec_smul, forward_closed UB hdet ref pol az hw hax, smul_smul]
  have hsW : 0 < s * W := by positivity
  have hon_norm : V3.norm (V3.smul (s * W) o) = s * W := by rw [V3.norm_smul_pos _ hsW, ho1, mul_one]
  have hon_unit : V3.unit (V3.smul (s * W) o) = o := by
    rw [V3.unit_smul_pos _ hsW o (by rw [ho1]; norm_num), C01.unit_of_norm_one o ho1]
  -- plane distances
  have hBref : V3.norm (M3.mulVec B ref) = W := by
    rw [hWdef, hwdef, hUB, M3.mulVec_mul, C08.norm_rot U hU]
  have hBoff : V3.norm (M3.mulVec B (V3.smul s (Polar.hklFromPolar UB ref pol az))) = s * W := by
    rw [← hon_norm, ← hon, hUB, M3.mulVec_mul, C08.norm_rot U hU]
  refine ⟨atan2R (Real.sin pol * Real.sin az) (Real.sin pol * Real.cos az), ?_, azimuth_recovered pol az hsp⟩
  unfold Polar.polarFromHkl
  rw [C06.planeDistance_eq B hB ref (by rw [hBref]; exact hw),
      C06.planeDistance_eq B hB _ (by rw [hBoff]; exact hsW), hBref, hBoff, hon]
  simp only [bind, Except.bind]
  rw [← hwdef]
  have haxis : (if Scalar.lt (V3.norm (V3.cross w V3.ey)) Scalar.SMALL = true then V3.cross w V3.ez else V3.cross w V3.ey) = k := rfl
  rw [haxis]
  have hWne : W ≠ 0 := hw.ne'
  have hww := dot_self_of_norm_one _ hw1
  have hkk := dot_self_of_norm_one _ hk1
  have hoo := dot_self_of_norm_one _ ho1
  -- the area vector
  have hcross_wo : V3.norm (V3.cross (V3.unit w) o) = Real.sin pol := by
    have hd : V3.dot (V3.cross (V3.unit w) o) (V3.cross (V3.unit w) o) = Real.sin pol ^ 2 := by
      rw [lagrange, hww, hoo, dot_comm, hc1]
      have := Real.sin_sq_add_cos_sq pol; linear_combination (-1 : ℝ) * this
    unfold V3.norm V3.normSq; simp only [rs_sqrt]
    rw [hd]; exact Real.sqrt_sq hsp.le
  have harea_norm : V3.norm (V3.cross w (V3.smul (s * W) o)) = s * W ^ 2 * Real.sin pol := by
    conv_lhs => rw [eq_smul_unit w hw]
    rw [cross_smul_left, cross_smul_right, smul_smul, V3.norm_smul_pos _ (by positivity), hcross_wo]
    ring
  have hnot : Scalar.lt (V3.norm (V3.cross w (V3.smul (s * W) o))) Scalar.SMALL = false := by
    rw [harea_norm]
    simp only [rs_lt, Scalar.SMALL, Scalar.ofSci, decide_eq_false_iff_not, not_lt]
    have : (OfScientific.ofScientific 1 true 7 : ℝ) = 1e-7 := by norm_num
    rw [this]; exact harea
  rw [hnot]
  simp only [Bool.false_eq_true, if_false]
  -- the three angles
  have hk_unit_perp : V3.norm (V3.cross (V3.unit k) (V3.unit w)) = 1 := by
    apply norm_of_dot_self_one
    rw [lagrange, hkk, hww, hperp]; ring
  have hperp_pos : 0 < V3.norm (V3.cross k w) ∧ V3.unit (V3.cross k w) = V3.cross (V3.unit k) (V3.unit w) := by
    have e : V3.cross k w = V3.smul (V3.norm k * W) (V3.cross (V3.unit k) (V3.unit w)) := by
      conv_lhs => rw [eq_smul_unit k hax, eq_smul_unit w hw]
      rw [cross_smul_left, cross_smul_right, smul_smul]
    have hpos : 0 < V3.norm k * W := by positivity
    constructor
    · rw [e, V3.norm_smul_pos _ hpos, hk_unit_perp]; linarith
    · rw [e, V3.unit_smul_pos _ hpos _ (by rw [hk_unit_perp]; norm_num), C01.unit_of_norm_one _ hk_unit_perp]
  rw [cosBetween_eq _ k (by rw [hon_norm]; exact hsW) hax, hon_unit, hc3]
  simp only []
  rw [cosBetween_eq _ _ (by rw [hon_norm]; exact hsW) hperp_pos.1, hon_unit, hperp_pos.2, hc2]
  simp only []
  rw [angleBetween_unit w _ hw (by rw [hon_norm]; exact hsW), hon_unit, dot_comm, hc1, Real.arccos_cos hp0 hp1]
  simp only [pure, Except.pure]
  have hgate : (Scalar.lt Scalar.SMALL (Scalar.abs (Real.sin pol * Real.cos az)) || Scalar.lt Scalar.SMALL (Scalar.abs (Real.sin pol * Real.sin az))) = true := by
    simp only [rs_lt, rs_abs, Scalar.SMALL, Scalar.ofSci, Bool.or_eq_true, decide_eq_true_eq]
    have : (OfScientific.ofScientific 1 true 7 : ℝ) = 1e-7 := by norm_num
    rw [this]; exact gate_open pol az hsin
  rw [hgate]
  simp only [if_true, rs_atan2]
  have hsc : 2 * Real.pi / W / (2 * Real.pi / (s * W)) = s := by field_simp
  rw [hsc]

/-- non-vacuity: identity UB, reference (1,0,0), polar angle 90°, azimuth 60°, scale 3 — all hypotheses of `polar_roundtrip` hold -/
example : ∃ azr, Polar.polarFromHkl (M3.mul M3.id M3.id) M3.id
      (V3.smul 3 (Polar.hklFromPolar (M3.mul M3.id M3.id) ⟨1, 0, 0⟩ (Real.pi / 2) (Real.pi / 3))) ⟨1, 0, 0⟩
      = .ok (Scalar.toDeg (Real.pi / 2), some (Scalar.toDeg azr), 3) ∧ C03.SameAngle azr (Real.pi / 3) := by
  have hid : IsRot (M3.id : M3 ℝ) := by
    constructor
    · ext <;> simp [M3.mul, M3.transpose, M3.id]
    · simp [M3.det, M3.id]
  have hw : (M3.mulVec (M3.mul M3.id M3.id) (⟨1, 0, 0⟩ : V3 ℝ)) = ⟨1, 0, 0⟩ := by
    ext <;> simp [M3.mulVec, M3.mul, M3.id]
  have hn : V3.norm (⟨1, 0, 0⟩ : V3 ℝ) = 1 := by simp [V3.norm, V3.normSq, V3.dot]
  have hpi := Real.pi_pos
  apply polar_roundtrip M3.id M3.id hid (by simp [M3.det, M3.id]) ⟨1, 0, 0⟩ (Real.pi / 2) (Real.pi / 3) 3 (by norm_num)
  · rw [hw, hn]; norm_num
  · apply auxAxis_pos; rw [hw, hn]; norm_num
  · positivity
  · linarith
  · rw [Real.sin_pi_div_two]; norm_num
  · rw [hw, hn, Real.sin_pi_div_two]; norm_num

end
end C20
