import DiffcalcProofs.Props.C01Sample
import DiffcalcProofs.Props.C01Detector
/-!
# C01 — assembling the layer theorems: detector (qaz) + two sample angles

For the nine mode shapes `qaz + two sample constraints`, every candidate tuple produced by `__calc_hkl_to_position`
(Bragg angle from the cell, `_calc_N`, detector layer from qaz, sample layer) satisfies the forward model **exactly**:
`fwd(UB, mu, delta, nu, eta, chi, phi, λ) = hkl` — on the generic branch (reflection reachable without clipping, reference vector
not within 1e-7 of the scattering vector, the sample layer's own side conditions, `cos δ` not small).
-/
namespace C01
open M3 Solver Scalar PyOps
noncomputable section

/-- the Bragg angle delivered by `get_ttheta_from_hkl` for a reachable reflection: `sin θ = λ |B·hkl| / 4π` -/
theorem ttheta_eq (B : M3 ℝ) (hdet : M3.det B ≠ 0) (hkl : V3 ℝ) (wl : ℝ) (hwl : 0 < wl) (hne : 0 < V3.norm (M3.mulVec B hkl))
    (hreach : wl * V3.norm (M3.mulVec B hkl) / (4 * Real.pi) ≤ 1) :
    CrystalModel.ttheta B hkl (Scalar.ofSci 1239842 true 5 / wl) = .ok (2 * Real.arcsin (wl * V3.norm (M3.mulVec B hkl) / (4 * Real.pi))) := by
  unfold CrystalModel.ttheta
  have hpi := Real.pi_pos
  have hc : (Scalar.ofSci 1239842 true 5 : ℝ) = 12.39842 := by simp only [Scalar.ofSci]
  rw [C06.planeDistance_eq B hdet hkl hne]
  simp only [rs_two, hc]
  have hx : (12.39842 : ℝ) / (12.39842 / wl) / (2 * Real.pi / V3.norm (M3.mulVec B hkl) * 2) = wl * V3.norm (M3.mulVec B hkl) / (4 * Real.pi) := by
    field_simp; ring
  rw [hx]
  have habs : |wl * V3.norm (M3.mulVec B hkl) / (4 * Real.pi)| ≤ 1 := by
    rw [abs_of_nonneg (by positivity)]; exact hreach
  rw [bound_id habs]
  simp only [pyAsin_ok habs, Except.map]

theorem norm_UB (U B : M3 ℝ) (hU : IsRot U) (hkl : V3 ℝ) : V3.norm (M3.mulVec (M3.mul U B) hkl) = V3.norm (M3.mulVec B hkl) := by
  rw [M3.mulVec_mul, C08.norm_rot U hU]

/-- **qaz + two sample angles, end to end** -/
theorem detSamp2_qaz_exact (ub : UBIn ℝ) (U : M3 ℝ) (hU : IsRot U) (hUB : ub.UB = M3.mul U ub.B) (hB : M3.det ub.B ≠ 0)
    (q : ℝ) (s : Samp2Det ℝ) (hkl : V3 ℝ) (wl : ℝ) (hwl : 0 < wl)
    (hne : 0 < V3.norm (M3.mulVec ub.B hkl)) (hn : 0 < V3.norm ub.n_phi)
    (hreach : wl * V3.norm (M3.mulVec ub.B hkl) / (4 * Real.pi) ≤ 1)
    (hx : (1e-7 : ℝ) < V3.norm (V3.cross (V3.unit (M3.mulVec ub.UB hkl)) (V3.unit ub.n_phi)))
    (hgen : ∀ N, calcN (M3.mulVec ub.UB hkl) ub.n_phi = .ok N →
      Samp2DetGeneric s N (Real.arcsin (wl * V3.norm (M3.mulVec ub.B hkl) / (4 * Real.pi))) q)
    (l : List (Sol ℝ)) (h : candidates ub (.detSamp2 (.qaz q) s) hkl wl = .ok l) :
    ∀ sol ∈ l, ∀ N, calcN (M3.mulVec ub.UB hkl) ub.n_phi = .ok N →
      Scalar.isSmall (Real.cos sol.2.1) = false →
      ClipMuEta N (Real.arcsin (wl * V3.norm (M3.mulVec ub.B hkl) / (4 * Real.pi))) q (sol.1, sol.2.2.2.1, sol.2.2.2.2.1, sol.2.2.2.2.2) →
      C04.fwd ub.UB sol.1 sol.2.1 sol.2.2.1 sol.2.2.2.1 sol.2.2.2.2.1 sol.2.2.2.2.2 wl = hkl := by
  set theta := Real.arcsin (wl * V3.norm (M3.mulVec ub.B hkl) / (4 * Real.pi)) with hth
  have hpi := Real.pi_pos
  have hnUB : V3.norm (M3.mulVec ub.UB hkl) = V3.norm (M3.mulVec ub.B hkl) := by rw [hUB]; exact norm_UB U ub.B hU hkl
  have hnUBpos : 0 < V3.norm (M3.mulVec ub.UB hkl) := by rw [hnUB]; exact hne
  have hdetUB : M3.det ub.UB ≠ 0 := by rw [hUB, M3.det_mul, hU.2, one_mul]; exact hB
  unfold candidates at h
  rw [ttheta_eq ub.B hB hkl wl hwl hne hreach] at h
  simp only [bind, Except.bind, rs_two] at h
  have hhalf : 2 * theta / 2 = theta := by ring
  rw [hhalf] at h
  unfold detSampleReference at h
  simp only [bind, Except.bind] at h
  intro sol hsol N hN hcd hclip
  rw [hN] at h
  simp only [detRemaining, pure, Except.pure] at h
  -- N: proper rotation with first column the unit scattering vector
  obtain ⟨hNrot, hNcol⟩ := calcN_generic _ _ N hnUBpos hn hx hN
  have hNunit : N.a00 ^ 2 + N.a10 ^ 2 + N.a20 ^ 2 = 1 := by
    have := congrArg M3.a00 hNrot.1; simp only [M3.mul, M3.transpose, M3.id, rs_one] at this; linear_combination this
  have hsamp := twoSampleDetector_sound s q theta N hNunit (hgen N hN)
  -- walk through the forM' over the detector triples
  have key : ∀ (ds : List (ℝ × ℝ × ℝ)) (out : List (Sol ℝ)),
      (∀ t ∈ ds, t ∈ detFromQaz q theta) →
      forM' ds (fun x => match twoSampleDetector s x.2.2 theta N with
        | .error err => .error err
        | .ok v => .ok (v.map fun x_1 => (x_1.1, x.1, x.2.1, x_1.2.1, x_1.2.2.1, x_1.2.2.2))) = .ok out →
      ∀ sol ∈ out, ∃ t ∈ detFromQaz q theta, ∃ ss, twoSampleDetector s t.2.2 theta N = .ok ss ∧
        (sol.1, sol.2.2.2.1, sol.2.2.2.2.1, sol.2.2.2.2.2) ∈ ss ∧ sol.2.1 = t.1 ∧ sol.2.2.1 = t.2.1 := by
    intro ds
    induction ds with
    | nil => intro out _ ho sol hs; simp [forM'] at ho; subst ho; cases hs
    | cons d rest ih =>
      intro out hmem ho sol hs
      simp only [forM', bind, Except.bind] at ho
      cases hts : twoSampleDetector s d.2.2 theta N with
      | error e => simp [hts] at ho
      | ok ss =>
        simp only [hts] at ho
        cases hrest : forM' rest (fun x => match twoSampleDetector s x.2.2 theta N with
          | .error err => .error err
          | .ok v => .ok (v.map fun x_1 => (x_1.1, x.1, x.2.1, x_1.2.1, x_1.2.2.1, x_1.2.2.2))) with
        | error e => simp [hrest] at ho
        | ok zs =>
          simp only [hrest, pure, Except.pure, Except.ok.injEq] at ho
          subst ho
          rcases List.mem_append.mp hs with h1 | h2
          · obtain ⟨y, hy, rfl⟩ := List.mem_map.mp h1
            exact ⟨d, hmem _ List.mem_cons_self, ss, hts, hy, rfl, rfl⟩
          · exact ih zs (fun t ht => hmem t (List.mem_cons_of_mem _ ht)) hrest sol h2
  have h' : forM' (detFromQaz q theta) (fun x => match twoSampleDetector s x.2.2 theta N with
        | .error err => .error err
        | .ok v => .ok (v.map fun x_1 => (x_1.1, x.1, x.2.1, x_1.2.1, x_1.2.2.1, x_1.2.2.2))) = .ok l := by
    rw [← h]; congr 1; funext x; cases twoSampleDetector s x.2.2 theta N <;> rfl
  obtain ⟨t, ht, ss, hss, hin, hd, hnu⟩ := key _ l (fun t ht => ht) h' sol hsol
  have hqz : t.2.2 = q := detFromQaz_qaz q theta t ht
  rw [hqz] at hss
  have hS := hsamp ss hss _ hin hclip
  have hD : DetSpec sol.2.1 sol.2.2.1 q theta := by
    have := detFromQaz_sound q theta t ht (by rw [← hd]; exact hcd)
    rw [hqz, ← hd, ← hnu] at this; exact this
  -- composition
  apply composition ub.UB hdetUB _ _ _ _ _ _ q theta wl hkl hD
  unfold SampleSpec at hS
  simp only [] at hS
  have hu : M3.mulVec ub.UB hkl = V3.smul (V3.norm (M3.mulVec ub.UB hkl)) (V3.unit (M3.mulVec ub.UB hkl)) := by
    rw [V3.unit_eq_smul _ hnUBpos]; ext <;> simp only [V3.smul] <;> field_simp
  rw [hu, M3.mulVec_smul, ← hNcol, hS, hnUB]
  congr 1
  rw [hth, Real.sin_arcsin (by have : 0 ≤ wl * V3.norm (M3.mulVec ub.B hkl) / (4 * Real.pi) := by positivity
                               linarith) hreach]
  field_simp; ring

/-- **any detector constraint (delta, nu or qaz) + two sample angles, end to end**: all 27 mode shapes of this class.
    Every side condition is on a value the solver itself produced (the detector triples of `detRemaining`, the tuple at hand). -/
theorem detSamp2_exact (ub : UBIn ℝ) (U : M3 ℝ) (hU : IsRot U) (hUB : ub.UB = M3.mul U ub.B) (hB : M3.det ub.B ≠ 0)
    (det : DetCon ℝ) (s : Samp2Det ℝ) (hkl : V3 ℝ) (wl : ℝ) (hwl : 0 < wl)
    (hne : 0 < V3.norm (M3.mulVec ub.B hkl)) (hn : 0 < V3.norm ub.n_phi)
    (hreach : wl * V3.norm (M3.mulVec ub.B hkl) / (4 * Real.pi) ≤ 1)
    (hx : (1e-7 : ℝ) < V3.norm (V3.cross (V3.unit (M3.mulVec ub.UB hkl)) (V3.unit ub.n_phi)))
    (hdgen : DetGeneric det (Real.arcsin (wl * V3.norm (M3.mulVec ub.B hkl) / (4 * Real.pi))))
    (hgen : ∀ N, calcN (M3.mulVec ub.UB hkl) ub.n_phi = .ok N →
      ∀ ds, detRemaining det (Real.arcsin (wl * V3.norm (M3.mulVec ub.B hkl) / (4 * Real.pi))) = .ok ds → ∀ t ∈ ds,
      Samp2DetGeneric s N (Real.arcsin (wl * V3.norm (M3.mulVec ub.B hkl) / (4 * Real.pi))) t.2.2)
    (l : List (Sol ℝ)) (h : candidates ub (.detSamp2 det s) hkl wl = .ok l) :
    ∀ sol ∈ l, ∀ N, calcN (M3.mulVec ub.UB hkl) ub.n_phi = .ok N →
      Scalar.isSmall (Real.cos sol.2.1) = false → Scalar.isSmall (Real.sin sol.2.1) = false → Scalar.isSmall (Real.sin sol.2.2.1) = false →
      (∀ ds, detRemaining det (Real.arcsin (wl * V3.norm (M3.mulVec ub.B hkl) / (4 * Real.pi))) = .ok ds → ∀ t ∈ ds,
        t.1 = sol.2.1 → t.2.1 = sol.2.2.1 → Scalar.isSmall (Real.sin t.2.2) = false ∧
        ClipMuEta N (Real.arcsin (wl * V3.norm (M3.mulVec ub.B hkl) / (4 * Real.pi))) t.2.2 (sol.1, sol.2.2.2.1, sol.2.2.2.2.1, sol.2.2.2.2.2)) →
      C04.fwd ub.UB sol.1 sol.2.1 sol.2.2.1 sol.2.2.2.1 sol.2.2.2.2.1 sol.2.2.2.2.2 wl = hkl := by
  set theta := Real.arcsin (wl * V3.norm (M3.mulVec ub.B hkl) / (4 * Real.pi)) with hth
  have hpi := Real.pi_pos
  have hnUB : V3.norm (M3.mulVec ub.UB hkl) = V3.norm (M3.mulVec ub.B hkl) := by rw [hUB]; exact norm_UB U ub.B hU hkl
  have hnUBpos : 0 < V3.norm (M3.mulVec ub.UB hkl) := by rw [hnUB]; exact hne
  have hdetUB : M3.det ub.UB ≠ 0 := by rw [hUB, M3.det_mul, hU.2, one_mul]; exact hB
  unfold candidates at h
  rw [ttheta_eq ub.B hB hkl wl hwl hne hreach] at h
  simp only [bind, Except.bind, rs_two] at h
  have hhalf : 2 * theta / 2 = theta := by ring
  rw [hhalf] at h
  unfold detSampleReference at h
  simp only [bind, Except.bind] at h
  intro sol hsol N hN hcd hsd hsn hq
  rw [hN] at h
  simp only [] at h
  cases hds : detRemaining det theta with
  | error e => simp [hds] at h
  | ok ds =>
    simp only [hds] at h
    obtain ⟨hNrot, hNcol⟩ := calcN_generic _ _ N hnUBpos hn hx hN
    have hNunit : N.a00 ^ 2 + N.a10 ^ 2 + N.a20 ^ 2 = 1 := by
      have := congrArg M3.a00 hNrot.1; simp only [M3.mul, M3.transpose, M3.id, rs_one] at this; linear_combination this
    have key : ∀ (ds' : List (ℝ × ℝ × ℝ)) (out : List (Sol ℝ)),
        (∀ t ∈ ds', t ∈ ds) →
        forM' ds' (fun x => match twoSampleDetector s x.2.2 theta N with
          | .error err => .error err
          | .ok v => .ok (v.map fun x_1 => (x_1.1, x.1, x.2.1, x_1.2.1, x_1.2.2.1, x_1.2.2.2))) = .ok out →
        ∀ sol ∈ out, ∃ t ∈ ds, ∃ ss, twoSampleDetector s t.2.2 theta N = .ok ss ∧
          (sol.1, sol.2.2.2.1, sol.2.2.2.2.1, sol.2.2.2.2.2) ∈ ss ∧ sol.2.1 = t.1 ∧ sol.2.2.1 = t.2.1 := by
      intro ds'
      induction ds' with
      | nil => intro out _ ho sol hs; simp [forM'] at ho; subst ho; cases hs
      | cons d rest ih =>
        intro out hmem ho sol hs
        simp only [forM', bind, Except.bind] at ho
        cases hts : twoSampleDetector s d.2.2 theta N with
        | error e => simp [hts] at ho
        | ok ss =>
          simp only [hts] at ho
          cases hrest : forM' rest (fun x => match twoSampleDetector s x.2.2 theta N with
            | .error err => .error err
            | .ok v => .ok (v.map fun x_1 => (x_1.1, x.1, x.2.1, x_1.2.1, x_1.2.2.1, x_1.2.2.2))) with
          | error e => simp [hrest] at ho
          | ok zs =>
            simp only [hrest, pure, Except.pure, Except.ok.injEq] at ho
            subst ho
            rcases List.mem_append.mp hs with h1 | h2
            · obtain ⟨y, hy, rfl⟩ := List.mem_map.mp h1
              exact ⟨d, hmem _ List.mem_cons_self, ss, hts, hy, rfl, rfl⟩
            · exact ih zs (fun t ht => hmem t (List.mem_cons_of_mem _ ht)) hrest sol h2
    have h' : forM' ds (fun x => match twoSampleDetector s x.2.2 theta N with
          | .error err => .error err
          | .ok v => .ok (v.map fun x_1 => (x_1.1, x.1, x.2.1, x_1.2.1, x_1.2.2.1, x_1.2.2.2))) = .ok l := by
      rw [← h]; congr 1; funext x; cases twoSampleDetector s x.2.2 theta N <;> rfl
    obtain ⟨t, ht, ss, hss, hin, hd, hnu⟩ := key _ l (fun t ht => ht) h' sol hsol
    have hqt := hq ds hds t ht hd.symm hnu.symm
    have hsamp := twoSampleDetector_sound s t.2.2 theta N hNunit (hgen N hN ds hds t ht)
    have hS := hsamp ss hss _ hin hqt.2
    have hD : DetSpec sol.2.1 sol.2.2.1 t.2.2 theta := by
      have := detRemaining_sound det theta hdgen ds hds t ht (by rw [← hd]; exact hcd) (by rw [← hd]; exact hsd) (by rw [← hnu]; exact hsn) hqt.1
      rw [← hd, ← hnu] at this; exact this
    apply composition ub.UB hdetUB _ _ _ _ _ _ t.2.2 theta wl hkl hD
    unfold SampleSpec at hS
    simp only [] at hS
    have hu : M3.mulVec ub.UB hkl = V3.smul (V3.norm (M3.mulVec ub.UB hkl)) (V3.unit (M3.mulVec ub.UB hkl)) := by
      rw [V3.unit_eq_smul _ hnUBpos]; ext <;> simp only [V3.smul] <;> field_simp
    rw [hu, M3.mulVec_smul, ← hNcol, hS, hnUB]
    congr 1
    rw [hth, Real.sin_arcsin (by have : 0 ≤ wl * V3.norm (M3.mulVec ub.B hkl) / (4 * Real.pi) := by positivity
                                 linarith) hreach]
    field_simp; ring

end
end C01
