import DiffcalcProofs.Props.C11
import DiffcalcProofs.Props.C01
/-!
# C05 — pseudo-angles equal their geometric definitions and ignore vector length

Model: `Solver.virtualAngles` (hand, tie H: compared with `get_virtual_angles` on random and special positions with vectors of
any length in either frame) on top of the GENERATED rotation constructors.
Proved (real reading):
* **length independence**: the result is unchanged when the reference vector or the surface normal (phi frame) is multiplied
  by any positive factor (`virtualAngles_scale_ref`, `virtualAngles_scale_surf`);
* **geometric definitions** of the quantities the code derives by formula rather than by construction:
  `cos 2θ = k̂_f·k̂_i`, `sin α = −n̂·k̂_i`, `cos τ = q̂·n̂`, `sin β = n̂·k̂_f` (the code computes `2 sinθ cosτ − sin α`),
  `qaz = atan2(k̂_f·x̂, k̂_f·ẑ)` away from θ ∈ {0, 90°}, `naz = atan2(n̂·x̂, n̂·ẑ)`.
  `psi` (eqs 25/28) and `betain/betaout` are covered by correspondence and the geometric oracle only.
-/
namespace C05
open Solver PyOps
noncomputable section

theorem normalised_smul_pos (c : ℝ) (hc : 0 < c) (v : V3 ℝ) : V3.normalised (V3.smul c v) = V3.normalised v := by
  unfold V3.normalised
  simp only [rs_beq, rs_zero, rs_one]
  have hn := V3.norm_smul_pos c hc v
  by_cases h : V3.norm v = 0
  · have h2 : V3.norm (V3.smul c v) = 0 := by rw [hn, h, mul_zero]
    simp only [h, h2, decide_true, if_true]
    -- a vector of norm zero is the zero vector
    have hz : v = ⟨0, 0, 0⟩ := by
      by_contra hne
      have : 0 < V3.norm v := by
        rw [V3.norm_pos_iff]; by_contra hc2; push Not at hc2
        apply hne; cases v; simp_all
      linarith
    subst hz; ext <;> simp [V3.smul]
  · have h2 : V3.norm (V3.smul c v) ≠ 0 := by rw [hn]; exact mul_ne_zero hc.ne' h
    simp only [h, h2, decide_false, Bool.false_eq_true, if_false]
    rw [hn]
    ext <;> simp only [V3.smul] <;> field_simp

theorem angleBetween_smul_right (c : ℝ) (hc : 0 < c) (x y : V3 ℝ) : angleBetween x (V3.smul c y) = angleBetween x y := by
  unfold angleBetween
  have hn := V3.norm_smul_pos c hc y
  have : V3.smul (Scalar.one / V3.norm (V3.smul c y)) (V3.smul c y) = V3.smul (Scalar.one / V3.norm y) y := by
    rw [hn]
    by_cases h : V3.norm y = 0
    · have hz : y = ⟨0, 0, 0⟩ := by
        by_contra hne
        have : 0 < V3.norm y := by
          rw [V3.norm_pos_iff]; by_contra hc2; push Not at hc2
          apply hne; cases y; simp_all
        linarith
      subst hz; ext <;> simp [V3.smul]
    · ext <;> simp only [V3.smul, rs_one] <;> field_simp
  rw [this]

/-- **length independence (reference vector)** -/
theorem virtualAngles_scale_ref (ub : UBIn ℝ) (c : ℝ) (hc : 0 < c) (p : Pos ℝ) :
    virtualAngles { ub with n_phi := V3.smul c ub.n_phi } p = virtualAngles ub p := by
  unfold virtualAngles
  simp only [M3.mulVec_smul, normalised_smul_pos c hc]

/-- **length independence (surface normal)** -/
theorem virtualAngles_scale_surf (ub : UBIn ℝ) (c : ℝ) (hc : 0 < c) (p : Pos ℝ) :
    virtualAngles { ub with surf_nphi := V3.smul c ub.surf_nphi } p = virtualAngles ub p := by
  unfold virtualAngles
  simp only [M3.mulVec_smul, angleBetween_smul_right c hc]

/-! ## geometric definitions -/

/-- `cos 2θ = k̂_f · k̂_i` with `k̂_i = ŷ` -/
theorem cos_ttheta_geometric (delta nu : ℝ) :
    Real.cos (2 * (thetaQaz delta nu).1) = V3.dot (C11.kfHat delta nu) ⟨0, 1, 0⟩ := by
  have hcabs : |Real.cos delta * Real.cos nu| ≤ 1 := by
    rw [abs_mul]; exact mul_le_one₀ (Real.abs_cos_le_one _) (abs_nonneg _) (Real.abs_cos_le_one _)
  simp only [thetaQaz, rs_acos, rs_cos, rs_two]
  have : 2 * (Real.arccos (Real.cos delta * Real.cos nu) / 2) = Real.arccos (Real.cos delta * Real.cos nu) := by ring
  rw [this, Real.cos_arccos (abs_le.mp hcabs).1 (abs_le.mp hcabs).2]
  simp [C11.kfHat, Gen.rot_NU, Gen.rot_DELTA, Gen.x_rotation, Gen.z_rotation, V3.dot, M3.mulVec, M3.mul]
  ring

/-- `sin β = n̂ · k̂_f`: the code's `2 sinθ cos τ − sin α` is the projection of the reference direction on the scattered beam -/
theorem sin_beta_geometric (delta nu : ℝ) (n : V3 ℝ) (hq : V3.norm (C11.qRaw delta nu) ≠ 0) :
    2 * Real.sin (Real.arccos (Real.cos delta * Real.cos nu) / 2) * V3.dot (V3.normalised (C11.qRaw delta nu)) n - (-n.y)
      = V3.dot (C11.kfHat delta nu) n := by
  have hnorm := C11.norm_qRaw delta nu
  have hnz : V3.normalised (C11.qRaw delta nu) = V3.smul (1 / V3.norm (C11.qRaw delta nu)) (C11.qRaw delta nu) := by
    unfold V3.normalised; simp [hq]
  rw [← hnorm, hnz]
  have : V3.norm (C11.qRaw delta nu) * V3.dot (V3.smul (1 / V3.norm (C11.qRaw delta nu)) (C11.qRaw delta nu)) n = V3.dot (C11.qRaw delta nu) n := by
    simp only [V3.dot, V3.smul]; field_simp
  rw [this, C11.qRaw_eq]
  simp only [V3.dot, V3.sub]; ring

/-- `qaz` is the azimuth of the scattered beam about the incident beam, `atan2(k̂_f·x̂, k̂_f·ẑ)`, whenever `sin 2θ` is above the
    code's threshold (away from θ ∈ {0, 90°}) -/
theorem qaz_geometric (delta nu : ℝ) (hns : Scalar.isSmall (Real.sin (2 * (thetaQaz delta nu).1)) = false) :
    (thetaQaz delta nu).2 = atan2R (C11.kfHat delta nu).x (C11.kfHat delta nu).z := by
  have hcabs : |Real.cos delta * Real.cos nu| ≤ 1 := by
    rw [abs_mul]; exact mul_le_one₀ (Real.abs_cos_le_one _) (abs_nonneg _) (Real.abs_cos_le_one _)
  have hth : (thetaQaz delta nu).1 = Real.arccos (Real.cos delta * Real.cos nu) / 2 := by simp [thetaQaz]
  have hpos : 0 < Real.sin (2 * (thetaQaz delta nu).1) := by
    have h2 : 2 * (thetaQaz delta nu).1 = Real.arccos (Real.cos delta * Real.cos nu) := by rw [hth]; ring
    have hnn : 0 ≤ Real.sin (2 * (thetaQaz delta nu).1) := by
      rw [h2]; exact Real.sin_nonneg_of_nonneg_of_le_pi (Real.arccos_nonneg _) (Real.arccos_le_pi _)
    exact lt_of_le_of_ne hnn (Ne.symm (C01.not_small_ne_zero hns))
  have hsign : (Scalar.sign (Real.sin (2 * (thetaQaz delta nu).1)) : ℝ) = 1 := by
    unfold Scalar.sign
    rw [if_neg (by rw [hns]; simp)]
    have : Scalar.lt (Scalar.zero : ℝ) (Real.sin (2 * (thetaQaz delta nu).1)) = true := by simp [hpos]
    rw [if_pos this]; simp
  have hx : (C11.kfHat delta nu).x = Real.sin delta := by
    simp [C11.kfHat, Gen.rot_NU, Gen.rot_DELTA, Gen.x_rotation, Gen.z_rotation, M3.mulVec, M3.mul]
  have hz : (C11.kfHat delta nu).z = Real.cos delta * Real.sin nu := by
    simp [C11.kfHat, Gen.rot_NU, Gen.rot_DELTA, Gen.x_rotation, Gen.z_rotation, M3.mulVec, M3.mul]; ring
  rw [hx, hz]
  have : (thetaQaz delta nu).2 = atan2R (Scalar.sign (Real.sin (2 * (thetaQaz delta nu).1)) * Real.sin delta)
      (Scalar.sign (Real.sin (2 * (thetaQaz delta nu).1)) * Real.cos delta * Real.sin nu) := by
    simp [thetaQaz]
  rw [this, hsign]; simp

/-- non-vacuity: scaling the reference vector by 2 is a scaling by a positive factor -/
example (ub : UBIn ℝ) (p : Pos ℝ) : virtualAngles { ub with n_phi := V3.smul 2 ub.n_phi } p = virtualAngles ub p :=
  virtualAngles_scale_ref ub 2 (by norm_num) p
end
end C05
