import DiffcalcProofs.Props.C03Assembly2
import DiffcalcProofs.Props.C03Sample4
/-!
# C03 — completeness assembled end to end: detector (or naz) + reference + one sample angle (112 mode shapes)

Geometry first: `_calc_N` is the right-handed triad of its two (normalised) arguments (`calcN_triadMat`), the triad construction commutes with
rotations (`triadMat_rot`), hence for a position `P` with sample rotation `Z`: `Z · N_phi = N_lab(P)`, the triad of `P`'s own laboratory
scattering direction and laboratory reference direction — the full orientation equation the single-sample branches solve.  The azimuths of
those two directions differ by `± acos((cos τ − sin α sin θ) / (cos α cos θ))` (`naz_qaz_relation`: a rotation preserves the angle τ between
them), which is the pair `_calc_detector_con_det_or_naz` enumerates.
-/
namespace C03
open M3 Solver Scalar PyOps C01
noncomputable section

/-- the triad construction commutes with proper rotations -/
theorem triadMat_rot {R : M3 ℝ} (hR : IsRot R) (a b : V3 ℝ) :
    C07.triadMat (M3.mulVec R a) (M3.mulVec R b) = M3.mul R (C07.triadMat a b) := by
  unfold C07.triadMat
  rw [C07.cross_rot hR a b, C07.cross_rot hR (V3.cross a b) a, C07.unit_rot hR, C07.unit_rot hR, C07.unit_rot hR, C07.ofCols_mul]

/-- `_calc_N` on its generic branch is the triad of the two normalised vectors -/
theorem calcN_triadMat (Q0 n0 : V3 ℝ) (N : M3 ℝ) (hQ : 0 < V3.norm Q0) (hn : 0 < V3.norm n0)
    (hx : (1e-7 : ℝ) < V3.norm (V3.cross (V3.unit Q0) (V3.unit n0)))
    (h : calcN Q0 n0 = .ok N) : N = C07.triadMat (V3.unit Q0) (V3.unit n0) := by
  unfold calcN at h
  simp only [normalised_eq_unit Q0 hQ, normalised_eq_unit n0 hn] at h
  set Q := V3.unit Q0 with hQdef
  set n := V3.unit n0 with hndef
  have hQ1 : V3.norm Q = 1 := V3.norm_unit Q0 hQ
  have hn1 : V3.norm n = 1 := V3.norm_unit n0 hn
  have hQd := C20.dot_self_of_norm_one Q hQ1
  have hnd := C20.dot_self_of_norm_one n hn1
  obtain ⟨ang, hang, h⟩ := bind_ok_inv h
  have hc : V3.dot (V3.smul (1 / V3.norm Q) Q) (V3.smul (1 / V3.norm n) n) = V3.dot Q n := by
    rw [hQ1, hn1]; simp only [V3.dot, V3.smul]; ring
  have habs : |V3.dot Q n| ≤ 1 := by have := C11.abs_cos_between Q n; rwa [hc] at this
  have hangv : ang = Scalar.toDeg (Real.arccos (V3.dot Q n)) := by
    unfold angleBetween at hang
    simp only [rs_one, hc] at hang
    obtain ⟨a, ha, hp⟩ := bind_ok_inv hang
    obtain ⟨hav, _⟩ := boundAcos_ok habs ha
    simp only [pure, Except.pure, Except.ok.injEq] at hp
    rw [← hp, hav]
  have hlag := C20.lagrange Q n
  rw [hQd, hnd] at hlag
  have hnsq := C07.norm_sq (V3.cross Q n)
  have hsin : Real.sin (Scalar.toRad ang) = V3.norm (V3.cross Q n) := by
    rw [hangv, toRad_toDeg', Real.sin_arccos]
    have : 1 - V3.dot Q n ^ 2 = V3.norm (V3.cross Q n) * V3.norm (V3.cross Q n) := by rw [hnsq, hlag]; ring
    rw [this, Real.sqrt_mul_self (V3.norm_nonneg _)]
  have hnot : Scalar.isSmall (Scalar.sin (Scalar.toRad ang)) = false := by
    rw [rs_sin, hsin, isSmall_real]
    simp only [decide_eq_false_iff_not, not_le]
    rw [abs_of_nonneg (V3.norm_nonneg _)]; exact hx
  simp only [hnot, Bool.false_eq_true, if_false, pure, Except.pure, Except.ok.injEq] at h
  have p3 : 0 < V3.norm (V3.cross Q n) := lt_trans (by norm_num) hx
  have p2 : 0 < V3.norm (V3.cross (V3.cross Q n) Q) := by
    have hl := C20.lagrange (V3.cross Q n) Q
    have hperp : V3.dot (V3.cross Q n) Q = 0 := C20.dot_cross_left_self Q n
    rw [hQd, hperp] at hl
    have h2 := C07.norm_sq (V3.cross (V3.cross Q n) Q)
    have : V3.norm (V3.cross (V3.cross Q n) Q) * V3.norm (V3.cross (V3.cross Q n) Q) = V3.norm (V3.cross Q n) * V3.norm (V3.cross Q n) := by
      rw [h2, hl, hnsq]; ring
    have hnn := V3.norm_nonneg (V3.cross (V3.cross Q n) Q)
    rcases hnn.lt_or_eq with hlt | heq
    · exact hlt
    · rw [← heq] at this; nlinarith [mul_pos p3 p3]
  rw [← h, normalised_eq_unit _ p2, normalised_eq_unit _ p3]
  unfold C07.triadMat
  rw [unit_of_norm_one Q hQ1]

theorem dot_rot (r : M3 ℝ) (hr : IsRot r) (u v : V3 ℝ) : V3.dot (M3.mulVec r u) (M3.mulVec r v) = V3.dot u v := by
  have h := hr.1
  have h00 := congrArg M3.a00 h; have h01 := congrArg M3.a01 h; have h02 := congrArg M3.a02 h
  have h11 := congrArg M3.a11 h; have h12 := congrArg M3.a12 h; have h22 := congrArg M3.a22 h
  simp only [M3.mul, M3.transpose, M3.id, rs_one, rs_zero] at h00 h01 h02 h11 h12 h22
  simp only [V3.dot, M3.mulVec]
  linear_combination (u.x*v.x) * h00 + (u.x*v.y + u.y*v.x) * h01 + (u.x*v.z + u.z*v.x) * h02 + (u.y*v.y) * h11
    + (u.y*v.z + u.z*v.y) * h12 + (u.z*v.z) * h22

/-- the azimuths of the scattering vector and of the reference vector in the laboratory differ by the angle the detector layer computes -/
theorem naz_qaz_relation (theta q alpha z tau : ℝ) (hdot : V3.dot (qDir theta q) (nLab alpha (some z)) = Real.cos tau)
    (hb : Real.cos alpha * Real.cos theta ≠ 0) :
    Real.cos (z - q) = (Real.cos tau - Real.sin alpha * Real.sin theta) / (Real.cos alpha * Real.cos theta) := by
  simp only [V3.dot, qDir, nLab] at hdot
  rw [Real.cos_sub, eq_div_iff hb]
  linear_combination hdot

theorem norm_nLab (alpha z : ℝ) : V3.norm (nLab alpha (some z)) = 1 := by
  unfold V3.norm V3.normSq V3.dot nLab
  simp only [rs_sqrt]
  have h1 := Real.sin_sq_add_cos_sq alpha
  have h2 := Real.sin_sq_add_cos_sq z
  have : Real.cos alpha * Real.sin z * (Real.cos alpha * Real.sin z) + -Real.sin alpha * -Real.sin alpha
      + Real.cos alpha * Real.cos z * (Real.cos alpha * Real.cos z) = 1 := by nlinarith [h1, h2]
  rw [this, Real.sqrt_one]

theorem nLab_congr (alpha z z' : ℝ) (h : SameAngle z z') : nLab alpha (some z) = nLab alpha (some z') := by
  simp only [nLab, h.1, h.2]

theorem qDir_congr (theta q q' : ℝ) (h : SameAngle q q') : qDir theta q = qDir theta q' := by
  simp only [qDir, h.1, h.2]

/-- a root pair `x ± a` around a centre: every angle whose cosine distance from the centre is `cos a` is one of them -/
theorem pm_roots (z c a : ℝ) (ha0 : 0 ≤ a) (hapi : a ≤ Real.pi) (h : Real.cos (z - c) = Real.cos a) :
    SameAngle z (c - a) ∨ SameAngle z (c + a) := by
  have habs : |Real.cos a| ≤ 1 := Real.abs_cos_le_one a
  have hac : Real.arccos (Real.cos a) = a := Real.arccos_cos ha0 hapi
  rcases acos_roots_complete (z - c) (Real.cos a) habs h with h1 | h1
  · right
    have := sameAngle_add _ _ c h1
    rw [sub_add_cancel, hac, add_comm] at this; exact this
  · left
    have := sameAngle_add _ _ c h1
    rw [sub_add_cancel, hac] at this
    have e : -a + c = c - a := by ring
    rwa [e] at this

/-- the angle `_calc_angle_between_naz_and_qaz` delivers on its generic branch -/
def nazQaz (theta alpha tau : ℝ) : ℝ :=
  Real.arccos ((Real.cos tau - Real.sin alpha * Real.sin theta) / (Real.cos alpha * Real.cos theta))

theorem nazQazAngle_generic (theta alpha tau : ℝ) (hb : Scalar.isSmall (Real.cos alpha * Real.cos theta) = false)
    (hst : Scalar.isSmall (Real.sin tau) = false)
    (habs : |(Real.cos tau - Real.sin alpha * Real.sin theta) / (Real.cos alpha * Real.cos theta)| ≤ 1) :
    nazQazAngle theta alpha (some tau) = .ok (some (nazQaz theta alpha tau)) := by
  unfold nazQazAngle nazQaz boundAcos
  simp only [rs_cos, rs_sin, hb, hst, Bool.false_and, Bool.false_eq_true, if_false]
  rw [bound_id habs]
  simp only [bind, Except.bind, pyAcos_ok habs, pure, Except.pure]

/-- **completeness of `_calc_detector_con_det_or_naz`**: the detector position and the two azimuths of `P` are among the tuples it yields -/
theorem detOrNaz_complete (det : Option (DetCon ℝ)) (naz : Option ℝ) (theta alpha tau : ℝ) (delta nu zP : ℝ)
    (hD : DetSpec delta nu (qazOf delta nu) theta)
    (hrel : Real.cos (zP - qazOf delta nu) = (Real.cos tau - Real.sin alpha * Real.sin theta) / (Real.cos alpha * Real.cos theta))
    (hb : Scalar.isSmall (Real.cos alpha * Real.cos theta) = false) (hst : Scalar.isSmall (Real.sin tau) = false)
    (hsa : Scalar.isSmall (nazQaz theta alpha tau) = false)
    (hcarry : match det, naz with
      | some d, _ => DetCarries d delta nu ∧ DetRegular d delta nu theta
      | none, some v => SameAngle zP v ∧ Scalar.isSmall (Real.cos delta) = false
      | none, none => False) :
    ∃ ds, detOrNaz det naz theta (some tau) alpha = .ok ds ∧
      ∃ x ∈ ds, SameAngle x.1 (qazOf delta nu) ∧ (∃ z', x.2.1 = some z' ∧ SameAngle z' zP) ∧ SameAngle x.2.2.1 delta ∧ SameAngle x.2.2.2 nu := by
  have habs : |(Real.cos tau - Real.sin alpha * Real.sin theta) / (Real.cos alpha * Real.cos theta)| ≤ 1 := by
    rw [← hrel]; exact Real.abs_cos_le_one _
  have hnq := nazQazAngle_generic theta alpha tau hb hst habs
  set a := nazQaz theta alpha tau with hadef
  have ha0 : 0 ≤ a := Real.arccos_nonneg _
  have hapi : a ≤ Real.pi := Real.arccos_le_pi _
  have hcosa : Real.cos a = (Real.cos tau - Real.sin alpha * Real.sin theta) / (Real.cos alpha * Real.cos theta) := by
    rw [hadef, nazQaz, Real.cos_arccos (abs_le.mp habs).1 (abs_le.mp habs).2]
  unfold detOrNaz tryAssert
  cases det with
  | some d =>
    simp only [] at hcarry
    obtain ⟨hdc, hdr⟩ := hcarry
    obtain ⟨trip, htrip, t, ht, t1, t2, t3⟩ := detRemaining_complete d delta nu theta hD hdc hdr
    simp only [Option.isNone_some, Bool.false_and, Bool.false_eq_true, if_false, hnq, bind, Except.bind, htrip, pure, Except.pure, hsa]
    refine ⟨_, rfl, ?_⟩
    -- zP ≡ t.2.2 ± a
    have hrel' : Real.cos (zP - t.2.2) = Real.cos a := by
      rw [hcosa, ← hrel, Real.cos_sub, Real.cos_sub, t3.1, t3.2]
    rcases pm_roots zP t.2.2 a ha0 hapi hrel' with hz | hz
    · refine ⟨(t.2.2, some (t.2.2 - a), t.1, t.2.1), ?_, t3, ⟨_, rfl, sameAngle_symm hz⟩, t1, t2⟩
      apply List.mem_flatMap.mpr
      refine ⟨t, ht, ?_⟩
      simp
    · refine ⟨(t.2.2, some (t.2.2 + a), t.1, t.2.1), ?_, t3, ⟨_, rfl, sameAngle_symm hz⟩, t1, t2⟩
      apply List.mem_flatMap.mpr
      refine ⟨t, ht, ?_⟩
      simp
  | none =>
    cases naz with
    | none => simp only [] at hcarry
    | some v =>
      simp only [] at hcarry
      obtain ⟨hzv, hcd⟩ := hcarry
      simp only [Option.isNone_none, Option.isNone_some, Bool.and_false, Bool.false_eq_true, if_false, hnq, hsa]
      refine ⟨_, rfl, ?_⟩
      -- qazOf ≡ v ∓ a
      have hrel' : Real.cos (qazOf delta nu - v) = Real.cos a := by
        rw [hcosa, ← hrel, Real.cos_sub, Real.cos_sub, hzv.1, hzv.2]; ring
      rcases pm_roots (qazOf delta nu) v a ha0 hapi hrel' with hq | hq
      · have hDq : DetSpec delta nu (v - a) theta := detSpec_congr _ _ _ _ _ hq hD
        obtain ⟨d, hd, d1, d2, d3⟩ := detFromQaz_complete delta nu (v - a) theta hDq hcd
        refine ⟨(v - a, some v, d.1, d.2.1), ?_, sameAngle_symm hq, ⟨_, rfl, sameAngle_symm hzv⟩, d1, d2⟩
        apply List.mem_flatMap.mpr
        refine ⟨v - a, by simp, ?_⟩
        exact List.mem_map.mpr ⟨d, hd, rfl⟩
      · have hDq : DetSpec delta nu (v + a) theta := detSpec_congr _ _ _ _ _ hq hD
        obtain ⟨d, hd, d1, d2, d3⟩ := detFromQaz_complete delta nu (v + a) theta hDq hcd
        refine ⟨(v + a, some v, d.1, d.2.1), ?_, sameAngle_symm hq, ⟨_, rfl, sameAngle_symm hzv⟩, d1, d2⟩
        apply List.mem_flatMap.mpr
        refine ⟨v + a, by simp, ?_⟩
        exact List.mem_map.mpr ⟨d, hd, rfl⟩

/-- `angle_between_vectors`, read back in radians: the cosine is the dot product of the two directions -/
theorem angleBetween_cos (x y : V3 ℝ) (t : ℝ) (h : angleBetween x y = .ok t) :
    Real.cos (Scalar.toRad t) = V3.dot (V3.unit x) (V3.unit y) := by
  have habs := C11.abs_cos_between x y
  unfold angleBetween at h
  simp only [rs_one] at h
  obtain ⟨a, ha, hp⟩ := bind_ok_inv h
  obtain ⟨hav, hcos⟩ := boundAcos_ok habs ha
  simp only [pure, Except.pure, Except.ok.injEq] at hp
  rw [← hp, toRad_toDeg', hcos]
  simp only [V3.dot, V3.smul, V3.unit]; ring

/-- what `__calc_nphi_alpha_tau` hands on: one of the calculator's two vectors together with the angle it makes with the scattering vector -/
theorem nphiAlphaTau_tau (ub : UBIn ℝ) (ref : RefCon ℝ) (h : V3 ℝ) (theta : ℝ) (n : V3 ℝ) (alpha tau : ℝ)
    (hnat : nphiAlphaTau ub ref h theta = .ok (n, alpha, tau)) :
    Real.cos tau = V3.dot (V3.unit h) (V3.unit n) := by
  unfold nphiAlphaTau at hnat
  obtain ⟨t1, ht1, hnat⟩ := bind_ok_inv hnat
  obtain ⟨t2, ht2, hnat⟩ := bind_ok_inv hnat
  have c1 := angleBetween_cos h ub.n_phi t1 ht1
  have c2 := angleBetween_cos h ub.surf_nphi t2 ht2
  simp only [] at hnat
  repeat' split at hnat
  all_goals first
    | cases hnat
    | (obtain ⟨a, _, hp⟩ := bind_ok_inv hnat
       simp only [pure, Except.pure, Except.ok.injEq, Prod.mk.injEq] at hp
       obtain ⟨rfl, _, rfl⟩ := hp
       first | exact c1 | exact c2)

/-- the body of the loop over the detector tuples in the single-sample branch of `_calc_det_sample_reference` -/
def detBody (s : Samp1 ℝ) (theta alpha : ℝ) (N : M3 ℝ) (x : ℝ × Option ℝ × ℝ × ℝ) : Py (List (Sol ℝ)) :=
  match remainingSample s theta alpha x.1 x.2.1 N with
  | .error e => .error e
  | .ok ss => .ok (ss.map fun t => (t.1, x.2.2.1, x.2.2.2, t.2.1, t.2.2.1, t.2.2.2))

/-- **detector (or naz) + reference + one sample angle: completeness end to end** (112 mode shapes).  A position `P` whose forward model is
    the requested `hkl`, which honours the detector (or naz) constraint, whose laboratory reference direction `Z·n̂` has the elevation `alpha`
    the reference layer derived from the reference constraint (and some azimuth `zP`), and which carries the sample value, is among the
    candidates of `__calc_hkl_to_position`, every angle modulo 2π (`tau` is the angle between scattering and reference vector: `nphiAlphaTau_tau`).
    Side conditions: generic branch of each layer at `P`, and no sibling detector tuple makes the sample layer raise. -/
theorem detRefSamp_complete (ub : UBIn ℝ) (U : M3 ℝ) (hU : IsRot U) (hUB : ub.UB = M3.mul U ub.B) (hB : M3.det ub.B ≠ 0)
    (det : Option (DetCon ℝ)) (naz : Option ℝ) (ref : RefCon ℝ) (s : Samp1 ℝ) (hkl : V3 ℝ) (wl : ℝ) (hwl : 0 < wl)
    (hne : 0 < V3.norm (M3.mulVec ub.B hkl))
    (mu delta nu eta chi phi : ℝ)
    (hf : C04.fwd ub.UB mu delta nu eta chi phi wl = hkl)
    (hs : |Real.cos delta * Real.cos nu| < 1)
    (n : V3 ℝ) (alpha tau : ℝ)
    (hnat : nphiAlphaTau ub ref (M3.mulVec ub.UB hkl) (thetaOf delta nu) = .ok (n, alpha, tau))
    (hn : 0 < V3.norm n) (hx : (1e-7 : ℝ) < V3.norm (V3.cross (V3.unit (M3.mulVec ub.UB hkl)) (V3.unit n)))
    (zP : ℝ) (hnl : M3.mulVec (C04.Z mu eta chi phi) (V3.unit n) = nLab alpha (some zP))
    (hb : Scalar.isSmall (Real.cos alpha * Real.cos (thetaOf delta nu)) = false) (hst : Scalar.isSmall (Real.sin tau) = false)
    (hsa : Scalar.isSmall (nazQaz (thetaOf delta nu) alpha tau) = false)
    (hcarry : match det, naz with
      | some d, _ => DetCarries d delta nu ∧ DetRegular d delta nu (thetaOf delta nu)
      | none, some v => SameAngle zP v ∧ Scalar.isSmall (Real.cos delta) = false
      | none, none => False)
    (hgen : Samp1CompleteGeneric s (mu, eta, chi, phi))
    (hsib : ∀ N, calcN (M3.mulVec ub.UB hkl) n = .ok N → ∀ ds, detOrNaz det naz (thetaOf delta nu) (some tau) alpha = .ok ds →
      ∀ x ∈ ds, ∃ ys, remainingSample s (thetaOf delta nu) alpha x.1 x.2.1 N = .ok ys) :
    ∃ l, candidates ub (.detRefSamp det naz ref s) hkl wl = .ok l ∧ ∃ sol ∈ l, SamePosition sol mu delta nu eta chi phi := by
  have hpi := Real.pi_pos
  have htau := nphiAlphaTau_tau ub ref _ _ n alpha tau hnat
  set h := M3.mulVec ub.UB hkl with hhdef
  have hnUB : V3.norm h = V3.norm (M3.mulVec ub.B hkl) := by rw [hhdef, hUB]; exact norm_UB U ub.B hU hkl
  have hnUBpos : 0 < V3.norm h := by rw [hnUB]; exact hne
  have hdetUB : M3.det ub.UB ≠ 0 := by rw [hUB, M3.det_mul, hU.2, one_mul]; exact hB
  obtain ⟨hD, hlo, hhi⟩ := detSpec_of_position delta nu hs
  have hbragg := bragg_of_fwd ub.UB hdetUB mu delta nu eta chi phi wl hwl hkl hf hs
  rw [← hhdef, hnUB] at hbragg
  have hreach : wl * V3.norm (M3.mulVec ub.B hkl) / (4 * Real.pi) ≤ 1 := by rw [hbragg]; exact Real.sin_le_one _
  have hth : Real.arcsin (wl * V3.norm (M3.mulVec ub.B hkl) / (4 * Real.pi)) = (thetaOf delta nu) := by
    rw [hbragg]; exact Real.arcsin_sin (by linarith) (by linarith)
  have hZrot := C04.isRot_Z mu eta chi phi
  set Z := C04.Z mu eta chi phi with hZdef
  -- the phi-frame triad
  obtain ⟨N, hN⟩ := C11.calcN_total h n
  obtain ⟨hNrot, hNcol⟩ := calcN_generic _ _ N hnUBpos hn hx hN
  have hNtri := calcN_triadMat h n N hnUBpos hn hx hN
  -- P's laboratory scattering direction
  have hZq := decomposition ub.UB hdetUB mu delta nu eta chi phi wl hkl hf
  rw [qLab_of_DetSpec delta nu _ _ wl hD, ← hhdef, ← hZdef] at hZq
  have hsp : 0 < Real.sin (thetaOf delta nu) := Real.sin_pos_of_pos_of_lt_pi hlo (by linarith)
  have hqhat : M3.mulVec Z (V3.unit h) = qDir (thetaOf delta nu) (qazOf delta nu) := by
    rw [V3.unit_eq_smul _ hnUBpos, M3.mulVec_smul, hZq, hnUB]
    have hnorm : V3.norm (M3.mulVec ub.B hkl) = 2 * (2 * Real.pi / wl) * Real.sin (thetaOf delta nu) := by
      rw [← hbragg]; field_simp; ring
    rw [hnorm]
    ext <;> simp only [V3.smul] <;> field_simp
  -- the relation between the two azimuths
  have hdot : V3.dot (qDir (thetaOf delta nu) (qazOf delta nu)) (nLab alpha (some zP)) = Real.cos tau := by
    rw [← hqhat, ← hnl, dot_rot Z hZrot, htau]
  have hbne : Real.cos alpha * Real.cos (thetaOf delta nu) ≠ 0 := not_small_ne_zero hb
  have hrel := naz_qaz_relation (thetaOf delta nu) (qazOf delta nu) alpha zP tau hdot hbne
  obtain ⟨ds, hds, x, hxm, x1, ⟨z', hz', hzs⟩, x3, x4⟩ :=
    detOrNaz_complete det naz (thetaOf delta nu) alpha tau delta nu zP hD hrel hb hst hsa hcarry
  -- the laboratory triad of P, and the one the solver builds for the tuple x
  have hvq : qDir (thetaOf delta nu) x.1 = qDir (thetaOf delta nu) (qazOf delta nu) := qDir_congr _ _ _ x1
  have hvn : nLab alpha x.2.1 = nLab alpha (some zP) := by rw [hz']; exact nLab_congr _ _ _ hzs
  have hq1 := norm_qDir (thetaOf delta nu) (qazOf delta nu)
  have hn1 := norm_nLab alpha zP
  have hxl : (1e-7 : ℝ) < V3.norm (V3.cross (V3.unit (qDir (thetaOf delta nu) (qazOf delta nu))) (V3.unit (nLab alpha (some zP)))) := by
    rw [unit_of_norm_one _ hq1, unit_of_norm_one _ hn1, ← hqhat, ← hnl, C07.cross_rot hZrot, C08.norm_rot Z hZrot]; exact hx
  obtain ⟨Nl, hNl⟩ := C11.calcN_total (qDir (thetaOf delta nu) (qazOf delta nu)) (nLab alpha (some zP))
  have hNlrot := (calcN_generic _ _ Nl (by rw [hq1]; norm_num) (by rw [hn1]; norm_num) hxl hNl).1
  have hNltri := calcN_triadMat _ _ Nl (by rw [hq1]; norm_num) (by rw [hn1]; norm_num) hxl hNl
  rw [unit_of_norm_one _ hq1, unit_of_norm_one _ hn1] at hNltri
  have hF : FullSpec Nl N (mu, eta, chi, phi) := by
    unfold FullSpec
    simp only []
    rw [← hZdef, hNtri, ← triadMat_rot hZrot, hqhat, hnl, hNltri]
  have hNl' : calcN (qDir (thetaOf delta nu) x.1) (nLab alpha x.2.1) = .ok Nl := by rw [hvq, hvn]; exact hNl
  obtain ⟨ls, hls, t, ht, hsame⟩ := remainingSample_complete s (thetaOf delta nu) alpha x.1 x.2.1 N Nl hNlrot hNrot hNl' (mu, eta, chi, phi) hF hgen
  -- unfold the pipeline
  unfold candidates
  rw [ttheta_eq ub.B hB hkl wl hwl hne hreach]
  simp only [bind, Except.bind, rs_two]
  have hhalf : 2 * Real.arcsin (wl * V3.norm (M3.mulVec ub.B hkl) / (4 * Real.pi)) / 2 = (thetaOf delta nu) := by rw [hth]; ring
  rw [hhalf, ← hhdef, hnat]
  simp only []
  unfold detSampleReference
  simp only [bind, Except.bind, hN, hds]
  have hall : ∀ y ∈ ds, ∃ ys, detBody s (thetaOf delta nu) alpha N y = .ok ys := by
    intro y hy
    obtain ⟨ys, hys⟩ := hsib N hN ds hds y hy
    exact ⟨_, by unfold detBody; rw [hys]⟩
  obtain ⟨l, hl, hmem⟩ := forM'_ok_of_all ds (detBody s (thetaOf delta nu) alpha N) hall
  refine ⟨l, ?_, (t.1, x.2.2.1, x.2.2.2, t.2.1, t.2.2.1, t.2.2.2), ?_, hsame.1, x3, x4, hsame.2.1, hsame.2.2.1, hsame.2.2.2⟩
  · rw [← hl]; congr 1; funext y; unfold detBody
    cases remainingSample s (thetaOf delta nu) alpha y.1 y.2.1 N <;> rfl
  · apply hmem x hxm (ls.map fun t => (t.1, x.2.2.1, x.2.2.2, t.2.1, t.2.2.1, t.2.2.2))
    · unfold detBody; rw [hls]
    · exact List.mem_map.mpr ⟨t, ht, rfl⟩

end
end C03
