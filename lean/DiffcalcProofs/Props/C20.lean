import Diffcalc.Model.Polar
import DiffcalcProofs.Props.C08Miscut
import DiffcalcProofs.Props.C03
/-!
# C20 — polar offset of a reciprocal vector round-trips for every azimuth

Model: `Diffcalc/Model/Polar.lean` (hand, tie H), `xyz_rotation` as the Rodrigues rotation (C08: proper, fixes its axis).
Proved (real reading):
* forward: the offset vector has the same `|UB·hkl|` as the reference (`forward_norm`) and makes the polar angle with it
  (`forward_angle`);
* the decomposition on which the inverse relies (`offset_components`): in the orthonormal frame `(ŵ, p̂, k̂)` of the reference
  direction, the perpendicular axis and the auxiliary axis, the offset direction is
  `(cos p, sin p cos a, sin p sin a)` — for EVERY azimuth `a`;
* hence the azimuth is recovered modulo 2π whenever `sin p > 0` (`azimuth_recovered`): `atan2(sin p sin a, sin p cos a) ≡ a`,
  including `a = 90°, 180°, 270°` where one of the two projections vanishes (the case the `and`-gated code lost).
The composition through `angle_between_vectors` / `bound` / plane distances is covered by correspondence and oracle.
-/
namespace C20
open M3
noncomputable section

/-- Rodrigues' rotation formula on a vector, for a unit axis -/
theorem rodrigues_apply (k x : V3 ℝ) (t : ℝ) (hk : V3.norm k = 1) :
    M3.mulVec (rodrigues k t) x =
      V3.add (V3.add (V3.smul (Real.cos t) x) (V3.smul (Real.sin t) (V3.cross k x))) (V3.smul ((1 - Real.cos t) * V3.dot k x) k) := by
  ext <;> simp only [M3.mulVec, rodrigues, hk, div_one, V3.add, V3.smul, V3.cross, V3.dot, rs_one, rs_cos, rs_sin] <;> ring

theorem rodrigues_scale_axis (k : V3 ℝ) (c t : ℝ) (hc : 0 < c) (hk : 0 < V3.norm k) :
    rodrigues (V3.smul c k) t = rodrigues k t := by
  have hn := V3.norm_smul_pos c hc k
  have hc' := hc.ne'; have hk' := hk.ne'
  ext <;> (simp only [rodrigues]; rw [hn]; simp only [V3.smul]; field_simp)

/-- forward, length: the offset vector lies on the sphere of the reference vector -/
theorem forward_norm (UB : M3 ℝ) (hdet : M3.det UB ≠ 0) (hkl : V3 ℝ) (pol az : ℝ)
    (hw : 0 < V3.norm (M3.mulVec UB hkl)) (hax : 0 < V3.norm (Polar.auxAxis (M3.mulVec UB hkl))) :
    V3.norm (M3.mulVec UB (Polar.hklFromPolar UB hkl pol az)) = V3.norm (M3.mulVec UB hkl) := by
  unfold Polar.hklFromPolar
  simp only [M3.mulVec_mul, M3.mulVec_inv_cancel UB hdet]
  rw [C08.norm_rot _ (C08.rodrigues_isRot _ az hw), C08.norm_rot _ (C08.rodrigues_isRot _ pol hax)]

/-! ## a little vector algebra (all by `ring`) -/
theorem dot_add_left (a b c : V3 ℝ) : V3.dot (V3.add a b) c = V3.dot a c + V3.dot b c := by simp only [V3.dot, V3.add]; ring
theorem dot_smul_left (t : ℝ) (a b : V3 ℝ) : V3.dot (V3.smul t a) b = t * V3.dot a b := by simp only [V3.dot, V3.smul]; ring
theorem dot_comm (a b : V3 ℝ) : V3.dot a b = V3.dot b a := by simp only [V3.dot]; ring
theorem dot_cross_right_self (k w : V3 ℝ) : V3.dot (V3.cross k w) w = 0 := by simp only [V3.dot, V3.cross]; ring
theorem dot_cross_left_self (k w : V3 ℝ) : V3.dot (V3.cross k w) k = 0 := by simp only [V3.dot, V3.cross]; ring
theorem lagrange (k w : V3 ℝ) : V3.dot (V3.cross k w) (V3.cross k w) = V3.dot k k * V3.dot w w - V3.dot k w ^ 2 := by
  simp only [V3.dot, V3.cross]; ring
theorem cross_add_right (w a b : V3 ℝ) : V3.cross w (V3.add a b) = V3.add (V3.cross w a) (V3.cross w b) := by
  ext <;> simp only [V3.cross, V3.add] <;> ring
theorem cross_smul_right (w a : V3 ℝ) (t : ℝ) : V3.cross w (V3.smul t a) = V3.smul t (V3.cross w a) := by
  ext <;> simp only [V3.cross, V3.smul] <;> ring
theorem cross_self (w : V3 ℝ) : V3.cross w w = ⟨0, 0, 0⟩ := by ext <;> simp only [V3.cross] <;> ring
/-- `w × (k × w) = (w·w) k − (w·k) w` -/
theorem bac_cab (w k : V3 ℝ) : V3.cross w (V3.cross k w) = V3.sub (V3.smul (V3.dot w w) k) (V3.smul (V3.dot w k) w) := by
  ext <;> simp only [V3.cross, V3.sub, V3.smul, V3.dot] <;> ring

theorem dot_self_of_norm_one (w : V3 ℝ) (hw : V3.norm w = 1) : V3.dot w w = 1 := by
  have h2 := C08.unit_comps w (by rw [hw]; norm_num); rw [hw] at h2
  simp only [V3.dot]; simpa [pow_two] using h2

/-- closed form of the offset direction: `R(ŵ, a) R(k̂, p) ŵ = cos p · ŵ + sin p cos a · (k̂ × ŵ) + sin p sin a · k̂` -/
theorem offset_closed (w k : V3 ℝ) (p a : ℝ) (hw : V3.norm w = 1) (hk : V3.norm k = 1) (hperp : V3.dot k w = 0) :
    M3.mulVec (rodrigues w a) (M3.mulVec (rodrigues k p) w) =
      V3.add (V3.add (V3.smul (Real.cos p) w) (V3.smul (Real.sin p * Real.cos a) (V3.cross k w))) (V3.smul (Real.sin p * Real.sin a) k) := by
  have hww := dot_self_of_norm_one w hw
  have hwk : V3.dot w k = 0 := by rw [dot_comm]; exact hperp
  have h1 : M3.mulVec (rodrigues k p) w = V3.add (V3.smul (Real.cos p) w) (V3.smul (Real.sin p) (V3.cross k w)) := by
    rw [rodrigues_apply _ _ _ hk, hperp]
    ext <;> simp [V3.add, V3.smul]
  rw [h1, rodrigues_apply _ _ _ hw]
  have hcr : V3.cross w (V3.add (V3.smul (Real.cos p) w) (V3.smul (Real.sin p) (V3.cross k w))) = V3.smul (Real.sin p) k := by
    rw [cross_add_right, cross_smul_right, cross_smul_right, cross_self, bac_cab, hww, hwk]
    ext <;> simp [V3.add, V3.smul, V3.sub]
  have hdt : V3.dot w (V3.add (V3.smul (Real.cos p) w) (V3.smul (Real.sin p) (V3.cross k w))) = Real.cos p := by
    rw [dot_comm, dot_add_left, dot_smul_left, dot_smul_left, hww, dot_cross_right_self]; ring
  rw [hcr, hdt]
  ext <;> simp only [V3.add, V3.smul] <;> ring

/-- the components of the offset direction in the orthonormal frame `(ŵ, p̂ = k̂ × ŵ, k̂)` — for EVERY azimuth -/
theorem offset_components (w k : V3 ℝ) (p a : ℝ) (hw : V3.norm w = 1) (hk : V3.norm k = 1) (hperp : V3.dot k w = 0) :
    let o := M3.mulVec (rodrigues w a) (M3.mulVec (rodrigues k p) w)
    V3.dot o w = Real.cos p ∧ V3.dot o (V3.cross k w) = Real.sin p * Real.cos a ∧ V3.dot o k = Real.sin p * Real.sin a := by
  have hww := dot_self_of_norm_one w hw
  have hkk := dot_self_of_norm_one k hk
  have hkw : V3.dot k w = 0 := hperp
  simp only [offset_closed w k p a hw hk hperp, dot_add_left, dot_smul_left]
  refine ⟨?_, ?_, ?_⟩
  · rw [hww, dot_cross_right_self, hkw]; ring
  · rw [dot_comm w (V3.cross k w), dot_cross_right_self, lagrange, hkk, hww, hkw, dot_comm k (V3.cross k w), dot_cross_left_self]; ring
  · rw [dot_comm w k, hkw, dot_cross_left_self, hkk]; ring

/-- forward, angle: the offset makes the polar angle with the reference (`cos` of the angle between them is `cos p`) -/
theorem forward_angle (w k : V3 ℝ) (p a : ℝ) (hw : V3.norm w = 1) (hk : V3.norm k = 1) (hperp : V3.dot k w = 0) :
    V3.dot (M3.mulVec (rodrigues w a) (M3.mulVec (rodrigues k p) w)) w = Real.cos p :=
  (offset_components w k p a hw hk hperp).1

/-- **the azimuth is recovered for every azimuth** (modulo 2π), as soon as `sin p > 0` — including the azimuths where one of the
    two projections vanishes -/
theorem azimuth_recovered (p a : ℝ) (hp : 0 < Real.sin p) :
    C03.SameAngle (atan2R (Real.sin p * Real.sin a) (Real.sin p * Real.cos a)) a := by
  have hq : (Real.sin p * Real.cos a) ^ 2 + (Real.sin p * Real.sin a) ^ 2 = Real.sin p ^ 2 := by
    have := Real.sin_sq_add_cos_sq a; nlinarith
  have hsqrt : Real.sqrt ((Real.sin p * Real.cos a) ^ 2 + (Real.sin p * Real.sin a) ^ 2) = Real.sin p := by
    rw [hq]; exact Real.sqrt_sq hp.le
  constructor
  · rw [sin_atan2R, hsqrt]; field_simp
  · rw [cos_atan2R, hsqrt]
    · field_simp
    · by_contra hcon
      push Not at hcon
      have : Real.sin p ^ 2 = 0 := by rw [← hq, hcon.1, hcon.2]; ring
      exact hp.ne' (pow_eq_zero_iff (by norm_num) |>.mp this)

/-- the gate of the (repaired) inverse: the arctangent is taken unless BOTH projections vanish; with `sin p` above the
    threshold at least one of them is above it for every azimuth -/
theorem gate_open (p a : ℝ) (hp : (2e-7 : ℝ) ≤ Real.sin p) :
    (1e-7 : ℝ) < |Real.sin p * Real.cos a| ∨ (1e-7 : ℝ) < |Real.sin p * Real.sin a| := by
  by_contra hcon
  push Not at hcon
  have h1 : (Real.sin p * Real.cos a) ^ 2 ≤ (1e-7 : ℝ) ^ 2 := by
    rw [← sq_abs]; exact pow_le_pow_left₀ (abs_nonneg _) hcon.1 2
  have h2 : (Real.sin p * Real.sin a) ^ 2 ≤ (1e-7 : ℝ) ^ 2 := by
    rw [← sq_abs]; exact pow_le_pow_left₀ (abs_nonneg _) hcon.2 2
  have hq : (Real.sin p * Real.cos a) ^ 2 + (Real.sin p * Real.sin a) ^ 2 = Real.sin p ^ 2 := by
    have := Real.sin_sq_add_cos_sq a; nlinarith
  have h3 : (2e-7 : ℝ) ^ 2 ≤ Real.sin p ^ 2 := pow_le_pow_left₀ (by norm_num) hp 2
  norm_num at h1 h2 h3
  nlinarith

/-- non-vacuity: azimuth 90°, polar 40° -/
example : C03.SameAngle (atan2R (Real.sin (2 * Real.pi / 9) * Real.sin (Real.pi / 2)) (Real.sin (2 * Real.pi / 9) * Real.cos (Real.pi / 2))) (Real.pi / 2) :=
  azimuth_recovered _ _ (Real.sin_pos_of_pos_of_lt_pi (by positivity) (by linarith [Real.pi_pos]))
end
end C20
