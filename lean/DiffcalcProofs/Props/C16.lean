import Diffcalc.Model.Frames
import DiffcalcProofs.Lemmas.RealLinalg
/-!
# C16 — reference and surface vectors convert consistently between hkl and lab frames

Model: `Diffcalc/Model/Frames.lean` (hand, tie H: all frame / UB combinations and setter orders against the real
`UBCalculation` properties).  Real-number reading.
-/
namespace C16
open Frames
noncomputable section

variable (s : Frames ℝ)

/-- the value reported in the frame in which a vector was set is the value set — for both vectors,
    with or without a UB matrix, whatever the other vector is -/
theorem same_frame (v : V3 ℝ) :
    (s.set_n_hkl v).n_hkl = some v ∧ (s.set_n_phi v).n_phi = some v ∧
    (s.set_surf_nhkl v).surf_nhkl = some v ∧ (s.set_surf_nphi v).surf_nphi = some v := by
  simp [n_hkl, n_phi, surf_nhkl, surf_nphi, set_n_hkl, set_n_phi, set_surf_nhkl, set_surf_nphi, hklOf, phiOf]

/-- the value in the other frame is the unit vector along `UB·v` (resp. `UB⁻¹·v`) -/
theorem other_frame (v : V3 ℝ) (ub : M3 ℝ) (h : s.UB = some ub) :
    (s.set_n_hkl v).n_phi = some (V3.unit (M3.mulVec ub v)) ∧
    (s.set_n_phi v).n_hkl = some (V3.unit (M3.mulVec (M3.inv ub) v)) ∧
    (s.set_surf_nhkl v).surf_nphi = some (V3.unit (M3.mulVec ub v)) ∧
    (s.set_surf_nphi v).surf_nhkl = some (V3.unit (M3.mulVec (M3.inv ub) v)) := by
  simp [n_hkl, n_phi, surf_nhkl, surf_nphi, set_n_hkl, set_n_phi, set_surf_nhkl, set_surf_nphi, hklOf, phiOf,
    convert, h]

/-- a frame's value is `None` exactly when it needs a UB matrix that does not exist —
    independently for the reference vector and for the surface normal -/
theorem none_iff :
    (s.n_hkl = none ↔ (s.reference.rlv = false ∧ s.UB = none)) ∧
    (s.n_phi = none ↔ (s.reference.rlv = true ∧ s.UB = none)) ∧
    (s.surf_nhkl = none ↔ (s.surface.rlv = false ∧ s.UB = none)) ∧
    (s.surf_nphi = none ↔ (s.surface.rlv = true ∧ s.UB = none)) := by
  refine ⟨?_, ?_, ?_, ?_⟩ <;>
    simp only [n_hkl, n_phi, surf_nhkl, surf_nphi, hklOf, phiOf] <;>
    split <;> simp_all

/-- the reported values of one vector do not depend on the other vector at all -/
theorem independent (r1 r2 : RefVec ℝ) :
    ({ s with surface := r1 } : Frames ℝ).n_hkl = ({ s with surface := r2 } : Frames ℝ).n_hkl ∧
    ({ s with surface := r1 } : Frames ℝ).n_phi = ({ s with surface := r2 } : Frames ℝ).n_phi ∧
    ({ s with reference := r1 } : Frames ℝ).surf_nhkl = ({ s with reference := r2 } : Frames ℝ).surf_nhkl ∧
    ({ s with reference := r1 } : Frames ℝ).surf_nphi = ({ s with reference := r2 } : Frames ℝ).surf_nphi := by
  simp [n_hkl, n_phi, surf_nhkl, surf_nphi]

/-- the two reported values are consistent: the lab-frame value is parallel to `UB ·` the hkl-frame value
    (both are unit vectors along the same direction) -/
theorem frames_consistent (r : RefVec ℝ) (ub : M3 ℝ) (hdet : M3.det ub ≠ 0) (hv : 0 < V3.norm r.v)
    (vh vp : V3 ℝ) (hh : hklOf r (some ub) = some vh) (hp : phiOf r (some ub) = some vp) :
    V3.unit (M3.mulVec ub vh) = V3.unit vp := by
  cases hr : r.rlv with
  | true =>
    simp only [hklOf, phiOf, hr, if_true, Option.map_some, convert, Option.some.injEq] at hh hp
    subst hh hp
    have hpos := M3.mulVec_injective ub hdet r.v hv
    rw [V3.unit_eq_smul (V3.unit (M3.mulVec ub r.v)) (by rw [V3.norm_unit _ hpos]; norm_num), V3.norm_unit _ hpos]
    ext <;> simp [V3.smul]
  | false =>
    simp only [hklOf, phiOf, hr, Bool.false_eq_true, if_false, Option.map_some, convert, Option.some.injEq] at hh hp
    subst hh hp
    have hdi : M3.det (M3.inv ub) ≠ 0 := by
      intro h0
      have := congrArg M3.det (M3.mul_inv_cancel ub hdet)
      rw [M3.det_mul, h0] at this
      simp [M3.det, M3.id] at this
    have hpos := M3.mulVec_injective (M3.inv ub) hdi r.v hv
    rw [V3.unit_eq_smul (M3.mulVec (M3.inv ub) r.v) hpos, M3.mulVec_smul, M3.mulVec_inv_cancel ub hdet]
    exact V3.unit_smul_pos _ (by positivity) r.v hv

/-- reading a vector in the other frame and setting it back keeps its lab-frame direction
    (so, by C05, every pseudo-angle): lab-frame vector read as hkl and set back -/
theorem setback_hkl (v : V3 ℝ) (ub : M3 ℝ) (hdet : M3.det ub ≠ 0) (hv : 0 < V3.norm v) (h : s.UB = some ub)
    (w : V3 ℝ) (hw : (s.set_n_phi v).n_hkl = some w) :
    ((s.set_n_phi v).set_n_hkl w).n_phi = some (V3.unit v) := by
  have ho := (other_frame s v ub h).2.1
  rw [ho] at hw
  cases hw
  have := (other_frame (s.set_n_phi v) (V3.unit (M3.mulVec (M3.inv ub) v)) ub (by simpa [set_n_phi] using h)).1
  rw [this]
  congr 1
  have hc := frames_consistent ⟨v, false⟩ ub hdet hv (V3.unit (M3.mulVec (M3.inv ub) v)) v
    (by simp [hklOf, convert]) (by simp [phiOf])
  exact hc

/-- hkl-frame vector read in the lab frame and set back: the hkl-frame direction is kept -/
theorem setback_phi (v : V3 ℝ) (ub : M3 ℝ) (hdet : M3.det ub ≠ 0) (hv : 0 < V3.norm v) (h : s.UB = some ub)
    (w : V3 ℝ) (hw : (s.set_n_hkl v).n_phi = some w) :
    ((s.set_n_hkl v).set_n_phi w).n_hkl = some (V3.unit v) := by
  have ho := (other_frame s v ub h).1
  rw [ho] at hw
  cases hw
  have := (other_frame (s.set_n_hkl v) (V3.unit (M3.mulVec ub v)) ub (by simpa [set_n_hkl] using h)).2.1
  rw [this]
  congr 1
  have hpos := M3.mulVec_injective ub hdet v hv
  rw [V3.unit_eq_smul (M3.mulVec ub v) hpos, M3.mulVec_smul, M3.inv_mulVec_cancel ub hdet]
  exact V3.unit_smul_pos _ (by positivity) v hv

/-- non-vacuity: the defaults of a fresh calculation — reference needs UB for the lab frame, the surface does not -/
example : (Frames.init : Frames ℝ).n_phi = none ∧ (Frames.init : Frames ℝ).surf_nphi = some V3.ez ∧
    (Frames.init : Frames ℝ).surf_nhkl = none ∧ (Frames.init : Frames ℝ).n_hkl = some V3.ex := by
  simp [Frames.init, n_phi, surf_nphi, surf_nhkl, n_hkl, hklOf, phiOf]
end
end C16
