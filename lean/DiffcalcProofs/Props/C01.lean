import DiffcalcProofs.Props.C02
import DiffcalcProofs.Props.C04
import Mathlib.Analysis.SpecialFunctions.Trigonometric.Bounds
/-!
# C01 — every position returned for an hkl request diffracts at exactly that hkl

Model: `Diffcalc/Solver/*.lean` (hand, tie H) + the GENERATED `get_hkl` (tie T, C04).
* `getPosition_guard` (all modes): nothing is returned unless it maps back to the requested hkl through `get_hkl`
  within 1e-3 per index, and its dictionary is `get_virtual_angles` of that very position;
* `guard_forward_model`: `get_hkl` IS the first-principles forward model (C04), so the guard is a statement about physics;
* `composition`: the detector relation + the sample relation + Bragg's law give `forward model = hkl` *exactly*;
* `detFromQaz_sound`: the detector layer used by the three-sample and the reference + two-sample branches establishes
  the detector relation exactly (threshold shortcut included).
-/
namespace C01
open Solver PyOps M3
noncomputable section
variable {β γ : Type}

theorem mapM_ok_all {f : β → Py γ} : ∀ (xs : List β) (ys : List γ), xs.mapM f = .ok ys → ∀ x ∈ xs, ∃ y, f x = .ok y
  | [], _, _, x, hx => by cases hx
  | x0 :: xs, ys, h, x, hx => by
    simp only [List.mapM_cons] at h
    obtain ⟨y0, hy0, h⟩ := bind_ok_inv h
    obtain ⟨ys0, hys0, _⟩ := bind_ok_inv h
    rcases List.mem_cons.mp hx with rfl | hx'
    · exact ⟨y0, hy0⟩
    · exact mapM_ok_all xs ys0 hys0 x hx'

/-- **C01, all modes**: whatever the candidate generators produce, `get_position` returns a pair only if the position maps
    back to the requested hkl (the read-back guard) and the dictionary paired with it is the one of that position -/
theorem getPosition_guard (ub : UBIn ℝ) (mode : Mode ℝ) (hkl : V3 ℝ) (wl : ℝ) (l : List (Pos ℝ × VAngles ℝ))
    (h : getPosition ub mode hkl wl = .ok l) :
    ∀ pv ∈ l, hklMatches (getHkl ub pv.1 wl) hkl = true ∧ virtualAngles ub pv.1 = .ok pv.2 := by
  unfold getPosition at h
  obtain ⟨pairs, hp, h⟩ := bind_ok_inv h
  obtain ⟨us, hus, h⟩ := bind_ok_inv h
  obtain ⟨_, _, h⟩ := bind_ok_inv h
  simp only [pure, Except.pure, Except.ok.injEq] at h
  subst h
  intro pv hpv
  refine ⟨?_, (C02.filter_sound ub mode hkl wl pairs hp pv hpv).2.1⟩
  obtain ⟨u, hu⟩ := mapM_ok_all _ _ hus pv hpv
  obtain ⟨p, va⟩ := pv
  simp only [] at hu
  split at hu
  · assumption
  · cases hu

theorem getPosition_pairs_virtualAngles (ub : UBIn ℝ) (mode : Mode ℝ) (hkl : V3 ℝ) (wl : ℝ) (l : List (Pos ℝ × VAngles ℝ))
    (h : getPosition ub mode hkl wl = .ok l) : ∀ pv ∈ l, virtualAngles ub pv.1 = .ok pv.2 :=
  fun pv hpv => (getPosition_guard ub mode hkl wl l h pv hpv).2

/-- the guard is about the physical forward model: `get_hkl` is `UB⁻¹ Zᵀ (k_f − k_i)` (C04), so a returned position
    diffracts within 1e-3 (per index) of the requested hkl -/
theorem guard_forward_model (ub : UBIn ℝ) (p : Pos ℝ) (hkl : V3 ℝ) (wl : ℝ) (h : hklMatches (getHkl ub p wl) hkl = true) :
    let f := C04.fwd ub.UB p.rad.mu p.rad.delta p.rad.nu p.rad.eta p.rad.chi p.rad.phi wl
    |f.x - hkl.x| ≤ 1e-3 ∧ |f.y - hkl.y| ≤ 1e-3 ∧ |f.z - hkl.z| ≤ 1e-3 := by
  simp only [getHkl, C04.getHkl_eq_fwd] at h
  simp only [hklMatches, rs_le, rs_abs, Scalar.ofSci, Bool.and_eq_true, decide_eq_true_eq] at h
  norm_num at h ⊢
  exact ⟨h.1.1, h.1.2, h.2⟩

/-! ## exactness: the relations of You (1999) -/

/-- detector relation (direction of the scattered beam), eqs (17)–(19) -/
def DetSpec (delta nu qaz theta : ℝ) : Prop :=
  Real.sin delta = Real.sin (2 * theta) * Real.sin qaz ∧
  Real.cos delta * Real.sin nu = Real.sin (2 * theta) * Real.cos qaz ∧
  Real.cos delta * Real.cos nu = Real.cos (2 * theta)

/-- direction of the scattering vector in the laboratory frame, eq (18) -/
def qDir (theta qaz : ℝ) : V3 ℝ := ⟨Real.cos theta * Real.sin qaz, -(Real.sin theta), Real.cos theta * Real.cos qaz⟩

/-- under the detector relation the scattering vector is `(4π/λ) sin θ` along `qDir` -/
theorem qLab_of_DetSpec (delta nu qaz theta wl : ℝ) (h : DetSpec delta nu qaz theta) :
    C04.qLab delta nu wl = V3.smul (2 * (2 * Real.pi / wl) * Real.sin theta) (qDir theta qaz) := by
  obtain ⟨h1, h2, h3⟩ := h
  have hs2 := Real.sin_two_mul theta
  have hc2 := Real.cos_two_mul theta
  have hsc := Real.sin_sq_add_cos_sq theta
  ext <;> simp only [C04.qLab, C04.kF, C04.kI, V3.sub, V3.smul, qDir, M3.mulVec, M3.mul, rotX, rotZ, rs_one, rs_zero, rs_cos, rs_sin,
    Real.cos_neg, Real.sin_neg]
  · have : Real.sin delta = 2 * Real.sin theta * Real.cos theta * Real.sin qaz := by rw [h1, hs2]
    linear_combination (2 * Real.pi / wl) * this
  · have : Real.cos delta * Real.cos nu = 2 * Real.cos theta ^ 2 - 1 := by rw [h3, hc2]
    linear_combination (2 * Real.pi / wl) * this + (2 * (2 * Real.pi / wl)) * hsc
  · have : Real.cos delta * Real.sin nu = 2 * Real.sin theta * Real.cos theta * Real.cos qaz := by rw [h2, hs2]
    linear_combination (2 * Real.pi / wl) * this

/-- **composition**: detector relation + sample relation (eq 18: `Z·(UB·hkl)` points along `qDir` with the Bragg length)
    ⇒ the forward model returns the requested hkl exactly -/
theorem composition (UB : M3 ℝ) (hdet : M3.det UB ≠ 0) (mu delta nu eta chi phi qaz theta wl : ℝ) (hkl : V3 ℝ)
    (hD : DetSpec delta nu qaz theta)
    (hS : M3.mulVec (C04.Z mu eta chi phi) (M3.mulVec UB hkl) = V3.smul (2 * (2 * Real.pi / wl) * Real.sin theta) (qDir theta qaz)) :
    C04.fwd UB mu delta nu eta chi phi wl = hkl := by
  unfold C04.fwd
  rw [qLab_of_DetSpec delta nu qaz theta wl hD, ← hS]
  have hZ := C04.isRot_Z mu eta chi phi
  have : M3.mulVec (M3.transpose (C04.Z mu eta chi phi)) (M3.mulVec (C04.Z mu eta chi phi) (M3.mulVec UB hkl)) = M3.mulVec UB hkl := by
    rw [← M3.mulVec_mul, hZ.1, M3.mulVec_id]
  rw [this, M3.inv_mulVec_cancel UB hdet]

/-! ## the detector layer from qaz is exact -/

theorem isSmall_real (x : ℝ) : Scalar.isSmall x = decide (|x| ≤ (1e-7 : ℝ)) := by
  simp only [Scalar.isSmall, Scalar.isSmallTol, rs_le, rs_abs, Scalar.SMALL, Scalar.ofSci]
  try norm_num

theorem not_small_ne_zero {c : ℝ} (h : Scalar.isSmall c = false) : c ≠ 0 := by
  intro h0; subst h0; rw [isSmall_real] at h; simp at h; norm_num at h

theorem sign_facts (c : ℝ) (h : Scalar.isSmall c = false) : (Scalar.sign c : ℝ) * c = |c| ∧ (Scalar.sign c : ℝ) ^ 2 = 1 := by
  unfold Scalar.sign
  rw [if_neg (by simp [h])]
  by_cases hc : (0:ℝ) < c
  · have : Scalar.lt (Scalar.zero : ℝ) c = true := by simp [hc]
    rw [if_pos this, rs_one, abs_of_pos hc]; constructor <;> ring
  · have : Scalar.lt (Scalar.zero : ℝ) c = false := by simp [hc]
    have hc' : c ≤ 0 := le_of_not_gt hc
    rw [if_neg (by rw [this]; simp), rs_one, abs_of_nonpos hc']; constructor <;> ring

theorem small_cos_not_small (x : ℝ) (hx : Scalar.isSmall x = true) : Scalar.isSmall (Real.cos x) = false := by
  rw [isSmall_real] at hx ⊢
  simp only [decide_eq_true_eq, decide_eq_false_iff_not, not_le] at hx ⊢
  have h1 := Real.one_sub_sq_div_two_le_cos (x := x)
  have h2 : x ^ 2 ≤ (1e-7 : ℝ) ^ 2 := by
    calc x ^ 2 = |x| ^ 2 := (sq_abs x).symm
      _ ≤ (1e-7 : ℝ) ^ 2 := by gcongr
  have : (1e-7 : ℝ) < Real.cos x := by norm_num at h2 ⊢; linarith
  rw [abs_of_pos (by linarith)]; exact this

theorem sin_asin_prod (qaz theta : ℝ) :
    Real.sin (Real.arcsin (Real.sin qaz * Real.sin (2 * theta))) = Real.sin qaz * Real.sin (2 * theta) := by
  have h1 := Real.sin_sq_le_one qaz
  have h2 := Real.sin_sq_le_one (2 * theta)
  have := abs_le_one_iff_mul_self_le_one.mpr
    (by nlinarith [sq_nonneg (Real.sin qaz), sq_nonneg (Real.sin (2 * theta))] :
      (Real.sin qaz * Real.sin (2 * theta)) * (Real.sin qaz * Real.sin (2 * theta)) ≤ 1)
  exact Real.sin_arcsin (abs_le.mp this).1 (abs_le.mp this).2

/-- **detector layer, exact**: every `(delta, nu, qaz)` produced from a value of qaz satisfies the detector relation,
    provided `cos delta` is not within the code's own 1e-7 threshold of zero (there the code sets `nu := 0` on purpose) -/
theorem detFromQaz_sound (qaz theta : ℝ) :
    ∀ t ∈ detFromQaz qaz theta, Scalar.isSmall (Real.cos t.1) = false → DetSpec t.1 t.2.1 t.2.2 theta := by
  intro t ht hns
  unfold detFromQaz at ht
  simp only [List.mem_map] at ht
  obtain ⟨delta, hd, rfl⟩ := ht
  simp only at hns
  have hx := sin_asin_prod qaz theta
  have hsin : Real.sin delta = Real.sin (2 * theta) * Real.sin qaz := by
    split at hd
    · rename_i hsm
      simp only [List.mem_singleton] at hd
      exfalso
      set a := Real.arcsin (Real.sin qaz * Real.sin (2 * theta)) with ha
      have hsm' : Scalar.isSmall (Real.cos a) = true := by simpa [ha] using hsm
      have hnot : Scalar.isSmall a = false := by
        by_contra hcon
        have := small_cos_not_small a (by simpa using hcon)
        simp [this] at hsm'
      have hsq := (sign_facts a hnot).2
      have hsg : (Scalar.sign a : ℝ) = 1 ∨ (Scalar.sign a : ℝ) = -1 := by
        have : ((Scalar.sign a : ℝ) - 1) * ((Scalar.sign a : ℝ) + 1) = 0 := by ring_nf; linarith
        rcases mul_eq_zero.mp this with h | h
        · left; linarith
        · right; linarith
      have hdelta : delta = (Scalar.sign a : ℝ) * Real.pi / 2 := by simpa [ha] using hd
      have hc0 : Real.cos delta = 0 := by
        rcases hsg with h | h <;> rw [hdelta, h]
        · simp [Real.cos_pi_div_two]
        · have : (-1 : ℝ) * Real.pi / 2 = -(Real.pi / 2) := by ring
          rw [this, Real.cos_neg, Real.cos_pi_div_two]
      rw [hc0, isSmall_real] at hns; simp at hns; norm_num at hns
    · simp only [List.mem_cons, List.not_mem_nil, or_false] at hd
      rcases hd with rfl | rfl
      · simp only [rs_sin, rs_asin, rs_two]; rw [hx]; ring
      · simp only [rs_sin, rs_asin, rs_two, rs_pi]; rw [Real.sin_pi_sub, hx]; ring
  have hnu : (if Scalar.isSmall (Scalar.cos delta) then (Scalar.zero : ℝ)
      else Scalar.atan2 (Scalar.sign (Scalar.cos delta) * Scalar.sin (Scalar.two * theta) * Scalar.cos qaz)
                 (Scalar.sign (Scalar.cos delta) * Scalar.cos (Scalar.two * theta)))
      = atan2R (Scalar.sign (Real.cos delta) * Real.sin (2 * theta) * Real.cos qaz) (Scalar.sign (Real.cos delta) * Real.cos (2 * theta)) := by
    have : Scalar.isSmall (Scalar.cos delta) = false := hns
    rw [if_neg (by rw [this]; simp)]
    simp
  set c := Real.cos delta with hc
  set S := Real.sin (2 * theta) with hS
  set C := Real.cos (2 * theta) with hC
  set sq := Real.sin qaz
  set cq := Real.cos qaz
  obtain ⟨hsc, hs2⟩ := sign_facts c hns
  set sg : ℝ := Scalar.sign c
  have hcne := not_small_ne_zero hns
  have hquad : (sg * C) ^ 2 + (sg * S * cq) ^ 2 = c ^ 2 := by
    have e1 : c ^ 2 = 1 - (S * sq) ^ 2 := by
      have := Real.sin_sq_add_cos_sq delta; rw [hsin] at this; nlinarith
    have e2 := Real.sin_sq_add_cos_sq (2 * theta)
    have e3 := Real.sin_sq_add_cos_sq qaz
    have : (sg * C) ^ 2 + (sg * S * cq) ^ 2 = sg ^ 2 * (C ^ 2 + S ^ 2 * cq ^ 2) := by ring
    rw [this, hs2, e1]; nlinarith
  have hsqrt : Real.sqrt ((sg * C) ^ 2 + (sg * S * cq) ^ 2) = |c| := by rw [hquad]; exact Real.sqrt_sq_eq_abs c
  have habs : |c| ≠ 0 := abs_ne_zero.mpr hcne
  have hsg0 : sg ≠ 0 := by intro h; rw [h] at hs2; norm_num at hs2
  refine ⟨hsin, ?_, ?_⟩
  · show c * Real.sin _ = S * cq
    simp only []
    rw [hnu, sin_atan2R, hsqrt, ← hsc]
    field_simp
  · show c * Real.cos _ = C
    rw [hnu, cos_atan2R, hsqrt, ← hsc]
    · field_simp
    · by_contra hcon
      push Not at hcon
      have : c ^ 2 = 0 := by rw [← hquad, hcon.1, hcon.2]; ring
      exact hcne (pow_eq_zero_iff (by norm_num) |>.mp this)

theorem detFromQaz_qaz (qaz theta : ℝ) : ∀ t ∈ detFromQaz qaz theta, t.2.2 = qaz := by
  intro t ht
  unfold detFromQaz at ht
  obtain ⟨d, _, rfl⟩ := List.mem_map.mp ht
  rfl

/-- the detector angles of every three-sample candidate come from `detFromQaz` at the qaz computed for that candidate -/
theorem threeSample_detector_sound (free : Free) (mu eta chi phi : ℝ) (h : V3 ℝ) (theta : ℝ) (l : List (Sol ℝ))
    (hl : threeSample free mu eta chi phi h theta = .ok l) :
    ∀ s ∈ l, Scalar.isSmall (Real.cos s.2.1) = false →
      DetSpec s.2.1 s.2.2.1 (qazValue s.1 s.2.2.2.1 s.2.2.2.2.1 s.2.2.2.2.2 h theta) theta := by
  unfold threeSample tryAssert at hl
  split at hl
  · cases hl; intro s hs; cases hs
  · cases hl
  · simp only [Except.ok.injEq] at hl
    subst hl
    intro s hs hns
    obtain ⟨v, _, hv⟩ := List.mem_flatMap.mp hs
    cases free <;> simp only [] at hv <;>
      (obtain ⟨d, hd, rfl⟩ := List.mem_map.mp hv
       have h1 := detFromQaz_sound _ theta d hd hns
       rw [detFromQaz_qaz _ theta d hd] at h1
       exact h1)

/-- likewise for the reference + two-sample branches: detector angles from `detFromQaz` at the branch's own qaz -/
theorem twoSampleAndReference_detector_sound (s : Samp2Ref ℝ) (h n : V3 ℝ) (theta psi : ℝ) (l : List (Sol ℝ))
    (hl : twoSampleAndReference s h n theta psi = .ok l) :
    ∀ sol ∈ l, Scalar.isSmall (Real.cos sol.2.1) = false → ∃ qaz, DetSpec sol.2.1 sol.2.2.1 qaz theta := by
  unfold twoSampleAndReference at hl
  obtain ⟨N, _, hl⟩ := bind_ok_inv hl
  obtain ⟨rs, _, hl⟩ := bind_ok_inv hl
  simp only [pure, Except.pure, Except.ok.injEq] at hl
  subst hl
  intro sol hs hns
  obtain ⟨r, _, hv⟩ := List.mem_flatMap.mp hs
  obtain ⟨qaz, ps, mu, eta, chi, phi⟩ := r
  simp only [] at hv
  obtain ⟨d, hd, rfl⟩ := List.mem_map.mp hv
  have h1 := detFromQaz_sound qaz theta d hd hns
  rw [detFromQaz_qaz qaz theta d hd] at h1
  exact ⟨qaz, h1⟩

/-- non-vacuity of the detector relation: delta = 2θ, nu = 0, qaz = 90° (vertical scattering) -/
example (theta : ℝ) : DetSpec (2 * theta) 0 (Real.pi / 2) theta := by
  simp [DetSpec, Real.sin_pi_div_two, Real.cos_pi_div_two]
end
end C01

namespace C01
open Scalar PyOps Solver
/-- the recorded finding `C01-bound-clip-at-turning-point`, on the model: inside the band `(1, 1 + 1e-7]` the guard in front of every
`asin` / `acos` does not refuse, it answers with the turning point — so `boundAcos x` is `0` for an `x` no angle has as its cosine, and a
request that misses a solution by that little is answered (inexactly, below the 1e-3 of the read-back) instead of refused -/
theorem bound_clips_in_band (x : ℝ) (h1 : 1 < x) (h2 : x ≤ 1 + 1e-7) : PyOps.bound x = .ok 1 := by
  have hx : |x| = x := abs_of_pos (by linarith)
  simp only [PyOps.bound, rs_lt, rs_abs, rs_one, Scalar.SMALL, Scalar.ofSci, hx]
  have : ¬ ((1 : ℝ) + 1 / 10 ^ 7 < x) := by norm_num at h2 ⊢; linarith
  norm_num at this ⊢
  simp [this, h1]
end C01
