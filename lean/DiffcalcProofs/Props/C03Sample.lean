import DiffcalcProofs.Props.C03
import DiffcalcProofs.Props.C01Sample
/-!
# C03 — completeness of the sample layer: the `mu + eta given` branch and the three bisect branches built on it

For any `(chi₀, phi₀)` that puts the scattering direction where the detector needs it (`Z(mu, eta, chi₀, phi₀)·ĥ = q̂(θ, qaz)`),
`__calc_sample_con_mu_eta` returns a tuple equal to `(mu, eta, chi₀, phi₀)` modulo 2π — no root is dropped.
-/
namespace C03
open M3 Solver Scalar PyOps C01
noncomputable section

/-- converse of `sampleSpec_of_inner` -/
theorem inner_of_sampleSpec (mu eta chi phi : ℝ) (h q : V3 ℝ) (hS : M3.mulVec (C04.Z mu eta chi phi) h = q) :
    inner chi phi h = outerInv mu eta q := by
  have e : C04.Z mu eta chi phi = M3.mul (M3.mul (rotX mu) (rotZ (-eta))) (M3.mul (rotY chi) (rotZ (-phi))) := by
    simp only [C04.Z, M3.mul_assoc']
  rw [← hS, e, M3.mulVec_mul, outerInv, ← M3.mulVec_mul]
  have : M3.mul (M3.mul (M3.transpose (rotZ (-eta))) (M3.transpose (rotX mu))) (M3.mul (rotX mu) (rotZ (-eta))) = M3.id := by
    rw [M3.mul_assoc', ← M3.mul_assoc' (M3.transpose (rotX mu)), (isRot_rotX mu).1, M3.id_mul, (isRot_rotZ (-eta)).1]
  rw [this, M3.mulVec_id]; rfl

theorem sameAngle_add (a b e : ℝ) (h : SameAngle a b) : SameAngle (a + e) (b + e) := by
  obtain ⟨hs, hc⟩ := h
  exact ⟨by rw [Real.sin_add, Real.sin_add, hs, hc], by rw [Real.cos_add, Real.cos_add, hs, hc]⟩

theorem sameAngle_symm {a b : ℝ} (h : SameAngle a b) : SameAngle b a := ⟨h.1.symm, h.2.symm⟩

/-- two angles solving the same non-degenerate planar rotation equations are equal modulo 2π -/
theorem sameAngle_of_rot (a b u v x y : ℝ) (hne : a ^ 2 + b ^ 2 ≠ 0)
    (hx1 : a * Real.cos x + b * Real.sin x = u) (hx2 : -a * Real.sin x + b * Real.cos x = v)
    (hy1 : a * Real.cos y + b * Real.sin y = u) (hy2 : -a * Real.sin y + b * Real.cos y = v) : SameAngle x y := by
  constructor
  · have : (a ^ 2 + b ^ 2) * (Real.sin x - Real.sin y) = 0 := by
      linear_combination b * hx1 - a * hx2 - b * hy1 + a * hy2
    have := (mul_eq_zero.mp this).resolve_left hne
    linarith
  · have : (a ^ 2 + b ^ 2) * (Real.cos x - Real.cos y) = 0 := by
      linear_combination a * hx1 + b * hx2 - a * hy1 - b * hy2
    have := (mul_eq_zero.mp this).resolve_left hne
    linarith

/-- **completeness of `__calc_sample_con_mu_eta`** -/
theorem sampleConMuEta_complete (mu eta qaz theta : ℝ) (N : M3 ℝ) (hN : N.a00 ^ 2 + N.a10 ^ 2 + N.a20 ^ 2 = 1)
    (chi0 phi0 : ℝ) (hS : SampleSpec ⟨N.a00, N.a10, N.a20⟩ theta qaz (mu, eta, chi0, phi0))
    (hsm : (Scalar.isSmall N.a00 && Scalar.isSmall N.a10) = false)
    (hreg : (outerInv mu eta (qDir theta qaz)).x ^ 2 + (outerInv mu eta (qDir theta qaz)).z ^ 2 ≠ 0) :
    ∃ l, sampleConMuEta mu eta qaz theta N = .ok l ∧
      ∃ t ∈ l, t.1 = mu ∧ t.2.1 = eta ∧ SameAngle t.2.2.1 chi0 ∧ SameAngle t.2.2.2 phi0 := by
  have hV := V_muEta_col0 mu eta qaz theta
  simp only [] at hV
  unfold sampleConMuEta
  simp only []
  set V := M3.mul (M3.mul (M3.mul (M3.transpose (Gen.rot_ETA eta)) (M3.transpose (Gen.rot_MU mu))) (Gen.y_rotation (qaz - Scalar.pi / Scalar.two)))
      (Gen.z_rotation (-theta)) with hVdef
  set v := outerInv mu eta (qDir theta qaz) with hv
  have hv0 : V.a00 = v.x := congrArg V3.x hV
  have hv1 : V.a10 = v.y := congrArg V3.y hV
  have hv2 : V.a20 = v.z := congrArg V3.z hV
  have hvu := outerInv_unit mu eta _ (qDir_unit theta qaz)
  rw [← hv] at hvu
  -- the given solution, in components
  unfold SampleSpec at hS
  simp only [] at hS
  have hin := inner_of_sampleSpec mu eta chi0 phi0 _ _ hS
  rw [inner_comps, ← hv] at hin
  simp only [] at hin
  have hx0 := congrArg V3.x hin
  have hy0 := congrArg V3.y hin
  have hz0 := congrArg V3.z hin
  simp only [] at hx0 hy0 hz0
  rw [hsm]
  simp only [Bool.false_eq_true, if_false]
  -- r = hypot(h0, h1) > 0
  have hr : 0 < Scalar.hypot N.a00 N.a10 := by
    simp only [Scalar.hypot, rs_sqrt]
    apply Real.sqrt_pos.mpr
    by_contra hc
    have h0 : N.a00 = 0 := by nlinarith [mul_self_nonneg N.a00, mul_self_nonneg N.a10]
    have h1 : N.a10 = 0 := by nlinarith [mul_self_nonneg N.a00, mul_self_nonneg N.a10]
    rw [h0, h1] at hsm
    simp [isSmall_real] at hsm; norm_num at hsm
  have hr2 : N.a00 ^ 2 + N.a10 ^ 2 = Scalar.hypot N.a00 N.a10 ^ 2 := by
    simp only [Scalar.hypot, rs_sqrt]; rw [Real.sq_sqrt (by nlinarith [mul_self_nonneg N.a00, mul_self_nonneg N.a10])]; ring
  set r := Scalar.hypot N.a00 N.a10 with hrdef
  obtain ⟨hce, hse⟩ := atan2_cs N.a00 N.a10 r hr hr2
  have hrne := hr.ne'
  set eps := atan2R N.a10 N.a00 with hepsdef
  have h0 : N.a00 = r * Real.cos eps := by rw [hce]; field_simp
  have h1 : N.a10 = r * Real.sin eps := by rw [hse]; field_simp
  -- sin(phi0 − eps) = −v.y / r
  have hsinphi : Real.sin (phi0 - eps) = -v.y / r := by
    rw [Real.sin_sub, ← hy0, h0, h1]; field_simp; ring
  have hclip : |(-v.y) / r| ≤ 1 := by rw [← hsinphi]; exact Real.abs_sin_le_one _
  obtain ⟨s, hs⟩ := C11.boundAsin_ok hclip
  obtain ⟨hsval, hsin⟩ := C01.boundAsin_ok hclip hs
  rw [hv1]
  unfold tryAssert
  rw [hs]
  simp only []
  refine ⟨_, rfl, ?_⟩
  -- which root is phi0?
  have hroots := asin_roots_complete (phi0 - eps) ((-v.y) / r) hclip hsinphi
  rw [← hsval] at hroots
  have hphi : ∃ phi', phi' ∈ [s + eps, Real.pi - s + eps] ∧ SameAngle phi' phi0 := by
    rcases hroots with hr1 | hr1
    · refine ⟨s + eps, by simp, ?_⟩
      have := sameAngle_add _ _ eps (sameAngle_symm hr1)
      rwa [sub_add_cancel] at this
    · refine ⟨Real.pi - s + eps, by simp, ?_⟩
      have := sameAngle_add _ _ eps (sameAngle_symm hr1)
      rwa [sub_add_cancel] at this
  obtain ⟨phi', hmem, hsame⟩ := hphi
  refine ⟨(mu, eta, atan2R (N.a20 * V.a00 - (N.a00 * Real.cos phi' + N.a10 * Real.sin phi') * V.a20)
      (N.a20 * V.a20 + (N.a00 * Real.cos phi' + N.a10 * Real.sin phi') * V.a00), phi'), ?_, rfl, rfl, ?_, hsame⟩
  · simp only [rs_pi, rs_cos, rs_sin, rs_atan2, List.map_cons, List.map_nil, List.mem_cons, List.not_mem_nil, or_false] at hmem ⊢
    rcases hmem with rfl | rfl
    · left; rfl
    · right; rfl
  · -- chi: both solve the same rotation equations
    simp only []
    rw [hsame.1, hsame.2, hv0, hv2]
    set a := N.a00 * Real.cos phi0 + N.a10 * Real.sin phi0 with hadef
    have hD : a ^ 2 + N.a20 ^ 2 = v.x ^ 2 + v.z ^ 2 := by
      have hb : (-N.a00 * Real.sin phi0 + N.a10 * Real.cos phi0) ^ 2 = v.y ^ 2 := by rw [hy0]
      have hsc := Real.sin_sq_add_cos_sq phi0
      have : a ^ 2 + (-N.a00 * Real.sin phi0 + N.a10 * Real.cos phi0) ^ 2 = N.a00 ^ 2 + N.a10 ^ 2 := by
        rw [hadef]; linear_combination (N.a00 ^ 2 + N.a10 ^ 2) * hsc
      linear_combination this + hN - hvu - hb
    obtain ⟨c1, c2⟩ := chi_solve a N.a20 v.x v.z hD
    exact sameAngle_of_rot a N.a20 v.x v.z _ chi0 (by rw [hD]; exact hreg) c1 c2 hx0 hz0
/-! ## the bisect branches on top of it -/

theorem forM'_complete {β γ : Type} (xs : List β) (f : β → Py (List γ)) (hall : ∀ x ∈ xs, ∃ lx, f x = .ok lx) :
    ∃ l, forM' xs f = .ok l ∧ ∀ x ∈ xs, ∀ lx, f x = .ok lx → ∀ y ∈ lx, y ∈ l := by
  induction xs with
  | nil => exact ⟨[], rfl, fun x hx => by cases hx⟩
  | cons a rest ih =>
    obtain ⟨la, hla⟩ := hall a (by simp)
    obtain ⟨lr, hlr, hmem⟩ := ih (fun x hx => hall x (by simp [hx]))
    refine ⟨la ++ lr, ?_, ?_⟩
    · simp only [forM', bind, Except.bind, hla, hlr, pure, Except.pure]
    · intro x hx lx hfx y hy
      rcases List.mem_cons.mp hx with rfl | hx'
      · rw [hla] at hfx; cases hfx; exact List.mem_append_left _ hy
      · exact List.mem_append_right _ (hmem x hx' lx hfx y hy)

/-- `__calc_sample_con_mu_eta` never raises once the reflection is not along the phi axis: an out-of-range sine only empties the list -/
theorem sampleConMuEta_total (m e qaz theta : ℝ) (N : M3 ℝ) (hsm : (Scalar.isSmall N.a00 && Scalar.isSmall N.a10) = false) :
    ∃ l, sampleConMuEta m e qaz theta N = .ok l := by
  unfold sampleConMuEta
  simp only []
  rw [hsm]
  simp only [Bool.false_eq_true, if_false]
  unfold tryAssert boundAsin
  rcases bound_cases (-(M3.mul (M3.mul (M3.mul (M3.transpose (Gen.rot_ETA e)) (M3.transpose (Gen.rot_MU m))) (Gen.y_rotation (qaz - Scalar.pi / Scalar.two)))
      (Gen.z_rotation (-theta))).a10 / Scalar.hypot N.a00 N.a10) with ⟨y, hy, hle⟩ | he
  · rw [hy]; simp only [bind, Except.bind, pyAsin_ok hle]; exact ⟨_, rfl⟩
  · rw [he]; exact ⟨[], rfl⟩

theorem Z_congr (mu mu' eta eta' chi phi : ℝ) (h1 : SameAngle mu mu') (h2 : SameAngle eta eta') :
    C04.Z mu eta chi phi = C04.Z mu' eta' chi phi := by
  unfold C04.Z rotX rotZ
  simp only [rs_cos, rs_sin, Real.cos_neg, Real.sin_neg, h1.1, h1.2, h2.1, h2.2]

/-- `tan m = x` with `cos m ≠ 0` has exactly the roots `atan x`, `atan x + π` modulo 2π -/
theorem atan_roots_complete (m x : ℝ) (hc : Real.cos m ≠ 0) (h : Real.tan m = x) :
    SameAngle m (Real.arctan x) ∨ SameAngle m (Real.arctan x + Real.pi) := by
  set a := Real.arctan x with ha
  have hca : 0 < Real.cos a := Real.cos_arctan_pos x
  have hta : Real.tan a = x := Real.tan_arctan x
  have hcross : Real.sin m * Real.cos a = Real.cos m * Real.sin a := by
    have e1 : Real.tan m = Real.sin m / Real.cos m := Real.tan_eq_sin_div_cos m
    have e2 : Real.tan a = Real.sin a / Real.cos a := Real.tan_eq_sin_div_cos a
    have : Real.sin m / Real.cos m = Real.sin a / Real.cos a := by rw [← e1, ← e2, h, hta]
    field_simp at this; linarith
  have hm := Real.sin_sq_add_cos_sq m
  have haa := Real.sin_sq_add_cos_sq a
  have hsq : Real.cos m ^ 2 = Real.cos a ^ 2 := by
    have : Real.cos m ^ 2 * (Real.sin a ^ 2 + Real.cos a ^ 2) = Real.cos a ^ 2 * (Real.sin m ^ 2 + Real.cos m ^ 2) := by
      have := congrArg (fun t => t ^ 2) hcross
      simp only [mul_pow] at this
      linear_combination -this
    rw [haa, hm] at this; linarith
  rcases sq_eq_sq_iff_eq_or_eq_neg.mp hsq with hcm | hcm
  · left
    refine ⟨?_, hcm⟩
    have : Real.cos a * (Real.sin m - Real.sin a) = 0 := by rw [hcm] at hcross; linear_combination hcross
    have := (mul_eq_zero.mp this).resolve_left hca.ne'
    linarith
  · right
    refine ⟨?_, by rw [Real.cos_add_pi, hcm]⟩
    rw [Real.sin_add_pi]
    have : Real.cos a * (Real.sin m + Real.sin a) = 0 := by rw [hcm] at hcross; linear_combination hcross
    have := (mul_eq_zero.mp this).resolve_left hca.ne'
    linarith

/-- **completeness of `__calc_sample_con_omega_bisect`**: a position that satisfies the sample relation and the bisect relation at the
    constrained omega is returned, modulo 2π in all four sample angles (generic branch: `cos μ₀ ≠ 0`, |asin| not within 1e-8 of 90°) -/
theorem omegaBisect_complete (omega qaz theta : ℝ) (N : M3 ℝ) (hN : N.a00 ^ 2 + N.a10 ^ 2 + N.a20 ^ 2 = 1)
    (mu0 eta0 chi0 phi0 : ℝ) (hS : SampleSpec ⟨N.a00, N.a10, N.a20⟩ theta qaz (mu0, eta0, chi0, phi0))
    (hBm : Real.tan mu0 = Real.tan (theta + omega) * Real.cos qaz) (hBe : Real.sin eta0 = Real.sin (theta + omega) * Real.sin qaz)
    (hcm : Real.cos mu0 ≠ 0)
    (hgen : Scalar.isSmall (|Real.arcsin (Real.sin (theta + omega) * Real.sin qaz)| - Real.pi / 2) = false)
    (hsm : (Scalar.isSmall N.a00 && Scalar.isSmall N.a10) = false)
    (hreg : (outerInv mu0 eta0 (qDir theta qaz)).x ^ 2 + (outerInv mu0 eta0 (qDir theta qaz)).z ^ 2 ≠ 0) :
    ∃ l, sampleConOmegaBisect omega qaz theta N = .ok l ∧
      ∃ t ∈ l, SameAngle t.1 mu0 ∧ SameAngle t.2.1 eta0 ∧ SameAngle t.2.2.1 chi0 ∧ SameAngle t.2.2.2 phi0 := by
  unfold sampleConOmegaBisect
  simp only [rs_tan, rs_cos, rs_sin, rs_atan, rs_asin, rs_pi, rs_two, rs_abs, hgen, Bool.false_eq_true, if_false]
  set x := Real.tan (theta + omega) * Real.cos qaz with hx
  set y := Real.sin (theta + omega) * Real.sin qaz with hy
  have hyabs : |y| ≤ 1 := by
    rw [hy, abs_mul]; exact mul_le_one₀ (Real.abs_sin_le_one _) (abs_nonneg _) (Real.abs_sin_le_one _)
  -- which pair is (mu0, eta0)?
  obtain ⟨m, hm, hmS⟩ : ∃ m, m ∈ [Real.arctan x, Real.arctan x + Real.pi] ∧ SameAngle m mu0 := by
    rcases atan_roots_complete mu0 x hcm hBm with h | h
    · exact ⟨_, by simp, sameAngle_symm h⟩
    · exact ⟨_, by simp, sameAngle_symm h⟩
  obtain ⟨e, he, heS⟩ : ∃ e, e ∈ [Real.arcsin y, Real.pi - Real.arcsin y] ∧ SameAngle e eta0 := by
    rcases asin_roots_complete eta0 y hyabs hBe with h | h
    · exact ⟨_, by simp, sameAngle_symm h⟩
    · exact ⟨_, by simp, sameAngle_symm h⟩
  obtain ⟨l, hl, hmem⟩ := forM'_complete ([Real.arctan x, Real.arctan x + Real.pi].flatMap fun m => [Real.arcsin y, Real.pi - Real.arcsin y].map fun e => (m, e))
    (fun me => sampleConMuEta me.1 me.2 qaz theta N) (fun me _ => sampleConMuEta_total me.1 me.2 qaz theta N hsm)
  refine ⟨l, hl, ?_⟩
  have hpair : (m, e) ∈ [Real.arctan x, Real.arctan x + Real.pi].flatMap fun m => [Real.arcsin y, Real.pi - Real.arcsin y].map fun e => (m, e) :=
    List.mem_flatMap.mpr ⟨m, hm, List.mem_map.mpr ⟨e, he, rfl⟩⟩
  -- the sample relation with (m, e) in place of (mu0, eta0)
  have hS' : SampleSpec ⟨N.a00, N.a10, N.a20⟩ theta qaz (m, e, chi0, phi0) := by
    unfold SampleSpec at hS ⊢
    simp only [] at hS ⊢
    rw [Z_congr m mu0 e eta0 chi0 phi0 hmS heS]; exact hS
  have hreg' : (outerInv m e (qDir theta qaz)).x ^ 2 + (outerInv m e (qDir theta qaz)).z ^ 2 ≠ 0 := by
    rw [outerInv_comps] at hreg ⊢
    simp only [] at hreg ⊢
    rw [hmS.1, hmS.2, heS.1, heS.2]; exact hreg
  obtain ⟨lx, hlx, t, ht, h1, h2, h3, h4⟩ := sampleConMuEta_complete m e qaz theta N hN chi0 phi0 hS' hsm hreg'
  refine ⟨t, hmem (m, e) hpair lx hlx t ht, ?_, ?_, h3, h4⟩
  · rw [h1]; exact hmS
  · rw [h2]; exact heS

/-- **completeness of `__calc_sample_con_mu_bisect`** (omega free): a position with the constrained mu that satisfies the sample relation and the
    bisect relation for SOME value of θ+ω is returned modulo 2π (generic branch: `cos qaz` not small, `cos(θ+ω) ≠ 0`, no ±90° shortcut for eta) -/
theorem muBisect_complete (mu qaz theta : ℝ) (N : M3 ℝ) (hN : N.a00 ^ 2 + N.a10 ^ 2 + N.a20 ^ 2 = 1)
    (eta0 chi0 phi0 thomega0 : ℝ) (hS : SampleSpec ⟨N.a00, N.a10, N.a20⟩ theta qaz (mu, eta0, chi0, phi0))
    (hBm : Real.tan mu = Real.tan thomega0 * Real.cos qaz) (hBe : Real.sin eta0 = Real.sin thomega0 * Real.sin qaz)
    (hct : Real.cos thomega0 ≠ 0) (hcq : Scalar.isSmall (Real.cos qaz) = false)
    (hgen : ∀ th, SameAngle th thomega0 → Scalar.isSmall (|Real.arcsin (Real.sin th * Real.sin qaz)| - Real.pi / 2) = false)
    (hsm : (Scalar.isSmall N.a00 && Scalar.isSmall N.a10) = false)
    (hreg : (outerInv mu eta0 (qDir theta qaz)).x ^ 2 + (outerInv mu eta0 (qDir theta qaz)).z ^ 2 ≠ 0) :
    ∃ l, sampleConMuBisect mu qaz theta N = .ok l ∧
      ∃ t ∈ l, t.1 = mu ∧ SameAngle t.2.1 eta0 ∧ SameAngle t.2.2.1 chi0 ∧ SameAngle t.2.2.2 phi0 := by
  have hcqne : Real.cos qaz ≠ 0 := C01.not_small_ne_zero hcq
  unfold sampleConMuBisect
  simp only [rs_tan, rs_cos, rs_sin, rs_atan, rs_asin, rs_pi, rs_two, rs_abs, hcq, Bool.false_eq_true, if_false]
  set x := Real.tan mu / Real.cos qaz with hx
  have htx : Real.tan thomega0 = x := by rw [hx, hBm]; field_simp
  -- thomega0 is one of the two roots
  obtain ⟨th, hth, hthS⟩ : ∃ th, th ∈ [Real.arctan x, Real.pi + Real.arctan x] ∧ SameAngle th thomega0 := by
    rcases atan_roots_complete thomega0 x hct htx with h | h
    · exact ⟨_, by simp, sameAngle_symm h⟩
    · exact ⟨Real.pi + Real.arctan x, by simp, by rw [add_comm]; exact sameAngle_symm h⟩
  have hg := hgen th hthS
  have hyabs : |Real.sin th * Real.sin qaz| ≤ 1 := by
    rw [abs_mul]; exact mul_le_one₀ (Real.abs_sin_le_one _) (abs_nonneg _) (Real.abs_sin_le_one _)
  obtain ⟨e, he, heS⟩ : ∃ e, e ∈ [Real.arcsin (Real.sin th * Real.sin qaz), Real.pi - Real.arcsin (Real.sin th * Real.sin qaz)] ∧ SameAngle e eta0 := by
    rcases asin_roots_complete eta0 (Real.sin th * Real.sin qaz) hyabs (by rw [hBe, hthS.1]) with h | h
    · exact ⟨_, by simp, sameAngle_symm h⟩
    · exact ⟨_, by simp, sameAngle_symm h⟩
  set evals := [Real.arctan x, Real.pi + Real.arctan x].flatMap fun thomega =>
      if Scalar.isSmall (|Real.arcsin (Real.sin thomega * Real.sin qaz)| - Real.pi / 2) = true
      then [Scalar.sign (Real.arcsin (Real.sin thomega * Real.sin qaz)) * Real.pi / 2]
      else [Real.arcsin (Real.sin thomega * Real.sin qaz), Real.pi - Real.arcsin (Real.sin thomega * Real.sin qaz)] with hevals
  have hmemE : e ∈ evals := by
    rw [hevals]
    refine List.mem_flatMap.mpr ⟨th, hth, ?_⟩
    rw [hg]; simpa using he
  obtain ⟨l, hl, hmem⟩ := forM'_complete evals (fun e => sampleConMuEta mu e qaz theta N) (fun e _ => sampleConMuEta_total mu e qaz theta N hsm)
  refine ⟨l, hl, ?_⟩
  have hS' : SampleSpec ⟨N.a00, N.a10, N.a20⟩ theta qaz (mu, e, chi0, phi0) := by
    unfold SampleSpec at hS ⊢
    simp only [] at hS ⊢
    rw [Z_congr mu mu e eta0 chi0 phi0 ⟨rfl, rfl⟩ heS]; exact hS
  have hreg' : (outerInv mu e (qDir theta qaz)).x ^ 2 + (outerInv mu e (qDir theta qaz)).z ^ 2 ≠ 0 := by
    rw [outerInv_comps] at hreg ⊢
    simp only [] at hreg ⊢
    rw [heS.1, heS.2]; exact hreg
  obtain ⟨lx, hlx, t, ht, h1, h2, h3, h4⟩ := sampleConMuEta_complete mu e qaz theta N hN chi0 phi0 hS' hsm hreg'
  exact ⟨t, hmem e hmemE lx hlx t ht, h1, by rw [h2]; exact heS, h3, h4⟩

end
end C03
