import DiffcalcProofs.Lemmas.PyCalc
/-!
# C02 — every returned position honours all three active constraints

Model: `Diffcalc/Solver/*.lean` (hand, tie H).  Three layers, for every mode:
* **pass-through**: every candidate tuple carries each constrained sample / detector axis at exactly the constrained
  value (`passthrough_*`), for every branch of the dispatcher;
* **tidy-up**: the degenerate tidy-up never changes a constrained axis (`tidy_preserves_constrained`);
* **filter**: everything returned passed the read-back filter for the reference / qaz / naz constraint (`filter_sound`).
Together: `getPosition_honours_axes`.
-/
namespace C02
open Solver PyOps
noncomputable section
variable {β γ : Type}

theorem allOk_tryAssert {P : β → Prop} {m : Py γ} {k : γ → Py (List β)} (hk : ∀ v, m = .ok v → AllOk P (k v)) :
    AllOk P (tryAssert m k) := by
  unfold tryAssert
  cases m with
  | ok v => exact hk v rfl
  | error e => cases e <;> first | exact allOk_nil | exact allOk_error _

/-! ## the sample layer copies the constrained axes -/

/-- predicates on sample tuples `(mu, eta, chi, phi)` -/
def muIs (v : ℝ) (t : STuple ℝ) : Prop := t.1 = v
def etaIs (v : ℝ) (t : STuple ℝ) : Prop := t.2.1 = v
def chiIs (v : ℝ) (t : STuple ℝ) : Prop := t.2.2.1 = v
def phiIs (v : ℝ) (t : STuple ℝ) : Prop := t.2.2.2 = v

theorem pt_sampleConMuEta (mu eta qaz theta : ℝ) (N : M3 ℝ) :
    AllOk (fun t => muIs mu t ∧ etaIs eta t) (sampleConMuEta mu eta qaz theta N) := by
  unfold sampleConMuEta; (try simp only []); split
  · exact allOk_error _
  · apply allOk_tryAssert; intro a _
    apply allOk_ok; intro t ht
    obtain ⟨phi, _, rfl⟩ := List.mem_map.mp ht
    exact ⟨rfl, rfl⟩

theorem pt_sampleFromChiEta (chi eta : ℝ) (Z : M3 ℝ) :
    AllOk (fun t => chiIs chi t ∧ etaIs eta t) (sampleFromChiEta chi eta Z) := by
  unfold sampleFromChiEta; (try simp only []); split
  · exact allOk_error _
  · apply allOk_ok; intro t ht; simp only [List.mem_singleton] at ht; subst ht; exact ⟨rfl, rfl⟩

theorem pt_sampleConMu (mu : ℝ) (Nl Np : M3 ℝ) : AllOk (muIs mu) (sampleConMu mu Nl Np) := by
  unfold sampleConMu
  apply allOk_catchAssert
  apply allOk_bind; intro a _
  split
  · apply allOk_ok; intro t ht; simp only [List.mem_singleton] at ht; subst ht; rfl
  · apply allOk_ok; intro t ht
    obtain ⟨chi, _, rfl⟩ := List.mem_map.mp ht; rfl

theorem pt_sampleConPhi (phi : ℝ) (Nl Np : M3 ℝ) : AllOk (phiIs phi) (sampleConPhi phi Nl Np) := by
  unfold sampleConPhi
  apply allOk_tryAssert; intro a _
  split
  · exact allOk_error _
  · apply allOk_ok; intro t ht
    obtain ⟨eta, _, rfl⟩ := List.mem_map.mp ht; rfl

theorem pt_sampleConChi (chi : ℝ) (Nl Np : M3 ℝ) : AllOk (chiIs chi) (sampleConChi chi Nl Np) := by
  unfold sampleConChi; (try simp only []); split
  · exact allOk_error _
  · apply allOk_tryAssert; intro a _
    apply allOk_forM'; intro eta _
    exact allOk_mono (pt_sampleFromChiEta chi eta _) (fun t h => h.1)

theorem pt_sampleConEta (eta : ℝ) (Nl Np : M3 ℝ) : AllOk (etaIs eta) (sampleConEta eta Nl Np) := by
  unfold sampleConEta; (try simp only []); split
  · exact allOk_error _
  · apply allOk_tryAssert; intro a _
    apply allOk_forM'; intro chi _
    exact allOk_mono (pt_sampleFromChiEta chi eta _) (fun t h => h.2)

theorem pt_sampleConMuBisect (mu qaz theta : ℝ) (N : M3 ℝ) : AllOk (muIs mu) (sampleConMuBisect mu qaz theta N) := by
  unfold sampleConMuBisect; (try simp only [])
  split
  · exact allOk_nil
  · apply allOk_forM'; intro e _
    exact allOk_mono (pt_sampleConMuEta mu e qaz theta N) (fun t h => h.1)

theorem pt_sampleConEtaBisect (eta qaz theta : ℝ) (N : M3 ℝ) : AllOk (etaIs eta) (sampleConEtaBisect eta qaz theta N) := by
  unfold sampleConEtaBisect; (try simp only [])
  have key : ∀ ms : List ℝ, AllOk (etaIs eta) (forM' ms fun m => sampleConMuEta m eta qaz theta N) := by
    intro ms; apply allOk_forM'; intro m _
    exact allOk_mono (pt_sampleConMuEta m eta qaz theta N) (fun t h => h.2)
  split
  · split
    · exact key _
    · exact allOk_nil
  · apply allOk_tryAssert; intro a _
    split <;> exact key _

theorem pt_sampleConChiPhi (chi phi qaz theta : ℝ) (N : M3 ℝ) :
    AllOk (fun t => chiIs chi t ∧ phiIs phi t) (sampleConChiPhi chi phi qaz theta N) := by
  unfold sampleConChiPhi; (try simp only [])
  apply allOk_tryAssert; intro a _
  apply allOk_forM'; intro mu _
  (try simp only []); split
  · exact allOk_error _
  · apply allOk_ok; intro t ht; simp only [List.mem_singleton] at ht; subst ht; exact ⟨rfl, rfl⟩

theorem pt_sampleConMuPhi (mu phi qaz theta : ℝ) (N : M3 ℝ) :
    AllOk (fun t => muIs mu t ∧ phiIs phi t) (sampleConMuPhi mu phi qaz theta N) := by
  unfold sampleConMuPhi; (try simp only [])
  apply allOk_tryAssert; intro a _
  apply allOk_ok; intro t ht
  obtain ⟨chi, _, rfl⟩ := List.mem_map.mp ht; exact ⟨rfl, rfl⟩

theorem pt_sampleConMuChi (mu chi qaz theta : ℝ) (N : M3 ℝ) :
    AllOk (fun t => muIs mu t ∧ chiIs chi t) (sampleConMuChi mu chi qaz theta N) := by
  unfold sampleConMuChi; (try simp only [])
  split
  · exact allOk_error _
  · split
    · exact allOk_error _
    · apply allOk_tryAssert; intro a _
      apply allOk_forM'; intro phi _
      (try simp only []); split
      · exact allOk_error _
      · apply allOk_ok; intro t ht; simp only [List.mem_singleton] at ht; subst ht; exact ⟨rfl, rfl⟩

theorem pt_sampleConEtaPhi (eta phi qaz theta : ℝ) (N : M3 ℝ) :
    AllOk (fun t => etaIs eta t ∧ phiIs phi t) (sampleConEtaPhi eta phi qaz theta N) := by
  unfold sampleConEtaPhi; (try simp only [])
  split
  · exact allOk_error _
  · apply allOk_tryAssert; intro a _
    apply allOk_ok; intro t ht
    obtain ⟨chi, _, rfl⟩ := List.mem_map.mp ht; exact ⟨rfl, rfl⟩

theorem pt_sampleConEtaChi (eta chi qaz theta : ℝ) (N : M3 ℝ) :
    AllOk (fun t => etaIs eta t ∧ chiIs chi t) (sampleConEtaChi eta chi qaz theta N) := by
  unfold sampleConEtaChi; (try simp only [])
  split
  · exact allOk_error _
  · apply allOk_tryAssert; intro a _
    apply allOk_forM'; intro phi _
    (try simp only []); split
    · exact allOk_error _
    · apply allOk_ok; intro t ht; simp only [List.mem_singleton] at ht; subst ht; exact ⟨rfl, rfl⟩

/-- what a detector + two-sample mode constrains among the sample axes -/
def Samp2Det.Honours : Samp2Det ℝ → STuple ℝ → Prop
  | .muEta m e, t => muIs m t ∧ etaIs e t
  | .omegaBisect _, _ => True          -- no single axis is constrained (the bisect relation: correspondence + oracle)
  | .muBisect m, t => muIs m t
  | .etaBisect e, t => etaIs e t
  | .chiPhi c p, t => chiIs c t ∧ phiIs p t
  | .muPhi m p, t => muIs m t ∧ phiIs p t
  | .muChi m c, t => muIs m t ∧ chiIs c t
  | .etaPhi e p, t => etaIs e t ∧ phiIs p t
  | .etaChi e c, t => etaIs e t ∧ chiIs c t

theorem passthrough_twoSampleDetector (s : Samp2Det ℝ) (qaz theta : ℝ) (N : M3 ℝ) :
    AllOk (Samp2Det.Honours s) (twoSampleDetector s qaz theta N) := by
  cases s <;> simp only [twoSampleDetector, Samp2Det.Honours]
  · exact pt_sampleConMuEta _ _ _ _ _
  · intro l _ x _; trivial
  · exact pt_sampleConMuBisect _ _ _ _
  · exact pt_sampleConEtaBisect _ _ _ _
  · exact pt_sampleConChiPhi _ _ _ _ _
  · exact pt_sampleConMuPhi _ _ _ _ _
  · exact pt_sampleConMuChi _ _ _ _ _
  · exact pt_sampleConEtaPhi _ _ _ _ _
  · exact pt_sampleConEtaChi _ _ _ _ _

def Samp1.Honours : Samp1 ℝ → STuple ℝ → Prop
  | .mu v, t => muIs v t | .phi v, t => phiIs v t | .eta v, t => etaIs v t | .chi v, t => chiIs v t

theorem passthrough_remainingSample (s : Samp1 ℝ) (theta alpha qaz : ℝ) (naz : Option ℝ) (N : M3 ℝ) :
    AllOk (Samp1.Honours s) (remainingSample s theta alpha qaz naz N) := by
  unfold remainingSample
  apply allOk_bind; intro Nl _
  cases s <;> simp only [Samp1.Honours]
  · exact pt_sampleConMu _ _ _
  · exact pt_sampleConPhi _ _ _
  · exact pt_sampleConEta _ _ _
  · exact pt_sampleConChi _ _ _

/-! ## the detector layer copies the constrained detector axis -/

def DetCon.Honours : DetCon ℝ → (ℝ × ℝ × ℝ) → Prop      -- (delta, nu, qaz)
  | .delta v, t => t.1 = v | .nu v, t => t.2.1 = v | .qaz v, t => t.2.2 = v

theorem passthrough_detector (d : DetCon ℝ) (theta : ℝ) : AllOk (DetCon.Honours d) (detRemaining d theta) := by
  cases d with
  | delta v =>
    simp only [detRemaining, DetCon.Honours]
    unfold detFromDelta
    apply allOk_catchAssert
    apply allOk_bind; intro a _
    apply allOk_bind; intro b _
    apply allOk_ok; intro t ht
    obtain ⟨p, _, hp⟩ := List.mem_filterMap.mp ht
    obtain ⟨q, n⟩ := p
    simp only at hp
    split at hp
    · cases hp; rfl
    · cases hp
  | nu v =>
    simp only [detRemaining, DetCon.Honours]
    unfold detFromNu; (try simp only []); split
    · exact allOk_error _
    · apply allOk_catchAssert
      apply allOk_bind; intro a _
      apply allOk_bind; intro b _
      apply allOk_ok; intro t ht
      obtain ⟨p, _, hp⟩ := List.mem_filterMap.mp ht
      obtain ⟨q, dl⟩ := p
      simp only at hp
      split at hp
      · cases hp; rfl
      · cases hp
  | qaz v =>
    simp only [detRemaining, DetCon.Honours]
    apply allOk_ok; intro t ht
    unfold detFromQaz at ht
    obtain ⟨dl, _, rfl⟩ := List.mem_map.mp ht; rfl

/-! ## reference + two sample axes -/

def Samp2Ref.Honours : Samp2Ref ℝ → RTuple ℝ → Prop     -- (qaz, psi, mu, eta, chi, phi)
  | .chiPhi c p, t => t.2.2.2.2.1 = c ∧ t.2.2.2.2.2 = p
  | .muEta m e, t => t.2.2.1 = m ∧ t.2.2.2.1 = e
  | .chiEta c e, t => t.2.2.2.2.1 = c ∧ t.2.2.2.1 = e
  | .chiMu c m, t => t.2.2.2.2.1 = c ∧ t.2.2.1 = m
  | .muPhi m p, t => t.2.2.1 = m ∧ t.2.2.2.2.2 = p
  | .etaPhi e p, t => t.2.2.2.1 = e ∧ t.2.2.2.2.2 = p

theorem passthrough_twoSampleReference (s : Samp2Ref ℝ) (psi theta : ℝ) (N : M3 ℝ) :
    AllOk (fun t => Samp2Ref.Honours s t ∧ t.2.1 = psi) (twoSampleReference s psi theta N) := by
  cases s <;> simp only [twoSampleReference, Samp2Ref.Honours]
  · unfold refConChiPhi; (try simp only [])
    apply allOk_tryAssert; intro a _
    apply allOk_forM'; intro mu _
    (try simp only []); split
    · exact allOk_error _
    · split
      · exact allOk_error _
      · apply allOk_ok; intro t ht; simp only [List.mem_singleton] at ht; subst ht; exact ⟨⟨rfl, rfl⟩, rfl⟩
  · unfold refConMuEta; (try simp only [])
    apply allOk_tryAssert; intro bot _
    split <;>
    · apply allOk_bind; intro ac _
      simp only [pure, Except.pure, bind, Except.bind]
      apply allOk_ok; intro t ht
      obtain ⟨chi, _, rfl⟩ := List.mem_map.mp ht; exact ⟨⟨rfl, rfl⟩, rfl⟩
  · unfold refConChiEta; (try simp only [])
    apply allOk_tryAssert; intro bot _
    split <;>
    · apply allOk_bind; intro ac _
      simp only [pure, Except.pure, bind, Except.bind]
      apply allOk_ok; intro t ht
      obtain ⟨mu, _, rfl⟩ := List.mem_map.mp ht; exact ⟨⟨rfl, rfl⟩, rfl⟩
  · unfold refConChiMu; (try simp only [])
    apply allOk_tryAssert; intro a _
    apply allOk_ok; intro t ht
    obtain ⟨eta, _, rfl⟩ := List.mem_map.mp ht; exact ⟨⟨rfl, rfl⟩, rfl⟩
  · unfold refConMuPhi; (try simp only []); split
    · exact allOk_error _
    · apply allOk_tryAssert; intro a _
      apply allOk_forM'; intro eta _
      apply allOk_bind; intro r _
      apply allOk_ok; intro t ht; simp only [pure, Except.pure, List.mem_singleton] at ht; subst ht; exact ⟨⟨rfl, rfl⟩, rfl⟩
  · unfold refConEtaPhi; (try simp only []); split
    · exact allOk_error _
    · apply allOk_tryAssert; intro a _
      apply allOk_forM'; intro mu _
      apply allOk_bind; intro r _
      apply allOk_ok; intro t ht; simp only [pure, Except.pure, List.mem_singleton] at ht; subst ht; exact ⟨⟨rfl, rfl⟩, rfl⟩

/-! ## candidates of every mode carry the constrained axes -/

/-- the axis constraints of a mode, on a candidate tuple `(mu, delta, nu, eta, chi, phi)` in radians -/
def SolHonours : Mode ℝ → Sol ℝ → Prop
  | .detRefSamp det _ _ s, (mu, delta, nu, eta, chi, phi) =>
    Samp1.Honours s (mu, eta, chi, phi) ∧ (match det with | some (.delta v) => delta = v | some (.nu v) => nu = v | _ => True)
  | .detSamp2 det s, (mu, delta, nu, eta, chi, phi) =>
    Samp2Det.Honours s (mu, eta, chi, phi) ∧ (match det with | .delta v => delta = v | .nu v => nu = v | .qaz _ => True)
  | .refSamp2 _ s, (mu, _, _, eta, chi, phi) =>
    (match s with
      | .chiPhi c p => chi = c ∧ phi = p | .muEta m e => mu = m ∧ eta = e | .chiEta c e => chi = c ∧ eta = e
      | .chiMu c m => chi = c ∧ mu = m | .muPhi m p => mu = m ∧ phi = p | .etaPhi e p => eta = e ∧ phi = p)
  | .samp3 free m e c p, (mu, _, _, eta, chi, phi) =>
    (free = .mu ∨ mu = m) ∧ (free = .eta ∨ eta = e) ∧ (free = .chi ∨ chi = c) ∧ (free = .phi ∨ phi = p)

theorem passthrough_samp3 (free : Free) (mu eta chi phi : ℝ) (h : V3 ℝ) (theta : ℝ) :
    AllOk (SolHonours (.samp3 free mu eta chi phi)) (threeSample free mu eta chi phi h theta) := by
  unfold threeSample
  apply allOk_tryAssert; intro vals _
  apply allOk_ok; intro t ht
  obtain ⟨v, _, hv⟩ := List.mem_flatMap.mp ht
  cases free <;> simp only [] at hv <;>
    (obtain ⟨d, _, rfl⟩ := List.mem_map.mp hv; simp [SolHonours])

theorem passthrough_refSamp2 (ref : RefCon ℝ) (s : Samp2Ref ℝ) (h n : V3 ℝ) (theta psi : ℝ) :
    AllOk (SolHonours (.refSamp2 ref s)) (twoSampleAndReference s h n theta psi) := by
  unfold twoSampleAndReference
  apply allOk_bind; intro N _
  apply allOk_bind; intro rs hrs
  apply allOk_ok; intro t ht
  obtain ⟨r, hr, hv⟩ := List.mem_flatMap.mp ht
  have hh := (passthrough_twoSampleReference s psi theta N rs hrs r hr).1
  obtain ⟨qaz, ps, mu, eta, chi, phi⟩ := r
  simp only [] at hv
  obtain ⟨d, _, rfl⟩ := List.mem_map.mp hv
  cases s <;> simp only [Samp2Ref.Honours] at hh <;> simp only [SolHonours] <;> exact ⟨hh.1, hh.2⟩ <;> skip
  all_goals first | exact ⟨hh.2, hh.1⟩ | exact ⟨hh.1, hh.2⟩

theorem passthrough_detSamp2 (det : DetCon ℝ) (s : Samp2Det ℝ) (h n : V3 ℝ) (theta : ℝ) (alpha tau : Option ℝ) :
    AllOk (SolHonours (.detSamp2 det s)) (detSampleReference (some det) none (.two s) h n theta alpha tau) := by
  unfold detSampleReference
  apply allOk_bind; intro N _
  (try simp only [])
  apply allOk_bind; intro ds hds
  apply allOk_forM'; intro d hd
  have hdet := passthrough_detector det theta ds hds d hd
  obtain ⟨delta, nu, qaz⟩ := d
  (try simp only [])
  apply allOk_bind; intro ss hss
  apply allOk_ok; intro t ht
  (try simp only [pure, Except.pure] at ht)
  obtain ⟨st, hst, rfl⟩ := List.mem_map.mp ht
  have hs := passthrough_twoSampleDetector s qaz theta N ss hss st hst
  obtain ⟨mu, eta, chi, phi⟩ := st
  refine ⟨hs, ?_⟩
  cases det <;> simp only [DetCon.Honours] at hdet ⊢ <;> first | exact hdet | trivial

theorem passthrough_detRefSamp (det : Option (DetCon ℝ)) (naz : Option ℝ) (ref : RefCon ℝ) (s : Samp1 ℝ) (h n : V3 ℝ)
    (theta alpha : ℝ) (tau : Option ℝ) :
    AllOk (SolHonours (.detRefSamp det naz ref s)) (detSampleReference det naz (.one s) h n theta (some alpha) tau) := by
  unfold detSampleReference
  apply allOk_bind; intro N _
  (try simp only [])
  apply allOk_bind; intro ds hds
  apply allOk_forM'; intro d hd
  obtain ⟨qaz, nz, delta, nu⟩ := d
  (try simp only [])
  apply allOk_bind; intro ss hss
  apply allOk_ok; intro t ht
  (try simp only [pure, Except.pure] at ht)
  obtain ⟨st, hst, rfl⟩ := List.mem_map.mp ht
  have hs := passthrough_remainingSample s theta alpha qaz nz N ss hss st hst
  obtain ⟨mu, eta, chi, phi⟩ := st
  refine ⟨hs, ?_⟩
  -- the detector axis: every element of `detOrNaz` comes from `detRemaining`
  unfold detOrNaz at hds
  split at hds
  · cases hds
  · unfold tryAssert at hds
    split at hds
    · cases hds; cases hd
    · cases hds
    · rename_i nq _
      cases det with
      | none => trivial
      | some dc =>
        simp only [] at hds
        obtain ⟨trip, htrip, hl⟩ := bind_ok_inv hds
        simp only [pure, Except.pure, Except.ok.injEq] at hl
        subst hl
        obtain ⟨tr, htr, hmem⟩ := List.mem_flatMap.mp hd
        have hdet := passthrough_detector dc theta trip htrip tr htr
        obtain ⟨dl, n2, qz⟩ := tr
        simp only [] at hmem
        obtain ⟨nzz, _, heq⟩ := List.mem_map.mp hmem
        simp only [Prod.mk.injEq] at heq
        obtain ⟨_, _, rfl, rfl⟩ := heq
        cases dc <;> simp only [DetCon.Honours] at hdet ⊢ <;> first | exact hdet | trivial

/-- **pass-through, all modes**: every candidate of `__calc_hkl_to_position` carries the constrained sample and
    detector axes at exactly the constrained values -/
theorem candidates_honour (ub : UBIn ℝ) (mode : Mode ℝ) (hkl : V3 ℝ) (wl : ℝ) :
    AllOk (SolHonours mode) (candidates ub mode hkl wl) := by
  unfold candidates
  apply allOk_bind; intro tth _
  cases mode with
  | detRefSamp det naz ref s =>
    simp only []
    apply allOk_bind; intro r _
    obtain ⟨n, alpha, tau⟩ := r
    exact passthrough_detRefSamp det naz ref s _ _ _ _ _
  | detSamp2 det s => exact passthrough_detSamp2 det s _ _ _ _ _
  | refSamp2 ref s =>
    simp only []
    apply allOk_bind; intro r _
    obtain ⟨n, alpha, tau⟩ := r
    apply allOk_forM'; intro psi _
    cases psi with
    | none => exact allOk_nil
    | some p => exact passthrough_refSamp2 ref s _ _ _ _
  | samp3 free mu eta chi phi => exact passthrough_samp3 free mu eta chi phi _ _

/-! ## the tidy-up never touches a constrained axis -/

theorem tidy_axes_spec (info : ModeInfo) (p : Pos ℝ) :
    (tidy info p).delta = p.delta ∧ (tidy info p).nu = p.nu ∧ (tidy info p).chi = p.chi ∧
    (info.hasMu = true → (tidy info p).mu = p.mu) ∧ (info.hasEta = true → (tidy info p).eta = p.eta) ∧
    (info.hasPhi = true → (tidy info p).phi = p.phi) := by
  unfold tidy
  simp only []
  split
  · rename_i h
    simp only [Bool.and_eq_true, Bool.not_eq_true'] at h
    refine ⟨rfl, rfl, rfl, fun _ => rfl, ?_, ?_⟩
    · intro he; rw [he] at h; simp at h
    · intro hp; rw [hp] at h; simp at h
  · split
    · rename_i h
      simp only [Bool.and_eq_true, Bool.not_eq_true'] at h
      refine ⟨rfl, rfl, rfl, ?_, fun _ => rfl, ?_⟩
      · intro hm; rw [hm] at h; simp at h
      · intro hp; rw [hp] at h; simp at h
    · exact ⟨rfl, rfl, rfl, fun _ => rfl, fun _ => rfl, fun _ => rfl⟩

/-- the axis constraints of a mode on a position in degrees -/
def PosHonours (mode : Mode ℝ) (p : Pos ℝ) : Prop :=
  ∃ s : Sol ℝ, SolHonours mode s ∧ p.delta = Scalar.toDeg s.2.1 ∧ p.nu = Scalar.toDeg s.2.2.1 ∧ p.chi = Scalar.toDeg s.2.2.2.2.1 ∧
    (mode.info.hasMu = true → p.mu = Scalar.toDeg s.1) ∧ (mode.info.hasEta = true → p.eta = Scalar.toDeg s.2.2.2.1) ∧
    (mode.info.hasPhi = true → p.phi = Scalar.toDeg s.2.2.2.2.2)

theorem tidy_preserves_constrained (mode : Mode ℝ) (s : Sol ℝ) (h : SolHonours mode s) :
    PosHonours mode (tidy mode.info (solToPos s)) := by
  obtain ⟨h1, h2, h3, h4, h5, h6⟩ := tidy_axes_spec mode.info (solToPos s)
  obtain ⟨mu, delta, nu, eta, chi, phi⟩ := s
  refine ⟨(mu, delta, nu, eta, chi, phi), h, ?_, ?_, ?_, ?_, ?_, ?_⟩
  · rw [h1]; rfl
  · rw [h2]; rfl
  · rw [h3]; rfl
  · intro hm; rw [h4 hm]; rfl
  · intro he; rw [h5 he]; rfl
  · intro hp; rw [h6 hp]; rfl

/-! ## the read-back filter and the final statement -/

theorem mem_mapM_ok {f : β → Py γ} : ∀ (xs : List β) (ys : List γ), xs.mapM f = .ok ys → ∀ y ∈ ys, ∃ x ∈ xs, f x = .ok y
  | [], ys, h, y, hy => by simp [List.mapM_nil, pure, Except.pure] at h; subst h; cases hy
  | x :: xs, ys, h, y, hy => by
    simp only [List.mapM_cons] at h
    obtain ⟨y0, hy0, h⟩ := bind_ok_inv h
    obtain ⟨ys0, hys0, h⟩ := bind_ok_inv h
    simp only [pure, Except.pure, Except.ok.injEq] at h
    subst h
    rcases List.mem_cons.mp hy with rfl | hy'
    · exact ⟨x, by simp, hy0⟩
    · obtain ⟨x', hx', hfx'⟩ := mem_mapM_ok xs ys0 hys0 y hy'
      exact ⟨x', by simp [hx'], hfx'⟩

/-- **filter soundness + provenance**: every pair produced by `__calc_hkl_to_position` is a tidied candidate, carries the
    pseudo-angles of exactly that position, and passed the read-back filter of the reference / qaz / naz constraint -/
theorem filter_sound (ub : UBIn ℝ) (mode : Mode ℝ) (hkl : V3 ℝ) (wl : ℝ) (l : List (Pos ℝ × VAngles ℝ))
    (h : hklToPosition ub mode hkl wl = .ok l) :
    ∀ pv ∈ l, passesFilter pv.2 mode.refCon mode.detCon mode.nazCon = true ∧ virtualAngles ub pv.1 = .ok pv.2 ∧
      ∃ cands s, candidates ub mode hkl wl = .ok cands ∧ s ∈ cands ∧ pv.1 = tidy mode.info (solToPos s) := by
  unfold hklToPosition at h
  obtain ⟨cands, hc, h⟩ := bind_ok_inv h
  split at h
  · cases h
  · obtain ⟨pairs, hp, h⟩ := bind_ok_inv h
    dsimp only at h
    split at h
    · cases h
    · cases h
      intro pv hpv
      obtain ⟨hmem, hfil⟩ := List.mem_filter.mp hpv
      obtain ⟨p, va⟩ := pv
      obtain ⟨x, hx, hfx⟩ := mem_mapM_ok _ _ hp (p, va) hmem
      obtain ⟨va', hva', hpair⟩ := bind_ok_inv hfx
      simp only [pure, Except.pure, Except.ok.injEq, Prod.mk.injEq] at hpair
      obtain ⟨rfl, rfl⟩ := hpair
      obtain ⟨s, hs, rfl⟩ := List.mem_map.mp hx
      exact ⟨hfil, hva', cands, s, hc, hs, rfl⟩

/-- **C02 (axes + filtered pseudo-angles), all modes**: every element of the list returned by `get_position` has each
    constrained sample / detector axis at the requested value and passed the read-back filter for the reference, qaz
    and naz constraints -/
theorem getPosition_honours_axes (ub : UBIn ℝ) (mode : Mode ℝ) (hkl : V3 ℝ) (wl : ℝ) (l : List (Pos ℝ × VAngles ℝ))
    (h : getPosition ub mode hkl wl = .ok l) :
    ∀ pv ∈ l, PosHonours mode pv.1 ∧ passesFilter pv.2 mode.refCon mode.detCon mode.nazCon = true := by
  unfold getPosition at h
  obtain ⟨pairs, hp, h⟩ := bind_ok_inv h
  obtain ⟨_, _, h⟩ := bind_ok_inv h
  obtain ⟨_, _, h⟩ := bind_ok_inv h
  simp only [pure, Except.pure, Except.ok.injEq] at h
  subst h
  intro pv hpv
  obtain ⟨hf, _, cands, s, hc, hs, hps⟩ := filter_sound ub mode hkl wl pairs hp pv hpv
  refine ⟨?_, hf⟩
  rw [hps]
  exact tidy_preserves_constrained mode s (candidates_honour ub mode hkl wl cands hc s hs)
end
end C02
