import Diffcalc.Gen.Crystal
import Diffcalc.Model.Crystal
import DiffcalcProofs.Lemmas.RealLinalg
/-!
# C06 — the B matrix is the Busing–Levy factor of the reciprocal metric

Model: `Gen.reciprocalB`, `Gen.cellForSystem`, GENERATED from `src/diffcalc/ub/crystal.py` on every run (tie T).
Specification: the direct metric tensor `G` of `(a₁,a₂,a₃,α₁,α₂,α₃)`; `B` upper triangular with positive diagonal and
`Bᵀ B · G = 4π² · 1` (i.e. `BᵀB = 4π² G⁻¹`, stated without an inverse).
-/
namespace C06
open M3
noncomputable section

/-- an admissible cell: positive lengths, angles strictly between 0 and π, positive volume -/
structure Cell where
  a1 : ℝ
  a2 : ℝ
  a3 : ℝ
  al1 : ℝ
  al2 : ℝ
  al3 : ℝ
  ha1 : 0 < a1
  ha2 : 0 < a2
  ha3 : 0 < a3
  h1 : 0 < al1 ∧ al1 < Real.pi
  h2 : 0 < al2 ∧ al2 < Real.pi
  h3 : 0 < al3 ∧ al3 < Real.pi
  hW : 0 < 1 + 2 * Real.cos al1 * Real.cos al2 * Real.cos al3 - Real.cos al1 ^ 2 - Real.cos al2 ^ 2 - Real.cos al3 ^ 2

namespace Cell
variable (k : Cell)
def c1 := Real.cos k.al1
def c2 := Real.cos k.al2
def c3 := Real.cos k.al3
def s1 := Real.sin k.al1
def s2 := Real.sin k.al2
def s3 := Real.sin k.al3
def W := 1 + 2 * k.c1 * k.c2 * k.c3 - k.c1 ^ 2 - k.c2 ^ 2 - k.c3 ^ 2
/-- the direct metric tensor -/
def G : M3 ℝ :=
  ⟨k.a1 * k.a1, k.a1 * k.a2 * k.c3, k.a1 * k.a3 * k.c2,
   k.a1 * k.a2 * k.c3, k.a2 * k.a2, k.a2 * k.a3 * k.c1,
   k.a1 * k.a3 * k.c2, k.a2 * k.a3 * k.c1, k.a3 * k.a3⟩
def B : M3 ℝ := Gen.reciprocalB k.a1 k.a2 k.a3 k.al1 k.al2 k.al3

theorem hs1 : 0 < k.s1 := Real.sin_pos_of_pos_of_lt_pi k.h1.1 k.h1.2
theorem hs2 : 0 < k.s2 := Real.sin_pos_of_pos_of_lt_pi k.h2.1 k.h2.2
theorem hs3 : 0 < k.s3 := Real.sin_pos_of_pos_of_lt_pi k.h3.1 k.h3.2
theorem e1 : k.s1 ^ 2 = 1 - k.c1 ^ 2 := by have := Real.sin_sq_add_cos_sq k.al1; simp only [s1, c1]; linarith
theorem e2 : k.s2 ^ 2 = 1 - k.c2 ^ 2 := by have := Real.sin_sq_add_cos_sq k.al2; simp only [s2, c2]; linarith
theorem e3 : k.s3 ^ 2 = 1 - k.c3 ^ 2 := by have := Real.sin_sq_add_cos_sq k.al3; simp only [s3, c3]; linarith
theorem hWpos : 0 < k.W := by have := k.hW; simpa [W, c1, c2, c3] using this

/-- cosines of the reciprocal angles β₂, β₃ as the code computes them -/
def x2 := (k.c1 * k.c3 - k.c2) / (k.s1 * k.s3)
def x3 := (k.c1 * k.c2 - k.c3) / (k.s1 * k.s2)

theorem one_sub_x2_sq : 1 - k.x2 ^ 2 = k.W / (k.s1 ^ 2 * k.s3 ^ 2) := by
  have h1 := k.hs1.ne'; have h3 := k.hs3.ne'
  simp only [x2, W]
  field_simp
  rw [k.e1, k.e3]; ring
theorem one_sub_x3_sq : 1 - k.x3 ^ 2 = k.W / (k.s1 ^ 2 * k.s2 ^ 2) := by
  have h1 := k.hs1.ne'; have h2 := k.hs2.ne'
  simp only [x3, W]
  field_simp
  rw [k.e1, k.e2]; ring

theorem x2_abs : |k.x2| ≤ 1 := by
  have h := k.one_sub_x2_sq
  have hp : 0 < k.W / (k.s1 ^ 2 * k.s3 ^ 2) := div_pos k.hWpos (by have := k.hs1; have := k.hs3; positivity)
  rw [abs_le]; constructor <;> nlinarith
theorem x3_abs : |k.x3| ≤ 1 := by
  have h := k.one_sub_x3_sq
  have hp : 0 < k.W / (k.s1 ^ 2 * k.s2 ^ 2) := div_pos k.hWpos (by have := k.hs1; have := k.hs2; positivity)
  rw [abs_le]; constructor <;> nlinarith

theorem cos_beta2 : Real.cos (Real.arccos k.x2) = k.x2 :=
  Real.cos_arccos (abs_le.mp k.x2_abs).1 (abs_le.mp k.x2_abs).2
theorem cos_beta3 : Real.cos (Real.arccos k.x3) = k.x3 :=
  Real.cos_arccos (abs_le.mp k.x3_abs).1 (abs_le.mp k.x3_abs).2
theorem sin_beta2 : Real.sin (Real.arccos k.x2) = Real.sqrt k.W / (k.s1 * k.s3) := by
  rw [Real.sin_arccos, k.one_sub_x2_sq, Real.sqrt_div k.hWpos.le]
  congr 1
  rw [← mul_pow, Real.sqrt_sq (mul_pos k.hs1 k.hs3).le]
theorem sin_beta3 : Real.sin (Real.arccos k.x3) = Real.sqrt k.W / (k.s1 * k.s2) := by
  rw [Real.sin_arccos, k.one_sub_x3_sq, Real.sqrt_div k.hWpos.le]
  congr 1
  rw [← mul_pow, Real.sqrt_sq (mul_pos k.hs1 k.hs2).le]

/-- closed form of the generated B matrix -/
theorem B_closed : k.B =
    ⟨2 * Real.pi * k.s1 / (k.a1 * Real.sqrt k.W), 2 * Real.pi * k.s2 / (k.a2 * Real.sqrt k.W) * k.x3, 2 * Real.pi * k.s3 / (k.a3 * Real.sqrt k.W) * k.x2,
     0, 2 * Real.pi * k.s2 / (k.a2 * Real.sqrt k.W) * (Real.sqrt k.W / (k.s1 * k.s2)), -(2 * Real.pi * k.s3 / (k.a3 * Real.sqrt k.W)) * (Real.sqrt k.W / (k.s1 * k.s3)) * k.c1,
     0, 0, 2 * Real.pi / k.a3⟩ := by
  have hr : 0 < Real.sqrt k.W := Real.sqrt_pos.mpr k.hWpos
  have hr' := hr.ne'
  have ha1 := k.ha1.ne'; have ha2 := k.ha2.ne'; have ha3 := k.ha3.ne'
  have hb2 := k.cos_beta2; have hb3 := k.cos_beta3; have hsb2 := k.sin_beta2; have hsb3 := k.sin_beta3
  simp only [x2, x3, c1, c2, c3, s1, s2, s3] at hb2 hb3 hsb2 hsb3
  have hW : (1 + 2 * Real.cos k.al1 * Real.cos k.al2 * Real.cos k.al3 - Real.cos k.al1 * Real.cos k.al1 - Real.cos k.al2 * Real.cos k.al2 - Real.cos k.al3 * Real.cos k.al3) = k.W := by
    simp only [W, c1, c2, c3]; ring
  ext <;> simp only [B, Gen.reciprocalB, rs_ofNat, rs_cos, rs_sin, rs_acos, rs_sqrt, rs_pi, Nat.cast_ofNat, Nat.cast_one, Nat.cast_zero, hW, hb2, hb3, hsb2, hsb3]
    <;> simp only [x2, x3, c1, c2, c3, s1, s2, s3] <;> field_simp

/-- **C06, shape**: B is upper triangular with a positive diagonal -/
theorem B_upper_pos : k.B.a10 = 0 ∧ k.B.a20 = 0 ∧ k.B.a21 = 0 ∧ 0 < k.B.a00 ∧ 0 < k.B.a11 ∧ 0 < k.B.a22 := by
  have hr : 0 < Real.sqrt k.W := Real.sqrt_pos.mpr k.hWpos
  have := k.hs1; have := k.hs2; have := k.hs3; have := k.ha1; have := k.ha2; have := k.ha3
  have hpi := Real.pi_pos
  rw [k.B_closed]
  refine ⟨rfl, rfl, rfl, ?_, ?_, ?_⟩ <;> positivity

/-- **C06, metric**: `Bᵀ B · G = 4π² · 1`, i.e. `BᵀB` is `4π²` times the inverse of the direct metric tensor -/
theorem BtB_G : M3.mul (M3.mul (M3.transpose k.B) k.B) k.G = M3.smul (4 * Real.pi ^ 2) M3.id := by
  have hr : 0 < Real.sqrt k.W := Real.sqrt_pos.mpr k.hWpos
  have hr' := hr.ne'
  have hr2 : Real.sqrt k.W ^ 2 = k.W := Real.sq_sqrt k.hWpos.le
  have h1 := k.hs1.ne'; have h2 := k.hs2.ne'; have h3 := k.hs3.ne'
  have ha1 := k.ha1.ne'; have ha2 := k.ha2.ne'; have ha3 := k.ha3.ne'
  have e1 := k.e1; have e2 := k.e2; have e3 := k.e3
  have hWne := k.hWpos.ne'
  rw [k.B_closed]
  -- work with r := √W, r² = W, and s_i² = 1 − c_i²
  generalize Real.sqrt k.W = r at hr hr' hr2
  have hWdef : k.W = 1 + 2 * k.c1 * k.c2 * k.c3 - k.c1 ^ 2 - k.c2 ^ 2 - k.c3 ^ 2 := rfl
  ext <;> simp only [M3.mul, M3.transpose, Cell.G, M3.smul, M3.id, rs_one, rs_zero, Cell.x2, Cell.x3] <;> field_simp
    <;> (try rw [hWdef] at hr2)
  · linear_combination (4*Real.pi^2*k.s1) * e1 + (-4*Real.pi^2*k.s1) * hr2
  · linear_combination (4*k.a2*k.c3*Real.pi^2*k.s1) * e1 + (0) * hr2
  · linear_combination (4*k.a3*k.c2*Real.pi^2*k.s1) * e1 + (0) * hr2
  · linear_combination (4*k.a1*k.c1*k.c2*Real.pi^2 - 4*k.a1*k.c3*Real.pi^2) * e1 + (-4*k.a1*k.c1*k.c2*Real.pi^2 + 4*k.a1*k.c3*Real.pi^2) * hr2
  · linear_combination (-4*r^2*Real.pi^2 + 4*k.c1*k.c2*k.c3*Real.pi^2 - 4*k.c3^2*Real.pi^2) * e1 + (0) * hr2
  · linear_combination (4*k.a3*k.c1*k.c2^2*Real.pi^2 - 4*k.a3*k.c2*k.c3*Real.pi^2) * e1 + (0) * hr2
  · linear_combination (4*r^2*k.a1*k.c2*Real.pi + 4*k.a1*k.c1*k.c3*Real.pi - 4*k.a1*k.c2*Real.pi) * e1 + (-4*k.a1*k.c1*k.c3*Real.pi + 4*k.a1*k.c2*Real.pi) * hr2
  · linear_combination (4*r^2*k.a2*k.c1*Real.pi + 4*k.a2*k.c1*k.c3^2*Real.pi - 4*k.a2*k.c2*k.c3*Real.pi) * e1 + (0) * hr2
  · linear_combination (4*k.c1*k.c2*k.c3*Real.pi - 4*k.c2^2*Real.pi) * e1 + (0) * hr2
end Cell

/-! ## plane spacing, Bragg angle -/

theorem inv_unique (a x : M3 ℝ) (h : M3.det a ≠ 0) (hx : M3.mul a x = M3.id) : x = M3.inv a := by
  have := congrArg (fun m => M3.mul (M3.inv a) m) hx
  simp only [← M3.mul_assoc', M3.inv_mul_cancel a h, M3.id_mul, M3.mul_id] at this
  exact this

theorem det_inv_ne (a : M3 ℝ) (h : M3.det a ≠ 0) : M3.det (M3.inv a) ≠ 0 := by
  intro h0
  have := congrArg M3.det (M3.mul_inv_cancel a h)
  rw [M3.det_mul, h0] at this
  simp [M3.det, M3.id] at this

theorem det_sdiv (a : M3 ℝ) (c : ℝ) (hc : c ≠ 0) : M3.det (M3.sdiv a c) = M3.det a / c ^ 3 := by
  simp only [M3.det, M3.sdiv]; field_simp

theorem transpose_transpose (a : M3 ℝ) : M3.transpose (M3.transpose a) = a := by ext <;> rfl

theorem dot_mulVec_transpose_mul (b : M3 ℝ) (v : V3 ℝ) :
    V3.dot v (M3.mulVec (M3.mul (M3.transpose b) b) v) = V3.normSq (M3.mulVec b v) := by
  simp only [V3.dot, V3.normSq, M3.mulVec, M3.mul, M3.transpose]; ring

/-- **C06, plane spacing**: `d(hkl) = 2π / |B·hkl|` -/
theorem planeDistance_eq (B : M3 ℝ) (hdet : M3.det B ≠ 0) (hkl : V3 ℝ) (hne : 0 < V3.norm (M3.mulVec B hkl)) :
    CrystalModel.planeDistance B hkl = .ok (2 * Real.pi / V3.norm (M3.mulVec B hkl)) := by
  have hpi : (2 * Real.pi) ≠ 0 := by positivity
  set b := M3.sdiv B (2 * Real.pi) with hb
  have hdb : M3.det b ≠ 0 := by rw [hb, det_sdiv _ _ hpi]; exact div_ne_zero hdet (pow_ne_zero 3 hpi)
  have hdbt : M3.det (M3.transpose b) ≠ 0 := by rw [M3.det_transpose]; exact hdb
  set bMT := M3.mul (M3.inv b) (M3.inv (M3.transpose b)) with hbMT
  have hdm : M3.det bMT ≠ 0 := by
    rw [hbMT, M3.det_mul]; exact mul_ne_zero (det_inv_ne b hdb) (det_inv_ne _ hdbt)
  have hinv : M3.inv bMT = M3.mul (M3.transpose b) b := by
    symm; apply inv_unique _ _ hdm
    rw [hbMT, M3.mul_assoc', ← M3.mul_assoc' (M3.inv (M3.transpose b)), M3.inv_mul_cancel _ hdbt, M3.id_mul,
      M3.inv_mul_cancel b hdb]
  have hbv : M3.mulVec b hkl = V3.smul (1 / (2 * Real.pi)) (M3.mulVec B hkl) := by
    ext <;> simp only [hb, M3.mulVec, M3.sdiv, V3.smul] <;> field_simp
  have hq : V3.dot hkl (M3.mulVec (M3.inv bMT) hkl) = (V3.norm (M3.mulVec B hkl) / (2 * Real.pi)) ^ 2 := by
    rw [hinv, dot_mulVec_transpose_mul, hbv]
    have : V3.normSq (V3.smul (1 / (2 * Real.pi)) (M3.mulVec B hkl)) = V3.norm (V3.smul (1 / (2 * Real.pi)) (M3.mulVec B hkl)) ^ 2 := by
      simp only [V3.norm, rs_sqrt]; rw [Real.sq_sqrt (V3.normSq_nonneg _)]
    rw [this, V3.norm_smul_pos _ (by positivity)]
    ring
  have hpos : 0 < V3.norm (M3.mulVec B hkl) / (2 * Real.pi) := by positivity
  unfold CrystalModel.planeDistance
  simp only [rs_two, rs_pi, ← hb, ← hbMT, hq]
  have hsq : PyOps.pySqrt ((V3.norm (M3.mulVec B hkl) / (2 * Real.pi)) ^ 2) = .ok (V3.norm (M3.mulVec B hkl) / (2 * Real.pi)) := by
    unfold PyOps.pySqrt
    have : Scalar.lt ((V3.norm (M3.mulVec B hkl) / (2 * Real.pi)) ^ 2) (Scalar.zero : ℝ) = false := by
      simp only [rs_lt, rs_zero, decide_eq_false_iff_not, not_lt]; positivity
    simp only [this, Bool.false_eq_true, if_false, rs_sqrt, Real.sqrt_sq hpos.le]
  have hdiv : PyOps.pyDiv (Scalar.one : ℝ) (V3.norm (M3.mulVec B hkl) / (2 * Real.pi)) = .ok (2 * Real.pi / V3.norm (M3.mulVec B hkl)) := by
    unfold PyOps.pyDiv
    have : Scalar.beq (V3.norm (M3.mulVec B hkl) / (2 * Real.pi)) (Scalar.zero : ℝ) = false := by
      simp only [rs_beq, rs_zero, decide_eq_false_iff_not]; exact hpos.ne'
    simp only [this, Bool.false_eq_true, if_false, rs_one]
    congr 1; field_simp
  simp only [hsq, hdiv, bind, Except.bind]

/-- the zero reciprocal vector has no plane spacing: Python raises ZeroDivisionError (turned into DiffcalcException by `get_ttheta_from_hkl`) -/
theorem planeDistance_zero (B : M3 ℝ) : CrystalModel.planeDistance B ⟨0, 0, 0⟩ = .error .zeroDiv := by
  unfold CrystalModel.planeDistance
  have : V3.dot (⟨0, 0, 0⟩ : V3 ℝ) (M3.mulVec (M3.inv (M3.mul (M3.inv (M3.sdiv B (Scalar.two * Scalar.pi))) (M3.inv (M3.transpose (M3.sdiv B (Scalar.two * Scalar.pi)))))) ⟨0, 0, 0⟩) = 0 := by
    simp [V3.dot]
  simp only [this]
  simp [PyOps.pySqrt, PyOps.pyDiv, bind, Except.bind]

/-! ## crystal systems -/

/-- **C06, systems**: the cell implied by each system name is the crystallographic one -/
theorem cellForSystem_spec (a b c al be ga : ℝ) :
    Gen.cellForSystem "Cubic" a b c al be ga = some (a, a, a, Real.pi / 2, Real.pi / 2, Real.pi / 2) ∧
    Gen.cellForSystem "Tetragonal" a b c al be ga = some (a, a, c, Real.pi / 2, Real.pi / 2, Real.pi / 2) ∧
    Gen.cellForSystem "Hexagonal" a b c al be ga = some (a, a, c, Real.pi / 2, Real.pi / 2, 2 * Real.pi / 3) ∧
    Gen.cellForSystem "Orthorhombic" a b c al be ga = some (a, b, c, Real.pi / 2, Real.pi / 2, Real.pi / 2) ∧
    Gen.cellForSystem "Rhombohedral" a b c al be ga = some (a, a, a, Scalar.toRad al, Scalar.toRad al, Scalar.toRad al) ∧
    Gen.cellForSystem "Monoclinic" a b c al be ga = some (a, b, c, Real.pi / 2, Scalar.toRad be, Real.pi / 2) ∧
    Gen.cellForSystem "Triclinic" a b c al be ga = some (a, b, c, Scalar.toRad al, Scalar.toRad be, Scalar.toRad ga) ∧
    Gen.cellForSystem "Nonsense" a b c al be ga = none := by
  simp [Gen.cellForSystem]

/-- the accepted call forms and what they expand to (the inferred Hexagonal short form passes `(a, c)`) -/
theorem callForms (a b c be : ℝ) (hne : ¬ (|a - b| ≤ 1e-7 ∧ be = 120)) :
    CrystalModel.cellOfCall none [a] = some ("Cubic", (a, a, a, Real.pi / 2, Real.pi / 2, Real.pi / 2)) ∧
    CrystalModel.cellOfCall none [a, c] = some ("Tetragonal", (a, a, c, Real.pi / 2, Real.pi / 2, Real.pi / 2)) ∧
    CrystalModel.cellOfCall none [a, b, c] = some ("Orthorhombic", (a, b, c, Real.pi / 2, Real.pi / 2, Real.pi / 2)) ∧
    CrystalModel.cellOfCall none [a, b, c, be] = some ("Monoclinic", (a, b, c, Real.pi / 2, Scalar.toRad be, Real.pi / 2)) ∧
    CrystalModel.cellOfCall none [a, a, c, 120] = some ("Hexagonal", (a, a, c, Real.pi / 2, Real.pi / 2, 2 * Real.pi / 3)) ∧
    CrystalModel.cellOfCall (some "Hexagonal") [a, c] = some ("Hexagonal", (a, a, c, Real.pi / 2, Real.pi / 2, 2 * Real.pi / 3)) ∧
    CrystalModel.cellOfCall none [a, b] ≠ none ∧ CrystalModel.cellOfCall none [a, b, c, be, be] = none ∧
    CrystalModel.cellOfCall (some "Cubic") [a, b] = none := by
  have hsmall (x : ℝ) : Scalar.isSmall x = true ↔ |x| ≤ 1e-7 := by
    simp only [Scalar.isSmall, Scalar.isSmallTol, rs_le, rs_abs, Scalar.SMALL, Scalar.ofSci, decide_eq_true_eq]
    try norm_num
  have hsm : ¬ (Scalar.isSmall (a - b) = true ∧ be = 120) := by rw [hsmall]; exact hne
  have hsm2 : Scalar.isSmall (0 : ℝ) = true := by rw [hsmall]; norm_num
  refine ⟨?_, ?_, ?_, ?_, ?_, ?_, ?_, ?_, ?_⟩ <;>
    simp [CrystalModel.cellOfCall, CrystalModel.inferForm, CrystalModel.cellOfSystem, CrystalModel.fieldsFor,
      Gen.systemFields, CrystalModel.fill, CrystalModel.Fields.set, Gen.cellForSystem, hsm, hsm2]

/-- non-vacuity: a strongly oblique admissible cell -/
example : ∃ k : Cell, k.al1 = Real.pi / 3 ∧ k.al2 = Real.pi / 2 ∧ k.al3 = 2 * Real.pi / 3 :=
  ⟨⟨4, 5, 6, Real.pi / 3, Real.pi / 2, 2 * Real.pi / 3, by norm_num, by norm_num, by norm_num,
    ⟨by positivity, by linarith [Real.pi_pos]⟩, ⟨by positivity, by linarith [Real.pi_pos]⟩, ⟨by positivity, by linarith [Real.pi_pos]⟩,
    by
      have h3 : Real.cos (2 * Real.pi / 3) = -(1/2) := by
        have : 2 * Real.pi / 3 = Real.pi - Real.pi / 3 := by ring
        rw [this, Real.cos_pi_sub, Real.cos_pi_div_three]
      rw [Real.cos_pi_div_three, Real.cos_pi_div_two, h3]; norm_num⟩, rfl, rfl, rfl⟩
end
end C06
