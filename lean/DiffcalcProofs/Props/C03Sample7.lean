import DiffcalcProofs.Props.C03Sample6
/-!
# C03 — completeness of `__calc_sample_con_mu_phi` (detector + mu + phi given)
-/
namespace C03
open M3 Solver Scalar PyOps C01
noncomputable section

/-- converse of `sampleSpec_of_mid` -/
theorem mid_of_sampleSpec (mu eta chi phi : ℝ) (h q : V3 ℝ) (hS : M3.mulVec (C04.Z mu eta chi phi) h = q) :
    M3.mulVec (M3.mul (rotZ (-eta)) (rotY chi)) (M3.mulVec (rotZ (-phi)) h) = M3.mulVec (M3.transpose (rotX mu)) q := by
  have e : C04.Z mu eta chi phi = M3.mul (rotX mu) (M3.mul (M3.mul (rotZ (-eta)) (rotY chi)) (rotZ (-phi))) := by
    simp only [C04.Z, M3.mul_assoc']
  rw [← hS, e]
  rw [M3.mulVec_mul (rotX mu), ← M3.mulVec_mul (M3.transpose (rotX mu)) (rotX mu), (isRot_rotX mu).1, M3.mulVec_id]
  simp only [M3.mulVec_mul]

/-- **completeness of `__calc_sample_con_mu_phi`** -/
theorem sampleConMuPhi_complete (mu phi qaz theta : ℝ) (N : M3 ℝ) (hN : N.a00 ^ 2 + N.a10 ^ 2 + N.a20 ^ 2 = 1)
    (eta0 chi0 : ℝ) (hS : SampleSpec ⟨N.a00, N.a10, N.a20⟩ theta qaz (mu, eta0, chi0, phi))
    (hE : N.a00 * Real.cos phi + N.a10 * Real.sin phi ≠ 0 ∨ N.a20 ≠ 0)
    (hreg : (M3.mulVec (M3.transpose (rotX mu)) (qDir theta qaz)).x ^ 2 + (M3.mulVec (M3.transpose (rotX mu)) (qDir theta qaz)).y ^ 2 ≠ 0) :
    ∃ l, sampleConMuPhi mu phi qaz theta N = .ok l ∧
      ∃ t ∈ l, t.1 = mu ∧ SameAngle t.2.1 eta0 ∧ SameAngle t.2.2.1 chi0 ∧ t.2.2.2 = phi := by
  have hF := F_THETA_col0 qaz theta
  simp only [] at hF
  unfold SampleSpec at hS
  simp only [] at hS
  have hmid := mid_of_sampleSpec mu eta0 chi0 phi _ _ hS
  obtain ⟨wx, hwx⟩ : ∃ wx, wx = (M3.mulVec (M3.transpose (rotX mu)) (qDir theta qaz)).x := ⟨_, rfl⟩
  obtain ⟨wy, hwy⟩ : ∃ wy, wy = (M3.mulVec (M3.transpose (rotX mu)) (qDir theta qaz)).y := ⟨_, rfl⟩
  obtain ⟨wz, hwz⟩ : ∃ wz, wz = (M3.mulVec (M3.transpose (rotX mu)) (qDir theta qaz)).z := ⟨_, rfl⟩
  obtain ⟨e0, he0d⟩ : ∃ e0, e0 = N.a00 * Real.cos phi + N.a10 * Real.sin phi := ⟨_, rfl⟩
  obtain ⟨e1, he1d⟩ : ∃ e1, e1 = -N.a00 * Real.sin phi + N.a10 * Real.cos phi := ⟨_, rfl⟩
  -- components of the given solution
  have hx0 := congrArg V3.x hmid; have hy0 := congrArg V3.y hmid; have hz0 := congrArg V3.z hmid
  rw [← hwx] at hx0; rw [← hwy] at hy0; rw [← hwz] at hz0
  simp only [M3.mulVec, M3.mul, rotZ, rotY, rs_cos, rs_sin, rs_one, rs_zero, Real.cos_neg, Real.sin_neg] at hx0 hy0 hz0
  have hx0' : (e0 * Real.cos chi0 + N.a20 * Real.sin chi0) * Real.cos eta0 + e1 * Real.sin eta0 = wx := by rw [he0d, he1d]; linear_combination hx0
  have hy0' : -(e0 * Real.cos chi0 + N.a20 * Real.sin chi0) * Real.sin eta0 + e1 * Real.cos eta0 = wy := by rw [he0d, he1d]; linear_combination hy0
  have hz0' : -e0 * Real.sin chi0 + N.a20 * Real.cos chi0 = wz := by rw [he0d]; linear_combination hz0
  clear hx0 hy0 hz0
  unfold sampleConMuPhi
  simp only []
  set V := M3.mul (M3.mul (M3.transpose (Gen.rot_MU mu)) (Gen.y_rotation (qaz - Scalar.pi / Scalar.two))) (Gen.z_rotation (-theta)) with hVdef
  set E := M3.mul (Gen.rot_PHI phi) N with hEdef
  have hVc : (⟨V.a00, V.a10, V.a20⟩ : V3 ℝ) = M3.mulVec (M3.transpose (rotX mu)) (qDir theta qaz) := by
    rw [← hF, hVdef]
    simp only [(gen_rot_senses mu).1, M3.mul_assoc']
    ext <;> simp only [M3.mulVec, M3.mul] <;> ring
  have hv0 : V.a00 = wx := by rw [hwx]; exact congrArg V3.x hVc
  have hv1 : V.a10 = wy := by rw [hwy]; exact congrArg V3.y hVc
  have hv2 : V.a20 = wz := by rw [hwz]; exact congrArg V3.z hVc
  have he0 : E.a00 = e0 := by
    rw [he0d]; simp only [hEdef, (gen_rot_senses phi).2.2.2.2.2, M3.mul, rotZ, rs_cos, rs_sin, Real.cos_neg, Real.sin_neg, rs_zero]; ring
  have he1 : E.a10 = e1 := by
    rw [he1d]; simp only [hEdef, (gen_rot_senses phi).2.2.2.2.2, M3.mul, rotZ, rs_cos, rs_sin, Real.cos_neg, Real.sin_neg, rs_zero]; ring
  have he2 : E.a20 = N.a20 := by
    simp only [hEdef, (gen_rot_senses phi).2.2.2.2.2, M3.mul, rotZ, rs_cos, rs_sin, rs_zero, rs_one]; ring
  rw [he0, he1, he2, hv0, hv1, hv2]
  rw [← he0d] at hE
  have hr := hypot_pos_of e0 N.a20 hE
  have hr2 := hypot_sq e0 N.a20
  obtain ⟨r, hrdef⟩ : ∃ r, r = Scalar.hypot e0 N.a20 := ⟨_, rfl⟩
  rw [← hrdef] at hr hr2 ⊢
  have hrne := hr.ne'
  obtain ⟨hce, hse⟩ := atan2_cs e0 N.a20 r hr hr2
  obtain ⟨eps, hepsdef⟩ : ∃ eps, eps = atan2R N.a20 e0 := ⟨_, rfl⟩
  rw [← hepsdef] at hce hse
  have hp0 : e0 = r * Real.cos eps := by rw [hce]; field_simp
  have hp1 : N.a20 = r * Real.sin eps := by rw [hse]; field_simp
  have hsinchi : Real.sin (chi0 - eps) = -wz / r := by
    rw [Real.sin_sub, ← hz0']
    have : -e0 * Real.sin chi0 + N.a20 * Real.cos chi0 = -(r * (Real.sin chi0 * Real.cos eps - Real.cos chi0 * Real.sin eps)) := by
      conv_lhs => rw [hp0, hp1]
      ring
    rw [this]; field_simp
  have hclip : |-wz / r| ≤ 1 := by rw [← hsinchi]; exact Real.abs_sin_le_one _
  obtain ⟨s, hs⟩ := C11.boundAsin_ok hclip
  obtain ⟨hsval, _⟩ := C01.boundAsin_ok hclip hs
  unfold tryAssert
  rw [hs]
  simp only [rs_atan2, rs_pi, rs_cos, rs_sin, ← hepsdef]
  refine ⟨_, rfl, ?_⟩
  rw [hsval]
  obtain ⟨chi', hm, hsame⟩ : ∃ chi', chi' ∈ [Real.arcsin (-wz / r) + eps, Real.pi - Real.arcsin (-wz / r) + eps] ∧ SameAngle chi' chi0 := by
    rcases asin_roots_complete (chi0 - eps) (-wz / r) hclip hsinchi with h | h
    · exact ⟨_, List.mem_cons.mpr (Or.inl rfl), sameAngle_sub_add chi0 eps _ h⟩
    · exact ⟨Real.pi - Real.arcsin (-wz / r) + eps, List.mem_cons.mpr (Or.inr (List.mem_cons.mpr (Or.inl rfl))), sameAngle_sub_add chi0 eps _ h⟩
  refine ⟨(mu, atan2R (wx * e1 - wy * (e0 * Real.cos chi' + N.a20 * Real.sin chi')) (wx * (e0 * Real.cos chi' + N.a20 * Real.sin chi') + wy * e1), chi', phi),
    List.mem_map.mpr ⟨chi', hm, rfl⟩, rfl, ?_, hsame, rfl⟩
  show SameAngle (atan2R (wx * e1 - wy * (e0 * Real.cos chi' + N.a20 * Real.sin chi')) (wx * (e0 * Real.cos chi' + N.a20 * Real.sin chi') + wy * e1)) eta0
  rw [hsame.1, hsame.2]
  obtain ⟨a, hadef⟩ : ∃ a, a = e0 * Real.cos chi0 + N.a20 * Real.sin chi0 := ⟨_, rfl⟩
  rw [← hadef] at hx0' hy0' ⊢
  have hD : a ^ 2 + e1 ^ 2 = wx ^ 2 + wy ^ 2 := by rw [← hx0', ← hy0']; have := Real.sin_sq_add_cos_sq eta0; linear_combination (-(a ^ 2) - e1 ^ 2) * this
  obtain ⟨cx, cy⟩ := rot_solve a e1 wx wy hD
  have hne : a ^ 2 + e1 ^ 2 ≠ 0 := by rw [hD, hwx, hwy]; exact hreg
  exact sameAngle_of_rot a e1 wx wy _ eta0 hne cx cy hx0' hy0'
end
end C03
